/-
C09 — merging partial views: order independence and exactly-once at path level, continuing `Lemmas/MergeUnion.lean`.

1. `UEq ea eb x y` / `UEquiv x y`: forests equal up to the order of the siblings at every depth and up to the identities
   (`id`, `parent`), keeping names, types, attributes, comments, texts and the EFFECTIVE file sets (`effOf`, compared as
   sets).  `UEquiv.equivalence`; `isUnion_det`: `IsUnion` determines the result up to `UEquiv`.
2. `isUnion_symm` / `mergeElement_order_indep`: the two load orders of two freshly parsed files (`Fresh`) give `UEquiv`
   results — under `Compat` in both directions AND `Agree` (paired elements have equal texts, types, attributes, comments,
   and the pairing test `mt` is symmetric on the visited siblings).  Without `Agree` it is false: `OrdEx1` (the merge keeps
   the texts of the file loaded first), `OrdEx2` (`mt` is not symmetric between an identifiable element and an equally
   named element without SHORT-NAME: one order pairs them, the other keeps both); `mt_symm_of`: `mt` is symmetric when
   both elements are identifiable or both are not.
3. `merge_paths`: paths(merged) ~ paths(model) ++ `newPaths` (what the new file adds; the paths of paired elements are
   not counted again), `paths_new_common`: paths(new file) ~ `newPaths` ++ `commonPaths`, `commonPaths_sub`,
   `merge_paths_union` (set union; no duplicate path if every path on both sides belongs to a paired couple).
   Needs `merged_itemName` (a merged element keeps its item name: `mergeElement_keeps_first`, from `insertRange_lo_pos`).
   `OrdEx3`: a shared path appears once; the same path under another element name appears twice (not paired).
-/
import AutosarVerif.Lemmas.MergeUnion
import AutosarVerif.Lemmas.IndexDefs
import AutosarVerif.Lemmas.RangeSn

namespace AV.W.MU
open Items AV.PM

/-! ### 1. the shape equivalence `UEquiv` -/

/-- two file sets hold the same files (a local file set is a list of file ids; its order is the load order) -/
def SetEq (s t : List Nat) : Prop := ∀ x, x ∈ s ↔ x ∈ t

theorem SetEq.refl (s : List Nat) : SetEq s s := fun _ => Iff.rfl
theorem SetEq.symm {s t : List Nat} (h : SetEq s t) : SetEq t s := fun x => (h x).symm
theorem SetEq.trans {s t u : List Nat} (h1 : SetEq s t) (h2 : SetEq t u) : SetEq s u := fun x => (h1 x).trans (h2 x)

theorem SetEq.effOf {ea eb : List Nat} (h : SetEq ea eb) (hd : Hdr) : SetEq (effOf ea hd) (effOf eb hd) := by
  unfold AV.W.effOf; split
  · exact h
  · exact SetEq.refl _

/-- two headers agree in everything but the identities (`id`, `parent`): name, type, attributes, comment, and the
EFFECTIVE file set (`ea`, `eb` = effective sets handed down by the parents, `effOf` of `Model/FileOps.lean`) -/
structure HdrEq (ea eb : List Nat) (h h' : Hdr) : Prop where
  name : h.name = h'.name
  ety : h.ety = h'.ety
  attrs : h.attrs = h'.attrs
  comment : h.comment = h'.comment
  eff : SetEq (effOf ea h) (effOf eb h')

theorem HdrEq.refl {ea eb : List Nat} (h : SetEq ea eb) (hd : Hdr) : HdrEq ea eb hd hd :=
  ⟨rfl, rfl, rfl, rfl, h.effOf hd⟩

theorem HdrEq.symm {ea eb : List Nat} {h h' : Hdr} (e : HdrEq ea eb h h') : HdrEq eb ea h' h :=
  ⟨e.name.symm, e.ety.symm, e.attrs.symm, e.comment.symm, e.eff.symm⟩

theorem HdrEq.trans {ea eb ec : List Nat} {h h' h'' : Hdr} (e1 : HdrEq ea eb h h') (e2 : HdrEq eb ec h' h'') :
    HdrEq ea ec h h'' :=
  ⟨e1.name.trans e2.name, e1.ety.trans e2.ety, e1.attrs.trans e2.attrs, e1.comment.trans e2.comment, e1.eff.trans e2.eff⟩

/-- `UEq ea eb x y`: the forests `x` (its top-level nodes inherit the effective file set `ea`) and `y` (inherited set `eb`)
are equal up to the order of the siblings at every depth and up to the identities: the same texts (in order), and a
matching `ps` of the child elements of `x` with those of `y` — matched elements have `HdrEq` headers and, recursively,
`UEq` contents -/
inductive UEq : List Nat → List Nat → Items → Items → Prop
  | mk (ea eb : List Nat) (x y : Items) (ps : List (Ch × Ch)) :
      x.texts = y.texts →
      x.childElems.Perm (ps.map (·.1)) →
      y.childElems.Perm (ps.map (·.2)) →
      (∀ p ∈ ps, HdrEq ea eb p.1.1 p.2.1) →
      (∀ p ∈ ps, UEq (effOf ea p.1.1) (effOf eb p.2.1) p.1.2 p.2.2) →
      UEq ea eb x y

/-- the shape equivalence: `UEq` whatever (equal) effective file set the two forests inherit -/
def UEquiv (x y : Items) : Prop := ∀ ea eb, SetEq ea eb → UEq ea eb x y

theorem UEq.of_children_refl {ea eb : List Nat} (he : SetEq ea eb) (x : Items)
    (h : ∀ c ∈ x.childElems, ∀ ea eb, SetEq ea eb → UEq ea eb c.2 c.2) : UEq ea eb x x := by
  refine UEq.mk ea eb x x (x.childElems.map fun c => (c, c)) rfl ?_ ?_ ?_ ?_
  · rw [List.map_map]; exact List.Perm.of_eq (List.map_id _).symm
  · rw [List.map_map]; exact List.Perm.of_eq (List.map_id _).symm
  · intro p hp
    obtain ⟨c, _, rfl⟩ := List.mem_map.mp hp
    exact HdrEq.refl he _
  · intro p hp
    obtain ⟨c, hc, rfl⟩ := List.mem_map.mp hp
    exact h c hc _ _ (he.effOf _)

theorem UEq.refl_aux (x : Items) :
    (∀ ea eb, SetEq ea eb → UEq ea eb x x) ∧ (∀ c ∈ x.childElems, ∀ ea eb, SetEq ea eb → UEq ea eb c.2 c.2) := by
  induction x with
  | nil =>
    have h2 : ∀ c ∈ Items.nil.childElems, ∀ ea eb, SetEq ea eb → UEq ea eb c.2 c.2 := by intro c hc; cases hc
    exact ⟨fun ea eb he => UEq.of_children_refl he _ h2, h2⟩
  | elem h k r ihk ihr =>
    have h2 : ∀ c ∈ (Items.elem h k r).childElems, ∀ ea eb, SetEq ea eb → UEq ea eb c.2 c.2 := by
      intro c hc
      simp only [Items.childElems, List.mem_cons] at hc
      rcases hc with hc | hc
      · subst hc; exact ihk.1
      · exact ihr.2 c hc
    exact ⟨fun ea eb he => UEq.of_children_refl he _ h2, h2⟩
  | text c r ihr =>
    have h2 : ∀ c' ∈ (Items.text c r).childElems, ∀ ea eb, SetEq ea eb → UEq ea eb c'.2 c'.2 := ihr.2
    exact ⟨fun ea eb he => UEq.of_children_refl he _ h2, h2⟩

theorem UEq.refl {ea eb : List Nat} (he : SetEq ea eb) (x : Items) : UEq ea eb x x := (UEq.refl_aux x).1 ea eb he

theorem UEq.symm {ea eb : List Nat} {x y : Items} (h : UEq ea eb x y) : UEq eb ea y x := by
  induction h with
  | mk ea eb x y ps htx hp1 hp2 hh _ ih =>
    refine UEq.mk eb ea y x (ps.map fun p => (p.2, p.1)) htx.symm ?_ ?_ ?_ ?_
    · rw [List.map_map]; exact hp2
    · rw [List.map_map]; exact hp1
    · intro p hp
      obtain ⟨q, hq, rfl⟩ := List.mem_map.mp hp
      exact (hh q hq).symm
    · intro p hp
      obtain ⟨q, hq, rfl⟩ := List.mem_map.mp hp
      exact ih q hq

/-- two matchings that share the middle list (up to order) compose -/
theorem compose_pairs {α β γ : Type} : ∀ (ps : List (α × β)) (qs : List (β × γ)),
    (ps.map (·.2)).Perm (qs.map (·.1)) →
    ∃ ts : List ((α × β) × (β × γ)), ts.map (·.1) = ps ∧ (ts.map (·.2)).Perm qs ∧ ∀ t ∈ ts, t.1.2 = t.2.1 := by
  intro ps
  induction ps with
  | nil =>
    intro qs h
    have : qs = [] := by
      have := h.length_eq
      simp only [List.map_nil, List.length_nil, List.length_map] at this
      exact List.eq_nil_of_length_eq_zero this.symm
    subst this
    exact ⟨[], rfl, List.Perm.refl _, by intro t ht; cases ht⟩
  | cons p ps ih =>
    intro qs h
    have hmem : p.2 ∈ qs.map (·.1) := h.mem_iff.mp (by simp)
    obtain ⟨q, hq, hqe⟩ := List.mem_map.mp hmem
    obtain ⟨s, t, rfl⟩ := List.append_of_mem hq
    have hperm : (s ++ q :: t).Perm (q :: (s ++ t)) := List.perm_middle
    have h2 : (p.2 :: ps.map (·.2)).Perm (p.2 :: (s ++ t).map (·.1)) := by
      have := h.trans (hperm.map (·.1))
      simpa only [List.map_cons, hqe] using this
    obtain ⟨ts, h1, h3, h4⟩ := ih (s ++ t) h2.cons_inv
    refine ⟨(p, q) :: ts, by simp [h1], ?_, ?_⟩
    · simp only [List.map_cons]
      exact (h3.cons q).trans hperm.symm
    · intro x hx
      rcases List.mem_cons.mp hx with hx | hx
      · subst hx; exact hqe.symm
      · exact h4 x hx

theorem UEq.trans {ea eb ec : List Nat} {x y z : Items} (h1 : UEq ea eb x y) (h2 : UEq eb ec y z) : UEq ea ec x z := by
  induction h1 generalizing ec z with
  | mk ea eb x y ps htx hp1 hp2 hh _ ih =>
    cases h2 with
    | mk _ _ _ _ qs htx' hq1 hq2 hh' hr' =>
      obtain ⟨ts, e1, e2, e3⟩ := compose_pairs ps qs (hp2.symm.trans hq1)
      have hmem1 : ∀ t ∈ ts, t.1 ∈ ps := by
        intro t ht; rw [← e1]; exact List.mem_map.mpr ⟨t, ht, rfl⟩
      have hmem2 : ∀ t ∈ ts, t.2 ∈ qs := by
        intro t ht; exact e2.mem_iff.mp (List.mem_map.mpr ⟨t, ht, rfl⟩)
      refine UEq.mk ea ec x z (ts.map fun t => (t.1.1, t.2.2)) (htx.trans htx') ?_ ?_ ?_ ?_
      · rw [List.map_map]
        refine hp1.trans (List.Perm.of_eq ?_)
        rw [← e1, List.map_map]; rfl
      · rw [List.map_map]
        refine hq2.trans ?_
        have := (e2.map (·.2)).symm
        rw [List.map_map] at this
        exact this
      · intro p hp
        obtain ⟨t, ht, rfl⟩ := List.mem_map.mp hp
        have a1 := hh t.1 (hmem1 t ht)
        have a2 := hh' t.2 (hmem2 t ht)
        rw [← e3 t ht] at a2
        exact a1.trans a2
      · intro p hp
        obtain ⟨t, ht, rfl⟩ := List.mem_map.mp hp
        have a2 := hr' t.2 (hmem2 t ht)
        rw [← e3 t ht] at a2
        exact ih t.1 (hmem1 t ht) a2

theorem UEquiv.refl (x : Items) : UEquiv x x := fun _ _ he => UEq.refl he x

theorem UEquiv.symm {x y : Items} (h : UEquiv x y) : UEquiv y x := fun ea eb he => (h eb ea he.symm).symm

theorem UEquiv.trans {x y z : Items} (h1 : UEquiv x y) (h2 : UEquiv y z) : UEquiv x z :=
  fun ea eb he => (h1 ea ea (SetEq.refl _)).trans (h2 ea eb he)

/-- `UEquiv` is an equivalence relation -/
theorem UEquiv.equivalence : Equivalence UEquiv := ⟨UEquiv.refl, UEquiv.symm, UEquiv.trans⟩

/-! ### `IsUnion` determines the result up to `UEquiv` -/

theorem size_child_lt (its : Items) : ∀ c ∈ its.childElems, c.2.size < its.size := by
  induction its with
  | nil => intro c hc; cases hc
  | elem h k r _ ihr =>
    intro c hc
    simp only [Items.childElems, List.mem_cons] at hc
    simp only [Items.size]
    rcases hc with hc | hc
    · subst hc; simp only; omega
    · have := ihr c hc; omega
  | text c r ihr =>
    intro c' hc
    have := ihr c' hc
    simp only [Items.size]; omega

/-- a matching built from a pointwise relation between two lists and a common tail -/
theorem UEq.of_matching {ea eb : List Nat} {x y : Items} (ps : List (Ch × Ch)) (htx : x.texts = y.texts)
    (hp1 : x.childElems.Perm (ps.map (·.1))) (hp2 : y.childElems.Perm (ps.map (·.2)))
    (hh : ∀ p ∈ ps, HdrEq ea eb p.1.1 p.2.1) (hr : ∀ p ∈ ps, UEquiv p.1.2 p.2.2) : UEq ea eb x y :=
  UEq.mk ea eb x y ps htx hp1 hp2 hh (fun p hp => hr p hp _ _ (hh p hp).eff)

section
variable (S : Spec) (V : Env)

theorem childrenU_det (newFile : Nat) (n : Nat)
    (ih : ∀ pid files ka kb kr kr', ka.size < n → IsUnion S V newFile pid files ka kb kr →
      IsUnion S V newFile pid files ka kb kr' → UEquiv kr kr')
    (files : List Nat) (B : List Ch) : ∀ (A rs rs' : List Ch), (∀ a ∈ A, a.2.size < n) →
      ChildrenU S V newFile files B A rs → ChildrenU S V newFile files B A rs' →
      ∃ ps : List (Ch × Ch), rs = ps.map (·.1) ∧ rs' = ps.map (·.2) ∧ (∀ p ∈ ps, p.1.1 = p.2.1) ∧
        ∀ p ∈ ps, UEquiv p.1.2 p.2.2 := by
  intro A
  induction A with
  | nil =>
    intro rs rs' _ h1 h2
    cases h1; cases h2
    refine ⟨[], rfl, rfl, ?_, ?_⟩
    · intro p hp; cases hp
    · intro p hp; cases hp
  | cons a A ihA =>
    intro rs rs' hsz h1 h2
    have hszA : ∀ a' ∈ A, a'.2.size < n := fun a' h => hsz a' (List.mem_cons_of_mem _ h)
    cases h1 with
    | aOnly _ _ _ _ rs1 hf1 hc1 =>
      cases h2 with
      | aOnly _ _ _ _ rs2 hf2 hc2 =>
        obtain ⟨ps, e1, e2, e3, e4⟩ := ihA rs1 rs2 hszA hc1 hc2
        refine ⟨((restrictTo files a.1, a.2), (restrictTo files a.1, a.2)) :: ps, by simp [e1], by simp [e2], ?_, ?_⟩
        · intro p hp
          rcases List.mem_cons.mp hp with hp | hp
          · subst hp; rfl
          · exact e3 p hp
        · intro p hp
          rcases List.mem_cons.mp hp with hp | hp
          · subst hp; exact UEquiv.refl _
          · exact e4 p hp
      | pair _ _ _ b2 r2 _ rs2 hf2 hu2 hc2 => rw [hf1] at hf2; cases hf2
    | pair _ _ _ b1 r1 _ rs1 hf1 hu1 hc1 =>
      cases h2 with
      | aOnly _ _ _ _ rs2 hf2 hc2 => rw [hf1] at hf2; cases hf2
      | pair _ _ _ b2 r2 _ rs2 hf2 hu2 hc2 =>
        rw [hf1] at hf2
        cases hf2
        obtain ⟨ps, e1, e2, e3, e4⟩ := ihA rs1 rs2 hszA hc1 hc2
        have hr := ih _ _ _ _ _ _ (hsz a (List.mem_cons_self ..)) hu1 hu2
        refine ⟨((addFile newFile a.1, r1), (addFile newFile a.1, r2)) :: ps, by simp [e1], by simp [e2], ?_, ?_⟩
        · intro p hp
          rcases List.mem_cons.mp hp with hp | hp
          · subst hp; rfl
          · exact e3 p hp
        · intro p hp
          rcases List.mem_cons.mp hp with hp | hp
          · subst hp; exact hr
          · exact e4 p hp

theorem isUnion_det_aux (newFile : Nat) : ∀ (n : Nat) (pid : Nat) (files : List Nat) (ka kb kr kr' : Items), ka.size < n →
    IsUnion S V newFile pid files ka kb kr → IsUnion S V newFile pid files ka kb kr' → UEquiv kr kr' := by
  intro n
  induction n with
  | zero => intro _ _ _ _ _ _ h; omega
  | succ n ih =>
    intro pid files ka kb kr kr' hsz h1 h2
    cases h1 with
    | mk _ _ _ _ _ rs htx hperm hch =>
      cases h2 with
      | mk _ _ _ _ _ rs' htx' hperm' hch' =>
        obtain ⟨ps, e1, e2, e3, e4⟩ := childrenU_det S V newFile n ih files kb.childElems ka.childElems rs rs'
          (fun a ha => by have := size_child_lt ka a ha; omega) hch hch'
        intro ea eb he
        let X := (bOnlyOf S V ka.childElems kb.childElems).map (imp pid newFile)
        refine UEq.of_matching (ps ++ X.map fun c => (c, c)) (htx.trans htx'.symm) ?_ ?_ ?_ ?_
        · rw [List.map_append, List.map_map, ← e1]
          exact hperm.trans (List.Perm.of_eq (by congr 1; exact (List.map_id _).symm))
        · rw [List.map_append, List.map_map, ← e2]
          exact hperm'.trans (List.Perm.of_eq (by congr 1; exact (List.map_id _).symm))
        · intro p hp
          rcases List.mem_append.mp hp with hp | hp
          · rw [e3 p hp]; exact HdrEq.refl he _
          · obtain ⟨c, _, rfl⟩ := List.mem_map.mp hp
            exact HdrEq.refl he _
        · intro p hp
          rcases List.mem_append.mp hp with hp | hp
          · exact e4 p hp
          · obtain ⟨c, _, rfl⟩ := List.mem_map.mp hp
            exact UEquiv.refl _

/-- **`IsUnion` determines the result up to `UEquiv`** -/
theorem isUnion_det (newFile pid : Nat) (files : List Nat) (ka kb kr kr' : Items)
    (h1 : IsUnion S V newFile pid files ka kb kr) (h2 : IsUnion S V newFile pid files ka kb kr') : UEquiv kr kr' :=
  isUnion_det_aux S V newFile (ka.size + 1) pid files ka kb kr kr' (Nat.lt_succ_self _) h1 h2

end

/-! ### 2. symmetry of the specification: the two load orders of two files -/

theorem nodup_map_on {α β : Type} (f : α → β) : ∀ (l : List α), l.Nodup → (∀ x ∈ l, ∀ y ∈ l, f x = f y → x = y) →
    (l.map f).Nodup := by
  intro l
  induction l with
  | nil => intro _ _; exact List.nodup_nil
  | cons a r ih =>
    intro hnd hinj
    simp only [List.nodup_cons] at hnd
    simp only [List.map_cons, List.nodup_cons]
    refine ⟨?_, ih hnd.2 (fun x hx y hy => hinj x (List.mem_cons_of_mem _ hx) y (List.mem_cons_of_mem _ hy))⟩
    intro hm
    obtain ⟨y, hy, hfy⟩ := List.mem_map.mp hm
    have := hinj y (List.mem_cons_of_mem _ hy) a (List.mem_cons_self ..) hfy
    subst this
    exact hnd.1 hy

theorem filter_fst_map {α β : Type} (p : α → Bool) (zs : List (α × β)) :
    (zs.filter fun z => p z.1).map (·.1) = (zs.map (·.1)).filter p := by
  induction zs with
  | nil => rfl
  | cons z r ih =>
    simp only [List.filter_cons, List.map_cons]
    split <;> simp [ih]

section
variable (S : Spec) (V : Env)

/-- the partner of a child of the model among the children `B` of the new file's element -/
def partnerOf (B : List Ch) (a : Ch) : Ch := (B.find? (mt S V a)).getD a
def hasP (B : List Ch) (a : Ch) : Bool := (B.find? (mt S V a)).isSome

/-- what the specification says about one child `a` of the model: `x` is its image in the union -/
def CU (newFile : Nat) (files : List Nat) (B : List Ch) (a x : Ch) : Prop :=
  (B.find? (mt S V a) = none ∧ x = (restrictTo files a.1, a.2)) ∨
  ∃ b r, B.find? (mt S V a) = some b ∧ IsUnion S V newFile a.1.id (effFiles a.1 files) a.2 b.2 r ∧
    x = (addFile newFile a.1, r)

theorem childrenU_pairs (newFile : Nat) (files : List Nat) (B : List Ch) : ∀ (A rs : List Ch),
    ChildrenU S V newFile files B A rs →
    ∃ zs : List (Ch × Ch), zs.map (·.1) = A ∧ zs.map (·.2) = rs ∧ ∀ z ∈ zs, CU S V newFile files B z.1 z.2 := by
  intro A
  induction A with
  | nil =>
    intro rs h
    cases h
    refine ⟨[], rfl, rfl, ?_⟩
    intro z hz; cases hz
  | cons a A ih =>
    intro rs h
    cases h with
    | aOnly _ _ _ _ rs1 hf hc =>
      obtain ⟨zs, e1, e2, e3⟩ := ih rs1 hc
      refine ⟨(a, (restrictTo files a.1, a.2)) :: zs, by simp [e1], by simp [e2], ?_⟩
      intro z hz
      rcases List.mem_cons.mp hz with hz | hz
      · subst hz; exact Or.inl ⟨hf, rfl⟩
      · exact e3 z hz
    | pair _ _ _ b r _ rs1 hf hu hc =>
      obtain ⟨zs, e1, e2, e3⟩ := ih rs1 hc
      refine ⟨(a, (addFile newFile a.1, r)) :: zs, by simp [e1], by simp [e2], ?_⟩
      intro z hz
      rcases List.mem_cons.mp hz with hz | hz
      · subst hz; exact Or.inr ⟨b, r, hf, hu, rfl⟩
      · exact e3 z hz

theorem hasP_iff {B : List Ch} {a : Ch} : hasP S V B a = true ↔ ∃ b ∈ B, mt S V a b = true := by
  unfold hasP
  rw [List.find?_isSome]

theorem hasP_false_iff {B : List Ch} {a : Ch} : hasP S V B a = false ↔ B.find? (mt S V a) = none := by
  unfold hasP
  cases B.find? (mt S V a) <;> simp

/-- with a symmetric pairing test, the partnerless children of the new file are those without partner in the model -/
theorem bOnlyOf_eq_filter {A B : List Ch} (sym : ∀ a ∈ A, ∀ b ∈ B, mt S V a b = mt S V b a) :
    bOnlyOf S V A B = B.filter fun b => !hasP S V A b := by
  unfold bOnlyOf
  apply List.filter_congr
  intro b hb
  congr 1
  cases h : hasP S V A b with
  | true =>
    obtain ⟨a, ha, hm⟩ := (hasP_iff S V).mp h
    exact List.any_eq_true.mpr ⟨a, ha, by rw [sym a ha b hb]; exact hm⟩
  | false =>
    apply List.any_eq_false.mpr
    intro a ha hm
    have : hasP S V A b = true := (hasP_iff S V).mpr ⟨a, ha, by rw [← sym a ha b hb]; exact hm⟩
    rw [h] at this; cases this

/-- the partners of the paired children of `A` are exactly the paired children of `B` -/
theorem partners_perm {A B : List Ch} (ndA : A.Nodup) (ndB : B.Nodup)
    (k1 : ∀ a ∈ A, ∀ b ∈ B, ∀ b' ∈ B, mt S V a b = true → mt S V a b' = true → b = b')
    (k1' : ∀ b ∈ B, ∀ a ∈ A, ∀ a' ∈ A, mt S V b a = true → mt S V b a' = true → a = a')
    (sym : ∀ a ∈ A, ∀ b ∈ B, mt S V a b = mt S V b a) :
    ((A.filter (hasP S V B)).map (partnerOf S V B)).Perm (B.filter (hasP S V A)) := by
  have hpart : ∀ a ∈ A.filter (hasP S V B), partnerOf S V B a ∈ B ∧ mt S V a (partnerOf S V B a) = true := by
    intro a ha
    have h2 := (List.mem_filter.mp ha).2
    unfold hasP at h2
    unfold partnerOf
    cases hf : B.find? (mt S V a) with
    | none => rw [hf] at h2; cases h2
    | some b => exact ⟨List.mem_of_find?_eq_some hf, List.find?_some hf⟩
  apply (List.perm_ext_iff_of_nodup ?_ (ndB.sublist List.filter_sublist)).mpr
  · intro b
    constructor
    · intro hb
      obtain ⟨a, ha, rfl⟩ := List.mem_map.mp hb
      obtain ⟨h1, h2⟩ := hpart a ha
      have haA := (List.mem_filter.mp ha).1
      exact List.mem_filter.mpr ⟨h1, (hasP_iff S V).mpr ⟨a, haA, by rw [← sym a haA _ h1]; exact h2⟩⟩
    · intro hb
      obtain ⟨hbB, hp⟩ := List.mem_filter.mp hb
      obtain ⟨a, haA, hm⟩ := (hasP_iff S V).mp hp
      have hm' : mt S V a b = true := by rw [sym a haA b hbB]; exact hm
      have haf : a ∈ A.filter (hasP S V B) := List.mem_filter.mpr ⟨haA, (hasP_iff S V).mpr ⟨b, hbB, hm'⟩⟩
      obtain ⟨h1, h2⟩ := hpart a haf
      exact List.mem_map.mpr ⟨a, haf, k1 a haA _ h1 b hbB h2 hm'⟩
  · apply nodup_map_on _ _ (ndA.sublist List.filter_sublist)
    intro x hx y hy hxy
    obtain ⟨hx1, hx2⟩ := hpart x hx
    obtain ⟨hy1, hy2⟩ := hpart y hy
    have hxA := (List.mem_filter.mp hx).1
    have hyA := (List.mem_filter.mp hy).1
    rw [← hxy] at hy2
    rw [sym x hxA _ hx1] at hx2
    rw [sym y hyA _ hx1] at hy2
    exact k1' _ hx1 x hxA y hyA hx2 hy2

end

section
variable (S : Spec) (V : Env)

/-- one level of the symmetry: the children of the two unions can be matched — a child only in `A` with itself, a child
only in `B` with itself, a pair `(a, b)` of the first order with the pair `(b, a)` of the second order; `R` is what the
caller wants to know about matched elements -/
theorem sym_level (fA fB : Nat) (filesA filesB : List Nat) (pidA pidB : Nat) (A B : List Ch)
    (ndA : A.Nodup) (ndB : B.Nodup)
    (k1 : ∀ a ∈ A, ∀ b ∈ B, ∀ b' ∈ B, mt S V a b = true → mt S V a b' = true → b = b')
    (k1' : ∀ b ∈ B, ∀ a ∈ A, ∀ a' ∈ A, mt S V b a = true → mt S V b a' = true → a = a')
    (sym : ∀ a ∈ A, ∀ b ∈ B, mt S V a b = mt S V b a)
    (R : Ch → Ch → Prop)
    (hA : ∀ a ∈ A, B.find? (mt S V a) = none → R (restrictTo filesA a.1, a.2) (imp pidB fA a))
    (hB : ∀ b ∈ B, A.find? (mt S V b) = none → R (imp pidA fB b) (restrictTo filesB b.1, b.2))
    (hP : ∀ a ∈ A, ∀ b ∈ B, mt S V a b = true → ∀ r r',
      IsUnion S V fB a.1.id (effFiles a.1 filesA) a.2 b.2 r → IsUnion S V fA b.1.id (effFiles b.1 filesB) b.2 a.2 r' →
      R (addFile fB a.1, r) (addFile fA b.1, r'))
    (rs rs' : List Ch) (h1 : ChildrenU S V fB filesA B A rs) (h2 : ChildrenU S V fA filesB A B rs') :
    ∃ ps : List (Ch × Ch), (rs ++ (bOnlyOf S V A B).map (imp pidA fB)).Perm (ps.map (·.1)) ∧
      (rs' ++ (bOnlyOf S V B A).map (imp pidB fA)).Perm (ps.map (·.2)) ∧ ∀ p ∈ ps, R p.1 p.2 := by
  obtain ⟨zsA, eA1, eA2, eA3⟩ := childrenU_pairs S V fB filesA B A rs h1
  obtain ⟨zsB, eB1, eB2, eB3⟩ := childrenU_pairs S V fA filesB A B rs' h2
  have sym' : ∀ b ∈ B, ∀ a ∈ A, mt S V b a = mt S V a b := fun b hb a ha => (sym a ha b hb).symm
  -- the four parts
  let zsA1 := zsA.filter fun z => hasP S V B z.1
  let zsA0 := zsA.filter fun z => !hasP S V B z.1
  let zsB1 := zsB.filter fun z => hasP S V A z.1
  let zsB0 := zsB.filter fun z => !hasP S V A z.1
  have hA1 : zsA1.map (·.1) = A.filter (hasP S V B) := by rw [← eA1]; exact filter_fst_map _ _
  have hA0 : zsA0.map (·.1) = A.filter (fun a => !hasP S V B a) := by
    rw [← eA1]; exact filter_fst_map (fun a => !hasP S V B a) _
  have hB1 : zsB1.map (·.1) = B.filter (hasP S V A) := by rw [← eB1]; exact filter_fst_map _ _
  have hB0 : zsB0.map (·.1) = B.filter (fun b => !hasP S V A b) := by
    rw [← eB1]; exact filter_fst_map (fun b => !hasP S V A b) _
  have hpp := partners_perm S V ndA ndB k1 k1' sym
  have hkey : ((zsA1.map fun z => (z, partnerOf S V B z.1)).map (·.2)).Perm ((zsB1.map fun z => (z.1, z)).map (·.1)) := by
    rw [List.map_map, List.map_map]
    have e1 : zsA1.map ((fun x : (Ch × Ch) × Ch => x.2) ∘ fun z => (z, partnerOf S V B z.1)) =
        (zsA1.map (·.1)).map (partnerOf S V B) := by rw [List.map_map]; rfl
    have e2 : zsB1.map ((fun x : Ch × (Ch × Ch) => x.1) ∘ fun z => (z.1, z)) = zsB1.map (·.1) := rfl
    rw [e1, e2, hA1, hB1]
    exact hpp
  obtain ⟨ts, t1, t2, t3⟩ := compose_pairs _ _ hkey
  refine ⟨ts.map (fun t => (t.1.1.2, t.2.2.2)) ++ (zsA0.map (fun z => (z.2, imp pidB fA z.1)) ++
    zsB0.map (fun z => (imp pidA fB z.1, z.2))), ?_, ?_, ?_⟩
  · -- first components
    have e1 : (ts.map fun t => (t.1.1.2, t.2.2.2)).map (·.1) = zsA1.map (·.2) := by
      have : (ts.map fun t => (t.1.1.2, t.2.2.2)).map (·.1) = (ts.map (·.1)).map (·.1.2) := by
        rw [List.map_map, List.map_map]; rfl
      rw [this, t1, List.map_map]; rfl
    have e2 : (zsA0.map fun z => (z.2, imp pidB fA z.1)).map (·.1) = zsA0.map (·.2) := by
      rw [List.map_map]; rfl
    have e3 : (zsB0.map fun z => (imp pidA fB z.1, z.2)).map (·.1) = (bOnlyOf S V A B).map (imp pidA fB) := by
      rw [bOnlyOf_eq_filter S V sym, ← hB0, List.map_map, List.map_map]; rfl
    rw [List.map_append, List.map_append, e1, e2, e3, ← List.append_assoc]
    refine List.Perm.append ?_ (List.Perm.refl _)
    rw [← eA2]
    exact ((List.filter_append_perm (fun z => hasP S V B z.1) zsA).map (·.2)).symm.trans
      (List.Perm.of_eq (List.map_append ..))
  · -- second components
    have e1 : ((ts.map fun t => (t.1.1.2, t.2.2.2)).map (·.2)).Perm (zsB1.map (·.2)) := by
      have : (ts.map fun t => (t.1.1.2, t.2.2.2)).map (·.2) = (ts.map (·.2)).map (·.2.2) := by
        rw [List.map_map, List.map_map]; rfl
      rw [this]
      refine (t2.map _).trans (List.Perm.of_eq ?_)
      rw [List.map_map]; rfl
    have e2 : (zsA0.map fun z => (z.2, imp pidB fA z.1)).map (·.2) = (bOnlyOf S V B A).map (imp pidB fA) := by
      rw [bOnlyOf_eq_filter S V sym', ← hA0, List.map_map, List.map_map]; rfl
    have e3 : (zsB0.map fun z => (imp pidA fB z.1, z.2)).map (·.2) = zsB0.map (·.2) := by
      rw [List.map_map]; rfl
    rw [List.map_append, List.map_append, e2, e3]
    refine List.Perm.trans ?_ (List.Perm.append e1.symm List.perm_append_comm)
    rw [← List.append_assoc]
    refine List.Perm.append ?_ (List.Perm.refl _)
    rw [← eB2]
    exact ((List.filter_append_perm (fun z => hasP S V A z.1) zsB).map (·.2)).symm.trans
      (List.Perm.of_eq (List.map_append ..))
  · intro p hp
    have memA : ∀ z ∈ zsA, z.1 ∈ A := fun z hz => by rw [← eA1]; exact List.mem_map.mpr ⟨z, hz, rfl⟩
    have memB : ∀ z ∈ zsB, z.1 ∈ B := fun z hz => by rw [← eB1]; exact List.mem_map.mpr ⟨z, hz, rfl⟩
    rcases List.mem_append.mp hp with hp | hp
    · obtain ⟨t, ht, rfl⟩ := List.mem_map.mp hp
      have m1 : t.1 ∈ zsA1.map fun z => (z, partnerOf S V B z.1) := by
        rw [← t1]; exact List.mem_map.mpr ⟨t, ht, rfl⟩
      have m2 : t.2 ∈ zsB1.map fun z => (z.1, z) := t2.mem_iff.mp (List.mem_map.mpr ⟨t, ht, rfl⟩)
      obtain ⟨z, hz, hzt⟩ := List.mem_map.mp m1
      obtain ⟨z', hz', hzt'⟩ := List.mem_map.mp m2
      have h3 := t3 t ht
      rw [← hzt, ← hzt'] at h3
      simp only at h3
      obtain ⟨hzA, hzP⟩ := List.mem_filter.mp hz
      obtain ⟨hzB, hzP'⟩ := List.mem_filter.mp hz'
      have e1 : t.1.1.2 = z.2 := by rw [← hzt]
      have e2 : t.2.2.2 = z'.2 := by rw [← hzt']
      simp only [e1, e2]
      rcases eA3 z hzA with ⟨hn, _⟩ | ⟨b, r, hf, hu, hx⟩
      · rw [(hasP_false_iff S V).mpr hn] at hzP; cases hzP
      · rcases eB3 z' hzB with ⟨hn, _⟩ | ⟨a', r', hf', hu', hx'⟩
        · rw [(hasP_false_iff S V).mpr hn] at hzP'; cases hzP'
        · have hb : b = z'.1 := by rw [← h3]; simp only [partnerOf, hf, Option.getD_some]
          subst hb
          have hbB := memB z' hzB
          have haA := memA z hzA
          have ha'A := List.mem_of_find?_eq_some hf'
          have hm1 : mt S V z.1 z'.1 = true := List.find?_some hf
          have hm2 : mt S V z'.1 a' = true := List.find?_some hf'
          have ha : a' = z.1 := k1' _ hbB a' ha'A z.1 haA hm2 (by rw [sym' _ hbB _ haA]; exact hm1)
          subst ha
          rw [hx, hx']
          exact hP _ haA _ hbB hm1 r r' hu hu'
    · rcases List.mem_append.mp hp with hp | hp
      · obtain ⟨z, hz, rfl⟩ := List.mem_map.mp hp
        obtain ⟨hzA, hzP⟩ := List.mem_filter.mp hz
        rcases eA3 z hzA with ⟨hn, hx⟩ | ⟨b, r, hf, _, _⟩
        · simp only [hx]; exact hA _ (memA z hzA) hn
        · have : hasP S V B z.1 = true := by simp only [hasP, hf, Option.isSome_some]
          rw [this] at hzP; cases hzP
      · obtain ⟨z, hz, rfl⟩ := List.mem_map.mp hp
        obtain ⟨hzB, hzP⟩ := List.mem_filter.mp hz
        rcases eB3 z hzB with ⟨hn, hx⟩ | ⟨b, r, hf, _, _⟩
        · simp only [hx]; exact hB _ (memB z hzB) hn
        · have : hasP S V A z.1 = true := by simp only [hasP, hf, Option.isSome_some]
          rw [this] at hzP; cases hzP

end

/-- a freshly parsed forest: no element has a file set of its own -/
def Fresh (its : Items) : Prop := ∀ h ∈ its.hdrs, h.files = []

theorem Fresh.child {its : Items} (hf : Fresh its) : ∀ c ∈ its.childElems, c.1.files = [] ∧ Fresh c.2 := by
  induction its with
  | nil => intro c hc; cases hc
  | elem h k r _ ihr =>
    intro c hc
    simp only [Items.childElems, List.mem_cons] at hc
    rcases hc with hc | hc
    · subst hc
      exact ⟨hf _ (by simp [Items.hdrs]), fun x hx => hf x (by simp [Items.hdrs, hx])⟩
    · exact ihr (fun x hx => hf x (by simp [Items.hdrs, hx])) c hc
  | text c r ihr =>
    intro c' hc
    exact ihr (fun x hx => hf x (by simpa [Items.hdrs] using hx)) c' hc

theorem nodup_of_map {α β : Type} (f : α → β) {l : List α} (h : (l.map f).Nodup) : l.Nodup := by
  unfold List.Nodup at h ⊢
  exact (List.pairwise_map.mp h).imp (fun hne heq => hne (by rw [heq]))

section
variable (S : Spec) (V : Env)

/-- what the two files must agree on for the load order not to matter: the merge keeps the texts, attributes, comments
and types of the element that was loaded FIRST and never compares them; and the pairing test `mt` is not symmetric when one
of two equally named elements is identifiable (has a SHORT-NAME) and the other is not -/
inductive Agree : Items → Items → Prop
  | mk (ka kb : Items) :
      ka.texts = kb.texts →
      (∀ a ∈ ka.childElems, ∀ b ∈ kb.childElems, mt S V a b = mt S V b a) →
      (∀ a ∈ ka.childElems, ∀ b ∈ kb.childElems, mt S V a b = true →
        a.1.ety = b.1.ety ∧ a.1.attrs = b.1.attrs ∧ a.1.comment = b.1.comment) →
      (∀ a ∈ ka.childElems, ∀ b ∈ kb.childElems, mt S V a b = true → Agree a.2 b.2) →
      Agree ka kb

theorem isUnion_symm_aux (rk rk' : Nat → Nat → Nat) (fA fB : Nat) (filesA filesB : List Nat)
    (sA : SetEq filesA [fA]) (sB : SetEq filesB [fB]) :
    ∀ (n : Nat) (pidA pidB : Nat) (hA hB : Hdr) (ka kb kr kr' : Items), ka.size < n →
      Compat S V rk hA ka kb → Compat S V rk' hB kb ka → Agree S V ka kb → Fresh ka → Fresh kb →
      IsUnion S V fB pidA filesA ka kb kr → IsUnion S V fA pidB filesB kb ka kr' → UEquiv kr kr' := by
  have neA : filesA.isEmpty = false := by
    cases h : filesA with
    | nil => have := (sA fA).mpr (by simp); rw [h] at this; cases this
    | cons _ _ => rfl
  have neB : filesB.isEmpty = false := by
    cases h : filesB with
    | nil => have := (sB fB).mpr (by simp); rw [h] at this; cases this
    | cons _ _ => rfl
  intro n
  induction n with
  | zero => intro _ _ _ _ _ _ _ _ h; omega
  | succ n ih =>
    intro pidA pidB hA hB ka kb kr kr' hsz cA cB ag frA frB h1 h2
    cases cA with
    | mk _ _ _ levA recA =>
    cases cB with
    | mk _ _ _ levB recB =>
    cases ag with
    | mk _ _ htxt sym hhdr recAg =>
    cases h1 with
    | mk _ _ _ _ _ rs htx hperm hch =>
    cases h2 with
    | mk _ _ _ _ _ rs' htx' hperm' hch' =>
    have ndA := nodup_of_map _ levA.idA
    have ndB := nodup_of_map _ levA.idBnd
    let R : Ch → Ch → Prop := fun x y => (∀ ea eb, SetEq ea eb → HdrEq ea eb x.1 y.1) ∧ UEquiv x.2 y.2
    obtain ⟨ps, p1, p2, p3⟩ := sym_level S V fA fB filesA filesB pidA pidB ka.childElems kb.childElems ndA ndB
      levA.k1 levB.k1 sym R
      (by
        intro a ha _
        have fa := (frA.child a ha).1
        refine ⟨?_, UEquiv.refl _⟩
        intro ea eb _
        refine ⟨?_, ?_, ?_, ?_, ?_⟩
        · simp only [restrictTo, imp]; split <;> rfl
        · simp only [restrictTo, imp]; split <;> rfl
        · simp only [restrictTo, imp]; split <;> rfl
        · simp only [restrictTo, imp]; split <;> rfl
        · simp only [restrictTo, imp, fa, List.isEmpty_nil, if_true, effOf, neA, List.nil_append]
          exact sA)
      (by
        intro b hb _
        have fb := (frB.child b hb).1
        refine ⟨?_, UEquiv.refl _⟩
        intro ea eb _
        refine ⟨?_, ?_, ?_, ?_, ?_⟩
        · simp only [restrictTo, imp]; split <;> rfl
        · simp only [restrictTo, imp]; split <;> rfl
        · simp only [restrictTo, imp]; split <;> rfl
        · simp only [restrictTo, imp]; split <;> rfl
        · simp only [restrictTo, imp, fb, List.isEmpty_nil, if_true, effOf, neB, List.nil_append]
          exact sB.symm)
      (by
        intro a ha b hb hm r r' hu hu'
        have fa := frA.child a ha
        have fb := frB.child b hb
        have e1 : addFile fB a.1 = a.1 := by simp [addFile, fa.1]
        have e2 : addFile fA b.1 = b.1 := by simp [addFile, fb.1]
        have e3 : effFiles a.1 filesA = filesA := by simp [effFiles, fa.1]
        have e4 : effFiles b.1 filesB = filesB := by simp [effFiles, fb.1]
        rw [e1, e2]
        rw [e3] at hu
        rw [e4] at hu'
        have hm' : mt S V b a = true := by rw [← sym a ha b hb]; exact hm
        refine ⟨?_, ih _ _ a.1 b.1 a.2 b.2 r r' (by have := size_child_lt ka a ha; omega)
          (recA a ha b hb hm) (recB b hb a ha hm') (recAg a ha b hb hm) fa.2 fb.2 hu hu'⟩
        intro ea eb he
        obtain ⟨g1, g2, g3⟩ := hhdr a ha b hb hm
        have g0 : a.1.name = b.1.name := mt_name S V hm
        refine ⟨g0, g1, g2, g3, ?_⟩
        simp only [effOf, fa.1, fb.1, List.isEmpty_nil, if_true]
        exact he)
      rs rs' hch hch'
    intro ea eb he
    exact UEq.of_matching ps (htx.trans (htxt.trans htx'.symm)) (hperm.trans p1) (hperm'.trans p2)
      (fun p hp => (p3 p hp).1 ea eb he) (fun p hp => (p3 p hp).2)

/-- **two-file order independence at specification level**: `ka`, `kb` are the contents of two freshly parsed files
`fA`, `fB` (no local file sets), keyed and rank-sorted in both directions, and they `Agree`.  Loading `fA` first (the model
then consists of the file set `filesA` = {`fA`}) and merging `fB` gives, up to `UEquiv`, the same as loading `fB` first
and merging `fA`. -/
theorem isUnion_symm (rk rk' : Nat → Nat → Nat) (fA fB : Nat) (filesA filesB : List Nat)
    (sA : SetEq filesA [fA]) (sB : SetEq filesB [fB]) (pidA pidB : Nat) (hA hB : Hdr) (ka kb kr kr' : Items)
    (cA : Compat S V rk hA ka kb) (cB : Compat S V rk' hB kb ka) (ag : Agree S V ka kb)
    (frA : Fresh ka) (frB : Fresh kb)
    (h1 : IsUnion S V fB pidA filesA ka kb kr) (h2 : IsUnion S V fA pidB filesB kb ka kr') : UEquiv kr kr' :=
  isUnion_symm_aux S V rk rk' fA fB filesA filesB sA sB (ka.size + 1) pidA pidB hA hB ka kb kr kr' (Nat.lt_succ_self _)
    cA cB ag frA frB h1 h2

end

section
variable (S : Spec) (V : Env)

/-- **two-file order independence of the algorithm**: both merges accepted ⇒ the two merged contents are `UEquiv` -/
theorem mergeElement_order_indep (rk rk' : Nat → Nat → Nat) (fverA fverB : Nat → Option Nat) (fA fB minVerA minVerB : Nat)
    (filesA filesB : List Nat) (sA : SetEq filesA [fA]) (sB : SetEq filesB [fB])
    (fuel fuel' : Nat) (hA hB : Hdr) (ka kb kr kr' : Items)
    (cA : Compat S V rk hA ka kb) (cB : Compat S V rk' hB kb ka) (ag : Agree S V ka kb)
    (frA : Fresh ka) (frB : Fresh kb)
    (h1 : mergeElement S V fverA fB minVerB fuel hA ka filesA kb = (kr, none))
    (h2 : mergeElement S V fverB fA minVerA fuel' hB kb filesB ka = (kr', none)) : UEquiv kr kr' :=
  isUnion_symm S V rk rk' fA fB filesA filesB sA sB hA.id hB.id hA hB ka kb kr kr' cA cB ag frA frB
    (mergeElement_isUnion S V rk fverA fB minVerB fuel hA ka filesA kb kr cA h1)
    (mergeElement_isUnion S V rk' fverB fA minVerA fuel' hB kb filesB ka kr' cB h2)

end

/-! ### without `Agree` the load order matters: counterexample 1 (texts of paired elements are not compared) -/

theorem UEq.child_texts {ea eb : List Nat} {x y : Items} (h : UEq ea eb x y) :
    (x.childElems.map fun c => (c.1.name, c.2.texts)).Perm (y.childElems.map fun c => (c.1.name, c.2.texts)) := by
  cases h with
  | mk _ _ _ _ ps _ hp1 hp2 hh hr =>
    refine (hp1.map _).trans (List.Perm.trans (List.Perm.of_eq ?_) (hp2.map _).symm)
    rw [List.map_map, List.map_map]
    apply List.map_congr_left
    intro p hp
    have h1 := (hh p hp).name
    have h2 : p.1.2.texts = p.2.2.texts := by
      cases hr p hp with
      | mk _ _ _ _ _ htx _ _ _ _ => exact htx
    simp only [Function.comp, h1, h2]

theorem UEq.child_count {ea eb : List Nat} {x y : Items} (h : UEq ea eb x y) :
    x.childElems.length = y.childElems.length := by
  have := h.child_texts.length_eq
  simpa using this

theorem compat_leaf (S : Spec) (V : Env) (rk : Nat → Nat → Nat) (h : Hdr) (ka kb : Items)
    (ea : ka.childElems = []) (eb : kb.childElems = []) : Compat S V rk h ka kb := by
  refine Compat.mk _ _ _ ?_ ?_
  · rw [ea, eb]
    refine { idB := ?_, k1 := ?_, k2 := ?_, rank := ?_, inj := ?_, sortA := ?_, sortB := ?_, idA := ?_, idBnd := ?_, idAB := ?_ }
    · intro b hb; cases hb
    · intro a ha; cases ha
    · exact List.Pairwise.nil
    · intro a ha; cases ha
    · intro a ha; cases ha
    · exact List.Pairwise.nil
    · exact List.Pairwise.nil
    · exact List.nodup_nil
    · exact List.nodup_nil
    · intro a ha; cases ha
  · rw [ea]; intro a ha; cases ha

/-- two forests with one child element each, equally named, with leaf contents, are `Compat` -/
theorem compat_single (S : Spec) (V : Env) (rk : Nat → Nat → Nat) (h : Hdr) (ka kb : Items) (a b : Ch)
    (ea : ka.childElems = [a]) (eb : kb.childElems = [b]) (hn : a.1.name = b.1.name) (hid : a.1.id ≠ b.1.id)
    (la : a.2.childElems = []) (lb : b.2.childElems = []) : Compat S V rk h ka kb := by
  refine Compat.mk _ _ _ ?_ ?_
  · rw [ea, eb]
    refine { idB := ?_, k1 := ?_, k2 := ?_, rank := ?_, inj := ?_, sortA := ?_, sortB := ?_, idA := ?_, idBnd := ?_, idAB := ?_ }
    · intro x hx y hy _
      rw [List.mem_singleton.mp hx, List.mem_singleton.mp hy]
    · intro _ _ x hx y hy _ _
      rw [List.mem_singleton.mp hx, List.mem_singleton.mp hy]
    · simp
    · intro x hx y hy hne
      rw [List.mem_singleton.mp hx, List.mem_singleton.mp hy] at hne
      exact absurd hn hne
    · intro x hx y hy _
      rw [List.mem_singleton.mp hx, List.mem_singleton.mp hy]; exact hn
    · simp
    · simp
    · simp
    · simp
    · intro x hx y hy
      rw [List.mem_singleton.mp hx, List.mem_singleton.mp hy]; exact hid
  · rw [ea, eb]
    intro x hx y hy _
    rw [List.mem_singleton.mp hx, List.mem_singleton.mp hy]
    exact compat_leaf S V rk _ _ _ la lb

namespace OrdEx1
open Ex
/-- root of the second file -/
def hR' : Hdr := { id := 10, name := 100, ety := ⟨0, 0⟩, parent := .model 0, attrs := [], files := [2], comment := none }
/-- file 1 (`<R><B>x</B></R>`) loaded first, file 2 (`<R><B>y</B></R>`) merged -/
def res12 := mergeElement toySpec toyEnv fver 2 1 3 hR ka [1] kb
/-- file 2 loaded first, file 1 merged -/
def res21 := mergeElement toySpec toyEnv fver 1 1 3 hR' kb [2] ka

/-- both merges are accepted; the first order keeps `x`, the second keeps `y` -/
theorem results : res12.2 = none ∧ res21.2 = none ∧
    res12.1.childElems.map (fun c => (c.1.name, c.2.texts)) = [(102, [.str [120]])] ∧
    res21.1.childElems.map (fun c => (c.1.name, c.2.texts)) = [(102, [.str [121]])] := by decide

/-- everything but `Agree` holds: both contents are fresh, keyed and rank-sorted in both directions -/
theorem hyps : Compat toySpec toyEnv (fun _ n => n) hR ka kb ∧ Compat toySpec toyEnv (fun _ n => n) hR' kb ka ∧
    Fresh ka ∧ Fresh kb := by
  refine ⟨compat_single _ _ _ _ _ _ (hB 1 (.elem 0), .text (.str [120]) .nil) (hB 11 (.elem 10), .text (.str [121]) .nil)
      rfl rfl rfl (by decide) rfl rfl,
    compat_single _ _ _ _ _ _ (hB 11 (.elem 10), .text (.str [121]) .nil) (hB 1 (.elem 0), .text (.str [120]) .nil)
      rfl rfl rfl (by decide) rfl rfl, ?_, ?_⟩
  · intro h hh
    simp only [ka, Items.hdrs, List.append_nil, List.mem_singleton] at hh
    rw [hh]; rfl
  · intro h hh
    simp only [kb, Items.hdrs, List.append_nil, List.mem_singleton] at hh
    rw [hh]; rfl

/-- … and the two results are NOT `UEquiv`: the load order is observable -/
theorem not_uequiv : ¬ UEquiv res12.1 res21.1 := by
  intro h
  have hp := (h [] [] (SetEq.refl _)).child_texts
  rw [results.2.2.1, results.2.2.2] at hp
  have := hp.mem_iff.mp (List.mem_singleton.mpr rfl)
  simp at this

end OrdEx1

/-! ### counterexample 2: the pairing test is not symmetric (an identifiable element against an equally named element
without SHORT-NAME) -/

theorem compat_nil_single (S : Spec) (V : Env) (rk : Nat → Nat → Nat) (h : Hdr) (ka kb : Items) (b : Ch)
    (ea : ka.childElems = []) (eb : kb.childElems = [b]) : Compat S V rk h ka kb := by
  refine Compat.mk _ _ _ ?_ ?_
  · rw [ea, eb]
    refine { idB := ?_, k1 := ?_, k2 := ?_, rank := ?_, inj := ?_, sortA := ?_, sortB := ?_, idA := ?_, idBnd := ?_, idAB := ?_ }
    · intro x hx y hy _
      rw [List.mem_singleton.mp hx, List.mem_singleton.mp hy]
    · intro a ha; cases ha
    · exact List.Pairwise.nil
    · intro a ha; cases ha
    · intro a ha; cases ha
    · exact List.Pairwise.nil
    · simp
    · exact List.nodup_nil
    · simp
    · intro a ha; cases ha
  · rw [ea]; intro a ha; cases ha

theorem compat_single' (S : Spec) (V : Env) (rk : Nat → Nat → Nat) (h : Hdr) (ka kb : Items) (a b : Ch)
    (ea : ka.childElems = [a]) (eb : kb.childElems = [b]) (hn : a.1.name = b.1.name) (hid : a.1.id ≠ b.1.id)
    (hrec : mt S V a b = true → Compat S V rk a.1 a.2 b.2) : Compat S V rk h ka kb := by
  refine Compat.mk _ _ _ ?_ ?_
  · rw [ea, eb]
    refine { idB := ?_, k1 := ?_, k2 := ?_, rank := ?_, inj := ?_, sortA := ?_, sortB := ?_, idA := ?_, idBnd := ?_, idAB := ?_ }
    · intro x hx y hy _
      rw [List.mem_singleton.mp hx, List.mem_singleton.mp hy]
    · intro _ _ x hx y hy _ _
      rw [List.mem_singleton.mp hx, List.mem_singleton.mp hy]
    · simp
    · intro x hx y hy hne
      rw [List.mem_singleton.mp hx, List.mem_singleton.mp hy] at hne
      exact absurd hn hne
    · intro x hx y hy _
      rw [List.mem_singleton.mp hx, List.mem_singleton.mp hy]; exact hn
    · simp
    · simp
    · simp
    · simp
    · intro x hx y hy
      rw [List.mem_singleton.mp hx, List.mem_singleton.mp hy]; exact hid
  · rw [ea, eb]
    intro x hx y hy hm
    rw [List.mem_singleton.mp hx, List.mem_singleton.mp hy] at hm ⊢
    exact hrec hm

namespace OrdEx2

/-- root `R` (type 0, splittable) with sub-elements `X`* ; `X` (type 1) is a named SEQUENCE: SHORT-NAME, DEFINITION-REF -/
def namedSpec : Spec := { toySpec with
  nTypes := 4, nDefs := 4, nSubs := 3
  subStart := fun t => if t = 0 then 0 else if t = 1 then 1 else 3
  subEnd := fun t => if t = 0 then 1 else 3
  subVer := fun t => if t = 0 then 0 else if t = 1 then 1 else 3
  cdataOf := fun t => if t = 2 ∨ t = 3 then some 1 else none
  mode := fun t => if t ≤ 1 then .sequence else .characters
  subEntry := fun i => if i = 0 then .elem 1 else if i = 1 then .elem 2 else .elem 3
  verInfo := fun _ => 3
  defName := fun d => if d = 0 then 100 else if d = 1 then 101 else if d = 2 then 999 else 901
  defType := fun d => d
  defMult := fun d => if d = 1 then .any else .zeroOrOne
  defSplit := fun d => if d = 0 then 3 else 0
  cspec := fun _ => .string false none }

def hR (id f : Nat) : Hdr := { id := id, name := 100, ety := ⟨0, 0⟩, parent := .model 0, attrs := [], files := [f], comment := none }
def hX (id p : Nat) : Hdr := { id := id, name := 101, ety := ⟨1, 1⟩, parent := .elem p, attrs := [], files := [], comment := none }
def hSN (id p : Nat) : Hdr := { id := id, name := 999, ety := ⟨2, 2⟩, parent := .elem p, attrs := [], files := [], comment := none }
/-- `<X><SHORT-NAME>n</SHORT-NAME></X>` -/
def a : Ch := (hX 1 0, .elem (hSN 2 1) (.text (.str [110]) .nil) .nil)
/-- `<X/>` -/
def b : Ch := (hX 11 10, .nil)
/-- file 1: `<R><X><SHORT-NAME>n</SHORT-NAME></X></R>` -/
def ka : Items := .elem a.1 a.2 .nil
/-- file 2: `<R><X/></R>` -/
def kb : Items := .elem b.1 b.2 .nil
def fver : Nat → Option Nat := fun _ => some 1
def res12 := mergeElement namedSpec toyEnv fver 2 1 5 (hR 0 1) ka [1] kb
def res21 := mergeElement namedSpec toyEnv fver 1 1 5 (hR 10 2) kb [2] ka

/-- the pairing test is not symmetric -/
theorem mt_asym : mt namedSpec toyEnv a b = false ∧ mt namedSpec toyEnv b a = true := by decide

/-- both merges are accepted; file 1 first: two `X` (the named one in file 1, the unnamed one in file 2); file 2 first: ONE
`X` (in both files) that has received the SHORT-NAME -/
theorem results : res12.2 = none ∧ res21.2 = none ∧
    res12.1.childElems.map (fun c => (c.1.id, c.1.files, c.2.childElems.map (·.1.name))) = [(1, [1], [999]), (11, [2], [])] ∧
    res21.1.childElems.map (fun c => (c.1.id, c.1.files, c.2.childElems.map (·.1.name))) = [(11, [], [999])] := by decide

theorem hyps : Compat namedSpec toyEnv (fun _ n => n) (hR 0 1) ka kb ∧ Compat namedSpec toyEnv (fun _ n => n) (hR 10 2) kb ka ∧
    Fresh ka ∧ Fresh kb := by
  refine ⟨compat_single' _ _ _ _ _ _ a b rfl rfl rfl (by decide) ?_, compat_single' _ _ _ _ _ _ b a rfl rfl rfl (by decide) ?_, ?_, ?_⟩
  · intro h; rw [mt_asym.1] at h; cases h
  · intro _; exact compat_nil_single _ _ _ _ _ _ (hSN 2 1, .text (.str [110]) .nil) rfl rfl
  · intro h hh
    simp only [ka, a, Items.hdrs, List.append_nil, List.mem_cons, List.not_mem_nil, or_false] at hh
    rcases hh with hh | hh <;> rw [hh] <;> rfl
  · intro h hh
    simp only [kb, b, Items.hdrs, List.append_nil, List.mem_singleton] at hh
    rw [hh]; rfl

theorem not_uequiv : ¬ UEquiv res12.1 res21.1 := by
  intro h
  have hc := (h [] [] (SetEq.refl _)).child_count
  have h1 := congrArg List.length results.2.2.1
  have h2 := congrArg List.length results.2.2.2
  simp only [List.length_map, List.length_cons, List.length_nil] at h1 h2
  omega

end OrdEx2

/-- when the pairing test IS symmetric: both elements identifiable, or both not (and equally typed) -/
theorem mt_symm_of (S : Spec) (V : Env) (a b : Ch) (hi : isIdentifiable S a.1 a.2 = isIdentifiable S b.1 b.2) :
    mt S V a b = mt S V b a := by
  unfold mt
  rw [hi]
  split
  · rw [Bool.eq_iff_iff]; simp only [Bool.and_eq_true, beq_iff_eq]
    constructor <;> (intro h; exact ⟨h.1.symm, h.2.symm⟩)
  · rw [Bool.eq_iff_iff]; simp only [Bool.and_eq_true, beq_iff_eq]
    constructor <;> (intro h; exact ⟨h.1.symm, h.2.symm⟩)


/-! ### 3. exactly-once at path level: a merged element keeps its SHORT-NAME -/

section
variable (S : Spec) (V : Env)

theorem mapKidHdrs_noElems (f : Hdr → Hdr) (its : Items) (h : its.childElems = []) : its.mapKidHdrs f = its := by
  induction its with
  | nil => rfl
  | elem _ _ _ _ _ => simp [Items.childElems] at h
  | text c r ih => simp only [Items.mapKidHdrs]; rw [ih (by simpa [Items.childElems] using h)]

theorem importNew_chars (sh : Hdr) (hm : S.mode sh.ety.typ = .characters) (nf mv : Nat) (L : List (Ch × Nat)) (idx : Nat) (ka : Items) :
    (importNew S sh nf mv L idx ka).1 = ka := by
  cases L with
  | nil => rfl
  | cons x r =>
    obtain ⟨⟨bh, bk⟩, pos⟩ := x
    simp [importNew, insertRange, hm]

/-- the content of a character-data element without child elements (a SHORT-NAME) survives every merge -/
theorem mergeElement_chars (fver : Nat → Option Nat) (nf mv fuel : Nat) (sh : Hdr) (sk : Items) (files : List Nat) (bk : Items)
    (hm : S.mode sh.ety.typ = .characters) (hce : sk.childElems = []) :
    (mergeElement S V fver nf mv fuel sh sk files bk).1 = sk := by
  cases fuel with
  | zero => rfl
  | succ fuel =>
    unfold mergeElement
    dsimp only
    rw [hce]
    simp only [enumerate, List.length_nil, Nat.zero_add, walk]
    rw [mapKidHdrs_noElems _ _ hce]
    have := importNew_chars S sh hm nf mv
      ([] ++ List.map (fun b => (b, sk.length)) (List.filter (fun b => !inPairs { } b.fst.id) bk.childElems)) 0 sk
    generalize importNew S sh nf mv _ 0 sk = res at this ⊢
    obtain ⟨ka2, e⟩ := res
    cases e with
    | none => simpa using this
    | some e => simpa using this

/-- the first content item of `its` is the element `sh` (up to its file set) with the content `sk` -/
def HeadIs (sh : Hdr) (sk : Items) (its : Items) : Prop :=
  ∃ sh' rest, its = .elem sh' sk rest ∧ sh'.name = sh.name ∧ sh'.ety = sh.ety ∧ sh'.id = sh.id

theorem importNew_head {vOk : Nat} (hS : NameWFv S vOk) (hU : SnOnlyFirst S) (ha sh : Hdr) (sk : Items)
    (hnamed : S.isNamed ha.ety.typ = true) (hseq : S.mode ha.ety.typ = .sequence) (hsn : sh.name = S.nmShortName)
    (nf mv : Nat) (L : List (Ch × Nat)) : ∀ (idx : Nat) (ka ka2 : Items), HeadIs sh sk ka →
      importNew S ha nf mv L idx ka = (ka2, none) → HeadIs sh sk ka2 := by
  induction L with
  | nil => intro idx ka ka2 hh h; simp only [importNew] at h; cases h; exact hh
  | cons e rest ih =>
    intro idx ka ka2 hh h
    obtain ⟨⟨bh, bk⟩, pos⟩ := e
    unfold importNew at h
    split at h
    · cases h
    · rename_i lo hi hr
      obtain ⟨sh', rest', rfl, h1, h2, h3⟩ := hh
      have hlo := insertRange_lo_pos S hS hU ha sh' sk rest' bh.name mv lo hi hnamed hseq (h1.trans hsn) hr
      have hhi := (insertRange_hi_le S ha _ bh.name mv lo hi hr).1
      refine ih _ _ _ ?_ h
      have : ∃ q, min (max (pos + idx) lo) hi = q + 1 := ⟨min (max (pos + idx) lo) hi - 1, by omega⟩
      obtain ⟨q, hq⟩ := this
      rw [hq]
      exact ⟨sh', _, rfl, h1, h2, h3⟩

theorem fold_head (fver : Nat → Option Nat) (nf mv fuel : Nat) (files : List Nat) (sh : Hdr) (sk : Items)
    (hm : S.mode sh.ety.typ = .characters) (hce : sk.childElems = []) (pairs : List (Nat × Ch)) :
    ∀ (acc : Items × Option MergeErr), HeadIs sh sk acc.1 →
      HeadIs sh sk (pairs.foldl (foldStep S V fver nf mv fuel files) acc).1 := by
  induction pairs with
  | nil => intro acc h; exact h
  | cons p rest ih =>
    intro acc hh
    simp only [List.foldl_cons]
    apply ih
    obtain ⟨pid, pb⟩ := p
    have key : ∀ (c : Prop) [Decidable c] (x : Hdr), x.name = sh.name → x.ety = sh.ety → x.id = sh.id →
        (if c then { x with files := x.files ++ [nf] } else x).name = sh.name ∧
        (if c then { x with files := x.files ++ [nf] } else x).ety = sh.ety ∧
        (if c then { x with files := x.files ++ [nf] } else x).id = sh.id := by
      intro c _ x a b d; split <;> exact ⟨a, b, d⟩
    unfold foldStep
    split
    · exact hh
    · split
      · exact hh
      · rename_i ah ak hch
        obtain ⟨sh', rest', he, h1, h2, h3⟩ := hh
        rw [he] at hch ⊢
        dsimp only
        by_cases hid : sh'.id = pid
        · subst hid
          simp only [Items.child, if_true, Option.some.injEq, Prod.mk.injEq] at hch
          obtain ⟨rfl, rfl⟩ := hch
          simp only [setChild, if_true]
          rw [mergeElement_chars S V fver nf mv fuel sh' sk _ _ (by rw [h2]; exact hm) hce]
          exact ⟨_, _, rfl, key _ sh' h1 h2 h3⟩
        · simp only [setChild, hid, if_false]
          exact ⟨sh', _, rfl, h1, h2, h3⟩

/-- **a merged element keeps its SHORT-NAME**: the first content item of the result is still the SHORT-NAME element of the
model's element, with the same content -/
theorem mergeElement_keeps_first {vOk : Nat} (hS : NameWFv S vOk) (hU : SnOnlyFirst S)
    (fver : Nat → Option Nat) (nf mv fuel : Nat) (ha sh : Hdr) (sk rest : Items) (files : List Nat) (kb kr : Items)
    (hnamed : S.isNamed ha.ety.typ = true) (hseq : S.mode ha.ety.typ = .sequence) (hsn : sh.name = S.nmShortName)
    (hm : S.mode sh.ety.typ = .characters) (hce : sk.childElems = [])
    (h : mergeElement S V fver nf mv (fuel + 1) ha (.elem sh sk rest) files kb = (kr, none)) :
    HeadIs sh sk kr := by
  unfold mergeElement at h
  dsimp only at h
  split at h
  · cases h
  · rename_i w0 restA restB hw
    split at h
    · cases h
    · rename_i ka2 himp
      have h0 : HeadIs sh sk ((Items.elem sh sk rest).mapKidHdrs fun h =>
          if (w0.aOnly ++ restA.map (·.2.1.id)).contains h.id ∧ h.files.isEmpty then { h with files := files } else h) := by
        simp only [Items.mapKidHdrs]
        refine ⟨_, _, rfl, ?_, ?_, ?_⟩ <;> (split <;> rfl)
      have h1 := importNew_head S hS hU ha sh sk hnamed hseq hsn nf mv _ 0 _ ka2 h0 himp
      change (List.foldl (foldStep S V fver nf mv fuel files) (ka2, none) w0.pairs) = (kr, none) at h
      have h2 := fold_head S V fver nf mv fuel files sh sk hm hce w0.pairs (ka2, none) h1
      rw [h] at h2
      exact h2

end

/-! ### 3. exactly-once at path level -/

theorem flatMap_perm_pointwise {α β : Type} (f g : α → List β) : ∀ (l : List α), (∀ x ∈ l, (f x).Perm (g x)) →
    (l.flatMap f).Perm (l.flatMap g) := by
  intro l
  induction l with
  | nil => intro _; exact List.Perm.refl _
  | cons a r ih =>
    intro h
    simp only [List.flatMap_cons]
    exact (h a (List.mem_cons_self ..)).append (ih fun x hx => h x (List.mem_cons_of_mem _ hx))

theorem flatMap_append_perm {α β : Type} (f g : α → List β) : ∀ (l : List α),
    (l.flatMap fun x => f x ++ g x).Perm (l.flatMap f ++ l.flatMap g) := by
  intro l
  induction l with
  | nil => exact List.Perm.refl _
  | cons a r ih =>
    simp only [List.flatMap_cons]
    refine ((List.Perm.refl _).append ih).trans ?_
    -- (f a ++ g a) ++ (F ++ G) ~ (f a ++ F) ++ (g a ++ G)
    rw [List.append_assoc, List.append_assoc]
    refine (List.Perm.refl _).append ?_
    rw [← List.append_assoc, ← List.append_assoc]
    exact List.perm_append_comm.append (List.Perm.refl _)

theorem flatMap_filter_split {α β : Type} (p : α → Bool) (f : α → List β) (l : List α) :
    (l.flatMap f).Perm ((l.filter p).flatMap f ++ (l.filter fun x => !p x).flatMap f) := by
  rw [← List.flatMap_append]
  exact ((List.filter_append_perm p l).flatMap_right f).symm

theorem pairwise_mem {α : Type} {R : α → α → Prop} : ∀ {l : List α}, l.Pairwise R → ∀ x ∈ l, ∀ y ∈ l, x = y ∨ R x y ∨ R y x := by
  intro l
  induction l with
  | nil => intro _ x hx; cases hx
  | cons a r ih =>
    intro h x hx y hy
    simp only [List.pairwise_cons] at h
    rcases List.mem_cons.mp hx with hx1 | hx1
    · rcases List.mem_cons.mp hy with hy1 | hy1
      · exact Or.inl (hx1.trans hy1.symm)
      · rw [hx1]; exact Or.inr (Or.inl (h.1 y hy1))
    · rcases List.mem_cons.mp hy with hy1 | hy1
      · rw [hy1]; exact Or.inr (Or.inr (h.1 x hx1))
      · exact ih h.2 x hx1 y hy1

section
variable (S : Spec) (V : Env)

/-- the path prefix an element with item name `o` hands down to its content -/
def sub (pre : Bytes) : Option Bytes → Bytes
  | some n => pre ++ [47] ++ n
  | none => pre
/-- the path of an element with item name `o` (none if it has no item name) -/
def hd (pre : Bytes) : Option Bytes → List Bytes
  | some n => [pre ++ [47] ++ n]
  | none => []

/-- the identifiable paths of a forest (the keys of `entries`), in document order, with multiplicity -/
def paths (its : Items) (pre : Bytes) : List Bytes := (entries S its pre).map (·.1)

/-- the identifiable paths of one element and its content -/
def pathsOf (c : Ch) (pre : Bytes) : List Bytes :=
  hd pre (itemName S c.1 c.2) ++ paths S c.2 (sub pre (itemName S c.1 c.2))

theorem paths_elem (h : Hdr) (k r : Items) (pre : Bytes) :
    paths S (.elem h k r) pre = pathsOf S (h, k) pre ++ paths S r pre := by
  unfold pathsOf paths
  simp only [entries]
  cases itemName S h k <;> simp [hd, sub]

theorem paths_flatMap (its : Items) (pre : Bytes) : paths S its pre = its.childElems.flatMap fun c => pathsOf S c pre := by
  induction its with
  | nil => rfl
  | elem h k r _ ihr => rw [paths_elem, ihr]; rfl
  | text c r ihr => simpa only [paths, entries, Items.childElems] using ihr

/-- the paths that the new file's content `kb` ADDS to a model's element with the children `A`: an element of `kb` without
partner contributes all its paths, an element with the partner `a` only what its content adds to the content of `a` -/
def newPaths : Items → List Ch → Bytes → List Bytes
  | .nil, _, _ => []
  | .text _ r, A, pre => newPaths r A pre
  | .elem bh bk r, A, pre =>
    (match A.find? (fun a => mt S V a (bh, bk)) with
     | some a => newPaths bk a.2.childElems (sub pre (itemName S bh bk))
     | none => pathsOf S (bh, bk) pre) ++ newPaths r A pre

/-- the paths of `kb` that the merge identifies with paths of the model: the paths of the paired elements -/
def commonPaths : Items → List Ch → Bytes → List Bytes
  | .nil, _, _ => []
  | .text _ r, A, pre => commonPaths r A pre
  | .elem bh bk r, A, pre =>
    (match A.find? (fun a => mt S V a (bh, bk)) with
     | some a => hd pre (itemName S bh bk) ++ commonPaths bk a.2.childElems (sub pre (itemName S bh bk))
     | none => []) ++ commonPaths r A pre

/-- what one child `b` of the new file's element adds -/
def newOf (A : List Ch) (pre : Bytes) (b : Ch) : List Bytes :=
  match A.find? (fun a => mt S V a b) with
  | some a => newPaths S V b.2 a.2.childElems (sub pre (itemName S b.1 b.2))
  | none => pathsOf S b pre

theorem newPaths_flatMap (kb : Items) (A : List Ch) (pre : Bytes) :
    newPaths S V kb A pre = kb.childElems.flatMap (newOf S V A pre) := by
  induction kb with
  | nil => rfl
  | elem h k r _ ihr => simp only [newPaths, Items.childElems, List.flatMap_cons, ihr]; rfl
  | text c r ihr => simpa only [newPaths, Items.childElems] using ihr

/-- the paths of the new file split into the added ones and the ones identified with paths of the model -/
theorem paths_new_common (kb : Items) : ∀ (A : List Ch) (pre : Bytes),
    (paths S kb pre).Perm (newPaths S V kb A pre ++ commonPaths S V kb A pre) := by
  induction kb with
  | nil => intro A pre; exact List.Perm.refl _
  | text c r ihr => intro A pre; simpa only [paths, entries, newPaths, commonPaths] using ihr A pre
  | elem h k r ihk ihr =>
    intro A pre
    rw [paths_elem]
    simp only [newPaths, commonPaths]
    have hr := ihr A pre
    cases hf : A.find? (fun a => mt S V a (h, k)) with
    | none =>
      simp only [List.nil_append]
      rw [List.append_assoc]
      exact (List.Perm.refl _).append hr
    | some a =>
      simp only
      have hk := ihk a.2.childElems (sub pre (itemName S h k))
      unfold pathsOf
      -- hd ++ paths k ++ paths r  ~  (N_k ++ N_r) ++ ((hd ++ C_k) ++ C_r)
      refine (((List.Perm.refl _).append hk).append hr).trans ?_
      generalize hd pre (itemName S h k) = H
      generalize newPaths S V k a.2.childElems (sub pre (itemName S h k)) = Nk
      generalize commonPaths S V k a.2.childElems (sub pre (itemName S h k)) = Ck
      generalize newPaths S V r A pre = Nr
      generalize commonPaths S V r A pre = Cr
      -- (H ++ (Nk ++ Ck)) ++ (Nr ++ Cr) ~ (Nk ++ Nr) ++ ((H ++ Ck) ++ Cr)
      have e1 : (H ++ (Nk ++ Ck)).Perm (Nk ++ (H ++ Ck)) := by
        rw [← List.append_assoc, ← List.append_assoc]
        exact List.perm_append_comm.append (List.Perm.refl _)
      refine (e1.append (List.Perm.refl _)).trans ?_
      -- (Nk ++ X) ++ (Nr ++ Cr) ~ (Nk ++ Nr) ++ (X ++ Cr)
      generalize H ++ Ck = X
      rw [List.append_assoc, List.append_assoc]
      refine (List.Perm.refl _).append ?_
      rw [← List.append_assoc, ← List.append_assoc]
      exact List.perm_append_comm.append (List.Perm.refl _)

/-- what the content of the partner of the model's child `a` adds below `a` -/
def addOf (B : List Ch) (pre : Bytes) (a : Ch) : List Bytes :=
  match B.find? (mt S V a) with
  | some b => newPaths S V b.2 a.2.childElems (sub pre (itemName S a.1 a.2))
  | none => []

theorem partners_perm' {A B : List Ch} (ndA : A.Nodup) (ndB : B.Nodup)
    (k1 : ∀ a ∈ A, ∀ b ∈ B, ∀ b' ∈ B, mt S V a b = true → mt S V a b' = true → b = b')
    (k2 : ∀ a ∈ A, ∀ a' ∈ A, ∀ b ∈ B, mt S V a b = true → mt S V a' b = true → a = a') :
    ((A.filter (hasP S V B)).map (partnerOf S V B)).Perm (B.filter fun b => A.any fun a => mt S V a b) := by
  have hpart : ∀ a ∈ A.filter (hasP S V B), partnerOf S V B a ∈ B ∧ mt S V a (partnerOf S V B a) = true := by
    intro a ha
    have h2 := (List.mem_filter.mp ha).2
    unfold hasP at h2
    unfold partnerOf
    cases hf : B.find? (mt S V a) with
    | none => rw [hf] at h2; cases h2
    | some b => exact ⟨List.mem_of_find?_eq_some hf, List.find?_some hf⟩
  apply (List.perm_ext_iff_of_nodup ?_ (ndB.sublist List.filter_sublist)).mpr
  · intro b
    constructor
    · intro hb
      obtain ⟨a, ha, rfl⟩ := List.mem_map.mp hb
      obtain ⟨h1, h2⟩ := hpart a ha
      exact List.mem_filter.mpr ⟨h1, List.any_eq_true.mpr ⟨a, (List.mem_filter.mp ha).1, h2⟩⟩
    · intro hb
      obtain ⟨hbB, hp⟩ := List.mem_filter.mp hb
      obtain ⟨a, haA, hm⟩ := List.any_eq_true.mp hp
      have haf : a ∈ A.filter (hasP S V B) := List.mem_filter.mpr ⟨haA, (hasP_iff S V).mpr ⟨b, hbB, hm⟩⟩
      obtain ⟨h1, h2⟩ := hpart a haf
      exact List.mem_map.mpr ⟨a, haf, k1 a haA _ h1 b hbB h2 hm⟩
  · apply nodup_map_on _ _ (ndA.sublist List.filter_sublist)
    intro x hx y hy hxy
    obtain ⟨hx1, hx2⟩ := hpart x hx
    obtain ⟨_, hy2⟩ := hpart y hy
    rw [← hxy] at hy2
    exact k2 x (List.mem_filter.mp hx).1 y (List.mem_filter.mp hy).1 _ hx1 hx2 hy2

/-- what the new file adds, sorted by the children of the model's element -/
theorem newOf_bridge (A B : List Ch) (pre : Bytes) (ndA : A.Nodup) (ndB : B.Nodup)
    (k1 : ∀ a ∈ A, ∀ b ∈ B, ∀ b' ∈ B, mt S V a b = true → mt S V a b' = true → b = b')
    (k2 : ∀ a ∈ A, ∀ a' ∈ A, ∀ b ∈ B, mt S V a b = true → mt S V a' b = true → a = a')
    (hname : ∀ a ∈ A, ∀ b ∈ B, mt S V a b = true → itemName S b.1 b.2 = itemName S a.1 a.2) :
    (B.flatMap (newOf S V A pre)).Perm
      (A.flatMap (addOf S V B pre) ++ (bOnlyOf S V A B).flatMap fun b => pathsOf S b pre) := by
  refine (flatMap_filter_split (fun b => A.any fun a => mt S V a b) (newOf S V A pre) B).trans (List.Perm.append ?_ ?_)
  · -- the paired children of `B`
    refine ((partners_perm' S V ndA ndB k1 k2).symm.flatMap_right _).trans ?_
    rw [List.flatMap_map]
    have hz : ((A.filter fun a => !hasP S V B a).flatMap (addOf S V B pre)) = [] := by
      apply List.flatMap_eq_nil_iff.mpr
      intro a ha
      have := (List.mem_filter.mp ha).2
      have hn : B.find? (mt S V a) = none := (hasP_false_iff S V).mp (by simpa using this)
      simp only [addOf, hn]
    refine List.Perm.trans ?_ (flatMap_filter_split (hasP S V B) (addOf S V B pre) A).symm
    rw [hz, List.append_nil]
    apply flatMap_perm_pointwise
    intro a ha
    obtain ⟨haA, hp⟩ := List.mem_filter.mp ha
    unfold hasP at hp
    cases hf : B.find? (mt S V a) with
    | none => rw [hf] at hp; cases hp
    | some b =>
      have hbB := List.mem_of_find?_eq_some hf
      have hm : mt S V a b = true := List.find?_some hf
      have hpo : partnerOf S V B a = b := by simp only [partnerOf, hf, Option.getD_some]
      rw [hpo]
      have hfa : A.find? (fun a' => mt S V a' b) = some a := by
        cases hfa : A.find? (fun a' => mt S V a' b) with
        | none => exact absurd hm (by simpa using List.find?_eq_none.mp hfa a haA)
        | some a' =>
          have h0 := List.find?_some hfa
          have h1 : mt S V a' b = true := h0
          rw [k2 a' (List.mem_of_find?_eq_some hfa) a haA b hbB h1 hm]
      simp only [newOf, hfa, addOf, hf, hname a haA b hbB hm]
      exact List.Perm.refl _
  · -- the partnerless children of `B`
    unfold bOnlyOf
    apply flatMap_perm_pointwise
    intro b hb
    have hq := (List.mem_filter.mp hb).2
    have hn : A.find? (fun a => mt S V a b) = none := by
      apply List.find?_eq_none.mpr
      intro a ha hm
      have : (A.any fun a => mt S V a b) = true := List.any_eq_true.mpr ⟨a, ha, hm⟩
      rw [this] at hq; cases hq
    simp only [newOf, hn]
    exact List.Perm.refl _

/-! #### item names of paired and of merged elements -/

theorem itemName_none_of_not_ident (h : Hdr) (k : Items) (hi : isIdentifiable S h k = false) : itemName S h k = none := by
  unfold isIdentifiable at hi
  unfold itemName
  split
  · rename_i hn
    rw [hn, Bool.true_and] at hi
    split
    · rename_i sh sk _
      simp only [beq_eq_false_iff_ne, ne_eq] at hi
      rw [if_neg hi]
    · rfl
  · rfl

/-- paired elements have the same item name, provided they are both identifiable or both not -/
theorem itemName_paired (a b : Ch) (hm : mt S V a b = true) (hi : isIdentifiable S a.1 a.2 = isIdentifiable S b.1 b.2) :
    itemName S b.1 b.2 = itemName S a.1 a.2 := by
  unfold mt at hm
  split at hm
  · simp only [Bool.and_eq_true, beq_iff_eq] at hm; exact hm.2
  · rename_i hna
    have ha : isIdentifiable S a.1 a.2 = false := by simpa using hna
    rw [itemName_none_of_not_ident S _ _ ha, itemName_none_of_not_ident S _ _ (hi ▸ ha)]

theorem itemName_none_of_noSn (h : Hdr) (k : Items) (hk : ∀ c ∈ k.childElems, c.1.name ≠ S.nmShortName) :
    itemName S h k = none := by
  unfold itemName
  split
  · split
    · rename_i sh sk rest
      rw [if_neg (hk (sh, sk) (by simp [Items.childElems]))]
    · rfl
  · rfl

theorem not_ident_of_noSn (h : Hdr) (k : Items) (hk : ∀ c ∈ k.childElems, c.1.name ≠ S.nmShortName) :
    isIdentifiable S h k = false := by
  unfold isIdentifiable
  cases k with
  | elem sh sk rest =>
    have := hk (sh, sk) (by simp [Items.childElems])
    simp [this]
  | nil => simp
  | text _ _ => simp

theorem noSnTop_childElems (its : Items) (h : noSnTop S its) : ∀ c ∈ its.childElems, c.1.name ≠ S.nmShortName := by
  induction its with
  | nil => intro c hc; cases hc
  | elem sh sk r _ ihr =>
    intro c hc
    simp only [Items.childElems, List.mem_cons] at hc
    rcases hc with hc | hc
    · subst hc; exact h.1
    · exact ihr h.2 c hc
  | text _ r ihr => intro c hc; exact ihr h c hc

/-- the SHORT-NAME discipline of one content list: either it starts with a proper SHORT-NAME (and the element is of a named
SEQUENCE type), or no child element is called SHORT-NAME -/
theorem kidsOk_cases (h : Hdr) (its : Items) (hk : kidsOk S h its) :
    (∃ sh sk rest, its = .elem sh sk rest ∧ sh.name = S.nmShortName ∧ S.isNamed h.ety.typ = true ∧
      S.mode h.ety.typ = .sequence ∧ S.mode sh.ety.typ = .characters ∧ sk.childElems = []) ∨
    (∀ c ∈ its.childElems, c.1.name ≠ S.nmShortName) := by
  cases its with
  | nil => right; intro c hc; cases hc
  | text c r => right; exact noSnTop_childElems S r hk
  | elem sh sk rest =>
    by_cases hsn : sh.name = S.nmShortName
    · left
      obtain ⟨⟨h1, h2, _, _⟩, hp⟩ := hk.1 hsn
      obtain ⟨hm, _, _, n, hn, _⟩ := hp
      exact ⟨sh, sk, rest, rfl, hsn, h1, h2, hm, by rw [hn]; rfl⟩
    · right
      intro c hc
      simp only [Items.childElems, List.mem_cons] at hc
      rcases hc with hc | hc
      · subst hc; exact hsn
      · exact noSnTop_childElems S rest hk.2 c hc

theorem ident_of_sn (h sh : Hdr) (sk rest : Items) (hn : S.isNamed h.ety.typ = true) (hsn : sh.name = S.nmShortName) :
    isIdentifiable S h (.elem sh sk rest) = true := by
  simp [isIdentifiable, hn, hsn]

theorem itemName_of_head (h h' sh : Hdr) (sk rest r : Items) (he : h'.ety = h.ety) (hh : HeadIs sh sk r) :
    itemName S h' r = itemName S h (.elem sh sk rest) := by
  obtain ⟨sh', rest', rfl, h1, h2, _⟩ := hh
  simp only [itemName, he, h1, charData, h2]

theorem upd_name (fver : Nat → Option Nat) (nf mv fuel : Nat) (files : List Nat) (c b : Ch) :
    (upd S V fver nf mv fuel files c b).1.name = c.1.name := by
  simp only [upd]; split <;> rfl

theorem upd_ety (fver : Nat → Option Nat) (nf mv fuel : Nat) (files : List Nat) (c b : Ch) :
    (upd S V fver nf mv fuel files c b).1.ety = c.1.ety := by
  simp only [upd]; split <;> rfl

theorem updA_name (fver : Nat → Option Nat) (nf mv fuel : Nat) (files : List Nat) (B : List Ch) (a : Ch) :
    (updA S V fver nf mv fuel files B a).1.name = a.1.name := by
  unfold updA
  split
  · exact upd_name ..
  · dsimp only; split <;> rfl

/-- **a merged child keeps its item name** -/
theorem merged_itemName {vOk : Nat} (hS : NameWFv S vOk) (hU : SnOnlyFirst S)
    (fver : Nat → Option Nat) (nf mv fuel : Nat) (files : List Nat) (rk : Nat → Nat) (a b : Ch) (h' : Hdr)
    (he : h'.ety = a.1.ety) (lev : LevelHyp S V a.1.ety.typ rk a.2.childElems b.2.childElems)
    (hi : isIdentifiable S a.1 a.2 = isIdentifiable S b.1 b.2) (oka : kidsOk S a.1 a.2) (okb : kidsOk S b.1 b.2)
    (r : Items) (hm : mergeElement S V fver nf mv fuel a.1 a.2 files b.2 = (r, none)) :
    itemName S h' r = itemName S a.1 a.2 := by
  obtain ⟨ah, ak⟩ := a
  obtain ⟨bh, bk⟩ := b
  cases fuel with
  | zero => simp only [mergeElement] at hm; cases hm
  | succ fuel =>
    rcases kidsOk_cases S ah ak oka with ⟨sh, sk, rest, rfl, hsn, hnm, hseq, hch, hce⟩ | hno
    · exact itemName_of_head S ah h' sh sk rest r he
        (mergeElement_keeps_first S V hS hU fver nf mv fuel ah sh sk rest files bk r hnm hseq hsn hch hce hm)
    · have hia : isIdentifiable S ah ak = false := not_ident_of_noSn S ah ak hno
      have hnob : ∀ c ∈ bk.childElems, c.1.name ≠ S.nmShortName := by
        rcases kidsOk_cases S bh bk okb with ⟨sh, sk, rest, rfl, hsn, hnm, _⟩ | hno'
        · have := ident_of_sn S bh sh sk rest hnm hsn
          simp only at hi
          rw [hia, this] at hi; cases hi
        · exact hno'
      rw [itemName_none_of_noSn S ah ak hno]
      apply itemName_none_of_noSn
      obtain ⟨_, hperm, _⟩ := merge_level S V fver nf mv fuel files rk ah ak bk r lev hm
      intro c hc
      rcases List.mem_append.mp (hperm.mem_iff.mp hc) with hc | hc
      · obtain ⟨x, hx, rfl⟩ := List.mem_map.mp hc
        rw [updA_name]; exact hno x hx
      · obtain ⟨x, hx, rfl⟩ := List.mem_map.mp hc
        exact hnob x (List.mem_filter.mp hx).1

/-- the hypotheses of the path-level theorem, at every pair of elements the merge visits: paired elements are both
identifiable or both not, and both obey the SHORT-NAME discipline `kidsOk` (a SHORT-NAME child is the first content item, a
proper one, of an element of a named SEQUENCE type) -/
inductive PathHyp : Items → Items → Prop
  | mk (ka kb : Items) :
      (∀ a ∈ ka.childElems, ∀ b ∈ kb.childElems, mt S V a b = true →
        isIdentifiable S a.1 a.2 = isIdentifiable S b.1 b.2 ∧ kidsOk S a.1 a.2 ∧ kidsOk S b.1 b.2) →
      (∀ a ∈ ka.childElems, ∀ b ∈ kb.childElems, mt S V a b = true → PathHyp a.2 b.2) →
      PathHyp ka kb

theorem pathsOf_imp (pid nf : Nat) (b : Ch) (pre : Bytes) : pathsOf S (imp pid nf b) pre = pathsOf S b pre := rfl

/-- **exactly-once at path level (Theorem 3)**: the identifiable paths of the merged content are those of the model's
content plus what the new file's content ADDS (`newPaths`): a path of an element of the new file that was paired with an
element of the model is not counted again -/
theorem merge_paths {vOk : Nat} (hS : NameWFv S vOk) (hU : SnOnlyFirst S) (rk : Nat → Nat → Nat)
    (fver : Nat → Option Nat) (nf mv : Nat) :
    ∀ (fuel : Nat) (ha : Hdr) (ka : Items) (files : List Nat) (kb kr : Items) (pre : Bytes),
      Compat S V rk ha ka kb → PathHyp S V ka kb →
      mergeElement S V fver nf mv fuel ha ka files kb = (kr, none) →
      (paths S kr pre).Perm (paths S ka pre ++ newPaths S V kb ka.childElems pre) := by
  intro fuel
  induction fuel with
  | zero => intro ha ka files kb kr pre _ _ h; simp only [mergeElement] at h; cases h
  | succ fuel ih =>
    intro ha ka files kb kr pre hc hp h
    cases hc with
    | mk _ _ _ lev hrec =>
    cases hp with
    | mk _ _ hp1 hp2 =>
    obtain ⟨_, hperm, hsub⟩ := merge_level S V fver nf mv fuel files (rk ha.ety.typ) ha ka kb kr lev h
    have ndA := nodup_of_map _ lev.idA
    have ndB := nodup_of_map _ lev.idBnd
    have k2 : ∀ a ∈ ka.childElems, ∀ a' ∈ ka.childElems, ∀ b ∈ kb.childElems,
        mt S V a b = true → mt S V a' b = true → a = a' := by
      intro a ha' a' ha'' b hb h1 h2
      rcases pairwise_mem lev.k2 a ha' a' ha'' with e | e | e
      · exact e
      · exact (e b hb h1 h2).elim
      · exact (e b hb h2 h1).elim
    have hname : ∀ a ∈ ka.childElems, ∀ b ∈ kb.childElems, mt S V a b = true →
        itemName S b.1 b.2 = itemName S a.1 a.2 :=
      fun a ha' b hb hm => itemName_paired S V a b hm (hp1 a ha' b hb hm).1
    -- the children of the model, one by one
    have hA : ∀ a ∈ ka.childElems, (pathsOf S (updA S V fver nf mv fuel files kb.childElems a) pre).Perm
        (pathsOf S a pre ++ addOf S V kb.childElems pre a) := by
      intro a haA
      cases hf : kb.childElems.find? (mt S V a) with
      | none =>
        have e : updA S V fver nf mv fuel files kb.childElems a =
            (if a.1.files.isEmpty then { a.1 with files := files } else a.1, a.2) := by simp only [updA, hf]
        have e2 : pathsOf S (updA S V fver nf mv fuel files kb.childElems a) pre = pathsOf S a pre := by
          rw [e]; unfold pathsOf; dsimp only
          have : itemName S (if a.1.files.isEmpty then { a.1 with files := files } else a.1) a.2 = itemName S a.1 a.2 := by
            split <;> rfl
          rw [this]
        rw [e2]
        simp only [addOf, hf, List.append_nil]
        exact List.Perm.refl _
      | some b =>
        have hbB := List.mem_of_find?_eq_some hf
        have hm : mt S V a b = true := List.find?_some hf
        have hok := hsub a haA b hf
        have e : updA S V fver nf mv fuel files kb.childElems a = upd S V fver nf mv fuel files a b := by
          simp only [updA, hf]
        rw [e]
        obtain ⟨hi, oka, okb⟩ := hp1 a haA b hbB hm
        have hcab := hrec a haA b hbB hm
        have hlev : LevelHyp S V a.1.ety.typ (rk a.1.ety.typ) a.2.childElems b.2.childElems := by
          cases hcab with
          | mk _ _ _ l _ => exact l
        have hmr : mergeElement S V fver nf mv fuel a.1 a.2 (effFiles a.1 files) b.2 =
            ((upd S V fver nf mv fuel files a b).2, none) := Prod.ext rfl hok
        have hin := merged_itemName S V hS hU fver nf mv fuel (effFiles a.1 files) (rk a.1.ety.typ) a b
          (upd S V fver nf mv fuel files a b).1 (upd_ety S V fver nf mv fuel files a b) hlev hi oka okb _ hmr
        have hih := ih a.1 a.2 (effFiles a.1 files) b.2 _ (sub pre (itemName S a.1 a.2)) hcab (hp2 a haA b hbB hm) hmr
        unfold pathsOf
        rw [hin]
        simp only [addOf, hf]
        rw [List.append_assoc]
        exact (List.Perm.refl _).append hih
    rw [paths_flatMap S kr, paths_flatMap S ka, newPaths_flatMap]
    refine (hperm.flatMap_right _).trans ?_
    rw [List.flatMap_append, List.flatMap_map, List.flatMap_map]
    have h1 := (flatMap_perm_pointwise _ _ ka.childElems hA).trans (flatMap_append_perm _ _ ka.childElems)
    have h2 := newOf_bridge S V ka.childElems kb.childElems pre ndA ndB lev.k1 k2 hname
    refine (h1.append (List.Perm.refl _)).trans ?_
    rw [List.append_assoc]
    refine (List.Perm.refl _).append ?_
    exact h2.symm

/-- what one paired child `b` of the new file's element shares with the model -/
def comOf (A : List Ch) (pre : Bytes) (b : Ch) : List Bytes :=
  match A.find? (fun a => mt S V a b) with
  | some a => hd pre (itemName S b.1 b.2) ++ commonPaths S V b.2 a.2.childElems (sub pre (itemName S b.1 b.2))
  | none => []

theorem commonPaths_flatMap (kb : Items) (A : List Ch) (pre : Bytes) :
    commonPaths S V kb A pre = kb.childElems.flatMap (comOf S V A pre) := by
  induction kb with
  | nil => rfl
  | elem h k r _ ihr => simp only [commonPaths, Items.childElems, List.flatMap_cons, ihr]; rfl
  | text c r ihr => simpa only [commonPaths, Items.childElems] using ihr

/-- the common paths are paths of the model: the path of a paired element of the new file is the path of its partner -/
theorem commonPaths_sub (rk : Nat → Nat → Nat) (ha : Hdr) (ka kb : Items) (hc : Compat S V rk ha ka kb) :
    PathHyp S V ka kb → ∀ pre, ∀ p ∈ commonPaths S V kb ka.childElems pre, p ∈ paths S ka pre := by
  induction hc with
  | mk ha ka kb lev _ ih =>
    intro hp pre p hpm
    cases hp with
    | mk _ _ hp1 hp2 =>
    rw [commonPaths_flatMap] at hpm
    rw [paths_flatMap]
    obtain ⟨b, hbB, hpb⟩ := List.mem_flatMap.mp hpm
    unfold comOf at hpb
    cases hf : ka.childElems.find? (fun a => mt S V a b) with
    | none => rw [hf] at hpb; cases hpb
    | some a =>
      rw [hf] at hpb
      have haA := List.mem_of_find?_eq_some hf
      have h0 := List.find?_some hf
      have hm : mt S V a b = true := h0
      have hn := itemName_paired S V a b hm (hp1 a haA b hbB hm).1
      rw [hn] at hpb
      apply List.mem_flatMap.mpr
      refine ⟨a, haA, ?_⟩
      unfold pathsOf
      rcases List.mem_append.mp hpb with h | h
      · exact List.mem_append_left _ h
      · apply List.mem_append_right
        exact ih a haA b hbB hm (hp2 a haA b hbB hm) _ p h

/-- **exactly once, in terms of sets**: under the hypotheses of `merge_paths`, a path is a path of the merged content iff it
is a path of the model's content or of the new file's content; and if neither side has a duplicate path and every path
that occurs on both sides belongs to a paired couple (`commonPaths`), the merged content has no duplicate path either -/
theorem merge_paths_union {vOk : Nat} (hS : NameWFv S vOk) (hU : SnOnlyFirst S) (rk : Nat → Nat → Nat)
    (fver : Nat → Option Nat) (nf mv fuel : Nat) (ha : Hdr) (ka : Items) (files : List Nat) (kb kr : Items) (pre : Bytes)
    (hc : Compat S V rk ha ka kb) (hp : PathHyp S V ka kb)
    (h : mergeElement S V fver nf mv fuel ha ka files kb = (kr, none)) :
    (∀ p, p ∈ paths S kr pre ↔ p ∈ paths S ka pre ∨ p ∈ paths S kb pre) ∧
    ((paths S ka pre).Nodup → (paths S kb pre).Nodup →
      (∀ p ∈ paths S ka pre, p ∈ paths S kb pre → p ∈ commonPaths S V kb ka.childElems pre) →
      (paths S kr pre).Nodup) := by
  have h1 := merge_paths S V hS hU rk fver nf mv fuel ha ka files kb kr pre hc hp h
  have h2 := paths_new_common S V kb ka.childElems pre
  have h3 := commonPaths_sub S V rk ha ka kb hc hp pre
  constructor
  · intro p
    rw [h1.mem_iff, List.mem_append]
    constructor
    · rintro (h | h)
      · exact Or.inl h
      · exact Or.inr (h2.mem_iff.mpr (List.mem_append_left _ h))
    · rintro (h | h)
      · exact Or.inl h
      · rcases List.mem_append.mp (h2.mem_iff.mp h) with h | h
        · exact Or.inr h
        · exact Or.inl (h3 p h)
  · intro ndA ndB hcom
    rw [h1.nodup_iff]
    have ndNC := h2.nodup_iff.mp ndB
    obtain ⟨ndN, _, hdis⟩ := List.nodup_append.mp ndNC
    apply List.nodup_append.mpr
    refine ⟨ndA, ndN, ?_⟩
    intro x hx y hy hxy
    subst hxy
    have hxB : x ∈ paths S kb pre := h2.mem_iff.mpr (List.mem_append_left _ hy)
    exact hdis x hy x (hcom x hx hxB) rfl

end
/-! ### path level: a shared path appears once; an unpaired equal path appears twice (counterexample 3) -/
namespace OrdEx3
open OrdEx2

/-- as `namedSpec`, with a second named sub-element `Y` (name 103, same type as `X`) of the root -/
def dupSpec : Spec := { toySpec with
  nTypes := 4, nDefs := 5, nSubs := 4
  subStart := fun t => if t = 0 then 0 else if t = 1 then 2 else 4
  subEnd := fun t => if t = 0 then 2 else 4
  subVer := fun t => if t = 0 then 0 else if t = 1 then 2 else 4
  cdataOf := fun t => if t = 2 ∨ t = 3 then some 1 else none
  mode := fun t => if t ≤ 1 then .sequence else .characters
  subEntry := fun i => if i = 0 then .elem 1 else if i = 1 then .elem 4 else if i = 2 then .elem 2 else .elem 3
  verInfo := fun _ => 3
  defName := fun d => if d = 0 then 100 else if d = 1 then 101 else if d = 2 then 999 else if d = 3 then 901 else 103
  defType := fun d => if d = 4 then 1 else d
  defMult := fun d => if d = 1 ∨ d = 4 then .any else .zeroOrOne
  defSplit := fun d => if d = 0 then 3 else 0
  cspec := fun _ => .string false none }

def hY (id p : Nat) : Hdr := { id := id, name := 103, ety := ⟨4, 1⟩, parent := .elem p, attrs := [], files := [], comment := none }
/-- file 1: `<R><X><SHORT-NAME>n</SHORT-NAME></X></R>` -/
def kaX : Items := .elem (hX 1 0) (.elem (hSN 2 1) (.text (.str [110]) .nil) .nil) .nil
/-- file 2: the same `X` -/
def kbX : Items := .elem (hX 11 10) (.elem (hSN 12 11) (.text (.str [110]) .nil) .nil) .nil
/-- file 2': `<R><Y><SHORT-NAME>n</SHORT-NAME></Y></R>` — the same path `/n`, another kind of element -/
def kbY : Items := .elem (hY 11 10) (.elem (hSN 12 11) (.text (.str [110]) .nil) .nil) .nil
def resXX := mergeElement dupSpec toyEnv fver 2 1 5 (hR 0 1) kaX [1] kbX
def resXY := mergeElement dupSpec toyEnv fver 2 1 5 (hR 0 1) kaX [1] kbY

/-- the shared path `/n` appears ONCE in the merged content (it is a common path) -/
theorem once : resXX.2 = none ∧ paths dupSpec resXX.1 [] = [[47, 110]] ∧
    commonPaths dupSpec toyEnv kbX kaX.childElems [] = [[47, 110]] ∧ newPaths dupSpec toyEnv kbX kaX.childElems [] = [] := by decide

/-- the merge of `X` "n" and `Y` "n" is accepted by `mergeElement` and the merged content has the path `/n` TWICE: the two
elements are not paired (`commonPaths` is empty) -/
theorem twice : resXY.2 = none ∧ paths dupSpec resXY.1 [] = [[47, 110], [47, 110]] ∧
    paths dupSpec kaX [] = [[47, 110]] ∧ paths dupSpec kbY [] = [[47, 110]] ∧
    commonPaths dupSpec toyEnv kbY kaX.childElems [] = [] := by decide

/-! non-vacuity of `merge_paths`: all its hypotheses hold for the merge `resXX` -/

theorem dupSpec_named (t : Nat) (h : dupSpec.isNamed t = true) : t = 1 := by
  have h0 : t ≠ 0 := by intro h0; subst h0; revert h; decide
  have := (isNamed_sub0 dupSpec t h).1
  simp only [Spec.subCount, dupSpec] at this
  split at this
  · omega
  · split at this <;> omega

theorem dupSpec_nameWF : NameWF dupSpec where
  named_seq t h := by rw [dupSpec_named t h]; rfl
  sn_mask t h := by rw [dupSpec_named t h]; decide
  sn_mult t d h hd := by
    rw [dupSpec_named t h] at hd
    have : d = 2 := by
      have e : dupSpec.subAt 1 0 = .elem 2 := by decide
      rw [e] at hd; cases hd; rfl
    subst this; decide
  sn_type t d h hd := by
    rw [dupSpec_named t h] at hd
    have : d = 2 := by
      have e : dupSpec.subAt 1 0 = .elem 2 := by decide
      rw [e] at hd; cases hd; rfl
    subst this
    exact ⟨rfl, (by decide : dupSpec.isNamed 2 = false), .string false none, rfl, rfl⟩

theorem dupSpec_snOnlyFirst : SnOnlyFirst dupSpec := by
  intro t nm e m idx h hl hn
  rw [dupSpec_named t h] at hl
  have e : dupSpec.listSub 1 = [(999, ⟨2, 2⟩, 3, [0]), (901, ⟨3, 3⟩, 3, [1])] := by decide
  rw [e] at hl
  simp only [List.mem_cons, Prod.mk.injEq, List.not_mem_nil, or_false] at hl
  rcases hl with hl | hl
  · exact hl.2.2.2
  · rw [hl.1] at hn
    have : (901 : Nat) ≠ dupSpec.nmShortName := by decide
    exact absurd hn this


theorem compatXX : Compat dupSpec toyEnv (fun _ n => n) (hR 0 1) kaX kbX :=
  compat_single' _ _ _ _ _ _ (hX 1 0, .elem (hSN 2 1) (.text (.str [110]) .nil) .nil)
    (hX 11 10, .elem (hSN 12 11) (.text (.str [110]) .nil) .nil) rfl rfl rfl (by decide)
    (fun _ => compat_single _ _ _ _ _ _ (hSN 2 1, .text (.str [110]) .nil) (hSN 12 11, .text (.str [110]) .nil)
      rfl rfl rfl (by decide) rfl rfl)

theorem kidsOkX (id p sid : Nat) : kidsOk dupSpec (hX id p) (.elem (hSN sid id) (.text (.str [110]) .nil) .nil) := by
  have e1 : dupSpec.isNamed 1 = true := by decide
  have e2 : dupSpec.subAt 1 0 = .elem 2 := by decide
  have e3 : dupSpec.isNamed 2 = false := by decide
  exact ⟨fun _ => ⟨⟨e1, rfl, e2, rfl⟩, rfl, e3, ⟨.string false none, rfl, rfl⟩, [110], rfl, by decide⟩, trivial⟩

theorem pathHypXX : PathHyp dupSpec toyEnv kaX kbX := by
  refine PathHyp.mk _ _ ?_ ?_
  · intro a ha b hb _
    simp only [kaX, kbX, Items.childElems, List.mem_singleton] at ha hb
    subst ha; subst hb
    exact ⟨by decide, kidsOkX 1 0 2, kidsOkX 11 10 12⟩
  · intro a ha b hb _
    simp only [kaX, kbX, Items.childElems, List.mem_singleton] at ha hb
    subst ha; subst hb
    refine PathHyp.mk _ _ ?_ ?_
    · intro a ha b hb _
      simp only [Items.childElems, List.mem_singleton] at ha hb
      subst ha; subst hb
      exact ⟨by decide, trivial, trivial⟩
    · intro a ha b hb _
      simp only [Items.childElems, List.mem_singleton] at ha hb
      subst ha; subst hb
      refine PathHyp.mk _ _ ?_ ?_ <;> (intro a ha; cases ha)

/-- non-vacuity: `merge_paths` applies to the merge of `X` "n" with `X` "n" -/
example : (paths dupSpec resXX.1 []).Perm (paths dupSpec kaX [] ++ newPaths dupSpec toyEnv kbX kaX.childElems []) :=
  merge_paths dupSpec toyEnv (dupSpec_nameWF.toV 3) dupSpec_snOnlyFirst _ fver 2 1 5 (hR 0 1) kaX [1] kbX resXX.1 []
    compatXX pathHypXX (Prod.ext rfl once.1)

end OrdEx3

end AV.W.MU
