/-
C14 on trees: `sortNode` (`ElementRaw::sort`) only permutes pure-element sibling lists, recursively (`SibPerm`; stray text
in SEQUENCE / CHOICE / BAG content is dropped: `SibPermG true`), hence keeps the multiset of headers / ids (always) and of text
values, the size, the length (under `NoStrayText`), the parent fields (`Items.wf`) and `NoStrayText`; it keeps the order where
the specification says `ordered`; its result is sorted (at the top, and with enough fuel at every depth); it is idempotent
(for every fuel); `opSort` never fails, touches one model only, and there only the tree.

The total-preorder hypothesis on the sort key `childLe` is stated on a class `Q` of elements (`TotalPreOn Q`, `SibClosed Q`,
`SortKeysOK`): on ALL elements `childLe` is not transitive (`childLe_not_totalPre`: NaN compares `Equal` to every float).
-/
import AutosarVerif.Lemmas.Sort
import AutosarVerif.Lemmas.WfOps
import AutosarVerif.Lemmas.IndexInv

namespace AV.W
open Items

/-! ### `NoStrayText`: text items only in CHARACTERS / MIXED content -/

/-- the content of an element with this header may contain text items -/
def textMode (S : Spec) (h : Hdr) : Bool :=
  match S.mode h.ety.typ with
  | .characters => true
  | .mixed => true
  | _ => false

theorem textMode_iff (S : Spec) (h : Hdr) :
    textMode S h = true ↔ (S.mode h.ety.typ = .characters ∨ S.mode h.ety.typ = .mixed) := by
  unfold textMode
  cases S.mode h.ety.typ <;> simp

/-- forest formulation: top-level text items only if `allow`; below every element: only if its mode is
CHARACTERS or MIXED -/
def NoStrayTextF (S : Spec) (allow : Bool) : Items → Prop
  | .nil => True
  | .elem h k r => NoStrayTextF S (textMode S h) k ∧ NoStrayTextF S allow r
  | .text _ r => allow = true ∧ NoStrayTextF S allow r

/-- if `S.mode h.ety.typ` is neither `.characters` nor `.mixed` then the content of `h` has no top-level text
item; and all child elements satisfy the same, recursively -/
def NoStrayText (S : Spec) (h : Hdr) (kids : Items) : Prop := NoStrayTextF S (textMode S h) kids

/-- top-level text values of a content list -/
def Items.texts : Items → List CDv
  | .nil => []
  | .elem _ _ r => r.texts
  | .text c r => c :: r.texts

/-- all text values of a forest, each with the id of the element that holds it (`p` for the top level) -/
def Items.ptexts (p : Nat) : Items → List (Nat × CDv)
  | .nil => []
  | .elem h k r => k.ptexts h.id ++ r.ptexts p
  | .text c r => (p, c) :: r.ptexts p

theorem NoStrayTextF.mono (S : Spec) (its : Items) (h : NoStrayTextF S false its) (a : Bool) : NoStrayTextF S a its := by
  induction its with
  | nil => trivial
  | elem hd k r _ ihr => exact ⟨h.1, ihr h.2⟩
  | text c r _ => exact absurd h.1 (by simp)

/-! ### basic facts about `ofList` / `childElems` (in namespace `SortTree` to keep the generic names out of the way) -/

namespace SortTree

theorem childElems_ofList (l : List (Hdr × Items)) : (Items.ofList l).childElems = l := by
  induction l with
  | nil => rfl
  | cons c l ih => obtain ⟨h, k⟩ := c; simp only [Items.ofList, Items.childElems, ih]

theorem length_ofList (l : List (Hdr × Items)) : (Items.ofList l).length = l.length := by
  induction l with
  | nil => rfl
  | cons c l ih => obtain ⟨h, k⟩ := c; simp only [Items.ofList, Items.length, ih, List.length_cons]

theorem texts_ofList (l : List (Hdr × Items)) : (Items.ofList l).texts = [] := by
  induction l with
  | nil => rfl
  | cons c l ih => obtain ⟨h, k⟩ := c; simp only [Items.ofList, Items.texts, ih]

/-- content without top-level text is the list of its child elements -/
theorem ofList_childElems (its : Items) (h : its.texts = []) : Items.ofList its.childElems = its := by
  induction its with
  | nil => rfl
  | elem hd k r _ ihr => simp only [Items.childElems, Items.ofList, ihr h]
  | text c r _ => simp [Items.texts] at h

theorem texts_nil_of_noStray (S : Spec) (its : Items) (h : NoStrayTextF S false its) : its.texts = [] := by
  induction its with
  | nil => rfl
  | elem hd k r _ ihr => exact ihr h.2
  | text c r _ => exact absurd h.1 (by simp)

theorem length_childElems (its : Items) (h : its.texts = []) : its.childElems.length = its.length := by
  induction its with
  | nil => rfl
  | elem hd k r _ ihr => simp only [Items.childElems, Items.length, List.length_cons, ihr h]
  | text c r _ => simp [Items.texts] at h

theorem hdrs_ofList (l : List (Hdr × Items)) : (Items.ofList l).hdrs = l.flatMap fun c => c.1 :: c.2.hdrs := by
  induction l with
  | nil => rfl
  | cons c l ih => obtain ⟨h, k⟩ := c; simp only [Items.ofList, Items.hdrs, ih, List.flatMap_cons, List.cons_append]

theorem ptexts_ofList (p : Nat) (l : List (Hdr × Items)) : (Items.ofList l).ptexts p = l.flatMap fun c => c.2.ptexts c.1.id := by
  induction l with
  | nil => rfl
  | cons c l ih => obtain ⟨h, k⟩ := c; simp only [Items.ofList, Items.ptexts, ih, List.flatMap_cons]

theorem size_ofList (l : List (Hdr × Items)) : (Items.ofList l).size = (l.map fun c => c.2.size + 1).sum + 1 := by
  induction l with
  | nil => rfl
  | cons c l ih => obtain ⟨h, k⟩ := c; simp only [Items.ofList, Items.size, ih, List.map_cons, List.sum_cons]; omega

theorem wf_ofList (exp : PRef) (l : List (Hdr × Items)) :
    (Items.ofList l).wf exp ↔ ∀ c ∈ l, c.1.parent = exp ∧ c.2.wf (.elem c.1.id) := by
  induction l with
  | nil => simp [Items.ofList, Items.wf]
  | cons c l ih => obtain ⟨h, k⟩ := c; simp only [Items.ofList, Items.wf, ih, List.mem_cons, forall_eq_or_imp, and_assoc]

theorem noStray_ofList (S : Spec) (a : Bool) (l : List (Hdr × Items)) :
    NoStrayTextF S a (Items.ofList l) ↔ ∀ c ∈ l, NoStrayText S c.1 c.2 := by
  induction l with
  | nil => simp [Items.ofList, NoStrayTextF]
  | cons c l ih => obtain ⟨h, k⟩ := c; simp only [Items.ofList, NoStrayTextF, ih, List.mem_cons, forall_eq_or_imp, NoStrayText]

theorem ids_eq_map_hdrs (its : Items) : its.ids = its.hdrs.map (·.id) := by
  induction its with
  | nil => rfl
  | elem h k r ihk ihr => simp only [Items.ids, Items.hdrs, ihk, ihr, List.map_cons, List.map_append]
  | text c r ihr => simpa only [Items.ids, Items.hdrs] using ihr

theorem childElems_length_le (its : Items) : its.childElems.length ≤ its.length := by
  induction its with
  | nil => exact Nat.le_refl _
  | elem h k r _ ihr => simp only [Items.childElems, Items.length, List.length_cons]; omega
  | text c r ihr => simp only [Items.childElems, Items.length]; omega

theorem pairwise_of_length_le_one {α : Type} (R : α → α → Prop) (l : List α) (h : l.length ≤ 1) : l.Pairwise R := by
  match l, h with
  | [], _ => exact .nil
  | [a], _ => exact List.pairwise_singleton R a
  | _ :: _ :: _, h => simp at h

theorem size_childElems_lt (its : Items) : ∀ c ∈ its.childElems, c.2.size + 2 ≤ its.size := by
  induction its with
  | nil => intro c hc; simp [Items.childElems] at hc
  | elem h k r _ ihr =>
    intro c hc
    simp only [Items.childElems, List.mem_cons] at hc
    simp only [Items.size]
    rcases hc with hc | hc
    · subst hc; have := size_pos r; simp only; omega
    · have := ihr c hc; omega
  | text c r ihr => intro d hd; simp only [Items.size]; have := ihr d hd; omega

end SortTree
open SortTree

/-- `NoStrayText` in words: unless the mode of `h` is CHARACTERS or MIXED its content has no top-level text item, and all
child elements satisfy the same -/
theorem noStrayTextF_iff (S : Spec) (al : Bool) (its : Items) :
    NoStrayTextF S al its ↔ ((al = false → its.texts = []) ∧ ∀ c ∈ its.childElems, NoStrayText S c.1 c.2) := by
  induction its with
  | nil => simp [NoStrayTextF, Items.texts, Items.childElems]
  | elem h k r _ ihr =>
    simp only [NoStrayTextF, Items.texts, Items.childElems, List.mem_cons, forall_eq_or_imp, ihr, NoStrayText]
    constructor
    · rintro ⟨h1, h2, h3⟩; exact ⟨h2, h1, h3⟩
    · rintro ⟨h2, h1, h3⟩; exact ⟨h1, h2, h3⟩
  | text c r ihr =>
    simp only [NoStrayTextF, Items.texts, Items.childElems, ihr]
    cases al <;> simp

theorem noStrayText_iff (S : Spec) (h : Hdr) (kids : Items) :
    NoStrayText S h kids ↔ ((¬ (S.mode h.ety.typ = .characters ∨ S.mode h.ety.typ = .mixed) → kids.texts = []) ∧
      ∀ c ∈ kids.childElems, NoStrayText S c.1 c.2) := by
  have h1 := noStrayTextF_iff S (textMode S h) kids
  have h2 : textMode S h = false ↔ ¬ (S.mode h.ety.typ = .characters ∨ S.mode h.ety.typ = .mixed) := by
    rw [← textMode_iff]; simp
  rw [h2] at h1
  exact h1

/-! ### `SibPerm`: the forests that differ by permuting pure-element sibling lists, at any depth

`SibPermG true` additionally allows dropping text items (what `sortNode` does to stray text); `SibPerm = SibPermG false`. -/

inductive SibPermG : Bool → Items → Items → Prop
  | nil (d : Bool) : SibPermG d .nil .nil
  | elem {d : Bool} (h : Hdr) {k k' r r' : Items} : SibPermG d k k' → SibPermG d r r' → SibPermG d (.elem h k r) (.elem h k' r')
  | text {d : Bool} (c : CDv) {r r' : Items} : SibPermG d r r' → SibPermG d (.text c r) (.text c r')
  | perm {d : Bool} {l l' : List (Hdr × Items)} : l.Perm l' → SibPermG d (Items.ofList l) (Items.ofList l')
  | drop (c : CDv) (r : Items) : SibPermG true (.text c r) r
  | trans {d : Bool} {a b c : Items} : SibPermG d a b → SibPermG d b c → SibPermG d a c

abbrev SibPerm : Items → Items → Prop := SibPermG false

theorem SibPermG.refl (d : Bool) (its : Items) : SibPermG d its its := by
  induction its with
  | nil => exact .nil d
  | elem h k r ihk ihr => exact .elem h ihk ihr
  | text c r ihr => exact .text c ihr

theorem SibPerm.refl (its : Items) : SibPerm its its := SibPermG.refl false its

theorem SibPermG.mono {d : Bool} {a b : Items} (h : SibPermG d a b) : SibPermG true a b := by
  induction h with
  | nil => exact .nil _
  | elem h _ _ ihk ihr => exact .elem h ihk ihr
  | text c _ ih => exact .text c ih
  | perm hp => exact .perm hp
  | drop c r => exact .drop c r
  | trans _ _ ih1 ih2 => exact .trans ih1 ih2

/-- child-wise related pure-element lists -/
theorem SibPermG.ofList_map {d : Bool} (l : List (Hdr × Items)) (f : Hdr × Items → Items) (hf : ∀ c ∈ l, SibPermG d c.2 (f c)) :
    SibPermG d (Items.ofList l) (Items.ofList (l.map fun c => (c.1, f c))) := by
  induction l with
  | nil => exact .nil d
  | cons c l ih =>
    obtain ⟨h, k⟩ := c
    simp only [List.map_cons, Items.ofList]
    exact .elem h (hf (h, k) (List.mem_cons_self ..)) (ih fun c hc => hf c (List.mem_cons_of_mem _ hc))

/-- dropping all top-level text items -/
theorem SibPermG.dropTexts (its : Items) : SibPermG true its (Items.ofList its.childElems) := by
  induction its with
  | nil => exact .nil _
  | elem h k r _ ihr => exact .elem h (.refl _ _) ihr
  | text c r ihr => exact .trans (.drop c r) ihr

section invariants

/-! invariants of `SibPermG d` for both `d` (elements are kept, with their headers) -/

theorem SibPermG.hdrs_perm {d : Bool} {a b : Items} (h : SibPermG d a b) : b.hdrs.Perm a.hdrs := by
  induction h with
  | nil => exact .refl _
  | elem h _ _ ihk ihr => simp only [Items.hdrs]; exact .cons _ (ihk.append ihr)
  | text c _ ih => simpa only [Items.hdrs] using ih
  | perm hp => rw [hdrs_ofList, hdrs_ofList]; exact (List.Perm.flatMap_right _ hp).symm
  | drop c r => exact .refl _
  | trans _ _ ih1 ih2 => exact ih2.trans ih1

theorem SibPermG.ids_perm {d : Bool} {a b : Items} (h : SibPermG d a b) : b.ids.Perm a.ids := by
  rw [ids_eq_map_hdrs, ids_eq_map_hdrs]; exact h.hdrs_perm.map _

/-- the direct child elements are permuted (their headers: exactly; their contents: up to `SibPermG`) -/
theorem SibPermG.childHdrs_perm {d : Bool} {a b : Items} (h : SibPermG d a b) :
    (b.childElems.map (·.1)).Perm (a.childElems.map (·.1)) := by
  induction h with
  | nil => exact .refl _
  | elem h _ _ _ ihr => simp only [Items.childElems, List.map_cons]; exact .cons _ ihr
  | text c _ ih => simpa only [Items.childElems] using ih
  | perm hp => rw [childElems_ofList, childElems_ofList]; exact (hp.map _).symm
  | drop c r => exact .refl _
  | trans _ _ ih1 ih2 => exact ih2.trans ih1

theorem SibPermG.wf {d : Bool} {a b : Items} (h : SibPermG d a b) : ∀ exp, a.wf exp → b.wf exp := by
  induction h with
  | nil => intro _ h; exact h
  | elem h _ _ ihk ihr => intro exp hw; exact ⟨hw.1, ihk _ hw.2.1, ihr _ hw.2.2⟩
  | text c _ ih => intro exp hw; exact ih exp hw
  | perm hp => intro exp hw; rw [wf_ofList] at hw ⊢; exact fun c hc => hw c (hp.mem_iff.mpr hc)
  | drop c r => intro exp hw; exact hw
  | trans _ _ ih1 ih2 => intro exp hw; exact ih2 exp (ih1 exp hw)

theorem SibPermG.noStray (S : Spec) {d : Bool} {a b : Items} (h : SibPermG d a b) :
    ∀ al, NoStrayTextF S al a → NoStrayTextF S al b := by
  induction h with
  | nil => intro _ h; exact h
  | elem h _ _ ihk ihr => intro al hw; exact ⟨ihk _ hw.1, ihr _ hw.2⟩
  | text c _ ih => intro al hw; exact ⟨hw.1, ih al hw.2⟩
  | perm hp => intro al hw; rw [noStray_ofList] at hw ⊢; exact fun c hc => hw c (hp.mem_iff.mpr hc)
  | drop c r => intro al hw; exact hw.2
  | trans _ _ ih1 ih2 => intro al hw; exact ih2 al (ih1 al hw)

/-- text items may be dropped, never added: the size does not grow -/
theorem SibPermG.size_le {d : Bool} {a b : Items} (h : SibPermG d a b) : b.size ≤ a.size := by
  induction h with
  | nil => exact Nat.le_refl _
  | elem h _ _ ihk ihr => simp only [Items.size]; omega
  | text c _ ih => simp only [Items.size]; omega
  | perm hp => rw [size_ofList, size_ofList, (hp.map _).sum_nat]; exact Nat.le_refl _
  | drop c r => simp only [Items.size]; omega
  | trans _ _ ih1 ih2 => exact Nat.le_trans ih2 ih1

/-! invariants of `SibPerm` (nothing dropped) -/

theorem SibPerm.ptexts_perm' {d : Bool} {a b : Items} (h : SibPermG d a b) (hd : d = false) :
    ∀ p, (b.ptexts p).Perm (a.ptexts p) := by
  induction h with
  | nil => intro p; exact .refl _
  | elem h _ _ ihk ihr => intro p; simp only [Items.ptexts]; exact (ihk hd _).append (ihr hd p)
  | text c _ ih => intro p; simp only [Items.ptexts]; exact .cons _ (ih hd p)
  | perm hp => intro p; rw [ptexts_ofList, ptexts_ofList]; exact (List.Perm.flatMap_right _ hp).symm
  | drop c r => cases hd
  | trans _ _ ih1 ih2 => intro p; exact (ih2 hd p).trans (ih1 hd p)

theorem SibPerm.ptexts_perm {a b : Items} (h : SibPerm a b) (p : Nat) : (b.ptexts p).Perm (a.ptexts p) :=
  SibPerm.ptexts_perm' h rfl p

theorem SibPerm.texts_eq' {d : Bool} {a b : Items} (h : SibPermG d a b) (hd : d = false) : b.texts = a.texts := by
  induction h with
  | nil => rfl
  | elem h _ _ _ ihr => simpa only [Items.texts] using ihr hd
  | text c _ ih => simp only [Items.texts, ih hd]
  | perm hp => rw [texts_ofList, texts_ofList]
  | drop c r => cases hd
  | trans _ _ ih1 ih2 => exact (ih2 hd).trans (ih1 hd)

/-- the top-level text values keep even their order -/
theorem SibPerm.texts_eq {a b : Items} (h : SibPerm a b) : b.texts = a.texts := SibPerm.texts_eq' h rfl

theorem SibPerm.size_eq' {d : Bool} {a b : Items} (h : SibPermG d a b) (hd : d = false) : b.size = a.size := by
  induction h with
  | nil => rfl
  | elem h _ _ ihk ihr => simp only [Items.size, ihk hd, ihr hd]
  | text c _ ih => simp only [Items.size, ih hd]
  | perm hp => rw [size_ofList, size_ofList, (hp.map _).sum_nat]
  | drop c r => cases hd
  | trans _ _ ih1 ih2 => exact (ih2 hd).trans (ih1 hd)

theorem SibPerm.size_eq {a b : Items} (h : SibPerm a b) : b.size = a.size := SibPerm.size_eq' h rfl

theorem SibPerm.length_eq' {d : Bool} {a b : Items} (h : SibPermG d a b) (hd : d = false) : b.length = a.length := by
  induction h with
  | nil => rfl
  | elem h _ _ _ ihr => simp only [Items.length, ihr hd]
  | text c _ ih => simp only [Items.length, ih hd]
  | perm hp => rw [length_ofList, length_ofList, hp.length_eq]
  | drop c r => cases hd
  | trans _ _ ih1 ih2 => exact (ih2 hd).trans (ih1 hd)

theorem SibPerm.length_eq {a b : Items} (h : SibPerm a b) : b.length = a.length := SibPerm.length_eq' h rfl

end invariants

/-! ### `sortNode` -/

section sortNode
variable (S : Spec) (V : Env)

/-- one step of `sortNode`, with the mode test as a Boolean -/
theorem sortNode_succ (fuel : Nat) (h : Hdr) (kids : Items) :
    sortNode S V (fuel + 1) h kids =
      if textMode S h = true then kids
      else if (!S.defOrdered h.ety.defId && decide (kids.length > 1)) = true then
        Items.ofList ((kids.childElems.map fun c => (c.1, sortNode S V fuel c.1 c.2)).mergeSort
          (childLe S V h.ety.typ (kids.size + 2)))
      else sortNode.descend S V fuel kids := by
  rw [sortNode.eq_2]
  unfold textMode
  split <;> simp_all

/-- CHARACTERS / MIXED content is returned as it is -/
theorem sortNode_textMode (fuel : Nat) (h : Hdr) (kids : Items) (hm : textMode S h = true) :
    sortNode S V fuel h kids = kids := by
  cases fuel with
  | zero => rw [sortNode.eq_1]
  | succ f => rw [sortNode_succ, if_pos hm]

theorem sortNode_characters (fuel : Nat) (h : Hdr) (kids : Items) (hm : S.mode h.ety.typ = .characters) :
    sortNode S V fuel h kids = kids := sortNode_textMode S V fuel h kids ((textMode_iff S h).mpr (.inl hm))

theorem sortNode_mixed (fuel : Nat) (h : Hdr) (kids : Items) (hm : S.mode h.ety.typ = .mixed) :
    sortNode S V fuel h kids = kids := sortNode_textMode S V fuel h kids ((textMode_iff S h).mpr (.inr hm))

theorem descend_childElems (fuel : Nat) (its : Items) :
    (sortNode.descend S V fuel its).childElems = its.childElems.map fun c => (c.1, sortNode S V fuel c.1 c.2) := by
  induction its with
  | nil => rw [sortNode.descend.eq_1]; rfl
  | elem h k r _ ihr => rw [sortNode.descend.eq_2]; simp only [Items.childElems, List.map_cons, ihr]
  | text c r ihr => rw [sortNode.descend.eq_3]; simpa only [Items.childElems] using ihr

theorem descend_sibPerm (fuel : Nat) (IH : ∀ h kids, NoStrayText S h kids → SibPerm kids (sortNode S V fuel h kids))
    (its : Items) : ∀ al, NoStrayTextF S al its → SibPerm its (sortNode.descend S V fuel its) := by
  induction its with
  | nil => intro _ _; rw [sortNode.descend.eq_1]; exact .nil _
  | elem h k r _ ihr => intro al hn; rw [sortNode.descend.eq_2]; exact .elem h (IH h k hn.1) (ihr al hn.2)
  | text c r ihr => intro al hn; rw [sortNode.descend.eq_3]; exact .text c (ihr al hn.2)

/-- **the structure theorem**: `sortNode` only permutes pure-element sibling lists, at any depth, for every fuel -/
theorem sortNode_sibPerm (fuel : Nat) : ∀ (h : Hdr) (kids : Items), NoStrayText S h kids →
    SibPerm kids (sortNode S V fuel h kids) := by
  induction fuel with
  | zero => intro h kids _; rw [sortNode.eq_1]; exact .refl _
  | succ fuel ih =>
    intro h kids hn
    rw [sortNode_succ]
    split
    · exact .refl _
    · rename_i htm
      have htm' : textMode S h = false := by simpa using htm
      split
      · unfold NoStrayText at hn
        rw [htm'] at hn
        have htx := texts_nil_of_noStray S kids hn
        have hce : ∀ c ∈ kids.childElems, NoStrayText S c.1 c.2 := by
          rw [← ofList_childElems kids htx] at hn
          exact (noStray_ofList S false _).mp hn
        have h1 : SibPerm kids (Items.ofList (kids.childElems.map fun c => (c.1, sortNode S V fuel c.1 c.2))) := by
          have := SibPermG.ofList_map (d := false) kids.childElems (fun c => sortNode S V fuel c.1 c.2)
            fun c hc => ih c.1 c.2 (hce c hc)
          rwa [ofList_childElems kids htx] at this
        exact h1.trans (.perm (List.mergeSort_perm _ _).symm)
      · exact descend_sibPerm S V fuel ih kids _ hn

theorem descend_sibPermG (fuel : Nat) (IH : ∀ h kids, SibPermG true kids (sortNode S V fuel h kids))
    (its : Items) : SibPermG true its (sortNode.descend S V fuel its) := by
  induction its with
  | nil => rw [sortNode.descend.eq_1]; exact .nil _
  | elem h k r _ ihr => rw [sortNode.descend.eq_2]; exact .elem h (IH h k) ihr
  | text c r ihr => rw [sortNode.descend.eq_3]; exact .text c ihr

/-- without any hypothesis: `sortNode` permutes pure-element sibling lists and may drop text items (nothing else) -/
theorem sortNode_sibPermG (fuel : Nat) : ∀ (h : Hdr) (kids : Items), SibPermG true kids (sortNode S V fuel h kids) := by
  induction fuel with
  | zero => intro h kids; rw [sortNode.eq_1]; exact .refl _ _
  | succ fuel ih =>
    intro h kids
    rw [sortNode_succ]
    split
    · exact .refl _ _
    · split
      · exact (SibPermG.dropTexts kids).trans
          ((SibPermG.ofList_map kids.childElems (fun c => sortNode S V fuel c.1 c.2) fun c _ => ih c.1 c.2).trans
            (.perm (List.mergeSort_perm _ _).symm))
      · exact descend_sibPermG S V fuel ih kids

/-! #### item 2: multisets of headers / ids / text values, size, length

The statements about elements (headers, ids, parent fields) hold without any hypothesis; those about text items,
size and length need `NoStrayText`. -/

/-- every element is kept, with its header (name, type, attributes, comment, file set, parent field) -/
theorem sortNode_hdrs_perm (fuel : Nat) (h : Hdr) (kids : Items) :
    (sortNode S V fuel h kids).hdrs.Perm kids.hdrs := (sortNode_sibPermG S V fuel h kids).hdrs_perm

theorem sortNode_ids_perm (fuel : Nat) (h : Hdr) (kids : Items) :
    (sortNode S V fuel h kids).ids.Perm kids.ids := (sortNode_sibPermG S V fuel h kids).ids_perm

/-- the direct child elements are permuted -/
theorem sortNode_childHdrs_perm (fuel : Nat) (h : Hdr) (kids : Items) :
    ((sortNode S V fuel h kids).childElems.map (·.1)).Perm (kids.childElems.map (·.1)) :=
  (sortNode_sibPermG S V fuel h kids).childHdrs_perm

/-- item 7: the parent fields stay in step with the structure -/
theorem sortNode_wf (fuel : Nat) (h : Hdr) (kids : Items) (exp : PRef) (hw : kids.wf exp) :
    (sortNode S V fuel h kids).wf exp := (sortNode_sibPermG S V fuel h kids).wf exp hw

theorem sortNode_noStray (fuel : Nat) (h : Hdr) (kids : Items) (hn : NoStrayText S h kids) :
    NoStrayText S h (sortNode S V fuel h kids) := (sortNode_sibPermG S V fuel h kids).noStray S _ hn

theorem sortNode_size_le (fuel : Nat) (h : Hdr) (kids : Items) :
    (sortNode S V fuel h kids).size ≤ kids.size := (sortNode_sibPermG S V fuel h kids).size_le

/-- every element keeps its multiset of text values (pairs: id of the holder, value; `p` for the top level) -/
theorem sortNode_ptexts_perm (fuel : Nat) (h : Hdr) (kids : Items) (hn : NoStrayText S h kids) (p : Nat) :
    ((sortNode S V fuel h kids).ptexts p).Perm (kids.ptexts p) := (sortNode_sibPerm S V fuel h kids hn).ptexts_perm p

/-- the top-level text values keep even their order -/
theorem sortNode_texts (fuel : Nat) (h : Hdr) (kids : Items) (hn : NoStrayText S h kids) :
    (sortNode S V fuel h kids).texts = kids.texts := (sortNode_sibPerm S V fuel h kids hn).texts_eq

theorem sortNode_size (fuel : Nat) (h : Hdr) (kids : Items) (hn : NoStrayText S h kids) :
    (sortNode S V fuel h kids).size = kids.size := (sortNode_sibPerm S V fuel h kids hn).size_eq

theorem sortNode_length (fuel : Nat) (h : Hdr) (kids : Items) (hn : NoStrayText S h kids) :
    (sortNode S V fuel h kids).length = kids.length := (sortNode_sibPerm S V fuel h kids hn).length_eq

/-! #### item 3: only permitted reorderings -/

/-- where the specification says `ordered` (or the content is CHARACTERS / MIXED, or there is at most one item)
the sequence of child elements keeps its order -/
theorem sortNode_keeps_order (fuel : Nat) (h : Hdr) (kids : Items)
    (ho : S.defOrdered h.ety.defId = true ∨ S.mode h.ety.typ = .characters ∨ S.mode h.ety.typ = .mixed ∨ kids.length ≤ 1) :
    (sortNode S V fuel h kids).childElems.map (·.1) = kids.childElems.map (·.1) := by
  cases fuel with
  | zero => rw [sortNode.eq_1]
  | succ fuel =>
    rw [sortNode_succ]
    split
    · rfl
    · rename_i htm
      rw [textMode_iff] at htm
      split
      · rename_i hc
        simp only [Bool.and_eq_true, Bool.not_eq_true', decide_eq_true_eq] at hc
        rcases ho with ho | ho | ho | ho
        · rw [ho] at hc; exact absurd hc.1 (by simp)
        · exact absurd (.inl ho) htm
        · exact absurd (.inr ho) htm
        · omega
      · rw [descend_childElems, List.map_map]; rfl

/-! #### item 4: the result is sorted

The comparison `childLe` is NOT a total preorder on all elements (`childLe_not_totalPre` below: a NaN float value compares
`Equal` to every float), so the hypotheses are stated on the elements that are actually compared (`TotalPreOn`). -/

/-- a Boolean comparison that is transitive and total (as assumed in `Lemmas/Sort.lean`) -/
def TotalPre {α : Type} (le : α → α → Bool) : Prop :=
  (∀ a b c, le a b = true → le b c = true → le a c = true) ∧ (∀ a b, (le a b || le b a) = true)

/-- transitive and total on the elements that satisfy `P` -/
def TotalPreOn {α : Type} (P : α → Prop) (le : α → α → Bool) : Prop :=
  (∀ a b c, P a → P b → P c → le a b = true → le b c = true → le a c = true) ∧ (∀ a b, P a → P b → (le a b || le b a) = true)

theorem TotalPre.on {α : Type} {le : α → α → Bool} (h : TotalPre le) (P : α → Prop) : TotalPreOn P le :=
  ⟨fun a b c _ _ _ => h.1 a b c, fun a b _ _ => h.2 a b⟩

theorem TotalPreOn.mono {α : Type} {le : α → α → Bool} {P Q : α → Prop} (h : TotalPreOn Q le) (hpq : ∀ a, P a → Q a) :
    TotalPreOn P le :=
  ⟨fun a b c ha hb hc => h.1 a b c (hpq a ha) (hpq b hb) (hpq c hc), fun a b ha hb => h.2 a b (hpq a ha) (hpq b hb)⟩

/-- `List.pairwise_mergeSort` with the hypotheses only on the elements of the list -/
theorem sort_sorted_on {α : Type} (P : α → Prop) (le : α → α → Bool) (hpre : TotalPreOn P le) (l : List α) (hl : ∀ a ∈ l, P a) :
    (l.mergeSort le).Pairwise (fun a b => le a b = true) := by
  have h1 : (l.attachWith P hl).mergeSort (fun a b => le a.1 b.1) |>.Pairwise (fun a b => le a.1 b.1 = true) :=
    List.pairwise_mergeSort (le := fun (a b : {x // P x}) => le a.1 b.1)
      (fun a b c => hpre.1 a.1 b.1 c.1 a.2 b.2 c.2) (fun a b => hpre.2 a.1 b.1 a.2 b.2) _
  have h2 : ((l.attachWith P hl).mergeSort (fun a b => le a.1 b.1)).map Subtype.val = l.mergeSort le := by
    rw [List.map_mergeSort (s := le) (fun _ _ _ _ => rfl), List.attachWith_map_subtype_val]
  rw [← h2]
  exact List.Pairwise.map Subtype.val (fun _ _ h => h) h1

theorem sort_idem_on {α : Type} (P : α → Prop) (le : α → α → Bool) (hpre : TotalPreOn P le) (l : List α) (hl : ∀ a ∈ l, P a) :
    (l.mergeSort le).mergeSort le = l.mergeSort le :=
  List.mergeSort_of_pairwise (sort_sorted_on P le hpre l hl)

/-- the child elements of an element whose content may be reordered (not `ordered`, not CHARACTERS / MIXED) are sorted
by the sort key `childLe` (with the fuel the run used), if the key is transitive and total on the (recursively sorted)
children -/
theorem sortNode_sorted (fuel : Nat) (h : Hdr) (kids : Items) (htm : textMode S h = false)
    (hord : S.defOrdered h.ety.defId = false)
    (hpre : TotalPreOn (· ∈ kids.childElems.map fun c => (c.1, sortNode S V fuel c.1 c.2)) (childLe S V h.ety.typ (kids.size + 2))) :
    (sortNode S V (fuel + 1) h kids).childElems.Pairwise (fun a b => childLe S V h.ety.typ (kids.size + 2) a b = true) := by
  rw [sortNode_succ, if_neg (by simp [htm])]
  split
  · rw [childElems_ofList]
    exact sort_sorted_on _ _ hpre _ (fun _ ha => ha)
  · rename_i hc
    simp only [hord, Bool.not_false, Bool.true_and, decide_eq_true_eq] at hc
    apply pairwise_of_length_le_one
    rw [descend_childElems, List.length_map]
    have := childElems_length_le kids
    omega

/-! #### item 5: idempotence

`Q` is a class of elements on which the sort keys are total preorders; it has to be closed under what sorting does
(`SibClosed`), and all elements of the tree have to belong to it. -/

/-- a class of elements that is closed under permuting siblings at any depth -/
def SibClosed (Q : Hdr × Items → Prop) : Prop := ∀ h k k', SibPerm k k' → Q (h, k) → Q (h, k')

/-- classes given by a condition on all headers and all text values are closed -/
def Items.All (P : Hdr → Prop) (T : CDv → Prop) : Items → Prop
  | .nil => True
  | .elem h k r => P h ∧ Items.All P T k ∧ Items.All P T r
  | .text c r => T c ∧ Items.All P T r

theorem Items.all_ofList (P : Hdr → Prop) (T : CDv → Prop) (l : List (Hdr × Items)) :
    (Items.ofList l).All P T ↔ ∀ c ∈ l, P c.1 ∧ c.2.All P T := by
  induction l with
  | nil => simp [Items.ofList, Items.All]
  | cons c l ih => obtain ⟨h, k⟩ := c; simp only [Items.ofList, Items.All, ih, List.mem_cons, forall_eq_or_imp, and_assoc]

theorem SibPermG.all (P : Hdr → Prop) (T : CDv → Prop) {d : Bool} {a b : Items} (h : SibPermG d a b) : a.All P T → b.All P T := by
  induction h with
  | nil => exact id
  | elem h _ _ ihk ihr => intro hw; exact ⟨hw.1, ihk hw.2.1, ihr hw.2.2⟩
  | text c _ ih => intro hw; exact ⟨hw.1, ih hw.2⟩
  | perm hp => intro hw; rw [Items.all_ofList] at hw ⊢; exact fun c hc => hw c (hp.mem_iff.mpr hc)
  | drop c r => intro hw; exact hw.2
  | trans _ _ ih1 ih2 => intro hw; exact ih2 (ih1 hw)

theorem sibClosed_all (P : Hdr → Prop) (T : CDv → Prop) : SibClosed fun c => P c.1 ∧ c.2.All P T :=
  fun _ _ _ hs hq => ⟨hq.1, hs.all P T hq.2⟩

/-- the smallest class that will do for a given forest: its elements, with their contents sorted in any way -/
def SortOrbit (its : Items) (c : Hdr × Items) : Prop := ∃ h k, Occ h k its ∧ c.1 = h ∧ SibPerm k c.2

theorem sibClosed_orbit (its : Items) : SibClosed (SortOrbit its) :=
  fun _ _ _ hs ⟨h0, k0, ho, he, hs0⟩ => ⟨h0, k0, ho, he, hs0.trans hs⟩

theorem occ_mem_orbit {h : Hdr} {k its : Items} (ho : Occ h k its) : SortOrbit its (h, k) := ⟨h, k, ho, rfl, .refl _⟩

section withClass
variable (Q : Hdr × Items → Prop)

/-- every element of the forest belongs to `Q`, and the comparisons a run of `sortNode` can use are total preorders on `Q`:
for every element, `childLe` at the element's type with fuel `size of its content + 2` -/
def SortKeysOKF : Items → Prop
  | .nil => True
  | .elem h k r => ((Q (h, k) ∧ TotalPreOn Q (childLe S V h.ety.typ (k.size + 2))) ∧ SortKeysOKF k) ∧ SortKeysOKF r
  | .text _ r => SortKeysOKF r

def SortKeysOK (h : Hdr) (kids : Items) : Prop :=
  TotalPreOn Q (childLe S V h.ety.typ (kids.size + 2)) ∧ SortKeysOKF S V Q kids

theorem sortKeysOKF_of_total (hle : ∀ typ n, TotalPreOn Q (childLe S V typ n)) (its : Items)
    (hall : ∀ h k, Occ h k its → Q (h, k)) : SortKeysOKF S V Q its := by
  induction its with
  | nil => trivial
  | elem h k r ihk ihr =>
    exact ⟨⟨⟨hall h k (.inl ⟨rfl, rfl⟩), hle _ _⟩, ihk fun h' k' ho => hall h' k' (.inr (.inl ho))⟩,
      ihr fun h' k' ho => hall h' k' (.inr (.inr ho))⟩
  | text c r ihr => exact ihr fun h' k' ho => hall h' k' ho

theorem sortKeysOK_of_total (hle : ∀ typ n, TotalPreOn Q (childLe S V typ n)) (h : Hdr) (kids : Items)
    (hall : ∀ h' k', Occ h' k' kids → Q (h', k')) : SortKeysOK S V Q h kids :=
  ⟨hle _ _, sortKeysOKF_of_total S V Q hle kids hall⟩

theorem sortKeysOKF_childElems (its : Items) (h : SortKeysOKF S V Q its) :
    ∀ c ∈ its.childElems, Q (c.1, c.2) ∧ SortKeysOK S V Q c.1 c.2 := by
  induction its with
  | nil => intro c hc; simp [Items.childElems] at hc
  | elem hd k r _ ihr =>
    intro c hc
    simp only [Items.childElems, List.mem_cons] at hc
    rcases hc with hc | hc
    · subst hc; exact ⟨h.1.1.1, h.1.1.2, h.1.2⟩
    · exact ihr h.2 c hc
  | text c r ihr => exact ihr h

theorem noStrayF_childElems (al : Bool) (its : Items) (h : NoStrayTextF S al its) : ∀ c ∈ its.childElems, NoStrayText S c.1 c.2 := by
  induction its with
  | nil => intro c hc; simp [Items.childElems] at hc
  | elem hd k r _ ihr =>
    intro c hc
    simp only [Items.childElems, List.mem_cons] at hc
    rcases hc with hc | hc
    · subst hc; exact h.1
    · exact ihr h.2 c hc
  | text c r ihr => exact ihr h.2

/-- the recursively sorted children belong to the class -/
theorem sortedKids_mem_class (hQ : SibClosed Q) (fuel : Nat) (al : Bool) (kids : Items) (hn : NoStrayTextF S al kids)
    (hk : SortKeysOKF S V Q kids) : ∀ c ∈ kids.childElems.map fun c => (c.1, sortNode S V fuel c.1 c.2), Q c := by
  intro c hc
  rw [List.mem_map] at hc
  obtain ⟨d, hd, rfl⟩ := hc
  exact hQ d.1 d.2 _ (sortNode_sibPerm S V fuel d.1 d.2 (noStrayF_childElems S al kids hn d hd)) (sortKeysOKF_childElems S V Q kids hk d hd).1

theorem descend_idem (fuel : Nat)
    (IH : ∀ h kids, NoStrayText S h kids → SortKeysOK S V Q h kids → sortNode S V fuel h (sortNode S V fuel h kids) = sortNode S V fuel h kids)
    (its : Items) : ∀ al, NoStrayTextF S al its → SortKeysOKF S V Q its →
      sortNode.descend S V fuel (sortNode.descend S V fuel its) = sortNode.descend S V fuel its := by
  induction its with
  | nil => intro _ _ _; rw [sortNode.descend.eq_1, sortNode.descend.eq_1]
  | elem h k r _ ihr =>
    intro al hn hk
    rw [sortNode.descend.eq_2, sortNode.descend.eq_2, IH h k hn.1 ⟨hk.1.1.2, hk.1.2⟩, ihr al hn.2 hk.2]
  | text c r ihr =>
    intro al hn hk
    rw [sortNode.descend.eq_3, sortNode.descend.eq_3, ihr al hn.2 hk]

/-- **idempotence on trees**, for every fuel (both runs stop at the same depth): sorting a sorted content list again
with the same fuel changes nothing.  Needs `NoStrayText` (otherwise the first run may drop text items, the content gets
smaller, and the second run compares with less fuel) and the total-preorder hypothesis for exactly the comparisons the
run uses, on a class `Q` of elements that contains the elements of the tree and is closed under sorting (`SortKeysOK`). -/
theorem sortNode_idem (hQ : SibClosed Q) (fuel : Nat) : ∀ (h : Hdr) (kids : Items), NoStrayText S h kids → SortKeysOK S V Q h kids →
    sortNode S V fuel h (sortNode S V fuel h kids) = sortNode S V fuel h kids := by
  induction fuel with
  | zero => intro h kids _ _; rw [sortNode.eq_1, sortNode.eq_1]
  | succ fuel ih =>
    intro h kids hn hk
    by_cases htm : textMode S h = true
    · rw [sortNode_textMode S V _ h _ htm]
    · have hlen := sortNode_length S V (fuel + 1) h kids hn
      have hsz := sortNode_size S V (fuel + 1) h kids hn
      rw [sortNode_succ S V fuel h (sortNode S V (fuel + 1) h kids), if_neg htm, hlen, hsz]
      have htm' : textMode S h = false := by simpa using htm
      unfold NoStrayText at hn
      rw [htm'] at hn
      by_cases hc : (!S.defOrdered h.ety.defId && decide (kids.length > 1)) = true
      · rw [if_pos hc]
        have hR : sortNode S V (fuel + 1) h kids = Items.ofList ((kids.childElems.map fun c => (c.1, sortNode S V fuel c.1 c.2)).mergeSort
            (childLe S V h.ety.typ (kids.size + 2))) := by
          rw [sortNode_succ, if_neg htm, if_pos hc]
        rw [hR, childElems_ofList]
        congr 1
        have hfix : ∀ c ∈ (kids.childElems.map fun c => (c.1, sortNode S V fuel c.1 c.2)).mergeSort (childLe S V h.ety.typ (kids.size + 2)),
            (c.1, sortNode S V fuel c.1 c.2) = c := by
          intro c hc
          rw [List.mem_mergeSort, List.mem_map] at hc
          obtain ⟨d, hd, rfl⟩ := hc
          simp only
          rw [ih d.1 d.2 (noStrayF_childElems S false kids hn d hd) (sortKeysOKF_childElems S V Q kids hk.2 d hd).2]
        rw [List.map_congr_left hfix, List.map_id']
        exact sort_idem_on Q _ hk.1 _ (sortedKids_mem_class S V Q hQ fuel false kids hn hk.2)
      · rw [if_neg hc]
        have hR : sortNode S V (fuel + 1) h kids = sortNode.descend S V fuel kids := by
          rw [sortNode_succ, if_neg htm, if_neg hc]
        rw [hR]
        exact descend_idem S V Q fuel ih kids false hn hk.2

/-- idempotence when `childLe` is a total preorder on the class `Q` for every type and fuel, and every element of the tree is in `Q` -/
theorem sortNode_idem' (hQ : SibClosed Q) (hle : ∀ typ n, TotalPreOn Q (childLe S V typ n)) (fuel : Nat) (h : Hdr) (kids : Items)
    (hn : NoStrayText S h kids) (hall : ∀ h' k', Occ h' k' kids → Q (h', k')) :
    sortNode S V fuel h (sortNode S V fuel h kids) = sortNode S V fuel h kids :=
  sortNode_idem S V Q hQ fuel h kids hn (sortKeysOK_of_total S V Q hle h kids hall)

/-! #### item 4, at every depth: with enough fuel the whole subtree is sorted -/

/-- the child elements of `h` are sorted, if its content may be reordered -/
def NodeSorted (h : Hdr) (k : Items) : Prop :=
  S.defOrdered h.ety.defId = false → k.childElems.Pairwise (fun a b => childLe S V h.ety.typ (k.size + 2) a b = true)

/-- every element of the forest that `sort` reaches (not below CHARACTERS / MIXED content) has sorted child elements -/
def DeepSortedF : Items → Prop
  | .nil => True
  | .elem h k r => (textMode S h = true ∨ (NodeSorted S V h k ∧ DeepSortedF k)) ∧ DeepSortedF r
  | .text _ r => DeepSortedF r

def DeepSorted (h : Hdr) (k : Items) : Prop := textMode S h = true ∨ (NodeSorted S V h k ∧ DeepSortedF S V k)

theorem DeepSorted.node {h : Hdr} {k : Items} (hd : DeepSorted S V h k) (htm : textMode S h = false) : NodeSorted S V h k := by
  rcases hd with hd | hd
  · rw [htm] at hd; cases hd
  · exact hd.1

theorem deepSortedF_ofList (l : List (Hdr × Items)) : DeepSortedF S V (Items.ofList l) ↔ ∀ c ∈ l, DeepSorted S V c.1 c.2 := by
  induction l with
  | nil => simp [Items.ofList, DeepSortedF]
  | cons c l ih => obtain ⟨h, k⟩ := c; simp only [Items.ofList, DeepSortedF, ih, List.mem_cons, forall_eq_or_imp, DeepSorted]

theorem descend_deepSorted (fuel : Nat)
    (IH : ∀ h kids, kids.size ≤ fuel → NoStrayText S h kids → SortKeysOK S V Q h kids → DeepSorted S V h (sortNode S V fuel h kids))
    (its : Items) : ∀ al, its.size ≤ fuel + 1 → NoStrayTextF S al its → SortKeysOKF S V Q its →
      DeepSortedF S V (sortNode.descend S V fuel its) := by
  induction its with
  | nil => intro _ _ _ _; rw [sortNode.descend.eq_1]; trivial
  | elem h k r _ ihr =>
    intro al hs hn hk
    rw [sortNode.descend.eq_2]
    simp only [Items.size] at hs
    have := size_pos r
    exact ⟨IH h k (by omega) hn.1 ⟨hk.1.1.2, hk.1.2⟩, ihr al (by omega) hn.2 hk.2⟩
  | text c r ihr =>
    intro al hs hn hk
    rw [sortNode.descend.eq_3]
    simp only [Items.size] at hs
    exact ihr al (by omega) hn.2 hk

/-- with fuel at least the size of the content (`opSort` passes size + 2), the result of `sortNode` is sorted at every depth
that sorting reaches -/
theorem sortNode_deepSorted (hQ : SibClosed Q) (fuel : Nat) : ∀ (h : Hdr) (kids : Items), kids.size ≤ fuel → NoStrayText S h kids →
    SortKeysOK S V Q h kids → DeepSorted S V h (sortNode S V fuel h kids) := by
  induction fuel with
  | zero => intro h kids hs _ _; have := size_pos kids; omega
  | succ fuel ih =>
    intro h kids hs hn hk
    by_cases htm : textMode S h = true
    · exact .inl htm
    · right
      have hsz := sortNode_size S V (fuel + 1) h kids hn
      have htm' : textMode S h = false := by simpa using htm
      unfold NoStrayText at hn
      rw [htm'] at hn
      refine ⟨?_, ?_⟩
      · intro hord
        rw [hsz]
        exact sortNode_sorted S V fuel h kids htm' hord (hk.1.mono (sortedKids_mem_class S V Q hQ fuel false kids hn hk.2))
      · rw [sortNode_succ, if_neg htm]
        split
        · rw [deepSortedF_ofList]
          intro c hc
          rw [List.mem_mergeSort, List.mem_map] at hc
          obtain ⟨d, hd, rfl⟩ := hc
          have := size_childElems_lt kids d hd
          exact ih d.1 d.2 (by omega) (noStrayF_childElems S false kids hn d hd) (sortKeysOKF_childElems S V Q kids hk.2 d hd).2
        · exact descend_deepSorted S V Q fuel ih kids false hs hn hk.2

/-! #### the two hypotheses of idempotence / deep sortedness, bundled -/

def SortHyp (h : Hdr) (k : Items) : Prop := NoStrayText S h k ∧ SortKeysOK S V Q h k

def SortHypF (its : Items) : Prop := (∃ al, NoStrayTextF S al its) ∧ SortKeysOKF S V Q its

theorem SortHypF.elem {h : Hdr} {k r : Items} (hp : SortHypF S V Q (.elem h k r)) :
    SortHyp S V Q h k ∧ SortHypF S V Q k ∧ SortHypF S V Q r := by
  obtain ⟨⟨al, hn1⟩, hk1⟩ := hp
  exact ⟨⟨hn1.1, hk1.1.1.2, hk1.1.2⟩, ⟨⟨_, hn1.1⟩, hk1.1.2⟩, ⟨⟨_, hn1.2⟩, hk1.2⟩⟩

theorem SortHypF.text {c : CDv} {r : Items} (hp : SortHypF S V Q (.text c r)) : SortHypF S V Q r := by
  obtain ⟨⟨al, hn1⟩, hk1⟩ := hp
  exact ⟨⟨_, hn1.2⟩, hk1⟩

theorem SortHyp.forest {h : Hdr} {k : Items} (hp : SortHyp S V Q h k) (hq : Q (h, k)) : SortHypF S V Q (.elem h k .nil) :=
  ⟨⟨false, hp.1, trivial⟩, ⟨⟨hq, hp.2.1⟩, hp.2.2⟩, trivial⟩

end withClass

/-! #### NoStrayText is needed for the statements about text, size and length -/

/-- stray text in content that may be reordered IS dropped (so `NoStrayText` cannot be omitted in `sortNode_length`,
`sortNode_size`, `sortNode_texts`, `sortNode_ptexts_perm`) -/
theorem sortNode_drops_stray_text (fuel : Nat) (h : Hdr) (c : CDv) (h1 h2 : Hdr) (k1 k2 : Items)
    (htm : textMode S h = false) (hord : S.defOrdered h.ety.defId = false) :
    (sortNode S V (fuel + 1) h (.text c (.elem h1 k1 (.elem h2 k2 .nil)))).length = 2 ∧
    (sortNode S V (fuel + 1) h (.text c (.elem h1 k1 (.elem h2 k2 .nil)))).texts = [] := by
  rw [sortNode_succ, if_neg (by simp [htm]), if_pos (by simp [hord, Items.length])]
  refine ⟨?_, texts_ofList _⟩
  rw [length_ofList, List.length_mergeSort, List.length_map]
  rfl

/-! #### `childLe` is not a total preorder on all elements

A NaN compares `Equal` to every float (`partial_cmp(..).unwrap_or(Equal)`), so `2.0 ≤ NaN ≤ 1.0` but not `2.0 ≤ 1.0`:
the unrestricted hypothesis `∀ a b c, le a b → le b c → le a c` of `Lemmas/Sort.lean` is false for `childLe` with any
fuel ≥ 2, for every specification. -/

namespace SortTree

def nanBits : Nat := 0x7FF8000000000000
def oneBits : Nat := 0x3FF0000000000000
def twoBits : Nat := 0x4000000000000000

/-- an element header without attributes -/
def hdr0 : Hdr := { id := 0, name := 0, ety := default, parent := .none, attrs := [], files := [], comment := none }

theorem cmpBytes_refl (a : Bytes) : cmpBytes a a = .eq := by
  induction a with
  | nil => rfl
  | cons x xs ih => simp [cmpBytes, ih]

theorem itemName_text (h : Hdr) (c : CDv) (r : Items) : itemName S h (.text c r) = none := by
  unfold itemName; split <;> rfl

theorem cmpContent_nil (n : Nat) : cmpContent S V n .nil .nil = .eq := by
  cases n <;> simp [cmpContent]

theorem thenCmp_eq_right (o : Ordering) : thenCmp o .eq = o := by cases o <;> rfl

theorem cmpElem_floatLeaf (n : Nat) (x y : Nat) :
    cmpElem S V (n + 2) (hdr0, .text (.float x) .nil) (hdr0, .text (.float y) .nil) = cmpF64 x y := by
  rw [cmpElem.eq_2]
  simp only [cmpBytes_refl, itemName_text, subElem, Items.childElems, List.find?_nil, Option.bind_none, hdr0,
    cmpContent.eq_8, cmpContent_nil, cmpCD, cmpAttrs, thenCmp_eq_right]

end SortTree
open SortTree

theorem childLe_floatLeaf (typ n : Nat) (x y : Nat) :
    childLe S V typ (n + 2) (hdr0, .text (.float x) .nil) (hdr0, .text (.float y) .nil) = (cmpF64 x y != .gt) := by
  unfold childLe
  simp only [cmpIdx_refl, cmpElem_floatLeaf]

/-- the float comparison BEFORE the repair of finding c14:nan-float-order-dependent (`partial_cmp(..).unwrap_or(Equal)`):
a NaN was equal to every number -/
def cmpF64Old (a b : Nat) : Ordering :=
  let isNaNBits (b : Nat) : Bool := (b >>> 52) % 2048 == 2047 && b % (2 ^ 52) != 0
  if isNaNBits a ∨ isNaNBits b then .eq
  else
    let key (x : Nat) : Int := if x ≥ 2 ^ 63 then -((x - 2 ^ 63 : Nat) : Int) else (x : Int)
    if key a < key b then .lt else if key a > key b then .gt else .eq

/-- negation witness of the repaired defect: with the old comparison `2.0 ≤ NaN ≤ 1.0` but not `2.0 ≤ 1.0`, so the sibling
comparison was no total preorder and the result of `sort` depended on the order before (reproduced on the library:
[2, NaN, 1] stayed as it was, [2, 1, NaN] became [1, 2, NaN]) -/
theorem cmpF64Old_not_transitive :
    cmpF64Old twoBits nanBits ≠ .gt ∧ cmpF64Old nanBits oneBits ≠ .gt ∧ cmpF64Old twoBits oneBits = .gt := by decide

/-- the sort key of the repaired comparison (`f64::total_cmp`) -/
def f64Key (x : Nat) : Int := if x ≥ 2 ^ 63 then -((x - 2 ^ 63 : Nat) : Int) - 1 else (x : Int)

theorem f64Key_inj (a b : Nat) (h : f64Key a = f64Key b) : a = b := by
  unfold f64Key at h
  split at h <;> split at h <;> omega

theorem cmpF64_eq_key (a b : Nat) :
    cmpF64 a b = if f64Key a < f64Key b then .lt else if f64Key a > f64Key b then .gt else .eq := rfl

theorem cmpF64_le_iff (a b : Nat) : cmpF64 a b ≠ .gt ↔ f64Key a ≤ f64Key b := by
  rw [cmpF64_eq_key]
  by_cases h : f64Key a < f64Key b
  · simp only [h, if_true]; constructor
    · intro _; omega
    · intro _ hc; cases hc
  · by_cases h' : f64Key a > f64Key b
    · simp only [h, h', if_true, if_false]; constructor
      · intro hc; exact absurd rfl hc
      · intro hle; omega
    · simp only [h, h', if_false]; constructor
      · intro _; omega
      · intro _ hc; cases hc

/-- the repaired float comparison is a linear order on bit patterns: transitive, total, and `Equal` only for equal bits -/
theorem cmpF64_le_trans (a b c : Nat) (h1 : cmpF64 a b ≠ .gt) (h2 : cmpF64 b c ≠ .gt) : cmpF64 a c ≠ .gt := by
  rw [cmpF64_le_iff] at *; omega

theorem cmpF64_le_total (a b : Nat) : cmpF64 a b ≠ .gt ∨ cmpF64 b a ≠ .gt := by
  rw [cmpF64_le_iff, cmpF64_le_iff]; omega

theorem cmpF64_eq_iff (a b : Nat) : cmpF64 a b = .eq ↔ a = b := by
  rw [cmpF64_eq_key]
  constructor
  · intro h
    apply f64Key_inj
    split at h
    · cases h
    · split at h
      · cases h
      · omega
  · rintro rfl
    simp

end sortNode

/-! ### `modify` and `locate` helpers -/

namespace SortTree

theorem modify_elem_eq' (t : Nat) (f : Hdr → Items → Hdr × Items) (h : Hdr) (k r : Items) (he : h.id = t) :
    (Items.elem h k r).modify t f = .elem (f h k).1 (f h k).2 (r.modify t f) := by
  simp only [Items.modify, he, if_true]

theorem modify_elem_ne' (t : Nat) (f : Hdr → Items → Hdr × Items) (h : Hdr) (k r : Items) (he : h.id ≠ t) :
    (Items.elem h k r).modify t f = .elem h (k.modify t f) (r.modify t f) := by
  simp only [Items.modify, he, if_false]

/-- an edit that keeps the header and changes the content by `SibPermG d` changes the forest by `SibPermG d` -/
theorem sibPermG_modify (S : Spec) (d : Bool) (t : Nat) (f : Hdr → Items → Hdr × Items)
    (hf : ∀ h k, NoStrayText S h k → (f h k).1 = h ∧ SibPermG d k (f h k).2) (its : Items) :
    ∀ al, NoStrayTextF S al its → SibPermG d its (its.modify t f) := by
  induction its with
  | nil => intro _ _; exact .nil _
  | elem h k r ihk ihr =>
    intro al hn
    by_cases he : h.id = t
    · rw [modify_elem_eq' t f h k r he]
      obtain ⟨h1, h2⟩ := hf h k hn.1
      rw [h1]
      exact .elem h h2 (ihr al hn.2)
    · rw [modify_elem_ne' t f h k r he]
      exact .elem h (ihk _ hn.1) (ihr al hn.2)
  | text c r ihr => intro al hn; simp only [Items.modify]; exact .text c (ihr al hn.2)

/-- the same without a hypothesis on the forest -/
theorem sibPermG_modify' (d : Bool) (t : Nat) (f : Hdr → Items → Hdr × Items)
    (hf : ∀ h k, (f h k).1 = h ∧ SibPermG d k (f h k).2) (its : Items) : SibPermG d its (its.modify t f) := by
  induction its with
  | nil => exact .nil _
  | elem h k r ihk ihr =>
    by_cases he : h.id = t
    · rw [modify_elem_eq' t f h k r he]
      obtain ⟨h1, h2⟩ := hf h k
      rw [h1]
      exact .elem h h2 ihr
    · rw [modify_elem_ne' t f h k r he]
      exact .elem h ihk ihr
  | text c r ihr => simp only [Items.modify]; exact .text c ihr

/-- editing twice with an edit that is idempotent on the nodes of the forest = editing once -/
theorem modify_modify_fix (t : Nat) (f : Hdr → Items → Hdr × Items) (P : Hdr → Items → Prop)
    (PF : Items → Prop) (hnil : ∀ h k r, PF (.elem h k r) → P h k ∧ PF k ∧ PF r) (htext : ∀ c r, PF (.text c r) → PF r)
    (hf : ∀ h k, P h k → (f h k).1.id = h.id ∧ f (f h k).1 (f h k).2 = f h k) (its : Items) (hp : PF its) :
    (its.modify t f).modify t f = its.modify t f := by
  induction its with
  | nil => rfl
  | elem h k r ihk ihr =>
    obtain ⟨h1, h2, h3⟩ := hnil h k r hp
    by_cases he : h.id = t
    · obtain ⟨hid, hfix⟩ := hf h k h1
      rw [modify_elem_eq' t f h k r he, modify_elem_eq' t f _ _ _ (hid.trans he), hfix, ihr h3]
    · rw [modify_elem_ne' t f h k r he, modify_elem_ne' t f _ _ _ he, ihk h2, ihr h3]
  | text c r ihr => simp only [Items.modify, ihr (htext c r hp)]

theorem lastOf_cons_ne (a : Hdr × Items) (c : List (Hdr × Items)) (hne : c ≠ []) : lastOf (a :: c) = lastOf c := by
  cases c with
  | nil => exact absurd rfl hne
  | cons b c => simp only [lastOf, List.getLast?_cons_cons]

theorem chain_some_ne_nil (t : Nat) (its : Items) (c : List (Hdr × Items)) (hc : its.chain t = some c) : c ≠ [] := by
  obtain ⟨h, k, hl, _⟩ := chain_last t its c hc
  intro he; subst he; simp at hl

/-- navigation to `t` after an edit at `t` that keeps identities: the node found is the edited one -/
theorem chain_modify (t : Nat) (f : Hdr → Items → Hdr × Items) (hf : ∀ h k, (f h k).1.id = h.id) (its : Items) :
    (its.chain t = none → (its.modify t f).chain t = none) ∧
    (∀ c, its.chain t = some c → ∃ c', (its.modify t f).chain t = some c' ∧ lastOf c' = f (lastOf c).1 (lastOf c).2) := by
  induction its with
  | nil => exact ⟨fun _ => rfl, fun c hc => by simp [Items.chain] at hc⟩
  | elem h k r ihk ihr =>
    by_cases he : h.id = t
    · rw [modify_elem_eq' t f h k r he]
      simp only [Items.chain, (hf h k).trans he, he, if_true]
      refine ⟨fun hc => (by cases hc), fun c hc => ?_⟩
      cases hc
      exact ⟨_, rfl, rfl⟩
    · rw [modify_elem_ne' t f h k r he]
      simp only [Items.chain, he, if_false]
      cases hk : Items.chain t k with
      | some c0 =>
        obtain ⟨c0', hc0', hl0⟩ := ihk.2 c0 hk
        rw [hc0']
        refine ⟨fun hc => (by cases hc), fun c hc => ?_⟩
        cases hc
        refine ⟨_, rfl, ?_⟩
        rw [lastOf_cons_ne _ _ (chain_some_ne_nil t _ _ hc0'), lastOf_cons_ne _ _ (chain_some_ne_nil t _ _ hk)]
        exact hl0
      | none =>
        rw [ihk.1 hk]
        exact ihr
  | text _ r ihr => simpa only [Items.chain, Items.modify] using ihr

/-- a property of all nodes of a forest holds for the node navigation finds -/
theorem chain_lastOf_prop (P : Hdr → Items → Prop) (PF : Items → Prop)
    (helem : ∀ h k r, PF (.elem h k r) → P h k ∧ PF k ∧ PF r) (htext : ∀ c r, PF (.text c r) → PF r)
    (t : Nat) (its : Items) : ∀ c, its.chain t = some c → PF its → P (lastOf c).1 (lastOf c).2 := by
  induction its with
  | nil => intro c hc; simp [Items.chain] at hc
  | elem h k r ihk ihr =>
    intro c hc hp
    obtain ⟨h1, h2, h3⟩ := helem h k r hp
    simp only [Items.chain] at hc
    split at hc
    · cases hc; exact h1
    · split at hc
      · rename_i c0 hk
        cases hc
        rw [lastOf_cons_ne _ _ (chain_some_ne_nil t _ _ hk)]
        exact ihk c0 hk h2
      · exact ihr c hc h3
  | text c0 r ihr => intro c hc hp; simp only [Items.chain] at hc; exact ihr c hc (htext c0 r hp)

/-- after replacing the model in which `x` lives by one in which `x` can still be reached, `x` is located in the same model -/
theorem locate_setModel (w : World) (x k : Nat) (c c' : List (Hdr × Items)) (m' : Model) (h : locate w x = some (k, c))
    (hc' : m'.rootItems.chain x = some c') : locate (setModel w k m') x = some (k, c') := by
  unfold locate at h ⊢
  obtain ⟨l₁, a, l₂, hl, hfa, hnone⟩ := List.findSome?_eq_some_iff.mp h
  have hak : a = k ∧ k < w.models.length := by
    cases hm : w.models[a]? with
    | none => simp [hm] at hfa
    | some m =>
      simp only [hm, Option.map_eq_some_iff] at hfa
      obtain ⟨c0, _, hc0⟩ := hfa
      have hak : a = k := (Prod.mk.inj hc0).1
      subst hak
      exact ⟨rfl, (List.getElem?_eq_some_iff.mp hm).1⟩
  obtain ⟨hak, hlt⟩ := hak
  subst hak
  simp only [setModel, List.length_set]
  rw [hl]
  refine List.findSome?_eq_some_iff.mpr ⟨l₁, a, l₂, rfl, ?_, ?_⟩
  · rw [List.getElem?_set_self hlt]
    simp only [hc', Option.map_some]
  · intro j hj
    have hne : a ≠ j := by
      intro hja; subst hja
      rw [hnone a hj] at hfa; cases hfa
    rw [List.getElem?_set_ne hne]
    exact hnone j hj

theorem setRoot_rootItems (m : Model) : m.setRoot m.rootItems = m := by
  cases m; rfl

end SortTree
open SortTree

/-! ### `opSort` -/

section opSort
variable (S : Spec) (V : Env)

/-- the edit `opSort` applies at the node `x` -/
def sortEdit (h0 : Hdr) (k0 : Items) : Hdr × Items := (h0, sortNode S V (k0.size + 2) h0 k0)

theorem opSort_def (w : World) (x : Nat) :
    opSort S V w x = match locate w x with
      | none => (w, .ok "")
      | some (k, _) => (setModel w k ((w.models[k]!).setRoot ((w.models[k]!).rootItems.modify x (sortEdit S V))), .ok "") := rfl

/-- item 6: `sort` never fails -/
theorem opSort_ok (w : World) (x : Nat) : (opSort S V w x).2 = .ok "" := by
  rw [opSort_def]; split <;> rfl

theorem opSort_not_found (w : World) (x : Nat) (h : locate w x = none) : (opSort S V w x).1 = w := by
  rw [opSort_def, h]

/-- the world after `opSort`, when `x` is a live element of model `k` -/
theorem opSort_found (w : World) (x k : Nat) (c : List (Hdr × Items)) (h : locate w x = some (k, c)) :
    ∃ m, w.models[k]? = some m ∧ m ∈ w.models ∧ m.rootItems.chain x = some c ∧
      (opSort S V w x).1 = setModel w k (m.setRoot (m.rootItems.modify x (sortEdit S V))) := by
  obtain ⟨m, hm1, hm2, hm3, hm4⟩ := locate_chain w x k c h
  refine ⟨m, hm1, hm3, hm4, ?_⟩
  rw [opSort_def, h]
  simp only [hm2]

/-- nothing but the list of models is touched, and it keeps its length -/
theorem opSort_frame (w : World) (x : Nat) :
    (opSort S V w x).1.nextId = w.nextId ∧ (opSort S V w x).1.nextFile = w.nextFile ∧ (opSort S V w x).1.dead = w.dead ∧
      (opSort S V w x).1.fileOwner = w.fileOwner ∧ (opSort S V w x).1.models.length = w.models.length := by
  rw [opSort_def]
  split
  · exact ⟨rfl, rfl, rfl, rfl, rfl⟩
  · exact ⟨rfl, rfl, rfl, rfl, by simp [setModel]⟩

/-- item 6: the other models are unchanged -/
theorem opSort_other_models (w : World) (x k : Nat) (c : List (Hdr × Items)) (h : locate w x = some (k, c)) (j : Nat)
    (hj : j ≠ k) : (opSort S V w x).1.models[j]? = w.models[j]? := by
  obtain ⟨m, _, _, _, hw⟩ := opSort_found S V w x k c h
  rw [hw]
  simp only [setModel]
  exact List.getElem?_set_ne (Ne.symm hj)

/-- what `opSort` does to one model: header of the root, files, index and reference map are untouched; the tree changes by
permuting pure-element sibling lists (and dropping stray text) -/
structure SortedFrom (d : Bool) (m m' : Model) : Prop where
  tree : SibPermG d m.rootItems m'.rootItems
  rootHdr : m'.rootHdr = m.rootHdr
  index : m'.index = m.index
  refs : m'.refs = m.refs
  files : m'.files = m.files
  rootIssued : m'.rootIssued = m.rootIssued

theorem SortedFrom.refl (d : Bool) (m : Model) : SortedFrom d m m := ⟨.refl _ _, rfl, rfl, rfl, rfl, rfl⟩

theorem sortEdit_fst (h : Hdr) (k : Items) : (sortEdit S V h k).1 = h := rfl

theorem sortedFrom_edit_true (m : Model) (x : Nat) : SortedFrom true m (m.setRoot (m.rootItems.modify x (sortEdit S V))) := by
  obtain ⟨h1, h2, h3, h4⟩ := setRoot_modify_fields m x (sortEdit S V)
  refine ⟨?_, ?_, h1, h2, h3, h4⟩
  · rw [rootItems_setRoot_modify]
    exact sibPermG_modify' true x _ (fun h k => ⟨rfl, sortNode_sibPermG S V _ h k⟩) _
  · simp only [Model.rootItems, Items.modify]
    split <;> rfl

theorem sortedFrom_edit_false (m : Model) (x : Nat) (hn : NoStrayText S m.rootHdr m.rootKids) :
    SortedFrom false m (m.setRoot (m.rootItems.modify x (sortEdit S V))) := by
  have ht := sortedFrom_edit_true S V m x
  refine ⟨?_, ht.rootHdr, ht.index, ht.refs, ht.files, ht.rootIssued⟩
  rw [rootItems_setRoot_modify]
  exact sibPermG_modify S false x _ (fun h k hk => ⟨rfl, sortNode_sibPerm S V _ h k hk⟩) _ false ⟨hn, trivial⟩

/-- every element keeps its header; every model keeps its files, index, reference map -/
theorem opSort_models (w : World) (x : Nat) (j : Nat) (m : Model) (hj : w.models[j]? = some m) :
    ∃ m', (opSort S V w x).1.models[j]? = some m' ∧ SortedFrom true m m' := by
  cases hl : locate w x with
  | none => rw [opSort_not_found S V w x hl]; exact ⟨m, hj, .refl _ _⟩
  | some kc =>
    obtain ⟨k, c⟩ := kc
    by_cases hjk : j = k
    · obtain ⟨m0, hm0, _, _, hw⟩ := opSort_found S V w x k c hl
      subst hjk
      rw [hj] at hm0; cases hm0
      rw [hw]
      simp only [setModel]
      rw [List.getElem?_set_self (List.getElem?_eq_some_iff.mp hj).1]
      exact ⟨_, rfl, sortedFrom_edit_true S V m x⟩
    · rw [opSort_other_models S V w x k c hl j hjk]; exact ⟨m, hj, .refl _ _⟩

/-- no element has text items in SEQUENCE / CHOICE / BAG content, in any model -/
def World.noStray (w : World) : Prop := ∀ m ∈ w.models, NoStrayText S m.rootHdr m.rootKids

/-- under `NoStrayText` nothing is dropped: text values, sizes, lengths are kept too -/
theorem opSort_models_noStray (w : World) (x : Nat) (hn : World.noStray S w) (j : Nat) (m : Model) (hj : w.models[j]? = some m) :
    ∃ m', (opSort S V w x).1.models[j]? = some m' ∧ SortedFrom false m m' := by
  cases hl : locate w x with
  | none => rw [opSort_not_found S V w x hl]; exact ⟨m, hj, .refl _ _⟩
  | some kc =>
    obtain ⟨k, c⟩ := kc
    by_cases hjk : j = k
    · obtain ⟨m0, hm0, _, _, hw⟩ := opSort_found S V w x k c hl
      subst hjk
      rw [hj] at hm0; cases hm0
      rw [hw]
      simp only [setModel]
      rw [List.getElem?_set_self (List.getElem?_eq_some_iff.mp hj).1]
      exact ⟨_, rfl, sortedFrom_edit_false S V m x (hn m (List.mem_of_getElem? hj))⟩
    · rw [opSort_other_models S V w x k c hl j hjk]; exact ⟨m, hj, .refl _ _⟩

theorem opSort_noStray (w : World) (x : Nat) (hn : World.noStray S w) : World.noStray S (opSort S V w x).1 := by
  intro m' hm'
  obtain ⟨j, hj⟩ := List.getElem?_of_mem hm'
  have hlen := (opSort_frame S V w x).2.2.2.2
  have hjl : j < w.models.length := by rw [← hlen]; exact (List.getElem?_eq_some_iff.mp hj).1
  obtain ⟨m'', hm'', hs⟩ := opSort_models S V w x j w.models[j] (List.getElem?_eq_getElem hjl)
  rw [hj] at hm''; cases hm''
  have h0 := hn _ (List.getElem_mem hjl)
  have := hs.tree.noStray S false ⟨h0, trivial⟩
  exact this.1

/-- every model keeps the multiset of its elements (headers: name, type, attributes, comment, file set, parent field) -/
theorem opSort_hdrs_perm (w : World) (x : Nat) (j : Nat) (m : Model) (hj : w.models[j]? = some m) :
    ∃ m', (opSort S V w x).1.models[j]? = some m' ∧ m'.rootItems.hdrs.Perm m.rootItems.hdrs ∧ m'.rootItems.ids.Perm m.rootItems.ids := by
  obtain ⟨m', h1, h2⟩ := opSort_models S V w x j m hj
  exact ⟨m', h1, h2.tree.hdrs_perm, h2.tree.ids_perm⟩

/-- under `NoStrayText` every element keeps the multiset of its text values, and the trees keep their size -/
theorem opSort_texts_perm (w : World) (x : Nat) (hn : World.noStray S w) (j : Nat) (m : Model) (hj : w.models[j]? = some m) :
    ∃ m', (opSort S V w x).1.models[j]? = some m' ∧ (∀ p, (m'.rootItems.ptexts p).Perm (m.rootItems.ptexts p)) ∧
      m'.rootItems.size = m.rootItems.size := by
  obtain ⟨m', h1, h2⟩ := opSort_models_noStray S V w x hn j m hj
  exact ⟨m', h1, fun p => SibPerm.ptexts_perm h2.tree p, SibPerm.size_eq h2.tree⟩

/-- item 7: the parent fields stay in step with the structure -/
theorem opSort_wf (w : World) (x : Nat) (hw : w.wf) : (opSort S V w x).1.wf := by
  cases hl : locate w x with
  | none => rw [opSort_not_found S V w x hl]; exact hw
  | some kc =>
    obtain ⟨k, c⟩ := kc
    obtain ⟨m, hm, _, _, he⟩ := opSort_found S V w x k c hl
    rw [he]
    apply wf_setModel w k _ hw
    apply setRoot_modify_wf
    · intro h k0 _
      exact ⟨rfl, rfl, fun hk => sortNode_wf S V _ h k0 _ hk⟩
    · exact hw k m hm

/-- after `opSort` the element `x` is found in the same model, with the same header, and its content is the sorted one -/
theorem opSort_located (w : World) (x k : Nat) (c : List (Hdr × Items)) (hl : locate w x = some (k, c)) :
    ∃ c', locate (opSort S V w x).1 x = some (k, c') ∧
      lastOf c' = ((lastOf c).1, sortNode S V ((lastOf c).2.size + 2) (lastOf c).1 (lastOf c).2) := by
  obtain ⟨m, _, _, hch, he⟩ := opSort_found S V w x k c hl
  obtain ⟨c', hc', hlast⟩ := (chain_modify x (sortEdit S V) (fun _ _ => rfl) m.rootItems).2 c hch
  refine ⟨c', ?_, hlast⟩
  rw [he]
  exact locate_setModel w x k c c' _ hl (by rw [rootItems_setRoot_modify]; exact hc')

section withClass
variable (Q : Hdr × Items → Prop)

/-- every element of the world (the roots included) belongs to the class `Q`, and the comparisons a run of `sort` can use
anywhere in the world are total preorders on `Q` -/
def World.sortKeysOK (w : World) : Prop :=
  ∀ m ∈ w.models, Q (m.rootHdr, m.rootKids) ∧ SortKeysOK S V Q m.rootHdr m.rootKids

theorem World.sortKeysOK_of_total (hle : ∀ typ n, TotalPreOn Q (childLe S V typ n)) (w : World)
    (hall : ∀ m ∈ w.models, ∀ h k, Occ h k m.rootItems → Q (h, k)) : World.sortKeysOK S V Q w :=
  fun m hm => ⟨hall m hm _ _ (.inl ⟨rfl, rfl⟩),
    AV.W.sortKeysOK_of_total S V Q hle m.rootHdr m.rootKids fun h k ho => hall m hm h k (.inr (.inl ho))⟩

theorem sortEdit_fix (hQ : SibClosed Q) (h : Hdr) (k : Items) (hp : SortHyp S V Q h k) :
    sortEdit S V (sortEdit S V h k).1 (sortEdit S V h k).2 = sortEdit S V h k := by
  simp only [sortEdit]
  rw [sortNode_size S V _ h k hp.1, sortNode_idem S V Q hQ _ h k hp.1 hp.2]

/-- the hypotheses about the world give the hypotheses about the element that is sorted -/
theorem located_sortHyp (w : World) (x k : Nat) (c : List (Hdr × Items)) (hl : locate w x = some (k, c))
    (hn : World.noStray S w) (hk : World.sortKeysOK S V Q w) : SortHyp S V Q (lastOf c).1 (lastOf c).2 := by
  obtain ⟨m, _, _, hmem, hch⟩ := locate_chain w x k c hl
  exact chain_lastOf_prop (SortHyp S V Q) (SortHypF S V Q) (fun _ _ _ hp => hp.elem) (fun _ _ hp => hp.text) x m.rootItems c hch
    (SortHyp.forest S V Q ⟨hn m hmem, (hk m hmem).2⟩ (hk m hmem).1)

/-- item 4 for the operation, at every depth: afterwards the whole subtree below `x` is sorted (the fuel `size + 2` that
`opSort` passes is enough); in particular the child elements of `x` are sorted (`DeepSorted.node`) -/
theorem opSort_deepSorted (hQ : SibClosed Q) (w : World) (x k : Nat) (c : List (Hdr × Items)) (hl : locate w x = some (k, c))
    (hn : World.noStray S w) (hk : World.sortKeysOK S V Q w) :
    ∃ c', locate (opSort S V w x).1 x = some (k, c') ∧ (lastOf c').1 = (lastOf c).1 ∧
      DeepSorted S V (lastOf c').1 (lastOf c').2 := by
  obtain ⟨c', h1, h2⟩ := opSort_located S V w x k c hl
  obtain ⟨hp1, hp2⟩ := located_sortHyp S V Q w x k c hl hn hk
  refine ⟨c', h1, by rw [h2], ?_⟩
  rw [h2]
  exact sortNode_deepSorted S V Q hQ _ _ _ (by omega) hp1 hp2

/-- **sorting twice = sorting once**, for the operation -/
theorem opSort_idem (hQ : SibClosed Q) (w : World) (x : Nat) (hn : World.noStray S w) (hk : World.sortKeysOK S V Q w) :
    (opSort S V (opSort S V w x).1 x).1 = (opSort S V w x).1 := by
  cases hl : locate w x with
  | none => rw [opSort_not_found S V w x hl, opSort_not_found S V w x hl]
  | some kc =>
    obtain ⟨k, c⟩ := kc
    obtain ⟨m, hm, hmem, hch, he⟩ := opSort_found S V w x k c hl
    obtain ⟨c', hl', _⟩ := opSort_located S V w x k c hl
    obtain ⟨m2, hm2, _, _, he2⟩ := opSort_found S V _ x k c' hl'
    have hlt : k < w.models.length := (List.getElem?_eq_some_iff.mp hm).1
    rw [he2]
    rw [he] at hm2 ⊢
    simp only [setModel, List.getElem?_set_self hlt, Option.some.injEq] at hm2
    subst hm2
    have hfix : (m.setRoot (m.rootItems.modify x (sortEdit S V))).rootItems.modify x (sortEdit S V) =
        (m.setRoot (m.rootItems.modify x (sortEdit S V))).rootItems := by
      rw [rootItems_setRoot_modify]
      exact modify_modify_fix x (sortEdit S V) (SortHyp S V Q) (SortHypF S V Q) (fun _ _ _ hp => hp.elem) (fun _ _ hp => hp.text)
        (fun h k hp => ⟨rfl, sortEdit_fix S V Q hQ h k hp⟩) m.rootItems
        (SortHyp.forest S V Q ⟨hn m hmem, (hk m hmem).2⟩ (hk m hmem).1)
    rw [hfix, setRoot_rootItems]
    simp only [setModel, List.set_set]

/-- idempotence of the operation when `childLe` is a total preorder on the class `Q` for every type and fuel -/
theorem opSort_idem' (hQ : SibClosed Q) (hle : ∀ typ n, TotalPreOn Q (childLe S V typ n)) (w : World) (x : Nat)
    (hn : World.noStray S w) (hall : ∀ m ∈ w.models, ∀ h k, Occ h k m.rootItems → Q (h, k)) :
    (opSort S V (opSort S V w x).1 x).1 = (opSort S V w x).1 :=
  opSort_idem S V Q hQ w x hn (World.sortKeysOK_of_total S V Q hle w hall)

end withClass

end opSort

end AV.W
