/-
C05, the reference-map invariant, operation by operation, part B: the operations that edit the character data of one element
(`set_character_data`, `remove_character_data`), the header-only operations (attributes, comment), the file operations and
the creation of a model.
-/
import AutosarVerif.Lemmas.RefsInv

namespace AV.W
open Items

section
variable (S : Spec) (V : Env) (vOk : Nat)

/-! ### `refEntries` is a function of the skeleton -/

theorem refOf_skel (h : Hdr) (k : Items) : refOf S h.core k.skel = refOf S h k := by
  unfold refOf
  rw [charData_skel]
  rfl

theorem refEntries_skel (its : Items) : refEntries S its.skel = refEntries S its := by
  induction its with
  | nil => rfl
  | text c r ih => simp only [skel_text, refEntries]; exact ih
  | elem h k r ihk ihr => simp only [skel_elem, refEntries, refOf_skel, ihk, ihr]

theorem refEntries_of_skel {its its' : Items} (h : its'.skel = its.skel) : refEntries S its' = refEntries S its := by
  rw [← refEntries_skel S its', h, refEntries_skel]

/-! ### generic steps -/

theorem refsExact_congr (rs rs' : List (Bytes × List Nat)) (its its' : Items) (h : RefsExact S rs its) (hrs : rs' = rs)
    (he : refEntries S its' = refEntries S its) : RefsExact S rs' its' := by
  rw [hrs]
  exact ⟨h.1, h.2.1, fun p id => by rw [he]; exact h.2.2 p id⟩

theorem setRoot_refs (m : Model) (its : Items) : (m.setRoot its).refs = m.refs := by
  cases its <;> rfl

/-- a model whose tree keeps its skeleton and whose map stays -/
theorem refsExact_skel (m m' : Model) (h : RefsExact S m.refs m.rootItems) (hsk : m'.rootItems.skel = m.rootItems.skel)
    (hrefs : m'.refs = m.refs) : RefsExact S m'.refs m'.rootItems :=
  refsExact_congr S _ _ _ _ h hrefs (refEntries_of_skel S hsk)

/-- header-only edit of one node -/
theorem refsExact_hdr_only (m m' : Model) (x : Nat) (g : Hdr → Hdr) (hg : ∀ h, (g h).id = h.id ∧ (g h).ety = h.ety)
    (hroot : m'.rootItems = m.rootItems.modify x fun h k => (g h, k)) (hrefs : m'.refs = m.refs)
    (h : RefsExact S m.refs m.rootItems) : RefsExact S m'.refs m'.rootItems := by
  refine refsExact_congr S _ _ _ _ h hrefs ?_
  rw [hroot]
  apply refEntries_modify_same
  intro h0 k0 _ _
  exact ⟨refOf_hdr S h0 (g h0) k0 (hg h0).1 (by rw [(hg h0).2]), rfl⟩

/-! ### header-only operations -/

theorem opComment_rinv (w : World) (x : Nat) (cm : Option Bytes) (hr : WRInv S w) : WRInv S (opComment w x cm).1 := by
  unfold opComment
  split
  · exact wrinv_congr S w _ hr rfl
  · rename_i k c hloc
    obtain ⟨m, _, hm2, hmem, _⟩ := locate_chain w x k c hloc
    refine wrinv_update S w _ k _ hr ?_ rfl
    rw [hm2]
    exact refsExact_hdr_only S m _ x (fun h0 => { h0 with comment := cm.map fixComment }) (fun _ => ⟨rfl, rfl⟩)
      (rootItems_setRoot_modify m x _) (setRoot_modify_fields m x _).2.1 (hr m hmem)

theorem opAttr_rinv (w : World) (x a : Nat) (v : CDv) (hr : WRInv S w) : WRInv S (opAttr S V w x a v).1 := by
  unfold opAttr
  split
  · exact hr
  · rename_i k c hloc
    obtain ⟨m, _, hm2, hmem, _⟩ := locate_chain w x k c hloc
    dsimp only
    repeat' (first | exact hr | split)
    all_goals (
      refine wrinv_update S w _ k _ hr ?_ rfl
      rw [hm2]
      exact refsExact_hdr_only S m _ x (fun h0 => (setAttrHdr S V h0 a v _).getD h0)
        (fun h => ⟨(setAttrHdr_keeps4 S V h a v _).1, (setAttrHdr_keeps4 S V h a v _).2.2.1⟩)
        (rootItems_setRoot_modify m x _) (setRoot_modify_fields m x _).2.1 (hr m hmem))

theorem opAttrS_rinv (w : World) (x a : Nat) (s : Bytes) (hr : WRInv S w) : WRInv S (opAttrS S V w x a s).1 := by
  unfold opAttrS
  split
  · exact hr
  · rename_i k c hloc
    obtain ⟨m, _, hm2, hmem, _⟩ := locate_chain w x k c hloc
    dsimp only
    repeat' (first | exact hr | split)
    all_goals (
      rename_i vv _
      refine wrinv_update S w _ k _ hr ?_ rfl
      rw [hm2]
      exact refsExact_hdr_only S m _ x
        (fun h0 => if h0.attrs.any (·.1 == a) then { h0 with attrs := h0.attrs.map fun e => if e.1 == a then (a, vv) else e }
          else { h0 with attrs := h0.attrs ++ [(a, vv)] })
        (fun h => by split <;> exact ⟨rfl, rfl⟩)
        (rootItems_setRoot_modify m x _) (setRoot_modify_fields m x _).2.1 (hr m hmem))

theorem opRmAttr_rinv (w : World) (x a : Nat) (hr : WRInv S w) : WRInv S (opRmAttr S w x a).1 := by
  unfold opRmAttr
  split
  · repeat' (first | exact hr | split)
    all_goals exact wrinv_congr S w _ hr rfl
  · rename_i k c hloc
    obtain ⟨m, _, hm2, hmem, _⟩ := locate_chain w x k c hloc
    dsimp only
    repeat' (first | exact hr | split)
    all_goals (
      refine wrinv_update S w _ k _ hr ?_ rfl
      rw [hm2]
      exact refsExact_hdr_only S m _ x (fun h0 => { h0 with attrs := h0.attrs.filter (·.1 != a) }) (fun _ => ⟨rfl, rfl⟩)
        (rootItems_setRoot_modify m x _) (setRoot_modify_fields m x _).2.1 (hr m hmem))

/-! ### file operations, creation of a model -/

/-- `setRoot` with a tree of the skeleton of the root -/
theorem refsExact_setRoot_skel (m : Model) (its : Items) (hsk : its.skel = m.rootItems.skel)
    (h : RefsExact S m.refs m.rootItems) : RefsExact S (m.setRoot its).refs (m.setRoot its).rootItems := by
  obtain ⟨h1, _, _, _⟩ := setRoot_of_skel m its hsk
  exact refsExact_skel S m _ h (by rw [h1]; exact hsk) (setRoot_refs m its)

/-- the tree part of `remove_from_file` -/
theorem rmAt_refsExact (m : Model) (f x : Nat) (h : RefsExact S m.refs m.rootItems) :
    RefsExact S (m.setRoot (rmAt f x [] m.rootItems)).refs (m.setRoot (rmAt f x [] m.rootItems)).rootItems :=
  refsExact_setRoot_skel S m _ (rmAt_skel f x [] m.rootItems) h

theorem opAddFile_rinv (w : World) (x f : Nat) (hr : WRInv S w) : WRInv S (opAddFile S w x f).1 := by
  unfold opAddFile
  split
  · exact hr
  · rename_i k c hloc
    obtain ⟨m, _, hm2, hmem, _⟩ := locate_chain w x k c hloc
    dsimp only
    repeat' (first | exact hr | split)
    all_goals (
      refine wrinv_update S w _ k _ hr ?_ rfl
      rw [hm2]
      exact refsExact_setRoot_skel S m _ (addPath_skel S f (c.map (·.1.id)) [] true m.rootItems) (hr m hmem))

theorem opSetVersion_rinv (w : World) (f ver : Nat) (hr : WRInv S w) : WRInv S (opSetVersion S w f ver).1 := by
  unfold opSetVersion
  split
  · exact hr
  · rename_i k hk
    dsimp only
    split
    · exact hr
    · split
      · have hlt : k < w.models.length := by
          unfold fileModel at hk
          have := List.mem_of_find?_eq_some hk
          exact List.mem_range.mp this
        have hmem : w.models[k]! ∈ w.models := by
          rw [getElem!_pos w.models k hlt]; exact List.getElem_mem hlt
        refine wrinv_update S w _ k _ hr ?_ rfl
        exact hr (w.models[k]!) hmem
      · exact hr

theorem refOf_nil (h : Hdr) : refOf S h .nil = [] := by
  unfold refOf
  split <;> rfl

theorem newModel_rinv (rootAttrs : List (Nat × CDv)) (w : World) (hr : WRInv S w) :
    WRInv S { w with models := w.models ++ [newModel S rootAttrs] } := by
  intro m hmem
  rcases List.mem_append.mp hmem with h | h
  · exact hr m h
  · rw [List.mem_singleton] at h
    subst h
    refine ⟨List.nodup_nil, ?_, ?_⟩
    · intro e he; cases he
    · intro p id
      show List.count id (refsGet [] p) = List.count (p, id) (refOf S _ .nil ++ [] ++ [])
      rw [refOf_nil]; rfl


/-- the first file of a model gives the root its protocol id: the type of the root must not be a reference type.  This is
what the extra invariant says: the root element of every model has the element type of the root definition (the creation of
a model builds it so, no operation changes the element type of an existing element). -/
def WRootTy (w : World) : Prop := ∀ m ∈ w.models, m.rootHdr.ety = S.ety S.rootDef

theorem refOf_not_ref (h : Hdr) (k : Items) (hn : S.isRef h.ety.typ = false) : refOf S h k = [] := by
  unfold refOf
  rw [hn]
  rfl

theorem opMkFile_rinv (hR : RefWF S) (w : World) (k : Nat) (name : Bytes) (ver : Nat) (valid : Bool) (hw : WInv S vOk w)
    (hT : WRootTy S w) (hr : WRInv S w) : WRInv S (opMkFile S w k name ver valid).1 := by
  unfold opMkFile
  split
  · exact hr
  · rename_i m hmk
    have hmem := List.mem_of_getElem? hmk
    have hm := hr m hmem
    obtain ⟨hc, hs⟩ := restrictStep_skel S w.nextFile m.rootHdr m.rootKids [] true
    split
    · exact hr
    · split
      · exact hr
      · cases hiss : m.rootIssued with
        | true =>
          simp only [if_true]
          refine wrinv_update S w _ k _ hr ?_ rfl
          refine refsExact_skel S m _ hm ?_ rfl
          simp only [rootItems_eq, skel_elem, hc, hs]
        | false =>
          simp only [Bool.false_eq_true, if_false]
          refine wrinv_update S w _ k _ hr ?_ rfl
          refine refsExact_congr S _ _ _ _ hm rfl ?_
          have hnr : S.isRef m.rootHdr.ety.typ = false := by
            rw [hT m hmem]; exact hR.root_not_ref
          have hty : (restrictStep S w.nextFile m.rootHdr m.rootKids [] true).1.ety = m.rootHdr.ety := (core_inj hc).2.2
          simp only [rootItems_eq, refEntries]
          rw [refOf_not_ref S _ _ (by rw [← hty] at hnr; exact hnr), refOf_not_ref S _ _ hnr,
            refEntries_of_skel S ((skel_setParents _ _).trans hs)]

/-! ### the content of one element is replaced -/

theorem count_pair_singleton (p q : Bytes) (i j : Nat) :
    ([(q, j)] : List (Bytes × Nat)).count (p, i) = if p = q ∧ i = j then 1 else 0 := by
  rw [List.count_singleton]
  by_cases h : p = q ∧ i = j
  · obtain ⟨rfl, rfl⟩ := h
    simp
  · rw [if_neg h]
    have : ((q, j) == (p, i)) = false := by
      apply Bool.eq_false_iff.mpr
      intro hb
      have := Prod.mk.inj (eq_of_beq hb)
      exact h ⟨this.1.symm, this.2.symm⟩
    rw [this]; rfl

/-- what a node registers is registered by the forest -/
theorem refOf_mem_refEntries (its : Items) (h : Hdr) (k : Items) (ho : Occ h k its) (e : Bytes × Nat) (he : e ∈ refOf S h k) :
    e ∈ refEntries S its := by
  induction its with
  | nil => exact ho.elim
  | text _ r ih => exact ih ho
  | elem hd kk r ihk ihr =>
    simp only [refEntries, List.mem_append]
    rcases ho with ⟨rfl, rfl⟩ | ho | ho
    · exact Or.inl (Or.inl he)
    · exact Or.inl (Or.inr (ihk ho))
    · exact Or.inr (ihr ho)

/-- the map holds what a node of the tree registers -/
theorem refsExact_has (rs : List (Bytes × List Nat)) (its : Items) (hx : RefsExact S rs its) (h : Hdr) (k : Items)
    (ho : Occ h k its) (p : Bytes) (id : Nat) (he : (p, id) ∈ refOf S h k) : 1 ≤ (refsGet rs p).count id := by
  rw [hx.2.2 p id]
  exact List.count_pos_iff.mpr (refOf_mem_refEntries S its h k ho _ he)

/-- the content of node `x` (no reference elements below it) is replaced by content without reference elements; the map
changes by what the node itself registers -/
theorem refsExact_set_content (m m' : Model) (x : Nat) (c : List (Hdr × Items)) (newKids : Items)
    (hids : m.rootItems.ids.Nodup) (hc : m.rootItems.chain x = some c)
    (hold : refEntries S (lastOf c).2 = []) (hnew : refEntries S newKids = [])
    (hroot : m'.rootItems = m.rootItems.modify x fun h0 _ => (h0, newKids))
    (hx : RefsExact S m.refs m.rootItems) (hn : keysNodup m'.refs) (hne : refsNonempty m'.refs)
    (hmap : ∀ p id, (refsGet m'.refs p).count id + (refOf S (lastOf c).1 (lastOf c).2).count (p, id) =
      (refsGet m.refs p).count id + (refOf S (lastOf c).1 newKids).count (p, id)) :
    RefsExact S m'.refs m'.rootItems := by
  obtain ⟨o2, e2⟩ := chain_occ x m.rootItems c hc
  refine refsExact_transfer S m.refs m'.refs m.rootItems m'.rootItems _ _ hx hn hne ?_ hmap
  rw [hroot]
  apply refEntries_modify_located S x _ _ _ m.rootItems ?_ hids (chain_mem_ids x _ c hc)
  intro h k ho he
  obtain ⟨e3, e4⟩ := occ_unique m.rootItems hids h _ k _ ho o2 (he.trans e2.symm)
  refine ⟨rfl, ?_⟩
  subst e3; subst e4
  simp only [hold, hnew, List.append_nil]
  exact List.perm_append_comm

theorem refEntries_no_elems (k : Items) (h : k.childElems = []) : refEntries S k = [] := by
  induction k with
  | nil => rfl
  | text c r ih => exact ih (by simpa [Items.childElems] using h)
  | elem hd kk r _ _ => simp [Items.childElems] at h

theorem refOf_str (h : Hdr) (r : Bytes) (href : S.isRef h.ety.typ = true)
    (hmode : S.mode h.ety.typ = .characters ∨ S.mode h.ety.typ = .mixed) :
    refOf S h (.text (.str r) .nil) = [(r, h.id)] := by
  unfold refOf
  rw [if_pos href]
  simp only [charData, hmode, if_true]

theorem opRmCData_rinv (hR : RefWF S) (w : World) (x : Nat) (hw : WInv S vOk w) (hr : WRInv S w) :
    WRInv S (opRmCData S w x).1 := by
  unfold opRmCData
  split
  · exact hr
  · rename_i h kids hh
    split
    · exact hr
    · rename_i hmode
      split
      · exact hr
      · split
        · exact hr
        · rename_i cd hcd
          split
          · exact hr
          · rename_i k c hloc
            obtain ⟨m, _, hm2, hmem, hc⟩ := locate_chain w x k c hloc
            have hl := hdrOf_locate w x k c h kids hloc hh
            have hkids := charData_some_shape S h kids cd hcd
            subst hkids
            obtain ⟨ho, hid⟩ := chain_occ x m.rootItems c hc
            rw [hl] at ho hid
            simp only at ho hid
            have hx := hr m hmem
            have hchars : S.mode h.ety.typ = .characters := Decidable.of_not_not hmode
            refine wrinv_update S w _ k _ hr ?_ rfl
            rw [hm2]
            refine refsExact_set_content S m _ x c .nil (hw m hmem).ids hc (by rw [hl]; rfl) rfl
              (rootItems_setRoot_modify m x _) hx ?_ ?_ ?_
            · show keysNodup (if S.isRef h.ety.typ then _ else _)
              split
              · split
                · exact refsRemove_keysNodup _ _ _ hx.1
                · exact hx.1
              · exact hx.1
            · show refsNonempty (if S.isRef h.ety.typ then _ else _)
              split
              · split
                · exact refsRemove_nonempty _ _ _ hx.1 hx.2.1
                · exact hx.2.1
              · exact hx.2.1
            · intro p id
              rw [hl, refOf_nil]
              show List.count id (refsGet (if S.isRef h.ety.typ then _ else _) p) + _ = _
              cases href : S.isRef h.ety.typ with
              | false =>
                rw [refOf_not_ref S _ _ href]
                rfl
              | true =>
                simp only [if_true]
                cases cd with
                | str r =>
                  simp only
                  rw [refOf_str S h r href (Or.inl hchars), refsRemove_count _ _ _ _ _ hx.1, count_pair_singleton]
                  have hpos := refsExact_has S _ _ hx h _ ho r h.id (by rw [refOf_str S h r href (Or.inl hchars)]; exact List.mem_singleton.mpr rfl)
                  rw [hid] at hpos ⊢
                  by_cases hpi : p = r ∧ id = x
                  · obtain ⟨rfl, rfl⟩ := hpi
                    simp only [and_self, if_true, List.count_nil]
                    omega
                  · simp only [if_neg hpi, List.count_nil]
                    omega
                | enum _ => simp only [refOf, href, if_true, charData, hchars, true_or]
                | uint _ => simp only [refOf, href, if_true, charData, hchars, true_or]
                | float _ => simp only [refOf, href, if_true, charData, hchars, true_or]


theorem refOf_cd_str (h : Hdr) (k : Items) (o : Bytes) (href : S.isRef h.ety.typ = true)
    (hcd : charData S h k = some (.str o)) : refOf S h k = [(o, h.id)] := by
  unfold refOf
  rw [if_pos href, hcd]

theorem refOf_cd_other (h : Hdr) (k : Items) (hcd : ∀ o, charData S h k ≠ some (.str o)) : refOf S h k = [] := by
  unfold refOf
  split
  · split
    · rename_i p hp
      exact absurd hp (hcd p)
    · rfl
  · rfl

/-- the value `set_character_data` stores in an element with a string-like specification is a string -/
theorem cdata_stored_str (sp : CSpec) (v val : CDv) (ver : Nat)
    (hval : (if checkValue V v sp ver = true then some v
      else if (match sp with
            | CSpec.pattern _ _ => true
            | CSpec.string _ _ => true
            | _ => false) = true then
          match cdToString V v with
          | some s => if checkValue V (CDv.str s) sp ver = true then some (CDv.str s) else none
          | none => none
        else none) = some val) (hsl : sp.stringLike = true) : ∃ s, val = .str s := by
  by_cases hcv : checkValue V v sp ver = true
  · rw [if_pos hcv] at hval
    have hv := Option.some.inj hval
    subst hv
    exact cdata_val_str V sp hsl v ver hcv
  · rw [if_neg hcv] at hval
    cases sp <;> first
      | (exfalso; simp [CSpec.stringLike] at hsl; done)
      | (simp only [eq_self, if_true] at hval
         split at hval
         · split at hval
           · exact ⟨_, (Option.some.inj hval).symm⟩
           · cases hval
         · cases hval)

/-- the arithmetic of `fix_reference_origins` against the registrations of the node -/
theorem refsFix_transfer (rs : List (Bytes × List Nat)) (o r : Bytes) (x : Nat) (hn : keysNodup rs)
    (hpos : 1 ≤ (refsGet rs o).count x) (p : Bytes) (id : Nat) :
    (refsGet (refsFix rs o r x) p).count id + ([(o, x)] : List (Bytes × Nat)).count (p, id) =
      (refsGet rs p).count id + ([(r, x)] : List (Bytes × Nat)).count (p, id) := by
  rw [refsFix_count _ _ _ _ _ _ hn, count_pair_singleton, count_pair_singleton]
  by_cases hor : o = r
  · subst hor
    rw [if_pos rfl]
  · rw [if_neg hor]
    by_cases h1 : p = o ∧ id = x
    · obtain ⟨rfl, rfl⟩ := h1
      have h2 : ¬ (p = r ∧ id = id) := fun h => hor h.1
      rw [if_pos ⟨rfl, rfl⟩, if_neg h2]
      omega
    · rw [if_neg h1]
      omega

theorem refsAdd_transfer (rs : List (Bytes × List Nat)) (r : Bytes) (x : Nat) (hn : keysNodup rs) (p : Bytes) (id : Nat) :
    (refsGet (refsAdd rs r x) p).count id + ([] : List (Bytes × Nat)).count (p, id) =
      (refsGet rs p).count id + ([(r, x)] : List (Bytes × Nat)).count (p, id) := by
  rw [refsAdd_count _ _ _ _ _ hn, count_pair_singleton, List.count_nil]
  omega

theorem opCData_rinv (hH : IdxHyp S V vOk) (hR : RefWF S) (w : World) (x : Nat) (v : CDv) (hw : WInv S vOk w)
    (hr : WRInv S w) : WRInv S (opCData S V w x v).1 := by
  unfold opCData
  split
  · exact hr
  · rename_i h kids hh
    split
    · exact hr
    · rename_i hmode
      split
      · exact hr
      · rename_i sp hsp
        split
        · exact hr
        · rename_i k c hloc
          obtain ⟨m, _, hm2, hmem, hc⟩ := locate_chain w x k c hloc
          have hl := hdrOf_locate w x k c h kids hloc hh
          have hx := hr m hmem
          dsimp only
          rw [hm2]
          split
          · exact hr
          · rename_i ver hver
            split
            · exact hr
            · rename_i val hval
              split
              · exact hr
              · rename_i hkids
                split
                · exact hr
                · rename_i prevPath hprev
                  have hce : kids.childElems = [] := by
                    cases hxx : kids.childElems with
                    | nil => rfl
                    | cons a as => simp [hxx] at hkids
                  have hmode' : S.mode h.ety.typ = .characters ∨ S.mode h.ety.typ = .mixed := Decidable.of_not_not hmode
                  obtain ⟨ho, hid⟩ := chain_occ x m.rootItems c hc
                  rw [hl] at ho hid
                  simp only at ho hid
                  have hold : refEntries S (lastOf c).2 = [] := by rw [hl]; exact refEntries_no_elems S kids hce
                  cases href : S.isRef h.ety.typ with
                  | false =>
                    simp only [Bool.false_eq_true, if_false]
                    refine wrinv_update S w _ k _ hr ?_ rfl
                    refine refsExact_set_content S m _ x c (.text val .nil) (hw m hmem).ids hc hold rfl
                      (rootItems_setRoot_modify m x _) hx hx.1 hx.2.1 ?_
                    intro p id
                    rw [hl, refOf_not_ref S _ _ href, refOf_not_ref S _ _ href]
                  | true =>
                    obtain ⟨sp', hsp', hsl⟩ := hR.ref_spec _ href
                    rw [hsp] at hsp'
                    cases hsp'
                    obtain ⟨r, rfl⟩ := cdata_stored_str V sp v val ver hval hsl
                    clear hprev hval
                    simp only [if_true]
                    have hnew : refOf S h (.text (.str r) .nil) = [(r, x)] := by rw [refOf_str S h r href hmode', hid]
                    cases hcd : charData S h kids with
                    | none =>
                      simp only [Option.bind_none]
                      have hofo : refOf S h kids = [] := refOf_cd_other S h kids (fun o e => by rw [hcd] at e; cases e)
                      refine wrinv_update S w _ k _ hr ?_ rfl
                      refine refsExact_set_content S m _ x c (.text (.str r) .nil) (hw m hmem).ids hc hold rfl
                        (rootItems_setRoot_modify m x _) hx (refsAdd_keysNodup _ _ _ hx.1) (refsAdd_nonempty _ _ _ hx.2.1) ?_
                      intro p id
                      rw [hl, hofo, hnew]
                      exact refsAdd_transfer m.refs r x hx.1 p id
                    | some cd =>
                      simp only [Option.bind_some]
                      cases cd with
                      | str o =>
                        simp only [cdStr]
                        have hofo : refOf S h kids = [(o, x)] := by rw [refOf_cd_str S h kids o href hcd, hid]
                        have hpos : 1 ≤ (refsGet m.refs o).count x :=
                          refsExact_has S _ _ hx h kids ho o x (by rw [hofo]; exact List.mem_singleton.mpr rfl)
                        refine wrinv_update S w _ k _ hr ?_ rfl
                        refine refsExact_set_content S m _ x c (.text (.str r) .nil) (hw m hmem).ids hc hold rfl
                          (rootItems_setRoot_modify m x _) hx (refsFix_keysNodup _ _ _ _ hx.1)
                          (refsFix_nonempty _ _ _ _ hx.1 hx.2.1) ?_
                        intro p id
                        rw [hl, hofo, hnew]
                        exact refsFix_transfer m.refs o r x hx.1 hpos p id
                      | enum _ =>
                        simp only [cdStr]
                        have hofo : refOf S h kids = [] := refOf_cd_other S h kids (fun o e => by rw [hcd] at e; cases e)
                        refine wrinv_update S w _ k _ hr ?_ rfl
                        refine refsExact_set_content S m _ x c (.text (.str r) .nil) (hw m hmem).ids hc hold rfl
                          (rootItems_setRoot_modify m x _) hx (refsAdd_keysNodup _ _ _ hx.1) (refsAdd_nonempty _ _ _ hx.2.1) ?_
                        intro p id
                        rw [hl, hofo, hnew]
                        exact refsAdd_transfer m.refs r x hx.1 p id
                      | uint _ =>
                        simp only [cdStr]
                        have hofo : refOf S h kids = [] := refOf_cd_other S h kids (fun o e => by rw [hcd] at e; cases e)
                        refine wrinv_update S w _ k _ hr ?_ rfl
                        refine refsExact_set_content S m _ x c (.text (.str r) .nil) (hw m hmem).ids hc hold rfl
                          (rootItems_setRoot_modify m x _) hx (refsAdd_keysNodup _ _ _ hx.1) (refsAdd_nonempty _ _ _ hx.2.1) ?_
                        intro p id
                        rw [hl, hofo, hnew]
                        exact refsAdd_transfer m.refs r x hx.1 p id
                      | float _ =>
                        simp only [cdStr]
                        have hofo : refOf S h kids = [] := refOf_cd_other S h kids (fun o e => by rw [hcd] at e; cases e)
                        refine wrinv_update S w _ k _ hr ?_ rfl
                        refine refsExact_set_content S m _ x c (.text (.str r) .nil) (hw m hmem).ids hc hold rfl
                          (rootItems_setRoot_modify m x _) hx (refsAdd_keysNodup _ _ _ hx.1) (refsAdd_nonempty _ _ _ hx.2.1) ?_
                        intro p id
                        rw [hl, hofo, hnew]
                        exact refsAdd_transfer m.refs r x hx.1 p id


/-! ### the extra invariant of `opMkFile_rinv`: every core operation keeps the element type of the root element -/

theorem wrootTy_update (w w' : World) (k : Nat) (m' : Model) (hT : WRootTy S w) (hm : m'.rootHdr.ety = S.ety S.rootDef)
    (hmodels : w'.models = w.models.set k m') : WRootTy S w' := by
  intro m hmem
  rw [hmodels] at hmem
  rcases List.mem_or_eq_of_mem_set hmem with h | h
  · exact hT m h
  · rw [h]; exact hm

theorem wrootTy_congr (w w' : World) (hT : WRootTy S w) (hmodels : w'.models = w.models) : WRootTy S w' := by
  intro m hmem
  rw [hmodels] at hmem
  exact hT m hmem

theorem locate_mem_models (w : World) (x k : Nat) (c : List (Hdr × Items)) (h : locate w x = some (k, c)) :
    w.models[k]! ∈ w.models := by
  obtain ⟨m, _, hm2, hmem, _⟩ := locate_chain w x k c h
  rw [hm2]; exact hmem

/-- an edit of one node that keeps the element type of its header keeps the element type of the root -/
theorem rootTy_modify (m : Model) (x : Nat) (f : Hdr → Items → Hdr × Items) (hf : ∀ h k, (f h k).1.ety = h.ety) :
    (m.setRoot (m.rootItems.modify x f)).rootHdr.ety = m.rootHdr.ety := by
  have h := rootItems_setRoot_modify m x f
  generalize m.setRoot (m.rootItems.modify x f) = m' at h ⊢
  rw [rootItems_eq m', rootItems_eq m] at h
  by_cases he : m.rootHdr.id = x
  · rw [modify_elem_eq x f _ _ _ he] at h
    injection h with a _ _
    rw [a]; exact hf _ _
  · rw [modify_elem_ne x f _ _ _ he] at h
    injection h with a _ _
    rw [a]

theorem rootTy_skel (m m' : Model) (hsk : m'.rootItems.skel = m.rootItems.skel) : m'.rootHdr.ety = m.rootHdr.ety := by
  rw [rootItems_eq, rootItems_eq] at hsk
  exact (core_inj (skel_elem_inj hsk).1).2.2

theorem rootTy_setRoot_skel (m : Model) (its : Items) (hsk : its.skel = m.rootItems.skel) :
    (m.setRoot its).rootHdr.ety = m.rootHdr.ety := by
  obtain ⟨h1, _, _, _⟩ := setRoot_of_skel m its hsk
  exact rootTy_skel m _ (by rw [h1]; exact hsk)

/-- the common end of the proofs for the operations that edit one located node -/
macro "rootty_located" hT:ident : tactic => `(tactic| (
  refine wrootTy_update _ _ _ _ _ $hT ?_ rfl
  refine (rootTy_modify _ _ _ ?_).trans ($hT _ (locate_mem_models _ _ _ _ (by assumption)))
  intro h0 k0
  first
    | rfl
    | exact (setAttrHdr_keeps4 _ _ h0 _ _ _).2.2.1
    | (split <;> rfl)))

theorem opCreate_rootTy (w : World) (p name : Nat) (pos? : Option Nat) (hT : WRootTy S w) :
    WRootTy S (opCreate S V w p name pos?).1 := by
  unfold opCreate
  repeat' (first | exact hT | split | dsimp only)
  all_goals rootty_located hT

theorem opNamed_rootTy (w : World) (p name : Nat) (item : Bytes) (pos? : Option Nat) (hT : WRootTy S w) :
    WRootTy S (opNamed S V w p name item pos?).1 := by
  unfold opNamed
  repeat' (first | exact hT | split | dsimp only)
  all_goals rootty_located hT

theorem opRemove_rootTy (w : World) (p cid : Nat) (hT : WRootTy S w) : WRootTy S (opRemove S w p cid).1 := by
  unfold opRemove
  repeat' (first | exact hT | split | dsimp only)
  all_goals rootty_located hT

theorem opCData_rootTy (w : World) (x : Nat) (v : CDv) (hT : WRootTy S w) : WRootTy S (opCData S V w x v).1 := by
  unfold opCData
  repeat' (first | exact hT | split | dsimp only)
  all_goals rootty_located hT

theorem opRmCData_rootTy (w : World) (x : Nat) (hT : WRootTy S w) : WRootTy S (opRmCData S w x).1 := by
  unfold opRmCData
  repeat' (first | exact hT | split | dsimp only)
  all_goals rootty_located hT

theorem opAttr_rootTy (w : World) (x a : Nat) (v : CDv) (hT : WRootTy S w) : WRootTy S (opAttr S V w x a v).1 := by
  unfold opAttr
  repeat' (first | exact hT | split | dsimp only)
  all_goals rootty_located hT

theorem opAttrS_rootTy (w : World) (x a : Nat) (s : Bytes) (hT : WRootTy S w) : WRootTy S (opAttrS S V w x a s).1 := by
  unfold opAttrS
  repeat' (first | exact hT | split | dsimp only)
  all_goals rootty_located hT

theorem opRmAttr_rootTy (w : World) (x a : Nat) (hT : WRootTy S w) : WRootTy S (opRmAttr S w x a).1 := by
  unfold opRmAttr
  repeat' (first | exact hT | split | dsimp only)
  all_goals first
    | exact wrootTy_congr S w _ hT rfl
    | rootty_located hT

theorem opComment_rootTy (w : World) (x : Nat) (cm : Option Bytes) (hT : WRootTy S w) : WRootTy S (opComment w x cm).1 := by
  unfold opComment
  split
  · exact wrootTy_congr S w _ hT rfl
  · rootty_located hT

theorem opInsText_rootTy (w : World) (x pos : Nat) (s : Bytes) (hT : WRootTy S w) : WRootTy S (opInsText S w x pos s).1 := by
  unfold opInsText
  repeat' (first | exact hT | split | dsimp only)
  all_goals rootty_located hT

theorem opRmText_rootTy (w : World) (x pos : Nat) (hT : WRootTy S w) : WRootTy S (opRmText S w x pos).1 := by
  unfold opRmText
  repeat' (first | exact hT | split | dsimp only)
  all_goals rootty_located hT

theorem opAddFile_rootTy (w : World) (x f : Nat) (hT : WRootTy S w) : WRootTy S (opAddFile S w x f).1 := by
  unfold opAddFile
  repeat' (first | exact hT | split | dsimp only)
  all_goals (
    refine wrootTy_update S w _ _ _ hT ?_ rfl
    exact (rootTy_setRoot_skel _ _ (addPath_skel S f _ [] true _)).trans (hT _ (locate_mem_models w _ _ _ (by assumption))))

theorem removeAll_rootTy (ids : List Nat) : ∀ (w : World), WRootTy S w → WRootTy S (removeAll S w ids) := by
  induction ids with
  | nil => intro w hT; exact hT
  | cons id rest ih =>
    intro w hT
    simp only [removeAll]
    apply ih
    split
    · split
      · exact opRemove_rootTy S w _ _ hT
      · exact hT
    · exact hT

theorem opRmFromFile_rootTy (w : World) (x f : Nat) (hT : WRootTy S w) : WRootTy S (opRmFromFile S w x f).1 := by
  unfold opRmFromFile
  split
  · exact hT
  · dsimp only
    split
    · exact hT
    · split
      · exact hT
      · split
        · exact hT
        · split
          · exact hT
          · rename_i cur _
            have hT1 : WRootTy S (if (cur.filter (· != f)).isEmpty then
                (match (‹List (Hdr × Items)›).dropLast.getLast? with
                  | some (ph, _) => (opRemove S w ph.id x).1
                  | none => w) else w) := by
              split
              · split
                · exact opRemove_rootTy S w _ _ hT
                · exact hT
              · exact hT
            split
            · exact hT1
            · rename_i k1 c1 hloc1
              apply removeAll_rootTy
              refine wrootTy_update S _ _ k1 _ hT1 ?_ rfl
              exact (rootTy_setRoot_skel _ _ (rmAt_skel f x [] _)).trans (hT1 _ (locate_mem_models _ x k1 c1 hloc1))

theorem opRmFile_rootTy (w : World) (k f : Nat) (hT : WRootTy S w) : WRootTy S (opRmFile S w k f).1 := by
  unfold opRmFile
  split
  · exact hT
  · rename_i m hk
    split
    · exact hT
    · dsimp only
      split
      · exact hT
      · apply opRmFromFile_rootTy
        refine wrootTy_update S w _ k _ hT ?_ rfl
        exact hT m (List.mem_of_getElem? hk)

theorem opSetVersion_rootTy (w : World) (f ver : Nat) (hT : WRootTy S w) : WRootTy S (opSetVersion S w f ver).1 := by
  unfold opSetVersion
  split
  · exact hT
  · rename_i k hk
    dsimp only
    split
    · exact hT
    · split
      · have hlt : k < w.models.length := by
          unfold fileModel at hk
          have := List.mem_of_find?_eq_some hk
          exact List.mem_range.mp this
        have hmem : w.models[k]! ∈ w.models := by
          rw [getElem!_pos w.models k hlt]; exact List.getElem_mem hlt
        refine wrootTy_update S w _ k _ hT ?_ rfl
        exact hT (w.models[k]!) hmem
      · exact hT

theorem opMkFile_rootTy (w : World) (k : Nat) (name : Bytes) (ver : Nat) (valid : Bool) (hT : WRootTy S w) :
    WRootTy S (opMkFile S w k name ver valid).1 := by
  unfold opMkFile
  split
  · exact hT
  · rename_i m hmk
    have hm := hT m (List.mem_of_getElem? hmk)
    have hty : (restrictStep S w.nextFile m.rootHdr m.rootKids [] true).1.ety = m.rootHdr.ety :=
      (core_inj (restrictStep_skel S w.nextFile m.rootHdr m.rootKids [] true).1).2.2
    split
    · exact hT
    · split
      · exact hT
      · cases hiss : m.rootIssued with
        | true =>
          simp only [if_true]
          refine wrootTy_update S w _ k _ hT ?_ rfl
          exact hty.trans hm
        | false =>
          simp only [Bool.false_eq_true, if_false]
          refine wrootTy_update S w _ k _ hT ?_ rfl
          exact hty.trans hm

theorem wrootTy_empty : WRootTy S emptyWorld := by
  intro m hm; simp [emptyWorld] at hm

/-- every core operation keeps the extra invariant (no guard needed) -/
theorem applyOp_wrootTy (rootAttrs : List (Nat × CDv)) (w : World) (op : Op) (hT : WRootTy S w) :
    WRootTy S (applyOp S V rootAttrs w op).1 := by
  cases op with
  | newModel =>
    intro m hmem
    rcases List.mem_append.mp hmem with h | h
    · exact hT m h
    · rw [List.mem_singleton] at h
      subst h; rfl
  | mkFile k name ver valid => exact opMkFile_rootTy S w k name ver valid hT
  | create p name pos => exact opCreate_rootTy S V w p name pos hT
  | named p name item pos => exact opNamed_rootTy S V w p name item pos hT
  | remove p c => exact opRemove_rootTy S w p c hT
  | cdata x v => exact opCData_rootTy S V w x v hT
  | rmcdata x => exact opRmCData_rootTy S w x hT
  | attr x a v => exact opAttr_rootTy S V w x a v hT
  | attrs x a s => exact opAttrS_rootTy S V w x a s hT
  | rmattr x a => exact opRmAttr_rootTy S w x a hT
  | comment x cm => exact opComment_rootTy S w x cm hT
  | instext x pos s => exact opInsText_rootTy S w x pos s hT
  | rmtext x pos => exact opRmText_rootTy S w x pos hT
  | addfile x f => exact opAddFile_rootTy S w x f hT
  | rmfromfile x f => exact opRmFromFile_rootTy S w x f hT
  | rmfile k f => exact opRmFile_rootTy S w k f hT
  | setver f ver => exact opSetVersion_rootTy S w f ver hT

/-- every state reachable by a history of core operations -/
theorem run_wrootTy (rootAttrs : List (Nat × CDv)) (ops : List Op) : WRootTy S (run S V rootAttrs ops) := by
  unfold run
  suffices h : ∀ (w : World), WRootTy S w → WRootTy S (ops.foldl (fun w op => (applyOp S V rootAttrs w op).1) w) from
    h _ (wrootTy_empty S)
  induction ops with
  | nil => intro w hT; exact hT
  | cons op rest ih =>
    intro w hT
    simp only [List.foldl_cons]
    exact ih _ (applyOp_wrootTy S V rootAttrs w op hT)

end
end AV.W
