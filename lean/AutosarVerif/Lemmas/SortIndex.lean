/-
C14, "sort keeps all path and reference lookups intact": `opSort` leaves the fields `index` and `refs` of the model alone
and only permutes the tree, so the claim is that the two maps are still EXACT for the permuted tree.

* the crux: in an element whose first content item is its SHORT-NAME, the SHORT-NAME is still the first content item after
  sorting (its sort key, the index path `[0]`, is strictly smaller than the key of every sibling), so `itemName` — which
  looks at the first content item only — answers as before;
* hence `entries` (what the index must hold), `refEntries` (what the reverse reference map must hold) and the element ids
  of the sorted tree are permutations of those of the tree before; the SHORT-NAME discipline `SnOk` and `RefLeaf` survive;
* `opSort_winv`, `opSort_cinv`, and the statement about lookups.

EXTRA HYPOTHESIS (`SnSibsKnown`, see the counterexample at the end of the file): a sibling of a SHORT-NAME whose name the
all-version lookup `S.findSub typ name 0xFFFFFFFF` of the parent's type does not know gets the sort key `[]`, which is
SMALLER than `[0]`: it would be sorted in front of the SHORT-NAME and the parent would lose its item name.  No stray-text
hypothesis is needed: text items are invisible to `entries`, `refEntries`, `ids`, and a text item in front of the content
excludes a SHORT-NAME (`kidsOk`).
-/
import AutosarVerif.Lemmas.RefsReach
import AutosarVerif.Lemmas.Sort

namespace AV.W
open Items

/-! ### lists: the head of a merge sort -/

theorem merge_head {α : Type} (le : α → α → Bool) (a : α) (l r : List α) (h : ∀ b ∈ r, le a b = true) :
    List.merge (a :: l) r le = a :: List.merge l r le := by
  cases r with
  | nil => simp
  | cons b r => exact List.cons_merge_cons_pos le l r (h b List.mem_cons_self)

/-- an element that is `le` every later element stays in front (no assumption on `le`: a merge takes from the left list
first) -/
theorem mergeSort_head {α : Type} (le : α → α → Bool) (a : α) (n : Nat) :
    ∀ (l : List α), l.length ≤ n → (∀ b ∈ l, le a b = true) → ∃ t, (a :: l).mergeSort le = a :: t := by
  induction n with
  | zero =>
    intro l hl _
    cases l with
    | nil => exact ⟨[], by simp⟩
    | cons b xs => simp at hl
  | succ n ih =>
    intro l hl hle
    cases l with
    | nil => exact ⟨[], by simp⟩
    | cons b xs =>
      rw [List.mergeSort]
      simp only [List.MergeSort.Internal.splitInTwo_fst, List.MergeSort.Internal.splitInTwo_snd]
      obtain ⟨k, hk, hkl⟩ : ∃ k, ((a :: b :: xs).length + 1) / 2 = k + 1 ∧ k ≤ xs.length :=
        ⟨((a :: b :: xs).length + 1) / 2 - 1, by simp only [List.length_cons]; omega, by simp only [List.length_cons]; omega⟩
      rw [hk, List.take_succ_cons, List.drop_succ_cons]
      obtain ⟨t1, ht1⟩ := ih ((b :: xs).take k)
        (by simp only [List.length_take, List.length_cons] at hl ⊢; omega)
        (fun c hc => hle c (List.mem_of_mem_take hc))
      rw [ht1]
      refine ⟨_, merge_head le a t1 _ (fun c hc => ?_)⟩
      rw [List.mem_mergeSort] at hc
      exact hle c (List.mem_of_mem_drop hc)

theorem mergeSort_head' {α : Type} (le : α → α → Bool) (a : α) (l : List α) (h : ∀ b ∈ l, le a b = true) :
    ∃ t, (a :: l).mergeSort le = a :: t ∧ t.Perm l := by
  obtain ⟨t, ht⟩ := mergeSort_head le a l.length l (Nat.le_refl _) h
  refine ⟨t, ht, ?_⟩
  have := List.mergeSort_perm (a :: l) le
  rw [ht] at this
  exact this.cons_inv

theorem perm_flatMap_congr {α β : Type} (l : List α) (f g : α → List β) (h : ∀ a ∈ l, (f a).Perm (g a)) :
    (l.flatMap f).Perm (l.flatMap g) := by
  induction l with
  | nil => exact List.Perm.refl _
  | cons a l ih =>
    simp only [List.flatMap_cons]
    exact List.Perm.append (h a List.mem_cons_self) (ih (fun b hb => h b (List.mem_cons_of_mem _ hb)))

/-! ### a forest seen as the list of its top-level elements (text items are invisible to everything below) -/

theorem childElems_ofListIx (l : List (Hdr × Items)) : (Items.ofList l).childElems = l := by
  induction l with
  | nil => rfl
  | cons c l ih => obtain ⟨h, k⟩ := c; simp only [Items.ofList, Items.childElems, ih]

theorem ids_eq_flatMap (its : Items) : its.ids = its.childElems.flatMap fun c => c.1.id :: c.2.ids := by
  induction its with
  | nil => rfl
  | text c r ih => simpa only [Items.ids, Items.childElems] using ih
  | elem h k r _ ih => simp only [Items.ids, Items.childElems, List.flatMap_cons, ih, List.cons_append]

/-- apply `g` to the content of every top-level element -/
def mapKids (g : Hdr → Items → Items) : Items → Items
  | .nil => .nil
  | .elem h k r => .elem h (g h k) (mapKids g r)
  | .text c r => .text c (mapKids g r)

theorem childElems_mapKids (g : Hdr → Items → Items) (its : Items) :
    (mapKids g its).childElems = its.childElems.map fun c => (c.1, g c.1 c.2) := by
  induction its with
  | nil => rfl
  | text c r ih => simpa only [mapKids, Items.childElems] using ih
  | elem h k r _ ih => simp only [mapKids, Items.childElems, List.map_cons, ih]

theorem length_mapKids (g : Hdr → Items → Items) (its : Items) : (mapKids g its).length = its.length := by
  induction its with
  | nil => rfl
  | text c r ih => simp only [mapKids, Items.length, ih]
  | elem h k r _ ih => simp only [mapKids, Items.length, ih]

section
variable (S : Spec)

theorem entries_eq_flatMap (its : Items) (pre : Bytes) :
    entries S its pre = its.childElems.flatMap fun c => entries S (.elem c.1 c.2 .nil) pre := by
  induction its with
  | nil => rfl
  | text c r ih => simpa only [entries, Items.childElems] using ih
  | elem h k r _ ih => rw [entries_elem_split, ih]; simp only [Items.childElems, List.flatMap_cons]

theorem refEntries_eq_flatMap (its : Items) :
    refEntries S its = its.childElems.flatMap fun c => refOf S c.1 c.2 ++ refEntries S c.2 := by
  induction its with
  | nil => rfl
  | text c r ih => simpa only [refEntries, Items.childElems] using ih
  | elem h k r _ ih => simp only [refEntries, Items.childElems, List.flatMap_cons, ih]

theorem noSnTop_iff (its : Items) : noSnTop S its ↔ ∀ c ∈ its.childElems, c.1.name ≠ S.nmShortName := by
  induction its with
  | nil => simp [noSnTop, Items.childElems]
  | text c r ih => simpa only [noSnTop, Items.childElems] using ih
  | elem h k r _ ih => simp only [noSnTop, Items.childElems, List.forall_mem_cons, ih]

theorem snOk_iff (its : Items) : SnOk S its ↔ ∀ c ∈ its.childElems, kidsOk S c.1 c.2 ∧ SnOk S c.2 := by
  induction its with
  | nil => simp [SnOk, Items.childElems]
  | text c r ih => simpa only [SnOk, Items.childElems] using ih
  | elem h k r _ ih => simp only [SnOk, Items.childElems, List.forall_mem_cons, ih, and_assoc]

theorem refLeaf_iff (its : Items) :
    RefLeaf S its ↔ ∀ c ∈ its.childElems, (S.isRef c.1.ety.typ = true → c.2.childElems = []) ∧ RefLeaf S c.2 := by
  induction its with
  | nil => simp [refLeaf_nil, Items.childElems]
  | text c r ih => rw [refLeaf_text]; simpa only [Items.childElems] using ih
  | elem h k r _ ih => rw [refLeaf_elem]; simp only [Items.childElems, List.forall_mem_cons, ih, and_assoc]

end

/-! ### the extra hypothesis, the sort keys -/

section
variable (S : Spec) (V : Env)

/-- where the first content item of `k` is a SHORT-NAME, every child element of `k` is known to the all-version lookup of the
type of `h` (otherwise its sort key is `[]`, which is smaller than the key `[0]` of the SHORT-NAME) -/
def sibsKnown (h : Hdr) (k : Items) : Prop :=
  firstIsSn S k → ∀ c ∈ k.childElems, S.findSub h.ety.typ c.1.name 0xFFFFFFFF ≠ none

/-- EXTRA HYPOTHESIS of the sort theorems: `sibsKnown` everywhere in the forest -/
def SnSibsKnown : Items → Prop
  | .nil => True
  | .text _ r => SnSibsKnown r
  | .elem h k r => sibsKnown S h k ∧ SnSibsKnown k ∧ SnSibsKnown r

/-- the simpler, stronger form: every child element of every element is known to the all-version lookup of the type of
its parent (what `create_sub_element` / the parser check, in the version of the file) -/
def KidsKnown : Items → Prop
  | .nil => True
  | .text _ r => KidsKnown r
  | .elem h k r => (∀ c ∈ k.childElems, S.findSub h.ety.typ c.1.name 0xFFFFFFFF ≠ none) ∧ KidsKnown k ∧ KidsKnown r

theorem snSibsKnown_of_kidsKnown (its : Items) (h : KidsKnown S its) : SnSibsKnown S its := by
  induction its with
  | nil => trivial
  | text c r ih => exact ih h
  | elem hd k r ihk ihr => exact ⟨fun _ => h.1, ihk h.2.1, ihr h.2.2⟩

theorem snSibsKnown_iff (its : Items) :
    SnSibsKnown S its ↔ ∀ c ∈ its.childElems, sibsKnown S c.1 c.2 ∧ SnSibsKnown S c.2 := by
  induction its with
  | nil => simp [SnSibsKnown, Items.childElems]
  | text c r ih => simpa only [SnSibsKnown, Items.childElems] using ih
  | elem h k r _ ih => simp only [SnSibsKnown, Items.childElems, List.forall_mem_cons, ih, and_assoc]

theorem snSibsKnown_of_occ (its : Items) (hK : SnSibsKnown S its) (h : Hdr) (k : Items) (ho : Occ h k its) :
    sibsKnown S h k ∧ SnSibsKnown S k := by
  induction its with
  | nil => exact ho.elim
  | text _ r ih => exact ih hK ho
  | elem hd kk r ihk ihr =>
    rcases ho with ⟨rfl, rfl⟩ | ho | ho
    · exact ⟨hK.1, hK.2.1⟩
    · exact ihk hK.2.1 ho
    · exact ihr hK.2.2 ho

/-- the SHORT-NAME of a named type sorts strictly before every known sibling that is not called SHORT-NAME -/
theorem childLe_sn {vOk : Nat} (hW : NameWFv S vOk) (typ n : Nat) (a c : Hdr × Items) (hnamed : S.isNamed typ = true)
    (hsn : a.1.name = S.nmShortName) (hc : c.1.name ≠ S.nmShortName)
    (hknown : S.findSub typ c.1.name 0xFFFFFFFF ≠ none) : childLe S V typ n a c = true := by
  obtain ⟨hc0, d, hd, hnm⟩ := isNamed_sub0 S typ hnamed
  have h1 := findSub_at0 S typ S.nmShortName 0xFFFFFFFF d hc0 hd hnm (hW.sn_mask typ hnamed)
  unfold childLe
  simp only [hsn, h1]
  cases hf : S.findSub typ c.1.name 0xFFFFFFFF with
  | none => exact absurd hf hknown
  | some x =>
    obtain ⟨e, idx⟩ := x
    simp only
    cases idx with
    | nil => exact absurd rfl (findSubT_idx_ne_nil S c.1.name 0xFFFFFFFF _ _ e [] hf)
    | cons i rest =>
      cases i with
      | zero => exact absurd (findSub_head0 S typ c.1.name 0xFFFFFFFF e rest hnamed hf).2 hc
      | succ j => simp [cmpIdx]

end

/-! ### what one sorting step keeps -/

section
variable (S : Spec)

/-- what is assumed of the content `k` of an element with header `h` -/
def SortHypIx (h : Hdr) (k : Items) : Prop := kidsOk S h k ∧ SnOk S k ∧ sibsKnown S h k ∧ SnSibsKnown S k

/-- `k'` is as good as `k` as the content of an element with header `h` -/
structure SortGood (h : Hdr) (k k' : Items) : Prop where
  cd : charData S h k' = charData S h k
  ids : k'.ids.Perm k.ids
  refs : (refEntries S k').Perm (refEntries S k)
  leaf : RefLeaf S k → RefLeaf S k'
  leaf0 : k.childElems = [] → k'.childElems = []
  hyp : SortHypIx S h k → SortHypIx S h k'
  name : SortHypIx S h k → itemName S h k' = itemName S h k
  ents : SortHypIx S h k → ∀ pre, (entries S k' pre).Perm (entries S k pre)

theorem SortGood.refl (h : Hdr) (k : Items) : SortGood S h k k :=
  ⟨rfl, List.Perm.refl _, List.Perm.refl _, id, id, id, fun _ => rfl, fun _ _ => List.Perm.refl _⟩

theorem SortGood.trans {h : Hdr} {k k' k'' : Items} (a : SortGood S h k k') (b : SortGood S h k' k'') : SortGood S h k k'' :=
  ⟨b.cd.trans a.cd, b.ids.trans a.ids, b.refs.trans a.refs, fun x => b.leaf (a.leaf x), fun x => b.leaf0 (a.leaf0 x),
    fun x => b.hyp (a.hyp x), fun x => (b.name (a.hyp x)).trans (a.name x),
    fun x pre => (b.ents (a.hyp x) pre).trans (a.ents x pre)⟩

theorem SortHypIx.child {h : Hdr} {k : Items} (hy : SortHypIx S h k) (c : Hdr × Items) (hc : c ∈ k.childElems) :
    SortHypIx S c.1 c.2 :=
  ⟨((snOk_iff S k).mp hy.2.1 c hc).1, ((snOk_iff S k).mp hy.2.1 c hc).2,
    ((snSibsKnown_iff S k).mp hy.2.2.2 c hc).1, ((snSibsKnown_iff S k).mp hy.2.2.2 c hc).2⟩

/-- a proper SHORT-NAME is determined by its character data -/
theorem properSn_cd (sh : Hdr) (sk sk' : Items) (hp : properSn S sh sk) (hcd : charData S sh sk' = charData S sh sk) :
    sk' = sk := by
  obtain ⟨p1, _, _, n, rfl, _⟩ := hp
  have h1 : charData S sh (.text (.str n) .nil) = some (.str n) := by simp [charData, p1]
  rw [h1] at hcd
  unfold charData at hcd
  split at hcd
  · split at hcd
    · simp only [Option.some.injEq] at hcd; rw [hcd]
    · cases hcd
  · cases hcd

theorem firstIsSn_mapKids (g : Hdr → Items → Items) (k : Items) : firstIsSn S (mapKids g k) ↔ firstIsSn S k := by
  cases k <;> simp only [mapKids, firstIsSn]

theorem charData_mapKids (g : Hdr → Items → Items) (h : Hdr) (k : Items) : charData S h (mapKids g k) = charData S h k := by
  cases k with
  | nil => rfl
  | elem sh sk r => rfl
  | text c r => cases r <;> rfl

/-- step 1 of a sort: the content of every child element is replaced by something as good -/
theorem SortGood.mapKids (g : Hdr → Items → Items) (h : Hdr) (k : Items)
    (hg : ∀ c ∈ k.childElems, SortGood S c.1 c.2 (g c.1 c.2)) : SortGood S h k (mapKids g k) := by
  have hhyp : SortHypIx S h k → SortHypIx S h (AV.W.mapKids g k) := by
    intro hy
    obtain ⟨h1, h2, h3, h4⟩ := hy
    refine ⟨?_, ?_, ?_, ?_⟩
    · cases k with
      | nil => trivial
      | text c r =>
        simp only [AV.W.mapKids, kidsOk] at h1 ⊢
        rw [noSnTop_iff, childElems_mapKids]
        intro c' hc'
        obtain ⟨c0, hc0, rfl⟩ := List.mem_map.mp hc'
        exact (noSnTop_iff S r).mp h1 c0 hc0
      | elem sh sk r =>
        simp only [AV.W.mapKids, kidsOk] at h1 ⊢
        refine ⟨fun hsn => ?_, ?_⟩
        · have hsk : g sh sk = sk := properSn_cd S sh sk _ (h1.1 hsn).2 (hg (sh, sk) (by simp [Items.childElems])).cd
          rw [hsk]; exact h1.1 hsn
        · rw [noSnTop_iff, childElems_mapKids]
          intro c' hc'
          obtain ⟨c0, hc0, rfl⟩ := List.mem_map.mp hc'
          exact (noSnTop_iff S r).mp h1.2 c0 hc0
    · rw [snOk_iff, childElems_mapKids]
      intro c' hc'
      obtain ⟨c0, hc0, rfl⟩ := List.mem_map.mp hc'
      have := (hg c0 hc0).hyp (SortHypIx.child S ⟨h1, h2, h3, h4⟩ c0 hc0)
      exact ⟨this.1, this.2.1⟩
    · intro hf c' hc'
      rw [childElems_mapKids] at hc'
      obtain ⟨c0, hc0, rfl⟩ := List.mem_map.mp hc'
      exact h3 ((firstIsSn_mapKids S g k).mp hf) c0 hc0
    · rw [snSibsKnown_iff, childElems_mapKids]
      intro c' hc'
      obtain ⟨c0, hc0, rfl⟩ := List.mem_map.mp hc'
      have := (hg c0 hc0).hyp (SortHypIx.child S ⟨h1, h2, h3, h4⟩ c0 hc0)
      exact ⟨this.2.2.1, this.2.2.2⟩
  refine ⟨charData_mapKids S g h k, ?_, ?_, ?_, ?_, hhyp, ?_, ?_⟩
  · rw [ids_eq_flatMap, ids_eq_flatMap k, childElems_mapKids, List.flatMap_map]
    exact perm_flatMap_congr _ _ _ (fun c hc => List.Perm.cons _ (hg c hc).ids)
  · rw [refEntries_eq_flatMap, refEntries_eq_flatMap S k, childElems_mapKids, List.flatMap_map]
    refine perm_flatMap_congr _ _ _ (fun c hc => ?_)
    have : refOf S c.1 (g c.1 c.2) = refOf S c.1 c.2 := by unfold refOf; rw [(hg c hc).cd]
    rw [this]
    exact List.Perm.append_left _ (hg c hc).refs
  · intro hl
    rw [refLeaf_iff, childElems_mapKids]
    intro c' hc'
    obtain ⟨c0, hc0, rfl⟩ := List.mem_map.mp hc'
    have := (refLeaf_iff S k).mp hl c0 hc0
    exact ⟨fun hx => (hg c0 hc0).leaf0 (this.1 hx), (hg c0 hc0).leaf this.2⟩
  · intro h0
    rw [childElems_mapKids, h0]; rfl
  · intro hy
    cases k with
    | nil => rfl
    | text c r => rfl
    | elem sh sk r =>
      have := (hg (sh, sk) (by simp [Items.childElems])).cd
      simp only [AV.W.mapKids, itemName, this]
  · intro hy pre
    rw [entries_eq_flatMap, entries_eq_flatMap S k, childElems_mapKids, List.flatMap_map]
    refine perm_flatMap_congr _ _ _ (fun c hc => ?_)
    have hcy := SortHypIx.child S hy c hc
    have hn := (hg c hc).name hcy
    have he := (hg c hc).ents hcy
    simp only [entries, hn, List.append_nil]
    cases itemName S c.1 c.2 with
    | none => exact he pre
    | some n => exact List.Perm.cons _ (he _)

theorem noSn_of_not_first (h : Hdr) (k : Items) (hk : kidsOk S h k) (hf : ¬ firstIsSn S k) :
    ∀ c ∈ k.childElems, c.1.name ≠ S.nmShortName := by
  cases k with
  | nil => intro c hc; simp [Items.childElems] at hc
  | text c r => exact (noSnTop_iff S r).mp hk
  | elem sh sk r =>
    intro c hc
    rcases List.mem_cons.mp hc with e | e
    · rw [e]; exact hf
    · exact (noSnTop_iff S r).mp hk.2 c e

theorem kidsOk_ofList_noSn (h : Hdr) (l : List (Hdr × Items)) (hl : ∀ c ∈ l, c.1.name ≠ S.nmShortName) :
    kidsOk S h (Items.ofList l) ∧ ¬ firstIsSn S (Items.ofList l) := by
  cases l with
  | nil => exact ⟨trivial, id⟩
  | cons c t =>
    obtain ⟨sh, sk⟩ := c
    refine ⟨⟨fun e => absurd e (hl _ List.mem_cons_self), ?_⟩, hl (sh, sk) List.mem_cons_self⟩
    rw [noSnTop_iff, childElems_ofListIx]
    exact fun c hc => hl c (List.mem_cons_of_mem _ hc)

variable (V : Env)

/-- THE KEY LEMMA: the SHORT-NAME stays the first content item -/
theorem sort_head {vOk : Nat} (hW : NameWFv S vOk) (n : Nat) (h sh : Hdr) (sk rest : Items)
    (hk : kidsOk S h (.elem sh sk rest)) (hK : sibsKnown S h (.elem sh sk rest)) (hsn : sh.name = S.nmShortName) :
    ∃ t, (Items.elem sh sk rest).childElems.mergeSort (childLe S V h.ety.typ n) = (sh, sk) :: t ∧
      t.Perm rest.childElems := by
  simp only [Items.childElems]
  refine mergeSort_head' _ (sh, sk) rest.childElems (fun c hc => ?_)
  exact childLe_sn S V hW h.ety.typ n (sh, sk) c (hk.1 hsn).1.1 hsn ((noSnTop_iff S rest).mp hk.2 c hc)
    (hK hsn c (List.mem_cons_of_mem _ hc))

/-- step 2 of a sort: the text items are dropped and the child elements are merge-sorted by `childLe` -/
theorem SortGood.reorder {vOk : Nat} (hW : NameWFv S vOk) (n : Nat) (h : Hdr) (k : Items) (hlen : k.length > 1) :
    SortGood S h k (Items.ofList (k.childElems.mergeSort (childLe S V h.ety.typ n))) := by
  have hperm := List.mergeSort_perm k.childElems (childLe S V h.ety.typ n)
  have hmem : ∀ c, c ∈ k.childElems.mergeSort (childLe S V h.ety.typ n) ↔ c ∈ k.childElems := fun c => List.mem_mergeSort
  have hhyp : SortHypIx S h k → SortHypIx S h (Items.ofList (k.childElems.mergeSort (childLe S V h.ety.typ n))) ∧
      itemName S h (Items.ofList (k.childElems.mergeSort (childLe S V h.ety.typ n))) = itemName S h k := by
    intro ⟨h1, h2, h3, h4⟩
    have hsn : SnOk S (Items.ofList (k.childElems.mergeSort (childLe S V h.ety.typ n))) := by
      rw [snOk_iff, childElems_ofListIx]
      exact fun c hc => (snOk_iff S k).mp h2 c ((hmem c).mp hc)
    have hkn : SnSibsKnown S (Items.ofList (k.childElems.mergeSort (childLe S V h.ety.typ n))) := by
      rw [snSibsKnown_iff, childElems_ofListIx]
      exact fun c hc => (snSibsKnown_iff S k).mp h4 c ((hmem c).mp hc)
    by_cases hf : firstIsSn S k
    · cases k with
      | nil => exact hf.elim
      | text c r => exact hf.elim
      | elem sh sk rest =>
        obtain ⟨t, ht, htp⟩ := sort_head S V hW n h sh sk rest h1 h3 hf
        have hk' : kidsOk S h (Items.ofList ((sh, sk) :: t)) := by
          refine ⟨h1.1, ?_⟩
          rw [noSnTop_iff, childElems_ofListIx]
          exact fun c hc => (noSnTop_iff S rest).mp h1.2 c (htp.mem_iff.mp hc)
        refine ⟨⟨?_, hsn, ?_, hkn⟩, ?_⟩
        · rw [ht]; exact hk'
        · intro _ c hc
          rw [childElems_ofListIx] at hc
          exact h3 hf c ((hmem c).mp hc)
        · rw [ht]; simp only [Items.ofList, itemName]
    · have hall := noSn_of_not_first S h k h1 hf
      obtain ⟨a, b⟩ := kidsOk_ofList_noSn S h (k.childElems.mergeSort (childLe S V h.ety.typ n))
        (fun c hc => hall c ((hmem c).mp hc))
      refine ⟨⟨a, hsn, fun hx => absurd hx b, hkn⟩, ?_⟩
      rw [itemName_none_of_not_sn S h _ b, itemName_none_of_not_sn S h _ hf]
  refine ⟨?_, ?_, ?_, ?_, ?_, fun hy => (hhyp hy).1, fun hy => (hhyp hy).2, ?_⟩
  · have h1 : charData S h k = none := by
      cases k with
      | nil => rfl
      | elem _ _ _ => rfl
      | text c r =>
        cases r with
        | nil => simp [Items.length] at hlen
        | elem _ _ _ => rfl
        | text _ _ => rfl
    rw [h1]
    cases k.childElems.mergeSort (childLe S V h.ety.typ n) with
    | nil => rfl
    | cons c t => rfl
  · rw [ids_eq_flatMap, ids_eq_flatMap k, childElems_ofListIx]
    exact List.Perm.flatMap_right _ hperm
  · rw [refEntries_eq_flatMap, refEntries_eq_flatMap S k, childElems_ofListIx]
    exact List.Perm.flatMap_right _ hperm
  · intro hl
    rw [refLeaf_iff, childElems_ofListIx]
    exact fun c hc => (refLeaf_iff S k).mp hl c ((hmem c).mp hc)
  · intro h0
    rw [childElems_ofListIx, h0]; simp
  · intro _ pre
    rw [entries_eq_flatMap, entries_eq_flatMap S k, childElems_ofListIx]
    exact List.Perm.flatMap_right _ hperm

/-! ### `sortNode` -/

theorem sortNode_descend (fuel : Nat) (k : Items) : sortNode.descend S V fuel k = mapKids (sortNode S V fuel) k := by
  induction k with
  | nil => rw [sortNode.descend]; rfl
  | text c r ih => rw [sortNode.descend, ih]; rfl
  | elem h kk r _ ih => rw [sortNode.descend, ih]; rfl

/-- what `sortNode` returns -/
theorem sortNode_succIx (fuel : Nat) (h : Hdr) (k : Items) :
    sortNode S V (fuel + 1) h k = k ∨
    (k.length > 1 ∧ sortNode S V (fuel + 1) h k =
      Items.ofList ((mapKids (sortNode S V fuel) k).childElems.mergeSort (childLe S V h.ety.typ (k.size + 2)))) ∨
    sortNode S V (fuel + 1) h k = mapKids (sortNode S V fuel) k := by
  rw [sortNode]
  split
  · exact Or.inl rfl
  · exact Or.inl rfl
  · split
    · rename_i hc
      simp only [Bool.and_eq_true, decide_eq_true_eq] at hc
      exact Or.inr (Or.inl ⟨hc.2, by rw [childElems_mapKids]⟩)
    · exact Or.inr (Or.inr (sortNode_descend S V fuel k))

/-- **`sortNode` keeps everything the two maps depend on** -/
theorem sortNode_good {vOk : Nat} (hW : NameWFv S vOk) (fuel : Nat) :
    ∀ (h : Hdr) (k : Items), SortGood S h k (sortNode S V fuel h k) := by
  induction fuel with
  | zero => intro h k; rw [sortNode]; exact SortGood.refl S h k
  | succ fuel ih =>
    intro h k
    have hmap := SortGood.mapKids S (sortNode S V fuel) h k (fun c _ => ih c.1 c.2)
    rcases sortNode_succIx S V fuel h k with e | ⟨hlen, e⟩ | e
    · rw [e]; exact SortGood.refl S h k
    · rw [e]
      exact hmap.trans S
        (SortGood.reorder S V hW (k.size + 2) h (mapKids (sortNode S V fuel) k) (by rw [length_mapKids]; exact hlen))
    · rw [e]; exact hmap

/-- deliverable 1, as stated: the item name of a sorted element is its item name before -/
theorem itemName_sortNode {vOk : Nat} (hW : NameWFv S vOk) (fuel : Nat) (h : Hdr) (k : Items) (hk : kidsOk S h k)
    (hS : SnOk S k) (hK1 : sibsKnown S h k) (hK : SnSibsKnown S k) :
    itemName S h (sortNode S V fuel h k) = itemName S h k :=
  (sortNode_good S V hW fuel h k).name ⟨hk, hS, hK1, hK⟩

/-- … because the SHORT-NAME child (content untouched) is still the first content item -/
theorem sortNode_sn_first {vOk : Nat} (hW : NameWFv S vOk) (fuel : Nat) (h sh : Hdr) (sk rest : Items)
    (hy : SortHypIx S h (.elem sh sk rest)) (hsn : sh.name = S.nmShortName) :
    ∃ r', sortNode S V fuel h (.elem sh sk rest) = .elem sh sk r' := by
  cases fuel with
  | zero => rw [sortNode]; exact ⟨rest, rfl⟩
  | succ fuel =>
    have hsk : sortNode S V fuel sh sk = sk :=
      properSn_cd S sh sk _ (hy.1.1 hsn).2 (sortNode_good S V hW fuel sh sk).cd
    have hmk : mapKids (sortNode S V fuel) (.elem sh sk rest) = .elem sh sk (mapKids (sortNode S V fuel) rest) := by
      simp only [mapKids, hsk]
    rcases sortNode_succIx S V fuel h (.elem sh sk rest) with e | ⟨_, e⟩ | e
    · exact ⟨rest, e⟩
    · have hy' := (SortGood.mapKids S (sortNode S V fuel) h _
        (fun c _ => sortNode_good S V hW fuel c.1 c.2)).hyp hy
      rw [hmk] at hy' e
      obtain ⟨t, ht, _⟩ := sort_head S V hW ((Items.elem sh sk rest).size + 2) h sh sk _ hy'.1 hy'.2.2.1 hsn
      rw [e, ht]
      exact ⟨Items.ofList t, rfl⟩
    · rw [e, hmk]; exact ⟨_, rfl⟩

/-! ### one model: a located node is replaced by something as good -/

theorem childNames_modify (t : Nat) (f : Hdr → Items → Hdr × Items) (k : Items)
    (hf : ∀ h0 k0, Occ h0 k0 k → h0.id = t → (f h0 k0).1.name = h0.name) :
    (k.modify t f).childElems.map (·.1.name) = k.childElems.map (·.1.name) := by
  induction k with
  | nil => rfl
  | text c r ih => simp only [Items.modify, Items.childElems]; exact ih hf
  | elem h kk r _ ih =>
    have ih := ih (fun h0 k0 ho => hf h0 k0 (Or.inr (Or.inr ho)))
    simp only [Items.modify]
    split
    · rename_i heq
      simp only [Items.childElems, List.map_cons, ih, hf h kk (Or.inl ⟨rfl, rfl⟩) heq]
    · simp only [Items.childElems, List.map_cons, ih]

theorem firstIsSn_modify (t : Nat) (f : Hdr → Items → Hdr × Items) (k : Items)
    (hf : ∀ h0 k0, Occ h0 k0 k → h0.id = t → (f h0 k0).1.name = h0.name) :
    firstIsSn S (k.modify t f) ↔ firstIsSn S k := by
  cases k with
  | nil => exact Iff.rfl
  | text c r => exact Iff.rfl
  | elem h kk r =>
    simp only [Items.modify]
    split
    · rename_i heq
      simp only [firstIsSn, hf h kk (Or.inl ⟨rfl, rfl⟩) heq]
    · exact Iff.rfl

theorem sibsKnown_modify (h : Hdr) (t : Nat) (f : Hdr → Items → Hdr × Items) (k : Items)
    (hf : ∀ h0 k0, Occ h0 k0 k → h0.id = t → (f h0 k0).1.name = h0.name) (hk : sibsKnown S h k) :
    sibsKnown S h (k.modify t f) := by
  intro hfi c hc
  have h1 := hk ((firstIsSn_modify S t f k hf).mp hfi)
  have hn : c.1.name ∈ (k.modify t f).childElems.map (·.1.name) := List.mem_map.mpr ⟨c, hc, rfl⟩
  rw [childNames_modify t f k hf] at hn
  obtain ⟨c0, hc0, he⟩ := List.mem_map.mp hn
  rw [← he]
  exact h1 c0 hc0

theorem snSibsKnown_modify (t : Nat) (f : Hdr → Items → Hdr × Items) (its : Items)
    (hf : ∀ h k, Occ h k its → h.id = t → (f h k).1.name = h.name ∧ (f h k).1.ety = h.ety ∧
      (sibsKnown S h k → SnSibsKnown S k → sibsKnown S (f h k).1 (f h k).2 ∧ SnSibsKnown S (f h k).2))
    (hK : SnSibsKnown S its) : SnSibsKnown S (its.modify t f) := by
  induction its with
  | nil => trivial
  | text c r ih => simp only [Items.modify, SnSibsKnown] at *; exact ih hf hK
  | elem hd k r ihk ihr =>
    have hfk := fun h0 k0 ho => hf h0 k0 (Or.inr (Or.inl ho))
    have hfr := fun h0 k0 ho => hf h0 k0 (Or.inr (Or.inr ho))
    simp only [SnSibsKnown] at hK
    simp only [Items.modify]
    split
    · rename_i heq
      obtain ⟨a, b⟩ := (hf hd k (Or.inl ⟨rfl, rfl⟩) heq).2.2 hK.1 hK.2.1
      exact ⟨a, b, ihr hfr hK.2.2⟩
    · exact ⟨sibsKnown_modify S hd t f k (fun h0 k0 ho e => (hfk h0 k0 ho e).1) hK.1, ihk hfk hK.2.1, ihr hfr hK.2.2⟩

/-- the edit: the header stays, the content is replaced by something as good -/
def GoodEdit (f : Hdr → Items → Hdr × Items) : Prop := ∀ h k, (f h k).1 = h ∧ SortGood S h k (f h k).2

variable (vOk : Nat)

theorem sortHyp_of_occ (its : Items) (hS : SnOk S its) (hK : SnSibsKnown S its) (h : Hdr) (k : Items) (ho : Occ h k its) :
    SortHypIx S h k :=
  ⟨(kidsOk_of_occ S its hS h k ho).1, (kidsOk_of_occ S its hS h k ho).2,
    (snSibsKnown_of_occ S its hK h k ho).1, (snSibsKnown_of_occ S its hK h k ho).2⟩

/-- the tree-level facts about a good edit of the located node `x` -/
theorem goodEdit_tree (x : Nat) (f : Hdr → Items → Hdr × Items) (hf : GoodEdit S f) (its : Items)
    (hS : SnOk S its) (hK : SnSibsKnown S its) (hn : its.ids.Nodup) (hx : x ∈ its.ids) :
    (its.modify x f).ids.Perm its.ids ∧ (∀ pre, (entries S (its.modify x f) pre).Perm (entries S its pre)) ∧
    (refEntries S (its.modify x f)).Perm (refEntries S its) ∧ SnOk S (its.modify x f) ∧
    SnSibsKnown S (its.modify x f) ∧ (RefLeaf S its → RefLeaf S (its.modify x f)) := by
  have hy := sortHyp_of_occ S its hS hK
  have hv : KeepsView S x f its := by
    intro h k _ _
    have h1 := (hf h k).1
    refine ⟨by rw [h1], by rw [h1], by rw [h1], fun _ => ?_⟩
    rw [h1]; exact (hf h k).2.cd
  refine ⟨?_, ?_, ?_, ?_, ?_, ?_⟩
  · have := ids_modify_rel x f [] [] its (fun h k _ _ => ⟨by rw [(hf h k).1], by
      simpa only [List.append_nil] using (hf h k).2.ids⟩) hn hx
    simpa only [List.append_nil] using this
  · intro pre
    obtain ⟨_, _, hp⟩ := entries_modify_located S x f (fun _ => []) (fun _ => []) its hv
      (fun h k ho _ => ⟨by rw [(hf h k).1]; exact (hf h k).2.name (hy h k ho), fun pre => by
        simpa only [List.append_nil] using (hf h k).2.ents (hy h k ho) pre⟩) hn hx pre
    simpa only [List.append_nil] using hp
  · have := refEntries_modify_located S x f [] [] its (fun h k _ _ => ⟨by rw [(hf h k).1], by
      have h1 : refOf S (f h k).1 (f h k).2 = refOf S h k := by
        rw [(hf h k).1]; unfold refOf; rw [(hf h k).2.cd]
      rw [h1]
      simpa only [List.append_nil] using List.Perm.append_left _ (hf h k).2.refs⟩) hn hx
    simpa only [List.append_nil] using this
  · refine snOk_modify S x f its ?_ hS
    intro h k ho _
    have h1 := (hf h k).1
    refine ⟨by rw [h1], by rw [h1], fun _ hp => ?_, fun _ _ => ?_⟩
    · rw [h1, properSn_cd S h k _ hp (hf h k).2.cd]; exact hp
    · have := (hf h k).2.hyp (hy h k ho)
      rw [h1]; exact ⟨this.1, this.2.1⟩
  · refine snSibsKnown_modify S x f its ?_ hK
    intro h k ho _
    have h1 := (hf h k).1
    refine ⟨by rw [h1], by rw [h1], fun _ _ => ?_⟩
    have := (hf h k).2.hyp (hy h k ho)
    rw [h1]; exact ⟨this.2.2.1, this.2.2.2⟩
  · intro hl
    refine refLeaf_modify S x f its ?_ hl
    intro h k _ _ a b
    rw [(hf h k).1]
    exact ⟨fun hx => (hf h k).2.leaf0 (a hx), (hf h k).2.leaf b⟩

/-- the model after a good edit of node `x`: header of the root kept, content of the root … -/
theorem goodEdit_root (m m' : Model) (x : Nat) (f : Hdr → Items → Hdr × Items) (hf : GoodEdit S f)
    (hroot : m'.rootItems = m.rootItems.modify x f) : m'.rootHdr = m.rootHdr := by
  rw [rootItems_eq m', rootItems_eq m] at hroot
  by_cases he : m.rootHdr.id = x
  · rw [modify_elem_eq x f _ _ _ he] at hroot
    injection hroot with a _ _
    rw [a]; exact (hf _ _).1
  · rw [modify_elem_ne x f _ _ _ he] at hroot
    injection hroot with a _ _

theorem keysNodupI_perm {a b : List (Bytes × Nat)} (hp : a.Perm b) (h : keysNodupI b) : keysNodupI a :=
  (hp.map (fun e : Bytes × Nat => e.1)).symm.nodup h

/-- the index invariant of one model survives a good edit with the SAME index: `exact` needs membership only -/
theorem minv_goodEdit (nid : Nat) (m m' : Model) (x : Nat) (f : Hdr → Items → Hdr × Items) (hf : GoodEdit S f)
    (hm : MInv S vOk nid m) (hK : SnSibsKnown S m.rootItems) (hx : x ∈ m.rootItems.ids)
    (hroot : m'.rootItems = m.rootItems.modify x f) (hidx : m'.index = m.index) (hiss : m'.rootIssued = m.rootIssued)
    (hfiles : m'.files = m.files) : MInv S vOk nid m' ∧ SnSibsKnown S m'.rootItems := by
  obtain ⟨hids, hent, _, hsn, hkn, _⟩ := goodEdit_tree S x f hf m.rootItems hm.sn hK hm.ids hx
  have hrh := goodEdit_root S m m' x f hf hroot
  refine ⟨⟨?_, ?_, ?_, ?_, ?_, ?_, ?_, ?_, ?_⟩, ?_⟩
  · rw [hfiles]; exact hm.vers
  · rw [hroot]; exact hids.symm.nodup hm.ids
  · intro hi i hmem
    rw [hroot] at hmem
    exact hm.bound (hiss ▸ hi) i (hids.mem_iff.mp hmem)
  · intro hi
    obtain ⟨hk, hfl⟩ := hm.fresh (hiss ▸ hi)
    refine ⟨?_, by rw [hrh]; exact hfl⟩
    have h1 : m'.rootItems.ids.Perm m.rootItems.ids := by rw [hroot]; exact hids
    rw [rootItems_eq m', rootItems_eq m] at h1
    simp only [Items.ids, List.append_nil, hrh, hk] at h1
    exact List.perm_nil.mp (h1.cons_inv)
  · rw [hrh]; exact hm.rootName
  · rw [hroot]; exact hsn
  · rw [hroot]; exact keysNodupI_perm (hent []) hm.keys
  · rw [hidx]; exact hm.idxKeys
  · intro q i
    rw [hidx, hroot, hm.exact q i]
    exact ((hent []).mem_iff).symm
  · rw [hroot]; exact hkn

/-! ### `opSort` -/

/-- the EXTRA HYPOTHESIS at the level of the world -/
def WSibsKnown (w : World) : Prop := ∀ m ∈ w.models, SnSibsKnown S m.rootItems

theorem wsibsKnown_update (w w' : World) (k : Nat) (m' : Model) (hK : WSibsKnown S w) (hm : SnSibsKnown S m'.rootItems)
    (hmodels : w'.models = w.models.set k m') : WSibsKnown S w' := by
  intro m hmem
  rw [hmodels] at hmem
  rcases List.mem_or_eq_of_mem_set hmem with h | h
  · exact hK m h
  · rw [h]; exact hm

/-- the edit `opSort` makes at the located node -/
def sortEditIx : Hdr → Items → Hdr × Items := fun h0 k0 => (h0, sortNode S V (k0.size + 2) h0 k0)

theorem sortEditIx_good {vOk : Nat} (hW : NameWFv S vOk) : GoodEdit S (sortEditIx S V) :=
  fun h k => ⟨rfl, sortNode_good S V hW _ h k⟩

theorem opSort_eq (w : World) (x : Nat) :
    opSort S V w x = match locate w x with
      | none => (w, .ok "")
      | some (k, _) => (setModel w k ((w.models[k]!).setRoot ((w.models[k]!).rootItems.modify x (sortEditIx S V))), .ok "") := rfl

/-- **C04 for `sort`**: the index invariant survives (and so does the extra hypothesis) -/
theorem opSort_winv' (hH : IdxHyp S V vOk) (w : World) (x : Nat) (hw : WInv S vOk w) (hK : WSibsKnown S w) :
    WInv S vOk (opSort S V w x).1 ∧ WSibsKnown S (opSort S V w x).1 := by
  rw [opSort_eq]
  split
  · exact ⟨hw, hK⟩
  · rename_i k c hloc
    obtain ⟨m, _, hm2, hmem, hc⟩ := locate_chain w x k c hloc
    rw [hm2]
    obtain ⟨a, b, c', d⟩ := setRoot_modify_fields m x (sortEditIx S V)
    obtain ⟨h1, h2⟩ := minv_goodEdit S vOk w.nextId m _ x (sortEditIx S V) (sortEditIx_good S V hH.wf) (hw m hmem) (hK m hmem)
      (chain_mem_ids x _ c hc) (rootItems_setRoot_modify m x _) a d c'
    exact ⟨winv_update S vOk w _ k _ hw (Nat.le_refl _) h1 rfl, wsibsKnown_update S w _ k _ hK h2 rfl⟩

theorem opSort_winv (hH : IdxHyp S V vOk) (w : World) (x : Nat) (hw : WInv S vOk w) (hK : WSibsKnown S w) :
    WInv S vOk (opSort S V w x).1 := (opSort_winv' S V vOk hH w x hw hK).1

theorem opSort_wsibsKnown (hH : IdxHyp S V vOk) (w : World) (x : Nat) (hw : WInv S vOk w) (hK : WSibsKnown S w) :
    WSibsKnown S (opSort S V w x).1 := (opSort_winv' S V vOk hH w x hw hK).2

/-- **C04 + C05 for `sort`**: the combined invariant survives -/
theorem opSort_cinv (hH : IdxHyp S V vOk) (w : World) (x : Nat) (h : CInv S vOk w) (hK : WSibsKnown S w) :
    CInv S vOk (opSort S V w x).1 := by
  refine ⟨opSort_winv S V vOk hH w x h.1 hK, ?_⟩
  obtain ⟨hw, hr, hl, hT⟩ := h
  rw [opSort_eq]
  split
  · exact ⟨hr, hl, hT⟩
  · rename_i k c hloc
    obtain ⟨m, _, hm2, hmem, hc⟩ := locate_chain w x k c hloc
    rw [hm2]
    obtain ⟨_, b, _, _⟩ := setRoot_modify_fields m x (sortEditIx S V)
    have hroot := rootItems_setRoot_modify m x (sortEditIx S V)
    have hm := hw m hmem
    obtain ⟨_, _, hrefs, _, _, hleaf⟩ := goodEdit_tree S x (sortEditIx S V) (sortEditIx_good S V hH.wf) m.rootItems hm.sn
      (hK m hmem) hm.ids (chain_mem_ids x _ c hc)
    refine ⟨?_, ?_, ?_⟩
    · refine wrinv_update S w _ k _ hr ?_ rfl
      rw [b, hroot]
      exact refsExact_perm S m.refs _ _ (hr m hmem) hrefs
    · refine wrleaf_update S w _ k _ hl ?_ rfl
      rw [hroot]; exact hleaf (hl m hmem)
    · refine wrootTy_update S w _ k _ hT ?_ rfl
      rw [goodEdit_root S m _ x (sortEditIx S V) (sortEditIx_good S V hH.wf) hroot]
      exact hT m hmem

/-- `sort` does not touch the two maps (nor the number of models): every path lookup and every referrer list answers as
before -/
theorem opSort_maps (w : World) (x : Nat) :
    (opSort S V w x).1.models.length = w.models.length ∧
    ∀ (j : Nat) (m m' : Model), w.models[j]? = some m → (opSort S V w x).1.models[j]? = some m' →
      m'.index = m.index ∧ m'.refs = m.refs := by
  rw [opSort_eq]
  split
  · refine ⟨rfl, fun j m m' h1 h2 => ?_⟩
    rw [h1] at h2
    cases h2; exact ⟨rfl, rfl⟩
  · rename_i k c hloc
    obtain ⟨m0, hm1, hm2, _, _⟩ := locate_chain w x k c hloc
    rw [hm2]
    refine ⟨by simp [setModel], fun j m m' h1 h2 => ?_⟩
    simp only [setModel] at h2
    by_cases hj : k = j
    · subst hj
      rw [hm1] at h1
      cases h1
      rw [List.getElem?_set_self (by exact (List.getElem?_eq_some_iff.mp hm1).1)] at h2
      cases h2
      exact ⟨(setRoot_modify_fields _ x _).1, (setRoot_modify_fields _ x _).2.1⟩
    · rw [List.getElem?_set_ne hj, h1] at h2
      cases h2; exact ⟨rfl, rfl⟩

/-- **C14, "keeps all path and reference lookups intact"**: after `sort`, every path lookup and every referrer list of
every model gives the answer it gave before, AND these answers are still exact for the sorted tree: a path is found iff it is
the path of that named element of the NEW tree, and the referrer list of a path holds exactly the reference elements of the
NEW tree whose text is that path, each once. -/
theorem opSort_lookups (hH : IdxHyp S V vOk) (w : World) (x : Nat) (h : CInv S vOk w) (hK : WSibsKnown S w)
    (j : Nat) (m m' : Model) (hm : w.models[j]? = some m) (hm' : (opSort S V w x).1.models[j]? = some m') :
    (∀ p, m'.lookup p = m.lookup p ∧ refsGet m'.refs p = refsGet m.refs p) ∧
    (∀ q i, m'.lookup q = some i ↔ (q, i) ∈ entries S m'.rootItems []) ∧
    (∀ p id, (refsGet m'.refs p).count id = (refEntries S m'.rootItems).count (p, id)) := by
  obtain ⟨hi, hr⟩ := (opSort_maps S V w x).2 j m m' hm hm'
  obtain ⟨hw', hr', _, _⟩ := opSort_cinv S V vOk hH w x h hK
  have hmem' := List.mem_of_getElem? hm'
  refine ⟨fun p => ⟨by simp only [Model.lookup, hi], by rw [hr]⟩, (hw' m' hmem').exact, (hr' m' hmem').2.2⟩

end

/-! ### the simpler, stronger form `KidsKnown` is kept by `sort` unconditionally -/

section
variable (S : Spec) (V : Env)

/-- the child elements of `k` are known to the all-version lookup of the type of `h` -/
def kidsKnownAt (h : Hdr) (k : Items) : Prop := ∀ c ∈ k.childElems, S.findSub h.ety.typ c.1.name 0xFFFFFFFF ≠ none

theorem kidsKnown_iff (its : Items) :
    KidsKnown S its ↔ ∀ c ∈ its.childElems, kidsKnownAt S c.1 c.2 ∧ KidsKnown S c.2 := by
  induction its with
  | nil => simp [KidsKnown, Items.childElems]
  | text c r ih => simpa only [KidsKnown, Items.childElems] using ih
  | elem h k r _ ih => simp only [KidsKnown, kidsKnownAt, Items.childElems, List.forall_mem_cons, ih, and_assoc]

theorem kidsKnown_of_occ (its : Items) (hK : KidsKnown S its) (h : Hdr) (k : Items) (ho : Occ h k its) :
    kidsKnownAt S h k ∧ KidsKnown S k := by
  induction its with
  | nil => exact ho.elim
  | text _ r ih => exact ih hK ho
  | elem hd kk r ihk ihr =>
    rcases ho with ⟨rfl, rfl⟩ | ho | ho
    · exact ⟨hK.1, hK.2.1⟩
    · exact ihk hK.2.1 ho
    · exact ihr hK.2.2 ho

theorem sortNode_kidsKnown (fuel : Nat) : ∀ (h : Hdr) (k : Items), kidsKnownAt S h k → KidsKnown S k →
    kidsKnownAt S h (sortNode S V fuel h k) ∧ KidsKnown S (sortNode S V fuel h k) := by
  induction fuel with
  | zero => intro h k h1 h2; rw [sortNode]; exact ⟨h1, h2⟩
  | succ fuel ih =>
    intro h k h1 h2
    have hmk : kidsKnownAt S h (mapKids (sortNode S V fuel) k) ∧ KidsKnown S (mapKids (sortNode S V fuel) k) := by
      refine ⟨?_, ?_⟩
      · intro c' hc'
        rw [childElems_mapKids] at hc'
        obtain ⟨c0, hc0, rfl⟩ := List.mem_map.mp hc'
        exact h1 c0 hc0
      · rw [kidsKnown_iff, childElems_mapKids]
        intro c' hc'
        obtain ⟨c0, hc0, rfl⟩ := List.mem_map.mp hc'
        have := (kidsKnown_iff S k).mp h2 c0 hc0
        exact ih c0.1 c0.2 this.1 this.2
    rcases sortNode_succIx S V fuel h k with e | ⟨_, e⟩ | e
    · rw [e]; exact ⟨h1, h2⟩
    · rw [e]
      refine ⟨?_, ?_⟩
      · intro c hc
        rw [childElems_ofListIx, List.mem_mergeSort] at hc
        exact hmk.1 c hc
      · rw [kidsKnown_iff, childElems_ofListIx]
        intro c hc
        rw [List.mem_mergeSort] at hc
        exact (kidsKnown_iff S _).mp hmk.2 c hc
    · rw [e]; exact hmk

theorem kidsKnownAt_modify (h : Hdr) (t : Nat) (f : Hdr → Items → Hdr × Items) (k : Items)
    (hf : ∀ h0 k0, Occ h0 k0 k → h0.id = t → (f h0 k0).1.name = h0.name) (hk : kidsKnownAt S h k) :
    kidsKnownAt S h (k.modify t f) := by
  intro c hc
  have hn : c.1.name ∈ (k.modify t f).childElems.map (·.1.name) := List.mem_map.mpr ⟨c, hc, rfl⟩
  rw [childNames_modify t f k hf] at hn
  obtain ⟨c0, hc0, he⟩ := List.mem_map.mp hn
  rw [← he]
  exact hk c0 hc0

/-- an edit of node `t` that keeps name and type of `t` and the property at `t` and in its new content -/
theorem kidsKnown_modify (t : Nat) (f : Hdr → Items → Hdr × Items) (its : Items)
    (hf : ∀ h k, Occ h k its → h.id = t → (f h k).1.name = h.name ∧
      (kidsKnownAt S h k → KidsKnown S k → kidsKnownAt S (f h k).1 (f h k).2 ∧ KidsKnown S (f h k).2))
    (hK : KidsKnown S its) : KidsKnown S (its.modify t f) := by
  induction its with
  | nil => trivial
  | text c r ih => simp only [Items.modify, KidsKnown] at *; exact ih hf hK
  | elem hd k r ihk ihr =>
    have hfk := fun h0 k0 ho => hf h0 k0 (Or.inr (Or.inl ho))
    have hfr := fun h0 k0 ho => hf h0 k0 (Or.inr (Or.inr ho))
    simp only [Items.modify]
    split
    · rename_i heq
      obtain ⟨a, b⟩ := (hf hd k (Or.inl ⟨rfl, rfl⟩) heq).2 hK.1 hK.2.1
      exact ⟨a, b, ihr hfr hK.2.2⟩
    · exact ⟨kidsKnownAt_modify S hd t f k (fun h0 k0 ho e => (hfk h0 k0 ho e).1) hK.1, ihk hfk hK.2.1, ihr hfr hK.2.2⟩

/-- `KidsKnown` in every model -/
def WKidsKnown (w : World) : Prop := ∀ m ∈ w.models, KidsKnown S m.rootItems

theorem wsibsKnown_of_wkidsKnown (w : World) (h : WKidsKnown S w) : WSibsKnown S w :=
  fun m hm => snSibsKnown_of_kidsKnown S _ (h m hm)

theorem wkidsKnown_update (w w' : World) (k : Nat) (m' : Model) (hK : WKidsKnown S w) (hm : KidsKnown S m'.rootItems)
    (hmodels : w'.models = w.models.set k m') : WKidsKnown S w' := by
  intro m hmem
  rw [hmodels] at hmem
  rcases List.mem_or_eq_of_mem_set hmem with h | h
  · exact hK m h
  · rw [h]; exact hm

/-- `sort` keeps `KidsKnown` (no hypothesis needed: the set of child elements of every element stays) -/
theorem opSort_wkidsKnown (w : World) (x : Nat) (hK : WKidsKnown S w) : WKidsKnown S (opSort S V w x).1 := by
  rw [opSort_eq]
  split
  · exact hK
  · rename_i k c hloc
    obtain ⟨m, _, hm2, hmem, _⟩ := locate_chain w x k c hloc
    rw [hm2]
    refine wkidsKnown_update S w _ k _ hK ?_ rfl
    rw [rootItems_setRoot_modify]
    refine kidsKnown_modify S x (sortEditIx S V) _ (fun h k0 _ _ => ⟨rfl, fun a b => ?_⟩) (hK m hmem)
    exact sortNode_kidsKnown S V _ h k0 a b

end

/-! ### Counterexample: without `SnSibsKnown` the sort moves an unknown sibling in front of the SHORT-NAME

`cexSpec` (`Lemmas/RangeSn.lean`, it satisfies `NameWF`): type 0 is a named SEQUENCE.  The element 0 of type 0 holds its
SHORT-NAME "a" and a child called 555, a name type 0 does not list: the sort key of that child is `[]`, and
`cmpIdx [0] [] = .gt`.  The tree obeys the SHORT-NAME discipline; after the sort the element has lost its item name, so its
index entry `("/a", 0)` is no longer an entry of the tree. -/

def cexEnv : Env where
  validate := fun _ _ => true
  enumText := fun _ => []
  enumOf := fun _ => none
  elemText := fun _ => []
  attrText := fun _ => []
  nmIndex := 900
  nmDefinitionRef := 901
  latest := 1
  nmDest := 998

/-- the SHORT-NAME (definition 1, type 5) -/
def cexSn : Hdr := { cexHdr 1 999 5 with ety := ⟨1, 5⟩ }

def cexKids : Items := .elem cexSn (.text (.str [97]) .nil) (.elem (cexHdr 2 555 5) .nil .nil)

theorem cex_sort : sortNode cexSpec cexEnv 1 (cexHdr 0 100 0) cexKids =
    .elem (cexHdr 2 555 5) .nil (.elem cexSn (.text (.str [97]) .nil) .nil) := by
  rw [sortNode]
  have hm : cexSpec.mode (cexHdr 0 100 0).ety.typ = .sequence := by decide
  rw [hm]
  simp only
  have hc : (!cexSpec.defOrdered (cexHdr 0 100 0).ety.defId && decide (cexKids.length > 1)) = true := by decide
  rw [if_pos hc]
  simp only [cexKids, Items.childElems, List.map_cons, List.map_nil, sortNode]
  rw [List.mergeSort]
  simp only [List.MergeSort.Internal.splitInTwo_fst, List.MergeSort.Internal.splitInTwo_snd]
  simp only [List.length_cons, List.length_nil, List.take_succ_cons, List.take_zero, List.drop_succ_cons, List.drop_zero,
    List.mergeSort_singleton]
  have hle : childLe cexSpec cexEnv (cexHdr 0 100 0).ety.typ
      ((Items.elem cexSn (Items.text (CDv.str [97]) Items.nil) (Items.elem (cexHdr 2 555 5) Items.nil Items.nil)).size + 2)
      (cexSn, Items.text (CDv.str [97]) Items.nil) (cexHdr 2 555 5, Items.nil) = false := by
    unfold childLe
    have h1 : cexSpec.findSub (cexHdr 0 100 0).ety.typ cexSn.name 0xFFFFFFFF = some (⟨1, 5⟩, [0]) := by decide
    have h2 : cexSpec.findSub (cexHdr 0 100 0).ety.typ (cexHdr 2 555 5).name 0xFFFFFFFF = none := by decide
    simp only [h1, h2]
    rfl
  rw [List.cons_merge_cons_neg _ _ _ (by rw [hle]; simp)]
  simp [Items.ofList]

/-- the tree obeys the SHORT-NAME discipline … -/
theorem cex_kidsOk : kidsOk cexSpec (cexHdr 0 100 0) cexKids ∧ SnOk cexSpec cexKids := by
  refine ⟨⟨fun _ => ⟨⟨by decide, by decide, by decide, by decide⟩, by decide, by decide, ⟨.string false none, rfl, rfl⟩,
    [97], rfl, by decide⟩, by decide, trivial⟩, ⟨trivial, trivial, ⟨trivial, trivial, trivial⟩⟩⟩

/-- … only the extra hypothesis fails -/
theorem cex_not_known : ¬ sibsKnown cexSpec (cexHdr 0 100 0) cexKids := by
  intro h
  exact h (by decide) (cexHdr 2 555 5, .nil) (by simp [cexKids, Items.childElems]) (by decide)

theorem cex_itemName : itemName cexSpec (cexHdr 0 100 0) cexKids = some [97] ∧
    itemName cexSpec (cexHdr 0 100 0) (sortNode cexSpec cexEnv 1 (cexHdr 0 100 0) cexKids) = none := by
  rw [cex_sort]; exact ⟨by decide, by decide⟩

theorem cex_entries : entries cexSpec (.elem (cexHdr 0 100 0) cexKids .nil) [] = [([47, 97], 0)] ∧
    entries cexSpec (.elem (cexHdr 0 100 0) (sortNode cexSpec cexEnv 1 (cexHdr 0 100 0) cexKids) .nil) [] = [] := by
  rw [cex_sort]; exact ⟨by decide, by decide⟩

/-- the key lemma WITHOUT the extra hypothesis is false -/
theorem itemName_sortNode_needs_sibsKnown :
    ¬ ∀ (S : Spec) (V : Env) (_ : NameWF S) (fuel : Nat) (h : Hdr) (k : Items), kidsOk S h k → SnOk S k →
      itemName S h (sortNode S V fuel h k) = itemName S h k := by
  intro hall
  have := hall cexSpec cexEnv cexSpec_nameWF 1 (cexHdr 0 100 0) cexKids cex_kidsOk.1 cex_kidsOk.2
  rw [cex_itemName.1, cex_itemName.2] at this
  cases this

end AV.W
