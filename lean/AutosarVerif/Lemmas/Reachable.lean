/-
C03 / C10, invariant by induction over operations: in EVERY state reachable from the empty world by ANY history of the
core operations (`Model/Step.lean`), in every model the parent fields agree with the tree structure and every local file set
lies within the effective file set of the parent.
-/
import AutosarVerif.Model.Step
import AutosarVerif.Lemmas.WfOps
import AutosarVerif.Lemmas.FilesOps2

namespace AV.W

def Inv (w : World) : Prop := w.wf ∧ w.filesOk

theorem inv_empty : Inv emptyWorld := by
  constructor
  · intro k m hk; simp [emptyWorld] at hk
  · intro m hm; simp [emptyWorld] at hm

section
variable (S : Spec) (V : Env) (rootAttrs : List (Nat × CDv))

theorem newModel_wfM : (newModel S rootAttrs).wfM := by
  show Items.wf _ Items.nil
  trivial

theorem newModel_filesOk : (newModel S rootAttrs).filesOk := by
  show FilesOk _ Items.nil
  trivial

/-- every core operation keeps the invariant -/
theorem applyOp_inv (w : World) (op : Op) (h : Inv w) : Inv (applyOp S V rootAttrs w op).1 := by
  obtain ⟨hw, hf⟩ := h
  cases op with
  | newModel =>
    constructor
    · rw [World.wf_iff] at hw ⊢
      intro m hm
      rcases List.mem_append.mp hm with h1 | h1
      · exact hw m h1
      · have : m = newModel S rootAttrs := by simpa using h1
        rw [this]; exact newModel_wfM S rootAttrs
    · intro m hm
      rcases List.mem_append.mp hm with h1 | h1
      · exact hf m h1
      · have : m = newModel S rootAttrs := by simpa using h1
        rw [this]; exact newModel_filesOk S rootAttrs
  | mkFile k name ver valid => exact ⟨opMkFile_wf S w k name ver valid hw, opMkFile_ok S w k name ver valid hf⟩
  | create p name pos => exact ⟨opCreate_wf S V w p name pos hw, opCreate_ok S V w p name pos hf⟩
  | named p name item pos => exact ⟨opNamed_wf S V w p name item pos hw, opNamed_ok S V w p name item pos hf⟩
  | remove p c => exact ⟨opRemove_wf S w p c hw, opRemove_ok S w p c hf⟩
  | cdata x v => exact ⟨opCData_wf S V w x v hw, opCData_ok S V w x v hf⟩
  | rmcdata x => exact ⟨opRmCData_wf S w x hw, opRmCData_ok S w x hf⟩
  | attr x a v => exact ⟨opAttr_wf S V w x a v hw, opAttr_ok S V w x a v hf⟩
  | attrs x a s => exact ⟨opAttrS_wf S V w x a s hw, opAttrS_ok S V w x a s hf⟩
  | rmattr x a => exact ⟨opRmAttr_wf S w x a hw, opRmAttr_ok S w x a hf⟩
  | comment x cm => exact ⟨opComment_wf w x cm hw, opComment_ok w x cm hf⟩
  | instext x pos s => exact ⟨opInsText_wf S w x pos s hw, opInsText_ok S w x pos s hf⟩
  | rmtext x pos => exact ⟨opRmText_wf S w x pos hw, opRmText_ok S w x pos hf⟩
  | addfile x f => exact ⟨opAddFile_wf S w x f hw, opAddFile_ok S w x f hf⟩
  | rmfromfile x f => exact ⟨opRmFromFile_wf S w x f hw, opRmFromFile_ok S w x f hf⟩
  | rmfile k f => exact ⟨opRmFile_wf S w k f hw, opRmFile_ok S w k f hf⟩
  | setver f ver => exact ⟨opSetVersion_wf S w f ver hw, opSetVersion_ok S w f ver hf⟩

/-- **every reachable state**: whatever the history of core operations, the invariant holds -/
theorem run_inv (ops : List Op) : Inv (run S V rootAttrs ops) := by
  unfold run
  suffices h : ∀ (w : World), Inv w → Inv (ops.foldl (fun w op => (applyOp S V rootAttrs w op).1) w) from h _ inv_empty
  induction ops with
  | nil => intro w hw; exact hw
  | cons op rest ih =>
    intro w hw
    simp only [List.foldl_cons]
    exact ih _ (applyOp_inv S V rootAttrs w op hw)

end
end AV.W
