/-
C04: the two excluded points of the history invariant are genuine (negation witnesses), and its hypotheses are met by a
concrete specification and a concrete non-trivial history (non-vacuity).

`nameSpec`:  R (type 0, sequence): P (def 1), M (def 4);   P (type 1, sequence): SHORT-NAME (def 2, version bit 2 only), Q (def 3);
SHORT-NAME (type 2, characters, pattern 8);  Q (type 3, empty);  M (type 4, MIXED): SHORT-NAME (def 2, version 1 only).
Versions are the bits 1, 2, 4.  P is named in version 2 only (and exists un-named in 1 and 4), M is a named type with MIXED
content in version 1 only.  The invariant is claimed for the versions `vOk = 6` (bits 2 and 4).
-/
import AutosarVerif.Lemmas.IndexReach
import AutosarVerif.Model.ToyEnv

namespace AV.W
open AV

def nameSpec : Spec where
  nTypes := 5
  nDefs := 5
  nSubs := 5
  nAttrs := 0
  nVer := 5
  nCData := 1
  nRefItems := 0
  subStart := fun t => if t = 0 then 0 else if t = 1 then 2 else if t = 4 then 4 else 5
  subEnd := fun t => if t = 0 then 2 else if t = 1 then 4 else 5
  subVer := fun t => if t = 0 then 0 else if t = 1 then 2 else 4
  attrStart := fun _ => 0
  attrEnd := fun _ => 0
  attrVer := fun _ => 0
  cdataOf := fun t => if t = 2 then some 0 else none
  mode := fun t => if t = 2 then .characters else if t = 4 then .mixed else .sequence
  refStart := fun _ => 0
  refEnd := fun _ => 0
  subEntry := fun i => if i = 0 then .elem 1 else if i = 1 then .elem 4 else if i = 2 then .elem 2 else if i = 3 then .elem 3 else .elem 2
  verInfo := fun i => if i = 2 then 2 else if i = 4 then 1 else 7
  attrName := fun _ => 0
  attrCData := fun _ => 0
  attrRequired := fun _ => false
  refItem := fun _ => 0
  defName := fun d => if d = 2 then 999 else 100 + d
  defType := fun d => d
  defMult := fun d => if d = 1 then .any else .zeroOrOne
  defOrdered := fun _ => false
  defSplit := fun d => if d = 0 then 1 else 0
  cspec := fun _ => .pattern 8 none
  refTypeIdx := 99
  rootDef := 0
  depth := 1
  nmShortName := 999
  atDest := 998

/-- the value layer: names must not contain '/' -/
def nameEnv : Env := { toyEnv with validate := fun _ s => !s.contains 47, latest := 4 }

theorem nameSpec_named (t : Nat) (h : nameSpec.isNamed t = true) : t = 1 ∨ t = 4 := by
  by_cases h1 : t = 1
  · exact Or.inl h1
  · by_cases h4 : t = 4
    · exact Or.inr h4
    · exfalso
      by_cases h0 : t = 0
      · subst h0; revert h; decide
      · have : nameSpec.subCount t = 0 := by
          simp only [Spec.subCount, nameSpec, h0, h1, h4, if_false]
        simp [Spec.isNamed, Spec.shortNameMask, this] at h

/-- the specification meets the hypotheses of the invariant for the versions `vOk = 6` -/
theorem nameSpec_hyp : IdxHyp nameSpec nameEnv 6 where
  wf := {
    named_seq := by
      intro t h hm
      rcases nameSpec_named t h with rfl | rfl
      · rfl
      · exact absurd (by decide) hm
    sn_mask := by
      intro t h
      rcases nameSpec_named t h with rfl | rfl <;> decide
    sn_mult := by
      intro t d h hd
      have : d = 2 := by
        rcases nameSpec_named t h with rfl | rfl
        · have : nameSpec.subAt 1 0 = .elem 2 := by decide
          rw [this] at hd; injection hd with e; exact e.symm
        · have : nameSpec.subAt 4 0 = .elem 2 := by decide
          rw [this] at hd; injection hd with e; exact e.symm
      subst this
      decide
    sn_type := by
      intro t d h hd
      rcases nameSpec_named t h with rfl | rfl
      · have : d = 2 := by
          have : nameSpec.subAt 1 0 = .elem 2 := by decide
          rw [this] at hd; injection hd with e; exact e.symm
        subst this
        exact ⟨by decide, by decide, .pattern 8 none, rfl, rfl⟩
      · have : d = 2 := by
          have : nameSpec.subAt 4 0 = .elem 2 := by decide
          rw [this] at hd; injection hd with e; exact e.symm
        subst this
        exact ⟨by decide, by decide, .pattern 8 none, rfl, rfl⟩ }
  only := by
    intro t nm e m idx h hmem hnm
    rcases nameSpec_named t h with rfl | rfl
    · have hl : nameSpec.listSub 1 = [(999, ⟨2, 2⟩, 2, [0]), (103, ⟨3, 3⟩, 7, [1])] := by decide
      rw [hl] at hmem
      simp only [List.mem_cons, List.mem_nil_iff, or_false, Prod.mk.injEq] at hmem
      rcases hmem with ⟨_, _, _, h4⟩ | ⟨h1, _, _, _⟩
      · exact h4
      · subst h1; exact absurd hnm (by decide)
    · have hl : nameSpec.listSub 4 = [(999, ⟨2, 2⟩, 1, [0])] := by decide
      rw [hl] at hmem
      simp only [List.mem_cons, List.mem_nil_iff, or_false, Prod.mk.injEq] at hmem
      exact hmem.2.2.2
  noSlash := by
    intro t d sp s ver _ _ hsp hcv
    have : sp = .pattern 8 none := by
      simp only [Spec.chardataSpec, nameSpec] at hsp
      split at hsp <;> simp at hsp
      exact hsp.symm
    subst this
    intro h47
    simp only [checkValue, nameEnv, Bool.true_and] at hcv
    have : s.contains 47 = true := List.contains_iff_mem.mpr h47
    rw [this] at hcv
    cases hcv
  latest := by decide
  rootName := by decide


/-! ### negation witnesses: the two guards of `OpOk` cannot be dropped -/

/-- history 1: P is created in a file of version 4 (where it has no SHORT-NAME), the file is relabelled 2, a SHORT-NAME is
created with `create` and given the text "x" -/
def witOps1 : List Op :=
  [.newModel, .mkFile 0 [102] 4 true, .create 0 101 none, .setver 0 2, .create 1 999 none, .cdata 2 (.str [120])]

/-- every operation of history 1 except the creation of the SHORT-NAME passes the guard -/
example : witOps1.map (fun op => decide (OpOk nameSpec 6 op)) = [true, true, true, true, false, true] := by decide

/-- after history 1 the element e1 has the path "/x" (`entries`), the index is empty: the invariant is false -/
theorem witness_short_name_added_later :
    ((run nameSpec nameEnv [] witOps1).models.map fun m => (m.index, entries nameSpec m.rootItems [])) = [([], [([47, 120], 1)])] := by
  decide

theorem not_winv_1 : ¬ WInv nameSpec 6 (run nameSpec nameEnv [] witOps1) := by
  intro h
  have hm : ∃ m ∈ (run nameSpec nameEnv [] witOps1).models, (m.index, entries nameSpec m.rootItems []) = ([], [([47, 120], 1)]) := by
    have := witness_short_name_added_later
    cases hms : (run nameSpec nameEnv [] witOps1).models with
    | nil => rw [hms] at this; cases this
    | cons m rest =>
      rw [hms] at this
      simp only [List.map_cons, List.cons.injEq] at this
      exact ⟨m, List.mem_cons_self, this.1⟩
  obtain ⟨m, hmem, he⟩ := hm
  have h1 : m.index = [] := congrArg Prod.fst he
  have h2 : entries nameSpec m.rootItems [] = [([47, 120], 1)] := congrArg Prod.snd he
  have := ((h m hmem).exact [47, 120] 1).mpr (by rw [h2]; exact List.mem_cons_self)
  rw [h1] at this
  cases this

/-- history 2: a file of version 1 (outside `vOk`), the MIXED named element M "a", then a text item in front of its SHORT-NAME -/
def witOps2 : List Op :=
  [.newModel, .mkFile 0 [102] 1 true, .named 0 104 [97] none, .instext 1 0 [116]]

example : witOps2.map (fun op => decide (OpOk nameSpec 6 op)) = [true, false, true, true] := by decide

/-- after history 2 the index still lists "/a" for e1, which no longer has an item name -/
theorem witness_content_before_short_name :
    ((run nameSpec nameEnv [] witOps2).models.map fun m => (m.index, entries nameSpec m.rootItems [])) = [([([47, 97], 1)], [])] := by
  decide

/-! ### non-vacuity: a guarded history with a non-trivial result -/

/-- a file of version 2; the package P "a" with a Q inside; P renamed "b" through its SHORT-NAME; a second P "c"; Q removed -/
def goodOps : List Op :=
  [.newModel, .mkFile 0 [102] 2 true, .named 0 101 [97] none, .create 1 103 none, .cdata 2 (.str [98]), .named 0 101 [99] none,
   .remove 1 3]

theorem goodOps_ok : ∀ op ∈ goodOps, OpOk nameSpec 6 op := by decide

/-- the invariant holds after it (by the theorem) … -/
theorem goodOps_winv : WInv nameSpec 6 (run nameSpec nameEnv [] goodOps) := run_winv nameSpec nameEnv 6 [] nameSpec_hyp goodOps goodOps_ok

/-- … and is not vacuous there: two entries, found under their current paths "/b" and "/c" -/
example : ((run nameSpec nameEnv [] goodOps).models.map fun m => (m.index, entries nameSpec m.rootItems [])) =
    [([([47, 98], 1), ([47, 99], 4)], [([47, 98], 1), ([47, 99], 4)])] := by decide

end AV.W
