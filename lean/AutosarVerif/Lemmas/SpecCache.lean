import AutosarVerif.Model.SpecCache
namespace AV

theorem rd_tab {α : Type} (n : Nat) (f : Nat → α) : rd (tab n f) f = f := by
  funext i
  simp only [rd, tab]
  by_cases h : i < (Array.ofFn (n := n) fun i => f i.val).size
  · simp [h, Array.getElem_ofFn]
  · simp [h]

/-- the tabulated specification is the specification -/
theorem SpecArrays.toSpec_ofSpec (S : Spec) : (SpecArrays.ofSpec S).toSpec S = S := by
  cases S
  simp [SpecArrays.toSpec, SpecArrays.ofSpec, rd_tab]

theorem Hash.fromBytesA_eq (P : Hash.Params) (T : Hash.NameTable) (s : Bytes) :
    Hash.fromBytesA P T T.names.toArray s = Hash.fromBytes P T s := by
  simp [Hash.fromBytesA, Hash.fromBytes]

end AV
