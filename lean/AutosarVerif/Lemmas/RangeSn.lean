/-
"Nothing can be inserted in front of a SHORT-NAME": in an element of a named type whose first content item is its
SHORT-NAME, every insert position accepted by `insertRange` (= `calc_element_insert_range`) is ≥ 1, and no accepted
position exceeds the number of content items.
-/
import AutosarVerif.Lemmas.IndexDefs
import AutosarVerif.Lemmas.Spec

namespace AV.W
open Items

/-- The fact about the tables that `NameWF` lacks: in a type that has a SHORT-NAME as sub-entry 0, no OTHER listed
sub-element (at a later position or inside a group, for whatever versions) is called SHORT-NAME.  Decidable by a scan over
the sub-element listing of every named type. -/
def SnOnlyFirst (S : Spec) : Prop :=
  ∀ t nm e m idx, S.isNamed t = true → (nm, e, m, idx) ∈ S.listSub t → nm = S.nmShortName → idx = [0]

/-- index paths returned by the lookup are never empty -/
theorem findSubT_idx_ne_nil (S : Spec) (name vmask fuel t : Nat) (e : ETy) (idx : List Nat)
    (h : S.findSubT name vmask fuel t = some (e, idx)) : idx ≠ [] := by
  obtain ⟨m, hm, _⟩ := Spec.findSubT_sound S name vmask fuel t e idx h
  exact Spec.listSubT_idx_ne_nil S fuel t name e m idx hm

/-- a named type: sub-entry 0 is the SHORT-NAME element definition -/
theorem isNamed_sub0 (S : Spec) (t : Nat) (h : S.isNamed t = true) :
    0 < S.subCount t ∧ ∃ d, S.subAt t 0 = .elem d ∧ S.defName d = S.nmShortName := by
  unfold Spec.isNamed Spec.shortNameMask at h
  split at h
  · simp at h
  · rename_i hc
    refine ⟨Nat.pos_of_ne_zero hc, ?_⟩
    split at h
    · rename_i d hd
      split at h
      · rename_i hn
        exact ⟨d, hd, hn⟩
      · simp at h
    · simp at h

/-- the mask of sub-entry 0 of a type named in `ver` contains `ver` -/
theorem isNamedIn_mask (S : Spec) (t ver : Nat) (hin : S.isNamedIn t ver = true) :
    S.isNamed t = true ∧ (ver &&& S.subMask t 0) ≠ 0 := by
  unfold Spec.isNamedIn at hin
  unfold Spec.isNamed
  cases hm : S.shortNameMask t with
  | none => rw [hm] at hin; simp at hin
  | some m =>
    rw [hm] at hin
    refine ⟨rfl, ?_⟩
    have hmm : m = S.subMask t 0 := by
      unfold Spec.shortNameMask at hm
      split at hm
      · simp at hm
      · split at hm
        · split at hm
          · simp only [Option.some.injEq] at hm; exact hm.symm
          · simp at hm
        · simp at hm
    subst hmm
    simp only [bne_iff_ne, ne_eq] at hin
    rw [Nat.and_comm]
    exact hin

theorem findSome?_range_zero {α : Type} (f : Nat → Option α) (n : Nat) (x : α) (hn : 0 < n) (h0 : f 0 = some x) :
    (List.range n).findSome? f = some x := by
  cases n with
  | zero => omega
  | succ k =>
    rw [List.range_succ_eq_map, List.findSome?_cons, h0]

/-- if sub-entry 0 of `t` is an element definition called `name` whose mask meets `vmask`, the lookup of `name` answers
with the index path [0] -/
theorem findSub_at0 (S : Spec) (t name vmask d : Nat) (hc : 0 < S.subCount t) (hd : S.subAt t 0 = .elem d)
    (hnm : S.defName d = name) (hv : (vmask &&& S.subMask t 0) ≠ 0) :
    S.findSub t name vmask = some (S.ety d, [0]) := by
  unfold Spec.findSub
  simp only [Spec.findSubT]
  apply findSome?_range_zero _ _ _ hc
  rw [hd]
  simp only
  rw [if_pos ⟨hnm, hv⟩]

/-- in a type named in version `ver`, looking up SHORT-NAME finds sub-entry 0 -/
theorem findSub_shortName (S : Spec) (t ver : Nat) (hin : S.isNamedIn t ver = true) :
    ∃ d, S.subAt t 0 = .elem d ∧ S.defName d = S.nmShortName ∧
      S.findSub t S.nmShortName ver = some (S.ety d, [0]) := by
  obtain ⟨hn, hv⟩ := isNamedIn_mask S t ver hin
  obtain ⟨hc, d, hd, hnm⟩ := isNamed_sub0 S t hn
  exact ⟨d, hd, hnm, findSub_at0 S t S.nmShortName ver d hc hd hnm hv⟩

/-- with `SnOnlyFirst`, whatever the lookup of SHORT-NAME finds in a named type has index path [0] -/
theorem findSub_shortName_idx (S : Spec) (hU : SnOnlyFirst S) (t vmask : Nat) (e : ETy) (idx : List Nat)
    (hn : S.isNamed t = true) (h : S.findSub t S.nmShortName vmask = some (e, idx)) : idx = [0] := by
  obtain ⟨m, hm, _⟩ := Spec.findSubT_sound S S.nmShortName vmask (S.depth + 1) t e idx h
  exact hU t S.nmShortName e m idx hn hm rfl

/-- the lookup used for EXISTING children finds the SHORT-NAME of a named type at index path [0], in every version
(needs `SnOnlyFirst`: see the counterexample in the report / below) -/
theorem findSubOr_shortName (S : Spec) {vOk : Nat} (hS : NameWFv S vOk) (hU : SnOnlyFirst S) (t ver : Nat) (hn : S.isNamed t = true) :
    ∃ e, S.findSubOr t S.nmShortName ver = some (e, [0]) := by
  unfold Spec.findSubOr
  cases hf : S.findSub t S.nmShortName ver with
  | some x =>
    obtain ⟨e, idx⟩ := x
    have := findSub_shortName_idx S hU t ver e idx hn hf
    subst this
    exact ⟨e, rfl⟩
  | none =>
    obtain ⟨hc, d, hd, hnm⟩ := isNamed_sub0 S t hn
    exact ⟨S.ety d, findSub_at0 S t S.nmShortName 0xFFFFFFFF d hc hd hnm (hS.sn_mask t hn)⟩

/-- without `SnOnlyFirst`: in a version in which the type is named the statement holds as given -/
theorem findSubOr_shortName_in (S : Spec) (t ver : Nat) (hin : S.isNamedIn t ver = true) :
    ∃ e, S.findSubOr t S.nmShortName ver = some (e, [0]) := by
  obtain ⟨d, _, _, hf⟩ := findSub_shortName S t ver hin
  exact ⟨S.ety d, by unfold Spec.findSubOr; rw [hf]⟩

/-- an index path that starts with 0 in a named type is [0] and belongs to the name SHORT-NAME -/
theorem findSub_head0 (S : Spec) (t name ver : Nat) (e : ETy) (rest : List Nat) (hn : S.isNamed t = true)
    (h : S.findSub t name ver = some (e, 0 :: rest)) : rest = [] ∧ name = S.nmShortName := by
  obtain ⟨_, d, hd, hnm⟩ := isNamed_sub0 S t hn
  unfold Spec.findSub at h
  simp only [Spec.findSubT] at h
  obtain ⟨pos, _, hf⟩ := List.exists_of_findSome?_eq_some h
  cases hs : S.subAt t pos with
  | elem d' =>
    rw [hs] at hf
    simp only at hf
    split at hf
    · rename_i hc
      simp only [Option.some.injEq, Prod.mk.injEq, List.cons.injEq] at hf
      obtain ⟨_, hp, hr⟩ := hf
      subst hp
      rw [hd] at hs
      simp only [SubEntry.elem.injEq] at hs
      subst hs
      exact ⟨hr.symm, by rw [← hc.1, hnm]⟩
    · simp at hf
  | group g =>
    rw [hs] at hf
    simp only at hf
    split at hf
    · simp only [Option.some.injEq, Prod.mk.injEq, List.cons.injEq] at hf
      obtain ⟨_, hp, _⟩ := hf
      subst hp
      rw [hd] at hs
      simp at hs
    · simp at hf

/-- the lower end of the scan never decreases -/
theorem rangeScan_lo_mono (S : Spec) (typ ver : Nat) (newIdx : List Nat) (its : Items) (i lo hi lo' hi' : Nat)
    (hle : lo ≤ i) (h : rangeScan S typ ver newIdx its i lo hi = some (lo', hi')) : lo ≤ lo' := by
  induction its generalizing i lo hi with
  | nil =>
    simp only [rangeScan, Option.some.injEq, Prod.mk.injEq] at h
    omega
  | text c r ih =>
    simp only [rangeScan] at h
    exact ih (i + 1) lo (i + 1) (by omega) h
  | elem sh k r _ ih =>
    unfold rangeScan at h
    split at h
    · exact ih (i + 1) lo hi (by omega) h
    · split at h
      · split at h
        · simp only [Option.some.injEq, Prod.mk.injEq] at h; omega
        · split at h
          · exact ih (i + 1) lo (i + 1) (by omega) h
          · simp at h
          · exact ih (i + 1) lo (i + 1) (by omega) h
        · have := ih (i + 1) (i + 1) (i + 1) (by omega) h
          omega
      · split at h
        · split at h
          · exact ih (i + 1) lo (i + 1) (by omega) h
          · simp at h
          · exact ih (i + 1) lo (i + 1) (by omega) h
        · simp at h
      · exact ih (i + 1) lo (i + 1) (by omega) h
      · exact ih (i + 1) lo (i + 1) (by omega) h
      · simp at h

/-- the scan keeps `lo ≤ hi ≤ (number of items seen so far)` -/
theorem rangeScan_bounds (S : Spec) (typ ver : Nat) (newIdx : List Nat) (its : Items) (i lo hi lo' hi' : Nat)
    (h1 : lo ≤ hi) (h2 : hi ≤ i) (h : rangeScan S typ ver newIdx its i lo hi = some (lo', hi')) :
    lo' ≤ hi' ∧ hi' ≤ i + its.length := by
  induction its generalizing i lo hi with
  | nil =>
    simp only [rangeScan, Option.some.injEq, Prod.mk.injEq] at h
    simp only [Items.length]
    omega
  | text c r ih =>
    simp only [rangeScan] at h
    have := ih (i + 1) lo (i + 1) (by omega) (by omega) h
    simp only [Items.length]
    omega
  | elem sh k r _ ih =>
    simp only [Items.length]
    unfold rangeScan at h
    split at h
    · have := ih (i + 1) lo hi (by omega) (by omega) h
      omega
    · split at h
      · split at h
        · simp only [Option.some.injEq, Prod.mk.injEq] at h; omega
        · split at h
          · have := ih (i + 1) lo (i + 1) (by omega) (by omega) h
            omega
          · simp at h
          · have := ih (i + 1) lo (i + 1) (by omega) (by omega) h
            omega
        · have := ih (i + 1) (i + 1) (i + 1) (by omega) (by omega) h
          omega
      · split at h
        · split at h
          · have := ih (i + 1) lo (i + 1) (by omega) (by omega) h
            omega
          · simp at h
          · have := ih (i + 1) lo (i + 1) (by omega) (by omega) h
            omega
        · simp at h
      · have := ih (i + 1) lo (i + 1) (by omega) (by omega) h
        omega
      · have := ih (i + 1) lo (i + 1) (by omega) (by omega) h
        omega
      · simp at h

/-- core of MAIN: the first content item is known to be looked up at index path [0] -/
theorem insertRange_lo_pos_core (S : Spec) {vOk : Nat} (hS : NameWFv S vOk) (h sh : Hdr) (sk rest : Items) (name ver lo hi : Nat)
    (hnamed : S.isNamed h.ety.typ = true) (hseq : S.mode h.ety.typ = .sequence) (e0 : ETy)
    (hex : S.findSubOr h.ety.typ sh.name ver = some (e0, [0]))
    (hr : insertRange S h (.elem sh sk rest) name ver = some (lo, hi)) : 1 ≤ lo := by
  obtain ⟨_, d, hd, _⟩ := isNamed_sub0 S _ hnamed
  unfold insertRange at hr
  rw [if_neg (by rw [hseq]; simp)] at hr
  cases hf : S.findSub h.ety.typ name ver with
  | none => rw [hf] at hr; simp at hr
  | some x =>
    obtain ⟨e, newIdx⟩ := x
    rw [hf] at hr
    simp only at hr
    rw [if_neg (by rw [hseq]; simp)] at hr
    unfold rangeScan at hr
    rw [hex] at hr
    simp only at hr
    have hne : newIdx ≠ [] := findSubT_idx_ne_nil S name ver _ _ e newIdx hf
    cases newIdx with
    | nil => exact absurd rfl hne
    | cons a as =>
      have hcg : S.commonGroup h.ety.typ (a :: as) [0] = h.ety.typ := by
        simp only [Spec.commonGroup]
        split
        · rename_i ha; subst ha; rw [hd]
        · rfl
      rw [hcg, hseq] at hr
      simp only at hr
      cases a with
      | zero =>
        obtain ⟨has, _⟩ := findSub_head0 S _ name ver e as hnamed hf
        subst has
        have hcmp : cmpIdx [0] [0] = .eq := by simp [cmpIdx]
        have hmult : S.subMult h.ety.typ [0] = some (S.defMult d) := by
          simp only [Spec.subMult, Spec.subSpecAt, hd]
        rw [hcmp, hmult] at hr
        simp only at hr
        have hna := hS.sn_mult _ d hnamed hd
        split at hr
        · rename_i heq
          simp only [Option.some.injEq] at heq
          exact absurd heq hna
        · simp at hr
        · rename_i heq
          simp at heq
      | succ a' =>
        have hcmp : cmpIdx ((a' + 1) :: as) [0] = .gt := by
          simp only [cmpIdx]
          rw [if_neg (by omega), if_pos (by omega)]
        rw [hcmp] at hr
        simp only at hr
        exact rangeScan_lo_mono S _ ver _ rest (0 + 1) (0 + 1) (0 + 1) lo hi (Nat.le_refl _) hr

/-- MAIN: in an element of a named type whose first content item is its SHORT-NAME, every admissible insert position is
≥ 1 (needs `SnOnlyFirst` in addition to `NameWF`) -/
theorem insertRange_lo_pos (S : Spec) {vOk : Nat} (hS : NameWFv S vOk) (hU : SnOnlyFirst S) (h sh : Hdr) (sk rest : Items)
    (name ver lo hi : Nat) (hnamed : S.isNamed h.ety.typ = true) (hseq : S.mode h.ety.typ = .sequence) (hsn : sh.name = S.nmShortName)
    (hr : insertRange S h (.elem sh sk rest) name ver = some (lo, hi)) : 1 ≤ lo := by
  obtain ⟨e0, hex⟩ := findSubOr_shortName S hS hU h.ety.typ ver hnamed
  rw [← hsn] at hex
  exact insertRange_lo_pos_core S hS h sh sk rest name ver lo hi hnamed hseq e0 hex hr

/-- MAIN without `SnOnlyFirst`, for a version in which the type is named -/
theorem insertRange_lo_pos_in (S : Spec) {vOk : Nat} (hS : NameWFv S vOk) (h sh : Hdr) (sk rest : Items)
    (name ver lo hi : Nat) (hin : S.isNamedIn h.ety.typ ver = true) (hseq : S.mode h.ety.typ = .sequence) (hsn : sh.name = S.nmShortName)
    (hr : insertRange S h (.elem sh sk rest) name ver = some (lo, hi)) : 1 ≤ lo := by
  obtain ⟨e0, hex⟩ := findSubOr_shortName_in S h.ety.typ ver hin
  rw [← hsn] at hex
  exact insertRange_lo_pos_core S hS h sh sk rest name ver lo hi (isNamedIn_mask S _ ver hin).1 hseq e0 hex hr

/-- and the upper end never exceeds the number of content items (so an accepted position is a valid list position) -/
theorem insertRange_hi_le (S : Spec) (h : Hdr) (kids : Items) (name ver lo hi : Nat)
    (hr : insertRange S h kids name ver = some (lo, hi)) : lo ≤ hi ∧ hi ≤ kids.length := by
  unfold insertRange at hr
  split at hr
  · simp at hr
  · split at hr
    · simp at hr
    · split at hr
      · simp only [Option.some.injEq, Prod.mk.injEq] at hr
        omega
      · have := rangeScan_bounds S _ ver _ kids 0 0 0 lo hi (Nat.le_refl _) (Nat.le_refl _) hr
        omega

/-! ### Counterexample: `NameWF` alone does not give MAIN / `findSubOr_shortName` (a second SHORT-NAME entry, valid in
another version, is found by the lookup in that version and has a later index path) -/

/-- type 0 (sequence): SHORT-NAME (def 1, versions {v0}), FOO (def 2, name 102, versions {v0,v1}), SHORT-NAME again
(def 3, versions {v1}); every other type has no sub-elements; the element types are type 5 (characters, string) -/
def cexSpec : Spec where
  nTypes := 6
  nDefs := 4
  nSubs := 3
  nAttrs := 0
  nVer := 3
  nCData := 1
  nRefItems := 0
  subStart := fun t => if t = 0 then 0 else 3
  subEnd := fun _ => 3
  subVer := fun _ => 0
  attrStart := fun _ => 0
  attrEnd := fun _ => 0
  attrVer := fun _ => 0
  cdataOf := fun t => if t = 0 then none else some 0
  mode := fun t => if t = 0 then .sequence else .characters
  refStart := fun _ => 0
  refEnd := fun _ => 0
  subEntry := fun i => .elem (i + 1)
  verInfo := fun i => if i = 0 then 1 else if i = 1 then 3 else 2
  attrName := fun _ => 0
  attrCData := fun _ => 0
  attrRequired := fun _ => false
  refItem := fun _ => 0
  defName := fun d => if d = 2 then 102 else 999
  defType := fun _ => 5
  defMult := fun _ => .zeroOrOne
  defOrdered := fun _ => false
  defSplit := fun _ => 0
  cspec := fun _ => .string false none
  refTypeIdx := 99
  rootDef := 0
  depth := 0
  nmShortName := 999
  atDest := 998

theorem cexSpec_named (t : Nat) (h : cexSpec.isNamed t = true) : t = 0 := by
  have := (isNamed_sub0 cexSpec t h).1
  simp only [Spec.subCount, cexSpec] at this
  split at this <;> omega

theorem cexSpec_nameWF : NameWF cexSpec where
  named_seq t h := by rw [cexSpec_named t h]; rfl
  sn_mask t h := by rw [cexSpec_named t h]; decide
  sn_mult t d h _ := by simp [cexSpec]
  sn_type t d h _ := by
    exact ⟨rfl, (by decide : cexSpec.isNamed 5 = false), .string false none, rfl, rfl⟩

def cexHdr (id name typ : Nat) : Hdr :=
  { id := id, name := name, ety := ⟨0, typ⟩, parent := .none, attrs := [], files := [], comment := none }

/-- in version v1 (mask 2) FOO is accepted at position 0, in front of the existing SHORT-NAME child -/
theorem cex_insert : insertRange cexSpec (cexHdr 0 100 0) (.elem (cexHdr 1 999 5) .nil .nil) 102 2 = some (0, 0) := by decide
theorem cex_findSubOr : cexSpec.findSubOr 0 999 2 = some (⟨3, 5⟩, [2]) := by decide

/-- MAIN as originally stated (with `NameWF` only) is false -/
theorem insertRange_lo_pos_needs_SnOnlyFirst :
    ¬ ∀ (S : Spec) (_ : NameWF S) (h sh : Hdr) (sk rest : Items) (name ver lo hi : Nat),
      S.isNamed h.ety.typ = true → sh.name = S.nmShortName →
      insertRange S h (.elem sh sk rest) name ver = some (lo, hi) → 1 ≤ lo := by
  intro hall
  have := hall cexSpec cexSpec_nameWF (cexHdr 0 100 0) (cexHdr 1 999 5) .nil .nil 102 2 0 0 (by decide) rfl cex_insert
  omega

end AV.W
