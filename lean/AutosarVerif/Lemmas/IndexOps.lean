/-
C04, the history invariant, operation by operation (`Model/Step.lean`): every core operation keeps `WInv`.
-/
import AutosarVerif.Lemmas.IndexInv

namespace AV.W
open Items

section
variable (S : Spec) (V : Env) (vOk : Nat)

/-- header-only edit of one node -/
theorem minv_hdr_only (nid : Nat) (m m' : Model) (x : Nat) (g : Hdr → Hdr) (hm : MInv S vOk nid m)
    (hg : ∀ h, (g h).id = h.id ∧ (g h).name = h.name ∧ (g h).ety = h.ety ∧ (g h).files = h.files)
    (hroot : m'.rootItems = m.rootItems.modify x fun h k => (g h, k)) (hidx : m'.index = m.index)
    (hiss : m'.rootIssued = m.rootIssued) (hfiles : m'.files = m.files) : MInv S vOk nid m' := by
  refine minv_modify_same S vOk nid m m' x _ hm hroot hidx hiss hfiles ?_ ?_ ?_
  · intro h k _ _
    exact ⟨(hg h).2.1, (hg h).2.2.1, (hg h).1, fun _ => charData_hdr S h (g h) k (by rw [(hg h).2.2.1])⟩
  · intro h k _ _
    refine ⟨(hg h).2.1, (hg h).2.2.1, fun _ hp => (properSn_hdr S h (g h) k (hg h).2.2.1).mpr hp, fun hk hs => ⟨(kidsOk_hdr S h (g h) k (hg h).2.2.1).mpr hk, hs⟩⟩
  · intro h k _ _
    exact ⟨rfl, (hg h).2.2.2, itemName_hdr S h (g h) k (by rw [(hg h).2.2.1]), fun _ => rfl⟩

theorem opComment_inv (w : World) (x : Nat) (cm : Option Bytes) (hw : WInv S vOk w) : WInv S vOk (opComment w x cm).1 := by
  unfold opComment
  split
  · exact winv_congr S vOk w _ hw (Nat.le_refl _) rfl
  · rename_i k c hloc
    obtain ⟨m, _, hm2, hmem, _⟩ := locate_chain w x k c hloc
    refine winv_update S vOk w _ k _ hw (Nat.le_refl _) ?_ rfl
    dsimp only
    rw [hm2]
    exact minv_hdr_only S vOk _ m _ x (fun h0 => { h0 with comment := cm.map fixComment }) (hw m hmem) (fun h => ⟨rfl, rfl, rfl, rfl⟩) (rootItems_setRoot_modify m x _)
      (setRoot_modify_fields m x _).1 (setRoot_modify_fields m x _).2.2.2 (setRoot_modify_fields m x _).2.2.1


theorem setAttrHdr_keeps4 (h : Hdr) (a : Nat) (v : CDv) (ver : Nat) :
    ((setAttrHdr S V h a v ver).getD h).id = h.id ∧ ((setAttrHdr S V h a v ver).getD h).name = h.name ∧
    ((setAttrHdr S V h a v ver).getD h).ety = h.ety ∧ ((setAttrHdr S V h a v ver).getD h).files = h.files := by
  unfold setAttrHdr
  split
  · exact ⟨rfl, rfl, rfl, rfl⟩
  · split
    · exact ⟨rfl, rfl, rfl, rfl⟩
    · split
      · exact ⟨rfl, rfl, rfl, rfl⟩
      · split <;> exact ⟨rfl, rfl, rfl, rfl⟩

theorem opAttr_inv (w : World) (x a : Nat) (v : CDv) (hw : WInv S vOk w) : WInv S vOk (opAttr S V w x a v).1 := by
  unfold opAttr
  split
  · exact hw
  · rename_i k c hloc
    obtain ⟨m, _, hm2, hmem, _⟩ := locate_chain w x k c hloc
    dsimp only
    repeat' (first | exact hw | split)
    all_goals (
      refine winv_update S vOk w _ k _ hw (Nat.le_refl _) ?_ rfl
      rw [hm2]
      exact minv_hdr_only S vOk _ m _ x (fun h0 => (setAttrHdr S V h0 a v _).getD h0) (hw m hmem) (fun h => setAttrHdr_keeps4 S V h a v _)
        (rootItems_setRoot_modify m x _) (setRoot_modify_fields m x _).1 (setRoot_modify_fields m x _).2.2.2 (setRoot_modify_fields m x _).2.2.1)

theorem opAttrS_inv (w : World) (x a : Nat) (s : Bytes) (hw : WInv S vOk w) : WInv S vOk (opAttrS S V w x a s).1 := by
  unfold opAttrS
  split
  · exact hw
  · rename_i k c hloc
    obtain ⟨m, _, hm2, hmem, _⟩ := locate_chain w x k c hloc
    dsimp only
    repeat' (first | exact hw | split)
    all_goals (
      rename_i vv _
      refine winv_update S vOk w _ k _ hw (Nat.le_refl _) ?_ rfl
      rw [hm2]
      exact minv_hdr_only S vOk _ m _ x
        (fun h0 => if h0.attrs.any (·.1 == a) then { h0 with attrs := h0.attrs.map fun e => if e.1 == a then (a, vv) else e }
          else { h0 with attrs := h0.attrs ++ [(a, vv)] })
        (hw m hmem) (fun h => by split <;> exact ⟨rfl, rfl, rfl, rfl⟩)
        (rootItems_setRoot_modify m x _) (setRoot_modify_fields m x _).1 (setRoot_modify_fields m x _).2.2.2 (setRoot_modify_fields m x _).2.2.1)

theorem opRmAttr_inv (w : World) (x a : Nat) (hw : WInv S vOk w) : WInv S vOk (opRmAttr S w x a).1 := by
  unfold opRmAttr
  split
  · repeat' (first | exact hw | split)
    all_goals exact winv_congr S vOk w _ hw (Nat.le_refl _) rfl
  · rename_i k c hloc
    obtain ⟨m, _, hm2, hmem, _⟩ := locate_chain w x k c hloc
    dsimp only
    repeat' (first | exact hw | split)
    all_goals (
      refine winv_update S vOk w _ k _ hw (Nat.le_refl _) ?_ rfl
      rw [hm2]
      exact minv_hdr_only S vOk _ m _ x (fun h0 => { h0 with attrs := h0.attrs.filter (·.1 != a) }) (hw m hmem) (fun h => ⟨rfl, rfl, rfl, rfl⟩)
        (rootItems_setRoot_modify m x _) (setRoot_modify_fields m x _).1 (setRoot_modify_fields m x _).2.2.2 (setRoot_modify_fields m x _).2.2.1)


/-- the node an edit touches is the one navigation found -/
theorem node_eq {nid : Nat} {m : Model} (hm : MInv S vOk nid m) (x : Nat) (c : List (Hdr × Items))
    (hc : m.rootItems.chain x = some c) (h : Hdr) (k : Items) (ho : Occ h k m.rootItems) (he : h.id = x) :
    h = (lastOf c).1 ∧ k = (lastOf c).2 := by
  obtain ⟨o2, e2⟩ := chain_occ x m.rootItems c hc
  exact occ_unique m.rootItems hm.ids h _ k _ ho o2 (he.trans e2.symm)

/-- a proper SHORT-NAME is a plain character-data element -/
theorem properSn_mode {h : Hdr} {k : Items} (hp : properSn S h k) : S.mode h.ety.typ = .characters := hp.1

theorem opInsText_inv (w : World) (x pos : Nat) (s : Bytes) (hw : WInv S vOk w) : WInv S vOk (opInsText S w x pos s).1 := by
  unfold opInsText
  split
  · exact hw
  · rename_i k c hloc
    obtain ⟨m, _, hm2, hmem, hc⟩ := locate_chain w x k c hloc
    have hm := hw m hmem
    dsimp only
    split
    · exact hw
    · rename_i hmode
      split
      · exact hw
      · refine winv_update S vOk w _ k _ hw (Nat.le_refl _) ?_ rfl
        rw [hm2]
        have hmixed : S.mode (lastOf c).1.ety.typ = .mixed := by
          cases hmd : S.mode (lastOf c).1.ety.typ <;> simp_all
        -- the element is not a SHORT-NAME, and has no SHORT-NAME (a named type is a SEQUENCE)
        have key : ∀ h k0, Occ h k0 m.rootItems → h.id = x → h.name ≠ S.nmShortName ∧ ¬ firstIsSn S k0 ∧ kidsOk S h k0 ∧ SnOk S k0 := by
          intro h k0 ho he
          obtain ⟨e1, _⟩ := node_eq S vOk hm x c hc h k0 ho he
          have hk := kidsOk_of_occ S _ hm.sn h k0 ho
          refine ⟨?_, ?_, hk.1, hk.2⟩
          · intro hn
            have := properSn_mode S (sn_proper_of_occ S _ hm.sn (hm.topOk S vOk) h k0 ho hn)
            rw [e1, hmixed] at this; cases this
          · intro hf
            cases k0 with
            | nil => exact hf
            | text _ _ => exact hf
            | elem sh sk r =>
              have := (hk.1.1 hf).1.2.1
              rw [e1, hmixed] at this; cases this
        refine minv_modify_same S vOk _ m _ x _ hm (rootItems_setRoot_modify m x _) (setRoot_modify_fields m x _).1
          (setRoot_modify_fields m x _).2.2.2 (setRoot_modify_fields m x _).2.2.1 ?_ ?_ ?_
        · intro h k0 ho he
          exact ⟨rfl, rfl, rfl, fun hn => absurd hn (key h k0 ho he).1⟩
        · intro h k0 ho he
          obtain ⟨k1, k2, _, _⟩ := key h k0 ho he
          exact ⟨rfl, rfl, fun hn _ => absurd hn k1,
            fun hk hs => ⟨kidsOk_insertText S h _ k0 pos (fun hf => absurd hf k2) hk, snOk_insertText S _ k0 pos hs⟩⟩
        · intro h k0 ho he
          obtain ⟨_, k2, _, _⟩ := key h k0 ho he
          exact ⟨ids_insertAt_text _ k0 pos, rfl, itemName_insertText S h _ k0 pos (fun hf => absurd hf k2),
            fun pre => entries_insertText S _ k0 pos pre⟩


theorem opRmText_inv (w : World) (x pos : Nat) (hw : WInv S vOk w) : WInv S vOk (opRmText S w x pos).1 := by
  unfold opRmText
  split
  · exact hw
  · rename_i k c hloc
    obtain ⟨m, _, hm2, hmem, hc⟩ := locate_chain w x k c hloc
    have hm := hw m hmem
    dsimp only
    split
    · exact hw
    · rename_i hmode
      split
      · rename_i htext
        refine winv_update S vOk w _ k _ hw (Nat.le_refl _) ?_ rfl
        rw [hm2]
        have hmixed : S.mode (lastOf c).1.ety.typ = .mixed := by
          cases hmd : S.mode (lastOf c).1.ety.typ <;> simp_all
        have key : ∀ h k0, Occ h k0 m.rootItems → h.id = x → h.name ≠ S.nmShortName ∧ ¬ firstIsSn S k0 ∧ kidsOk S h k0 ∧
            isTextAt k0 pos = true := by
          intro h k0 ho he
          obtain ⟨e1, e2⟩ := node_eq S vOk hm x c hc h k0 ho he
          have hk := kidsOk_of_occ S _ hm.sn h k0 ho
          refine ⟨?_, ?_, hk.1, e2 ▸ htext⟩
          · intro hn
            have := properSn_mode S (sn_proper_of_occ S _ hm.sn (hm.topOk S vOk) h k0 ho hn)
            rw [e1, hmixed] at this; cases this
          · intro hf
            cases k0 with
            | nil => exact hf
            | text _ _ => exact hf
            | elem sh sk r =>
              have := (hk.1.1 hf).1.2.1
              rw [e1, hmixed] at this; cases this
        refine minv_modify_same S vOk _ m _ x _ hm (rootItems_setRoot_modify m x _) (setRoot_modify_fields m x _).1
          (setRoot_modify_fields m x _).2.2.2 (setRoot_modify_fields m x _).2.2.1 ?_ ?_ ?_
        · intro h k0 ho he
          exact ⟨rfl, rfl, rfl, fun hn => absurd hn (key h k0 ho he).1⟩
        · intro h k0 ho he
          obtain ⟨k1, k2, _, _⟩ := key h k0 ho he
          exact ⟨rfl, rfl, fun hn _ => absurd hn k1,
            fun hk hs => ⟨kidsOk_removeAt S h k0 pos (fun hf => absurd hf k2) hk, snOk_removeAt S k0 pos hs⟩⟩
        · intro h k0 ho he
          obtain ⟨_, k2, k3, k4⟩ := key h k0 ho he
          exact ⟨(removeAt_text S k0 pos k4).1, rfl, itemName_removeAt S h k0 pos k3 (fun hf => absurd hf k2),
            (removeAt_text S k0 pos k4).2⟩
      · exact hw


theorem childElems_nil (k : Items) (h : k.childElems = []) :
    k.ids = [] ∧ (∀ pre, entries S k pre = []) ∧ ¬ firstIsSn S k := by
  induction k with
  | nil => exact ⟨rfl, fun _ => rfl, id⟩
  | text c r ih =>
    obtain ⟨a, b, _⟩ := ih (by simpa [Items.childElems] using h)
    exact ⟨a, fun pre => b pre, id⟩
  | elem hd kk r _ _ => simp [Items.childElems] at h

theorem charData_some_shape (h : Hdr) (k : Items) (c : CDv) (hc : charData S h k = some c) : k = .text c .nil := by
  unfold charData at hc
  split at hc
  · split at hc
    · cases hc; rfl
    · cases hc
  · cases hc

theorem hdrOf_locate (w : World) (x k : Nat) (c : List (Hdr × Items)) (h : Hdr) (kids : Items)
    (hl : locate w x = some (k, c)) (hh : hdrOf w x = some (h, kids)) : lastOf c = (h, kids) := by
  unfold hdrOf at hh
  rw [hl] at hh
  simpa using hh

/-- the content of a node that is not a SHORT-NAME and has no sub-elements is replaced by content without sub-elements -/
theorem minv_set_content (nid : Nat) (m m' : Model) (x : Nat) (c : List (Hdr × Items)) (newKids : Items)
    (hm : MInv S vOk nid m) (hc : m.rootItems.chain x = some c)
    (hname : (lastOf c).1.name ≠ S.nmShortName) (hold : (lastOf c).2.childElems = []) (hnew : newKids.childElems = [])
    (hroot : m'.rootItems = m.rootItems.modify x fun h0 _ => (h0, newKids)) (hidx : m'.index = m.index)
    (hiss : m'.rootIssued = m.rootIssued) (hfiles : m'.files = m.files) : MInv S vOk nid m' := by
  obtain ⟨n1, n2, n3⟩ := childElems_nil S newKids hnew
  have key : ∀ h k0, Occ h k0 m.rootItems → h.id = x → h.name ≠ S.nmShortName ∧ k0.childElems = [] := by
    intro h k0 ho he
    obtain ⟨e1, e2⟩ := node_eq S vOk hm x c hc h k0 ho he
    exact ⟨e1 ▸ hname, e2 ▸ hold⟩
  refine minv_modify_same S vOk nid m m' x _ hm hroot hidx hiss hfiles ?_ ?_ ?_
  · intro h k0 ho he
    exact ⟨rfl, rfl, rfl, fun hn => absurd hn (key h k0 ho he).1⟩
  · intro h k0 ho he
    refine ⟨rfl, rfl, fun hn _ => absurd hn (key h k0 ho he).1, fun _ _ => ⟨?_, ?_⟩⟩
    · cases newKids with
      | nil => trivial
      | text _ r =>
        have : r.childElems = [] := by simpa [Items.childElems] using hnew
        clear n1 n2 n3 hroot
        induction r with
        | nil => trivial
        | text _ r' ih => exact ih (by simpa [Items.childElems] using this) (by simpa [Items.childElems] using this)
        | elem _ _ _ _ _ => simp [Items.childElems] at this
      | elem _ _ _ => simp [Items.childElems] at hnew
    · clear n1 n2 n3 hroot
      induction newKids with
      | nil => trivial
      | text _ r ih => exact ih (by simpa [Items.childElems] using hnew)
      | elem _ _ _ _ _ => simp [Items.childElems] at hnew
  · intro h k0 ho he
    obtain ⟨_, o2⟩ := key h k0 ho he
    obtain ⟨o3, o4, o5⟩ := childElems_nil S k0 o2
    exact ⟨n1.trans o3.symm, rfl, (itemName_none_of_not_sn S h _ n3).trans (itemName_none_of_not_sn S h _ o5).symm,
      fun pre => (n2 pre).trans (o4 pre).symm⟩

theorem opRmCData_inv (w : World) (x : Nat) (hw : WInv S vOk w) : WInv S vOk (opRmCData S w x).1 := by
  unfold opRmCData
  split
  · exact hw
  · rename_i h kids hh
    split
    · exact hw
    · split
      · exact hw
      · rename_i hname
        split
        · exact hw
        · rename_i cd hcd
          split
          · exact hw
          · rename_i k c hloc
            obtain ⟨m, _, hm2, hmem, hc⟩ := locate_chain w x k c hloc
            have hl := hdrOf_locate w x k c h kids hloc hh
            refine winv_update S vOk w _ k _ hw (Nat.le_refl _) ?_ rfl
            dsimp only
            rw [hm2]
            refine minv_set_content S vOk _ m _ x c .nil (hw m hmem) hc (by rw [hl]; exact hname)
              (by rw [hl, charData_some_shape S h kids cd hcd]; rfl) rfl ?_ ?_ ?_ ?_
            · exact rootItems_setRoot_modify m x _
            · exact (setRoot_modify_fields m x _).1
            · exact (setRoot_modify_fields m x _).2.2.2
            · exact (setRoot_modify_fields m x _).2.2.1

end
end AV.W
