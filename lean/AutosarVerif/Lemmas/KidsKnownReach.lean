/-
`KidsKnown` (every child element is known to the all-version lookup of the type of its parent — the stronger form of the
extra hypothesis of the sort theorems, `Lemmas/SortIndex.lean`) is an invariant of the histories of the core operations
(`Model/Step.lean`): `create` / `named create` add known children only (`Lemmas/KidsKnown.lean`), every other core operation
keeps name and element type of every element and never adds a child element.  The proofs mirror those of `WRLeaf`
(`Lemmas/RefsOpsA.lean`, `Lemmas/RefsReach.lean`).  `sort` keeps it too (`opSort_wkidsKnown`).
-/
import AutosarVerif.Lemmas.KidsKnown

namespace AV.W
open Items

section
variable (S : Spec) (V : Env) (vOk : Nat) (rootAttrs : List (Nat × CDv))

/-! ### small facts -/

theorem kidsKnownAt_nil (h : Hdr) : kidsKnownAt S h .nil := fun _ hc => absurd hc List.not_mem_nil

theorem kidsKnownAt_textNil (h : Hdr) (c : CDv) : kidsKnownAt S h (.text c .nil) := fun _ hc => absurd hc List.not_mem_nil

theorem kidsKnownAt_hdr (h h' : Hdr) (k : Items) (he : h'.ety = h.ety) (a : kidsKnownAt S h k) : kidsKnownAt S h' k := by
  unfold kidsKnownAt at *
  rw [he]; exact a

theorem kidsKnown_elem (h : Hdr) (k r : Items) :
    KidsKnown S (.elem h k r) ↔ kidsKnownAt S h k ∧ KidsKnown S k ∧ KidsKnown S r := Iff.rfl

/-! ### `KidsKnown` is a function of the skeleton -/

theorem childNames_skel (k : Items) : k.skel.childElems.map (·.1.name) = k.childElems.map (·.1.name) := by
  induction k with
  | nil => rfl
  | text c r ih => simpa only [skel_text, Items.childElems] using ih
  | elem h kk r _ ih => simp only [skel_elem, Items.childElems, List.map_cons, ih, core_name]

theorem kidsKnownAt_names (h h' : Hdr) (k k' : Items) (he : h'.ety = h.ety)
    (hn : k'.childElems.map (·.1.name) = k.childElems.map (·.1.name)) (a : kidsKnownAt S h k) : kidsKnownAt S h' k' := by
  intro c hc
  have hm : c.1.name ∈ k'.childElems.map (·.1.name) := List.mem_map.mpr ⟨c, hc, rfl⟩
  rw [hn] at hm
  obtain ⟨c0, hc0, e⟩ := List.mem_map.mp hm
  rw [← e, he]
  exact a c0 hc0

theorem kidsKnown_skel (its : Items) : KidsKnown S its.skel ↔ KidsKnown S its := by
  induction its with
  | nil => exact Iff.rfl
  | text c r ih => rw [skel_text]; exact ih
  | elem h k r ihk ihr =>
    rw [skel_elem, kidsKnown_elem, kidsKnown_elem, ihk, ihr]
    refine and_congr_left (fun _ => ⟨fun a => ?_, fun a => ?_⟩)
    · exact kidsKnownAt_names S h.core h k.skel k rfl (childNames_skel k).symm a
    · exact kidsKnownAt_names S h h.core k k.skel rfl (childNames_skel k) a

theorem kidsKnown_of_skel {its its' : Items} (h : its'.skel = its.skel) : KidsKnown S its' ↔ KidsKnown S its := by
  rw [← kidsKnown_skel S its', h, kidsKnown_skel]

theorem kidsKnown_setRoot_skel (m : Model) (its : Items) (hsk : its.skel = m.rootItems.skel) (h : KidsKnown S m.rootItems) :
    KidsKnown S (m.setRoot its).rootItems := by
  obtain ⟨h1, _, _, _⟩ := setRoot_of_skel m its hsk
  rw [h1]
  exact (kidsKnown_of_skel S hsk).mpr h

theorem kidsKnown_root_congr (h h' : Hdr) (k k' : Items) (hty : h'.ety = h.ety) (hsk : k'.skel = k.skel)
    (hl : KidsKnown S (.elem h k .nil)) : KidsKnown S (.elem h' k' .nil) := by
  obtain ⟨a, b, _⟩ := hl
  refine ⟨?_, (kidsKnown_of_skel S hsk).mpr b, trivial⟩
  refine kidsKnownAt_names S h h' k k' hty ?_ a
  rw [← childNames_skel k', hsk, childNames_skel]

theorem wkidsKnown_congr (w w' : World) (hl : WKidsKnown S w) (hmodels : w'.models = w.models) : WKidsKnown S w' := by
  intro m hmem
  rw [hmodels] at hmem
  exact hl m hmem

/-! ### one located node is edited -/

theorem wkidsKnown_located (w w' : World) (x k : Nat) (c : List (Hdr × Items)) (hloc : locate w x = some (k, c)) (m' : Model)
    (f : Hdr → Items → Hdr × Items) (hl : WKidsKnown S w) (hmodels : w'.models = w.models.set k m')
    (hroot : m'.rootItems = (w.models[k]!).rootItems.modify x f)
    (hf : ∀ h k0, (f h k0).1.name = h.name ∧ (kidsKnownAt S h k0 → KidsKnown S k0 →
      kidsKnownAt S (f h k0).1 (f h k0).2 ∧ KidsKnown S (f h k0).2)) : WKidsKnown S w' := by
  obtain ⟨m, _, hm2, hmem, _⟩ := locate_chain w x k c hloc
  refine wkidsKnown_update S w w' k m' hl ?_ hmodels
  rw [hroot, hm2]
  exact kidsKnown_modify S x f _ (fun h k0 _ _ => hf h k0) (hl m hmem)

/-- the end of the proofs for the operations that edit one located node -/
macro "known_located" hl:ident : tactic => `(tactic| (
  refine wkidsKnown_located _ _ _ _ _ _ (by assumption) _ _ $hl rfl (rootItems_setRoot_modify _ _ _) ?_
  intro h0 k0
  first
    | exact ⟨rfl, fun _ _ => ⟨kidsKnownAt_nil _ _, trivial⟩⟩
    | exact ⟨rfl, fun _ _ => ⟨kidsKnownAt_textNil _ _ _, trivial⟩⟩
    | exact ⟨rfl, fun a b => ⟨a, b⟩⟩
    | exact ⟨(setAttrHdr_keeps4 _ _ h0 _ _ _).2.1, fun a b =>
        ⟨kidsKnownAt_hdr _ _ _ _ (setAttrHdr_keeps4 _ _ h0 _ _ _).2.2.1 a, b⟩⟩
    | (refine ⟨?_, fun a b => ⟨kidsKnownAt_hdr _ _ _ _ ?_ a, b⟩⟩ <;> (dsimp only; split <;> rfl))))

theorem opCData_known (w : World) (x : Nat) (v : CDv) (hl : WKidsKnown S w) : WKidsKnown S (opCData S V w x v).1 := by
  unfold opCData
  split
  · exact hl
  · split
    · exact hl
    · split
      · exact hl
      · split
        · exact hl
        · rename_i k c hloc
          dsimp only
          split
          · exact hl
          · split
            · exact hl
            · split
              · exact hl
              · split
                · exact hl
                · known_located hl

theorem opRmCData_known (w : World) (x : Nat) (hl : WKidsKnown S w) : WKidsKnown S (opRmCData S w x).1 := by
  unfold opRmCData
  repeat' (first | exact hl | split | dsimp only)
  all_goals known_located hl

theorem opAttr_known (w : World) (x a : Nat) (v : CDv) (hl : WKidsKnown S w) : WKidsKnown S (opAttr S V w x a v).1 := by
  unfold opAttr
  repeat' (first | exact hl | split | dsimp only)
  all_goals known_located hl

theorem opAttrS_known (w : World) (x a : Nat) (s : Bytes) (hl : WKidsKnown S w) : WKidsKnown S (opAttrS S V w x a s).1 := by
  unfold opAttrS
  repeat' (first | exact hl | split | dsimp only)
  all_goals known_located hl

theorem opRmAttr_known (w : World) (x a : Nat) (hl : WKidsKnown S w) : WKidsKnown S (opRmAttr S w x a).1 := by
  unfold opRmAttr
  repeat' (first | exact hl | split | dsimp only)
  all_goals first
    | exact wkidsKnown_congr S w _ hl rfl
    | known_located hl

theorem opComment_known (w : World) (x : Nat) (cm : Option Bytes) (hl : WKidsKnown S w) : WKidsKnown S (opComment w x cm).1 := by
  unfold opComment
  split
  · exact wkidsKnown_congr S w _ hl rfl
  · known_located hl

/-! ### text items, removal -/

theorem kidsKnown_insertText (h : Hdr) (cd : CDv) (k : Items) (pos : Nat) (a : kidsKnownAt S h k) (b : KidsKnown S k) :
    kidsKnownAt S h (k.insertAt (fun r => .text cd r) pos) ∧ KidsKnown S (k.insertAt (fun r => .text cd r) pos) := by
  refine ⟨fun c hc => a c (by rw [childElems_insertText] at hc; exact hc), ?_⟩
  rw [kidsKnown_iff, childElems_insertText]
  exact (kidsKnown_iff S k).mp b

theorem mem_childElems_removeAt (c : Hdr × Items) (k : Items) (pos : Nat) (h : c ∈ (k.removeAt pos).childElems) :
    c ∈ k.childElems := by
  induction k generalizing pos with
  | nil => exact h
  | text c' r ih =>
    cases pos with
    | zero => exact h
    | succ q => exact ih q h
  | elem hd kk r _ ih =>
    cases pos with
    | zero => exact List.mem_cons_of_mem _ h
    | succ q =>
      simp only [Items.removeAt, Items.childElems, List.mem_cons] at h ⊢
      rcases h with e | e
      · exact Or.inl e
      · exact Or.inr (ih q e)

theorem kidsKnown_removeAt (h : Hdr) (k : Items) (pos : Nat) (a : kidsKnownAt S h k) (b : KidsKnown S k) :
    kidsKnownAt S h (k.removeAt pos) ∧ KidsKnown S (k.removeAt pos) := by
  refine ⟨fun c hc => a c (mem_childElems_removeAt c k pos hc), ?_⟩
  rw [kidsKnown_iff]
  exact fun c hc => (kidsKnown_iff S k).mp b c (mem_childElems_removeAt c k pos hc)

theorem opInsText_known (w : World) (x pos : Nat) (s : Bytes) (hl : WKidsKnown S w) : WKidsKnown S (opInsText S w x pos s).1 := by
  unfold opInsText
  split
  · exact hl
  · rename_i k c hloc
    obtain ⟨m, _, hm2, hmem, _⟩ := locate_chain w x k c hloc
    dsimp only
    split
    · exact hl
    · split
      · exact hl
      · refine wkidsKnown_update S w _ k _ hl ?_ rfl
        rw [hm2, rootItems_setRoot_modify m x _]
        refine kidsKnown_modify S x _ _ ?_ (hl m hmem)
        intro h k0 _ _
        exact ⟨rfl, fun a b => kidsKnown_insertText S h _ k0 pos a b⟩

theorem opRmText_known (w : World) (x pos : Nat) (hl : WKidsKnown S w) : WKidsKnown S (opRmText S w x pos).1 := by
  unfold opRmText
  split
  · exact hl
  · rename_i k c hloc
    obtain ⟨m, _, hm2, hmem, _⟩ := locate_chain w x k c hloc
    dsimp only
    split
    · exact hl
    · split
      · refine wkidsKnown_update S w _ k _ hl ?_ rfl
        rw [hm2, rootItems_setRoot_modify m x _]
        refine kidsKnown_modify S x _ _ ?_ (hl m hmem)
        intro h k0 _ _
        exact ⟨rfl, fun a b => kidsKnown_removeAt S h k0 pos a b⟩
      · exact hl

theorem opRemove_known (w : World) (p cid : Nat) (hl : WKidsKnown S w) : WKidsKnown S (opRemove S w p cid).1 := by
  unfold opRemove
  split
  · exact hl
  · rename_i k c hloc
    obtain ⟨m, _, hm2, hmem, _⟩ := locate_chain w p k c hloc
    dsimp only
    rw [hm2]
    split
    · rename_i pos ch ck _ _
      split
      · exact hl
      · refine wkidsKnown_update S w _ k _ hl ?_ rfl
        show KidsKnown S (m.setRoot (m.rootItems.modify p fun h0 k0 => (h0, k0.removeAt pos))).rootItems
        rw [rootItems_setRoot_modify m p _]
        refine kidsKnown_modify S p _ _ ?_ (hl m hmem)
        intro h k0 _ _
        exact ⟨rfl, fun a b => kidsKnown_removeAt S h k0 pos a b⟩
    · exact hl

/-! ### file operations, creation of a model -/

theorem opAddFile_known (w : World) (x f : Nat) (hl : WKidsKnown S w) : WKidsKnown S (opAddFile S w x f).1 := by
  unfold opAddFile
  split
  · exact hl
  · rename_i k c hloc
    obtain ⟨m, _, hm2, hmem, _⟩ := locate_chain w x k c hloc
    dsimp only
    repeat' (first | exact hl | split)
    all_goals (
      refine wkidsKnown_update S w _ k _ hl ?_ rfl
      rw [hm2]
      exact kidsKnown_setRoot_skel S m _ (addPath_skel S f (c.map (·.1.id)) [] true m.rootItems) (hl m hmem))

theorem opSetVersion_known (w : World) (f ver : Nat) (hl : WKidsKnown S w) : WKidsKnown S (opSetVersion S w f ver).1 := by
  unfold opSetVersion
  split
  · exact hl
  · rename_i k hk
    dsimp only
    split
    · exact hl
    · split
      · have hlt : k < w.models.length := by
          unfold fileModel at hk
          have := List.mem_of_find?_eq_some hk
          exact List.mem_range.mp this
        have hmem : w.models[k]! ∈ w.models := by
          rw [getElem!_pos w.models k hlt]; exact List.getElem_mem hlt
        refine wkidsKnown_update S w _ k _ hl ?_ rfl
        exact hl (w.models[k]!) hmem
      · exact hl

theorem newModel_known (w : World) (hl : WKidsKnown S w) : WKidsKnown S { w with models := w.models ++ [newModel S rootAttrs] } := by
  intro m hmem
  rcases List.mem_append.mp hmem with h | h
  · exact hl m h
  · rw [List.mem_singleton] at h
    subst h
    exact ⟨kidsKnownAt_nil S _, trivial, trivial⟩

theorem opMkFile_known (w : World) (k : Nat) (name : Bytes) (ver : Nat) (valid : Bool) (hl : WKidsKnown S w) :
    WKidsKnown S (opMkFile S w k name ver valid).1 := by
  unfold opMkFile
  split
  · exact hl
  · rename_i m hmk
    have hm : KidsKnown S (.elem m.rootHdr m.rootKids .nil) := hl m (List.mem_of_getElem? hmk)
    obtain ⟨hc, hs⟩ := restrictStep_skel S w.nextFile m.rootHdr m.rootKids [] true
    have hty : (restrictStep S w.nextFile m.rootHdr m.rootKids [] true).1.ety = m.rootHdr.ety := (core_inj hc).2.2
    split
    · exact hl
    · split
      · exact hl
      · cases hiss : m.rootIssued with
        | true =>
          simp only [if_true]
          refine wkidsKnown_update S w _ k _ hl ?_ rfl
          exact kidsKnown_root_congr S _ _ _ _ hty hs hm
        | false =>
          simp only [Bool.false_eq_true, if_false]
          refine wkidsKnown_update S w _ k _ hl ?_ rfl
          exact kidsKnown_root_congr S m.rootHdr _ m.rootKids _ hty ((skel_setParents _ _).trans hs) hm

theorem removeAll_known (ids : List Nat) : ∀ (w : World), WKidsKnown S w → WKidsKnown S (removeAll S w ids) := by
  induction ids with
  | nil => intro w hl; exact hl
  | cons id rest ih =>
    intro w hl
    simp only [removeAll]
    apply ih
    split
    · split
      · exact opRemove_known S w _ _ hl
      · exact hl
    · exact hl

theorem opRmFromFile_known (w : World) (x f : Nat) (hl : WKidsKnown S w) : WKidsKnown S (opRmFromFile S w x f).1 := by
  unfold opRmFromFile
  split
  · exact hl
  · dsimp only
    split
    · exact hl
    · split
      · exact hl
      · split
        · exact hl
        · split
          · exact hl
          · rename_i cur _
            have hl1 : WKidsKnown S (if (cur.filter (· != f)).isEmpty then
                (match (‹List (Hdr × Items)›).dropLast.getLast? with
                  | some (ph, _) => (opRemove S w ph.id x).1
                  | none => w) else w) := by
              split
              · split
                · exact opRemove_known S w _ _ hl
                · exact hl
              · exact hl
            split
            · exact hl1
            · rename_i k1 c1 hloc1
              obtain ⟨m1, _, hm2, hmem1, _⟩ := locate_chain _ x k1 c1 hloc1
              apply removeAll_known
              refine wkidsKnown_update S _ _ k1 _ hl1 ?_ rfl
              rw [hm2]
              exact kidsKnown_setRoot_skel S m1 _ (rmAt_skel f x [] m1.rootItems) (hl1 m1 hmem1)

theorem opRmFile_known (w : World) (k f : Nat) (hl : WKidsKnown S w) : WKidsKnown S (opRmFile S w k f).1 := by
  unfold opRmFile
  split
  · exact hl
  · rename_i m hk
    split
    · exact hl
    · dsimp only
      split
      · exact hl
      · apply opRmFromFile_known
        refine wkidsKnown_update S w _ k _ hl ?_ rfl
        exact hl m (List.mem_of_getElem? hk)

/-! ### the step theorem -/

theorem wkidsKnown_empty : WKidsKnown S emptyWorld := fun m hm => by simp [emptyWorld] at hm

/-- every core operation keeps `KidsKnown` (together with the index invariant, which `create` / `named create` need to
identify the node they edit; `hv32`: file versions are 32-bit masks) -/
theorem applyOp_wkidsKnown (hH : IdxHyp S V vOk) (hv32 : vOk &&& 0xFFFFFFFF = vOk) (w : World) (op : Op)
    (hw : WInv S vOk w) (hl : WKidsKnown S w) : WKidsKnown S (applyOp S V rootAttrs w op).1 := by
  cases op with
  | newModel => exact newModel_known S rootAttrs w hl
  | mkFile k name ver valid => exact opMkFile_known S w k name ver valid hl
  | create p name pos => exact opCreate_wkidsKnown S V vOk hH hv32 w p name pos hw hl
  | named p name item pos => exact opNamed_wkidsKnown S V vOk hH hv32 w p name item pos hw hl
  | remove p c => exact opRemove_known S w p c hl
  | cdata x v => exact opCData_known S V w x v hl
  | rmcdata x => exact opRmCData_known S w x hl
  | attr x a v => exact opAttr_known S V w x a v hl
  | attrs x a s => exact opAttrS_known S V w x a s hl
  | rmattr x a => exact opRmAttr_known S w x a hl
  | comment x cm => exact opComment_known S w x cm hl
  | instext x pos s => exact opInsText_known S w x pos s hl
  | rmtext x pos => exact opRmText_known S w x pos hl
  | addfile x f => exact opAddFile_known S w x f hl
  | rmfromfile x f => exact opRmFromFile_known S w x f hl
  | rmfile k f => exact opRmFile_known S w k f hl
  | setver f ver => exact opSetVersion_known S w f ver hl

/-- **every reachable state** of a guarded history satisfies `KidsKnown`, hence the extra hypothesis of the sort theorems -/
theorem run_wkidsKnown (hH : IdxHyp S V vOk) (hR : RefWF S) (hv32 : vOk &&& 0xFFFFFFFF = vOk) (ops : List Op)
    (hops : ∀ op ∈ ops, OpOk S vOk op) : WKidsKnown S (run S V rootAttrs ops) := by
  unfold run
  suffices h : ∀ (w : World), CInv S vOk w → WKidsKnown S w →
      CInv S vOk (ops.foldl (fun w op => (applyOp S V rootAttrs w op).1) w) ∧
      WKidsKnown S (ops.foldl (fun w op => (applyOp S V rootAttrs w op).1) w) from
    (h _ (cinv_empty S vOk) (wkidsKnown_empty S)).2
  induction ops with
  | nil => intro w hw hk; exact ⟨hw, hk⟩
  | cons op rest ih =>
    intro w hw hk
    simp only [List.foldl_cons]
    exact ih (fun o ho => hops o (List.mem_cons_of_mem _ ho)) _
      (applyOp_cinv S V vOk rootAttrs hH hR w op (hops op List.mem_cons_self) hw)
      (applyOp_wkidsKnown S V vOk rootAttrs hH hv32 w op hw.1 hk)

/-- so, in every reachable state of a guarded history, `sort` keeps the combined invariant -/
theorem run_opSort_cinv (hH : IdxHyp S V vOk) (hR : RefWF S) (hv32 : vOk &&& 0xFFFFFFFF = vOk) (ops : List Op)
    (hops : ∀ op ∈ ops, OpOk S vOk op) (x : Nat) :
    CInv S vOk (opSort S V (run S V rootAttrs ops) x).1 ∧ WKidsKnown S (opSort S V (run S V rootAttrs ops) x).1 :=
  ⟨opSort_cinv S V vOk hH _ x (run_cinv S V vOk rootAttrs hH hR ops hops)
      (wsibsKnown_of_wkidsKnown S _ (run_wkidsKnown S V vOk rootAttrs hH hR hv32 ops hops)),
    opSort_wkidsKnown S V _ x (run_wkidsKnown S V vOk rootAttrs hH hR hv32 ops hops)⟩

end
end AV.W
