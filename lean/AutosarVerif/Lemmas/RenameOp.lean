/-
`set_item_name` (`opRename`) as a core operation, part 1: the history invariants.
 * the branch structure of `opRename` (`opRename_cases`, `opRename_lift`): the world is unchanged or model `k` is replaced by
   `renModel`;
 * what the reference rewriting loop does to the tree whatever the reverse reference map holds (every step is a `modify` with
   `refEdit`): `Inv` (`opRename_inv`), references stay leaves (`opRename_leaf`), root type (`opRename_rootTy`);
 * with an exact reverse reference map: the loop as `foldTexts` over the moved entries (`MovedOk`, `movedOk_of_exact`), the
   registrations of the tree are re-keyed (`RenOut.refEntries_eq`), the index invariant (`opRename_winv`), the reference
   invariant (`opRename_rinv`), the combined invariant (`opRename_cinv`);
 * histories that interleave core operations and renames: see `Lemmas/StepX.lean` (`runX_inv`, `runX_finv`).
Part 2 (C06 and the witnesses) is `RenameOpC06.lean`.
-/
import AutosarVerif.Lemmas.RefsReach
import AutosarVerif.Lemmas.RenameRefsMap
import AutosarVerif.Lemmas.SetRefTexts
import AutosarVerif.Lemmas.RenameEntries
import AutosarVerif.Lemmas.RefsBridge

namespace AV.W
open Items

/-! ### the tree after the reference rewriting loop, for an arbitrary map -/

/-- a property of forests that every single text replacement keeps is kept by `setRefTexts` -/
theorem setRefTexts_pres (P : Items → Prop) (hP : ∀ its t txt, P its → P (its.modify t (refEdit txt)))
    (l : List Nat) (txt : Bytes) : ∀ its, P its → P (setRefTexts its l txt) := by
  induction l with
  | nil => intro its h; exact h
  | cons a l ih => intro its h; rw [setRefTexts_cons]; exact ih _ (hP its a txt h)

/-- … and by the whole loop of `set_item_name`, whatever the map holds -/
theorem renameRefs_pres (P : Items → Prop) (hP : ∀ its t txt, P its → P (its.modify t (refEdit txt)))
    (rs : List (Bytes × List Nat)) (root : Items) (old new : Bytes) (h : P root) : P (renameRefs rs root old new).2 := by
  rw [renameRefs_eq]
  suffices hs : ∀ (l : List (Bytes × List Nat)) (acc : List (Bytes × List Nat) × Items), P acc.2 →
      P (l.foldl (renStep old new) acc).2 from hs rs (rs, root) h
  intro l
  induction l with
  | nil => intro acc ha; exact ha
  | cons e l ih =>
    intro acc ha
    rw [List.foldl_cons]
    apply ih
    unfold renStep
    split
    · split
      · exact setRefTexts_pres P hP _ _ _ ha
      · exact ha
    · exact ha

/-! ### the branches of `opRename` -/

section
variable (S : Spec) (V : Env)

/-- the new path `set_item_name` computes for the element a chain leads to: the old path with the last name replaced -/
def renNew (c : List (Hdr × Items)) (nm : Bytes) : Bytes :=
  (pathOfChain S c).take ((pathOfChain S c).length - ((itemName S (lastOf c).1 (lastOf c).2).getD []).length) ++ nm

/-- the model after a successful rename of the element the chain `c` leads to, `sh` its SHORT-NAME element -/
def renModel (m : Model) (c : List (Hdr × Items)) (sh : Hdr) (nm : Bytes) : Model :=
  { m.setRoot (renameRefs m.refs (m.rootItems.modify sh.id fun h0 _ => (h0, .text (.str nm) .nil))
        (pathOfChain S c) (renNew S c nm)).2 with
    index := idxFix m.index (pathOfChain S c) (renNew S c nm)
    refs := (renameRefs m.refs (m.rootItems.modify sh.id fun h0 _ => (h0, .text (.str nm) .nil))
        (pathOfChain S c) (renNew S c nm)).1 }

/-- `set_item_name` either leaves the world as it is, or takes its one state-changing branch -/
theorem opRename_cases (w : World) (x : Nat) (nm : Bytes) :
    (opRename S V w x nm).1 = w ∨
    ∃ k c ver cur sh sk rest,
      locate w x = some (k, c) ∧ minVersion V (w.models[k]!) c = some ver ∧
      itemName S (lastOf c).1 (lastOf c).2 = some cur ∧ cur ≠ nm ∧ nm ≠ [] ∧
      (lastOf c).2 = .elem sh sk rest ∧ sh.name = S.nmShortName ∧
      idxGet (w.models[k]!).index (renNew S c nm) = none ∧
      S.mode sh.ety.typ = .characters ∧
      (∃ sp, S.chardataSpec sh.ety.typ = some sp ∧ checkValue V (.str nm) sp ver = true) ∧
      opRename S V w x nm = (setModel w k (renModel S (w.models[k]!) c sh nm), .ok "") := by
  unfold opRename
  split
  · exact Or.inl rfl
  · rename_i hnm
    split
    · exact Or.inl rfl
    · rename_i k c hloc
      dsimp only
      split
      · exact Or.inl rfl
      · rename_i ver hver
        split
        · exact Or.inl rfl
        · rename_i cur hcur
          split
          · exact Or.inl rfl
          · rename_i hne
            split
            · exact Or.inl rfl
            · rename_i hlook
              split
              · rename_i sh sk rest hk
                split
                · rename_i hsn
                  split
                  · rename_i sp hsp
                    split
                    · exact Or.inl rfl
                    · rename_i hokv
                      right
                      have hok : (decide (S.mode sh.ety.typ = Mode.characters) && checkValue V (CDv.str nm) sp ver) = true :=
                        Decidable.of_not_not hokv
                      rw [Bool.and_eq_true, decide_eq_true_eq] at hok
                      have hl : idxGet (w.models[k]!).index (renNew S c nm) = none := by
                        unfold renNew
                        rw [hcur]
                        show idxGet (w.models[k]!).index
                          ((pathOfChain S c).take ((pathOfChain S c).length - cur.length) ++ nm) = none
                        cases hx : idxGet (w.models[k]!).index
                          ((pathOfChain S c).take ((pathOfChain S c).length - cur.length) ++ nm) with
                        | none => rfl
                        | some j =>
                          exfalso; apply hlook
                          show (idxGet (w.models[k]!).index _).isSome = true
                          rw [hx]; rfl
                      refine ⟨k, c, ver, cur, sh, sk, rest, hloc, hver, hcur, hne, ?_, hk, hsn, hl, hok.1, ⟨sp, hsp, hok.2⟩, ?_⟩
                      · intro e; rw [e] at hnm; exact hnm rfl
                      · unfold renModel renNew
                        rw [hcur]
                        rfl
                  · simp only [Bool.and_false, Bool.false_eq_true, not_false_eq_true, if_true]
                    exact Or.inl trivial
                · exact Or.inl rfl
              · exact Or.inl rfl

/-- a world-level property that holds for `w` and for `w` with the renamed model put in holds after `set_item_name` -/
theorem opRename_lift (I : World → Prop) (w : World) (x : Nat) (nm : Bytes) (hw : I w)
    (hstep : ∀ k c ver cur sh sk rest,
      locate w x = some (k, c) → minVersion V (w.models[k]!) c = some ver →
      itemName S (lastOf c).1 (lastOf c).2 = some cur → cur ≠ nm → nm ≠ [] →
      (lastOf c).2 = .elem sh sk rest → sh.name = S.nmShortName →
      idxGet (w.models[k]!).index (renNew S c nm) = none →
      S.mode sh.ety.typ = .characters →
      (∃ sp, S.chardataSpec sh.ety.typ = some sp ∧ checkValue V (.str nm) sp ver = true) →
      I (setModel w k (renModel S (w.models[k]!) c sh nm))) : I (opRename S V w x nm).1 := by
  rcases opRename_cases S V w x nm with h | ⟨k, c, ver, cur, sh, sk, rest, h1, h2, h3, h4, h5, h6, h7, h8, h9, h10, h11⟩
  · rw [h]; exact hw
  · rw [h11]; exact hstep k c ver cur sh sk rest h1 h2 h3 h4 h5 h6 h7 h8 h9 h10

/-! ### `Inv`: parent fields and file sets -/

/-- the parent fields below the top-level element of a one-element forest agree with the structure -/
def rootWf : Items → Prop
  | .elem h k _ => k.wf (.elem h.id)
  | _ => True

theorem rootWf_modify (t : Nat) (f : Hdr → Items → Hdr × Items)
    (hf : ∀ h k, (f h k).1.id = h.id ∧ (f h k).1.parent = h.parent ∧ (k.wf (.elem h.id) → (f h k).2.wf (.elem h.id)))
    (its : Items) (h : rootWf its) : rootWf (its.modify t f) := by
  cases its with
  | nil => trivial
  | text c r => trivial
  | elem hd k r =>
    simp only [Items.modify]
    split
    · obtain ⟨h1, _, h3⟩ := hf hd k
      show Items.wf (.elem (f hd k).1.id) (f hd k).2
      rw [h1]; exact h3 h
    · exact modify_wf t f hf k _ h

theorem refEdit_wf (txt : Bytes) (h : Hdr) (k : Items) :
    (refEdit txt h k).1.id = h.id ∧ (refEdit txt h k).1.parent = h.parent ∧
      (k.wf (.elem h.id) → (refEdit txt h k).2.wf (.elem h.id)) := by
  cases k with
  | nil => exact ⟨rfl, rfl, fun hk => hk⟩
  | elem a b r => exact ⟨rfl, rfl, fun hk => hk.2.2⟩
  | text c r => exact ⟨rfl, rfl, fun hk => hk⟩

theorem setRoot_wfM (m : Model) (its : Items) (hm : m.wfM) (h : rootWf its) : (m.setRoot its).wfM := by
  unfold Model.setRoot
  cases its with
  | nil => exact hm
  | text _ _ => exact hm
  | elem hd k r => exact h

theorem rootOk_modify' (t : Nat) (g : Hdr → Items → Hdr × Items)
    (hg : ∀ (h : Hdr) (k : Items) (pe : List Nat), FilesOk pe k → (g h k).1.files = h.files ∧ FilesOk pe (g h k).2)
    (its : Items) (h : rootOk its) : rootOk (its.modify t g) := by
  cases its with
  | nil => trivial
  | text c r => trivial
  | elem hd k r =>
    simp only [Items.modify]
    split
    · obtain ⟨e1, e2⟩ := hg hd k hd.files h
      show FilesOk (g hd k).1.files (g hd k).2
      rw [e1]; exact e2
    · exact FilesOk_modify t g hg _ _ h

theorem refEdit_filesOk (txt : Bytes) (h : Hdr) (k : Items) (pe : List Nat) (hk : FilesOk pe k) :
    (refEdit txt h k).1.files = h.files ∧ FilesOk pe (refEdit txt h k).2 := by
  cases k with
  | nil => exact ⟨rfl, hk⟩
  | elem a b r => exact ⟨rfl, hk.2.2⟩
  | text c r => exact ⟨rfl, hk⟩

/-- 1. `set_item_name` keeps the invariant `Inv` (whatever the reverse reference map holds) -/
theorem opRename_inv (w : World) (x : Nat) (nm : Bytes) (h : Inv w) : Inv (opRename S V w x nm).1 := by
  refine opRename_lift S V Inv w x nm h ?_
  intro k c ver cur sh sk rest _ _ _ _ _ _ _ _ _ _
  obtain ⟨hw, hf⟩ := h
  constructor
  · apply wf_setModel' w k _ hw
    apply wfM_of_eq (Model.setRoot _ _) _ rfl rfl
    apply setRoot_wfM _ _ (wfM_getElem! w k hw)
    apply renameRefs_pres rootWf (fun its t txt hi => rootWf_modify t _ (refEdit_wf txt) its hi)
    exact rootWf_modify sh.id (fun h0 _ => (h0, .text (.str nm) .nil)) (fun h0 k0 => ⟨rfl, rfl, fun _ => trivial⟩) _
      (wfM_getElem! w k hw)
  · apply setModel_ok w k _ hf
    apply filesOk_of_eq (Model.setRoot _ _) _ rfl rfl
    apply setRoot_ok _ _ (getElem!_ok w k hf)
    apply renameRefs_pres rootOk (fun its t txt hi => rootOk_modify' t _ (refEdit_filesOk txt) its hi)
    exact rootOk_modify' sh.id (fun h0 _ => (h0, .text (.str nm) .nil)) (fun h0 k0 pe _ => ⟨rfl, trivial⟩) _
      (getElem!_ok w k hf)

end

/-! ### the tree after the loop when the map is exact: the texts of the moved referrers are re-keyed -/

section moved
variable (S : Spec) (g : Bytes → Bytes)

/-- the tree part of the loop (`renameRefs_tree`): the referrers of each moved entry get the rewritten key as text -/
def foldTexts (L : List (Bytes × List Nat)) (t : Items) : Items :=
  L.foldl (fun t e => setRefTexts t e.2 (g e.1)) t

theorem foldTexts_cons (x0 : Bytes × List Nat) (L : List (Bytes × List Nat)) (t : Items) :
    foldTexts g (x0 :: L) t = foldTexts g L (setRefTexts t x0.2 (g x0.1)) := rfl

/-- what the loop needs of the list `L` of moved entries and the tree: unique ids, the listed ids are plain reference
nodes, keys pairwise different, the ids under a key are exactly the nodes registered with that key as text, and no rewritten
key is a key that moves -/
structure MovedOk (L : List (Bytes × List Nat)) (t : Items) : Prop where
  nd : t.ids.Nodup
  leaves : ∀ x ∈ L, RefLeaves S t x.2
  keys : keysNodup L
  own : ∀ x ∈ L, ∀ e ∈ refEntries S t, e.2 ∈ x.2 ↔ e.1 = x.1
  fresh : ∀ x ∈ L, g x.1 ∉ L.map (·.1)

variable {S g}

theorem MovedOk.step {x0 : Bytes × List Nat} {L : List (Bytes × List Nat)} {t : Items} (h : MovedOk S g (x0 :: L) t) :
    MovedOk S g L (setRefTexts t x0.2 (g x0.1)) := by
  have hl0 := h.leaves x0 List.mem_cons_self
  have hkeys := h.keys
  unfold keysNodup at hkeys
  rw [List.map_cons, List.nodup_cons] at hkeys
  refine ⟨?_, ?_, hkeys.2, ?_, ?_⟩
  · rw [setRefTexts_ids S h.nd (g x0.1) hl0]; exact h.nd
  · intro x hx
    exact setRefTexts_refLeaves S h.nd (g x0.1) hl0 x.2 (h.leaves x (List.mem_cons_of_mem _ hx))
  · intro x hx e' he'
    rw [setRefTexts_refEntries S h.nd (g x0.1) hl0] at he'
    obtain ⟨e, he, rfl⟩ := List.mem_map.mp he'
    have hne : x0.1 ≠ x.1 := fun e0 => hkeys.1 (e0 ▸ List.mem_map.mpr ⟨x, hx, rfl⟩)
    by_cases hm : e.2 ∈ x0.2
    · rw [if_pos hm]
      have he1 : e.1 = x0.1 := (h.own x0 List.mem_cons_self e he).mp hm
      constructor
      · intro hx2
        exact absurd (he1.symm.trans ((h.own x (List.mem_cons_of_mem _ hx) e he).mp hx2)) hne
      · intro hx2
        exfalso
        apply h.fresh x0 List.mem_cons_self
        show g x0.1 ∈ _
        rw [show g x0.1 = x.1 from hx2]
        exact List.mem_map.mpr ⟨x, List.mem_cons_of_mem _ hx, rfl⟩
    · rw [if_neg hm]
      exact h.own x (List.mem_cons_of_mem _ hx) e he
  · intro x hx hmem
    exact h.fresh x (List.mem_cons_of_mem _ hx) (by rw [List.map_cons]; exact List.mem_cons_of_mem _ hmem)

theorem foldTexts_ids {L : List (Bytes × List Nat)} {t : Items} (h : MovedOk S g L t) : (foldTexts g L t).ids = t.ids := by
  induction L generalizing t with
  | nil => rfl
  | cons x0 L ih =>
    rw [foldTexts_cons, ih h.step, setRefTexts_ids S h.nd (g x0.1) (h.leaves x0 List.mem_cons_self)]

theorem foldTexts_entries {L : List (Bytes × List Nat)} {t : Items} (h : MovedOk S g L t) (pre : Bytes) :
    entries S (foldTexts g L t) pre = entries S t pre := by
  induction L generalizing t with
  | nil => rfl
  | cons x0 L ih =>
    rw [foldTexts_cons, ih h.step, setRefTexts_entries' S h.nd (g x0.1) (h.leaves x0 List.mem_cons_self)]

theorem foldTexts_snOk {L : List (Bytes × List Nat)} {t : Items} (h : MovedOk S g L t) (hS : SnOk S t) (ht : topOk S t) :
    SnOk S (foldTexts g L t) ∧ topOk S (foldTexts g L t) := by
  induction L generalizing t with
  | nil => exact ⟨hS, ht⟩
  | cons x0 L ih =>
    rw [foldTexts_cons]
    obtain ⟨a, b⟩ := setRefTexts_snOk S h.nd (g x0.1) (h.leaves x0 List.mem_cons_self) hS ht
    exact ih h.step a b

/-- the registrations afterwards: the key of every registration under a moved key is rewritten -/
theorem foldTexts_refEntries {L : List (Bytes × List Nat)} {t : Items} (h : MovedOk S g L t) :
    refEntries S (foldTexts g L t) =
      (refEntries S t).map fun e => if e.1 ∈ L.map (·.1) then (g e.1, e.2) else e := by
  induction L generalizing t with
  | nil => simp only [foldTexts, List.foldl_nil, List.map_nil, List.not_mem_nil, if_false, List.map_id']
  | cons x0 L ih =>
    rw [foldTexts_cons, ih h.step, setRefTexts_refEntries S h.nd (g x0.1) (h.leaves x0 List.mem_cons_self), List.map_map]
    apply List.map_congr_left
    intro e he
    simp only [Function.comp, List.map_cons, List.mem_cons]
    have hown := h.own x0 List.mem_cons_self e he
    by_cases hm : e.2 ∈ x0.2
    · have he1 : e.1 = x0.1 := hown.mp hm
      have hfr : g x0.1 ∉ L.map (·.1) := fun hx =>
        h.fresh x0 List.mem_cons_self (by rw [List.map_cons]; exact List.mem_cons_of_mem _ hx)
      rw [if_pos hm]
      simp only [if_neg hfr, he1, true_or, if_true]
    · have he1 : ¬ e.1 = x0.1 := fun e0 => hm (hown.mpr e0)
      rw [if_neg hm]
      simp only [he1, false_or]

/-- a plain reference node afterwards: same header, its text re-keyed if it was a moved key -/
theorem foldTexts_occ {L : List (Bytes × List Nat)} {t : Items} (h : MovedOk S g L t) (hd : Hdr) (p : Bytes)
    (href : S.isRef hd.ety.typ = true) (hmode : S.mode hd.ety.typ = .characters ∨ S.mode hd.ety.typ = .mixed)
    (ho : Occ hd (.text (.str p) .nil) t) :
    Occ hd (.text (.str (if p ∈ L.map (·.1) then g p else p)) .nil) (foldTexts g L t) := by
  induction L generalizing t p with
  | nil =>
    simp only [List.map_nil, List.not_mem_nil, if_false]
    exact ho
  | cons x0 L ih =>
    rw [foldTexts_cons]
    have hl0 := h.leaves x0 List.mem_cons_self
    have hmem : (p, hd.id) ∈ refEntries S t :=
      refOf_mem_refEntries S t hd _ ho _ (by rw [refOf_str S hd p href hmode]; exact List.mem_singleton.mpr rfl)
    have hown := h.own x0 List.mem_cons_self (p, hd.id) hmem
    simp only at hown
    by_cases hm : hd.id ∈ x0.2
    · have hp : p = x0.1 := hown.mp hm
      have ho' := setRefTexts_occ_mem S h.nd (g x0.1) hl0 hd _ ho hm
      have hfr : g x0.1 ∉ L.map (·.1) := fun hx =>
        h.fresh x0 List.mem_cons_self (by rw [List.map_cons]; exact List.mem_cons_of_mem _ hx)
      have := ih h.step (g x0.1) ho'
      rw [if_neg hfr] at this
      rw [hp, List.map_cons, if_pos List.mem_cons_self]
      exact this
    · have hp : ¬ p = x0.1 := fun e0 => hm (hown.mpr e0)
      have ho' := setRefTexts_occ_not_mem S h.nd (g x0.1) hl0 hd _ ho hm
      have := ih h.step p ho'
      simp only [List.map_cons, List.mem_cons, hp, false_or]
      exact this

end moved

/-! ### from the exact map to the hypotheses of the loop -/

section exact
variable (S : Spec)

/-- under the SHORT-NAME discipline an element called SHORT-NAME is not a reference element -/
theorem occ_sn_not_ref (hR : RefWF S) (its : Items) (hS : SnOk S its)
    (ht : ∀ h k, TopEl h k its → h.name = S.nmShortName → S.isRef h.ety.typ = false)
    (h : Hdr) (k : Items) (ho : Occ h k its) (hn : h.name = S.nmShortName) : S.isRef h.ety.typ = false := by
  induction its with
  | nil => exact ho.elim
  | text _ r ih => exact ih hS ht ho
  | elem hd kk r ihk ihr =>
    rcases ho with ⟨rfl, rfl⟩ | ho | ho
    · exact ht _ _ (Or.inl ⟨rfl, rfl⟩) hn
    · refine ihk hS.2.1 ?_ ho
      intro h0 k0 htop hn0
      have hko := hS.1
      cases kk with
      | nil => exact htop.elim
      | text _ rest => exact absurd hn0 (noSnTop_topEl S rest hko h0 k0 htop)
      | elem sh sk rest =>
        rcases htop with ⟨rfl, rfl⟩ | htop
        · obtain ⟨⟨hnamed, _, hsub, htyp⟩, _⟩ := hko.1 hn0
          rw [htyp]
          exact hR.sn_not_ref _ _ hnamed hsub
        · exact absurd hn0 (noSnTop_topEl S rest hko.2 h0 k0 htop)
    · exact ihr hS.2.2 (fun h0 k0 htop => ht h0 k0 (Or.inr htop)) ho

/-- a key with a non-empty list is a key -/
theorem key_of_refsGet_ne (rs : List (Bytes × List Nat)) (q : Bytes) (h : refsGet rs q ≠ []) : q ∈ rs.map (·.1) := by
  cases hd : decide (q ∈ rs.map (·.1)) with
  | true => exact of_decide_eq_true hd
  | false => exact absurd (refsGet_of_not_key rs q (of_decide_eq_false hd)) h

/-- the registered pair of a listed referrer -/
theorem exact_mem_of_listed {rs : List (Bytes × List Nat)} {t : Items} (hx : RefsExact S rs t) (x : Bytes × List Nat)
    (hxm : x ∈ rs) (id : Nat) (hid : id ∈ x.2) : (x.1, id) ∈ refEntries S t := by
  have hg : refsGet rs x.1 = x.2 := refsGet_of_mem rs x.1 x.2 hx.1 hxm
  have hc : 1 ≤ (refsGet rs x.1).count id := by rw [hg]; exact List.count_pos_iff.mpr hid
  rw [hx.2.2 x.1 id] at hc
  exact List.count_pos_iff.mp hc

theorem exact_listed_of_mem {rs : List (Bytes × List Nat)} {t : Items} (hx : RefsExact S rs t) (p : Bytes) (id : Nat)
    (hm : (p, id) ∈ refEntries S t) : id ∈ refsGet rs p := by
  have hc : 1 ≤ (refEntries S t).count (p, id) := List.count_pos_iff.mpr hm
  rw [← hx.2.2 p id] at hc
  exact List.count_pos_iff.mp hc

theorem mem_movedRefs {old : Bytes} {rs : List (Bytes × List Nat)} {x : Bytes × List Nat} (h : x ∈ movedRefs old rs) :
    x ∈ rs ∧ ∃ s, pathSuffix old x.1 = some s := by
  unfold movedRefs at h
  obtain ⟨h1, h2⟩ := List.mem_filter.mp h
  refine ⟨h1, ?_⟩
  cases hs : pathSuffix old x.1 with
  | none => rw [hs] at h2; cases h2
  | some s => exact ⟨s, rfl⟩

/-- the exact map of a tree with unique ids under the discipline satisfies what the loop needs -/
theorem movedOk_of_exact (hR : RefWF S) (old new : Bytes) (rs : List (Bytes × List Nat)) (t : Items)
    (hn : t.ids.Nodup) (hS : SnOk S t)
    (ht : ∀ h k, TopEl h k t → h.name = S.nmShortName → S.isRef h.ety.typ = false)
    (hx : RefsExact S rs t)
    (hnd : ∀ e ∈ rs, ∀ s, pathSuffix old e.1 = some s → pathSuffix old (new ++ s) = none) :
    MovedOk S (rekey old new) (movedRefs old rs) t := by
  refine ⟨hn, ?_, keysNodup_filter rs _ hx.1, ?_, ?_⟩
  · intro x hxm id hid
    obtain ⟨hxr, _⟩ := mem_movedRefs hxm
    have hm := exact_mem_of_listed S hx x hxr id hid
    obtain ⟨h, k, ho, hmem⟩ := (refEntries_mem_iff S t x.1 id).mp hm
    obtain ⟨he, href, hcd⟩ := (mem_refOf_iff S h k x.1 id).mp hmem
    have hk := charData_some_shape S h k _ hcd
    subst hk
    refine ⟨h, x.1, ho, he, href, ?_⟩
    intro hname
    rw [occ_sn_not_ref S hR t hS ht h _ ho hname] at href
    cases href
  · intro x hxm e he
    obtain ⟨hxr, _⟩ := mem_movedRefs hxm
    constructor
    · intro hid
      have hm := exact_mem_of_listed S hx x hxr e.2 hid
      have hnd2 : ((refEntries S t).map (·.2)).Nodup := List.Nodup.sublist (refEntries_ids_sublist S t) hn
      have := eq_of_nodup_map_snd (refEntries S t) hnd2 e (x.1, e.2) he hm rfl
      rw [this]
    · intro he1
      have hm : (x.1, e.2) ∈ refEntries S t := by rw [← he1]; exact he
      have := exact_listed_of_mem S hx x.1 e.2 hm
      rwa [refsGet_of_mem rs x.1 x.2 hx.1 hxr] at this
  · intro x hxm hmem
    obtain ⟨hxr, s, hs⟩ := mem_movedRefs hxm
    obtain ⟨y, hym, hy⟩ := List.mem_map.mp hmem
    obtain ⟨_, s', hs'⟩ := mem_movedRefs hym
    rw [rekey_some old new x.1 s hs] at hy
    rw [hy, hnd x hxr s hs] at hs'
    cases hs'

/-! ### counting through the key rewriting -/

/-- the map as a list of (key, referrer) pairs -/
def flatRefs (rs : List (Bytes × List Nat)) : List (Bytes × Nat) := rs.flatMap fun e => e.2.map fun i => (e.1, i)

theorem count_map_pair (a p : Bytes) (l : List Nat) (id : Nat) :
    (l.map fun i => (a, i)).count (p, id) = if a = p then l.count id else 0 := by
  induction l with
  | nil => simp only [List.map_nil, List.count_nil, ite_self]
  | cons i l ih =>
    rw [List.map_cons, List.count_cons, List.count_cons, ih]
    by_cases hap : a = p
    · subst hap
      by_cases hi : i = id
      · subst hi; simp
      · have : ((a, i) == (a, id)) = false := by simpa using hi
        have h2 : (i == id) = false := by simpa using hi
        simp [this, h2]
    · have : ((a, i) == (p, id)) = false := by
        apply Bool.eq_false_iff.mpr
        intro hb
        exact hap (Prod.mk.inj (eq_of_beq hb)).1
      simp [this, hap]

theorem flatRefs_count_map (φ : Bytes → Bytes) (rs : List (Bytes × List Nat)) (p : Bytes) (id : Nat) :
    ((flatRefs rs).map fun x => (φ x.1, x.2)).count (p, id) =
      ((rs.filter fun e => φ e.1 == p).map fun e => e.2.count id).sum := by
  induction rs with
  | nil => rfl
  | cons e es ih =>
    have hf : flatRefs (e :: es) = (e.2.map fun i => (e.1, i)) ++ flatRefs es := by
      simp only [flatRefs, List.flatMap_cons]
    rw [hf, List.map_append, List.count_append, ih, List.map_map, List.filter_cons]
    have hm : ((fun x : Bytes × Nat => (φ x.1, x.2)) ∘ fun i => (e.1, i)) = fun i => (φ e.1, i) := rfl
    rw [hm, count_map_pair]
    by_cases he : φ e.1 = p
    · have hb : (φ e.1 == p) = true := by simpa using he
      rw [if_pos he, hb, if_pos rfl, List.map_cons, List.sum_cons]
    · have hb : (φ e.1 == p) = false := by simpa using he
      rw [if_neg he, hb]
      simp

theorem flatRefs_count (rs : List (Bytes × List Nat)) (hn : keysNodup rs) (q : Bytes) (id : Nat) :
    (flatRefs rs).count (q, id) = (refsGet rs q).count id := by
  have h := flatRefs_count_map (fun b => b) rs q id
  have hid : ((flatRefs rs).map fun x => ((fun b => b) x.1, x.2)) = flatRefs rs := by
    exact List.map_id' _
  rw [hid] at h
  rw [h, refsGet_count_csum rs hn q id]
  rfl

/-- an exact map, as a list of pairs, is a permutation of the registrations of the tree -/
theorem flatRefs_perm {rs : List (Bytes × List Nat)} {t : Items} (hx : RefsExact S rs t) :
    (flatRefs rs).Perm (refEntries S t) := by
  rw [List.perm_iff_count]
  intro a
  obtain ⟨q, id⟩ := a
  rw [flatRefs_count rs hx.1 q id, hx.2.2 q id]

end exact

/-! ### path segments: a rewritten key is not rewritten again -/

/-- two names without '/' that are followed by segment boundaries at the same place are equal -/
theorem seg_eq (a b s s' : Bytes) (ha : 47 ∉ a) (hb : 47 ∉ b) (hs : s = [] ∨ s.head? = some 47)
    (hs' : s' = [] ∨ s'.head? = some 47) (h : a ++ s = b ++ s') : a = b := by
  rcases List.append_eq_append_iff.mp h with ⟨a', h1, h2⟩ | ⟨c', h1, h2⟩
  · -- b = a ++ a', s = a' ++ s'
    cases a' with
    | nil => rw [h1, List.append_nil]
    | cons y a'' =>
      exfalso
      rcases hs with hs | hs
      · rw [hs] at h2; cases h2
      · rw [h2] at hs
        have hy : y = 47 := by simpa using hs
        subst hy
        apply hb
        rw [h1]
        exact List.mem_append_right _ List.mem_cons_self
  · cases c' with
    | nil => rw [h1, List.append_nil]
    | cons y c'' =>
      exfalso
      rcases hs' with hs' | hs'
      · rw [hs'] at h2; cases h2
      · rw [h2] at hs'
        have hy : y = 47 := by simpa using hs'
        subst hy
        apply ha
        rw [h1]
        exact List.mem_append_right _ List.mem_cons_self

/-- after `…/cur` has been renamed to `…/nm` (names without '/', `cur ≠ nm`) no rewritten key lies at or below the old path -/
theorem rename_no_return (b cur nm s : Bytes) (hc : 47 ∉ cur) (hn : 47 ∉ nm) (hne : cur ≠ nm)
    (hs : s = [] ∨ s.head? = some 47) : pathSuffix (b ++ 47 :: cur) ((b ++ 47 :: nm) ++ s) = none := by
  cases h : pathSuffix (b ++ 47 :: cur) ((b ++ 47 :: nm) ++ s) with
  | none => rfl
  | some s' =>
    exfalso
    obtain ⟨h1, h2⟩ := pathSuffix_some _ _ _ h
    have h3 : nm ++ s = cur ++ s' := by
      have e1 : (b ++ 47 :: nm) ++ s = (b ++ [47]) ++ (nm ++ s) := by simp
      have e2 : (b ++ 47 :: cur) ++ s' = (b ++ [47]) ++ (cur ++ s') := by simp
      rw [e1, e2] at h1
      exact List.append_cancel_left h1
    exact hne (seg_eq nm cur s s' hn hc hs h2 h3).symm

/-! ### the located named element -/

theorem Occ.trans {h0 h1 : Hdr} {k0 k1 : Items} {its : Items} (ho : Occ h0 k0 its) (hi : Occ h1 k1 k0) : Occ h1 k1 its := by
  induction its with
  | nil => exact ho.elim
  | text _ r ih => exact ih ho
  | elem hd kk r ihk ihr =>
    rcases ho with ⟨rfl, rfl⟩ | ho | ho
    · exact Or.inr (Or.inl hi)
    · exact Or.inr (Or.inl (ihk ho))
    · exact Or.inr (Or.inr (ihr ho))

section ctx
variable (S : Spec) (vOk : Nat)

/-- the named element navigation found, its SHORT-NAME, its path -/
theorem rename_ctx {nid : Nat} {m : Model} (hm : MInv S vOk nid m) (x : Nat) (c : List (Hdr × Items))
    (hc : m.rootItems.chain x = some c) (cur : Bytes) (hcur : itemName S (lastOf c).1 (lastOf c).2 = some cur)
    (sh : Hdr) (sk rest : Items) (hk : (lastOf c).2 = .elem sh sk rest) (hsn : sh.name = S.nmShortName) (nm : Bytes) :
    ∃ b, sk = .text (.str cur) .nil ∧ 47 ∉ cur ∧ pathOfChain S c = b ++ 47 :: cur ∧ renNew S c nm = b ++ 47 :: nm ∧
      findNamed S m.rootItems [] x = some (pathOfChain S c, cur, .elem sh (.text (.str cur) .nil) rest) ∧
      Occ sh (.text (.str cur) .nil) m.rootItems ∧
      S.isNamed (lastOf c).1.ety.typ = true ∧ S.subAt (lastOf c).1.ety.typ 0 = .elem sh.ety.defId ∧
      sh.ety.typ = S.defType sh.ety.defId ∧ properSn S sh (.text (.str cur) .nil) := by
  obtain ⟨ho, hid⟩ := chain_occ x m.rootItems c hc
  obtain ⟨hko, _⟩ := kidsOk_of_occ S _ hm.sn _ _ ho
  rw [hk] at hko ho hcur
  obtain ⟨⟨hnamed, _, hsub, htyp⟩, hp⟩ := hko.1 hsn
  obtain ⟨_, n, _, hshape, _, hin, hslash⟩ := (itemName_of_kidsOk S _ _ hko).1 hsn
  rw [hcur] at hin
  cases hin
  have hsk : sk = .text (.str cur) .nil := by
    injection hshape with _ h2 _
  subst hsk
  have hfn := findNamed_chain S x m.rootItems c hc [] cur (by rw [hk]; exact hcur)
  rw [chainPre_nil, hk] at hfn
  obtain ⟨c0, hc0⟩ := findNamed_path S _ [] x _ cur _ hfn
  rw [List.nil_append] at hc0
  refine ⟨c0, rfl, hslash, hc0, ?_, hfn, ho.trans (Or.inl ⟨rfl, rfl⟩), hnamed, hsub, htyp, hp⟩
  unfold renNew
  rw [hk, hcur, hc0]
  exact take_name c0 cur nm

/-- the text of the SHORT-NAME of the named element `t` is replaced by a new name under which `t` has no sibling, and the
index is re-keyed from the old path `P` to the new path `P'`: the invariant holds again; no old key lies at or below `P'`; the
entries of the new tree are the re-keyed entries (`minv_sn_rename` of `IndexCData.lean`, stated with the new path that
`set_item_name` computes) -/
theorem minv_rename_idx (nid : Nat) (m m' : Model) (t : Nat) (hm : MInv S vOk nid m) (P oldName : Bytes) (sh : Hdr)
    (rest : Items)
    (hfn : findNamed S m.rootItems [] t = some (P, oldName, .elem sh (.text (.str oldName) .nil) rest))
    (hosh : Occ sh (.text (.str oldName) .nil) m.rootItems)
    (newName : Bytes) (hslash : 47 ∉ newName) (P' : Bytes) (hP' : P.take (P.length - oldName.length) ++ newName = P')
    (hlook : idxGet m.index P' = none)
    (hroot : m'.rootItems = m.rootItems.modify sh.id fun h0 _ => (h0, .text (.str newName) .nil))
    (hhdr : m'.rootHdr = m.rootHdr) (hiss : m'.rootIssued = m.rootIssued) (hfiles : m'.files = m.files)
    (hidx : m'.index = idxFix m.index P P') :
    MInv S vOk nid m' ∧ (∀ e ∈ m.index, pathSuffix P' e.1 = none) ∧
      entries S m'.rootItems [] = (entries S m.rootItems []).map fun e => (rekey P P' e.1, e.2) := by
  have huniq : ∀ h k, Occ h k m.rootItems → h.id = sh.id → h = sh ∧ k = .text (.str oldName) .nil :=
    fun h k ho he => occ_unique m.rootItems hm.ids h sh k _ ho hosh he
  have hf : ∀ h k, Occ h k m.rootItems → h.id = sh.id →
      ((fun (h0 : Hdr) (_ : Items) => (h0, Items.text (.str newName) .nil)) h k).1.id = h.id ∧
      ((fun (h0 : Hdr) (_ : Items) => (h0, Items.text (.str newName) .nil)) h k).2.ids = k.ids := by
    intro h k ho' he
    obtain ⟨_, rfl⟩ := huniq h k ho' he
    exact ⟨rfl, rfl⟩
  have hids : (m.rootItems.modify sh.id fun h0 _ => (h0, .text (.str newName) .nil)).ids = m.rootItems.ids :=
    ids_modify_same sh.id _ _ hf
  have hent := entries_rename S m.rootItems hm.sn hm.ids [] hm.keys t P oldName sh rest hfn newName hslash
  rw [hP'] at hent
  have hPmem : (P, t) ∈ entries S m.rootItems [] := findNamed_mem S _ [] t _ hfn
  have hP'mem : (P', t) ∈ entries S (m.rootItems.modify sh.id fun h0 _ => (h0, .text (.str newName) .nil)) [] := by
    rw [hent]
    refine List.mem_map.mpr ⟨(P, t), hPmem, ?_⟩
    simp only [rekey_some P P' P [] (pathSuffix_self P), List.append_nil]
  have hP'shape : P' = [] ∨ P'.head? = some 47 := by
    right
    obtain ⟨c0, hc0⟩ := findNamed_path S _ [] t P oldName _ hfn
    rw [← hP', hc0, take_name]
    cases c0 with
    | nil => rfl
    | cons a c0' =>
      obtain ⟨s, hs⟩ := entries_key_shape S _ [] P t hPmem
      rw [hc0] at hs
      simp only [List.nil_append, List.cons_append, List.cons.injEq] at hs
      simp only [List.nil_append, List.cons_append, List.head?_cons, hs.1]
  have hfree : ∀ e ∈ m.index, pathSuffix P' e.1 = none := by
    intro e he
    cases hs : pathSuffix P' e.1 with
    | none => rfl
    | some s =>
      exfalso
      have hmem : (e.1, e.2) ∈ entries S m.rootItems [] :=
        (hm.exact e.1 e.2).mp ((idxGet_iff_mem m.index hm.idxKeys e.1 e.2).mpr he)
      have hpre : pathSuffix [] P' = some P' := by
        have := pathSuffix_append [] P' hP'shape
        rwa [List.nil_append] at this
      have hne : P' ≠ [] := by
        intro e0
        obtain ⟨s0, hs0⟩ := entries_key_shape S _ [] P' t hP'mem
        rw [e0] at hs0
        cases hs0
      obtain ⟨j, hj⟩ := entries_prefix_closed S m.rootItems hm.sn [] P' e.1 e.2 hmem s hs P' hpre hne
      rw [(hm.exact P' j).mpr hj] at hlook
      cases hlook
  have hexact : ∀ q i, idxGet m'.index q = some i ↔
      (q, i) ∈ entries S (m.rootItems.modify sh.id fun h0 _ => (h0, .text (.str newName) .nil)) [] := by
    intro q i
    rw [hidx, idxFix_get m.index P P' hm.idxKeys hfree q i, hent, List.mem_map]
    constructor
    · rintro ⟨q0, h1, h2⟩
      exact ⟨(q0, i), (hm.exact q0 i).mp h1, by rw [← h2]⟩
    · rintro ⟨⟨q0, i0⟩, h1, h2⟩
      obtain ⟨h3, h4⟩ := Prod.mk.inj h2
      simp only at h3 h4
      subst h4
      exact ⟨q0, (hm.exact q0 i0).mpr h1, h3⟩
  refine ⟨?_, hfree, by rw [hroot]; exact hent⟩
  refine minv_modify_idx S vOk nid m m' sh.id _ hm hroot hhdr hiss hfiles ?_ hf ?_ ?_ hexact
  · intro h k ho' he
    refine ⟨rfl, rfl, ?_, fun _ _ => ⟨trivial, trivial⟩⟩
    intro _ hp
    obtain ⟨p1, p2, p3, _⟩ := hp
    exact ⟨p1, p2, p3, newName, rfl, hslash⟩
  · refine keysNodup_of_functional _ (entries_ids_nodup S _ (hids ▸ hm.ids) []) ?_
    intro q i j hi hj
    have h1 := (hexact q i).mpr hi
    have h2 := (hexact q j).mpr hj
    rw [h1] at h2
    exact Option.some.inj h2
  · rw [hidx]; exact idxFix_keysNodup m.index P P' hm.idxKeys hfree

/-- a model that shows the same ids, entries and root header as one that satisfies the invariant, obeys the discipline and
has the same index, satisfies it -/
theorem minv_same_view (nid : Nat) (m1 m' : Model) (hm1 : MInv S vOk nid m1) (hids : m'.rootItems.ids = m1.rootItems.ids)
    (hent : entries S m'.rootItems [] = entries S m1.rootItems []) (hsn : SnOk S m'.rootItems)
    (hhdr : m'.rootHdr = m1.rootHdr) (hidx : m'.index = m1.index) (hiss : m'.rootIssued = m1.rootIssued)
    (hfiles : m'.files = m1.files) : MInv S vOk nid m' := by
  refine ⟨?_, ?_, ?_, ?_, ?_, hsn, ?_, ?_, ?_⟩
  · rw [hfiles]; exact hm1.vers
  · rw [hids]; exact hm1.ids
  · intro hi; rw [hids]; exact hm1.bound (hiss ▸ hi)
  · intro hi
    obtain ⟨hk, hfl⟩ := hm1.fresh (hiss ▸ hi)
    have hids' := hids
    simp only [rootItems_eq, Items.ids, hhdr, List.append_nil, List.cons.injEq, true_and] at hids'
    exact ⟨hids'.trans hk, hhdr ▸ hfl⟩
  · rw [hhdr]; exact hm1.rootName
  · rw [hent]; exact hm1.keys
  · rw [hidx]; exact hm1.idxKeys
  · intro q i; rw [hidx, hent]; exact hm1.exact q i

end ctx

/-! ### the root element through the loop -/

/-- a one-element forest whose element has the header `H` -/
def HasRoot (H : Hdr) (its : Items) : Prop := ∃ k, its = .elem H k .nil

theorem hasRoot_modify (H : Hdr) (t : Nat) (f : Hdr → Items → Hdr × Items) (hf : ∀ h k, (f h k).1 = h) (its : Items)
    (h : HasRoot H its) : HasRoot H (its.modify t f) := by
  obtain ⟨k, rfl⟩ := h
  simp only [Items.modify]
  split
  · exact ⟨_, by rw [hf]⟩
  · exact ⟨_, rfl⟩

theorem setRoot_hasRoot (m : Model) (H : Hdr) (its : Items) (h : HasRoot H its) :
    (m.setRoot its).rootItems = its ∧ (m.setRoot its).rootHdr = H ∧ (m.setRoot its).index = m.index ∧
      (m.setRoot its).refs = m.refs ∧ (m.setRoot its).files = m.files ∧ (m.setRoot its).rootIssued = m.rootIssued := by
  obtain ⟨k, rfl⟩ := h
  exact ⟨rfl, rfl, rfl, rfl, rfl, rfl⟩

/-! ### the model after a successful rename -/

section model
variable (S : Spec) (vOk : Nat)

/-- the tree after the text of the SHORT-NAME was replaced -/
def renRoot1 (m : Model) (sh : Hdr) (nm : Bytes) : Items :=
  m.rootItems.modify sh.id fun h0 _ => (h0, .text (.str nm) .nil)

/-- the situation in which `set_item_name` changes the state of the model `m`: the element `x` (chain `c`) has the item name
`cur ≠ nm`, `sh` is its SHORT-NAME element, the new name has no '/', the new path is free; index and reverse reference map of
the model are exact -/
structure RenSit (nid : Nat) (m : Model) (x : Nat) (c : List (Hdr × Items)) (cur nm : Bytes) (sh : Hdr) (sk rest : Items) :
    Prop where
  minv : MInv S vOk nid m
  rex : RefsExact S m.refs m.rootItems
  hchain : m.rootItems.chain x = some c
  hcur : itemName S (lastOf c).1 (lastOf c).2 = some cur
  hkids : (lastOf c).2 = .elem sh sk rest
  hsn : sh.name = S.nmShortName
  hne : cur ≠ nm
  hslash : 47 ∉ nm
  hlook : idxGet m.index (renNew S c nm) = none

variable {S vOk}
variable {nid : Nat} {m : Model} {x : Nat} {c : List (Hdr × Items)} {cur nm : Bytes} {sh : Hdr} {sk rest : Items}

theorem renModel_rootItems (h : HasRoot m.rootHdr (renameRefs m.refs (renRoot1 m sh nm) (pathOfChain S c) (renNew S c nm)).2) :
    (renModel S m c sh nm).rootItems = (renameRefs m.refs (renRoot1 m sh nm) (pathOfChain S c) (renNew S c nm)).2 ∧
    (renModel S m c sh nm).rootHdr = m.rootHdr ∧ (renModel S m c sh nm).files = m.files ∧
    (renModel S m c sh nm).rootIssued = m.rootIssued := by
  obtain ⟨a, b, _, _, e, f⟩ := setRoot_hasRoot m m.rootHdr _ h
  exact ⟨a, b, e, f⟩

theorem loop_hasRoot (m : Model) (sh : Hdr) (nm old new : Bytes) :
    HasRoot m.rootHdr (renameRefs m.refs (renRoot1 m sh nm) old new).2 := by
  apply renameRefs_pres (HasRoot m.rootHdr) (fun its t txt hi => hasRoot_modify _ t _ (refEdit_fst txt) its hi)
  exact hasRoot_modify _ _ _ (fun _ _ => rfl) _ ⟨m.rootKids, rfl⟩

/-- the model between the two halves of `set_item_name`: SHORT-NAME text replaced, index re-keyed, references not yet
rewritten -/
def renMid (S : Spec) (m : Model) (c : List (Hdr × Items)) (sh : Hdr) (nm : Bytes) : Model :=
  { m.setRoot (renRoot1 m sh nm) with index := idxFix m.index (pathOfChain S c) (renNew S c nm) }

/-- what is known about the two halves -/
structure RenOut (S : Spec) (vOk nid : Nat) (m : Model) (c : List (Hdr × Items)) (sh : Hdr) (nm : Bytes) : Prop where
  mid : MInv S vOk nid (renMid S m c sh nm)
  midRoot : (renMid S m c sh nm).rootItems = renRoot1 m sh nm
  free : ∀ e ∈ m.index, pathSuffix (renNew S c nm) e.1 = none
  ent1 : entries S (renRoot1 m sh nm) [] =
    (entries S m.rootItems []).map fun e => (rekey (pathOfChain S c) (renNew S c nm) e.1, e.2)
  ref1 : refEntries S (renRoot1 m sh nm) = refEntries S m.rootItems
  hnd : ∀ e ∈ m.refs, ∀ s, pathSuffix (pathOfChain S c) e.1 = some s →
    pathSuffix (pathOfChain S c) (renNew S c nm ++ s) = none
  moved : MovedOk S (rekey (pathOfChain S c) (renNew S c nm)) (movedRefs (pathOfChain S c) m.refs) (renRoot1 m sh nm)
  tree : (renModel S m c sh nm).rootItems =
    foldTexts (rekey (pathOfChain S c) (renNew S c nm)) (movedRefs (pathOfChain S c) m.refs) (renRoot1 m sh nm)
  hdr : (renModel S m c sh nm).rootHdr = m.rootHdr
  files : (renModel S m c sh nm).files = m.files
  issued : (renModel S m c sh nm).rootIssued = m.rootIssued

theorem RenSit.out (hR : RefWF S) (hs : RenSit S vOk nid m x c cur nm sh sk rest) : RenOut S vOk nid m c sh nm := by
  obtain ⟨b, hsk, hcslash, hold, hnew, hfn, hosh, hnamed, hsub, htyp, hp⟩ :=
    rename_ctx S vOk hs.minv x c hs.hchain cur hs.hcur sh sk rest hs.hkids hs.hsn nm
  have hm := hs.minv
  -- first half
  have hmidRoot : (renMid S m c sh nm).rootItems = renRoot1 m sh nm := rootItems_setRoot_modify m sh.id _
  have hP' : (pathOfChain S c).take ((pathOfChain S c).length - cur.length) ++ nm = renNew S c nm := by
    rw [hnew, hold]; exact take_name b cur nm
  obtain ⟨hmid, hfree, hent1⟩ := minv_rename_idx S vOk nid m (renMid S m c sh nm) x hm (pathOfChain S c) cur sh rest hfn hosh
    nm hs.hslash (renNew S c nm) hP' hs.hlook hmidRoot (setRoot_modify_rootHdr m sh.id _ (fun _ _ => rfl))
    (setRoot_modify_fields m sh.id _).2.2.2 (setRoot_modify_fields m sh.id _).2.2.1 rfl
  rw [hmidRoot] at hent1
  -- the SHORT-NAME is not a reference: the registrations stay
  have hshref : S.isRef sh.ety.typ = false := by rw [htyp]; exact hR.sn_not_ref _ _ hnamed hsub
  have href1 : refEntries S (renRoot1 m sh nm) = refEntries S m.rootItems := by
    apply refEntries_modify_same
    intro h k ho he
    obtain ⟨rfl, rfl⟩ := occ_unique m.rootItems hm.ids h sh k _ ho hosh he
    exact ⟨by rw [refOf_not_ref S _ _ hshref, refOf_not_ref S _ _ hshref], rfl⟩
  -- no rewritten key is rewritten again
  have hnd : ∀ e ∈ m.refs, ∀ s, pathSuffix (pathOfChain S c) e.1 = some s →
      pathSuffix (pathOfChain S c) (renNew S c nm ++ s) = none := by
    intro e _ s hse
    rw [hold, hnew]
    exact rename_no_return b cur nm s hcslash hs.hslash hs.hne (pathSuffix_some _ _ _ hse).2
  -- second half
  have hx1 : RefsExact S m.refs (renRoot1 m sh nm) := refsExact_perm S m.refs _ _ hs.rex (by rw [href1])
  have hids1 : (renRoot1 m sh nm).ids.Nodup := hmidRoot ▸ hmid.ids
  have hsn1 : SnOk S (renRoot1 m sh nm) := hmidRoot ▸ hmid.sn
  have hroot1 : HasRoot m.rootHdr (renRoot1 m sh nm) := hasRoot_modify _ _ _ (fun _ _ => rfl) _ ⟨m.rootKids, rfl⟩
  have htop1 : ∀ h k, TopEl h k (renRoot1 m sh nm) → h.name = S.nmShortName → S.isRef h.ety.typ = false := by
    obtain ⟨k1, hk1⟩ := hroot1
    rw [hk1]
    intro h k htop hn
    rcases htop with ⟨rfl, _⟩ | htop
    · exact absurd hn hm.rootName
    · exact htop.elim
  have hmoved := movedOk_of_exact S hR (pathOfChain S c) (renNew S c nm) m.refs _ hids1 hsn1 htop1 hx1 hnd
  obtain ⟨r1, r2, r3, r4⟩ := renModel_rootItems (S := S) (c := c) (loop_hasRoot m sh nm (pathOfChain S c) (renNew S c nm))
  refine ⟨hmid, hmidRoot, hfree, hent1, href1, hnd, hmoved, ?_, r2, r3, r4⟩
  rw [r1]
  exact renameRefs_tree m.refs _ _ _ hs.rex.1 hs.rex.2.1 hnd

/-- the path index of the renamed model is exact -/
theorem RenOut.minv (ho : RenOut S vOk nid m c sh nm) : MInv S vOk nid (renModel S m c sh nm) := by
  have hsn := foldTexts_snOk ho.moved (ho.midRoot ▸ ho.mid.sn) (ho.midRoot ▸ ho.mid.topOk S vOk)
  refine minv_same_view S vOk nid (renMid S m c sh nm) _ ho.mid ?_ ?_ ?_ ?_ rfl ?_ ?_
  · rw [ho.tree, foldTexts_ids ho.moved, ho.midRoot]
  · rw [ho.tree, foldTexts_entries ho.moved, ho.midRoot]
  · rw [ho.tree]; exact hsn.1
  · rw [ho.hdr]; exact (setRoot_modify_rootHdr m sh.id _ (fun _ _ => rfl)).symm
  · rw [ho.issued]; exact (setRoot_modify_fields m sh.id _).2.2.2.symm
  · rw [ho.files]; exact (setRoot_modify_fields m sh.id _).2.2.1.symm

/-- the registrations of the renamed model: every text is re-keyed -/
theorem RenOut.refEntries_eq (hs : RenSit S vOk nid m x c cur nm sh sk rest) (ho : RenOut S vOk nid m c sh nm) :
    refEntries S (renModel S m c sh nm).rootItems =
      (refEntries S m.rootItems).map fun e => (rekey (pathOfChain S c) (renNew S c nm) e.1, e.2) := by
  rw [ho.tree, foldTexts_refEntries ho.moved, ho.ref1]
  apply List.map_congr_left
  intro e he
  split
  · rfl
  · rename_i hnk
    have hin : e.2 ∈ refsGet m.refs e.1 := exact_listed_of_mem S hs.rex e.1 e.2 he
    have hkey : e.1 ∈ m.refs.map (·.1) := key_of_refsGet_ne _ _ (List.ne_nil_of_mem hin)
    obtain ⟨y, hy, hye⟩ := List.mem_map.mp hkey
    cases hps : pathSuffix (pathOfChain S c) e.1 with
    | none => rw [rekey_none _ _ _ hps]
    | some s =>
      exfalso
      apply hnk
      refine List.mem_map.mpr ⟨y, ?_, hye⟩
      unfold movedRefs
      exact List.mem_filter.mpr ⟨hy, by rw [hye, hps]; rfl⟩

/-- the reverse reference map of the renamed model is exact -/
theorem RenOut.rexact (hs : RenSit S vOk nid m x c cur nm sh sk rest) (ho : RenOut S vOk nid m c sh nm) :
    RefsExact S (renModel S m c sh nm).refs (renModel S m c sh nm).rootItems := by
  refine ⟨renameRefs_keysNodup m.refs _ _ _ hs.rex.1 hs.rex.2.1 ho.hnd,
    renameRefs_nonempty m.refs _ _ _ hs.rex.1 hs.rex.2.1 ho.hnd, ?_⟩
  intro p id
  show (refsGet (renameRefs m.refs _ (pathOfChain S c) (renNew S c nm)).1 p).count id = _
  rw [renameRefs_count m.refs _ _ _ hs.rex.1 hs.rex.2.1 ho.hnd, ho.refEntries_eq hs,
    ← flatRefs_count_map (rekey (pathOfChain S c) (renNew S c nm)) m.refs p id]
  exact ((flatRefs_perm S hs.rex).map _).count_eq _

variable (S)

theorem refLeaf_refEdit (its : Items) (t : Nat) (txt : Bytes) (hl : RefLeaf S its) : RefLeaf S (its.modify t (refEdit txt)) := by
  apply refLeaf_modify S t _ its ?_ hl
  intro h k _ _ a b
  cases k with
  | nil => exact ⟨a, b⟩
  | text cc r => exact ⟨a, b⟩
  | elem hx kx r =>
    refine ⟨fun hr => ?_, ?_⟩
    · have := a hr
      simp [Items.childElems] at this
    · exact (refLeaf_text S _ r).mpr ((refLeaf_elem S hx kx r).mp b).2.2

/-- reference elements stay leaves (whatever the map holds) -/
theorem renModel_leaf (m : Model) (c : List (Hdr × Items)) (sh : Hdr) (nm : Bytes) (hl : RefLeaf S m.rootItems) :
    RefLeaf S (renModel S m c sh nm).rootItems := by
  rw [(renModel_rootItems (S := S) (c := c) (loop_hasRoot m sh nm (pathOfChain S c) (renNew S c nm))).1]
  apply renameRefs_pres (RefLeaf S) (fun its t txt hi => refLeaf_refEdit S its t txt hi)
  apply refLeaf_modify S _ _ _ ?_ hl
  intro h k _ _ _ _
  exact ⟨fun _ => rfl, (refLeaf_text S _ _).mpr (refLeaf_nil S)⟩

/-- the root element keeps its header -/
theorem renModel_rootHdr (m : Model) (c : List (Hdr × Items)) (sh : Hdr) (nm : Bytes) :
    (renModel S m c sh nm).rootHdr = m.rootHdr :=
  (renModel_rootItems (S := S) (c := c) (loop_hasRoot m sh nm (pathOfChain S c) (renNew S c nm))).2.1

end model

/-! ### the world -/

section world
variable (S : Spec) (V : Env) (vOk : Nat)

/-- the branch conditions of `opRename` in a world whose index and reverse reference map are exact give the situation of
the model-level lemmas -/
theorem renSit_of_branch (hH : IdxHyp S V vOk) (w : World) (hw : WInv S vOk w) (hr : WRInv S w) (x : Nat) (nm : Bytes)
    (k : Nat) (c : List (Hdr × Items)) (ver : Nat) (cur : Bytes) (sh : Hdr) (sk rest : Items)
    (hloc : locate w x = some (k, c)) (hcur : itemName S (lastOf c).1 (lastOf c).2 = some cur) (hne : cur ≠ nm)
    (hk : (lastOf c).2 = .elem sh sk rest) (hsn : sh.name = S.nmShortName)
    (hlook : idxGet (w.models[k]!).index (renNew S c nm) = none)
    (hval : ∃ sp, S.chardataSpec sh.ety.typ = some sp ∧ checkValue V (.str nm) sp ver = true) :
    w.models[k]! ∈ w.models ∧ RenSit S vOk w.nextId (w.models[k]!) x c cur nm sh sk rest := by
  obtain ⟨m, _, hm2, hmem, hc⟩ := locate_chain w x k c hloc
  rw [hm2] at hlook ⊢
  have hm := hw m hmem
  refine ⟨hmem, hm, hr m hmem, hc, hcur, hk, hsn, hne, ?_, hlook⟩
  obtain ⟨_, _, _, _, _, _, _, hnamed, hsub, htyp, _⟩ := rename_ctx S vOk hm x c hc cur hcur sh sk rest hk hsn nm
  obtain ⟨sp, hsp, hcv⟩ := hval
  exact hH.noSlash _ _ sp nm ver hnamed hsub (htyp ▸ hsp) hcv

/-- 2. `set_item_name` keeps the index invariant — in a world whose reverse reference map is exact.  (Without that
hypothesis the statement is false: the loop overwrites the content of whatever ids the map lists, see
`opRename_winv_needs_refs` in `RenameOpC06.lean`.) -/
theorem opRename_winv (hH : IdxHyp S V vOk) (hR : RefWF S) (w : World) (x : Nat) (nm : Bytes) (hw : WInv S vOk w)
    (hr : WRInv S w) : WInv S vOk (opRename S V w x nm).1 := by
  refine opRename_lift S V (WInv S vOk) w x nm hw ?_
  intro k c ver cur sh sk rest hloc _ hcur hne _ hk hsn hlook _ hval
  obtain ⟨_, hs⟩ := renSit_of_branch S V vOk hH w hw hr x nm k c ver cur sh sk rest hloc hcur hne hk hsn hlook hval
  exact winv_update S vOk w _ k _ hw (Nat.le_refl _) (hs.out hR).minv rfl

/-- the reverse reference map stays exact -/
theorem opRename_rinv (hH : IdxHyp S V vOk) (hR : RefWF S) (w : World) (x : Nat) (nm : Bytes) (hw : WInv S vOk w)
    (hr : WRInv S w) : WRInv S (opRename S V w x nm).1 := by
  refine opRename_lift S V (WRInv S) w x nm hr ?_
  intro k c ver cur sh sk rest hloc _ hcur hne _ hk hsn hlook _ hval
  obtain ⟨_, hs⟩ := renSit_of_branch S V vOk hH w hw hr x nm k c ver cur sh sk rest hloc hcur hne hk hsn hlook hval
  exact wrinv_update S w _ k _ hr ((hs.out hR).rexact hs) rfl

/-- reference elements stay leaves (no hypothesis on the map) -/
theorem opRename_leaf (w : World) (x : Nat) (nm : Bytes) (hl : WRLeaf S w) : WRLeaf S (opRename S V w x nm).1 := by
  refine opRename_lift S V (WRLeaf S) w x nm hl ?_
  intro k c ver cur sh sk rest hloc _ _ _ _ _ _ _ _ _
  exact wrleaf_update S w _ k _ hl (renModel_leaf S _ c sh nm (hl _ (locate_mem_models w x k c hloc))) rfl

/-- the root element keeps its type -/
theorem opRename_rootTy (w : World) (x : Nat) (nm : Bytes) (hT : WRootTy S w) : WRootTy S (opRename S V w x nm).1 := by
  refine opRename_lift S V (WRootTy S) w x nm hT ?_
  intro k c ver cur sh sk rest hloc _ _ _ _ _ _ _ _ _
  refine wrootTy_update S w _ k _ hT ?_ rfl
  rw [renModel_rootHdr]
  exact hT _ (locate_mem_models w x k c hloc)

/-- 3. `set_item_name` keeps the combined invariant -/
theorem opRename_cinv (hH : IdxHyp S V vOk) (hR : RefWF S) (w : World) (x : Nat) (nm : Bytes) (h : CInv S vOk w) :
    CInv S vOk (opRename S V w x nm).1 :=
  ⟨opRename_winv S V vOk hH hR w x nm h.1 h.2.1, opRename_rinv S V vOk hH hR w x nm h.1 h.2.1,
    opRename_leaf S V w x nm h.2.2.1, opRename_rootTy S V w x nm h.2.2.2⟩

end world



end AV.W
