/-
`remove_internal` (C04): with enough fuel the walk over the subtree removes exactly the keys of the subtree's index
entries from the path index, and collects exactly the headers of the subtree (detached).
-/
import AutosarVerif.Lemmas.IndexDefs

namespace AV.W
open Items

section
variable (S : Spec)

/-- `itemName` is only ever `some` for identifiable elements -/
theorem itemName_some_identifiable (h : Hdr) (k : Items) (n : Bytes) (hn : itemName S h k = some n) :
    isIdentifiable S h k = true := by
  unfold itemName at hn
  unfold isIdentifiable
  cases hnamed : S.isNamed h.ety.typ with
  | false => rw [hnamed] at hn; simp at hn
  | true =>
    rw [hnamed] at hn
    cases k with
    | nil => simp at hn
    | text c r => simp at hn
    | elem sh sk r =>
      by_cases hs : sh.name = S.nmShortName
      · simp [hs]
      · simp [hs] at hn

/-- the keys that `entries` lists -/
def entryKeys (its : Items) (pre : Bytes) : List Bytes := (entries S its pre).map (·.1)

/-- detach a header: what `remove_internal` leaves of a removed element -/
def detach (d : Hdr) : Hdr := { d with parent := .none, files := [] }

theorem entries_elem_split (h : Hdr) (k r : Items) (pre : Bytes) :
    entries S (.elem h k r) pre = entries S (.elem h k .nil) pre ++ entries S r pre := by
  simp only [entries]
  cases itemName S h k with
  | none => simp only [List.append_nil]
  | some n => simp only [List.append_nil, List.cons_append]

theorem hdrs_elem_split (h : Hdr) (k r : Items) :
    (Items.elem h k r).hdrs = (Items.elem h k .nil).hdrs ++ r.hdrs := by
  simp only [Items.hdrs, List.append_nil, List.cons_append]

/-- removing two batches of keys one after the other = removing their concatenation -/
theorem filter_keys_append (idx : List (Bytes × Nat)) (a b : List Bytes) :
    (idx.filter fun e => !(a.contains e.1)).filter (fun e => !(b.contains e.1)) =
      idx.filter fun e => !((a ++ b).contains e.1) := by
  rw [List.filter_filter]
  congr 1
  funext e
  simp only [List.contains_eq_mem, List.mem_append, Bool.decide_or, Bool.not_or]
  exact Bool.and_comm _ _

theorem idxRemove_eq_filter (idx : List (Bytes × Nat)) (p : Bytes) :
    idxRemove idx p = idx.filter fun e => !(([p] : List Bytes).contains e.1) := by
  unfold idxRemove
  congr 1
  funext e
  by_cases he : e.1 = p
  · simp [he]
  · simp [he]

theorem filter_keys_nil (idx : List (Bytes × Nat)) :
    (idx.filter fun e => !(([] : List Bytes).contains e.1)) = idx := by
  simp

/-- the step function of the inner `foldl` of `removeInternal` -/
def rmStep (fuel : Nat) (path' : Bytes) (acc : List (Bytes × Nat) × List (Bytes × List Nat) × List Hdr)
    (ch : Hdr × Items) : List (Bytes × Nat) × List (Bytes × List Nat) × List Hdr :=
  ((removeInternal S fuel ch.1 ch.2 path' acc.1 acc.2.1).1,
   (removeInternal S fuel ch.1 ch.2 path' acc.1 acc.2.1).2.1,
   acc.2.2 ++ (removeInternal S fuel ch.1 ch.2 path' acc.1 acc.2.1).2.2)

/-- one unfolding of `removeInternal`, with the fold step named -/
theorem removeInternal_succ (fuel : Nat) (h : Hdr) (kids : Items) (path : Bytes) (idx : List (Bytes × Nat))
    (rs : List (Bytes × List Nat)) :
    removeInternal S (fuel + 1) h kids path idx rs =
      kids.childElems.foldl (rmStep S fuel
        (if isIdentifiable S h kids then
          match itemName S h kids with
          | some n => path ++ [47] ++ n
          | none => path
        else path))
        ((if isIdentifiable S h kids then
          match itemName S h kids with
          | some n => idxRemove idx (path ++ [47] ++ n)
          | none => idx
        else idx),
        (if S.isRef h.ety.typ then
          match charData S h kids with
          | some (.str r) => refsRemove rs r h.id
          | _ => rs
        else rs), [detach h]) := by
  rw [removeInternal]
  cases isIdentifiable S h kids <;> cases itemName S h kids <;> rfl

/-- the statement about one call, for a given amount of fuel -/
def RmSpec (fuel : Nat) : Prop :=
  ∀ (h : Hdr) (kids : Items) (path : Bytes) (idx : List (Bytes × Nat)) (rs : List (Bytes × List Nat)),
    kids.size + 1 ≤ fuel →
    (removeInternal S fuel h kids path idx rs).1 =
        (idx.filter fun e => !((entryKeys S (.elem h kids .nil) path).contains e.1)) ∧
      (removeInternal S fuel h kids path idx rs).2.2 = (Items.elem h kids .nil).hdrs.map detach

theorem size_pos (its : Items) : 1 ≤ its.size := by
  cases its <;> simp only [Items.size] <;> omega

/-- the inner fold: folding `removeInternal` over the child elements of a forest `ks` removes the keys of `entries ks`
and appends the headers of `ks` -/
theorem rmFold (fuel : Nat) (IH : RmSpec S fuel) (path' : Bytes) (ks : Items) :
    ∀ (idx : List (Bytes × Nat)) (rs : List (Bytes × List Nat)) (acc : List Hdr), ks.size ≤ fuel →
      (ks.childElems.foldl (rmStep S fuel path') (idx, rs, acc)).1 =
          (idx.filter fun e => !((entryKeys S ks path').contains e.1)) ∧
        (ks.childElems.foldl (rmStep S fuel path') (idx, rs, acc)).2.2 = acc ++ ks.hdrs.map detach := by
  induction ks with
  | nil =>
    intro idx rs acc _
    simp only [Items.childElems, List.foldl_nil, entryKeys, entries, List.map_nil, Items.hdrs, List.append_nil]
    exact ⟨(filter_keys_nil idx).symm, trivial⟩
  | text c r ih =>
    intro idx rs acc hs
    simp only [Items.size] at hs
    have := ih idx rs acc (by omega)
    simp only [Items.childElems, entryKeys, entries, Items.hdrs]
    exact this
  | elem h k r _ ihr =>
    intro idx rs acc hs
    simp only [Items.size] at hs
    have hr := size_pos r
    obtain ⟨h1, h2⟩ := IH h k path' idx rs (by omega)
    simp only [Items.childElems, List.foldl_cons]
    obtain ⟨g1, g2⟩ := ihr (rmStep S fuel path' (idx, rs, acc) (h, k)).1
      (rmStep S fuel path' (idx, rs, acc) (h, k)).2.1 (rmStep S fuel path' (idx, rs, acc) (h, k)).2.2 (by omega)
    refine ⟨?_, ?_⟩
    · rw [g1]
      simp only [rmStep]
      rw [h1, filter_keys_append]
      simp only [entryKeys]
      rw [entries_elem_split S h k r, List.map_append]
    · rw [g2]
      simp only [rmStep]
      rw [h2, hdrs_elem_split h k r, List.map_append, List.append_assoc]

theorem rmSpec_all (fuel : Nat) : RmSpec S fuel := by
  induction fuel with
  | zero =>
    intro h kids path idx rs hf
    have := size_pos kids
    omega
  | succ fuel ih =>
    intro h kids path idx rs hf
    rw [removeInternal_succ]
    cases hn : itemName S h kids with
    | none =>
      have hp : (if isIdentifiable S h kids = true then
          (match (none : Option Bytes) with | some n => path ++ [47] ++ n | none => path) else path) = path := by
        cases isIdentifiable S h kids <;> rfl
      have hi : (if isIdentifiable S h kids = true then
          (match (none : Option Bytes) with | some n => idxRemove idx (path ++ [47] ++ n) | none => idx) else idx)
            = idx := by
        cases isIdentifiable S h kids <;> rfl
      rw [hp, hi]
      obtain ⟨f1, f2⟩ := rmFold S fuel ih path kids idx
        (if S.isRef h.ety.typ then
          match charData S h kids with
          | some (.str r) => refsRemove rs r h.id
          | _ => rs
        else rs) [detach h] (by omega)
      refine ⟨?_, ?_⟩
      · rw [f1]
        simp only [entryKeys, entries, hn, List.append_nil]
      · rw [f2]
        simp only [Items.hdrs, List.append_nil, List.map_cons, List.cons_append, List.nil_append]
    | some n =>
      have hid := itemName_some_identifiable S h kids n hn
      simp only [hid, if_true]
      obtain ⟨f1, f2⟩ := rmFold S fuel ih (path ++ [47] ++ n) kids (idxRemove idx (path ++ [47] ++ n))
        (if S.isRef h.ety.typ then
          match charData S h kids with
          | some (.str r) => refsRemove rs r h.id
          | _ => rs
        else rs) [detach h] (by omega)
      refine ⟨?_, ?_⟩
      · rw [f1, idxRemove_eq_filter, filter_keys_append]
        simp only [entryKeys, entries, hn, List.append_nil, List.map_cons, List.cons_append, List.nil_append]
      · rw [f2]
        simp only [Items.hdrs, List.append_nil, List.map_cons, List.cons_append, List.nil_append]

/-- MAIN 1: with enough fuel, the index after `remove_internal` is the old index without the keys of the subtree's
entries -/
theorem removeInternal_index (fuel : Nat) (h : Hdr) (kids : Items) (path : Bytes) (idx : List (Bytes × Nat))
    (rs : List (Bytes × List Nat)) (hfuel : kids.size + 1 ≤ fuel) :
    (removeInternal S fuel h kids path idx rs).1 =
      idx.filter fun e => !(((entries S (.elem h kids .nil) path).map (·.1)).contains e.1) :=
  (rmSpec_all S fuel h kids path idx rs hfuel).1

/-- MAIN 2: the collected headers are exactly the headers of the subtree, detached -/
theorem removeInternal_dead (fuel : Nat) (h : Hdr) (kids : Items) (path : Bytes) (idx : List (Bytes × Nat))
    (rs : List (Bytes × List Nat)) (hfuel : kids.size + 1 ≤ fuel) :
    (removeInternal S fuel h kids path idx rs).2.2 =
      (Items.elem h kids .nil).hdrs.map fun d => { d with parent := .none, files := [] } :=
  (rmSpec_all S fuel h kids path idx rs hfuel).2

end

end AV.W
