/-
The fact about the specification that `Lemmas/LoadInv.lean` needs beyond `RefWF` ("a reference type has no sub-elements",
so a reference element of an accepted document is a leaf), on the real tables, by kernel evaluation of a scan.
-/
import AutosarVerif.Gen.SpecData
import AutosarVerif.Lemmas.RefWfCheck

namespace AV
open AV.W

namespace PackedSpec

/-- a reference type has no sub-entries -/
def refNoSubB (P : PackedSpec) : Bool :=
  decide (P.datatypes < 2 ^ (176 * P.nTypes)) &&
  (List.range P.nTypes).all (fun t => !P.toSpec.isRef t || P.toSpec.subCount t == 0)

theorem refNoSubB_sound (P : PackedSpec) (h : P.refNoSubB = true) : ∀ t, P.toSpec.isRef t = true → P.toSpec.subCount t = 0 := by
  unfold refNoSubB at h
  rw [Bool.and_eq_true, decide_eq_true_eq, List.all_eq_true] at h
  obtain ⟨hlt, hall⟩ := h
  intro t hr
  by_cases ht : t < P.nTypes
  · have h1 := hall t (List.mem_range.mpr ht)
    simp only [hr, Bool.not_true, Bool.false_or, beq_iff_eq] at h1
    exact h1
  · have := isRef_of_ge P hlt t (Nat.le_of_not_lt ht)
    rw [hr] at this
    cases this

end PackedSpec

namespace Gen

theorem realSpec_refNoSubOk : SpecData.packed.refNoSubB = true := by decide +kernel

/-- on the real tables a reference type has no sub-elements -/
theorem realSpec_refNoSub : ∀ t, realSpec.isRef t = true → realSpec.subCount t = 0 :=
  PackedSpec.refNoSubB_sound SpecData.packed realSpec_refNoSubOk

end Gen
end AV
