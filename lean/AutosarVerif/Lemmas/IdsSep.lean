/-
C05, second sentence: the hypothesis `IdsSep` of `Lemmas/CheckRefs.lean` ("an element of a model other than its root occurs
in no other model") is an invariant of the step function: it holds in EVERY state reachable from the empty world by a guarded
history of the seventeen core operations.  Proved together with two facts about the ids it needs on the way (`SepInv`): the
root of a model without a file has the id 0, and the ids of the non-root elements are positive; and alongside the index
invariant `WInv` (element ids of a model that has a file are below `nextId`; a model without a file has no content).
-/
import AutosarVerif.Lemmas.CheckRefs
import AutosarVerif.Lemmas.RefsReach

namespace AV.W
open Items

/-- ids are not shared between models, the root of a model without a file has the id 0, non-root ids are positive -/
def SepInv (w : World) : Prop :=
  IdsSep w ∧ (∀ m ∈ w.models, m.rootIssued = false → m.rootHdr.id = 0) ∧ (∀ m ∈ w.models, ∀ x ∈ m.rootKids.ids, 0 < x)

/-- how the ids of the edited model may change in a step from a world whose next id is `nid`: new ids are at least `nid`,
non-root ids appear only in a model whose root has its protocol id, a root without protocol id stays as it is -/
def Grow (nid : Nat) (m m' : Model) : Prop :=
  (∀ x ∈ m'.rootKids.ids, x ∈ m.rootKids.ids ∨ (nid ≤ x ∧ m.rootIssued = true)) ∧
  (∀ x ∈ m'.rootItems.ids, x ∈ m.rootItems.ids ∨ nid ≤ x) ∧
  (m'.rootIssued = false → m.rootIssued = false ∧ m'.rootHdr.id = m.rootHdr.id)

theorem rootItems_ids (m : Model) : m.rootItems.ids = m.rootHdr.id :: m.rootKids.ids := by
  simp [Model.rootItems, Items.ids]

theorem sepInv_empty : SepInv emptyWorld :=
  ⟨fun j k mj mk _ hj => by simp [emptyWorld] at hj, fun m hm => by simp [emptyWorld] at hm,
    fun m hm => by simp [emptyWorld] at hm⟩

section
variable (S : Spec) (V : Env) (vOk : Nat) (rootAttrs : List (Nat × CDv))

/-- one model is edited -/
theorem sep_update (w w' : World) (k : Nat) (m m' : Model) (hw : WInv S vOk w) (hs : SepInv w)
    (hm : w.models[k]? = some m) (hmodels : w'.models = w.models.set k m') (hg : Grow w.nextId m m') : SepInv w' := by
  obtain ⟨hsep, h0, hpos⟩ := hs
  obtain ⟨g1, g2, g3⟩ := hg
  have hmem : m ∈ w.models := List.mem_of_getElem? hm
  have hI := hw m hmem
  have hk : k < w.models.length := by
    rcases Nat.lt_or_ge k w.models.length with h | h
    · exact h
    · rw [List.getElem?_eq_none h] at hm; cases hm
  have hget : ∀ j mj, w'.models[j]? = some mj → (j = k ∧ mj = m') ∨ (j ≠ k ∧ w.models[j]? = some mj) := by
    intro j mj hj
    rw [hmodels] at hj
    by_cases hjk : j = k
    · subst hjk
      rw [List.getElem?_set_self hk] at hj
      injection hj with hj
      exact Or.inl ⟨rfl, hj.symm⟩
    · rw [List.getElem?_set_ne (Ne.symm hjk)] at hj
      exact Or.inr ⟨hjk, hj⟩
  -- the root of `m`, when it has its id, is below `nextId`
  have hnid : m.rootIssued = true → 0 < w.nextId := by
    intro hi
    have := hI.bound hi m.rootHdr.id (by rw [rootItems_ids]; exact List.mem_cons_self)
    omega
  refine ⟨?_, ?_, ?_⟩
  · intro j k' mj mk hne hj hk' x hx hxj
    rcases hget j mj hj with ⟨rfl, rfl⟩ | ⟨hjk, hj0⟩ <;> rcases hget k' mk hk' with ⟨rfl, rfl⟩ | ⟨hkk, hk0⟩
    · exact hne rfl
    · -- `x` below the root of an untouched model, and in the edited one
      have hmk := hw mk (List.mem_of_getElem? hk0)
      have hiss : mk.rootIssued = true := by
        cases hi : mk.rootIssued with
        | true => rfl
        | false => rw [(hmk.fresh hi).1] at hx; cases hx
      rcases g2 x hxj with h1 | h1
      · exact hsep j k' m mk hne hm hk0 x hx h1
      · have := hmk.bound hiss x (by rw [rootItems_ids]; exact List.mem_cons_of_mem _ hx)
        omega
    · -- `x` below the root of the edited model, and in an untouched one
      have hmj := hw mj (List.mem_of_getElem? hj0)
      rcases g1 x hx with h1 | ⟨h1, hiss⟩
      · exact hsep j k' mj m hne hj0 hm x h1 hxj
      · cases hi : mj.rootIssued with
        | true => have := hmj.bound hi x hxj; omega
        | false =>
          rw [rootItems_ids, (hmj.fresh hi).1, h0 mj (List.mem_of_getElem? hj0) hi] at hxj
          simp only [List.mem_cons, List.not_mem_nil, or_false] at hxj
          have := hnid hiss
          omega
    · exact hsep j k' mj mk hne hj0 hk0 x hx hxj
  · intro m1 hm1 hi
    rw [hmodels] at hm1
    rcases List.mem_or_eq_of_mem_set hm1 with h | h
    · exact h0 m1 h hi
    · subst h
      obtain ⟨a, b⟩ := g3 hi
      rw [b]; exact h0 m hmem a
  · intro m1 hm1 x hx
    rw [hmodels] at hm1
    rcases List.mem_or_eq_of_mem_set hm1 with h | h
    · exact hpos m1 h x hx
    · subst h
      rcases g1 x hx with h1 | ⟨h1, hiss⟩
      · exact hpos m hmem x h1
      · have := hnid hiss
        omega

theorem sep_congr (w w' : World) (hs : SepInv w) (hmodels : w'.models = w.models) : SepInv w' := by
  obtain ⟨hsep, h0, hpos⟩ := hs
  refine ⟨?_, ?_, ?_⟩
  · intro j k mj mk hne hj hk
    rw [hmodels] at hj hk
    exact hsep j k mj mk hne hj hk
  · intro m hm; rw [hmodels] at hm; exact h0 m hm
  · intro m hm; rw [hmodels] at hm; exact hpos m hm

/-- the same ids, the same flag -/
theorem grow_same (nid : Nat) (m m' : Model) (hids : m'.rootItems.ids = m.rootItems.ids) (hiss : m'.rootIssued = m.rootIssued) :
    Grow nid m m' := by
  have h := hids
  rw [rootItems_ids, rootItems_ids] at h
  injection h with h1 h2
  refine ⟨fun x hx => Or.inl (h2 ▸ hx), fun x hx => Or.inl (hids ▸ hx), fun hi => ⟨hiss ▸ hi, h1⟩⟩

/-! ### an edit of one node -/

theorem ids_modify_sub (P : Nat → Prop) (t : Nat) (f : Hdr → Items → Hdr × Items) (its : Items)
    (hf : ∀ h k0, (f h k0).1.id = h.id ∧ ∀ y ∈ (f h k0).2.ids, y ∈ k0.ids ∨ P y) :
    ∀ y ∈ (its.modify t f).ids, y ∈ its.ids ∨ P y := by
  induction its with
  | nil => intro y hy; exact Or.inl hy
  | text c r ih => simp only [Items.modify, Items.ids]; exact ih
  | elem hd k r ihk ihr =>
    intro y hy
    simp only [Items.modify] at hy
    split at hy
    · simp only [Items.ids, List.mem_cons, List.mem_append] at hy ⊢
      rcases hy with e | e | e
      · exact Or.inl (Or.inl (e.trans (hf hd k).1))
      · rcases (hf hd k).2 y e with a | a
        · exact Or.inl (Or.inr (Or.inl a))
        · exact Or.inr a
      · rcases ihr y e with a | a
        · exact Or.inl (Or.inr (Or.inr a))
        · exact Or.inr a
    · simp only [Items.ids, List.mem_cons, List.mem_append] at hy ⊢
      rcases hy with e | e | e
      · exact Or.inl (Or.inl e)
      · rcases ihk y e with a | a
        · exact Or.inl (Or.inr (Or.inl a))
        · exact Or.inr a
      · rcases ihr y e with a | a
        · exact Or.inl (Or.inr (Or.inr a))
        · exact Or.inr a

theorem grow_modify (nid : Nat) (m m' : Model) (x : Nat) (f : Hdr → Items → Hdr × Items)
    (hroot : m'.rootItems = m.rootItems.modify x f) (hiss : m'.rootIssued = m.rootIssued)
    (hf : ∀ h k0, (f h k0).1.id = h.id ∧ ∀ y ∈ (f h k0).2.ids, y ∈ k0.ids ∨ (nid ≤ y ∧ m.rootIssued = true)) :
    Grow nid m m' := by
  have hkids : m'.rootHdr.id = m.rootHdr.id ∧
      ∀ y ∈ m'.rootKids.ids, y ∈ m.rootKids.ids ∨ (nid ≤ y ∧ m.rootIssued = true) := by
    rw [rootItems_eq m', rootItems_eq m] at hroot
    by_cases he : m.rootHdr.id = x
    · rw [modify_elem_eq x f _ _ _ he] at hroot
      injection hroot with a b _
      rw [a, b]
      exact hf _ _
    · rw [modify_elem_ne x f _ _ _ he] at hroot
      injection hroot with a b _
      rw [a, b]
      exact ⟨rfl, ids_modify_sub _ x f _ hf⟩
  refine ⟨hkids.2, ?_, fun hi => ⟨hiss ▸ hi, hkids.1⟩⟩
  intro y hy
  rw [rootItems_ids] at hy ⊢
  rcases List.mem_cons.mp hy with e | e
  · exact Or.inl (by rw [e, hkids.1]; exact List.mem_cons_self)
  · rcases hkids.2 y e with a | a
    · exact Or.inl (List.mem_cons_of_mem _ a)
    · exact Or.inr a.1

/-- the common step of the operations that edit one located node -/
theorem sep_located (w w' : World) (x k : Nat) (c : List (Hdr × Items)) (hloc : locate w x = some (k, c)) (m' : Model)
    (f : Hdr → Items → Hdr × Items) (hw : WInv S vOk w) (hs : SepInv w) (hmodels : w'.models = w.models.set k m')
    (hroot : m'.rootItems = (w.models[k]!).rootItems.modify x f) (hiss : m'.rootIssued = (w.models[k]!).rootIssued)
    (hf : ∀ h k0, (f h k0).1.id = h.id ∧
      ∀ y ∈ (f h k0).2.ids, y ∈ k0.ids ∨ (w.nextId ≤ y ∧ (w.models[k]!).rootIssued = true)) : SepInv w' := by
  obtain ⟨m, hm1, hm2, _, _⟩ := locate_chain w x k c hloc
  rw [hm2] at hroot hiss hf
  exact sep_update S vOk w w' k m m' hw hs hm1 hmodels (grow_modify w.nextId m m' x f hroot hiss hf)

/-- the end of the proofs for the operations that edit one located node -/
macro "sep_loc" hw:ident hs:ident : tactic => `(tactic| (
  refine sep_located _ _ _ _ _ _ _ (by assumption) _ _ $hw $hs rfl (rootItems_setRoot_modify _ _ _)
    (setRoot_modify_fields _ _ _).2.2.2 ?_
  intro h0 k0
  first
    | exact ⟨rfl, fun y hy => Or.inl hy⟩
    | exact ⟨rfl, fun y hy => by simp [Items.ids] at hy⟩
    | exact ⟨(setAttrHdr_keeps4 _ _ h0 _ _ _).1, fun y hy => Or.inl hy⟩
    | (refine ⟨?_, fun y hy => Or.inl hy⟩; dsimp only; split <;> rfl)))

theorem opCData_sep (w : World) (x : Nat) (v : CDv) (hw : WInv S vOk w) (hs : SepInv w) : SepInv (opCData S V w x v).1 := by
  unfold opCData
  split
  · exact hs
  · split
    · exact hs
    · split
      · exact hs
      · split
        · exact hs
        · rename_i k c hloc
          dsimp only
          split
          · exact hs
          · split
            · exact hs
            · split
              · exact hs
              · split
                · exact hs
                · sep_loc hw hs

theorem opRmCData_sep (w : World) (x : Nat) (hw : WInv S vOk w) (hs : SepInv w) : SepInv (opRmCData S w x).1 := by
  unfold opRmCData
  repeat' (first | exact hs | split | dsimp only)
  all_goals sep_loc hw hs

theorem opAttr_sep (w : World) (x a : Nat) (v : CDv) (hw : WInv S vOk w) (hs : SepInv w) : SepInv (opAttr S V w x a v).1 := by
  unfold opAttr
  repeat' (first | exact hs | split | dsimp only)
  all_goals sep_loc hw hs

theorem opAttrS_sep (w : World) (x a : Nat) (s : Bytes) (hw : WInv S vOk w) (hs : SepInv w) :
    SepInv (opAttrS S V w x a s).1 := by
  unfold opAttrS
  repeat' (first | exact hs | split | dsimp only)
  all_goals sep_loc hw hs

theorem opRmAttr_sep (w : World) (x a : Nat) (hw : WInv S vOk w) (hs : SepInv w) : SepInv (opRmAttr S w x a).1 := by
  unfold opRmAttr
  repeat' (first | exact hs | split | dsimp only)
  all_goals first
    | exact sep_congr w _ hs rfl
    | sep_loc hw hs

theorem opComment_sep (w : World) (x : Nat) (cm : Option Bytes) (hw : WInv S vOk w) (hs : SepInv w) :
    SepInv (opComment w x cm).1 := by
  unfold opComment
  split
  · exact sep_congr w _ hs rfl
  · sep_loc hw hs

theorem mem_ids_removeAt (k0 : Items) (pos y : Nat) (hy : y ∈ (k0.removeAt pos).ids) : y ∈ k0.ids :=
  (List.Perm.mem_iff (ids_removeAt k0 pos)).mpr (List.mem_append_right _ hy)

theorem opInsText_sep (w : World) (x pos : Nat) (s : Bytes) (hw : WInv S vOk w) (hs : SepInv w) :
    SepInv (opInsText S w x pos s).1 := by
  unfold opInsText
  split
  · exact hs
  · dsimp only
    split
    · exact hs
    · split
      · exact hs
      · refine sep_located _ _ _ _ _ _ _ (by assumption) _ _ hw hs rfl (rootItems_setRoot_modify _ _ _)
          (setRoot_modify_fields _ _ _).2.2.2 ?_
        intro h0 k0
        exact ⟨rfl, fun y hy => Or.inl (by rw [ids_insertAt_text] at hy; exact hy)⟩

theorem opRmText_sep (w : World) (x pos : Nat) (hw : WInv S vOk w) (hs : SepInv w) : SepInv (opRmText S w x pos).1 := by
  unfold opRmText
  split
  · exact hs
  · dsimp only
    split
    · exact hs
    · split
      · refine sep_located _ _ _ _ _ _ _ (by assumption) _ _ hw hs rfl (rootItems_setRoot_modify _ _ _)
          (setRoot_modify_fields _ _ _).2.2.2 ?_
        intro h0 k0
        exact ⟨rfl, fun y hy => Or.inl (mem_ids_removeAt k0 pos y hy)⟩
      · exact hs

theorem opRemove_sep (w : World) (p cid : Nat) (hw : WInv S vOk w) (hs : SepInv w) : SepInv (opRemove S w p cid).1 := by
  unfold opRemove
  split
  · exact hs
  · rename_i k c hloc
    dsimp only
    split
    · rename_i pos ch ck _ _
      split
      · exact hs
      · refine sep_located S vOk w _ p k c hloc _ (fun h0 k0 => (h0, k0.removeAt pos)) hw hs rfl
          (rootItems_setRoot_modify _ _ _) (setRoot_modify_fields _ _ _).2.2.2 ?_
        intro h0 k0
        exact ⟨rfl, fun y hy => Or.inl (mem_ids_removeAt k0 pos y hy)⟩
    · exact hs

theorem opCreate_sep (w : World) (p name : Nat) (pos? : Option Nat) (hw : WInv S vOk w) (hs : SepInv w) :
    SepInv (opCreate S V w p name pos?).1 := by
  unfold opCreate
  split
  · exact hs
  · rename_i k c hloc
    obtain ⟨m, _, hm2, hmem, hc⟩ := locate_chain w p k c hloc
    have hm := hw m hmem
    dsimp only
    split
    · exact hs
    · rename_i ver hver
      have hiss : (w.models[k]!).rootIssued = true := by
        rw [hm2] at hver ⊢; exact issued_of_minVersion S V vOk hm p c hc ver hver
      split
      · exact hs
      · split
        · exact hs
        · split
          · exact hs
          · split
            · exact hs
            · refine sep_located S vOk w _ p k c hloc _ _ hw hs rfl (rootItems_setRoot_modify _ _ _)
                (setRoot_modify_fields _ _ _).2.2.2 ?_
              intro h0 k0
              refine ⟨rfl, fun y hy => ?_⟩
              have := (List.Perm.mem_iff (ids_insertAt _ .nil k0 _)).mp hy
              simp only [Items.ids, List.mem_cons, List.mem_append, List.not_mem_nil, or_false] at this
              rcases this with e | e
              · exact Or.inr ⟨Nat.le_of_eq e.symm, hiss⟩
              · exact Or.inl e

theorem opNamed_sep (w : World) (p name : Nat) (item : Bytes) (pos? : Option Nat) (hw : WInv S vOk w) (hs : SepInv w) :
    SepInv (opNamed S V w p name item pos?).1 := by
  unfold opNamed
  split
  · exact hs
  · rename_i k c hloc
    obtain ⟨m, _, hm2, hmem, hc⟩ := locate_chain w p k c hloc
    have hm := hw m hmem
    dsimp only
    split
    · exact hs
    · rename_i ver hver
      have hiss : (w.models[k]!).rootIssued = true := by
        rw [hm2] at hver ⊢; exact issued_of_minVersion S V vOk hm p c hc ver hver
      repeat' (first | (guard_target =~ SepInv w; exact hs) | split)
      all_goals (
        refine sep_located S vOk w _ p k c hloc _ _ hw hs rfl (rootItems_setRoot_modify _ _ _)
          (setRoot_modify_fields _ _ _).2.2.2 ?_
        intro h0 k0
        refine ⟨rfl, fun y hy => ?_⟩
        have := (List.Perm.mem_iff (ids_insertAt _ _ k0 _)).mp hy
        simp only [List.mem_cons, List.mem_append] at this
        rcases this with (e | e) | e
        · exact Or.inr ⟨Nat.le_of_eq e.symm, hiss⟩
        · refine Or.inr ⟨?_, hiss⟩
          repeat' split at e
          all_goals first
            | (simp only [Items.ids, List.mem_cons, List.mem_append, List.not_mem_nil, or_false] at e
               rw [e]; exact Nat.le_succ _)
            | cases e
        · exact Or.inl e)

/-! ### file operations, creation of a model -/

theorem opAddFile_sep (w : World) (x f : Nat) (hw : WInv S vOk w) (hs : SepInv w) : SepInv (opAddFile S w x f).1 := by
  unfold opAddFile
  split
  · exact hs
  · rename_i k c hloc
    obtain ⟨m, hm1, hm2, hmem, _⟩ := locate_chain w x k c hloc
    dsimp only
    repeat' (first | exact hs | split)
    all_goals (
      refine sep_update S vOk w _ k m _ hw hs hm1 rfl ?_
      rw [hm2]
      obtain ⟨h1, _, _, h4⟩ := setRoot_of_skel m _ (addPath_skel S f (c.map (·.1.id)) [] true m.rootItems)
      exact grow_same _ _ _ (by rw [h1]; exact ids_of_skel (addPath_skel S f (c.map (·.1.id)) [] true m.rootItems)) h4)

theorem opSetVersion_sep (w : World) (f ver : Nat) (hw : WInv S vOk w) (hs : SepInv w) :
    SepInv (opSetVersion S w f ver).1 := by
  unfold opSetVersion
  split
  · exact hs
  · rename_i k hk
    dsimp only
    split
    · exact hs
    · split
      · have hlt : k < w.models.length := by
          unfold fileModel at hk
          have := List.mem_of_find?_eq_some hk
          exact List.mem_range.mp this
        have hm1 : w.models[k]? = some (w.models[k]!) := by
          rw [getElem!_pos w.models k hlt]; exact List.getElem?_eq_getElem hlt
        exact sep_update S vOk w _ k _ _ hw hs hm1 rfl (grow_same _ _ _ rfl rfl)
      · exact hs

theorem newModel_sep (w : World) (hs : SepInv w) : SepInv { w with models := w.models ++ [newModel S rootAttrs] } := by
  obtain ⟨hsep, h0, hpos⟩ := hs
  have hget : ∀ (j : Nat) (mj : Model), (w.models ++ [newModel S rootAttrs])[j]? = some mj →
      w.models[j]? = some mj ∨ mj = newModel S rootAttrs := by
    intro j mj hj
    by_cases hlt : j < w.models.length
    · rw [List.getElem?_append_left hlt] at hj; exact Or.inl hj
    · rw [List.getElem?_append_right (Nat.le_of_not_lt hlt)] at hj
      have := List.mem_of_getElem? hj
      rw [List.mem_singleton] at this
      exact Or.inr this
  refine ⟨?_, ?_, ?_⟩
  · intro j k mj mk hne hj hk x hx hxj
    rcases hget k mk hk with hk0 | rfl
    · rcases hget j mj hj with hj0 | rfl
      · exact hsep j k mj mk hne hj0 hk0 x hx hxj
      · have := hpos mk (List.mem_of_getElem? hk0) x hx
        simp [newModel, Model.rootItems, Items.ids] at hxj
        omega
    · simp [newModel, Items.ids] at hx
  · intro m hm hi
    rcases List.mem_append.mp hm with h | h
    · exact h0 m h hi
    · rw [List.mem_singleton] at h; subst h; rfl
  · intro m hm x hx
    rcases List.mem_append.mp hm with h | h
    · exact hpos m h x hx
    · rw [List.mem_singleton] at h; subst h
      simp [newModel, Items.ids] at hx

theorem opMkFile_sep (w : World) (k : Nat) (name : Bytes) (ver : Nat) (valid : Bool) (hw : WInv S vOk w) (hs : SepInv w) :
    SepInv (opMkFile S w k name ver valid).1 := by
  unfold opMkFile
  split
  · exact hs
  · rename_i m hmk
    obtain ⟨hc, hsk⟩ := restrictStep_skel S w.nextFile m.rootHdr m.rootKids [] true
    have hid : (restrictStep S w.nextFile m.rootHdr m.rootKids [] true).1.id = m.rootHdr.id := (core_inj hc).1
    split
    · exact hs
    · split
      · exact hs
      · cases hiss : m.rootIssued with
        | true =>
          simp only [if_true]
          refine sep_update S vOk w _ k m _ hw hs hmk rfl ⟨?_, ?_, ?_⟩
          · intro x hx
            exact Or.inl (by rw [← ids_of_skel hsk]; exact hx)
          · intro x hx
            refine Or.inl ?_
            rw [rootItems_ids] at hx ⊢
            rw [← ids_of_skel hsk, ← hid]
            exact hx
          · intro hi; cases hi
        | false =>
          simp only [Bool.false_eq_true, if_false]
          have hsk2 := (skel_setParents (.elem w.nextId) _).trans hsk
          refine sep_update S vOk w _ k m _ hw hs hmk rfl ⟨?_, ?_, ?_⟩
          · intro x hx
            exact Or.inl (by rw [← ids_of_skel hsk2]; exact hx)
          · intro x hx
            rw [rootItems_ids] at hx ⊢
            rcases List.mem_cons.mp hx with e | e
            · exact Or.inr (Nat.le_of_eq e.symm)
            · exact Or.inl (List.mem_cons_of_mem _ (by rw [← ids_of_skel hsk2]; exact e))
          · intro hi; cases hi

/-! ### `remove_from_file`, `remove_file`: with the index invariant -/

theorem removeAll_wsep (ids : List Nat) :
    ∀ (w : World), WInv S vOk w → SepInv w → WInv S vOk (removeAll S w ids) ∧ SepInv (removeAll S w ids) := by
  induction ids with
  | nil => intro w hw hs; exact ⟨hw, hs⟩
  | cons id rest ih =>
    intro w hw hs
    simp only [removeAll]
    have h1 : WInv S vOk (match locate w id with
        | some (_, c) =>
          match c.dropLast.getLast? with
          | some (ph, _) => (opRemove S w ph.id id).1
          | none => w
        | none => w) ∧ SepInv (match locate w id with
        | some (_, c) =>
          match c.dropLast.getLast? with
          | some (ph, _) => (opRemove S w ph.id id).1
          | none => w
        | none => w) := by
      split
      · split
        · exact ⟨opRemove_inv S vOk w _ _ hw, opRemove_sep S vOk w _ _ hw hs⟩
        · exact ⟨hw, hs⟩
      · exact ⟨hw, hs⟩
    exact ih _ h1.1 h1.2

theorem rmAt_wsep (w : World) (x f k1 : Nat) (c1 : List (Hdr × Items)) (hloc : locate w x = some (k1, c1))
    (hw : WInv S vOk w) (hs : SepInv w) :
    WInv S vOk (setModel w k1 ((w.models[k1]!).setRoot (rmAt f x [] (w.models[k1]!).rootItems))) ∧
    SepInv (setModel w k1 ((w.models[k1]!).setRoot (rmAt f x [] (w.models[k1]!).rootItems))) := by
  obtain ⟨m1, hm1, hm2, hmem1, _⟩ := locate_chain w x k1 c1 hloc
  rw [hm2]
  refine ⟨winv_update S vOk w _ k1 _ hw (Nat.le_refl _) (rmAt_minv S vOk _ m1 f x (hw m1 hmem1)) rfl, ?_⟩
  refine sep_update S vOk w _ k1 m1 _ hw hs hm1 rfl ?_
  obtain ⟨h1, _, _, h4⟩ := setRoot_of_skel m1 _ (rmAt_skel f x [] m1.rootItems)
  exact grow_same _ _ _ (by rw [h1]; exact ids_of_skel (rmAt_skel f x [] m1.rootItems)) h4

theorem opRmFromFile_wsep (w : World) (x f : Nat) (hw : WInv S vOk w) (hs : SepInv w) :
    WInv S vOk (opRmFromFile S w x f).1 ∧ SepInv (opRmFromFile S w x f).1 := by
  unfold opRmFromFile
  split
  · exact ⟨hw, hs⟩
  · dsimp only
    split
    · exact ⟨hw, hs⟩
    · split
      · exact ⟨hw, hs⟩
      · split
        · exact ⟨hw, hs⟩
        · split
          · exact ⟨hw, hs⟩
          · rename_i cur _
            have h1 : WInv S vOk (if (cur.filter (· != f)).isEmpty then
                (match (‹List (Hdr × Items)›).dropLast.getLast? with
                  | some (ph, _) => (opRemove S w ph.id x).1
                  | none => w) else w) ∧ SepInv (if (cur.filter (· != f)).isEmpty then
                (match (‹List (Hdr × Items)›).dropLast.getLast? with
                  | some (ph, _) => (opRemove S w ph.id x).1
                  | none => w) else w) := by
              split
              · split
                · exact ⟨opRemove_inv S vOk w _ _ hw, opRemove_sep S vOk w _ _ hw hs⟩
                · exact ⟨hw, hs⟩
              · exact ⟨hw, hs⟩
            split
            · exact h1
            · rename_i k1 c1 hloc1
              have h2 := rmAt_wsep S vOk _ x f k1 c1 hloc1 h1.1 h1.2
              exact removeAll_wsep S vOk _ _ h2.1 h2.2

theorem opRmFile_wsep (w : World) (k f : Nat) (hw : WInv S vOk w) (hs : SepInv w) :
    WInv S vOk (opRmFile S w k f).1 ∧ SepInv (opRmFile S w k f).1 := by
  unfold opRmFile
  split
  · exact ⟨hw, hs⟩
  · rename_i m hk
    have hmem := List.mem_of_getElem? hk
    split
    · exact ⟨hw, hs⟩
    · rename_i pos _
      dsimp only
      split
      · exact ⟨hw, hs⟩
      · apply opRmFromFile_wsep
        · refine winv_update S vOk w _ k _ hw (Nat.le_refl _) ?_ rfl
          have hm := hw m hmem
          exact { hm with vers := fun g hg => hm.vers g (swapRemove_sub m.files pos g hg) }
        · exact sep_update S vOk w _ k m _ hw hs hk rfl (grow_same _ _ _ rfl rfl)

/-! ### the step theorem -/

/-- every guarded core operation keeps `SepInv` (given the index invariant) -/
theorem applyOp_sep (w : World) (op : Op) (hw : WInv S vOk w) (hs : SepInv w) :
    SepInv (applyOp S V rootAttrs w op).1 := by
  cases op with
  | newModel => exact newModel_sep S rootAttrs w hs
  | mkFile k name ver valid => exact opMkFile_sep S vOk w k name ver valid hw hs
  | create p name pos => exact opCreate_sep S V vOk w p name pos hw hs
  | named p name item pos => exact opNamed_sep S V vOk w p name item pos hw hs
  | remove p c => exact opRemove_sep S vOk w p c hw hs
  | cdata x v => exact opCData_sep S V vOk w x v hw hs
  | rmcdata x => exact opRmCData_sep S vOk w x hw hs
  | attr x a v => exact opAttr_sep S V vOk w x a v hw hs
  | attrs x a s => exact opAttrS_sep S V vOk w x a s hw hs
  | rmattr x a => exact opRmAttr_sep S vOk w x a hw hs
  | comment x cm => exact opComment_sep S vOk w x cm hw hs
  | instext x pos s => exact opInsText_sep S vOk w x pos s hw hs
  | rmtext x pos => exact opRmText_sep S vOk w x pos hw hs
  | addfile x f => exact opAddFile_sep S vOk w x f hw hs
  | rmfromfile x f => exact (opRmFromFile_wsep S vOk w x f hw hs).2
  | rmfile k f => exact (opRmFile_wsep S vOk w k f hw hs).2
  | setver f ver => exact opSetVersion_sep S vOk w f ver hw hs

/-- **every reachable state** of a guarded history: the models share no element ids (`IdsSep`) -/
theorem run_sep (hH : IdxHyp S V vOk) (ops : List Op) (hops : ∀ op ∈ ops, OpOk S vOk op) :
    SepInv (run S V rootAttrs ops) := by
  unfold run
  suffices h : ∀ (w : World), WInv S vOk w → SepInv w →
      WInv S vOk (ops.foldl (fun w op => (applyOp S V rootAttrs w op).1) w) ∧
      SepInv (ops.foldl (fun w op => (applyOp S V rootAttrs w op).1) w) from
    (h _ (winv_empty S vOk) sepInv_empty).2
  induction ops with
  | nil => intro w hw hs; exact ⟨hw, hs⟩
  | cons op rest ih =>
    intro w hw hs
    simp only [List.foldl_cons]
    exact ih (fun o ho => hops o (List.mem_cons_of_mem _ ho)) _
      (applyOp_winv S V vOk rootAttrs hH w op (hops op List.mem_cons_self) hw)
      (applyOp_sep S V vOk rootAttrs w op hw hs)

theorem run_idsSep (hH : IdxHyp S V vOk) (ops : List Op) (hops : ∀ op ∈ ops, OpOk S vOk op) :
    IdsSep (run S V rootAttrs ops) :=
  (run_sep S V vOk rootAttrs hH ops hops).1

/-! ### C05, second sentence, in every reachable state -/

/-- **C05, the invalid-reference report, over all histories**: in every state reachable by a guarded history of the core
operations, the report of model `k` (`check_references`) contains precisely the reference elements of model `k` that hold a
text and whose `refTarget` (`get_reference_target`) is `none` -/
theorem run_mem_checkRefsIds (hH : IdxHyp S V vOk) (hR : RefWF S) (ops : List Op) (hops : ∀ op ∈ ops, OpOk S vOk op)
    (k : Nat) (m : Model) (hm : (run S V rootAttrs ops).models[k]? = some m) (r : Nat) :
    r ∈ checkRefsIds S V (run S V rootAttrs ops) k ↔
      (∃ h k0 p, Occ h k0 m.rootItems ∧ h.id = r ∧ S.isRef h.ety.typ = true ∧ charData S h k0 = some (.str p)) ∧
        refTarget S V (run S V rootAttrs ops) r = none :=
  mem_checkRefsIds S V vOk hR.root_not_ref _ (run_cinv S V vOk rootAttrs hH hR ops hops)
    (run_idsSep S V vOk rootAttrs hH ops hops) k m hm r

/-- … a reference element with a text is absent from the report exactly when resolving it returns its target -/
theorem run_not_mem_checkRefsIds_iff (hH : IdxHyp S V vOk) (hR : RefWF S) (ops : List Op)
    (hops : ∀ op ∈ ops, OpOk S vOk op) (k : Nat) (m : Model) (hm : (run S V rootAttrs ops).models[k]? = some m)
    (h : Hdr) (k0 : Items) (p : Bytes) (ho : Occ h k0 m.rootItems) (hr : S.isRef h.ety.typ = true)
    (hc : charData S h k0 = some (.str p)) :
    h.id ∉ checkRefsIds S V (run S V rootAttrs ops) k ↔ ∃ t, refTarget S V (run S V rootAttrs ops) h.id = some t :=
  not_mem_checkRefsIds_iff S V vOk hR.root_not_ref _ (run_cinv S V vOk rootAttrs hH hR ops hops)
    (run_idsSep S V vOk rootAttrs hH ops hops) k m hm h k0 p ho hr hc

/-- … each reported id is reported once -/
theorem run_checkRefsIds_count (hH : IdxHyp S V vOk) (hR : RefWF S) (ops : List Op) (hops : ∀ op ∈ ops, OpOk S vOk op)
    (k r : Nat) : (checkRefsIds S V (run S V rootAttrs ops) k).count r ≤ 1 :=
  checkRefsIds_count S V vOk _ (run_cinv S V vOk rootAttrs hH hR ops hops) k r

/-- … in the words of the property (`hrootN`: the root type has no SHORT-NAME): a reference element with the text `p` is
reported iff there is no element of the model with the path `p` whose type the DEST value of the reference fits -/
theorem run_mem_checkRefsIds_words (hH : IdxHyp S V vOk) (hR : RefWF S)
    (hrootN : S.isNamed (S.defType S.rootDef) = false) (ops : List Op) (hops : ∀ op ∈ ops, OpOk S vOk op)
    (k : Nat) (m : Model) (hm : (run S V rootAttrs ops).models[k]? = some m) (hx : Hdr) (kx : Items) (p : Bytes)
    (ho : Occ hx kx m.rootItems) (hr : S.isRef hx.ety.typ = true) (hc : charData S hx kx = some (.str p)) :
    hx.id ∈ checkRefsIds S V (run S V rootAttrs ops) k ↔
      ¬ ∃ t ct d, m.rootItems.chain t = some ct ∧ (itemName S (lastOf ct).1 (lastOf ct).2).isSome = true ∧
        pathOfChain S ct = p ∧ attrVal hx V.nmDest = some (.enum d) ∧ S.verifyDest (lastOf ct).1.ety.typ d = true :=
  mem_checkRefsIds_words S V vOk hR.root_not_ref hrootN _ (run_cinv S V vOk rootAttrs hH hR ops hops)
    (run_idsSep S V vOk rootAttrs hH ops hops) k m hm hx kx p ho hr hc

/-- … and `get_reference_target` is sound -/
theorem run_refTarget_sound (hH : IdxHyp S V vOk) (hR : RefWF S) (hrootN : S.isNamed (S.defType S.rootDef) = false)
    (ops : List Op) (hops : ∀ op ∈ ops, OpOk S vOk op) (x t : Nat)
    (hrt : refTarget S V (run S V rootAttrs ops) x = some t) :
    ∃ (k : Nat) (m : Model) (hx : Hdr) (kx : Items) (p : Bytes) (ct : List (Hdr × Items)) (d : Nat),
      (run S V rootAttrs ops).models[k]? = some m ∧
      Occ hx kx m.rootItems ∧ hx.id = x ∧ S.isRef hx.ety.typ = true ∧ charData S hx kx = some (.str p) ∧
      m.rootItems.chain t = some ct ∧ (itemName S (lastOf ct).1 (lastOf ct).2).isSome = true ∧ pathOfChain S ct = p ∧
      attrVal hx V.nmDest = some (.enum d) ∧ S.verifyDest (lastOf ct).1.ety.typ d = true :=
  refTarget_sound S V vOk hrootN _ (run_cinv S V vOk rootAttrs hH hR ops hops)
    (run_idsSep S V vOk rootAttrs hH ops hops) x t hrt

end
end AV.W
