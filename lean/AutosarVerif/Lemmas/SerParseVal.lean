/-
C01, element level, Stage 2: the value level.  Sufficient syntactic conditions for `CDRound` (the text the serializer
writes for a value is typed as that value by `parse_character_data`, without error or warning) for the four kinds of
values the serializer can write: strings, pattern-restricted strings, enumeration items, unsigned integers.
-/
import AutosarVerif.Lemmas.SerParseTree

namespace AV.SerParse
open AV.W AV.Lex AV.PM AV.SerLex

/-! ### `unescape_string` on escaped text -/

theorem unescapeP_escape (bs : Bytes) (fuel : Nat) (hf : bs.length < fuel) (b : Bool) (s : PState) :
    unescapeP fuel (CData.escape bs) b s = (.ok bs, s) := by
  induction bs generalizing fuel with
  | nil => cases fuel with
    | zero => omega
    | succ f => simp [CData.escape, unescapeP, pure']
  | cons c cs ih =>
    cases fuel with
    | zero => omega
    | succ f =>
      have hf' : cs.length < f := by simp at hf; omega
      have ihf := ih f hf'
      simp only [CData.escape, CData.escOne]
      split
      · subst_vars; simp [unescapeP, bind', ihf, pure']
      · split
        · subst_vars; simp [unescapeP, bind', ihf, pure']
        · split
          · subst_vars; simp [unescapeP, bind', ihf, pure']
          · split
            · subst_vars; simp [unescapeP, bind', ihf, pure']
            · split
              · subst_vars; simp [unescapeP, bind', ihf, pure']
              · rename_i h1 h2 h3 h4 h5
                show unescapeP (f + 1) (c :: CData.escape cs) b s = (.ok (c :: cs), s)
                rw [unescapeP.eq_11 f c _ h3]
                simp [bind', ihf, pure']

theorem escape_length_le (bs : Bytes) : bs.length ≤ (CData.escape bs).length := by
  induction bs with
  | nil => simp [CData.escape]
  | cons c cs ih =>
    simp only [CData.escape, List.length_append, List.length_cons]
    have := CData.escape_length_pos c
    omega

/-- an escaped text without `&` is the text itself -/
theorem escape_no_amp (bs : Bytes) (h : (CData.escape bs).contains 38 = false) : CData.escape bs = bs := by
  induction bs with
  | nil => rfl
  | cons c cs ih =>
    simp only [CData.escape, List.contains_append, Bool.or_eq_false_iff] at h
    obtain ⟨h1, h2⟩ := h
    simp only [CData.escape, ih h2]
    unfold CData.escOne at h1 ⊢
    repeat' split at h1
    all_goals first
      | (exfalso; revert h1; decide)
      | skip
    all_goals simp_all

/-! ### `trim_byte_string` -/

theorem dropWhile_head {p : UInt8 → Bool} (s : Bytes) (h : ∀ c, s.head? = some c → p c = false) : s.dropWhile p = s := by
  cases s with
  | nil => rfl
  | cons c r => simp [List.dropWhile, h c rfl]

/-- a text that neither starts nor ends with white space is not changed by trimming -/
theorem trim_id (s : Bytes) (h1 : ∀ c, s.head? = some c → isWsB c = false) (h2 : ∀ c, s.getLast? = some c → isWsB c = false) :
    trim s = s := by
  unfold trim
  rw [dropWhile_head s h1, dropWhile_head s.reverse (by simpa using h2), List.reverse_reverse]

theorem trim_noWs (s : Bytes) (h : ∀ c ∈ s, isWsB c = false) : trim s = s :=
  trim_id s (fun c hc => h c (List.mem_of_mem_head? hc)) (fun c hc => h c (List.mem_of_mem_getLast? hc))

theorem escOne_noWs (c : UInt8) (h : isWsB c = false) : ∀ d ∈ CData.escOne c, isWsB d = false := by
  intro d hd
  unfold CData.escOne at hd
  repeat' split at hd
  all_goals simp only [List.mem_cons, List.mem_nil_iff, or_false] at hd
  all_goals first
    | (subst hd; exact h)
    | (rcases hd with rfl | rfl | rfl | rfl | rfl | rfl <;> decide)
    | (rcases hd with rfl | rfl | rfl | rfl | rfl <;> decide)
    | (rcases hd with rfl | rfl | rfl | rfl <;> decide)

theorem escape_append (a b : Bytes) : CData.escape (a ++ b) = CData.escape a ++ CData.escape b := by
  induction a with
  | nil => rfl
  | cons c cs ih => simp only [List.cons_append, CData.escape, ih, List.append_assoc]

theorem escOne_ne_nil (c : UInt8) : CData.escOne c ≠ [] := by
  have := CData.escape_length_pos c
  intro h; rw [h] at this; simp at this

/-- a string that neither starts nor ends with white space: its escaped text is not changed by trimming -/
theorem trim_escape (bs : Bytes) (h1 : ∀ c, bs.head? = some c → isWsB c = false)
    (h2 : ∀ c, bs.getLast? = some c → isWsB c = false) : trim (CData.escape bs) = CData.escape bs := by
  apply trim_id
  · intro d hd
    cases bs with
    | nil => simp [CData.escape] at hd
    | cons c cs =>
      simp only [CData.escape] at hd
      obtain ⟨x, hx⟩ : ∃ x, (CData.escOne c).head? = some x := by
        cases hE : CData.escOne c with
        | nil => exact absurd hE (escOne_ne_nil c)
        | cons x xs => exact ⟨x, rfl⟩
      rw [List.head?_append, hx] at hd
      have hd' : x = d := by simpa using hd
      subst hd'
      exact escOne_noWs c (h1 c rfl) x (List.mem_of_mem_head? hx)
  · intro d hd
    rcases List.eq_nil_or_concat bs with rfl | ⟨ini, c, rfl⟩
    · simp [CData.escape] at hd
    · rw [List.concat_eq_append] at hd h2
      rw [escape_append] at hd
      have hc : CData.escape [c] = CData.escOne c := by simp [CData.escape]
      obtain ⟨x, hx⟩ : ∃ x, (CData.escOne c).getLast? = some x := by
        cases hE : (CData.escOne c).getLast? with
        | none => exact absurd (List.getLast?_eq_none_iff.mp hE) (escOne_ne_nil c)
        | some x => exact ⟨x, rfl⟩
      rw [hc, List.getLast?_append, hx] at hd
      have hd' : x = d := by simpa using hd
      subst hd'
      exact escOne_noWs c (h2 c (by simp)) x (List.mem_of_mem_getLast? hx)

/-! ### ASCII text is UTF-8 -/

theorem validUtf8_ascii (s : Bytes) (h : ∀ c ∈ s, c.toNat < 0x80) : validUtf8 s = true := by
  induction s with
  | nil => rfl
  | cons c r ih =>
    unfold validUtf8
    rw [if_pos (h c (by simp))]
    exact ih (fun d hd => h d (by simp [hd]))

/-! ### the four kinds of values -/

section
variable (V : Env) (ver : Nat)

theorem maxLen_ok (maxLen : Option Nat) (n : Nat) (b : Bool) (s : PState) :
    (∀ m, maxLen = some m → n ≤ m) →
    ∀ {α : Type} (k : Unit → P α), bind' (match maxLen with
      | some m => if n > m then optErr kStringValueTooLong else pure' ()
      | none => pure' ()) k b s = k () b s := by
  intro h α k
  cases maxLen with
  | none => rfl
  | some m =>
    have := h m rfl
    simp only
    rw [if_neg (by omega)]; rfl

/-- a string value: the escaped text is not changed by trimming (or white space is preserved), is not longer than the
maximal length (NOTE: the parser measures the ESCAPED text) and is UTF-8 -/
theorem CDRound_string (preserve : Bool) (maxLen : Option Nat) (bs : Bytes)
    (htrim : preserve = true ∨ trim (CData.escape bs) = CData.escape bs)
    (hlen : ∀ m, maxLen = some m → (CData.escape bs).length ≤ m)
    (hutf : validUtf8 (CData.escape bs) = true) :
    CDRound V ver (.string preserve maxLen) (.str bs) (CData.escape bs) := by
  intro b s _
  refine ⟨s.compat, ?_⟩
  have hraw : (if preserve = true then CData.escape bs else trim (CData.escape bs)) = CData.escape bs := by
    rcases htrim with h | h
    · simp [h]
    · simp [h]
  simp only [parseCD, hraw]
  refine (maxLen_ok maxLen _ b s hlen _).trans ?_
  rw [if_pos hutf, bind_ok (unescapeP_escape bs _ (by have := escape_length_le bs; omega) b s)]
  rfl

/-- a pattern-restricted string -/
theorem CDRound_pattern (kk : Nat) (maxLen : Option Nat) (bs : Bytes)
    (htrim : trim (CData.escape bs) = CData.escape bs)
    (hlen : ∀ m, maxLen = some m → bs.length ≤ m)
    (hval : V.validate kk bs = true)
    (hutf : validUtf8 bs = true) (hutfe : validUtf8 (CData.escape bs) = true) :
    CDRound V ver (.pattern kk maxLen) (.str bs) (CData.escape bs) := by
  intro b s _
  refine ⟨s.compat, ?_⟩
  simp only [parseCD, htrim]
  have h1 : (if (CData.escape bs).contains 38 = true ∧ validUtf8 (CData.escape bs) = true
      then unescapeP ((CData.escape bs).length + 1) (CData.escape bs) else pure' (CData.escape bs)) b s = (.ok bs, s) := by
    split
    · exact unescapeP_escape bs _ (by have := escape_length_le bs; omega) b s
    · rename_i hh
      have : (CData.escape bs).contains 38 = false := by
        cases hc : (CData.escape bs).contains 38 with
        | false => rfl
        | true => exact absurd ⟨hc, hutfe⟩ hh
      rw [escape_no_amp bs this]; rfl
  rw [bind_ok h1]
  refine (maxLen_ok maxLen _ b s hlen _).trans ?_
  simp only [hval, if_true, hutf]
  rfl

/-- an enumeration item: its text is the text of this item, the item belongs to the enumeration and to the version -/
theorem CDRound_enum (items : List (Nat × Nat)) (i : Nat) (it : Nat × Nat)
    (hof : V.enumOf (trim (V.enumText i)) = some i)
    (hfind : items.find? (fun it => it.1 == i) = some it)
    (hver : ver &&& it.2 ≠ 0) :
    CDRound V ver (.enum items) (.enum i) (V.enumText i) := by
  intro b s hs
  refine ⟨s.compat &&& it.2, ?_⟩
  simp only [parseCD, hof, hfind, checkVersion, bind', modS, getS, hs, hver, if_false, pure']

theorem isWsB_digit (c : UInt8) (h : 48 ≤ c.toNat ∧ c.toNat ≤ 57) : isWsB c = false := by
  simp only [isWsB, Bool.or_eq_false_iff, decide_eq_false_iff_not]
  refine ⟨⟨⟨⟨?_, ?_⟩, ?_⟩, ?_⟩, ?_⟩ <;> (intro hh; subst hh; simp at h)

/-- an unsigned integer below `2^64` -/
theorem CDRound_uint (n : Nat) (hn : n < 2 ^ 64) : CDRound V ver .uint (.uint n) (CData.toDec n) := by
  intro b s _
  refine ⟨s.compat, ?_⟩
  have htrim : trim (CData.toDec n) = CData.toDec n :=
    trim_noWs _ (fun c hc => isWsB_digit c (toDec_digits n c hc))
  have hutf : validUtf8 (CData.toDec n) = true :=
    validUtf8_ascii _ (fun c hc => by have := toDec_digits n c hc; omega)
  simp only [parseCD, htrim, hutf, CData.parseU64_toDec n hn]
  rfl

end

end AV.SerParse
