/-
C01, element level: the file header syntactically, and non-vacuity / findings on the toy specification.
-/
import AutosarVerif.Lemmas.SerParseLoad
import AutosarVerif.Lemmas.SerParseAttr

namespace AV.SerParse
open AV.W AV.Lex AV.PM AV.SerLex

/-- the name of the xsd file in `xsi:schemaLocation` (second blank-separated piece; a leading `autosar` is upper-cased) -/
def xsdOf (schema : Bytes) : Bytes :=
  let raw := ((splitSp schema).drop 1).headD []
  if ([97, 117, 116, 111, 115, 97, 114] : Bytes).isPrefixOf raw then
    ([65, 85, 84, 79, 83, 65, 82] : Bytes) ++ raw.drop ([97, 117, 116, 111, 115, 97, 114] : Bytes).length else raw

/-- **the file header, syntactically**: `xmlns`, `xmlns:xsi` have the two fixed values, `xsi:schemaLocation` is the
AUTOSAR namespace followed by the name of an xsd file that names the version `ver` -/
theorem parseFileHeader_ok (V : Env) (attrs : List (Nat × CDv)) (schema : Bytes) (ver a1 a2 a3 : Nat)
    (h1 : attrs.find? (·.1 == V.atXmlns) = some (a1, .str nsAutosar))
    (h2 : attrs.find? (·.1 == V.atXmlnsXsi) = some (a2, .str nsXsi))
    (h3 : attrs.find? (·.1 == V.atSchemaLocation) = some (a3, .str schema))
    (h4 : (splitSp schema).headD [] = nsAutosar)
    (h5 : V.verOfFile (xsdOf schema) = some ver) (b : Bool) (s : PState) :
    parseFileHeader V attrs b s = (.ok (), { s with ver := ver }) := by
  unfold xsdOf at h5
  simp only [parseFileHeader, h1, h2, h3, parseFileVersion, h4, h5, ne_eq, not_true_eq_false, or_self, if_false, bind', pure', modS]

end AV.SerParse

/-! ### non-vacuity (toy specification): a root with the three header attributes and a comment, an element with an
attribute and an enumeration value, a commented element with a string value, an empty element -/

namespace AV.SerParse.Examples
open AV AV.W AV.Lex AV.PM AV.SerLex AV.SerParse

def schemaV1 : Bytes := nsAutosar ++ [32, 86, 49, 46, 120, 115, 100]   -- "http://autosar.org/schema/r4.0 V1.xsd"

def rootH : Hdr :=
  ⟨1, 100, ⟨0, 0⟩, .model 0, [(10, .str nsAutosar), (11, .str nsXsi), (12, .str schemaV1)], [7], some [104, 105]⟩

def kids : Items :=
  .elem ⟨2, 101, ⟨1, 1⟩, .elem 1, [(5, .str [120, 60, 121])], [], none⟩ (.text (.enum 7) .nil)
    (.elem ⟨3, 102, ⟨2, 2⟩, .elem 1, [], [], some [99]⟩ (.text (.str [97, 32, 98]) .nil)
      (.elem ⟨4, 102, ⟨2, 2⟩, .elem 1, [], [], none⟩ .nil .nil))

theorem strOK (ver : Nat) (bs : Bytes) (h1 : trim (CData.escape bs) = CData.escape bs)
    (h2 : validUtf8 (CData.escape bs) = true) : CDRound toyEnv ver (.string false none) (.str bs) (CData.escape bs) :=
  CDRound_string toyEnv ver false none bs (Or.inr h1) (by intro m hm; cases hm) h2

theorem noAttrs (ver typ : Nat) (h : ∀ a ∈ toySpec.listAttrs typ, a.2.2.1 = true → ([] : List (Nat × CDv)).any (·.1 == a.1) = true) :
    AttrsRound toySpec toyEnv ver typ [] :=
  AttrsRound_of toySpec toyEnv ver typ [] [] (by simp) rfl h

theorem kids_valid : ValidC toySpec toyEnv 1 0 false kids false [] [] false := by
  unfold kids ValidC
  refine ⟨⟨[0], by decide, Or.inl rfl, (by intro h; cases h), ?_⟩, by decide, ?_, (by intro c h; cases h), by decide, ?_⟩
  · -- the second element
    unfold ValidC
    refine ⟨⟨[1], by decide, by unfold ConflictOK; decide, fun _ => ⟨.sequence, by decide, fun _ mu hmu => Or.inr (by decide)⟩, ?_⟩,
      by decide, noAttrs 1 2 (by decide), (by intro c h; cases h; decide), by decide, ?_⟩
    · -- the third element
      unfold ValidC
      refine ⟨⟨[1], by decide, Or.inr (Or.inl rfl), fun _ => ⟨.sequence, by decide, fun _ mu hmu => Or.inl ?_⟩, by unfold ValidC; trivial⟩,
        by decide, noAttrs 1 2 (by decide), (by intro c h; cases h), by decide, Or.inl rfl⟩
      have : toySpec.subMult 0 [1] = some .any := by decide
      rw [this] at hmu; cases hmu; rfl
    · exact Or.inr ⟨_, rfl, .string false none, _, rfl, rfl, by decide, strOK 1 _ (by decide) (by decide)⟩
  · exact AttrsRound_of toySpec toyEnv 1 1 _ _ (by
      intro av hav
      simp only [List.mem_singleton] at hav; subst hav
      exact ⟨by decide, by decide, 1, false, 1, _, by decide, by decide, rfl, by decide, strOK 1 _ (by decide) (by decide)⟩)
      rfl (by decide)
  · exact Or.inr ⟨_, rfl, .enum [(7, 1), (8, 3)], _, rfl, rfl, by decide,
      CDRound_enum toyEnv 1 _ 7 (7, 1) (by decide) (by decide) (by decide)⟩

theorem root_valid : ValidRoot toySpec toyEnv 100 1 rootH kids where
  name := rfl
  elemOf := by decide
  ety := rfl
  attrs := AttrsRound_of toySpec toyEnv 1 0 _ _ (by
      intro av hav
      simp only [rootH, List.mem_cons, List.mem_nil_iff, or_false] at hav
      rcases hav with rfl | rfl | rfl
      · exact ⟨by decide, by decide, 1, false, 3, _, by decide, by decide, rfl, by decide, strOK 1 _ (by decide) (by decide)⟩
      · exact ⟨by decide, by decide, 1, false, 3, _, by decide, by decide, rfl, by decide, strOK 1 _ (by decide) (by decide)⟩
      · exact ⟨by decide, by decide, 1, false, 3, _, by decide, by decide, rfl, by decide, strOK 1 _ (by decide) (by decide)⟩)
      rfl (by decide)
  header := parseFileHeader_ok toyEnv _ schemaV1 1 10 11 12 (by decide) (by decide) (by decide) (by decide) (by decide)
  comment := by intro c h; cases h; decide
  sn := by decide
  kids := Or.inr kids_valid

theorem ex_wf : wfItems toyEnv (.elem rootH kids .nil) = true := by decide

/-- the document is written … -/
theorem ex_bytes : ∃ bytes, serForest toySpec toyEnv none 0 false (.elem rootH kids .nil) = some bytes := by
  cases h : serForest toySpec toyEnv none 0 false (.elem rootH kids .nil) with
  | some b => exact ⟨b, rfl⟩
  | none =>
    exfalso
    have : (serForest toySpec toyEnv none 0 false (.elem rootH kids .nil)).isSome = true := by
      simp only [rootH, kids, serForest, bs_commentOpen, bs_commentClose]; decide
    rw [h] at this; cases this

/-- … and read back: the hypotheses of `runParser_serialized` are met by a concrete document -/
example (strict : Bool) : ∃ bytes st, serForest toySpec toyEnv none 0 false (.elem rootH kids .nil) = some bytes ∧
    runParser toySpec toyEnv strict (xmlDecl (some true) ++ bytes) 10 100 =
      (.ok ({ rootH with id := 10, parent := .none, files := [] }, relabel (.elem 10) 11 kids), st) ∧
    st.warnings = [] ∧ st.ver = 1 ∧ st.standalone = some true ∧ st.nextId = 14 := by
  obtain ⟨bytes, hb⟩ := ex_bytes
  obtain ⟨st, h1, h2, h3, h4, h5⟩ := runParser_serialized toySpec toyEnv (some true) rootH kids bytes 10 100 1 strict ex_wf hb root_valid
  exact ⟨bytes, st, hb, h1, h2, h3, h4, h5⟩

/-! ### findings: what the hypotheses of `Valid` exclude and the serializer can nevertheless emit (checked by
evaluation of the serializer and the parser; `decide +kernel`) -/

def rootH0 : Hdr := { rootH with comment := none }
def oneB (v : CDv) : Items := .elem ⟨3, 102, ⟨2, 2⟩, .elem 1, [], [], none⟩ (.text v .nil) .nil

/-- serialize `<R …>kids</R>`, then load it: the content of the root element, or the kind of the error -/
def reload (S : Spec) (kids : Items) (strict : Bool) : Option (Except Nat Items) :=
  match serForest S toyEnv none 0 false (.elem rootH0 kids .nil) with
  | some b =>
    match (runParser S toyEnv strict (xmlDecl none ++ b) 10 100).1 with
    | .ok (_, k) => some (.ok k)
    | .error e => some (.error e.kind)
  | none => none

/-- a valid value is read back (sanity of `reload`): `<B>a b</B>` -/
example : (match reload toySpec (oneB (.str [97, 32, 98])) true with
    | some (.ok (.elem _ (.text (.str [97, 32, 98]) .nil) .nil)) => true | _ => false) = true := by decide +kernel

/-- **Finding (the empty string is lost)**: an element with the character data `""` (API: `set_character_data("")`) is
written `<B></B>` and loaded WITHOUT character data (hypothesis `t.all isWs = false` of `TextOK`) -/
example : (match reload toySpec (oneB (.str [])) true with
    | some (.ok (.elem _ .nil .nil)) => true | _ => false) = true := by decide +kernel

/-- **Finding (white space around a string is lost)**: in a type that does not preserve white space the value `" a "` is
written `<B> a </B>` and loaded as `"a"` (hypothesis `trim (escape bs) = escape bs` of `CDRound_string`); no warning -/
example : (match reload toySpec (oneB (.str [32, 97, 32])) true with
    | some (.ok (.elem _ (.text (.str [97]) .nil) .nil)) => true | _ => false) = true := by decide +kernel

/-- the toy specification with a maximal length of 41 bytes for strings -/
def lenSpec : Spec := { toySpec with cspec := fun i => if i = 0 then .enum [(7, 1), (8, 3)] else .string false (some 41) }

/-- **Finding (the maximal length of a string is checked on the ESCAPED text)**: the value `&&&&&&&&&&` (10 bytes ≤ 41)
is written as 10 × `&amp;` = 50 bytes; the strict parser rejects the serializer's text with `StringValueTooLong` (20),
the lenient parser loads the value with a warning (hypothesis `(escape bs).length ≤ m` of `CDRound_string`) -/
example : (match reload lenSpec (oneB (.str (List.replicate 10 38))) true with
    | some (.error 20) => true | _ => false) = true := by decide +kernel
example : (match reload lenSpec (oneB (.str (List.replicate 10 38))) false with
    | some (.ok (.elem _ (.text (.str [38, 38, 38, 38, 38, 38, 38, 38, 38, 38]) .nil) .nil)) => true | _ => false) = true := by
  decide +kernel

end AV.SerParse.Examples
