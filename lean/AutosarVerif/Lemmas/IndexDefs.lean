/-
C04, definitions for the history-level invariant "the path index is exactly the set of (path, element) pairs of the named
elements of the tree": the structural function `entries` (what the index must hold), the key rewriting of
`fix_identifiables`, and the invariant itself.
-/
import AutosarVerif.Lemmas.WorldOps

namespace AV.W
open Items

section
variable (S : Spec)

/-- what the path index must hold for the forest `its` whose top-level nodes have the path prefix `pre`: one pair
(path, id) per element that has an item name, in document order; the path of an element is the prefix handed down by its
nearest named ancestor, "/" and its own name (unnamed elements hand the prefix down unchanged, as `path_unchecked` skips
them) -/
def entries : Items → Bytes → List (Bytes × Nat)
  | .nil, _ => []
  | .text _ r, pre => entries r pre
  | .elem h k r, pre =>
    match itemName S h k with
    | some n => (pre ++ [47] ++ n, h.id) :: (entries k (pre ++ [47] ++ n) ++ entries r pre)
    | none => entries k pre ++ entries r pre

/-- no top-level element of the list is called SHORT-NAME -/
def noSnTop : Items → Prop
  | .nil => True
  | .text _ r => noSnTop r
  | .elem h _ r => h.name ≠ S.nmShortName ∧ noSnTop r

end

/-- pattern- or string-typed character data (what `set_character_data` converts other values into) -/
def _root_.AV.CSpec.stringLike : CSpec → Bool
  | .pattern _ _ => true
  | .string _ _ => true
  | _ => false

/-- What the index invariant needs from the specification tables: in a type that has a SHORT-NAME (sub-entry 0), the
sub-elements form a SEQUENCE (so nothing can be created in front of the SHORT-NAME), the SHORT-NAME occurs at most once, is
known to the all-version lookup, and is itself a plain character-data element with a string-like value. -/
structure NameWF (S : Spec) : Prop where
  named_seq : ∀ t, S.isNamed t = true → S.mode t = .sequence
  sn_mask : ∀ t, S.isNamed t = true → (0xFFFFFFFF &&& S.subMask t 0) ≠ 0
  sn_mult : ∀ t d, S.isNamed t = true → S.subAt t 0 = .elem d → S.defMult d ≠ .any
  sn_type : ∀ t d, S.isNamed t = true → S.subAt t 0 = .elem d →
    S.mode (S.defType d) = .characters ∧ S.isNamed (S.defType d) = false ∧
      ∃ sp, S.chardataSpec (S.defType d) = some sp ∧ sp.stringLike = true

section
variable (S : Spec)

/-- a SHORT-NAME element as `create_named_sub_element` makes it: a plain character-data element of a string-like type
holding one text without '/' -/
def properSn (sh : Hdr) (sk : Items) : Prop :=
  S.mode sh.ety.typ = .characters ∧ S.isNamed sh.ety.typ = false ∧
  (∃ sp, S.chardataSpec sh.ety.typ = some sp ∧ sp.stringLike = true) ∧
  ∃ n, sk = .text (.str n) .nil ∧ 47 ∉ n

/-- the content of an element with header `h`: an element called SHORT-NAME occurs only as the FIRST content item, only in
an element of a named SEQUENCE type whose sub-entry 0 is the definition of that very SHORT-NAME, and is a proper SHORT-NAME -/
def kidsOk (h : Hdr) : Items → Prop
  | .nil => True
  | .text _ rest => noSnTop S rest
  | .elem sh sk rest =>
    (sh.name = S.nmShortName →
      (S.isNamed h.ety.typ = true ∧ S.mode h.ety.typ = .sequence ∧ S.subAt h.ety.typ 0 = .elem sh.ety.defId ∧
        sh.ety.typ = S.defType sh.ety.defId) ∧ properSn S sh sk) ∧ noSnTop S rest

/-- the SHORT-NAME discipline everywhere in a forest -/
def SnOk : Items → Prop
  | .nil => True
  | .text _ r => SnOk r
  | .elem h k r => kidsOk S h k ∧ SnOk k ∧ SnOk r

/-- path, item name and content of the NAMED element `t` of the forest (`pre` = path prefix of the top-level nodes) -/
def findNamed : Items → Bytes → Nat → Option (Bytes × Bytes × Items)
  | .nil, _, _ => none
  | .text _ r, pre, t => findNamed r pre t
  | .elem h k r, pre, t =>
    match itemName S h k with
    | some n =>
      if h.id = t then some (pre ++ [47] ++ n, n, k)
      else match findNamed k (pre ++ [47] ++ n) t with
        | some x => some x
        | none => findNamed r pre t
    | none =>
      if h.id = t then none
      else match findNamed k pre t with
        | some x => some x
        | none => findNamed r pre t

end

/-- `NameWF` with the SEQUENCE fact asked only of the types that are named in one of the versions `vOk` (the real tables
have two types that are named in 4.0.1 only and are not sequences there) -/
structure NameWFv (S : Spec) (vOk : Nat) : Prop where
  named_seq : ∀ t, S.isNamed t = true → (vOk &&& S.subMask t 0) ≠ 0 → S.mode t = .sequence
  sn_mask : ∀ t, S.isNamed t = true → (0xFFFFFFFF &&& S.subMask t 0) ≠ 0
  sn_mult : ∀ t d, S.isNamed t = true → S.subAt t 0 = .elem d → S.defMult d ≠ .any
  sn_type : ∀ t d, S.isNamed t = true → S.subAt t 0 = .elem d →
    S.mode (S.defType d) = .characters ∧ S.isNamed (S.defType d) = false ∧
      ∃ sp, S.chardataSpec (S.defType d) = some sp ∧ sp.stringLike = true

theorem NameWF.toV {S : Spec} (h : NameWF S) (vOk : Nat) : NameWFv S vOk :=
  ⟨fun t ht _ => h.named_seq t ht, h.sn_mask, h.sn_mult, h.sn_type⟩

theorem NameWFv.toNameWF {S : Spec} (h : NameWFv S 0xFFFFFFFF) : NameWF S :=
  ⟨fun t ht => h.named_seq t ht (h.sn_mask t ht), h.sn_mask, h.sn_mult, h.sn_type⟩

/-- keys of an association list are pairwise different -/
def keysNodupI (idx : List (Bytes × Nat)) : Prop := (idx.map (·.1)).Nodup

/-- the key rewriting of `fix_identifiables(old, new)` -/
def rekey (old new q : Bytes) : Bytes :=
  match pathSuffix old q with
  | some s => new ++ s
  | none => q

end AV.W
