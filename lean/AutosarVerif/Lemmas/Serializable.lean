/-
C16, the abstract serializability theorem: operations whose effect lies in ONE critical section of one
reader/writer lock `L` are serializable in the order in which they acquired `L`.

* An operation (`Op`) is: `pre` thread-local steps (they neither read nor write the shared state) ; acquire `L`
  (blocking, or a try-acquisition that may give up with `ParentElementLocked` and no effect) ; ONE atomic effect
  (`Eff.write f`, `f : σ → σ × ρ`, under the write lock, or `Eff.read g`, `g : σ → ρ`, a pure observation under the
  read lock) ; release `L`.
* The machine (`step`, `run`) interleaves the threads at the granularity of lock events AND of the effect itself:
  acquiring, performing the effect and releasing are three separate steps of a thread, so the theorem really rests on
  mutual exclusion (`Inv.excl`), not on an atomic "acquire-and-act" step.  The lock is the most permissive
  reader/writer lock (many readers or one writer); a stricter grant policy (fairness: a waiting writer blocks new
  readers, as in `Locks.grantable`) only removes interleavings of blocking acquisitions, and makes try-acquisitions
  fail more often: therefore a schedule may also tell a try-acquisition to give up at any time (`Act.giveUp`, also the
  timeouts of `try_write_for`).  `Lemmas/SerializableLocks.lean` shows that every `Locks.stepTh` step of the lock
  programs of these operations is a step of this machine.
* `Sys.log` is a ghost variable: the thread numbers in the order in which they acquired `L`.
* `serial` executes whole operations one after the other in a given order.
Main theorem `serializable`: every interleaving that runs all threads to completion ends in the state and with the
per-thread results of `serial` in acquisition order; failed try-acquisitions are not in the order, return `locked`
and only try-operations can fail.
-/
import AutosarVerif.Model.Locks
import AutosarVerif.Model.Atomicity

namespace AV.Serializable
open AV.Locks (Mode)

/-- the effect of an operation inside its critical section -/
inductive Eff (σ ρ : Type) where
  | write (f : σ → σ × ρ)   -- under the write lock: new state and result
  | read (g : σ → ρ)        -- under the read lock: a pure observation

/-- the lock mode the effect needs -/
def Eff.mode {σ ρ : Type} : Eff σ ρ → Mode
  | .write _ => .write
  | .read _ => .read

/-- the effect as a state transformer with result -/
def Eff.apply {σ ρ : Type} : Eff σ ρ → σ → σ × ρ
  | .write f, x => f x
  | .read g, x => (x, g x)

/-- an operation: `pre` thread-local steps, then ONE critical section of `L` with effect `eff`;
`tryAcq`: the acquisition is a try-acquisition (fails with the parent-locked error instead of waiting) -/
structure Op (σ ρ : Type) where
  tryAcq : Bool
  pre : Nat
  eff : Eff σ ρ

/-- what an operation returns -/
inductive Res (ρ : Type) where
  | ok (r : ρ)
  | locked            -- `ParentElementLocked`: the try-acquisition failed, no effect
  deriving DecidableEq, Repr

/-- program counter of a thread -/
inductive PC (ρ : Type) where
  | pre (k : Nat)             -- `k` thread-local steps left, then the acquisition
  | crit (m : Mode)           -- holds `L` in mode `m`, effect not yet performed
  | eff (m : Mode) (r : ρ)    -- effect performed with result `r`, `L` still held
  | done (r : Res ρ)          -- `L` released (or never acquired): the operation has returned `r`
  deriving DecidableEq, Repr

/-- the mode in which the thread holds `L` -/
def PC.held {ρ : Type} : PC ρ → Option Mode
  | .crit m => some m
  | .eff m _ => some m
  | _ => none

def PC.isDone {ρ : Type} : PC ρ → Bool
  | .done _ => true
  | _ => false

/-- shared state, the threads, and (ghost) the order of acquisition of `L` -/
structure Sys (σ ρ : Type) where
  st : σ
  pcs : List (PC ρ)
  log : List Nat
  deriving DecidableEq, Repr

/-- reader/writer lock: a writer needs `L` free, a reader needs that no writer holds `L` -/
def grantable {ρ : Type} (pcs : List (PC ρ)) : Mode → Bool
  | .write => pcs.all fun p => p.held.isNone
  | .read => pcs.all fun p => !(p.held == some .write)

/-- the step of thread `i`, if it can move -/
def step {σ ρ : Type} (ops : List (Op σ ρ)) (s : Sys σ ρ) (i : Nat) : Option (Sys σ ρ) :=
  match ops[i]?, s.pcs[i]? with
  | some _, some (.pre (k + 1)) => some { s with pcs := s.pcs.set i (.pre k) }
  | some o, some (.pre 0) =>
    if grantable s.pcs o.eff.mode then
      some { s with pcs := s.pcs.set i (.crit o.eff.mode), log := s.log ++ [i] }
    else if o.tryAcq then some { s with pcs := s.pcs.set i (.done .locked) }
    else none                                      -- a blocking acquisition waits
  | some o, some (.crit m) =>
    some { st := (o.eff.apply s.st).1, pcs := s.pcs.set i (.eff m (o.eff.apply s.st).2), log := s.log }
  | some _, some (.eff _ r) => some { s with pcs := s.pcs.set i (.done (.ok r)) }
  | _, _ => none

/-- a try-acquisition gives up although `L` might be grantable under the permissive policy: a timeout, or a stricter
(fair) grant policy such as `Locks.grantable`, where a waiting writer makes new readers wait -/
def giveUp {σ ρ : Type} (ops : List (Op σ ρ)) (s : Sys σ ρ) (i : Nat) : Option (Sys σ ρ) :=
  match ops[i]?, s.pcs[i]? with
  | some o, some (.pre 0) => if o.tryAcq then some { s with pcs := s.pcs.set i (.done .locked) } else none
  | _, _ => none

/-- an entry of a schedule: thread `i` moves, or the try-acquisition of thread `i` gives up -/
inductive Act where
  | go (i : Nat)
  | giveUp (i : Nat)
  deriving DecidableEq, Repr

/-- schedules can be written as lists of thread numbers -/
instance (n : Nat) : OfNat Act n := ⟨.go n⟩

def act {σ ρ : Type} (ops : List (Op σ ρ)) (s : Sys σ ρ) : Act → Option (Sys σ ρ)
  | .go i => step ops s i
  | .giveUp i => giveUp ops s i

/-- a scheduled thread that cannot move (blocked, finished, not existing) leaves the system unchanged -/
def stepOr {σ ρ : Type} (ops : List (Op σ ρ)) (s : Sys σ ρ) (a : Act) : Sys σ ρ := (act ops s a).getD s

/-- run a schedule -/
def run {σ ρ : Type} (ops : List (Op σ ρ)) (sched : List Act) (s : Sys σ ρ) : Sys σ ρ := sched.foldl (stepOr ops) s

def init {σ ρ : Type} (ops : List (Op σ ρ)) (x0 : σ) : Sys σ ρ :=
  { st := x0, pcs := ops.map fun o => .pre o.pre, log := [] }

def allDone {σ ρ : Type} (s : Sys σ ρ) : Bool := s.pcs.all PC.isDone

/-! ### serial execution -/

/-- execute operation number `i` as a whole on the accumulated state, record its result -/
def serialStep {σ ρ : Type} (ops : List (Op σ ρ)) (acc : σ × (Nat → Option ρ)) (i : Nat) : σ × (Nat → Option ρ) :=
  match ops[i]? with
  | none => acc
  | some o => ((o.eff.apply acc.1).1, fun j => if j = i then some (o.eff.apply acc.1).2 else acc.2 j)

/-- execute the operations `order` one after the other from `x0`: final state and the result of each executed operation -/
def serial {σ ρ : Type} (ops : List (Op σ ρ)) (order : List Nat) (x0 : σ) : σ × (Nat → Option ρ) :=
  order.foldl (serialStep ops) (x0, fun _ => none)

/-- the result the serial execution gives to operation `i` (`locked` for an operation that is not executed) -/
def serialRes {σ ρ : Type} (ops : List (Op σ ρ)) (order : List Nat) (x0 : σ) (i : Nat) : Res ρ :=
  match (serial ops order x0).2 i with
  | some r => .ok r
  | none => .locked

theorem serial_snoc {σ ρ : Type} (ops : List (Op σ ρ)) (order : List Nat) (x0 : σ) (i : Nat) :
    serial ops (order ++ [i]) x0 = serialStep ops (serial ops order x0) i := by
  simp [serial, List.foldl_append]

theorem serialStep_res_ne {σ ρ : Type} (ops : List (Op σ ρ)) (acc : σ × (Nat → Option ρ)) (i j : Nat) (h : j ≠ i) :
    (serialStep ops acc i).2 j = acc.2 j := by
  unfold serialStep
  split
  · rfl
  · simp [h]

theorem serial_res_none {σ ρ : Type} (ops : List (Op σ ρ)) (order : List Nat) (x0 : σ) (i : Nat) (h : i ∉ order) :
    (serial ops order x0).2 i = none := by
  have key : ∀ (acc : σ × (Nat → Option ρ)), acc.2 i = none → (order.foldl (serialStep ops) acc).2 i = none := by
    induction order with
    | nil => intro acc ha; exact ha
    | cons a l ih =>
      intro acc ha
      simp only [List.foldl_cons]
      apply ih (by intro hh; exact h (by simp [hh]))
      rw [serialStep_res_ne]
      · exact ha
      · intro hh; exact h (by simp [hh])
  exact key _ rfl

theorem apply_read_state {σ ρ : Type} (e : Eff σ ρ) (x : σ) (h : e.mode = .read) : (e.apply x).1 = x := by
  cases e with
  | write f => simp [Eff.mode] at h
  | read g => rfl

theorem get_set {α : Type} (l : List α) (i j : Nat) (a b : α) (h : (l.set i a)[j]? = some b) :
    (j = i ∧ b = a) ∨ (j ≠ i ∧ l[j]? = some b) := by
  rw [List.getElem?_set] at h
  split at h
  · split at h
    · left; simp_all
    · simp at h
  · right; exact ⟨by omega, h⟩

theorem get_set_self {α : Type} (l : List α) (i : Nat) (a b : α) (h : l[i]? = some b) : (l.set i a)[i]? = some a := by
  have : i < l.length := by
    rcases Nat.lt_or_ge i l.length with h1 | h1
    · exact h1
    · rw [List.getElem?_eq_none h1] at h; simp at h
  simp [this]

/-! ### the invariant -/

structure Inv {σ ρ : Type} (ops : List (Op σ ρ)) (x0 : σ) (s : Sys σ ρ) : Prop where
  len : s.pcs.length = ops.length
  nodup : s.log.Nodup
  pre_notin : ∀ i k, s.pcs[i]? = some (PC.pre k) → i ∉ s.log
  locked_notin : ∀ i, s.pcs[i]? = some (PC.done .locked) → i ∉ s.log ∧ ∃ o, ops[i]? = some o ∧ o.tryAcq = true
  done_res : ∀ i r, s.pcs[i]? = some (PC.done (.ok r)) → (serial ops s.log x0).2 i = some r
  eff_res : ∀ i m r, s.pcs[i]? = some (PC.eff m r) → (serial ops s.log x0).2 i = some r
  crit_res : ∀ i m, s.pcs[i]? = some (PC.crit m) →
    ∃ o, ops[i]? = some o ∧ m = o.eff.mode ∧ (serial ops s.log x0).2 i = some (o.eff.apply s.st).2
  st_pending : ∀ (i : Nat) (o : Op σ ρ), s.pcs[i]? = some (PC.crit .write) → ops[i]? = some o → (serial ops s.log x0).1 = (o.eff.apply s.st).1
  st_quiet : (∀ i : Nat, s.pcs[i]? ≠ some (PC.crit .write)) → (serial ops s.log x0).1 = s.st
  excl : ∀ (i j : Nat) (p q : PC ρ), s.pcs[i]? = some p → s.pcs[j]? = some q → p.held = some Mode.write → q.held ≠ none → i = j

theorem inv_init {σ ρ : Type} (ops : List (Op σ ρ)) (x0 : σ) : Inv ops x0 (init ops x0) := by
  have hp : ∀ (i : Nat) (p : PC ρ), (init ops x0).pcs[i]? = some p → ∃ k, p = PC.pre k := by
    intro i p h
    simp only [init, List.getElem?_map] at h
    cases ho : ops[i]? with
    | none => simp [ho] at h
    | some o => simp [ho] at h; exact ⟨_, h.symm⟩
  constructor
  · simp [init]
  · simp [init]
  · intro i k _; simp [init]
  · intro i h; obtain ⟨k, hk⟩ := hp _ _ h; cases hk
  · intro i r h; obtain ⟨k, hk⟩ := hp _ _ h; cases hk
  · intro i m r h; obtain ⟨k, hk⟩ := hp _ _ h; cases hk
  · intro i m h; obtain ⟨k, hk⟩ := hp _ _ h; cases hk
  · intro i o h; obtain ⟨k, hk⟩ := hp _ _ h; cases hk
  · intro _; rfl
  · intro i j p q h1 _ h3; obtain ⟨k, hk⟩ := hp _ _ h1; subst hk; simp [PC.held] at h3

/-- a thread-local step, a failed try-acquisition and a release: `pcs` changes at `i` from `p` to a `p'` that does
not hold `L`; state and order unchanged -/
theorem inv_quiet {σ ρ : Type} (ops : List (Op σ ρ)) (x0 : σ) (s : Sys σ ρ) (i : Nat) (p p' : PC ρ) (hs : Inv ops x0 s)
    (hi : s.pcs[i]? = some p) (hp : p ≠ PC.crit .write) (hheld : p'.held = none)
    (h1 : ∀ k, p' = PC.pre k → i ∉ s.log)
    (h2 : p' = PC.done .locked → i ∉ s.log ∧ ∃ o, ops[i]? = some o ∧ o.tryAcq = true)
    (h3 : ∀ r, p' = PC.done (.ok r) → (serial ops s.log x0).2 i = some r) :
    Inv ops x0 { s with pcs := s.pcs.set i p' } := by
  constructor
  · simp [hs.len]
  · exact hs.nodup
  · intro j k' h
    rcases get_set _ _ _ _ _ h with ⟨rfl, h'⟩ | ⟨_, h'⟩
    · exact h1 _ h'.symm
    · exact hs.pre_notin _ _ h'
  · intro j h
    rcases get_set _ _ _ _ _ h with ⟨rfl, h'⟩ | ⟨_, h'⟩
    · exact h2 h'.symm
    · exact hs.locked_notin _ h'
  · intro j r h
    rcases get_set _ _ _ _ _ h with ⟨rfl, h'⟩ | ⟨_, h'⟩
    · exact h3 _ h'.symm
    · exact hs.done_res _ _ h'
  · intro j m r h
    rcases get_set _ _ _ _ _ h with ⟨rfl, h'⟩ | ⟨_, h'⟩
    · subst h'; simp [PC.held] at hheld
    · exact hs.eff_res _ _ _ h'
  · intro j m h
    rcases get_set _ _ _ _ _ h with ⟨rfl, h'⟩ | ⟨_, h'⟩
    · subst h'; simp [PC.held] at hheld
    · exact hs.crit_res _ _ h'
  · intro j o h
    rcases get_set _ _ _ _ _ h with ⟨rfl, h'⟩ | ⟨_, h'⟩
    · subst h'; simp [PC.held] at hheld
    · exact hs.st_pending _ _ h'
  · intro h
    apply hs.st_quiet
    intro j hj
    by_cases hji : j = i
    · subst hji; rw [hi] at hj; exact hp (by cases hj; rfl)
    · apply h j
      show (s.pcs.set i p')[j]? = _
      rw [List.getElem?_set, if_neg (by omega)]
      exact hj
  · intro a b pa pb ha hb hpa hpb
    rcases get_set _ _ _ _ _ ha with ⟨rfl, h'⟩ | ⟨_, ha'⟩
    · subst h'; simp [hheld] at hpa
    · rcases get_set _ _ _ _ _ hb with ⟨rfl, h'⟩ | ⟨_, hb'⟩
      · subst h'; exact absurd hheld hpb
      · exact hs.excl _ _ _ _ ha' hb' hpa hpb

theorem grantable_no_writer {ρ : Type} (pcs : List (PC ρ)) (m : Mode) (h : grantable pcs m = true) (j : Nat) (q : PC ρ)
    (hj : pcs[j]? = some q) : q.held ≠ some Mode.write := by
  have hq : q ∈ pcs := List.mem_of_getElem? hj
  cases m with
  | write =>
    simp only [grantable, List.all_eq_true] at h
    have := h q hq
    intro hh; rw [hh] at this; simp at this
  | read =>
    simp only [grantable, List.all_eq_true] at h
    have := h q hq
    intro hh; rw [hh] at this; simp at this

theorem grantable_write_free {ρ : Type} (pcs : List (PC ρ)) (h : grantable pcs .write = true) (j : Nat) (q : PC ρ)
    (hj : pcs[j]? = some q) : q.held = none := by
  have hq : q ∈ pcs := List.mem_of_getElem? hj
  simp only [grantable, List.all_eq_true] at h
  have := h q hq
  simpa using this

/-- a granted acquisition -/
theorem inv_acq {σ ρ : Type} (ops : List (Op σ ρ)) (x0 : σ) (s : Sys σ ρ) (i : Nat) (o : Op σ ρ) (hs : Inv ops x0 s)
    (hi : s.pcs[i]? = some (PC.pre 0)) (ho : ops[i]? = some o) (hg : grantable s.pcs o.eff.mode = true) :
    Inv ops x0 { s with pcs := s.pcs.set i (PC.crit o.eff.mode), log := s.log ++ [i] } := by
  have hnw := grantable_no_writer _ _ hg
  have hst : (serial ops s.log x0).1 = s.st := by
    apply hs.st_quiet
    intro j hj
    exact hnw j _ hj rfl
  have hil : i ∉ s.log := hs.pre_notin _ _ hi
  have hS : serial ops (s.log ++ [i]) x0 =
      ((o.eff.apply s.st).1, fun j => if j = i then some (o.eff.apply s.st).2 else (serial ops s.log x0).2 j) := by
    rw [serial_snoc, serialStep, ho, hst]
  have hne : ∀ j, j ≠ i → (serial ops (s.log ++ [i]) x0).2 j = (serial ops s.log x0).2 j := by
    intro j hj; rw [hS]; simp [hj]
  constructor
  · simp [hs.len]
  · show (s.log ++ [i]).Nodup
    rw [List.nodup_append]
    refine ⟨hs.nodup, by simp, ?_⟩
    intro a ha b hb
    simp at hb; subst hb
    intro hab; subst hab; exact hil ha
  · intro j k' h
    rcases get_set _ _ _ _ _ h with ⟨rfl, h'⟩ | ⟨hji, h'⟩
    · cases h'
    · have := hs.pre_notin _ _ h'
      show j ∉ s.log ++ [i]
      simp [this, hji]
  · intro j h
    rcases get_set _ _ _ _ _ h with ⟨rfl, h'⟩ | ⟨hji, h'⟩
    · cases h'
    · have := hs.locked_notin _ h'
      refine ⟨?_, this.2⟩
      show j ∉ s.log ++ [i]
      simp [this.1, hji]
  · intro j r h
    rcases get_set _ _ _ _ _ h with ⟨rfl, h'⟩ | ⟨hji, h'⟩
    · cases h'
    · show (serial ops (s.log ++ [i]) x0).2 j = _
      rw [hne j hji]; exact hs.done_res _ _ h'
  · intro j m r h
    rcases get_set _ _ _ _ _ h with ⟨rfl, h'⟩ | ⟨hji, h'⟩
    · cases h'
    · show (serial ops (s.log ++ [i]) x0).2 j = _
      rw [hne j hji]; exact hs.eff_res _ _ _ h'
  · intro j m h
    rcases get_set _ _ _ _ _ h with ⟨rfl, h'⟩ | ⟨hji, h'⟩
    · cases h'
      refine ⟨o, ho, rfl, ?_⟩
      show (serial ops (s.log ++ [j]) x0).2 j = _
      rw [hS]; simp
    · obtain ⟨o', h1, h2, h3⟩ := hs.crit_res _ _ h'
      refine ⟨o', h1, h2, ?_⟩
      show (serial ops (s.log ++ [i]) x0).2 j = _
      rw [hne j hji]; exact h3
  · intro j o' h ho'
    rcases get_set _ _ _ _ _ h with ⟨rfl, h'⟩ | ⟨hji, h'⟩
    · rw [ho] at ho'; cases ho'
      show (serial ops (s.log ++ [j]) x0).1 = _
      rw [hS]
    · exact absurd rfl (hnw j _ h')
  · intro h
    have hm : o.eff.mode = .read := by
      have := h i
      rw [show ({ s with pcs := s.pcs.set i (PC.crit o.eff.mode), log := s.log ++ [i] } : Sys σ ρ).pcs
        = s.pcs.set i (PC.crit o.eff.mode) from rfl, get_set_self _ _ _ _ hi] at this
      cases hmm : o.eff.mode with
      | read => rfl
      | write => rw [hmm] at this; exact absurd rfl this
    show (serial ops (s.log ++ [i]) x0).1 = s.st
    rw [hS]
    exact apply_read_state _ _ hm
  · intro a b pa pb ha hb hpa hpb
    rcases get_set _ _ _ _ _ ha with ⟨rfl, h'⟩ | ⟨hai, ha'⟩
    · subst h'
      simp only [PC.held, Option.some.injEq] at hpa
      rcases get_set _ _ _ _ _ hb with ⟨rfl, _⟩ | ⟨_, hb'⟩
      · rfl
      · rw [hpa] at hg
        exact absurd (grantable_write_free _ hg _ _ hb') hpb
    · exact absurd hpa (hnw a _ ha')

/-- the effect, performed while holding `L` -/
theorem inv_eff {σ ρ : Type} (ops : List (Op σ ρ)) (x0 : σ) (s : Sys σ ρ) (i : Nat) (o : Op σ ρ) (m : Mode)
    (hs : Inv ops x0 s) (hi : s.pcs[i]? = some (PC.crit m)) (ho : ops[i]? = some o) :
    Inv ops x0 { st := (o.eff.apply s.st).1, pcs := s.pcs.set i (PC.eff m (o.eff.apply s.st).2), log := s.log } := by
  obtain ⟨o', ho', hm, hr⟩ := hs.crit_res _ _ hi
  rw [ho] at ho'; cases ho'
  -- either a reader (state unchanged) or the only holder of `L`
  have hcase : (o.eff.apply s.st).1 = s.st ∨
      (m = .write ∧ ∀ j q, j ≠ i → s.pcs[j]? = some q → q.held = none) := by
    cases hmm : m with
    | read => left; exact apply_read_state _ _ (by rw [← hm, hmm])
    | write =>
      right
      refine ⟨rfl, ?_⟩
      intro j q hji hj
      cases hq : q.held with
      | none => rfl
      | some mq =>
        have := hs.excl i j _ _ hi hj (by simp [PC.held, hmm]) (by simp [hq])
        exact absurd this.symm hji
  constructor
  · simp [hs.len]
  · exact hs.nodup
  · intro j k' h
    rcases get_set _ _ _ _ _ h with ⟨rfl, h'⟩ | ⟨_, h'⟩
    · cases h'
    · exact hs.pre_notin _ _ h'
  · intro j h
    rcases get_set _ _ _ _ _ h with ⟨rfl, h'⟩ | ⟨_, h'⟩
    · cases h'
    · exact hs.locked_notin _ h'
  · intro j r h
    rcases get_set _ _ _ _ _ h with ⟨rfl, h'⟩ | ⟨_, h'⟩
    · cases h'
    · exact hs.done_res _ _ h'
  · intro j m' r h
    rcases get_set _ _ _ _ _ h with ⟨rfl, h'⟩ | ⟨_, h'⟩
    · cases h'; exact hr
    · exact hs.eff_res _ _ _ h'
  · intro j m' h
    rcases get_set _ _ _ _ _ h with ⟨rfl, h'⟩ | ⟨hji, h'⟩
    · cases h'
    · rcases hcase with hc | ⟨_, hc⟩
      · show ∃ o' : Op σ ρ, _ ∧ _ ∧ _ = some (o'.eff.apply (o.eff.apply s.st).1).2
        rw [hc]; exact hs.crit_res _ _ h'
      · have := hc j _ hji h'; simp [PC.held] at this
  · intro j o' h ho'
    rcases get_set _ _ _ _ _ h with ⟨rfl, h'⟩ | ⟨hji, h'⟩
    · cases h'
    · rcases hcase with hc | ⟨_, hc⟩
      · show _ = (o'.eff.apply (o.eff.apply s.st).1).1
        rw [hc]; exact hs.st_pending _ _ h' ho'
      · have := hc j _ hji h'; simp [PC.held] at this
  · intro h
    show (serial ops s.log x0).1 = (o.eff.apply s.st).1
    cases hmm : m with
    | write => rw [hmm] at hi; exact hs.st_pending _ _ hi ho
    | read =>
      rw [apply_read_state _ _ (by rw [← hm, hmm])]
      apply hs.st_quiet
      intro j hj
      by_cases hji : j = i
      · subst hji; rw [hi, hmm] at hj; cases hj
      · apply h j
        show (s.pcs.set i _)[j]? = _
        rw [List.getElem?_set, if_neg (by omega)]
        exact hj
  · intro a b pa pb ha hb hpa hpb
    have hi' : s.pcs[i]? = some (PC.crit m) := hi
    rcases get_set _ _ _ _ _ ha with ⟨rfl, h'⟩ | ⟨hai, ha'⟩
    · subst h'
      rcases get_set _ _ _ _ _ hb with ⟨rfl, _⟩ | ⟨_, hb'⟩
      · rfl
      · exact hs.excl _ _ _ _ hi' hb' (by simpa [PC.held] using hpa) hpb
    · rcases get_set _ _ _ _ _ hb with ⟨rfl, h'⟩ | ⟨_, hb'⟩
      · exact hs.excl _ _ _ _ ha' hi' hpa (by simp [PC.held])
      · exact hs.excl _ _ _ _ ha' hb' hpa hpb

/-- every step preserves the invariant -/
theorem inv_step {σ ρ : Type} (ops : List (Op σ ρ)) (x0 : σ) (s s' : Sys σ ρ) (i : Nat) (hs : Inv ops x0 s)
    (h : step ops s i = some s') : Inv ops x0 s' := by
  unfold step at h
  split at h
  · rename_i o k ho hi
    cases h
    exact inv_quiet ops x0 s i _ _ hs hi (by simp) rfl (fun _ _ => hs.pre_notin _ _ hi) (by simp) (by simp)
  · rename_i o ho hi
    split at h
    · cases h; exact inv_acq ops x0 s i o hs hi ho (by assumption)
    · split at h
      · cases h
        exact inv_quiet ops x0 s i _ _ hs hi (by simp) rfl (by simp)
          (fun _ => ⟨hs.pre_notin _ _ hi, o, ho, by assumption⟩) (by simp)
      · cases h
  · rename_i o m ho hi
    cases h
    exact inv_eff ops x0 s i o m hs hi ho
  · rename_i o m r ho hi
    cases h
    exact inv_quiet ops x0 s i _ _ hs hi (by simp) rfl (by simp) (by simp)
      (fun r' hr => by cases hr; exact hs.eff_res _ _ _ hi)
  · cases h

theorem inv_giveUp {σ ρ : Type} (ops : List (Op σ ρ)) (x0 : σ) (s s' : Sys σ ρ) (i : Nat) (hs : Inv ops x0 s)
    (h : giveUp ops s i = some s') : Inv ops x0 s' := by
  unfold giveUp at h
  split at h
  · rename_i o ho hi
    split at h
    · cases h
      exact inv_quiet ops x0 s i _ _ hs hi (by simp) rfl (by simp)
        (fun _ => ⟨hs.pre_notin _ _ hi, o, ho, by assumption⟩) (by simp)
    · cases h
  · cases h

theorem inv_act {σ ρ : Type} (ops : List (Op σ ρ)) (x0 : σ) (s s' : Sys σ ρ) (a : Act) (hs : Inv ops x0 s)
    (h : act ops s a = some s') : Inv ops x0 s' := by
  cases a with
  | go i => exact inv_step ops x0 s s' i hs h
  | giveUp i => exact inv_giveUp ops x0 s s' i hs h

theorem inv_run {σ ρ : Type} (ops : List (Op σ ρ)) (x0 : σ) (sched : List Act) (s : Sys σ ρ) (hs : Inv ops x0 s) :
    Inv ops x0 (run ops sched s) := by
  induction sched generalizing s with
  | nil => exact hs
  | cons i rest ih =>
    simp only [run, List.foldl_cons]
    apply ih
    unfold stepOr
    cases h : act ops s i with
    | none => exact hs
    | some s' => exact inv_act ops x0 s s' i hs h

/-- only existing threads acquire -/
theorem log_lt_step {σ ρ : Type} (ops : List (Op σ ρ)) (s s' : Sys σ ρ) (i : Nat) (hs : ∀ j, j ∈ s.log → j < ops.length)
    (h : step ops s i = some s') : ∀ j, j ∈ s'.log → j < ops.length := by
  unfold step at h
  split at h
  · cases h; exact hs
  · rename_i o ho hi
    split at h
    · cases h
      intro j hj
      simp only [List.mem_append, List.mem_singleton] at hj
      rcases hj with hj | rfl
      · exact hs j hj
      · rcases Nat.lt_or_ge j ops.length with h1 | h1
        · exact h1
        · rw [List.getElem?_eq_none h1] at ho; cases ho
    · split at h
      · cases h; exact hs
      · cases h
  · cases h; exact hs
  · cases h; exact hs
  · cases h

theorem log_lt_act {σ ρ : Type} (ops : List (Op σ ρ)) (s s' : Sys σ ρ) (a : Act) (hs : ∀ j, j ∈ s.log → j < ops.length)
    (h : act ops s a = some s') : ∀ j, j ∈ s'.log → j < ops.length := by
  cases a with
  | go i => exact log_lt_step ops s s' i hs h
  | giveUp i =>
    simp only [act, giveUp] at h
    split at h
    · split at h
      · cases h; exact hs
      · cases h
    · cases h

theorem log_lt_run {σ ρ : Type} (ops : List (Op σ ρ)) (sched : List Act) (s : Sys σ ρ)
    (hs : ∀ j, j ∈ s.log → j < ops.length) : ∀ j, j ∈ (run ops sched s).log → j < ops.length := by
  induction sched generalizing s with
  | nil => exact hs
  | cons i rest ih =>
    simp only [run, List.foldl_cons]
    apply ih
    unfold stepOr
    cases h : act ops s i with
    | none => exact hs
    | some s' => exact log_lt_act ops s s' i hs h

theorem serial_res_isSome {σ ρ : Type} (ops : List (Op σ ρ)) (order : List Nat) (x0 : σ) (i : Nat) (h : i ∈ order)
    (hi : i < ops.length) : ((serial ops order x0).2 i).isSome = true := by
  have key : ∀ (order : List Nat) (acc : σ × (Nat → Option ρ)), ((acc.2 i).isSome = true ∨ i ∈ order) →
      ((order.foldl (serialStep ops) acc).2 i).isSome = true := by
    intro order
    induction order with
    | nil => intro acc ha; simpa using ha
    | cons a l ih =>
      intro acc ha
      simp only [List.foldl_cons]
      apply ih
      · by_cases hai : i = a
        · subst hai
          left
          unfold serialStep
          rw [List.getElem?_eq_getElem hi]
          simp
        · rcases ha with ha | ha
          · left; rw [serialStep_res_ne _ _ _ _ hai]; exact ha
          · right; simpa [hai] using ha
  exact key _ _ (Or.inr h)

/-- **Serializability of one-section operations** (C16).  For any number of threads and ANY schedule: if the
interleaved run from `x0` ends with all threads finished, then with `order` = the order in which the threads acquired `L`
* the final state is that of the serial execution of the operations in `order`;
* every thread returned what the serial execution returns for it (`locked` for the threads that are not in `order`);
* `order` has no repetitions and consists of existing threads, a thread is in `order` iff it did not fail with
  `locked`, and only try-operations are missing from `order`. -/
theorem serializable {σ ρ : Type} (ops : List (Op σ ρ)) (x0 : σ) (sched : List Act)
    (hdone : allDone (run ops sched (init ops x0)) = true) :
    (run ops sched (init ops x0)).st = (serial ops (run ops sched (init ops x0)).log x0).1 ∧
    (∀ i, i < ops.length → (run ops sched (init ops x0)).pcs[i]? =
      some (PC.done (serialRes ops (run ops sched (init ops x0)).log x0 i))) ∧
    (run ops sched (init ops x0)).log.Nodup ∧
    (∀ i, i ∈ (run ops sched (init ops x0)).log → i < ops.length) ∧
    (∀ i, i < ops.length → (i ∈ (run ops sched (init ops x0)).log ↔
      serialRes ops (run ops sched (init ops x0)).log x0 i ≠ Res.locked)) ∧
    (∀ i o, ops[i]? = some o → i ∉ (run ops sched (init ops x0)).log → o.tryAcq = true) := by
  have hinv := inv_run ops x0 sched _ (inv_init ops x0)
  have hlt := log_lt_run ops sched (init ops x0) (by simp [init])
  generalize run ops sched (init ops x0) = s at *
  have hall : ∀ i, i < ops.length → ∃ r, s.pcs[i]? = some (PC.done r) := by
    intro i hi
    have hi' : i < s.pcs.length := by rw [hinv.len]; exact hi
    have hm : s.pcs[i] ∈ s.pcs := List.getElem_mem hi'
    simp only [allDone, List.all_eq_true] at hdone
    have := hdone _ hm
    rw [List.getElem?_eq_getElem hi']
    cases hp : s.pcs[i] with
    | done r => exact ⟨r, rfl⟩
    | pre k => rw [hp] at this; simp [PC.isDone] at this
    | crit m => rw [hp] at this; simp [PC.isDone] at this
    | eff m r => rw [hp] at this; simp [PC.isDone] at this
  have hres : ∀ i, i < ops.length → s.pcs[i]? = some (PC.done (serialRes ops s.log x0 i)) := by
    intro i hi
    obtain ⟨r, hr⟩ := hall i hi
    rw [hr]
    cases r with
    | ok r => simp [serialRes, hinv.done_res _ _ hr]
    | locked => simp [serialRes, serial_res_none _ _ _ _ (hinv.locked_notin _ hr).1]
  refine ⟨?_, hres, hinv.nodup, hlt, ?_, ?_⟩
  · symm
    apply hinv.st_quiet
    intro i hi
    have hil : i < ops.length := by
      rw [← hinv.len]
      rcases Nat.lt_or_ge i s.pcs.length with h1 | h1
      · exact h1
      · rw [List.getElem?_eq_none h1] at hi; cases hi
    obtain ⟨r, hr⟩ := hall i hil
    rw [hr] at hi; cases hi
  · intro i hi
    constructor
    · intro hmem
      have := serial_res_isSome ops s.log x0 i hmem hi
      unfold serialRes
      cases hh : (serial ops s.log x0).2 i with
      | none => rw [hh] at this; simp at this
      | some r => simp
    · intro hne
      apply Classical.byContradiction
      intro hmem
      exact hne (by simp [serialRes, serial_res_none _ _ _ _ hmem])
  · intro i o ho hmem
    have hi : i < ops.length := by
      rcases Nat.lt_or_ge i ops.length with h1 | h1
      · exact h1
      · rw [List.getElem?_eq_none h1] at ho; cases ho
    have h1 := hres i hi
    rw [show serialRes ops s.log x0 i = Res.locked by simp [serialRes, serial_res_none _ _ _ _ hmem]] at h1
    obtain ⟨_, o', ho', ht⟩ := hinv.locked_notin _ h1
    rw [ho] at ho'; cases ho'; exact ht

/-- the per-thread results as a list -/
theorem serializable_results {σ ρ : Type} (ops : List (Op σ ρ)) (x0 : σ) (sched : List Act)
    (hdone : allDone (run ops sched (init ops x0)) = true) :
    (run ops sched (init ops x0)).pcs =
      (List.range ops.length).map fun i => PC.done (serialRes ops (run ops sched (init ops x0)).log x0 i) := by
  have h := (serializable ops x0 sched hdone).2.1
  have hlen := (inv_run ops x0 sched _ (inv_init ops x0)).len
  apply List.ext_getElem?
  intro i
  rcases Nat.lt_or_ge i ops.length with hi | hi
  · rw [h i hi]
    simp [hi]
  · rw [List.getElem?_eq_none (by rw [hlen]; exact hi), List.getElem?_eq_none (by simpa using hi)]

/-- mutual exclusion in every state of every run: a thread that holds `L` for writing is the only holder
(the counterpart of `C16_write_excludes` for this machine) -/
theorem run_excludes {σ ρ : Type} (ops : List (Op σ ρ)) (x0 : σ) (sched : List Act) (i j : Nat) (p q : PC ρ)
    (hi : (run ops sched (init ops x0)).pcs[i]? = some p) (hj : (run ops sched (init ops x0)).pcs[j]? = some q)
    (hp : p.held = some Mode.write) (hq : q.held ≠ none) : i = j :=
  (inv_run ops x0 sched _ (inv_init ops x0)).excl i j p q hi hj hp hq

/-! ### non-vacuity: three threads on `σ = List Nat` -/

/-- append `v`, return the previous length -/
def push (v : Nat) : Eff (List Nat) Nat := .write fun l => (l ++ [v], l.length)

/-- two blocking writers and one try-writer -/
def ex3 : List (Op (List Nat) Nat) := [⟨false, 1, push 1⟩, ⟨true, 0, push 2⟩, ⟨false, 0, push 3⟩]

/-- thread 0 makes its local step and acquires; the try-acquisition of thread 1 fails; thread 2 is blocked (its
scheduled step is lost); thread 0 acts and releases; thread 2 runs.  Order of acquisition `[0, 2]`. -/
example : run ex3 [0, 0, 1, 2, 0, 0, 2, 2, 2] (init ex3 []) =
    { st := [1, 3], pcs := [.done (.ok 0), .done .locked, .done (.ok 1)], log := [0, 2] } := by decide

example : allDone (run ex3 [0, 0, 1, 2, 0, 0, 2, 2, 2] (init ex3 [])) = true := by decide

example : (serial ex3 [0, 2] []).1 = [1, 3] ∧ [0, 1, 2].map (serialRes ex3 [0, 2] []) = [.ok 0, .locked, .ok 1] := by decide

/-- another interleaving: the try-acquisition succeeds, order `[2, 1, 0]` -/
example : run ex3 [2, 2, 0, 2, 1, 1, 1, 0, 0, 0] (init ex3 []) =
    { st := [3, 2, 1], pcs := [.done (.ok 2), .done (.ok 1), .done (.ok 0)], log := [2, 1, 0] } := by decide

/-- a try-acquisition may also give up spuriously (timeout, fair policy): thread 1 gives up while `L` is free -/
example : run ex3 [.giveUp 1, 0, 0, 0, 0, 2, 2, 2] (init ex3 []) =
    { st := [1, 3], pcs := [.done (.ok 0), .done .locked, .done (.ok 1)], log := [0, 2] } := by decide

/-- a blocking acquisition cannot give up -/
example : giveUp ex3 (init ex3 []) 2 = none := by decide

/-- readers: two observers share `L` (both are inside their critical sections at the same time), a writer waits -/
def exR : List (Op (List Nat) Nat) := [⟨false, 0, .read List.length⟩, ⟨false, 0, .read List.sum⟩, ⟨false, 0, push 7⟩]

example : (run exR [0, 1] (init exR [5])).pcs = [.crit .read, .crit .read, .pre 0] ∧
    step exR (run exR [0, 1] (init exR [5])) 2 = none := by decide

example : run exR [0, 1, 2, 1, 0, 0, 1, 2, 2, 2] (init exR [5]) =
    { st := [5, 7], pcs := [.done (.ok 1), .done (.ok 5), .done (.ok 1)], log := [0, 1, 2] } := by decide

/-! ### the negation side: an operation made of TWO critical sections is not covered

`load_buffer` is `acquire ; check files.is_empty() ; release ; acquire ; install or merge ; release`
(`Atom.stepLoad`).  In this formalism each critical section is an operation of its own (the thread's memory between
its two sections, `Atom.PC`, is kept in a slot of the shared state that only this thread's sections touch).  The theorem
then gives serializability of the SECTIONS — and the order check₀ check₁ act₀ act₁ is a serial order of sections that
is not a serial order of loads: it is exactly the witness `C16_witness_concurrent_load`.  If each load is ONE section
(`loadWhole`), no interleaving produces that state (`one_section_load_never_loses`). -/

abbrev LSt := Atom.M × List Atom.PC

/-- one critical section of the load run by thread `t`: one step of `Atom.run` -/
def loadSec (t : Nat) (s : LSt) : LSt × Unit :=
  match s.2[t]? with
  | some pc => (((Atom.stepLoad s.1 pc).1, s.2.set t (Atom.stepLoad s.1 pc).2), ())
  | none => (s, ())

theorem atom_run_eq (sched : List Nat) (m : Atom.M) (ts : List Atom.PC) :
    Atom.run sched m ts = sched.foldl (fun s t => (loadSec t s).1) (m, ts) := by
  induction sched generalizing m ts with
  | nil => rfl
  | cons i rest ih =>
    simp only [Atom.run, List.foldl_cons, loadSec]
    cases h : ts[i]? with
    | none => simp only []; exact ih m ts
    | some pc => simp only []; exact ih _ _

def loadInit : LSt := (Atom.empty, [.start 1, .start 2])

/-- two loads, each as TWO one-section operations: threads 0, 2 = check and act of load 0; threads 1, 3 = load 1 -/
def loadSections : List (Op LSt Unit) :=
  [⟨false, 0, .write (loadSec 0)⟩, ⟨false, 0, .write (loadSec 1)⟩, ⟨false, 0, .write (loadSec 0)⟩, ⟨false, 0, .write (loadSec 1)⟩]

/-- two loads, each as ONE critical section (check and act without releasing in between) -/
def loadWhole (t : Nat) : Op LSt Unit := ⟨false, 0, .write fun s => loadSec t (loadSec t s).1⟩

def loadWholes : List (Op LSt Unit) := [loadWhole 0, loadWhole 1]

/-- the interleaving check₀ check₁ act₀ act₁ of the two-section loads, every section a proper critical section:
the run is complete, its final state is the one of `C16_witness_concurrent_load` (both files registered, the content of
file 1 lost), it is the serial execution of the SECTIONS in acquisition order (as `serializable` says), and it is
neither of the two serial executions of the loads -/
theorem two_sections_not_serializable :
    let s := run loadSections [0, 0, 0, 1, 1, 1, 2, 2, 2, 3, 3, 3] (init loadSections loadInit)
    allDone s = true ∧ s.log = [0, 1, 2, 3] ∧
    s.st = Atom.run [0, 1, 0, 1] Atom.empty [.start 1, .start 2] ∧
    s.st = (⟨[2], [1, 2]⟩, [.done, .done]) ∧
    s.st = (serial loadSections s.log loadInit).1 ∧
    s.st ≠ (serial loadWholes [0, 1] loadInit).1 ∧ s.st ≠ (serial loadWholes [1, 0] loadInit).1 ∧
    (serial loadWholes [0, 1] loadInit).1 = Atom.run [0, 0, 1, 1] Atom.empty [.start 1, .start 2] ∧
    (serial loadWholes [1, 0] loadInit).1 = Atom.run [1, 1, 0, 0] Atom.empty [.start 1, .start 2] := by decide

theorem nodup_two (l : List Nat) (hn : l.Nodup) (hlt : ∀ i, i ∈ l → i < 2) (h0 : 0 ∈ l) (h1 : 1 ∈ l) :
    l = [0, 1] ∨ l = [1, 0] := by
  match l, hn, hlt, h0, h1 with
  | [], _, _, h0, _ => simp at h0
  | [a], _, _, h0, h1 => simp at h0 h1; omega
  | [a, b], hn, hlt, h0, h1 =>
    simp at hn h0 h1
    have := hlt a (by simp); have := hlt b (by simp)
    have ha : a = 0 ∨ a = 1 := by omega
    have hb : b = 0 ∨ b = 1 := by omega
    rcases ha with rfl | rfl <;> rcases hb with rfl | rfl <;> simp_all
  | a :: b :: c :: _, hn, hlt, _, _ =>
    simp at hn
    have := hlt a (by simp); have := hlt b (by simp); have := hlt c (by simp)
    omega

/-- two blocking one-section operations: the order of acquisition is one of the two orders -/
theorem two_blocking_orders {σ ρ : Type} (o0 o1 : Op σ ρ) (x0 : σ) (sched : List Act) (h0 : o0.tryAcq = false)
    (h1 : o1.tryAcq = false) (hdone : allDone (run [o0, o1] sched (init [o0, o1] x0)) = true) :
    (run [o0, o1] sched (init [o0, o1] x0)).log = [0, 1] ∨ (run [o0, o1] sched (init [o0, o1] x0)).log = [1, 0] := by
  obtain ⟨_, _, hn, hlt, _, htry⟩ := serializable [o0, o1] x0 sched hdone
  apply nodup_two _ hn hlt
  · apply Classical.byContradiction
    intro hm
    have := htry 0 o0 rfl hm
    rw [h0] at this; cases this
  · apply Classical.byContradiction
    intro hm
    have := htry 1 o1 rfl hm
    rw [h1] at this; cases this

/-- with each load in ONE critical section, every complete interleaving ends in the state of one of the two serial
executions of the loads; in particular never in the state of the witness (content of a registered file lost) -/
theorem one_section_load_never_loses (sched : List Act)
    (hdone : allDone (run loadWholes sched (init loadWholes loadInit)) = true) :
    ((run loadWholes sched (init loadWholes loadInit)).st = Atom.run [0, 0, 1, 1] Atom.empty [.start 1, .start 2] ∨
     (run loadWholes sched (init loadWholes loadInit)).st = Atom.run [1, 1, 0, 0] Atom.empty [.start 1, .start 2]) ∧
    (run loadWholes sched (init loadWholes loadInit)).st ≠ Atom.run [0, 1, 0, 1] Atom.empty [.start 1, .start 2] := by
  have hst := (serializable loadWholes loadInit sched hdone).1
  have hor := two_blocking_orders (loadWhole 0) (loadWhole 1) loadInit sched rfl rfl hdone
  have hst' : (run loadWholes sched (init loadWholes loadInit)).st = (serial loadWholes [0, 1] loadInit).1 ∨
      (run loadWholes sched (init loadWholes loadInit)).st = (serial loadWholes [1, 0] loadInit).1 := by
    rcases hor with h | h
    · left; rw [hst]; exact congrArg (fun l => (serial loadWholes l loadInit).1) h
    · right; rw [hst]; exact congrArg (fun l => (serial loadWholes l loadInit).1) h
  have e1 : (serial loadWholes [0, 1] loadInit).1 = Atom.run [0, 0, 1, 1] Atom.empty [.start 1, .start 2] := by decide
  have e2 : (serial loadWholes [1, 0] loadInit).1 = Atom.run [1, 1, 0, 0] Atom.empty [.start 1, .start 2] := by decide
  rw [e1, e2] at hst'
  refine ⟨hst', ?_⟩
  rcases hst' with h | h
  · rw [h]; decide
  · rw [h]; decide

end AV.Serializable
