/-
C10: effective file membership (`Element::file_membership`: the nearest non-empty local file set on
the way up) — every element of a model whose root belongs to a file has a non-empty effective set,
and an element without a local set has exactly its parent's.  C13: what `deep_copy` keeps.
-/
import AutosarVerif.Model.WorldQuery

namespace AV.W

/-- effective file set along a chain root … element: walking down, a non-empty local set replaces the
inherited one (`file_membership` walks up to the nearest non-empty local set: the same set) -/
def effective (c : List (Hdr × Items)) : List Nat :=
  c.foldl (fun acc (n : Hdr × Items) => if n.1.files.isEmpty then acc else n.1.files) []

theorem effective_snoc_empty (c : List (Hdr × Items)) (h : Hdr) (k : Items) (he : h.files = []) :
    effective (c ++ [(h, k)]) = effective c := by
  simp [effective, List.foldl_append, he]

theorem effective_snoc_local (c : List (Hdr × Items)) (h : Hdr) (k : Items) (hne : h.files ≠ []) :
    effective (c ++ [(h, k)]) = h.files := by
  have : h.files.isEmpty = false := by
    cases hf : h.files with
    | nil => exact absurd hf hne
    | cons _ _ => rfl
  simp [effective, List.foldl_append, this, hne]

theorem foldl_files_nonempty (rest : List (Hdr × Items)) (acc : List Nat) (ha : acc ≠ []) :
    rest.foldl (fun acc (n : Hdr × Items) => if n.1.files.isEmpty then acc else n.1.files) acc ≠ [] := by
  induction rest generalizing acc with
  | nil => simpa using ha
  | cons n ns ih =>
    simp only [List.foldl_cons]
    apply ih
    split
    · exact ha
    · rename_i hn
      intro h0; apply hn; simp [h0]

/-- if the root has a non-empty local file set (it has: `create_file` adds every file to the root), every
element below it has a non-empty effective set: it is written to at least one file -/
theorem effective_nonempty (root : Hdr × Items) (rest : List (Hdr × Items)) (hr : root.1.files ≠ []) :
    effective (root :: rest) ≠ [] := by
  have h0 : root.1.files.isEmpty = false := by
    cases hf : root.1.files with
    | nil => exact absurd hf hr
    | cons _ _ => rfl
  simp only [effective, List.foldl_cons, h0]
  exact foldl_files_nonempty rest _ hr

/-! ### C13: what a deep copy keeps -/

/-- the copy of a node has the requested id and parent, the same element name, type and comment, and no
local file set (it inherits from its new parent) -/
theorem deepCopy_head (S : Spec) (fuel : Nat) (h : Hdr) (kids : Items) (ver : Nat) (parent : PRef) (nid : Nat)
    (h' : Hdr) (k' : Items) (n' : Nat) (hc : deepCopy S fuel h kids ver parent nid = some (h', k', n')) :
    h'.id = nid ∧ h'.parent = parent ∧ h'.name = h.name ∧ h'.ety = h.ety ∧ h'.comment = h.comment ∧ h'.files = [] := by
  cases fuel with
  | zero => simp [deepCopy] at hc
  | succ f =>
    unfold deepCopy at hc
    dsimp only at hc
    split at hc
    · simp at hc
    · simp only [Option.some.injEq, Prod.mk.injEq] at hc
      obtain ⟨rfl, _, _⟩ := hc
      simp

/-- values whose specification is not an enumeration are valid in every version: they are always copied -/
theorem valueCompat_non_enum (v : CDv) (sp : CSpec) (ver : Nat) (h : ∀ items, sp ≠ .enum items) : valueCompat v sp ver = true := by
  cases sp with
  | enum items => exact absurd rfl (h items)
  | pattern _ _ => rfl
  | string _ _ => rfl
  | uint => rfl
  | float => rfl

end AV.W
