/-
The lexical hypotheses of `Lemmas/SerLex.lean` (`wfItems`) on the REAL name tables (`Gen/NamesElem.lean`,
`Gen/NamesAttr.lean`, `Gen/NamesEnum.lean`, regenerated from the Rust source): by kernel evaluation of a scan over the
packed names,
* every element name is not empty and consists of bytes other than white space, `>`, `/`, `?`, `!`  (so `nameOK`),
* no attribute name contains `>`,
* no enumeration item contains `<` or `>`.
Hence for an environment whose texts are those of the tables, `wfItems` holds of every tree whose element names are
discriminants of the table and whose comments satisfy `commentOK` (`wfItems_real`); `commentOK` (no `-->` in the text)
holds of every text `set_comment` stores (`commentOK_fixComment` in `SerLex.lean`, after the repair of
c01:comment-starting-with-gt).
-/
import AutosarVerif.Lemmas.SerLex
import AutosarVerif.Lemmas.SerLexRealScan

namespace AV.SerLex.Real
open AV AV.W AV.Lex AV.SerLex

theorem allBytesN_sound (p : Nat → Bool) (fuel n : Nat) (h : allBytesN p fuel n = true) :
    ∀ c ∈ Hash.unpack fuel n, p c.toNat = true := by
  induction fuel generalizing n with
  | zero => simp [Hash.unpack]
  | succ fuel ih =>
    simp only [allBytesN] at h
    simp only [Hash.unpack]
    split
    · simp
    · rename_i hn
      rw [if_neg hn, Bool.and_eq_true] at h
      intro c hc
      rcases List.mem_cons.mp hc with rfl | hc
      · have : (UInt8.ofNat (n % 256)).toNat = n % 256 := by
          simp [UInt8.toNat_ofNat']
        rw [this]; exact h.1
      · exact ih _ h.2 c hc

theorem unpack_ne_nil (fuel n : Nat) (h : 1 < n) : Hash.unpack (fuel + 1) n ≠ [] := by
  simp only [Hash.unpack]
  rw [if_neg (by omega)]
  simp

/-- not white space, not `>`, `/`, `?`, `!` -/
def safeByteN (b : Nat) : Bool := b != 32 && b != 9 && b != 10 && b != 12 && b != 13 && b != 62 && b != 47 && b != 63 && b != 33

def noAngleN (b : Nat) : Bool := b != 60 && b != 62

theorem safeFast_sound (b : Nat) (h : safeFast b = true) : safeByteN b = true := by
  simp only [safeFast, Bool.or_eq_true, Bool.and_eq_true, Nat.ble_eq] at h
  simp only [safeByteN, Bool.and_eq_true, bne_iff_ne, ne_eq]
  rcases h with h | h
  · omega
  · have := Nat.eq_of_beq_eq_true h; omega

theorem noAngleFast_sound (b : Nat) (h : noAngleFast b = true) : noAngleN b = true := by
  simp only [noAngleFast, Bool.or_eq_true, Nat.ble_eq] at h
  simp only [noAngleN, Bool.and_eq_true, bne_iff_ne, ne_eq]
  rcases h with h | h
  · omega
  · have := Nat.eq_of_beq_eq_true h; omega

theorem allBytesN_mono (p q : Nat → Bool) (hpq : ∀ b, p b = true → q b = true) (fuel n : Nat)
    (h : allBytesN p fuel n = true) : allBytesN q fuel n = true := by
  induction fuel generalizing n with
  | zero => rfl
  | succ fuel ih =>
    simp only [allBytesN] at h ⊢
    split
    · rfl
    · rename_i hn
      rw [if_neg hn, Bool.and_eq_true] at h
      rw [Bool.and_eq_true]
      exact ⟨hpq _ h.1, ih _ h.2⟩

theorem nameOK_of_safe (l : Bytes) (hne : l ≠ []) (h : ∀ c ∈ l, safeByteN c.toNat = true) : nameOK l = true := by
  have key : ∀ c ∈ l, isWs c = false ∧ c ≠ 62 ∧ c ≠ 47 ∧ c ≠ 63 ∧ c ≠ 33 := by
    intro c hc
    have := h c hc
    simp only [safeByteN, Bool.and_eq_true, bne_iff_ne, ne_eq] at this
    obtain ⟨⟨⟨⟨⟨⟨⟨⟨h1, h2⟩, h3⟩, h4⟩, h5⟩, h6⟩, h7⟩, h8⟩, h9⟩ := this
    have ne : ∀ k : UInt8, c.toNat ≠ k.toNat → c ≠ k := fun k hk he => hk (by rw [he])
    refine ⟨?_, ne 62 h6, ne 47 h7, ne 63 h8, ne 33 h9⟩
    simp only [isWs, Bool.or_eq_false_iff, decide_eq_false_iff_not]
    exact ⟨⟨⟨⟨ne 32 h1, ne 9 h2⟩, ne 10 h3⟩, ne 12 h4⟩, ne 13 h5⟩
  simp only [nameOK, Bool.and_eq_true, List.all_eq_true, bne_iff_ne, ne_eq, Bool.not_eq_true']
  refine ⟨⟨fun c hc => ⟨(key c hc).1, (key c hc).2.1⟩, ?_⟩, ?_⟩
  · cases l with
    | nil => exact absurd rfl hne
    | cons d nm =>
      have := key d (by simp)
      simp only [List.head?_cons, Bool.and_eq_true, bne_iff_ne, ne_eq]
      exact ⟨⟨this.2.2.1, this.2.2.2.1⟩, this.2.2.2.2⟩
  · intro hl
    have hm : (47 : UInt8) ∈ l := List.mem_of_getLast? hl
    exact (key 47 hm).2.2.1 rfl

theorem noAngle_of (l : Bytes) (h : ∀ c ∈ l, noAngleN c.toNat = true) : l.all (fun c => c != 60 && c != 62) = true := by
  simp only [List.all_eq_true, Bool.and_eq_true, bne_iff_ne, ne_eq]
  intro c hc
  have := h c hc
  simp only [noAngleN, Bool.and_eq_true, bne_iff_ne, ne_eq] at this
  exact ⟨fun he => this.1 (by rw [he]; rfl), fun he => this.2 (by rw [he]; rfl)⟩

/-- **every real element name is a name** in the sense of the lexer -/
theorem real_elem_nameOK (i : Nat) (h : i < Gen.Elem.table.nNames) : nameOK (Hash.toStr Gen.Elem.table i) = true := by
  have hi : i < Gen.Elem.table.names.length := by rw [elem_len]; exact h
  have hm : Gen.Elem.table.names.getD i 0 ∈ Gen.Elem.table.names := by
    rw [List.getD_eq_getElem?_getD, List.getElem?_eq_getElem hi]; exact List.getElem_mem hi
  have hs := (List.all_eq_true.mp elem_scan) _ hm
  simp only [elemP, Bool.and_eq_true, Nat.blt_eq] at hs
  unfold Hash.toStr
  exact nameOK_of_safe _ (unpack_ne_nil 255 _ hs.1)
    (allBytesN_sound _ _ _ (allBytesN_mono _ _ safeFast_sound _ _ hs.2))

theorem getD_mem_or (l : List Nat) (i : Nat) : l.getD i 0 ∈ l ∨ l.getD i 0 = 0 := by
  by_cases hi : i < l.length
  · left; rw [List.getD_eq_getElem?_getD, List.getElem?_eq_getElem hi]; exact List.getElem_mem hi
  · right; simp [List.getD, List.getElem?_eq_none (by omega : l.length ≤ i)]

theorem allBytesN_zero (p : Nat → Bool) : allBytesN p 256 0 = true := by simp [allBytesN]

/-- **no real attribute name contains `<` or `>`** (any discriminant; out of range the text is empty) -/
theorem real_attr_noAngle (i : Nat) : (Hash.toStr Gen.Attr.table i).all (fun c => c != 60 && c != 62) = true := by
  unfold Hash.toStr
  apply noAngle_of
  apply allBytesN_sound
  rcases getD_mem_or Gen.Attr.table.names i with hm | h0
  · exact allBytesN_mono _ _ noAngleFast_sound _ _ ((List.all_eq_true.mp attr_scan) _ hm)
  · rw [h0]; exact allBytesN_zero _

/-- **no real enumeration item contains `<` or `>`** -/
theorem real_enum_noAngle (i : Nat) : (Hash.toStr Gen.Enum.table i).all (fun c => c != 60 && c != 62) = true := by
  unfold Hash.toStr
  apply noAngle_of
  apply allBytesN_sound
  rcases getD_mem_or Gen.Enum.table.names i with hm | h0
  · exact allBytesN_mono _ _ noAngleFast_sound _ _ ((List.all_eq_true.mp enum_scan) _ hm)
  · rw [h0]; exact allBytesN_zero _

/-! ### `wfItems` for trees over the real tables -/

/-- the environment's texts are those of the generated tables (`to_str` of the three name types) -/
structure RealNames (V : Env) : Prop where
  elem : ∀ i, V.elemText i = Hash.toStr Gen.Elem.table i
  attr : ∀ i, V.attrText i = Hash.toStr Gen.Attr.table i
  enum : ∀ i, V.enumText i = Hash.toStr Gen.Enum.table i

/-- what is left to assume of a tree: every element name is a discriminant of `ElementName`, every comment can be
written between `<!--` and `-->` (`commentOK`: contains no `-->`; true of everything `set_comment` stores) -/
def treeOK : Items → Bool
  | .nil => true
  | .text _ r => treeOK r
  | .elem h k r =>
    decide (h.name < Gen.Elem.table.nNames) && (match h.comment with | some c => commentOK c | none => true) &&
      treeOK k && treeOK r

theorem valOK_real (V : Env) (hV : RealNames V) (v : CDv) : valOK V v = true := by
  cases v with
  | «enum» i => simp only [valOK, hV.enum]; exact real_enum_noAngle i
  | _ => rfl

theorem wfItems_real (V : Env) (hV : RealNames V) (its : Items) (h : treeOK its = true) : wfItems V its = true := by
  induction its with
  | nil => rfl
  | text c r ih =>
    simp only [treeOK] at h
    simp only [wfItems, Bool.and_eq_true]
    exact ⟨valOK_real V hV c, ih h⟩
  | elem hd k r ihk ihr =>
    simp only [treeOK, Bool.and_eq_true, decide_eq_true_eq] at h
    obtain ⟨⟨⟨hn, hc⟩, hk⟩, hr⟩ := h
    simp only [wfItems, hdrOK, Bool.and_eq_true]
    refine ⟨⟨⟨⟨?_, ?_⟩, hc⟩, ihk hk⟩, ihr hr⟩
    · rw [hV.elem]; exact real_elem_nameOK _ hn
    · simp only [List.all_eq_true, Bool.and_eq_true]
      intro av _
      refine ⟨?_, valOK_real V hV av.2⟩
      have := real_attr_noAngle av.1
      rw [← hV.attr] at this
      simp only [List.all_eq_true, Bool.and_eq_true, bne_iff_ne, ne_eq] at this ⊢
      exact fun c hc => (this c hc).2

/-- **the whole-document corollary over the real tables** (text written for the file `ff`): the only lexical
assumptions left are about the tree (`treeOK`: names in range, comments writable) -/
theorem lex_document_real (S : Spec) (V : Env) (hV : RealNames V) (ff : Option Nat) (sa : Option Bool) (root : Items)
    (bytes : Bytes) (hwf : treeOK root = true) (hser : serForest S V ff 0 false root = some bytes) :
    ∃ toks, tokensOfFile S V ff false root = some toks ∧
      (Lex.lex (xmlDecl sa ++ bytes)).1.map (·.2) = .header sa :: toks ++ [.eof] ∧
      (Lex.lex (xmlDecl sa ++ bytes)).2.1 = none ∧ (Lex.lex (xmlDecl sa ++ bytes)).2.2 = true :=
  lex_document_file S V ff sa root bytes (wfItems_real V hV root hwf) hser

end AV.SerLex.Real
