/-
Kernel-evaluated scans over the REAL name tables (`Gen/NamesElem.lean`, `Gen/NamesAttr.lean`, `Gen/NamesEnum.lean`),
used by `Lemmas/SerLexReal.lean`: every packed element name is not empty and all its bytes are `@`…, digits or `-`;
every byte of a packed attribute name / enumeration item is different from `<` and `>`.
One evaluation per chunk of 256 names (about a second each); no other content, so that this file is rebuilt rarely.
-/
import AutosarVerif.Gen.NamesElem
import AutosarVerif.Gen.NamesAttr
import AutosarVerif.Gen.NamesEnum

namespace AV.SerLex.Real

/-- all bytes of a packed name satisfy `p` (on the numbers, which the kernel evaluates quickly) -/
def allBytesN (p : Nat → Bool) : Nat → Nat → Bool
  | 0, _ => true
  | fuel + 1, n => if n ≤ 1 then true else p (n % 256) && allBytesN p fuel (n / 256)

/-- what the scan evaluates (few kernel-accelerated operations per byte): `@`…, digits, `-` -/
def safeFast (b : Nat) : Bool := Nat.ble 64 b || (Nat.ble 48 b && Nat.ble b 57) || Nat.beq b 45
/-- `?`…, …`;`, `=` -/
def noAngleFast (b : Nat) : Bool := Nat.ble 63 b || Nat.ble b 59 || Nat.beq b 61

/-- a packed element name: not empty, all bytes `safeFast` -/
def elemP (x : Nat) : Bool := Nat.blt 1 x && allBytesN safeFast 256 x
/-- a packed attribute name / enumeration item: all bytes `noAngleFast` -/
def angleP (x : Nat) : Bool := allBytesN noAngleFast 256 x

theorem elem_chunk0 : Gen.Elem.chunk0.all elemP = true := by decide +kernel
theorem elem_chunk1 : Gen.Elem.chunk1.all elemP = true := by decide +kernel
theorem elem_chunk2 : Gen.Elem.chunk2.all elemP = true := by decide +kernel
theorem elem_chunk3 : Gen.Elem.chunk3.all elemP = true := by decide +kernel
theorem elem_chunk4 : Gen.Elem.chunk4.all elemP = true := by decide +kernel
theorem elem_chunk5 : Gen.Elem.chunk5.all elemP = true := by decide +kernel
theorem elem_chunk6 : Gen.Elem.chunk6.all elemP = true := by decide +kernel
theorem elem_chunk7 : Gen.Elem.chunk7.all elemP = true := by decide +kernel
theorem elem_chunk8 : Gen.Elem.chunk8.all elemP = true := by decide +kernel
theorem elem_chunk9 : Gen.Elem.chunk9.all elemP = true := by decide +kernel
theorem elem_chunk10 : Gen.Elem.chunk10.all elemP = true := by decide +kernel
theorem elem_chunk11 : Gen.Elem.chunk11.all elemP = true := by decide +kernel
theorem elem_chunk12 : Gen.Elem.chunk12.all elemP = true := by decide +kernel
theorem elem_chunk13 : Gen.Elem.chunk13.all elemP = true := by decide +kernel
theorem elem_chunk14 : Gen.Elem.chunk14.all elemP = true := by decide +kernel
theorem elem_chunk15 : Gen.Elem.chunk15.all elemP = true := by decide +kernel
theorem elem_chunk16 : Gen.Elem.chunk16.all elemP = true := by decide +kernel
theorem elem_chunk17 : Gen.Elem.chunk17.all elemP = true := by decide +kernel
theorem elem_chunk18 : Gen.Elem.chunk18.all elemP = true := by decide +kernel
theorem elem_chunk19 : Gen.Elem.chunk19.all elemP = true := by decide +kernel
theorem elem_chunk20 : Gen.Elem.chunk20.all elemP = true := by decide +kernel
theorem elem_chunk21 : Gen.Elem.chunk21.all elemP = true := by decide +kernel
theorem elem_chunk22 : Gen.Elem.chunk22.all elemP = true := by decide +kernel
theorem elem_chunk23 : Gen.Elem.chunk23.all elemP = true := by decide +kernel
theorem elem_chunk24 : Gen.Elem.chunk24.all elemP = true := by decide +kernel
theorem elem_chunk25 : Gen.Elem.chunk25.all elemP = true := by decide +kernel

theorem elem_scan : Gen.Elem.table.names.all elemP = true := by
  show Gen.Elem.chunks.flatten.all elemP = true
  rw [List.all_flatten]
  simp only [Gen.Elem.chunks, List.all_cons, List.all_nil, elem_chunk0, elem_chunk1, elem_chunk2, elem_chunk3, elem_chunk4, elem_chunk5, elem_chunk6, elem_chunk7, elem_chunk8, elem_chunk9, elem_chunk10, elem_chunk11, elem_chunk12, elem_chunk13, elem_chunk14, elem_chunk15, elem_chunk16, elem_chunk17, elem_chunk18, elem_chunk19, elem_chunk20, elem_chunk21, elem_chunk22, elem_chunk23, elem_chunk24, elem_chunk25, Bool.and_self]

theorem elem_len : Gen.Elem.table.names.length = Gen.Elem.table.nNames := by decide +kernel

theorem attr_scan : Gen.Attr.table.names.all angleP = true := by decide +kernel

theorem enum_chunk0 : Gen.Enum.chunk0.all angleP = true := by decide +kernel
theorem enum_chunk1 : Gen.Enum.chunk1.all angleP = true := by decide +kernel
theorem enum_chunk2 : Gen.Enum.chunk2.all angleP = true := by decide +kernel
theorem enum_chunk3 : Gen.Enum.chunk3.all angleP = true := by decide +kernel
theorem enum_chunk4 : Gen.Enum.chunk4.all angleP = true := by decide +kernel
theorem enum_chunk5 : Gen.Enum.chunk5.all angleP = true := by decide +kernel
theorem enum_chunk6 : Gen.Enum.chunk6.all angleP = true := by decide +kernel
theorem enum_chunk7 : Gen.Enum.chunk7.all angleP = true := by decide +kernel
theorem enum_chunk8 : Gen.Enum.chunk8.all angleP = true := by decide +kernel
theorem enum_chunk9 : Gen.Enum.chunk9.all angleP = true := by decide +kernel
theorem enum_chunk10 : Gen.Enum.chunk10.all angleP = true := by decide +kernel

theorem enum_scan : Gen.Enum.table.names.all angleP = true := by
  show Gen.Enum.chunks.flatten.all angleP = true
  rw [List.all_flatten]
  simp only [Gen.Enum.chunks, List.all_cons, List.all_nil, enum_chunk0, enum_chunk1, enum_chunk2, enum_chunk3, enum_chunk4, enum_chunk5, enum_chunk6, enum_chunk7, enum_chunk8, enum_chunk9, enum_chunk10, Bool.and_self]

end AV.SerLex.Real
