/-
The cross-model move: `opMoveFull` (= `ElementRaw::move_element_full`) and `opMoveAny` (`move_element_here[_at]`, inside one
model or between two models) of `Model/WorldOps2.lean`.

1. normal forms: `opMoveFull_cases` (refused without a change / the move is carried out: `mfWorld`, with the source model `mfSrc`
   and the destination model `mfDst`), `opMoveAny_eq` (`opMove` unless that answers `unsupported`; then `opMoveFull`, with
   everything `opMove` has checked: `MoveRunX`);
2. the error frame `opMoveAny_err_frame` (unconditional);
3. the cross-model move of a NAMED element in a world with `GInv` and `SepInv`, under the decidable guard `MoveFullGuard`
   (item name; no local file sets below `x`): `moveFull_out` —
   * the source model is the model after `remove_sub_element (parent of x, x)` (`mfSrc_eq_rm`; its full invariant is obtained
     from the theorems about `opRemove` in the one-model world `oneWorld`, `src_mginv`): the index entries of the subtree and the
     registrations of the reference elements inside the subtree are gone, reference elements outside that pointed into the
     subtree stay (dangling) and the map is exact for the new tree;
   * the destination model (`dst_out`): the index is the old index followed by the entries of the subtree under the new path;
     the reference elements of the subtree that designated a path of the subtree have the rewritten text (`mfG`), all are
     registered; the full invariant holds (`minv_insert_moved`: `minv_insert_subtree` for ids that are old but apart);
   * `GInv` and `SepInv` of the new world (`sep_move`: ids move from one model to the other);
   `opMoveFull_ginv_sep`, `opMoveAny_ginv_sep` (the step lemmas);
4. C06, last sentence: `opMoveAny_c06`.
The lift to histories (`ReachZ`) is `Lemmas/StepZ.lean`.
-/
import AutosarVerif.Lemmas.StepY

namespace AV.W
open Items

section defs
variable (S : Spec) (V : Env)

/-- the source model after the cross-model move: `x` is taken out of its parent, the paths and the reference origins of the
subtree are un-registered -/
def mfSrc (mx : Model) (sph : Hdr) (spk : Items) (x : Nat) (xh : Hdr) (xk : Items) (pre : List Bytes) : Model :=
  { mx.setRoot (mvRoot1 mx sph spk x) with
    index := (pathsMap (subtreePaths S (xk.size + 2) xh xk pre)).foldl (fun ix (op : Bytes × Nat) => idxRemove ix op.1) mx.index
    refs := (subtreeRefs S (xk.size + 2) xh xk).foldl (fun rs (r : Bytes × Nat) => refsRemove rs r.1 r.2) mx.refs }

/-- one step of the reference loop of `move_element_full` -/
def mfStep (origPaths : List (Bytes × Nat)) (src dest : Bytes) (acc : List (Bytes × List Nat) × Items) (r : Bytes × Nat) :
    List (Bytes × List Nat) × Items :=
  if origPaths.any (·.1 == r.1) ∧ src.isPrefixOf r.1 then
    (refsAdd acc.1 (dest ++ r.1.drop src.length) r.2, setRefTexts acc.2 [r.2] (dest ++ r.1.drop src.length))
  else (refsAdd acc.1 r.1 r.2, acc.2)

/-- the index of the destination model after the cross-model move -/
def mfIdx (idx origPaths : List (Bytes × Nat)) (src dest : Bytes) : List (Bytes × Nat) :=
  origPaths.foldl (fun ix (op : Bytes × Nat) =>
    if src.isPrefixOf op.1 then idxInsert ix (dest ++ op.1.drop src.length) op.2 else ix) idx

/-- the reference loop: (reference map of the destination, moved subtree with rewritten references) -/
def mfLoop (m : Model) (p : Nat) (xh : Hdr) (xk : Items) (src destPrefix : Bytes) (origPaths origRefs : List (Bytes × Nat)) :
    List (Bytes × List Nat) × Items :=
  origRefs.foldl (mfStep origPaths src (mvName S m.index destPrefix xh xk).2.1)
    (m.refs, Items.elem (mvHdr xh p) (mvName S m.index destPrefix xh xk).1 .nil)

/-- the insertion function of `opMoveFull` -/
def subIns (sub : Items) : Items → Items := fun r => match sub with | .elem sh sk _ => .elem sh sk r | _ => r

/-- the destination model after the cross-model move -/
def mfDst (m : Model) (p pos : Nat) (xh : Hdr) (xk : Items) (src destPrefix : Bytes) (origPaths origRefs : List (Bytes × Nat)) :
    Model :=
  { m.setRoot (m.rootItems.modify p fun h0 k0 =>
        (h0, k0.insertAt (subIns (mfLoop S m p xh xk src destPrefix origPaths origRefs).2) pos)) with
    index := mfIdx m.index origPaths src (mvName S m.index destPrefix xh xk).2.1
    refs := (mfLoop S m p xh xk src destPrefix origPaths origRefs).1 }

/-- the paths of the moved subtree as `move_element_full` collects them -/
def mfPaths (cx : List (Hdr × Items)) : List (Bytes × Nat) :=
  pathsMap (subtreePaths S ((lastOf cx).2.size + 2) (lastOf cx).1 (lastOf cx).2 (namesOfChain S cx.dropLast))

/-- the references of the moved subtree as `move_element_full` collects them -/
def mfRefs (cx : List (Hdr × Items)) : List (Bytes × Nat) :=
  subtreeRefs S ((lastOf cx).2.size + 2) (lastOf cx).1 (lastOf cx).2

/-- the world after a cross-model move that is carried out -/
def mfWorld (w : World) (kx : Nat) (cx : List (Hdr × Items)) (kp : Nat) (cp : List (Hdr × Items)) (p x pos : Nat)
    (sph : Hdr) (spk : Items) : World :=
  setModel (setModel w kx (mfSrc S (w.models[kx]!) sph spk x (lastOf cx).1 (lastOf cx).2 (namesOfChain S cx.dropLast))) kp
    (mfDst S (w.models[kp]!) p pos (lastOf cx).1 (lastOf cx).2 (pathOfChain S cx) (pathOfChain S cp) (mfPaths S cx) (mfRefs S cx))

/-- 1. the normal form of `opMoveFull`: refused without a change, or the move is carried out -/
theorem opMoveFull_cases (w : World) (kx : Nat) (cx : List (Hdr × Items)) (kp : Nat) (cp : List (Hdr × Items)) (p x pos : Nat) :
    opMoveFull S w kx cx kp cp p x pos = (w, .err) ∨
    ∃ sph spk, cx.dropLast.getLast? = some (sph, spk) ∧
      (mvName S (w.models[kp]!).index (pathOfChain S cp) (lastOf cx).1 (lastOf cx).2).2.2 = false ∧
      opMoveFull S w kx cx kp cp p x pos = (mfWorld S w kx cx kp cp p x pos sph spk, .ok "") := by
  fun_cases opMoveFull S w kx cx kp cp p x pos
  · exact Or.inl rfl
  · exact Or.inl rfl
  · rename_i m mx xh xkids hlast sph spk hpar srcPrefix destPrefix fuel origPaths origRefs rootx idxx rsx w1 xh1 xk1 destPath nameFail hname hnf idx1 rs1 sub hloop root1
    have e3 : (lastOf cx).1 = xh := by rw [hlast]
    have e4 : (lastOf cx).2 = xkids := by rw [hlast]
    have h1 : mvName S (w.models[kp]!).index (pathOfChain S cp) xh xkids = (xk1, destPath, nameFail) := hname
    have hnf' : nameFail = false := by simpa using hnf
    have h2 : mfLoop S (w.models[kp]!) p xh xkids (pathOfChain S cx) (pathOfChain S cp) origPaths origRefs = (rs1, sub) := by
      unfold mfLoop
      rw [h1]
      exact hloop
    refine Or.inr ⟨sph, spk, hpar, by rw [e3, e4, h1, hnf'], ?_⟩
    unfold mfWorld mfDst mfSrc mfPaths mfRefs
    rw [e3, e4, h1, h2]
    rfl


/-- what `opMove` has checked when it answers `unsupported`: both elements are live, in DIFFERENT models, the versions agree,
the destination has a place for `x`, the position is in range -/
structure MoveRunX (w : World) (p x : Nat) (pos? : Option Nat) (kx : Nat) (cx : List (Hdr × Items)) (kp : Nat)
    (cp : List (Hdr × Items)) (ver lo hi : Nat) : Prop where
  ne : p ≠ x
  locx : locate w x = some (kx, cx)
  locp : locate w p = some (kp, cp)
  verx : minVersion V (w.models[kx]!) cx = some ver
  verp : minVersion V (w.models[kp]!) cp = some ver
  range : insertRange S (lastOf cp).1 (lastOf cp).2 (lastOf cx).1.name ver = some (lo, hi)
  pos : lo ≤ pos?.getD hi ∧ pos?.getD hi ≤ hi
  models : kx ≠ kp

theorem opMove_unsupported_cases (w : World) (p x : Nat) (pos? : Option Nat) (h : (opMove S V w p x pos?).2 = .unsupported) :
    ∃ kx cx kp cp ver lo hi, MoveRunX S V w p x pos? kx cx kp cp ver lo hi := by
  revert h
  fun_cases opMove S V w p x pos?
  all_goals try (intro h; cases h; done)
  rename_i hne kx cx kp cp hlp hlx m mx vx ver hvp hvx hv ph pk hlastp xh xk hlastx lo hi hr hk pos hpos
  intro _
  obtain rfl : vx = ver := Decidable.not_not.mp hv
  have e1 : (lastOf cp).2 = pk := by rw [hlastp]
  have e2 : (lastOf cp).1 = ph := by rw [hlastp]
  have e3 : (lastOf cx).1 = xh := by rw [hlastx]
  exact ⟨kx, cx, kp, cp, vx, lo, hi, hne, hlx, hlp, hvx, hvp, by rw [e1, e2, e3]; exact hr, Decidable.not_not.mp hpos, hk⟩

/-- 1b. `opMoveAny` is `opMove` unless that answers `unsupported` … -/
theorem opMoveAny_eq_move (w : World) (p x : Nat) (pos? : Option Nat) (h : (opMove S V w p x pos?).2 ≠ .unsupported) :
    opMoveAny S V w p x pos? = opMove S V w p x pos? := by
  unfold opMoveAny
  split
  · rename_i w' heq
    rw [heq] at h
    exact absurd rfl h
  · rfl

/-- … and then (source and destination in different models, all checks of `move_element_here[_at]` passed) it is `opMoveFull` -/
theorem opMoveAny_eq_full (w : World) (p x : Nat) (pos? : Option Nat) (h : (opMove S V w p x pos?).2 = .unsupported) :
    ∃ kx cx kp cp ver lo hi, MoveRunX S V w p x pos? kx cx kp cp ver lo hi ∧
      opMoveAny S V w p x pos? = opMoveFull S w kx cx kp cp p x (pos?.getD hi) := by
  obtain ⟨kx, cx, kp, cp, ver, lo, hi, hr⟩ := opMove_unsupported_cases S V w p x pos? h
  refine ⟨kx, cx, kp, cp, ver, lo, hi, hr, ?_⟩
  unfold opMoveAny
  split
  · simp only [hr.locx, hr.locp, hr.verp, hr.range]
  · rename_i hno
    exact absurd (Prod.ext rfl h : opMove S V w p x pos? = ((opMove S V w p x pos?).1, .unsupported)) (hno _)

theorem opMoveAny_eq (w : World) (p x : Nat) (pos? : Option Nat) :
    ((opMove S V w p x pos?).2 ≠ .unsupported ∧ opMoveAny S V w p x pos? = opMove S V w p x pos?) ∨
    ((opMove S V w p x pos?).2 = .unsupported ∧ ∃ kx cx kp cp ver lo hi, MoveRunX S V w p x pos? kx cx kp cp ver lo hi ∧
      opMoveAny S V w p x pos? = opMoveFull S w kx cx kp cp p x (pos?.getD hi)) := by
  by_cases h : (opMove S V w p x pos?).2 = .unsupported
  · exact Or.inr ⟨h, opMoveAny_eq_full S V w p x pos? h⟩
  · exact Or.inl ⟨h, opMoveAny_eq_move S V w p x pos? h⟩

/-- 2. the error frame: a refused move (inside one model or between two models) changes nothing -/
theorem opMoveFull_err_frame (w : World) (kx : Nat) (cx : List (Hdr × Items)) (kp : Nat) (cp : List (Hdr × Items)) (p x pos : Nat)
    (h : (opMoveFull S w kx cx kp cp p x pos).2 = .err) : (opMoveFull S w kx cx kp cp p x pos).1 = w := by
  rcases opMoveFull_cases S w kx cx kp cp p x pos with h0 | ⟨sph, spk, _, _, he⟩
  · rw [h0]
  · rw [he] at h; cases h

theorem opMoveAny_err_frame (w : World) (p x : Nat) (pos? : Option Nat) (h : (opMoveAny S V w p x pos?).2 = .err) :
    (opMoveAny S V w p x pos?).1 = w := by
  rcases opMoveAny_eq S V w p x pos? with ⟨_, he⟩ | ⟨_, kx, cx, kp, cp, ver, lo, hi, _, he⟩
  · rw [he] at h ⊢; exact opMove_err_frame S V w p x pos? h
  · rw [he] at h ⊢; exact opMoveFull_err_frame S w kx cx kp cp p x _ h

/-- the answers of `opMoveFull`: `err` or `ok ""` -/
theorem opMoveFull_ans (w : World) (kx : Nat) (cx : List (Hdr × Items)) (kp : Nat) (cp : List (Hdr × Items)) (p x pos : Nat) :
    (opMoveFull S w kx cx kp cp p x pos).2 = .err ∨ (opMoveFull S w kx cx kp cp p x pos).2 = .ok "" := by
  rcases opMoveFull_cases S w kx cx kp cp p x pos with h0 | ⟨sph, spk, _, _, he⟩
  · rw [h0]; exact Or.inl rfl
  · rw [he]; exact Or.inr rfl

end defs

/-! ### what `move_element_full` collects: the index entries and the reference registrations of the subtree -/

section collect
variable (S : Spec)

def SubRefSpec (fuel : Nat) : Prop :=
  ∀ (h : Hdr) (kids : Items), kids.size + 1 ≤ fuel → subtreeRefs S fuel h kids = refEntries S (.elem h kids .nil)

theorem subtreeRefs_succ (fuel : Nat) (h : Hdr) (kids : Items) :
    subtreeRefs S (fuel + 1) h kids = refOf S h kids ++ kids.childElems.flatMap fun ch => subtreeRefs S fuel ch.1 ch.2 := by
  rw [subtreeRefs]
  unfold refOf
  split
  · cases hc : charData S h kids with
    | none => rfl
    | some v => cases v <;> rfl
  · rfl

theorem subRefFold (fuel : Nat) (IH : SubRefSpec S fuel) (ks : Items) : ks.size ≤ fuel →
    (ks.childElems.flatMap fun ch => subtreeRefs S fuel ch.1 ch.2) = refEntries S ks := by
  induction ks with
  | nil => intro _; rfl
  | text c r ih =>
    intro hf
    simp only [Items.size] at hf
    exact ih (by omega)
  | elem h k r _ ihr =>
    intro hf
    simp only [Items.size] at hf
    have hr := size_pos r
    simp only [Items.childElems, List.flatMap_cons]
    rw [IH h k (by omega), ihr (by omega), refEntries_elem_split S h k r]

theorem subRefSpec_all (fuel : Nat) : SubRefSpec S fuel := by
  induction fuel with
  | zero => intro h kids hf; have := size_pos kids; omega
  | succ fuel ih =>
    intro h kids hf
    rw [subtreeRefs_succ, subRefFold S fuel ih kids (by omega)]
    simp only [refEntries, List.append_nil]

/-- with the fuel `opMoveFull` passes, `subtreeRefs` lists the reference registrations of the subtree, in document order -/
theorem subtreeRefs_eq (h : Hdr) (kids : Items) : subtreeRefs S (kids.size + 2) h kids = refEntries S (.elem h kids .nil) :=
  subRefSpec_all S _ h kids (by omega)

theorem pathsMap_eq_insertAll (ps : List (Bytes × Nat)) : pathsMap ps = insertAll [] ps := rfl

/-- paths that are pairwise different: the path map is the list -/
theorem pathsMap_nodup (ps : List (Bytes × Nat)) (hn : keysNodupI ps) : pathsMap ps = ps := by
  rw [pathsMap_eq_insertAll, insertAll_fresh ps [] hn (fun _ _ h => by simp at h)]
  rfl

theorem foldl_idxRemove (l : List (Bytes × Nat)) : ∀ idx : List (Bytes × Nat),
    l.foldl (fun ix (op : Bytes × Nat) => idxRemove ix op.1) idx = idx.filter fun e => !((l.map (·.1)).contains e.1) := by
  induction l with
  | nil => intro idx; exact (filter_keys_nil idx).symm
  | cons a l ih =>
    intro idx
    rw [List.foldl_cons, ih, idxRemove_eq_filter, filter_keys_append]
    rfl

end collect

/-! ### the reference loop of `move_element_full` -/

section loop
variable (S : Spec)

/-- the text a reference of the moved subtree with the text `t` gets: rewritten if `t` is a path of the subtree -/
def mfG (origPaths : List (Bytes × Nat)) (src dest t : Bytes) : Bytes :=
  if origPaths.any (·.1 == t) ∧ src.isPrefixOf t then dest ++ t.drop src.length else t

theorem mfStep_fst (P : List (Bytes × Nat)) (src dest : Bytes) (acc : List (Bytes × List Nat) × Items) (r : Bytes × Nat) :
    (mfStep P src dest acc r).1 = refsAdd acc.1 (mfG P src dest r.1) r.2 := by
  unfold mfStep mfG
  split <;> rfl

theorem mfStep_snd (P : List (Bytes × Nat)) (src dest : Bytes) (acc : List (Bytes × List Nat) × Items) (r : Bytes × Nat) :
    ((P.any (·.1 == r.1) ∧ src.isPrefixOf r.1) ∧ (mfStep P src dest acc r).2 = acc.2.modify r.2 (refEdit (mfG P src dest r.1))) ∨
    (mfG P src dest r.1 = r.1 ∧ (mfStep P src dest acc r).2 = acc.2) := by
  unfold mfStep mfG
  split
  · rename_i h
    exact Or.inl ⟨h, rfl⟩
  · exact Or.inr ⟨rfl, rfl⟩

theorem mfFold_fst (P : List (Bytes × Nat)) (src dest : Bytes) (L : List (Bytes × Nat)) :
    ∀ acc : List (Bytes × List Nat) × Items,
      (L.foldl (mfStep P src dest) acc).1 = addAll acc.1 (L.map fun r => (mfG P src dest r.1, r.2)) := by
  induction L with
  | nil => intro acc; rfl
  | cons r L ih =>
    intro acc
    rw [List.foldl_cons, ih, mfStep_fst]
    rfl

/-- a property of forests that every single text replacement keeps is kept by the loop -/
theorem mfFold_pres (Q : Items → Prop) (hQ : ∀ its t txt, Q its → Q (its.modify t (refEdit txt))) (P : List (Bytes × Nat))
    (src dest : Bytes) (L : List (Bytes × Nat)) :
    ∀ acc : List (Bytes × List Nat) × Items, Q acc.2 → Q (L.foldl (mfStep P src dest) acc).2 := by
  induction L with
  | nil => intro acc h; exact h
  | cons r L ih =>
    intro acc h
    rw [List.foldl_cons]
    apply ih
    rcases mfStep_snd P src dest acc r with ⟨_, e⟩ | ⟨_, e⟩
    · rw [e]; exact hQ _ _ _ h
    · rw [e]; exact h

/-- the registrations of the subtree after the loop: every reference element that was listed has its new text -/
theorem mfFold_refEntries (P : List (Bytes × Nat)) (src dest : Bytes) (L : List (Bytes × Nat)) :
    ∀ acc : List (Bytes × List Nat) × Items, acc.2.ids.Nodup → (L.map (·.2)).Nodup → (∀ r ∈ L, r ∈ refEntries S acc.2) →
      RefLeaves S acc.2 (L.map (·.2)) →
      refEntries S (L.foldl (mfStep P src dest) acc).2 =
        (refEntries S acc.2).map fun e => if e ∈ L then (mfG P src dest e.1, e.2) else e := by
  induction L with
  | nil =>
    intro acc _ _ _ _
    simp only [List.foldl_nil, List.not_mem_nil, if_false, List.map_id']
  | cons r L ih =>
    intro acc hn hL hmem hleaves
    rw [List.foldl_cons]
    rw [List.map_cons, List.nodup_cons] at hL
    have hleaf : LeafAt S r.2 acc.2 := leafAt_of_refLeaves S hn hleaves (by simp)
    have hnd2 : ((refEntries S acc.2).map (·.2)).Nodup := List.Nodup.sublist (refEntries_ids_sublist S acc.2) hn
    have hrm : r ∈ refEntries S acc.2 := hmem r List.mem_cons_self
    -- the tree after the step
    have hstep : (mfStep P src dest acc r).2.ids = acc.2.ids ∧
        RefLeaves S (mfStep P src dest acc r).2 (L.map (·.2)) ∧
        refEntries S (mfStep P src dest acc r).2 =
          (refEntries S acc.2).map fun e => if e.2 = r.2 then (mfG P src dest r.1, e.2) else e := by
      have hl' : RefLeaves S acc.2 (L.map (·.2)) := fun id hid => hleaves id (by
        rw [List.map_cons]; exact List.mem_cons_of_mem _ hid)
      rcases mfStep_snd P src dest acc r with ⟨_, e⟩ | ⟨hg, e⟩
      · rw [e]
        exact ⟨ids_modify_refEdit S r.2 _ acc.2 hleaf, refLeaves_modify S r.2 _ acc.2 hleaf _ hl',
          refEntries_modify_refEdit S r.2 _ acc.2 hn hleaf⟩
      · rw [e]
        refine ⟨rfl, hl', ?_⟩
        symm
        rw [hg]
        conv => rhs; rw [← List.map_id (refEntries S acc.2)]
        apply List.map_congr_left
        intro e' he'
        split
        · rename_i h2
          rw [eq_of_nodup_map_snd _ hnd2 e' r he' hrm h2]
          rfl
        · rfl
    obtain ⟨hids1, hleaves1, hre1⟩ := hstep
    have hmem1 : ∀ r' ∈ L, r' ∈ refEntries S (mfStep P src dest acc r).2 := by
      intro r' hr'
      rw [hre1]
      refine List.mem_map.mpr ⟨r', hmem r' (List.mem_cons_of_mem _ hr'), ?_⟩
      rw [if_neg]
      intro h2
      exact hL.1 (h2 ▸ List.mem_map.mpr ⟨r', hr', rfl⟩)
    rw [ih _ (hids1 ▸ hn) hL.2 hmem1 hleaves1, hre1, List.map_map]
    apply List.map_congr_left
    intro e he
    simp only [Function.comp]
    by_cases h2 : e.2 = r.2
    · have her : e = r := eq_of_nodup_map_snd _ hnd2 e r he hrm h2
      rw [if_pos h2, if_neg, if_pos (by rw [her]; exact List.mem_cons_self), her]
      intro hin
      exact hL.1 (List.mem_map.mpr ⟨_, hin, h2⟩)
    · rw [if_neg h2]
      have hne : e ≠ r := fun h => h2 (h ▸ rfl)
      by_cases h3 : e ∈ L
      · rw [if_pos h3, if_pos (List.mem_cons_of_mem _ h3)]
      · rw [if_neg h3, if_neg (fun h => (List.mem_cons.mp h).elim hne h3)]

end loop

/-! ### the source tree: the named element `x` below its parent `sph` -/

section src
variable (S : Spec) (vOk : Nat)

/-- what is known about the named element `x` of a model with the index invariant, its parent, and the tree without `x` -/
structure SrcTree (mx : Model) (x : Nat) (cx : List (Hdr × Items)) (sph : Hdr) (spk : Items) (xh : Hdr) (xk : Items)
    (orig : Bytes) (sh : Hdr) (rest : Items) (i : Nat) : Prop where
  shape : xk = .elem sh (.text (.str orig) .nil) rest
  hsn : sh.name = S.nmShortName
  xid : xh.id = x
  kx : kidsOk S xh xk
  sx : SnOk S xk
  xname : xh.name ≠ S.nmShortName
  occx : Occ xh xk mx.rootItems
  occsp : Occ sph spk mx.rootItems
  chsp : mx.rootItems.chain sph.id = some cx.dropLast
  lastsp : lastOf cx.dropLast = (sph, spk)
  cpos : spk.childPos x 0 = some i
  item : itemAt spk i = .elem xh xk .nil
  child : spk.child x = some (xh, xk)
  spname : sph.name ≠ S.nmShortName
  src : pathOfChain S cx = pathOfChain S cx.dropLast ++ 47 :: orig
  sub : entries S (.elem xh xk .nil) (pathOfChain S cx.dropLast) = (pathOfChain S cx, x) :: entries S rest (pathOfChain S cx)
  ents : (entries S (mx.rootItems.modify sph.id fun h0 kk => (h0, kk.removeAt i)) [] ++
      entries S (.elem xh xk .nil) (pathOfChain S cx.dropLast)).Perm (entries S mx.rootItems [])
  ids : ((mx.rootItems.modify sph.id fun h0 kk => (h0, kk.removeAt i)).ids ++ (Items.elem xh xk .nil).ids).Perm mx.rootItems.ids

theorem child_of_itemAt (k : Items) (hn : k.ids.Nodup) (i : Nat) (h : Hdr) (kk : Items) (hi : itemAt k i = .elem h kk .nil) :
    k.child h.id = some (h, kk) := by
  induction k generalizing i with
  | nil => simp [itemAt] at hi
  | text c r ih =>
    cases i with
    | zero => simp [itemAt] at hi
    | succ n => simp only [Items.child]; exact ih (by simpa [Items.ids] using hn) n hi
  | elem hd k0 r _ ihr =>
    simp only [Items.ids, List.nodup_cons, List.nodup_append, List.mem_append, not_or] at hn
    cases i with
    | zero =>
      simp only [itemAt] at hi
      injection hi with a b _
      subst a; subst b
      simp [Items.child]
    | succ n =>
      simp only [itemAt] at hi
      have hmem : h.id ∈ r.ids := by
        have := mpos_itemAt_mem r n h kk hi
        exact (mpos_occ_of_mem r (h, kk) this).id_mem
      have hne : ¬ hd.id = h.id := fun e => hn.1.2 (e ▸ hmem)
      simp only [Items.child, if_neg hne]
      exact ihr hn.2.2.1 n hi

theorem srcTree {nid : Nat} {mx : Model} (hm : MInv S vOk nid mx) {x : Nat} {cx : List (Hdr × Items)}
    (hcx : mx.rootItems.chain x = some cx) {sph : Hdr} {spk : Items} (hpar : cx.dropLast.getLast? = some (sph, spk))
    {xh : Hdr} {xk : Items} (hlast : lastOf cx = (xh, xk)) {orig : Bytes} (hnamed : itemName S xh xk = some orig) :
    ∃ sh rest i, SrcTree S mx x cx sph spk xh xk orig sh rest i := by
  obtain ⟨hox, hidx⟩ := chain_occ x mx.rootItems cx hcx
  rw [hlast] at hox hidx
  simp only at hox hidx
  obtain ⟨hkx, hsx⟩ := kidsOk_of_occ S _ hm.sn _ _ hox
  have hfx : firstIsSn S xk := by
    apply Classical.byContradiction
    intro hf
    have := (itemName_of_kidsOk S _ _ hkx).2 hf
    rw [hnamed] at this; cases this
  obtain ⟨sh, n, rest, hxk, hsn, hin, hslash⟩ := (itemName_of_kidsOk S _ _ hkx).1 hfx
  have hno : n = orig := by rw [hnamed] at hin; exact (Option.some.inj hin).symm
  subst hno
  subst hxk
  have hxnamed : S.isNamed xh.ety.typ = true := (hkx.1 hsn).1.1
  have hxname : xh.name ≠ S.nmShortName := by
    intro e
    have := (sn_proper_of_occ S _ hm.sn (hm.topOk S vOk) _ _ hox e).2.1
    rw [hxnamed] at this; cases this
  have hcne : cx ≠ [] := chain_ne_nil x _ cx hcx
  rcases chain_parent x mx.rootItems cx hcx hm.ids with ⟨hd0, _⟩ | ⟨ph', pk', hgl, hosp, htop, hchsp⟩
  · rw [hd0] at hpar; cases hpar
  rw [hpar] at hgl
  obtain ⟨rfl, rfl⟩ := Prod.mk.inj (Option.some.inj hgl)
  rw [hlast] at htop
  simp only at htop
  have hspknd : spk.ids.Nodup := (List.nodup_cons.mp (List.Nodup.sublist hosp.ids_sublist hm.ids)).2
  obtain ⟨i, hcpos, hitem⟩ := topEl_childPos spk xh _ hspknd htop 0
  rw [hidx, Nat.zero_add] at hcpos
  have hpath : pathOfChain S cx = pathOfChain S cx.dropLast ++ 47 :: n := by
    rw [pathOfChain_dropLast S cx hcne, hlast]
    unfold kidPre
    rw [hnamed]
  let f1 : Hdr → Items → Hdr × Items := fun h0 kk => (h0, kk.removeAt i)
  have hksp := (kidsOk_of_occ S _ hm.sn _ _ hosp).1
  have hspname : sph.name ≠ S.nmShortName := by
    intro e
    obtain ⟨_, _, _, n', hsk, _⟩ := sn_proper_of_occ S _ hm.sn (hm.topOk S vOk) _ _ hosp e
    rw [hsk] at htop
    exact htop
  have hpos1 : firstIsSn S spk → 1 ≤ i := by
    intro hf
    cases i with
    | succ q => omega
    | zero =>
      exfalso
      cases spk with
      | nil => exact hf
      | text _ _ => exact hf
      | elem sh0 sk0 rest0 =>
        simp only [itemAt] at hitem
        injection hitem with a _ _
        exact hxname (a ▸ hf)
  have key1 : ∀ h k0, Occ h k0 mx.rootItems → h.id = sph.id → h = sph ∧ k0 = spk :=
    fun h k0 ho he => occ_unique mx.rootItems hm.ids h sph k0 spk ho hosp he
  have hv1 : KeepsView S sph.id f1 mx.rootItems := fun h k0 ho he =>
    ⟨rfl, rfl, rfl, fun hn => absurd ((key1 h k0 ho he).1 ▸ hn) hspname⟩
  have hin1 : ∀ h k0, Occ h k0 mx.rootItems → h.id = sph.id → itemName S h (k0.removeAt i) = itemName S h k0 := by
    intro h k0 ho he
    obtain ⟨rfl, rfl⟩ := key1 h k0 ho he
    exact itemName_removeAt S _ _ i hksp hpos1
  obtain ⟨pfx, hpfx, hperm1⟩ := entries_modify_located S sph.id f1
    (fun pre => entries S (.elem xh (.elem sh (.text (.str n) .nil) rest) .nil) pre) (fun _ => [])
    mx.rootItems hv1 (fun h k0 ho he => by
      refine ⟨hin1 h k0 ho he, fun pre => ?_⟩
      obtain ⟨rfl, rfl⟩ := key1 h k0 ho he
      rw [List.append_nil]
      have := entries_removeAt S k0 i pre
      rw [hitem] at this
      exact (this.trans List.perm_append_comm).symm) hm.ids hosp.id_mem []
  rw [kpre_chain S sph.id _ _ hchsp, chainPre_nil] at hpfx
  cases hpfx
  rw [List.append_nil] at hperm1
  have hids1 : ((mx.rootItems.modify sph.id f1).ids ++ (Items.elem xh (.elem sh (.text (.str n) .nil) rest) .nil).ids).Perm
      mx.rootItems.ids := by
    have := ids_modify_rel sph.id f1 (Items.elem xh (.elem sh (.text (.str n) .nil) rest) .nil).ids [] mx.rootItems
      (fun h k0 ho he => ⟨rfl, by
        obtain ⟨rfl, rfl⟩ := key1 h k0 ho he
        rw [List.append_nil]
        have := ids_removeAt k0 i
        rw [hitem] at this
        exact (this.trans List.perm_append_comm).symm⟩) hm.ids hosp.id_mem
    rwa [List.append_nil] at this
  have hsub : entries S (.elem xh (.elem sh (.text (.str n) .nil) rest) .nil) (pathOfChain S cx.dropLast) =
      (pathOfChain S cx, x) :: entries S rest (pathOfChain S cx) := by
    rw [entries_named S xh sh n rest hkx hsn, hpath, hidx]
  have hlastsp : lastOf cx.dropLast = (sph, spk) := by
    unfold lastOf; rw [hpar]; rfl
  have hchild : spk.child x = some (xh, .elem sh (.text (.str n) .nil) rest) := by
    have := child_of_itemAt spk hspknd i xh _ hitem
    rwa [hidx] at this
  exact ⟨sh, rest, i, rfl, hsn, hidx, hkx, hsx, hxname, hox, hosp, hchsp, hlastsp, hcpos, hitem, hchild, hspname, hpath, hsub,
    hperm1, hids1⟩

/-- the registrations of the source tree: those of the tree without `x` together with those of the subtree.  (So a reference
element OUTSIDE the subtree that pointed into the subtree is still a reference element of the source tree with the same text:
it is dangling, and the reverse reference map — exact for the new tree by `GInv` — still lists it.) -/
theorem srcTree_refs {nid : Nat} {mx : Model} (hm : MInv S vOk nid mx) (hleaf : RefLeaf S mx.rootItems) {x : Nat}
    {cx : List (Hdr × Items)} {sph : Hdr} {spk : Items} {xh : Hdr} {xk : Items} {orig : Bytes} {sh : Hdr} {rest : Items} {i : Nat}
    (st : SrcTree S mx x cx sph spk xh xk orig sh rest i) :
    (refEntries S (mx.rootItems.modify sph.id fun h0 kk => (h0, kk.removeAt i)) ++ refEntries S (.elem xh xk .nil)).Perm
      (refEntries S mx.rootItems) := by
  have hnr0 : S.isRef sph.ety.typ = false := by
    cases h : S.isRef sph.ety.typ with
    | false => rfl
    | true => exact absurd (hleaf _ _ st.occsp h) (childElems_of_itemAt spk i xh xk st.item)
  have := refEntries_modify_located S sph.id (fun h0 kk => (h0, kk.removeAt i)) (refEntries S (.elem xh xk .nil)) [] mx.rootItems
    (fun h k0 ho he => ⟨rfl, by
      obtain ⟨rfl, rfl⟩ := occ_unique mx.rootItems hm.ids h sph k0 spk ho st.occsp he
      show ((refOf S h (k0.removeAt i) ++ refEntries S (k0.removeAt i)) ++ refEntries S (.elem xh xk .nil)).Perm _
      rw [refOf_not_ref S h _ hnr0, refOf_not_ref S h _ hnr0, List.nil_append, List.nil_append, List.append_nil]
      have := refEntries_removeAt S k0 i
      rw [st.item] at this
      exact (this.trans List.perm_append_comm).symm⟩) hm.ids st.occsp.id_mem
  rwa [List.append_nil] at this

end src

/-! ### the source model = the model after `remove_sub_element (parent of x, x)` -/

section srcModel
variable (S : Spec) (V : Env) (vOk : Nat)

/-- the world that consists of the one model `m` -/
def oneWorld (w : World) (m : Model) : World :=
  { models := [m], nextId := w.nextId, nextFile := w.nextFile, dead := [], fileOwner := [] }

theorem locate_one (w : World) (m : Model) (t : Nat) (c : List (Hdr × Items)) (h : m.rootItems.chain t = some c) :
    locate (oneWorld w m) t = some (0, c) := by
  simp [locate, oneWorld, List.range_succ, h]

theorem ginv_one (w : World) (hg : GInv S vOk w) (k : Nat) (m : Model) (hm : w.models[k]? = some m) : GInv S vOk (oneWorld w m) := by
  have hmem : m ∈ w.models := List.mem_of_getElem? hm
  obtain ⟨⟨hwf, hfo⟩, ⟨⟨hw, hr, hleaf, hty⟩, hkn⟩, hone⟩ := hg
  have hall : ∀ (P : Model → Prop), (∀ m' ∈ w.models, P m') → ∀ m' ∈ (oneWorld w m).models, P m' := by
    intro P hP m' hm'
    have : m' = m := by simpa [oneWorld] using hm'
    rw [this]; exact hP m hmem
  refine ⟨⟨?_, hall _ hfo⟩, ⟨⟨hall _ hw, hall _ hr, hall _ hleaf, hall _ hty⟩, hall _ hkn⟩, hall _ hone⟩
  intro j m' hj
  have hj' : [m][j]? = some m' := hj
  cases j with
  | zero =>
    simp only [List.getElem?_cons_zero, Option.some.injEq] at hj'
    rw [← hj']; exact hwf k m hm
  | succ j => simp at hj'

/-- the model after `remove_sub_element (sph, x)` -/
def rmModel (mx : Model) (sph : Hdr) (xh : Hdr) (xk : Items) (i : Nat) (path : Bytes) : Model :=
  { mx.setRoot (mx.rootItems.modify sph.id fun h0 k0 => (h0, k0.removeAt i)) with
    index := (removeInternal S (xk.size + 2) xh xk path mx.index mx.refs).1
    refs := (removeInternal S (xk.size + 2) xh xk path mx.index mx.refs).2.1 }

theorem opRemove_oneWorld (w : World) {mx : Model} {x : Nat} {cx : List (Hdr × Items)} {sph : Hdr} {spk : Items} {xh : Hdr} {xk : Items}
    {orig : Bytes} {sh : Hdr} {rest : Items} {i : Nat} (st : SrcTree S mx x cx sph spk xh xk orig sh rest i) :
    (opRemove S (oneWorld w mx) sph.id x).1.models = [rmModel S mx sph xh xk i (pathOfChain S cx.dropLast)] := by
  unfold opRemove
  rw [locate_one w mx sph.id _ st.chsp]
  have h0 : (oneWorld w mx).models[0]! = mx := rfl
  simp only [h0, st.lastsp, st.cpos, st.child]
  rw [if_neg (fun h => st.xname h.2)]
  rfl

/-- the source model after the cross-model move is the model after `remove_sub_element (parent of x, x)` -/
theorem mfSrc_eq_rm {nid : Nat} {mx : Model} (hm : MInv S vOk nid mx) {x : Nat} {cx : List (Hdr × Items)} {sph : Hdr} {spk : Items}
    {xh : Hdr} {xk : Items} {orig : Bytes} {sh : Hdr} {rest : Items} {i : Nat} (st : SrcTree S mx x cx sph spk xh xk orig sh rest i) :
    subtreePaths S (xk.size + 2) xh xk (namesOfChain S cx.dropLast) = entries S (.elem xh xk .nil) (pathOfChain S cx.dropLast) ∧
    keysNodupI (entries S (.elem xh xk .nil) (pathOfChain S cx.dropLast)) ∧
    pathsMap (subtreePaths S (xk.size + 2) xh xk (namesOfChain S cx.dropLast)) =
      entries S (.elem xh xk .nil) (pathOfChain S cx.dropLast) ∧
    mfSrc S mx sph spk x xh xk (namesOfChain S cx.dropLast) = rmModel S mx sph xh xk i (pathOfChain S cx.dropLast) := by
  have h1 : subtreePaths S (xk.size + 2) xh xk (namesOfChain S cx.dropLast) =
      entries S (.elem xh xk .nil) (pathOfChain S cx.dropLast) := by
    rw [subtreePaths_eq S _ _ _ st.kx st.sx, namesOfChain_path]
  have hkeys : keysNodupI (entries S (mx.rootItems.modify sph.id fun h0 kk => (h0, kk.removeAt i)) [] ++
      entries S (.elem xh xk .nil) (pathOfChain S cx.dropLast)) := by
    unfold keysNodupI
    exact (List.Perm.nodup_iff (st.ents.map (fun e : Bytes × Nat => e.1))).mpr hm.keys
  have h2 := (keysNodupI_append _ _ hkeys).2.1
  have h3 : pathsMap (subtreePaths S (xk.size + 2) xh xk (namesOfChain S cx.dropLast)) =
      entries S (.elem xh xk .nil) (pathOfChain S cx.dropLast) := by
    rw [h1]; exact pathsMap_nodup _ h2
  refine ⟨h1, h2, h3, ?_⟩
  unfold mfSrc rmModel mvRoot1
  rw [h3, foldl_idxRemove, subtreeRefs_eq, st.cpos,
    removeInternal_index S (xk.size + 2) xh xk _ mx.index mx.refs (by omega),
    removeInternal_refs S (xk.size + 2) xh xk _ mx.index mx.refs (by omega)]

end srcModel

/-! ### the full invariant, model by model -/

section mginv
variable (S : Spec) (V : Env) (vOk : Nat)

/-- the full invariant `GInv` as a property of one model -/
structure MGInv (nid : Nat) (m : Model) : Prop where
  wfM : m.wfM
  files : m.filesOk
  minv : MInv S vOk nid m
  refs : RefsExact S m.refs m.rootItems
  leaf : RefLeaf S m.rootItems
  rootTy : m.rootHdr.ety = S.ety S.rootDef
  known : KidsKnown S m.rootItems
  one : RefOne S m.rootItems

theorem ginv_iff (w : World) : GInv S vOk w ↔ ∀ m ∈ w.models, MGInv S vOk w.nextId m := by
  constructor
  · rintro ⟨⟨hwf, hfo⟩, ⟨⟨hw, hr, hleaf, hty⟩, hkn⟩, hone⟩ m hm
    exact ⟨(World.wf_iff w).mp hwf m hm, hfo m hm, hw m hm, hr m hm, hleaf m hm, hty m hm, hkn m hm, hone m hm⟩
  · intro h
    exact ⟨⟨(World.wf_iff w).mpr fun m hm => (h m hm).wfM, fun m hm => (h m hm).files⟩,
      ⟨⟨fun m hm => (h m hm).minv, fun m hm => (h m hm).refs, fun m hm => (h m hm).leaf, fun m hm => (h m hm).rootTy⟩,
        fun m hm => (h m hm).known⟩, fun m hm => (h m hm).one⟩

/-- the source model after the cross-model move satisfies the full invariant -/
theorem src_mginv (hH : IdxHyp S V vOk) (hR : RefWF S) (hv32 : vOk &&& 0xFFFFFFFF = vOk) (w : World) (hg : GInv S vOk w)
    {kx : Nat} {mx : Model} (hmx : w.models[kx]? = some mx) {x : Nat} {cx : List (Hdr × Items)} {sph : Hdr} {spk : Items}
    {xh : Hdr} {xk : Items} {orig : Bytes} {sh : Hdr} {rest : Items} {i : Nat}
    (st : SrcTree S mx x cx sph spk xh xk orig sh rest i) :
    MGInv S vOk w.nextId (rmModel S mx sph xh xk i (pathOfChain S cx.dropLast)) := by
  have h1 := applyOpX_ginv S V vOk [] hH hR hv32 (oneWorld w mx) (.core (.remove sph.id x)) trivial (ginv_one S vOk w hg kx mx hmx)
  have h2 : GInv S vOk (opRemove S (oneWorld w mx) sph.id x).1 := h1
  have h3 := (ginv_iff S vOk _).mp h2 _ (by rw [opRemove_oneWorld S w st]; exact List.mem_singleton.mpr rfl)
  have h4 : (opRemove S (oneWorld w mx) sph.id x).1.nextId = w.nextId := by
    unfold opRemove
    split
    · rfl
    · dsimp only
      split
      · split <;> rfl
      · rfl
  rwa [h4] at h3

end mginv

/-! ### inserting a subtree that comes from another model -/

section insert
variable (S : Spec) (vOk : Nat)

/-- `minv_insert_subtree` for a subtree whose ids are not new but apart from the ids of the model (it comes from another model) -/
theorem minv_insert_moved (nid : Nat) (m m' : Model) (p q : Nat) (cp : List (Hdr × Items)) (nh : Hdr) (nk1 : Items)
    (hm : MInv S vOk nid m) (hc : m.rootItems.chain p = some cp) (hiss : m.rootIssued = true)
    (hpname : (lastOf cp).1.name ≠ S.nmShortName) (hpos : firstIsSn S (lastOf cp).2 → 1 ≤ q)
    (hname : nh.name ≠ S.nmShortName) (hk : kidsOk S nh nk1) (hs : SnOk S nk1)
    (hidsN : (Items.elem nh nk1 .nil).ids.Nodup) (hidsD : ∀ a ∈ m.rootItems.ids, ∀ b ∈ (Items.elem nh nk1 .nil).ids, a ≠ b)
    (hidsB : ∀ i ∈ (Items.elem nh nk1 .nil).ids, i < nid)
    (hkeys : keysNodupI (entries S (.elem nh nk1 .nil) (pathOfChain S cp)))
    (hfresh : ∀ e ∈ entries S (.elem nh nk1 .nil) (pathOfChain S cp), idxGet m.index e.1 = none)
    (hroot : m'.rootItems = m.rootItems.modify p (fun h0 k0 => (h0, k0.insertAt (fun r => .elem nh nk1 r) q)))
    (hidx : m'.index = m.index ++ entries S (.elem nh nk1 .nil) (pathOfChain S cp))
    (hiss' : m'.rootIssued = m.rootIssued) (hfiles : m'.files = m.files) : MInv S vOk nid m' := by
  let f : Hdr → Items → Hdr × Items := fun h0 k0 => (h0, k0.insertAt (fun r => .elem nh nk1 r) q)
  have key : ∀ h k0, Occ h k0 m.rootItems → h.id = p → h.name ≠ S.nmShortName ∧ (firstIsSn S k0 → 1 ≤ q) := by
    intro h k0 ho he
    obtain ⟨e1, e2⟩ := node_eq S vOk hm p cp hc h k0 ho he
    rw [e1, e2]; exact ⟨hpname, hpos⟩
  have hv : KeepsView S p f m.rootItems := fun h k0 ho he => ⟨rfl, rfl, rfl, fun hn => absurd hn (key h k0 ho he).1⟩
  obtain ⟨pfx, hpfx, hperm⟩ := entries_modify_located S p f (fun _ => []) (fun pre => entries S (.elem nh nk1 .nil) pre)
    m.rootItems hv (fun h k0 ho he => ⟨itemName_insertAt S h nh nk1 hname k0 _ (key h k0 ho he).2, fun pre => by
      rw [List.append_nil]
      exact (entries_insertAt S nh nk1 k0 _ pre).trans List.perm_append_comm⟩) hm.ids (chain_mem_ids p _ cp hc) []
  rw [kpre_chain S p _ cp hc, chainPre_nil] at hpfx
  cases hpfx
  rw [List.append_nil] at hperm
  have hids : (m.rootItems.modify p f).ids.Perm (m.rootItems.ids ++ (Items.elem nh nk1 .nil).ids) :=
    ids_modify_add p f _ _ (fun h k0 _ _ => ⟨rfl, by
      have := ids_insertAt nh nk1 k0 q
      rw [ids_elem_nil]
      exact this.trans List.perm_append_comm⟩) hm.ids (chain_mem_ids p _ cp hc)
  have hnew : ∀ e ∈ entries S (.elem nh nk1 .nil) (pathOfChain S cp), ∀ i, (e.1, i) ∉ entries S m.rootItems [] := by
    intro e he i hi
    have h1 := hfresh e he
    rw [(hm.exact e.1 i).mpr hi] at h1
    cases h1
  have hr' : m'.rootItems = if m.rootHdr.id = p then .elem (f m.rootHdr m.rootKids).1 (f m.rootHdr m.rootKids).2 .nil
      else .elem m.rootHdr (m.rootKids.modify p f) .nil := by
    rw [hroot]; simp only [Model.rootItems, Items.modify]; rfl
  refine ⟨?_, ?_, ?_, ?_, ?_, ?_, ?_, ?_, ?_⟩
  · rw [hfiles]; exact hm.vers
  · rw [hroot]
    refine (List.Perm.nodup_iff hids).mpr ?_
    exact List.nodup_append.mpr ⟨hm.ids, hidsN, hidsD⟩
  · intro _ i hi
    rw [hroot] at hi
    rcases List.mem_append.mp ((List.Perm.mem_iff hids).mp hi) with h1 | h1
    · exact hm.bound hiss i h1
    · exact hidsB i h1
  · intro hi; rw [hiss', hiss] at hi; cases hi
  · have hr2 := hr'
    rw [rootItems_eq m'] at hr2
    split at hr2
    · injection hr2 with a _ _
      rw [a]; exact hm.rootName
    · injection hr2 with a _ _
      rw [a]; exact hm.rootName
  · rw [hroot]
    exact snOk_modify S p f _ (fun h k0 ho he => ⟨rfl, rfl, fun hn _ => absurd hn (key h k0 ho he).1, fun hk0 hs0 =>
      ⟨kidsOk_insertAt S h nh nk1 hname k0 _ (key h k0 ho he).2 hk0, snOk_insertAt S nh nk1 ⟨hk, hs⟩ k0 _ hs0⟩⟩) hm.sn
  · rw [hroot]
    unfold keysNodupI
    refine (List.Perm.nodup_iff (hperm.map (·.1))).mpr ?_
    rw [List.map_append]
    refine List.nodup_append.mpr ⟨hm.keys, hkeys, fun a ha b hb e => ?_⟩
    obtain ⟨⟨qa, ia⟩, hqa, rfl⟩ := List.mem_map.mp ha
    obtain ⟨eb, heb, rfl⟩ := List.mem_map.mp hb
    simp only at e
    exact hnew eb heb ia (e ▸ hqa)
  · rw [hidx]
    unfold keysNodupI
    rw [List.map_append]
    refine List.nodup_append.mpr ⟨hm.idxKeys, hkeys, fun a ha b hb e => ?_⟩
    obtain ⟨eb, heb, rfl⟩ := List.mem_map.mp hb
    have := (idxGet_none_iff m.index eb.1).mp (hfresh eb heb)
    exact this (e ▸ ha)
  · intro qq i
    have hkn : keysNodupI (m.index ++ entries S (.elem nh nk1 .nil) (pathOfChain S cp)) := by
      unfold keysNodupI
      rw [List.map_append]
      refine List.nodup_append.mpr ⟨hm.idxKeys, hkeys, fun a ha b hb e => ?_⟩
      obtain ⟨eb, heb, rfl⟩ := List.mem_map.mp hb
      exact (idxGet_none_iff m.index eb.1).mp (hfresh eb heb) (e ▸ ha)
    rw [hidx, hroot, idxGet_iff_mem _ hkn, List.Perm.mem_iff hperm, List.mem_append, List.mem_append,
      ← idxGet_iff_mem _ hm.idxKeys, hm.exact]



end insert

/-! ### the moved subtree after the reference loop -/

section subtree
variable (S : Spec)

/-- the loop keeps what a text replacement AT A PLAIN REFERENCE NODE keeps -/
theorem mfFold_pres' (Q : Items → Prop)
    (hQ : ∀ its t txt, its.ids.Nodup → LeafAt S t its → Q its → Q (its.modify t (refEdit txt)))
    (P : List (Bytes × Nat)) (src dest : Bytes) (L : List (Bytes × Nat)) :
    ∀ acc : List (Bytes × List Nat) × Items, acc.2.ids.Nodup → RefLeaves S acc.2 (L.map (·.2)) → Q acc.2 →
      Q (L.foldl (mfStep P src dest) acc).2 := by
  induction L with
  | nil => intro acc _ _ h; exact h
  | cons r L ih =>
    intro acc hn hl h
    rw [List.foldl_cons]
    have hleaf : LeafAt S r.2 acc.2 := leafAt_of_refLeaves S hn hl (by simp)
    have hl' : RefLeaves S acc.2 (L.map (·.2)) := fun id hid => hl id (by
      rw [List.map_cons]; exact List.mem_cons_of_mem _ hid)
    rcases mfStep_snd P src dest acc r with ⟨_, e⟩ | ⟨_, e⟩
    · apply ih
      · rw [e, ids_modify_refEdit S r.2 _ acc.2 hleaf]; exact hn
      · rw [e]; exact refLeaves_modify S r.2 _ acc.2 hleaf _ hl'
      · rw [e]; exact hQ _ _ _ hn hleaf h
    · apply ih
      · rw [e]; exact hn
      · rw [e]; exact hl'
      · rw [e]; exact h

/-- what the cross-model move knows about the subtree `(xh, sh "orig" rest)` it inserts, renamed to `nm`, after the reference
loop over the registrations `R` of the subtree -/
structure SubOut (xh : Hdr) (p : Nat) (sh : Hdr) (orig nm : Bytes) (rest : Items) (P : List (Bytes × Nat)) (src dest : Bytes)
    (rs : List (Bytes × List Nat)) (sk : Items) : Prop where
  eq : ((refEntries S (.elem xh (.elem sh (.text (.str orig) .nil) rest) .nil)).foldl (mfStep P src dest)
      (rs, Items.elem (mvHdr xh p) (.elem sh (.text (.str nm) .nil) rest) .nil)).2 = .elem (mvHdr xh p) sk .nil
  ids : (Items.elem (mvHdr xh p) sk .nil).ids = (Items.elem xh (.elem sh (.text (.str orig) .nil) rest) .nil).ids
  ents : ∀ pre, entries S (.elem (mvHdr xh p) sk .nil) pre = (pre ++ 47 :: nm, xh.id) :: entries S rest (pre ++ 47 :: nm)
  kx : kidsOk S (mvHdr xh p) sk
  sx : SnOk S sk
  refs : refEntries S (.elem (mvHdr xh p) sk .nil) =
    (refEntries S (.elem xh (.elem sh (.text (.str orig) .nil) rest) .nil)).map fun e => (mfG P src dest e.1, e.2)

theorem subOut (hR : RefWF S) (xh : Hdr) (p : Nat) (sh : Hdr) (orig nm : Bytes) (rest : Items) (P : List (Bytes × Nat))
    (src dest : Bytes) (rs : List (Bytes × List Nat)) (hsn : sh.name = S.nmShortName)
    (hkx : kidsOk S xh (.elem sh (.text (.str orig) .nil) rest)) (hsx : SnOk S (.elem sh (.text (.str orig) .nil) rest))
    (hxname : xh.name ≠ S.nmShortName) (hn : (Items.elem xh (.elem sh (.text (.str orig) .nil) rest) .nil).ids.Nodup)
    (hnm : 47 ∉ nm) : ∃ sk, SubOut S xh p sh orig nm rest P src dest rs sk := by
  let xk1 : Items := .elem sh (.text (.str nm) .nil) rest
  let T0 : Items := .elem (mvHdr xh p) xk1 .nil
  have hkx1 : kidsOk S (mvHdr xh p) xk1 := (kidsOk_hdr S xh (mvHdr xh p) xk1 rfl).mpr (kidsOk_retext S xh sh orig nm rest hkx hnm)
  have hsx1 : SnOk S xk1 := snOk_retext S sh orig nm rest hsx
  have hshref : S.isRef sh.ety.typ = false := by
    obtain ⟨⟨hnamed, _, hsub, htyp⟩, _⟩ := hkx.1 hsn
    rw [htyp]; exact hR.sn_not_ref _ _ hnamed hsub
  have hids0 : T0.ids = (Items.elem xh (.elem sh (.text (.str orig) .nil) rest) .nil).ids := rfl
  have hn0 : T0.ids.Nodup := hids0 ▸ hn
  have hsn0 : SnOk S T0 := ⟨hkx1, hsx1, trivial⟩
  have htop0 : topOk S T0 := ⟨fun e => absurd e hxname, trivial⟩
  have hre0 : refEntries S T0 = refEntries S (.elem xh (.elem sh (.text (.str orig) .nil) rest) .nil) := by
    have e1 : refOf S (mvHdr xh p) xk1 = refOf S xh (.elem sh (.text (.str orig) .nil) rest) := by
      unfold refOf charData
      rfl
    simp only [T0, xk1, refEntries, e1, refOf_not_ref S sh _ hshref]
  have hleaves : RefLeaves S T0 ((refEntries S T0).map (·.2)) := by
    intro id hid
    obtain ⟨⟨t, id'⟩, hm, rfl⟩ := List.mem_map.mp hid
    obtain ⟨h, kk, ho, hmem⟩ := (refEntries_mem_iff S T0 t id').mp hm
    obtain ⟨he, href, hcd⟩ := (mem_refOf_iff S h kk t id').mp hmem
    have hk := charData_some_shape S h kk _ hcd
    subst hk
    refine ⟨h, t, ho, he, href, ?_⟩
    intro hname
    have : S.isRef h.ety.typ = false := by
      refine occ_sn_not_ref S hR T0 hsn0 ?_ h _ ho hname
      intro h0 k0 ht0 hn0'
      rcases ht0 with ⟨rfl, _⟩ | ht0
      · exact absurd hn0' hxname
      · exact ht0.elim
    rw [this] at href; cases href
  -- through the loop
  have hroot : HasRoot (mvHdr xh p) ((refEntries S T0).foldl (mfStep P src dest) (rs, T0)).2 :=
    mfFold_pres (HasRoot (mvHdr xh p)) (fun its t txt hi => hasRoot_modify _ t _ (refEdit_fst txt) its hi) P src dest _ (rs, T0)
      ⟨xk1, rfl⟩
  obtain ⟨sk, hsk⟩ := hroot
  have hQ := mfFold_pres' S (fun its => its.ids = T0.ids ∧ (∀ pre, entries S its pre = entries S T0 pre) ∧ SnOk S its ∧ topOk S its)
    (fun its t txt hnd hleaf ⟨a, b, c, d⟩ => ⟨by rw [ids_modify_refEdit S t txt its hleaf, a],
      fun pre => by rw [entries_modify_refEdit S t txt its hleaf pre, b pre],
      snOk_modify S t _ its (keepsSn_refEdit S t txt its hleaf) c, topOk_modify S t _ its (keepsSn_refEdit S t txt its hleaf) d⟩)
    P src dest (refEntries S T0) (rs, T0) hn0 hleaves ⟨rfl, fun _ => rfl, hsn0, htop0⟩
  rw [hsk] at hQ
  obtain ⟨q1, q2, q3, _⟩ := hQ
  have href := mfFold_refEntries S P src dest (refEntries S T0) (rs, T0) hn0
    (List.Nodup.sublist (refEntries_ids_sublist S T0) hn0) (fun r hr => hr) hleaves
  rw [hsk] at href
  refine ⟨sk, by rw [← hre0]; exact hsk, q1.trans hids0, ?_, q3.1, q3.2.1, ?_⟩
  · intro pre
    rw [q2 pre]
    exact entries_named S (mvHdr xh p) sh nm rest hkx1 hsn pre
  · rw [← hre0, href]
    apply List.map_congr_left
    intro e he
    show (if e ∈ refEntries S T0 then _ else _) = _
    rw [if_pos he]

end subtree

/-! ### the destination model -/

section dst
variable (S : Spec) (V : Env) (vOk : Nat)

/-- the destination model, with the subtree, the index and the reference map as parameters -/
def dstModel (m : Model) (p pos : Nat) (sub : Items) (idx' : List (Bytes × Nat)) (rs' : List (Bytes × List Nat)) : Model :=
  { m.setRoot (m.rootItems.modify p fun h0 k0 => (h0, k0.insertAt (subIns sub) pos)) with index := idx', refs := rs' }

theorem mfDst_eq (m : Model) (p pos : Nat) (xh : Hdr) (xk : Items) (src dp : Bytes) (P R : List (Bytes × Nat)) :
    mfDst S m p pos xh xk src dp P R =
      dstModel m p pos (mfLoop S m p xh xk src dp P R).2 (mfIdx m.index P src (mvName S m.index dp xh xk).2.1)
        (mfLoop S m p xh xk src dp P R).1 := rfl

theorem mfIdx_under (src dest : Bytes) (L : List (Bytes × Nat)) : ∀ (idx : List (Bytes × Nat)),
    (∀ e ∈ L, src.isPrefixOf e.1 = true) →
    mfIdx idx L src dest = insertAll idx (L.map fun e => (dest ++ e.1.drop src.length, e.2)) := by
  induction L with
  | nil => intro idx _; rfl
  | cons a L ih =>
    intro idx h
    have h1 : mfIdx idx (a :: L) src dest = mfIdx (idxInsert idx (dest ++ a.1.drop src.length) a.2) L src dest := by
      show List.foldl _ _ _ = _
      rw [List.foldl_cons, if_pos (h a List.mem_cons_self)]
      rfl
    rw [h1, ih _ (fun e he => h e (List.mem_cons_of_mem _ he))]
    rfl

theorem map_drop_under (src dest : Bytes) (rest : Items) :
    (entries S rest src).map (fun e => (dest ++ e.1.drop src.length, e.2)) = entries S rest dest := by
  rw [entries_prefix S rest src, entries_prefix S rest dest, List.map_map]
  apply List.map_congr_left
  intro e _
  simp only [Function.comp, List.drop_left]

theorem isPrefixOf_under {x : Nat} (src : Bytes) (rest : Items) : ∀ e ∈ (src, x) :: entries S rest src, src.isPrefixOf e.1 = true := by
  intro e he
  rw [List.isPrefixOf_iff_prefix]
  rcases List.mem_cons.mp he with rfl | he
  · exact List.prefix_refl _
  · obtain ⟨u, hu⟩ := entries_key_shape S rest src e.1 e.2 he
    rw [hu]; exact List.prefix_append _ _

/-- the destination `p` of a model with the full invariant, and a disciplined subtree `(xh, sh "orig" rest)` from elsewhere that
is to be inserted at position `pos` under the new name `nm` -/
structure DstSit (nid : Nat) (m : Model) (p pos : Nat) (cp : List (Hdr × Items)) (xh sh : Hdr) (orig nm : Bytes) (rest : Items) :
    Prop where
  mg : MGInv S vOk nid m
  iss : m.rootIssued = true
  hcp : m.rootItems.chain p = some cp
  pname : (lastOf cp).1.name ≠ S.nmShortName
  ppos : firstIsSn S (lastOf cp).2 → 1 ≤ pos
  pref : S.isRef (lastOf cp).1.ety.typ = false
  pknown : S.findSub (lastOf cp).1.ety.typ xh.name 0xFFFFFFFF ≠ none
  hsn : sh.name = S.nmShortName
  kx : kidsOk S xh (.elem sh (.text (.str orig) .nil) rest)
  sx : SnOk S (.elem sh (.text (.str orig) .nil) rest)
  xname : xh.name ≠ S.nmShortName
  idsN : (Items.elem xh (.elem sh (.text (.str orig) .nil) rest) .nil).ids.Nodup
  idsD : ∀ a ∈ m.rootItems.ids, ∀ b ∈ (Items.elem xh (.elem sh (.text (.str orig) .nil) rest) .nil).ids, a ≠ b
  idsB : ∀ i ∈ (Items.elem xh (.elem sh (.text (.str orig) .nil) rest) .nil).ids, i < nid
  keys : keysNodupI (entries S (.elem xh (.elem sh (.text (.str orig) .nil) rest) .nil) [])
  leaf : RefLeaf S (.elem xh (.elem sh (.text (.str orig) .nil) rest) .nil)
  one : RefOne S (.elem xh (.elem sh (.text (.str orig) .nil) rest) .nil)
  known : kidsKnownAt S xh (.elem sh (.text (.str orig) .nil) rest) ∧ KidsKnown S (.elem sh (.text (.str orig) .nil) rest)
  wf : (Items.elem sh (.text (.str orig) .nil) rest).wf (.elem xh.id)
  nofiles : noFiles (.elem sh (.text (.str orig) .nil) rest) = true
  nmSlash : 47 ∉ nm
  free : idxGet m.index (pathOfChain S cp ++ [47] ++ nm) = none

/-- the destination model after the cross-model move: full invariant, index, registrations, ids -/
theorem dst_out (hR : RefWF S) {nid : Nat} {m : Model} {p pos : Nat} {cp : List (Hdr × Items)} {xh sh : Hdr} {orig nm : Bytes}
    {rest : Items} (ds : DstSit S vOk nid m p pos cp xh sh orig nm rest) (src : Bytes) (m' : Model)
    (hm' : m' = dstModel m p pos
      ((refEntries S (.elem xh (.elem sh (.text (.str orig) .nil) rest) .nil)).foldl
        (mfStep ((src, xh.id) :: entries S rest src) src (pathOfChain S cp ++ 47 :: nm))
        (m.refs, Items.elem (mvHdr xh p) (.elem sh (.text (.str nm) .nil) rest) .nil)).2
      (mfIdx m.index ((src, xh.id) :: entries S rest src) src (pathOfChain S cp ++ 47 :: nm))
      ((refEntries S (.elem xh (.elem sh (.text (.str orig) .nil) rest) .nil)).foldl
        (mfStep ((src, xh.id) :: entries S rest src) src (pathOfChain S cp ++ 47 :: nm))
        (m.refs, Items.elem (mvHdr xh p) (.elem sh (.text (.str nm) .nil) rest) .nil)).1) :
    MGInv S vOk nid m' ∧
    m'.index = m.index ++ ((pathOfChain S cp ++ 47 :: nm, xh.id) :: entries S rest (pathOfChain S cp ++ 47 :: nm)) ∧
    (refEntries S m'.rootItems).Perm (refEntries S m.rootItems ++
      (refEntries S (.elem xh (.elem sh (.text (.str orig) .nil) rest) .nil)).map fun e =>
        (mfG ((src, xh.id) :: entries S rest src) src (pathOfChain S cp ++ 47 :: nm) e.1, e.2)) ∧
    m'.rootItems.ids.Perm (m.rootItems.ids ++ (Items.elem xh (.elem sh (.text (.str orig) .nil) rest) .nil).ids) ∧
    m'.rootHdr = m.rootHdr ∧ m'.rootIssued = m.rootIssued := by
  obtain ⟨sk, so⟩ := subOut S hR xh p sh orig nm rest ((src, xh.id) :: entries S rest src) src (pathOfChain S cp ++ 47 :: nm)
    m.refs ds.hsn ds.kx ds.sx ds.xname ds.idsN ds.nmSlash
  have hm := ds.mg.minv
  rw [so.eq] at hm'
  let f : Hdr → Items → Hdr × Items := fun h0 k0 => (h0, k0.insertAt (fun r => .elem (mvHdr xh p) sk r) pos)
  have hfields := setRoot_modify_fields m p f
  have hroot : m'.rootItems = m.rootItems.modify p f := by
    rw [hm']; exact rootItems_setRoot_modify m p f
  have hhdr : m'.rootHdr = m.rootHdr := by
    rw [hm']
    exact (setRoot_hasRoot m m.rootHdr _ (hasRoot_modify _ p _ (fun _ _ => rfl) _ ⟨m.rootKids, rfl⟩)).2.1
  have hiss' : m'.rootIssued = m.rootIssued := by rw [hm']; exact hfields.2.2.2
  have hfiles : m'.files = m.files := by rw [hm']; exact hfields.2.2.1
  -- the index
  have hkeys : keysNodupI (entries S (.elem (mvHdr xh p) sk .nil) (pathOfChain S cp)) := by
    rw [so.ents]
    have h1 := (keysNodupI_named S xh sh orig rest ds.kx ds.hsn []).mp ds.keys
    have hk1 : kidsOk S xh (.elem sh (.text (.str nm) .nil) rest) := kidsOk_retext S xh sh orig nm rest ds.kx ds.nmSlash
    have := (keysNodupI_named S xh sh nm rest hk1 ds.hsn (pathOfChain S cp)).mpr h1
    rwa [entries_named S xh sh nm rest hk1 ds.hsn] at this
  have hfresh : ∀ e ∈ entries S (.elem (mvHdr xh p) sk .nil) (pathOfChain S cp), idxGet m.index e.1 = none := by
    intro e he
    rw [so.ents] at he
    have hk1 : kidsOk S xh (.elem sh (.text (.str nm) .nil) rest) := kidsOk_retext S xh sh orig nm rest ds.kx ds.nmSlash
    rw [← entries_named S xh sh nm rest hk1 ds.hsn] at he
    obtain ⟨s, hs⟩ := entries_named_under S xh sh nm rest hk1 ds.hsn _ e he
    refine idxGet_none_under S vOk hm (pathOfChain S cp ++ 47 :: nm) (head_path_name _ nm (pathOfChain_head S cp)) ?_ e.1 s hs
    rw [← path_norm]; exact ds.free
  have hidx : m'.index = m.index ++ entries S (.elem (mvHdr xh p) sk .nil) (pathOfChain S cp) := by
    rw [hm']
    show mfIdx m.index _ src _ = _
    rw [mfIdx_under src _ _ m.index (isPrefixOf_under S src rest), List.map_cons, map_drop_under, List.drop_length,
      List.append_nil, so.ents]
    rw [so.ents] at hkeys hfresh
    exact insertAll_fresh _ m.index hkeys (fun e he => (idxGet_none_iff m.index e.1).mp (hfresh e he))
  have hminv : MInv S vOk nid m' :=
    minv_insert_moved S vOk nid m m' p pos cp (mvHdr xh p) sk hm ds.hcp ds.iss ds.pname ds.ppos ds.xname so.kx so.sx
      (so.ids ▸ ds.idsN) (so.ids ▸ ds.idsD) (so.ids ▸ ds.idsB) hkeys hfresh hroot hidx hiss' hfiles
  -- the registrations
  have hpeq : ∀ h k0, Occ h k0 m.rootItems → h.id = p → h = (lastOf cp).1 := fun h k0 ho hid =>
    (node_eq S vOk hm p cp ds.hcp h k0 ho hid).1
  have htree : (refEntries S (m.rootItems.modify p f) ++ []).Perm
      (refEntries S m.rootItems ++ refEntries S (.elem (mvHdr xh p) sk .nil)) := by
    refine refEntries_modify_located S p f [] _ m.rootItems ?_ hm.ids (chain_mem_ids p _ cp ds.hcp)
    intro h k0 ho he
    have hnr : S.isRef h.ety.typ = false := by rw [hpeq h k0 ho he]; exact ds.pref
    refine ⟨rfl, ?_⟩
    rw [refOf_not_ref S h _ hnr, refOf_not_ref S h _ hnr, List.nil_append, List.nil_append, List.append_nil]
    exact (refEntries_insertAt S (mvHdr xh p) sk k0 pos).trans List.perm_append_comm
  rw [List.append_nil] at htree
  have hrefs : m'.refs = addAll m.refs (refEntries S (.elem (mvHdr xh p) sk .nil)) := by
    rw [hm', so.refs]
    exact mfFold_fst ((src, xh.id) :: entries S rest src) src (pathOfChain S cp ++ 47 :: nm) _ (m.refs, _)
  obtain ⟨a, b, c⟩ := addAll_spec (refEntries S (.elem (mvHdr xh p) sk .nil)) m.refs ds.mg.refs.1 ds.mg.refs.2.1
  have hrex : RefsExact S m'.refs m'.rootItems := by
    rw [hrefs, hroot]
    refine refsExact_transfer S m.refs _ m.rootItems _ [] (refEntries S (.elem (mvHdr xh p) sk .nil)) ds.mg.refs a b
      (by rw [List.append_nil]; exact htree) ?_
    intro p' id
    rw [c p' id]
    simp
  -- the subtree: leaves, one item, known, wf, file sets
  have hsub : ∀ (Q : Items → Prop), (∀ its t txt, Q its → Q (its.modify t (refEdit txt))) →
      Q (.elem (mvHdr xh p) (.elem sh (.text (.str nm) .nil) rest) .nil) → Q (.elem (mvHdr xh p) sk .nil) := by
    intro Q hQ h0
    have := mfFold_pres Q hQ ((src, xh.id) :: entries S rest src) src (pathOfChain S cp ++ 47 :: nm)
      (refEntries S (.elem xh (.elem sh (.text (.str orig) .nil) rest) .nil))
      (m.refs, Items.elem (mvHdr xh p) (.elem sh (.text (.str nm) .nil) rest) .nil) h0
    rwa [so.eq] at this
  have hleaf1 : RefLeaf S (.elem (mvHdr xh p) sk .nil) :=
    hsub (RefLeaf S) (fun its t txt hi => refLeaf_refEdit S its t txt hi)
      (refLeaf_mvHdr S xh p _ (refLeaf_setShortName S xh _ nm ds.leaf))
  have hone1 : RefOne S (.elem (mvHdr xh p) sk .nil) :=
    hsub (RefOne S) (fun its t txt hi => refOne_refEdit S its t txt hi)
      (refOne_mvHdr S xh p _ (refOne_setShortName S xh _ nm ds.one))
  have hkn1 : kidsKnownAt S (mvHdr xh p) sk ∧ KidsKnown S sk := by
    have h0 := kidsKnown_setShortName S xh _ nm ds.known
    have : KidsKnown S (.elem (mvHdr xh p) sk .nil) :=
      hsub (KidsKnown S) (fun its t txt hi => kidsKnown_refEdit S its t txt hi) ⟨h0.1, h0.2, trivial⟩
    exact ⟨this.1, this.2.1⟩
  have hwf1 : (Items.elem (mvHdr xh p) sk .nil).wf (.elem p) :=
    hsub (fun its => its.wf (.elem p)) (fun its t txt hi => modify_wf' t _ (fun h k _ => refEdit_wf txt h k) its _ hi)
      ⟨rfl, setShortName_wf _ nm _ ds.wf, trivial⟩
  have hfo1 : ∀ pe, FilesOk pe (.elem (mvHdr xh p) sk .nil) := by
    intro pe
    refine hsub (fun its => FilesOk pe its) (fun its t txt hi => FilesOk_modify t _ (refEdit_filesOk txt) its pe hi) ?_
    show FilesOk pe (.elem (mvHdr xh p) (.elem sh (.text (.str nm) .nil) rest) .nil)
    refine ⟨fun g hg => ?_, ?_, trivial⟩
    · exact absurd hg List.not_mem_nil
    · exact filesOk_of_noFiles _ (noFiles_setShortName _ nm ds.nofiles) _
  have hpref : ∀ h k0, Occ h k0 m.rootItems → h.id = p → S.isRef h.ety.typ = false := fun h k0 ho he => by
    rw [hpeq h k0 ho he]; exact ds.pref
  refine ⟨⟨?_, ?_, hminv, hrex, ?_, ?_, ?_, ?_⟩, ?_, ?_, ?_, hhdr, hiss'⟩
  · rw [hm']
    apply wfM_of_eq (m.setRoot (m.rootItems.modify p f)) _ rfl rfl
    apply wfM_modify _ _ _ _ ds.mg.wfM
    intro h kk hidp
    refine ⟨rfl, rfl, fun hk => insertAt_wf _ _ (fun r hr => ?_) kk _ hk⟩
    rw [hidp] at hr ⊢
    exact ⟨hwf1.1, hwf1.2.1, hr⟩
  · rw [hm']
    refine filesOk_of_eq (m.setRoot _) _ rfl rfl (setRoot_ok m _ ds.mg.files ?_)
    refine rootOk_modify m p _ (fun h k pe hk => ⟨rfl, ?_⟩) ds.mg.files
    refine FilesOk_insertAt _ k pe pos (fun r hr => ?_) hk
    have := hfo1 pe
    exact ⟨this.1, this.2.1, hr⟩
  · rw [hroot]
    refine refLeaf_modify S _ _ _ (fun h k0 ho hid a b => ⟨fun hx => ?_, refLeaf_insertAt S _ sk k0 pos hleaf1 b⟩) ds.mg.leaf
    rw [hpref h k0 ho hid] at hx; cases hx
  · rw [hhdr]; exact ds.mg.rootTy
  · rw [hroot]
    refine kidsKnown_modify S _ _ _ (fun h k0 ho hid => ⟨rfl, fun a b =>
      kidsKnown_insertAt S h (mvHdr xh p) sk k0 pos ?_ hkn1 a b⟩) ds.mg.known
    rw [hpeq h k0 ho hid]; exact ds.pknown
  · rw [hroot]
    refine refOne_modify S _ _ _ (fun h k0 ho hid a b => ⟨fun hx => ?_, refOne_insertAt S _ sk k0 pos hone1 b⟩) ds.mg.one
    rw [hpref h k0 ho hid] at hx; cases hx
  · rw [hidx, so.ents]
  · rw [hroot, ← so.refs]; exact htree
  · rw [hroot, ← so.ids]
    exact ids_modify_add p f _ _ (fun h k0 _ _ => ⟨rfl, by
      have := ids_insertAt (mvHdr xh p) sk k0 pos
      rw [ids_elem_nil]
      exact this.trans List.perm_append_comm⟩) hm.ids (chain_mem_ids p _ cp ds.hcp)

end dst

/-! ### `SepInv`: the ids `I` move from the model `kx` to the model `kp` -/

section sep

theorem sep_move (w : World) (hs : SepInv w) (kx kp : Nat) (hne : kx ≠ kp) (mx m a b : Model)
    (hmx : w.models[kx]? = some mx) (hm : w.models[kp]? = some m) (I : List Nat)
    (ha1 : a.rootHdr = mx.rootHdr) (ha2 : a.rootIssued = mx.rootIssued) (hb1 : b.rootHdr = m.rootHdr)
    (hb2 : b.rootIssued = m.rootIssued)
    (hpa : (a.rootItems.ids ++ I).Perm mx.rootItems.ids) (hpb : b.rootItems.ids.Perm (m.rootItems.ids ++ I))
    (hndx : mx.rootItems.ids.Nodup) (hndm : m.rootItems.ids.Nodup) :
    SepInv (setModel (setModel w kx a) kp b) := by
  obtain ⟨hsep, h0, hpos⟩ := hs
  have hmxmem : mx ∈ w.models := List.mem_of_getElem? hmx
  have hmmem : m ∈ w.models := List.mem_of_getElem? hm
  have hkx : kx < w.models.length := lt_of_getElem?_some _ _ _ hmx
  have hkp : kp < w.models.length := lt_of_getElem?_some _ _ _ hm
  have hndA := (List.Perm.nodup_iff hpa).mpr hndx
  obtain ⟨hndA1, hndI, hdisj⟩ := List.nodup_append.mp hndA
  have hArootIn : mx.rootHdr.id ∈ a.rootItems.ids := by rw [rootItems_ids, ha1]; exact List.mem_cons_self
  have hI : ∀ y ∈ I, y ∈ mx.rootKids.ids := by
    intro y hy
    have h1 : y ∈ mx.rootItems.ids := (List.Perm.mem_iff hpa).mp (List.mem_append_right _ hy)
    rw [rootItems_ids] at h1
    rcases List.mem_cons.mp h1 with e | e
    · exact absurd e.symm (hdisj _ hArootIn _ hy)
    · exact e
  have hIm : ∀ y ∈ I, y ∉ m.rootItems.ids := fun y hy => hsep kp kx m mx (fun e => hne e.symm) hm hmx y (hI y hy)
  have hAi : ∀ y ∈ a.rootItems.ids, y ∈ mx.rootItems.ids := fun y hy => (List.Perm.mem_iff hpa).mp (List.mem_append_left _ hy)
  have hAk : ∀ y ∈ a.rootKids.ids, y ∈ mx.rootKids.ids := by
    intro y hy
    have h1 := hAi y (by rw [rootItems_ids]; exact List.mem_cons_of_mem _ hy)
    rw [rootItems_ids] at h1
    rcases List.mem_cons.mp h1 with e | e
    · exfalso
      rw [rootItems_ids, ha1] at hndA1
      exact (List.nodup_cons.mp hndA1).1 (e ▸ hy)
    · exact e
  have hndB : b.rootItems.ids.Nodup :=
    (List.Perm.nodup_iff hpb).mpr (List.nodup_append.mpr ⟨hndm, hndI, fun x hx y hy e => hIm y hy (e ▸ hx)⟩)
  have hBi : ∀ y ∈ b.rootItems.ids, y ∈ m.rootItems.ids ∨ y ∈ I := fun y hy => List.mem_append.mp ((List.Perm.mem_iff hpb).mp hy)
  have hBk : ∀ y ∈ b.rootKids.ids, y ∈ m.rootKids.ids ∨ y ∈ I := by
    intro y hy
    rcases hBi y (by rw [rootItems_ids]; exact List.mem_cons_of_mem _ hy) with h1 | h1
    · rw [rootItems_ids] at h1
      rcases List.mem_cons.mp h1 with e | e
      · exfalso
        rw [rootItems_ids, hb1] at hndB
        exact (List.nodup_cons.mp hndB).1 (e ▸ hy)
      · exact Or.inl e
    · exact Or.inr h1
  have hget : ∀ j mj, (setModel (setModel w kx a) kp b).models[j]? = some mj →
      (j = kp ∧ mj = b) ∨ (j ≠ kp ∧ j = kx ∧ mj = a) ∨ (j ≠ kp ∧ j ≠ kx ∧ w.models[j]? = some mj) := by
    intro j mj hj
    have hj' : ((w.models.set kx a).set kp b)[j]? = some mj := hj
    by_cases hjp : j = kp
    · subst hjp
      rw [List.getElem?_set_self (by rw [List.length_set]; exact hkp)] at hj'
      exact Or.inl ⟨rfl, (Option.some.inj hj').symm⟩
    · rw [List.getElem?_set_ne (Ne.symm hjp)] at hj'
      by_cases hjx : j = kx
      · subst hjx
        rw [List.getElem?_set_self hkx] at hj'
        exact Or.inr (Or.inl ⟨hjp, rfl, (Option.some.inj hj').symm⟩)
      · rw [List.getElem?_set_ne (Ne.symm hjx)] at hj'
        exact Or.inr (Or.inr ⟨hjp, hjx, hj'⟩)
  have hmemNew : ∀ m1 ∈ (setModel (setModel w kx a) kp b).models, m1 = b ∨ m1 = a ∨ m1 ∈ w.models := by
    intro m1 hm1
    have hm1' : m1 ∈ (w.models.set kx a).set kp b := hm1
    rcases List.mem_or_eq_of_mem_set hm1' with h | h
    · rcases List.mem_or_eq_of_mem_set h with h | h
      · exact Or.inr (Or.inr h)
      · exact Or.inr (Or.inl h)
    · exact Or.inl h
  refine ⟨?_, ?_, ?_⟩
  · intro j k' mj mk hjk hj hk y hy hyj
    rcases hget j mj hj with ⟨rfl, rfl⟩ | ⟨hjp, rfl, rfl⟩ | ⟨hjp, hjx, hj0⟩ <;>
      rcases hget k' mk hk with ⟨rfl, rfl⟩ | ⟨hkp', rfl, rfl⟩ | ⟨hkp', hkx', hk0⟩
    · exact hjk rfl
    · -- k' = kx, j = kp
      have h1 := hAk y hy
      rcases hBi y hyj with h2 | h2
      · exact hsep j k' m mx hjk hm hmx y h1 h2
      · exact hdisj y (by rw [rootItems_ids]; exact List.mem_cons_of_mem _ hy) y h2 rfl
    · -- k' other, j = kp
      rcases hBi y hyj with h2 | h2
      · exact hsep j k' m mk hjk hm hk0 y hy h2
      · have h3 : y ∈ mx.rootItems.ids := by rw [rootItems_ids]; exact List.mem_cons_of_mem _ (hI y h2)
        exact hsep kx k' mx mk (Ne.symm hkx') hmx hk0 y hy h3
    · -- k' = kp, j = kx
      rcases hBk y hy with h2 | h2
      · exact hsep j k' mx m hjk hmx hm y h2 (hAi y hyj)
      · exact hdisj y hyj y h2 rfl
    · exact hjk rfl
    · -- k' other, j = kx
      exact hsep j k' mx mk hjk hmx hk0 y hy (hAi y hyj)
    · -- k' = kp, j other
      rcases hBk y hy with h2 | h2
      · exact hsep j k' mj m hjk hj0 hm y h2 hyj
      · exact hsep j kx mj mx hjx hj0 hmx y (hI y h2) hyj
    · -- k' = kx, j other
      exact hsep j k' mj mx hjk hj0 hmx y (hAk y hy) hyj
    · exact hsep j k' mj mk hjk hj0 hk0 y hy hyj
  · intro m1 hm1 hi
    rcases hmemNew m1 hm1 with rfl | rfl | h
    · rw [hb1]; exact h0 m hmmem (hb2 ▸ hi)
    · rw [ha1]; exact h0 mx hmxmem (ha2 ▸ hi)
    · exact h0 m1 h hi
  · intro m1 hm1 y hy
    rcases hmemNew m1 hm1 with rfl | rfl | h
    · rcases hBk y hy with h2 | h2
      · exact hpos m hmmem y h2
      · exact hpos mx hmxmem y (hI y h2)
    · exact hpos mx hmxmem y (hAk y hy)
    · exact hpos m1 h y hy

end sep

/-! ### the world: a cross-model move of a named element -/

section world
variable (S : Spec) (V : Env) (vOk : Nat)

/-- what `opMoveAny` has checked before it calls `opMoveFull` (`MoveRunX` with the position made explicit) -/
structure MoveFullRun (w : World) (p x pos : Nat) (kx : Nat) (cx : List (Hdr × Items)) (kp : Nat) (cp : List (Hdr × Items))
    (ver lo hi : Nat) : Prop where
  locx : locate w x = some (kx, cx)
  locp : locate w p = some (kp, cp)
  verp : minVersion V (w.models[kp]!) cp = some ver
  range : insertRange S (lastOf cp).1 (lastOf cp).2 (lastOf cx).1.name ver = some (lo, hi)
  pos : lo ≤ pos ∧ pos ≤ hi
  models : kx ≠ kp

theorem MoveRunX.toFull {w : World} {p x : Nat} {pos? : Option Nat} {kx : Nat} {cx : List (Hdr × Items)} {kp : Nat}
    {cp : List (Hdr × Items)} {ver lo hi : Nat} (h : MoveRunX S V w p x pos? kx cx kp cp ver lo hi) :
    MoveFullRun S V w p x (pos?.getD hi) kx cx kp cp ver lo hi :=
  ⟨h.locx, h.locp, h.verp, h.range, h.pos, h.models⟩

/-- THE GUARD of a cross-model move `p ← x`, a decidable predicate on the state: `x` (if it is live) has an item name, and no
element strictly below `x` carries a local file set.

* item name: as for `MoveGuard` — for an element without an item name only the paths of its named descendants are re-keyed, and
  they can collide with paths of the destination model (`add_identifiable` overwrites an existing entry).
* no local file sets below `x`: known finding c10:move-keeps-descendant-file-sets — the moved element's header gets
  `files := []`, its descendants keep their file sets, which are files of ANOTHER model after a cross-model move.

NOT needed (they follow from the full invariant `GInv` of the state): "no identifiable element outside the subtree shares a path
with one inside" (`MInv.keys`: the paths of a model are pairwise different, so the index entries removed by key are the
subtree's own), "the destination path is free" (`make_unique_item_name` + `idxGet_none_under`: nothing is registered at or below
a free path), "the ids of the subtree do not occur in the destination model" (`SepInv`). -/
def MoveFullGuard (w : World) (x : Nat) : Prop :=
  match locate w x with
  | none => True
  | some (_, cx) => itemName S (lastOf cx).1 (lastOf cx).2 ≠ none ∧ noFiles (lastOf cx).2 = true

def moveFullGuardB (w : World) (x : Nat) : Bool :=
  match locate w x with
  | none => true
  | some (_, cx) => (itemName S (lastOf cx).1 (lastOf cx).2).isSome && noFiles (lastOf cx).2

theorem moveFullGuardB_iff (w : World) (x : Nat) : moveFullGuardB S w x = true ↔ MoveFullGuard S w x := by
  unfold moveFullGuardB MoveFullGuard
  split
  · simp
  · simp [Option.isSome_iff_ne_none]

instance (w : World) (x : Nat) : Decidable (MoveFullGuard S w x) := decidable_of_iff _ (moveFullGuardB_iff S w x)

/-- everything the theorems about the cross-model move of a named element share: the shape of the subtree, the source model
(= the model after `remove_sub_element`), the destination situation -/
theorem moveFull_sit (hH : IdxHyp S V vOk) (hR : RefWF S) (hv32 : vOk &&& 0xFFFFFFFF = vOk) (w : World) (hg : GInv S vOk w)
    (hs : SepInv w) {p x pos kx : Nat} {cx : List (Hdr × Items)} {kp : Nat} {cp : List (Hdr × Items)} {ver lo hi : Nat}
    (hr : MoveFullRun S V w p x pos kx cx kp cp ver lo hi) {sph : Hdr} {spk : Items}
    (hpar : cx.dropLast.getLast? = some (sph, spk)) (orig : Bytes)
    (hnamed : itemName S (lastOf cx).1 (lastOf cx).2 = some orig) (hnf : noFiles (lastOf cx).2 = true) :
    ∃ mx m sh rest i nm,
      w.models[kx]? = some mx ∧ w.models[kx]! = mx ∧ w.models[kp]? = some m ∧ w.models[kp]! = m ∧
      nm = (uniqueName m.index (pathOfChain S cp) orig (m.index.length + 2) 0).1 ∧
      SrcTree S mx x cx sph spk (lastOf cx).1 (lastOf cx).2 orig sh rest i ∧
      DstSit S vOk w.nextId m p pos cp (lastOf cx).1 sh orig nm rest ∧
      mvName S m.index (pathOfChain S cp) (lastOf cx).1 (lastOf cx).2 =
        (.elem sh (.text (.str nm) .nil) rest, pathOfChain S cp ++ 47 :: nm, false) ∧
      mx.rootIssued = true := by
  have hall := (ginv_iff S vOk w).mp hg
  obtain ⟨mx, hmx1, hmx2, hmxmem, hcx⟩ := locate_chain w x kx cx hr.locx
  obtain ⟨m, hm1, hm2, hmmem, hcp⟩ := locate_chain w p kp cp hr.locp
  have hgx := hall mx hmxmem
  have hgm := hall m hmmem
  have hmxI := hgx.minv
  have hmI := hgm.minv
  obtain ⟨hop, hidp⟩ := chain_occ p m.rootItems cp hcp
  obtain ⟨sh, rest, i, st⟩ := srcTree S vOk hmxI hcx hpar (Prod.ext rfl rfl : lastOf cx = ((lastOf cx).1, (lastOf cx).2)) hnamed
  have hox := st.occx
  have hshape := st.shape
  -- the new name
  have hslash : 47 ∉ orig := itemName_no_slash S _ _ st.kx orig hnamed
  obtain ⟨hfresh, hcand⟩ := uniqueName_fresh m.index (pathOfChain S cp) orig
  obtain ⟨nm, hnm⟩ : ∃ nm, (uniqueName m.index (pathOfChain S cp) orig (m.index.length + 2) 0).1 = nm := ⟨_, rfl⟩
  rw [hnm] at hfresh
  have hnmslash : 47 ∉ nm := by rw [← hnm, hcand]; exact candName_no_slash orig _ hslash
  have hident : isIdentifiable S (lastOf cx).1 (lastOf cx).2 = true := itemName_some_identifiable S _ _ orig hnamed
  have hmv : mvName S m.index (pathOfChain S cp) (lastOf cx).1 (lastOf cx).2 =
      (.elem sh (.text (.str nm) .nil) rest, pathOfChain S cp ++ 47 :: nm, false) := by
    rcases mvName_cases S m.index (pathOfChain S cp) (lastOf cx).1 (lastOf cx).2 with ⟨h0, _⟩ | ⟨_, h2, _⟩ | ⟨o, _, h2, h3⟩
    · rw [hident] at h0; cases h0
    · rw [hnamed] at h2; cases h2
    · rw [hnamed] at h2
      obtain rfl := Option.some.inj h2
      rw [h3, hnm, path_norm]
      congr 1
      rw [hshape]
      split
      · rfl
      · rename_i hc
        have hc0 : (uniqueName m.index (pathOfChain S cp) orig (m.index.length + 2) 0).2 = 0 := by omega
        have : nm = orig := by rw [← hnm, hcand, hc0]; rfl
        rw [this]
  -- the destination
  have hverp := hr.verp
  rw [hm2] at hverp
  have hiss : m.rootIssued = true := issued_of_minVersion S V vOk hmI p cp hcp ver hverp
  have hpmode : S.mode (lastOf cp).1.ety.typ ≠ .characters := by
    intro e
    have := hr.range
    unfold insertRange at this
    rw [if_pos e] at this; cases this
  have hpname : (lastOf cp).1.name ≠ S.nmShortName := by
    intro hn
    exact hpmode (properSn_mode S (sn_proper_of_occ S _ hmI.sn (hmI.topOk S vOk) _ _ hop hn))
  have hppos : firstIsSn S (lastOf cp).2 → 1 ≤ pos := by
    intro hf
    have hrange := hr.range
    have hpos := hr.pos
    cases hl : (lastOf cp).2 with
    | nil => rw [hl] at hf; exact hf.elim
    | text _ _ => rw [hl] at hf; exact hf.elim
    | elem sh0 sk0 rest0 =>
      rw [hl] at hf hrange
      have hk := (kidsOk_of_occ S _ hmI.sn _ _ hop).1
      rw [hl] at hk
      obtain ⟨⟨hnamed', hseq, _, _⟩, _⟩ := hk.1 hf
      have := insertRange_lo_pos S hH.wf hH.only (lastOf cp).1 sh0 sk0 rest0 (lastOf cx).1.name ver lo hi hnamed' hseq hf hrange
      omega
  have hpref : S.isRef (lastOf cp).1.ety.typ = false := not_ref_of_insertRange S hR _ _ _ _ _ hr.range
  have hvf := ver_full vOk hv32 (minVersion_ok S V vOk hmI hH.latest cp ver hverp)
  have hpknown : S.findSub (lastOf cp).1.ety.typ (lastOf cx).1.name 0xFFFFFFFF ≠ none := by
    obtain ⟨y, hy⟩ := findSub_of_insertRange S _ _ _ _ _ hr.range
    exact findSub_full S _ _ ver hvf y hy
  -- the ids of the subtree
  have hrootIn : mx.rootHdr.id ∈ (mx.rootItems.modify sph.id fun h0 kk => (h0, kk.removeAt i)).ids := by
    obtain ⟨k', hk'⟩ := hasRoot_modify mx.rootHdr sph.id (fun h0 kk => (h0, kk.removeAt i)) (fun _ _ => rfl) mx.rootItems
      ⟨mx.rootKids, rfl⟩
    rw [hk']; simp [Items.ids]
  have hnd1 := (List.Perm.nodup_iff st.ids).mpr hmxI.ids
  have hsubKids : ∀ b ∈ (Items.elem (lastOf cx).1 (lastOf cx).2 .nil).ids, b ∈ mx.rootKids.ids := by
    intro b hb
    have h1 : b ∈ mx.rootItems.ids := (List.Perm.mem_iff st.ids).mp (List.mem_append_right _ hb)
    rw [rootItems_ids] at h1
    rcases List.mem_cons.mp h1 with e | e
    · exact absurd e.symm ((List.nodup_append.mp hnd1).2.2 _ hrootIn _ hb)
    · exact e
  have hissx : mx.rootIssued = true := by
    cases hi : mx.rootIssued with
    | true => rfl
    | false =>
      have := hsubKids x (by rw [ids_elem_nil, st.xid]; exact List.mem_cons_self)
      rw [(hmxI.fresh hi).1] at this; cases this
  have hwfx := (occ_wf mx.rootItems _ (rootItems_wf mx hgx.wfM) hox).1
  have hkn := kidsKnown_of_occ S _ hgx.known _ _ hox
  have hleaf := refLeaf_of_occ' S _ hgx.leaf _ _ hox
  have hone := refOne_of_occ' S _ hgx.one _ _ hox
  have hkeys := keysNodupI_of_occ S _ _ _ [] hox hmxI.keys
  have hidsN : (Items.elem (lastOf cx).1 (lastOf cx).2 .nil).ids.Nodup := by
    rw [ids_elem_nil]; exact List.Nodup.sublist hox.ids_sublist hmxI.ids
  have hidsD : ∀ a ∈ m.rootItems.ids, ∀ b ∈ (Items.elem (lastOf cx).1 (lastOf cx).2 .nil).ids, a ≠ b := by
    intro a ha b hb e
    exact hs.1 kp kx m mx (fun e' => hr.models e'.symm) hm1 hmx1 b (hsubKids b hb) (e ▸ ha)
  have hidsB : ∀ b ∈ (Items.elem (lastOf cx).1 (lastOf cx).2 .nil).ids, b < w.nextId := by
    intro b hb
    exact hmxI.bound hissx b (by rw [rootItems_ids]; exact List.mem_cons_of_mem _ (hsubKids b hb))
  have hkx := st.kx
  have hsx := st.sx
  rw [hshape] at hkx hsx hidsN hidsD hidsB hkeys hleaf hone hkn hwfx hnf
  exact ⟨mx, m, sh, rest, i, nm, hmx1, hmx2, hm1, hm2, hnm.symm, st,
    ⟨hgm, hiss, hcp, hpname, hppos, hpref, hpknown, st.hsn, hkx, hsx, st.xname, hidsN, hidsD, hidsB, hkeys, hleaf, hone, hkn,
      hwfx, hnf, hnmslash, hfresh⟩, hmv, hissx⟩

/-- **the cross-model move of a named element, carried out**: both models satisfy the full invariant again, ids of different
models stay apart; the source model is the model after `remove_sub_element (parent of x, x)`; the index of the destination model
is the old index followed by the entries of the subtree under the new path `dest`; the registrations of the destination are the
old ones and those of the subtree with the rewritten texts (`mfG`); and C06: a reference inside the subtree whose text resolved
(in the source index) to an element of the subtree resolves (in the destination index) to the same element. -/
theorem moveFull_out (hH : IdxHyp S V vOk) (hR : RefWF S) (hv32 : vOk &&& 0xFFFFFFFF = vOk) (w : World) (hg : GInv S vOk w)
    (hs : SepInv w) {p x pos kx : Nat} {cx : List (Hdr × Items)} {kp : Nat} {cp : List (Hdr × Items)} {ver lo hi : Nat}
    (hr : MoveFullRun S V w p x pos kx cx kp cp ver lo hi) {sph : Hdr} {spk : Items}
    (hpar : cx.dropLast.getLast? = some (sph, spk)) (orig : Bytes)
    (hnamed : itemName S (lastOf cx).1 (lastOf cx).2 = some orig) (hnf : noFiles (lastOf cx).2 = true) :
    ∃ mx m sh rest i nm dest mx' m',
      w.models[kx]? = some mx ∧ w.models[kp]? = some m ∧
      nm = (uniqueName m.index (pathOfChain S cp) orig (m.index.length + 2) 0).1 ∧ dest = pathOfChain S cp ++ 47 :: nm ∧
      (lastOf cx).2 = .elem sh (.text (.str orig) .nil) rest ∧
      (mfWorld S w kx cx kp cp p x pos sph spk).models = (w.models.set kx mx').set kp m' ∧
      (mfWorld S w kx cx kp cp p x pos sph spk).nextId = w.nextId ∧
      GInv S vOk (mfWorld S w kx cx kp cp p x pos sph spk) ∧ SepInv (mfWorld S w kx cx kp cp p x pos sph spk) ∧
      -- the source model
      mx' = rmModel S mx sph (lastOf cx).1 (lastOf cx).2 i (pathOfChain S cx.dropLast) ∧
      mx'.index = mx.index.filter (fun e =>
        !(((entries S (.elem (lastOf cx).1 (lastOf cx).2 .nil) (pathOfChain S cx.dropLast)).map (·.1)).contains e.1)) ∧
      mx'.refs = refsRemoveAll mx.refs (refEntries S (.elem (lastOf cx).1 (lastOf cx).2 .nil)) ∧
      mx'.rootItems = mx.rootItems.modify sph.id (fun h0 kk => (h0, kk.removeAt i)) ∧
      (refEntries S mx'.rootItems ++ refEntries S (.elem (lastOf cx).1 (lastOf cx).2 .nil)).Perm (refEntries S mx.rootItems) ∧
      -- the destination model
      m'.index = m.index ++ ((dest, x) :: entries S rest dest) ∧
      (refEntries S m'.rootItems).Perm (refEntries S m.rootItems ++
        (refEntries S (.elem (lastOf cx).1 (lastOf cx).2 .nil)).map fun e =>
          (mfG (entries S (.elem (lastOf cx).1 (lastOf cx).2 .nil) (pathOfChain S cx.dropLast)) (pathOfChain S cx) dest e.1, e.2)) ∧
      -- C06
      (∀ t r e, (t, r) ∈ refEntries S (.elem (lastOf cx).1 (lastOf cx).2 .nil) → idxGet mx.index t = some e →
        e ∈ (Items.elem (lastOf cx).1 (lastOf cx).2 .nil).ids →
        (dest ++ t.drop (pathOfChain S cx).length, r) ∈ refEntries S m'.rootItems ∧
          idxGet m'.index (dest ++ t.drop (pathOfChain S cx).length) = some e) := by
  obtain ⟨mx, m, sh, rest, i, nm, hmx1, hmx2, hm1, hm2, hnm, st, ds, hmv, hissx⟩ :=
    moveFull_sit S V vOk hH hR hv32 w hg hs hr hpar orig hnamed hnf
  have hall := (ginv_iff S vOk w).mp hg
  have hmxmem : mx ∈ w.models := List.mem_of_getElem? hmx1
  have hmmem : m ∈ w.models := List.mem_of_getElem? hm1
  have hmxI := (hall mx hmxmem).minv
  have hmI := (hall m hmmem).minv
  obtain ⟨h1, h2, h3, hAeq⟩ := mfSrc_eq_rm S vOk hmxI st
  -- the source model
  have hA := src_mginv S V vOk hH hR hv32 w hg hmx1 st
  have hAroot : (rmModel S mx sph (lastOf cx).1 (lastOf cx).2 i (pathOfChain S cx.dropLast)).rootItems =
      mx.rootItems.modify sph.id (fun h0 kk => (h0, kk.removeAt i)) := rootItems_setRoot_modify mx sph.id _
  have hAhdr : (rmModel S mx sph (lastOf cx).1 (lastOf cx).2 i (pathOfChain S cx.dropLast)).rootHdr = mx.rootHdr :=
    (setRoot_hasRoot mx mx.rootHdr _ (hasRoot_modify _ sph.id _ (fun _ _ => rfl) _ ⟨mx.rootKids, rfl⟩)).2.1
  have hAiss : (rmModel S mx sph (lastOf cx).1 (lastOf cx).2 i (pathOfChain S cx.dropLast)).rootIssued = mx.rootIssued :=
    (setRoot_modify_fields mx sph.id _).2.2.2
  -- the destination model
  have hL : mfPaths S cx = (pathOfChain S cx, (lastOf cx).1.id) :: entries S rest (pathOfChain S cx) := by
    unfold mfPaths
    rw [h3, st.sub, st.xid]
  have hRf : mfRefs S cx = refEntries S (.elem (lastOf cx).1 (.elem sh (.text (.str orig) .nil) rest) .nil) := by
    unfold mfRefs
    rw [subtreeRefs_eq, st.shape]
  have hLe : entries S (.elem (lastOf cx).1 (lastOf cx).2 .nil) (pathOfChain S cx.dropLast) =
      (pathOfChain S cx, (lastOf cx).1.id) :: entries S rest (pathOfChain S cx) := by rw [st.sub, st.xid]
  obtain ⟨m', hm'⟩ : ∃ m', m' = mfDst S m p pos (lastOf cx).1 (lastOf cx).2 (pathOfChain S cx) (pathOfChain S cp) (mfPaths S cx)
    (mfRefs S cx) := ⟨_, rfl⟩
  have hB : m' = dstModel m p pos
      ((refEntries S (.elem (lastOf cx).1 (.elem sh (.text (.str orig) .nil) rest) .nil)).foldl
        (mfStep ((pathOfChain S cx, (lastOf cx).1.id) :: entries S rest (pathOfChain S cx)) (pathOfChain S cx)
          (pathOfChain S cp ++ 47 :: nm))
        (m.refs, Items.elem (mvHdr (lastOf cx).1 p) (.elem sh (.text (.str nm) .nil) rest) .nil)).2
      (mfIdx m.index ((pathOfChain S cx, (lastOf cx).1.id) :: entries S rest (pathOfChain S cx)) (pathOfChain S cx)
        (pathOfChain S cp ++ 47 :: nm))
      ((refEntries S (.elem (lastOf cx).1 (.elem sh (.text (.str orig) .nil) rest) .nil)).foldl
        (mfStep ((pathOfChain S cx, (lastOf cx).1.id) :: entries S rest (pathOfChain S cx)) (pathOfChain S cx)
          (pathOfChain S cp ++ 47 :: nm))
        (m.refs, Items.elem (mvHdr (lastOf cx).1 p) (.elem sh (.text (.str nm) .nil) rest) .nil)).1 := by
    rw [hm', mfDst_eq, hL, hRf]
    unfold mfLoop
    rw [hmv]
  obtain ⟨d1, d2, d3, d4, d5, d6⟩ := dst_out S vOk hR ds (pathOfChain S cx) m' hB
  -- the world
  have hmodels : (mfWorld S w kx cx kp cp p x pos sph spk).models =
      (w.models.set kx (rmModel S mx sph (lastOf cx).1 (lastOf cx).2 i (pathOfChain S cx.dropLast))).set kp m' := by
    unfold mfWorld
    rw [hmx2, hm2, hAeq, ← hm']
    rfl
  have hnid : (mfWorld S w kx cx kp cp p x pos sph spk).nextId = w.nextId := rfl
  have hginv : GInv S vOk (mfWorld S w kx cx kp cp p x pos sph spk) := by
    rw [ginv_iff, hnid, hmodels]
    intro m1 hm1'
    rcases List.mem_or_eq_of_mem_set hm1' with h | h
    · rcases List.mem_or_eq_of_mem_set h with h | h
      · exact hall m1 h
      · rw [h]; exact hA
    · rw [h]; exact d1
  have hsep : SepInv (mfWorld S w kx cx kp cp p x pos sph spk) := by
    have := sep_move w hs kx kp hr.models mx m _ m' hmx1 hm1 (Items.elem (lastOf cx).1 (lastOf cx).2 .nil).ids
      hAhdr hAiss d5 d6 (by rw [hAroot]; exact st.ids) (by rw [st.shape]; exact d4) hmxI.ids hmI.ids
    exact sep_congr _ _ this hmodels
  refine ⟨mx, m, sh, rest, i, nm, pathOfChain S cp ++ 47 :: nm, _, m', hmx1, hm1, hnm, rfl, st.shape, hmodels, hnid, hginv, hsep,
    rfl, ?_, ?_, hAroot, ?_, ?_, ?_, ?_⟩
  · exact removeInternal_index S _ _ _ _ mx.index mx.refs (by omega)
  · exact removeInternal_refs S _ _ _ _ mx.index mx.refs (by omega)
  · rw [hAroot]; exact srcTree_refs S vOk hmxI (hall mx hmxmem).leaf st
  · rw [d2, st.xid]
  · rw [hLe, st.shape]; exact d3
  · intro t r e hre hidx hein
    -- the entry (t, e) is an entry of the subtree
    have h0 : (t, e) ∈ entries S mx.rootItems [] := (hmxI.exact t e).mp hidx
    have hsubE : (t, e) ∈ entries S (.elem (lastOf cx).1 (lastOf cx).2 .nil) (pathOfChain S cx.dropLast) := by
      rcases List.mem_append.mp ((List.Perm.mem_iff st.ents).mpr h0) with h | h
      · exfalso
        have h5 := entries_id_mem S _ _ t e h
        have hnd1 := (List.Perm.nodup_iff st.ids).mpr hmxI.ids
        exact (List.nodup_append.mp hnd1).2.2 e h5 e hein rfl
      · exact h
    rw [hLe] at hsubE
    have hpre : (pathOfChain S cx).isPrefixOf t = true := isPrefixOf_under S (pathOfChain S cx) rest (t, e) hsubE
    have hg' : mfG ((pathOfChain S cx, (lastOf cx).1.id) :: entries S rest (pathOfChain S cx)) (pathOfChain S cx)
        (pathOfChain S cp ++ 47 :: nm) t = pathOfChain S cp ++ 47 :: nm ++ t.drop (pathOfChain S cx).length := by
      unfold mfG
      rw [if_pos]
      exact ⟨List.any_eq_true.mpr ⟨(t, e), hsubE, by simp⟩, hpre⟩
    constructor
    · refine (List.Perm.mem_iff d3).mpr (List.mem_append_right _ ?_)
      rw [st.shape] at hre
      exact List.mem_map.mpr ⟨(t, r), hre, by rw [hg']⟩
    · rw [idxGet_iff_mem _ d1.minv.idxKeys, d2]
      refine List.mem_append_right _ ?_
      have := List.mem_map_of_mem (f := fun e : Bytes × Nat => (pathOfChain S cp ++ 47 :: nm ++ e.1.drop (pathOfChain S cx).length, e.2)) hsubE
      rw [List.map_cons, map_drop_under, List.drop_length, List.append_nil] at this
      exact this


/-- 3. `opMoveFull`, called as `opMoveAny` calls it, keeps the full invariant and `SepInv` — under `MoveFullGuard` -/
theorem opMoveFull_ginv_sep (hH : IdxHyp S V vOk) (hR : RefWF S) (hv32 : vOk &&& 0xFFFFFFFF = vOk) (w : World) (hg : GInv S vOk w)
    (hs : SepInv w) {p x pos kx : Nat} {cx : List (Hdr × Items)} {kp : Nat} {cp : List (Hdr × Items)} {ver lo hi : Nat}
    (hr : MoveFullRun S V w p x pos kx cx kp cp ver lo hi) (hgd : MoveFullGuard S w x) :
    GInv S vOk (opMoveFull S w kx cx kp cp p x pos).1 ∧ SepInv (opMoveFull S w kx cx kp cp p x pos).1 := by
  rcases opMoveFull_cases S w kx cx kp cp p x pos with h0 | ⟨sph, spk, hpar, _, he⟩
  · rw [h0]; exact ⟨hg, hs⟩
  · unfold MoveFullGuard at hgd
    rw [hr.locx] at hgd
    obtain ⟨hn, hnf⟩ := hgd
    cases hn' : itemName S (lastOf cx).1 (lastOf cx).2 with
    | none => exact absurd hn' hn
    | some orig =>
      obtain ⟨_, _, _, _, _, _, _, _, _, _, _, _, _, _, _, _, hginv, hsep, _⟩ :=
        moveFull_out S V vOk hH hR hv32 w hg hs hr hpar orig hn' hnf
      rw [he]
      exact ⟨hginv, hsep⟩

/-- **3. `move_element_here[_at]`, inside one model or between two models (`opMoveAny`), keeps the full invariant `GInv` and
`SepInv`** — under `MoveGuard` (what the move inside one model needs) and `MoveFullGuard` (what the cross-model move needs) -/
theorem opMoveAny_ginv_sep (hH : IdxHyp S V vOk) (hR : RefWF S) (hv32 : vOk &&& 0xFFFFFFFF = vOk) (w : World) (p x : Nat)
    (pos? : Option Nat) (hg : GInv S vOk w) (hs : SepInv w) (hgd : MoveGuard S w p x) (hgf : MoveFullGuard S w x) :
    GInv S vOk (opMoveAny S V w p x pos?).1 ∧ SepInv (opMoveAny S V w p x pos?).1 := by
  rcases opMoveAny_eq S V w p x pos? with ⟨_, he⟩ | ⟨_, kx, cx, kp, cp, ver, lo, hi, hr, he⟩
  · rw [he]
    exact ⟨opMove_ginv S V vOk hH hR hv32 w p x pos? hg hgd, opMove_sep S V vOk hH hR hv32 w p x pos? hg hgd hs⟩
  · rw [he]
    exact opMoveFull_ginv_sep S V vOk hH hR hv32 w hg hs (MoveRunX.toFull S V hr) hgf

theorem getElem!_set_set (l : List Model) (kx kp : Nat) (a b : Model) (hk : kp < l.length) : ((l.set kx a).set kp b)[kp]! = b := by
  rw [getElem!_def, List.getElem?_set_self (by rw [List.length_set]; exact hk)]

/-- a cross-model move that is answered with `ok`: the normal form -/
theorem opMoveAny_full_ok (w : World) (p x : Nat) (pos? : Option Nat) (hun : (opMove S V w p x pos?).2 = .unsupported)
    (hok : (opMoveAny S V w p x pos?).2 ≠ .err) :
    ∃ kx cx kp cp ver lo hi sph spk, MoveRunX S V w p x pos? kx cx kp cp ver lo hi ∧ cx.dropLast.getLast? = some (sph, spk) ∧
      opMoveAny S V w p x pos? = (mfWorld S w kx cx kp cp p x (pos?.getD hi) sph spk, .ok "") := by
  obtain ⟨kx, cx, kp, cp, ver, lo, hi, hr, he⟩ := opMoveAny_eq_full S V w p x pos? hun
  rcases opMoveFull_cases S w kx cx kp cp p x (pos?.getD hi) with h0 | ⟨sph, spk, hpar, _, he2⟩
  · rw [he, h0] at hok; exact absurd rfl hok
  · exact ⟨kx, cx, kp, cp, ver, lo, hi, sph, spk, hr, hpar, he.trans he2⟩

/-- **4. C06, last sentence: "after moving a subtree to another model, references inside the subtree that pointed into the
subtree designate the moved elements in the destination".**  `move_element_here[_at] (p ← x)` between two models (`opMove`
answers `unsupported`) of a named element `x` is carried out in a world with the full invariant.  With `dest` = path of `p` /
first free name among `orig`, `orig_1`, … in the destination model: for every reference element `r` inside the moved subtree
(text `t`) whose text resolved, in the SOURCE index, to an element `e` of the subtree: afterwards `r` is a reference element of
the destination tree with the text `dest ++ (t without the old path of x)`, and that text resolves, in the DESTINATION index, to
the same element `e`. -/
theorem opMoveAny_c06 (hH : IdxHyp S V vOk) (hR : RefWF S) (hv32 : vOk &&& 0xFFFFFFFF = vOk) (w : World) (p x : Nat)
    (pos? : Option Nat) (hg : GInv S vOk w) (hs : SepInv w) (hgf : MoveFullGuard S w x)
    (hun : (opMove S V w p x pos?).2 = .unsupported) (hok : (opMoveAny S V w p x pos?).2 ≠ .err) :
    ∃ kx cx kp cp orig dest, locate w x = some (kx, cx) ∧ locate w p = some (kp, cp) ∧ kx ≠ kp ∧
      itemName S (lastOf cx).1 (lastOf cx).2 = some orig ∧
      dest = pathOfChain S cp ++ 47 ::
        (uniqueName (w.models[kp]!).index (pathOfChain S cp) orig ((w.models[kp]!).index.length + 2) 0).1 ∧
      ∀ t r e, (t, r) ∈ refEntries S (.elem (lastOf cx).1 (lastOf cx).2 .nil) → idxGet (w.models[kx]!).index t = some e →
        e ∈ (Items.elem (lastOf cx).1 (lastOf cx).2 .nil).ids →
        (dest ++ t.drop (pathOfChain S cx).length, r) ∈ refEntries S ((opMoveAny S V w p x pos?).1.models[kp]!).rootItems ∧
          idxGet ((opMoveAny S V w p x pos?).1.models[kp]!).index (dest ++ t.drop (pathOfChain S cx).length) = some e := by
  obtain ⟨kx, cx, kp, cp, ver, lo, hi, sph, spk, hr, hpar, he⟩ := opMoveAny_full_ok S V w p x pos? hun hok
  unfold MoveFullGuard at hgf
  rw [hr.locx] at hgf
  obtain ⟨hn, hnf⟩ := hgf
  cases hn' : itemName S (lastOf cx).1 (lastOf cx).2 with
  | none => exact absurd hn' hn
  | some orig =>
    obtain ⟨mx, m, sh, rest, i, nm, dest, mx', m', hmx1, hm1, hnm, hdest, _, hmodels, _, _, _, _, _, _, _, _, _, _, hc06⟩ :=
      moveFull_out S V vOk hH hR hv32 w hg hs (MoveRunX.toFull S V hr) hpar orig hn' hnf
    have hkp : kp < w.models.length := lt_of_getElem?_some _ _ _ hm1
    have hm2 : w.models[kp]! = m := by rw [getElem!_def, hm1]
    have hmx2 : w.models[kx]! = mx := by rw [getElem!_def, hmx1]
    have hnew : (opMoveAny S V w p x pos?).1.models[kp]! = m' := by
      rw [he]
      show (mfWorld S w kx cx kp cp p x (pos?.getD hi) sph spk).models[kp]! = m'
      rw [hmodels]
      exact getElem!_set_set _ _ _ _ _ hkp
    refine ⟨kx, cx, kp, cp, orig, dest, hr.locx, hr.locp, hr.models, hn', by rw [hm2, hdest, hnm], ?_⟩
    rw [hnew, hmx2]
    exact hc06


end world

end AV.W

