/-
C09 — the merge algorithm (`Model/Merge.lean`: `walk`, `importNew`, `mergeElement`) on keyed, rank-ordered forests computes
the union of the model's content and the new file's content.

Hypotheses (`WalkHyp` / `LevelHyp` per pair of elements the merge visits, `Compat` hereditarily) — they exclude the known
findings c09:out-of-order-sibling-duplicated, c09:unkeyed-sibling-positional-merge:
* KEYED: under the pairing test `mt` of the algorithm (same element name and same item name for an identifiable element of
  the model, same DEFINITION-REF text otherwise) a child of the model has at most one partner among the children of the new
  file's element, and no two children of the model share a partner (`k1`, `k2`);
* ORDERED: both child lists are sorted by the specification rank of their element names (`sortA`, `sortB`), where the rank
  `rk` agrees with the comparison `cmpIdx` of the index paths `findSub` yields (`rank`, `inj`);
* the ids of the children are pairwise different, on both sides and across (`idA`, `idBnd`, `idAB`; `idB`).
No hypothesis on splittability is needed: the theorems are about ACCEPTED merges (`… = (kr, none)`), and a child of the model
without a partner under a non-splittable parent is either rejected (identifiable, same name as the current new child) or
accepted (finding c09:nonsplittable-partial-child-accepted) — in both cases the statements hold.

Proved:
* `walk_spec` / `walk_top`: the positional walk finds exactly the pairs `pairsOf`, the partnerless children of the model
  `aOnlyOf` and the partnerless children of the new file `bOnlyOf`;
* `merge_level`: one level of an accepted merge — the text items are those of the model, the child elements are, up to the
  order of the siblings (`List.Perm`), the model's children (partnerless: inherited file set made explicit; with partner:
  new file added to an own file set, content merged recursively, that merge accepted too) followed by the partnerless
  children of the new file (attributed to the new file);  `merge_level_once`: each exactly once (ids);
* `mergeElement_isUnion` (**Theorem 1**, every depth): the result satisfies the algorithm-independent specification
  `IsUnion` (content and file attribution);  `opLoad_isUnion`: the same for an accepted merging `load_buffer`;
* a `decide`-checked behaviour outside the four known findings (`Ex`): character data / attributes of paired elements are not
  compared — the load of `<B>y</B>` over `<B>x</B>` is accepted and the merged model keeps `x`.
The sibling ORDER of the result depends on the load order (c09:ordered-splittable-load-order), hence `List.Perm`.
-/
import AutosarVerif.Lemmas.Merge
import AutosarVerif.Lemmas.SortTree
import AutosarVerif.Model.ToyEnv
import AutosarVerif.Model.Load

namespace AV.W.MU
open Items AV.PM

abbrev Ch := Hdr × Items

section
variable (S : Spec) (V : Env)

/-- the pairing test of `merge_element`: does the new file's child `c` belong to the model's child `a`?
(same element name and — for an identifiable `a` — same item name, otherwise same DEFINITION-REF text) -/
def mt (a c : Ch) : Bool :=
  if isIdentifiable S a.1 a.2 then (c.1.name == a.1.name && itemName S c.1 c.2 == itemName S a.1 a.2)
  else (c.1.name == a.1.name && defRefOf S V c.2 == defRefOf S V a.2)

theorem mt_name {a c : Ch} (h : mt S V a c = true) : a.1.name = c.1.name := by
  unfold mt at h
  split at h <;> simp only [Bool.and_eq_true, beq_iff_eq] at h <;> exact h.1.symm

/-- the pairs the walk should find -/
def pairsOf (as bs : List Ch) : List (Nat × Ch) :=
  as.filterMap fun a => (bs.find? (mt S V a)).map fun b => (a.1.id, b)

/-- the model's children without a partner -/
def aOnlyOf (as bs : List Ch) : List Nat :=
  (as.filter fun a => (bs.find? (mt S V a)).isNone).map (·.1.id)

/-- the new file's children without a partner -/
def bOnlyOf (as bs : List Ch) : List Ch :=
  bs.filter fun b => !as.any fun a => mt S V a b

/-- hypotheses of the walk on the two child lists `A` (model) and `B` (new file) under a parent of type `typ` -/
structure WalkHyp (typ : Nat) (rk : Nat → Nat) (A B : List Ch) : Prop where
  /-- the ids of the new file's children are pairwise different -/
  idB : ∀ b ∈ B, ∀ b' ∈ B, b.1.id = b'.1.id → b = b'
  /-- KEYED: a child of the model has at most one partner, … -/
  k1 : ∀ a ∈ A, ∀ b ∈ B, ∀ b' ∈ B, mt S V a b = true → mt S V a b' = true → b = b'
  /-- … and no two children of the model have the same partner -/
  k2 : A.Pairwise fun a a' => ∀ b ∈ B, mt S V a b = true → mt S V a' b = true → False
  /-- the specification order of the element names is given by the rank `rk` -/
  rank : ∀ a ∈ A, ∀ b ∈ B, a.1.name ≠ b.1.name → ∀ ea ia eb ib, S.findSub typ a.1.name 0xFFFFFFFF = some (ea, ia) →
    S.findSub typ b.1.name 0xFFFFFFFF = some (eb, ib) → (cmpIdx ia ib = .lt ↔ rk a.1.name < rk b.1.name)
  inj : ∀ a ∈ A, ∀ b ∈ B, rk a.1.name = rk b.1.name → a.1.name = b.1.name
  /-- ORDERED: both child lists are in specification order -/
  sortA : A.Pairwise fun a a' => rk a.1.name ≤ rk a'.1.name
  sortB : B.Pairwise fun b b' => rk b.1.name ≤ rk b'.1.name

theorem inPairs_append (w : Walk) (p : Nat × Ch) (bid : Nat) :
    inPairs { w with pairs := w.pairs ++ [p] } bid = (inPairs w bid || p.2.1.id == bid) := by
  simp [inPairs, List.any_append]

theorem walk_cons (typ : Nat) (sp : Bool) (B : List Ch) (fuel pa : Nat) (a b : Ch) (as : List (Nat × Ch)) (bs : List Ch) (w : Walk) :
    walk S V typ sp B (fuel + 1) ((pa, a) :: as) (b :: bs) w =
      if a.1.name = b.1.name then
        if mt S V a b = true then walk S V typ sp B fuel as bs { w with pairs := w.pairs ++ [(a.1.id, b)] }
        else match B.find? (mt S V a) with
          | some sib => walk S V typ sp B fuel as (b :: bs) { w with pairs := w.pairs ++ [(a.1.id, sib)] }
          | none =>
            if isIdentifiable S a.1 a.2 = true ∧ sp = false then .error .invalidMerge
            else walk S V typ sp B fuel as (b :: bs) { w with aOnly := w.aOnly ++ [a.1.id] }
      else
        match S.findSub typ a.1.name 0xFFFFFFFF, S.findSub typ b.1.name 0xFFFFFFFF with
        | some (_, ia), some (_, ib) =>
          if cmpIdx ia ib = .lt then walk S V typ sp B fuel as (b :: bs) { w with aOnly := w.aOnly ++ [a.1.id] }
          else
            let w' := if inPairs w b.1.id then w else { w with bOnly := w.bOnly ++ [(b, pa)] }
            walk S V typ sp B fuel ((pa, a) :: as) bs w'
        | _, _ => .error .panic := by
  obtain ⟨ah, ak⟩ := a
  obtain ⟨bh, bk⟩ := b
  rw [walk]
  by_cases hn : ah.name = bh.name
  · rw [if_pos hn, if_pos hn]
    by_cases hid : isIdentifiable S ah ak = true
    · have hf : (fun c : Ch => c.1.name == ah.name && itemName S c.1 c.2 == itemName S ah ak) = mt S V (ah, ak) := by
        funext c; simp only [mt, hid, if_true]
      rw [if_pos hid, hf]
      by_cases he : itemName S ah ak = itemName S bh bk
      · have hm : mt S V (ah, ak) (bh, bk) = true := by
          simp only [mt, hid, if_true, hn, he, beq_self_eq_true, Bool.and_self]
        rw [if_pos he, if_pos hm]
      · have hm : ¬ mt S V (ah, ak) (bh, bk) = true := by
          simp only [mt, hid, if_true, Bool.and_eq_true, beq_iff_eq, not_and]
          intro _ h; exact he h.symm
        rw [if_neg he, if_neg hm]
        cases hfd : List.find? (mt S V (ah, ak)) B with
        | some sib => rfl
        | none => cases sp <;> simp [hid]
    · have hf : (fun c : Ch => c.1.name == ah.name && defRefOf S V c.2 == defRefOf S V ak) = mt S V (ah, ak) := by
        funext c; simp only [mt, hid]; rfl
      rw [if_neg hid, hf]
      by_cases he : defRefOf S V ak = defRefOf S V bk
      · have hm : mt S V (ah, ak) (bh, bk) = true := by
          simp only [mt, hid, hn, he, beq_self_eq_true, Bool.and_self]; rfl
        rw [if_pos he, if_pos hm]
      · have hm : ¬ mt S V (ah, ak) (bh, bk) = true := by
          simp only [mt, hid, Bool.and_eq_true, beq_iff_eq, not_and]
          intro h; simp only [Bool.false_eq_true, if_false, Bool.and_eq_true, beq_iff_eq] at h; exact he h.2.symm
        rw [if_neg he, if_neg hm]
        cases hfd : List.find? (mt S V (ah, ak)) B with
        | some sib => rfl
        | none => simp [hid]
  · rw [if_neg hn, if_neg hn]; rfl

theorem find_mt_unique {typ : Nat} {rk : Nat → Nat} {A B : List Ch} (hyp : WalkHyp S V typ rk A B)
    {a b : Ch} (ha : a ∈ A) (hb : b ∈ B) (hm : mt S V a b = true) : B.find? (mt S V a) = some b := by
  cases hf : B.find? (mt S V a) with
  | none => exact absurd hm (by simpa using List.find?_eq_none.mp hf b hb)
  | some b' =>
    have h1 := List.find?_some hf
    have h2 := List.mem_of_find?_eq_some hf
    rw [hyp.k1 a ha b hb b' h2 hm h1]

theorem id_beq_mt {typ : Nat} {rk : Nat → Nat} {A B : List Ch} (hyp : WalkHyp S V typ rk A B)
    {a b : Ch} (ha : a ∈ A) (hb : b ∈ B) (hm : mt S V a b = true) (b0 : Ch) (hb0 : b0 ∈ B) :
    (b.1.id == b0.1.id) = mt S V a b0 := by
  cases h : mt S V a b0 with
  | true => rw [hyp.k1 a ha b hb b0 hb0 hm h]; simp
  | false =>
    apply Bool.eq_false_iff.mpr
    intro h2
    have := hyp.idB b hb b0 hb0 (by simpa using h2)
    rw [this] at hm; rw [hm] at h; cases h

theorem pairsOf_cons_some {a bx : Ch} {B : List Ch} (h : B.find? (mt S V a) = some bx) (rest : List Ch) :
    pairsOf S V (a :: rest) B = (a.1.id, bx) :: pairsOf S V rest B := by
  simp [pairsOf, List.filterMap_cons, h]

theorem pairsOf_cons_none {a : Ch} {B : List Ch} (h : B.find? (mt S V a) = none) (rest : List Ch) :
    pairsOf S V (a :: rest) B = pairsOf S V rest B := by
  simp [pairsOf, List.filterMap_cons, h]

theorem aOnlyOf_cons_some {a bx : Ch} {B : List Ch} (h : B.find? (mt S V a) = some bx) (rest : List Ch) :
    aOnlyOf S V (a :: rest) B = aOnlyOf S V rest B := by
  simp [aOnlyOf, List.filter_cons, h]

theorem aOnlyOf_cons_none {a : Ch} {B : List Ch} (h : B.find? (mt S V a) = none) (rest : List Ch) :
    aOnlyOf S V (a :: rest) B = a.1.id :: aOnlyOf S V rest B := by
  simp [aOnlyOf, List.filter_cons, h]

theorem bOnlyOf_cons_pos {A : List Ch} {b : Ch} (h : A.any (fun a => mt S V a b) = true) (rest : List Ch) :
    bOnlyOf S V A (b :: rest) = bOnlyOf S V A rest := by
  simp only [bOnlyOf, List.filter_cons, h, Bool.not_true, Bool.false_eq_true, if_false]

theorem bOnlyOf_cons_neg {A : List Ch} {b : Ch} (h : A.any (fun a => mt S V a b) = false) (rest : List Ch) :
    bOnlyOf S V A (b :: rest) = b :: bOnlyOf S V A rest := by
  simp only [bOnlyOf, List.filter_cons, h, Bool.not_false, if_true]

theorem walk_spec (typ : Nat) (sp : Bool) (rk : Nat → Nat) (A B : List Ch) (hyp : WalkHyp S V typ rk A B) :
    ∀ (fuel : Nat) (as : List (Nat × Ch)) (bs : List Ch) (w : Walk) (Ap Bp : List Ch) (w' : Walk) (ra : List (Nat × Ch)) (rb : List Ch),
      A = Ap ++ as.map (·.2) → B = Bp ++ bs → as.length + bs.length < fuel →
      (∀ b ∈ B, inPairs w b.1.id = Ap.any (fun a => mt S V a b)) →
      (∀ b ∈ Bp, ∀ a ∈ as, mt S V a.2 b = false) →
      walk S V typ sp B fuel as bs w = .ok (w', ra, rb) →
      w'.pairs = w.pairs ++ pairsOf S V (as.map (·.2)) B ∧
      w'.aOnly ++ ra.map (·.2.1.id) = w.aOnly ++ aOnlyOf S V (as.map (·.2)) B ∧
      w'.bOnly.map (·.1) ++ rb.filter (fun b => !inPairs w' b.1.id) = w.bOnly.map (·.1) ++ bOnlyOf S V A bs := by
  intro fuel
  induction fuel with
  | zero => intro as bs w Ap Bp w' ra rb _ _ hf; omega
  | succ fuel ih =>
    intro as bs w Ap Bp w' ra rb hA hB hf hI3 hI4 hw
    cases as with
    | nil =>
      simp only [walk] at hw
      cases hw
      refine ⟨by simp [pairsOf], by simp [aOnlyOf], ?_⟩
      congr 1
      apply List.filter_congr
      intro b hb
      rw [hI3 b (by rw [hB]; exact List.mem_append_right _ hb)]
      simp [hA]
    | cons a0 as' =>
      obtain ⟨pa, a⟩ := a0
      cases bs with
      | nil =>
        simp only [walk] at hw
        cases hw
        have hB' : B = Bp := by simpa using hB
        have hnone : ∀ x ∈ ((pa, a) :: as'), B.find? (mt S V x.2) = none := by
          intro x hx
          apply List.find?_eq_none.mpr
          intro b hb
          rw [hB'] at hb
          simp [hI4 b hb x hx]
        refine ⟨?_, ?_, by simp [bOnlyOf]⟩
        · suffices pairsOf S V (List.map (·.2) ((pa, a) :: as')) B = [] by rw [this]; simp
          unfold pairsOf
          apply List.filterMap_eq_nil_iff.mpr
          intro x hx
          obtain ⟨y, hy, rfl⟩ := List.mem_map.mp hx
          simp [hnone y hy]
        · congr 1
          unfold aOnlyOf
          rw [List.filter_eq_self.mpr]
          · simp
          · intro x hx
            obtain ⟨y, hy, rfl⟩ := List.mem_map.mp hx
            simp [hnone y hy]
      | cons b bs' =>
        have haA : a ∈ A := by rw [hA]; simp
        have hbB : b ∈ B := by rw [hB]; simp
        have hA' : A = (Ap ++ [a]) ++ as'.map (·.2) := by rw [hA]; simp
        have hB' : B = (Bp ++ [b]) ++ bs' := by rw [hB]; simp
        have hsubA : ∀ x ∈ as', x.2 ∈ A := by
          intro x hx; rw [hA]; simp only [List.map_cons, List.mem_append, List.mem_cons, List.mem_map]
          exact Or.inr (Or.inr ⟨x, hx, rfl⟩)
        have hsubB : ∀ x ∈ bs', x ∈ B := by
          intro x hx; rw [hB]; simp [hx]
        -- `a` gets the partner `bx`
        have stepPair : ∀ (bx : Ch), bx ∈ B → mt S V a bx = true →
            (∀ b0 ∈ B, inPairs { w with pairs := w.pairs ++ [(a.1.id, bx)] } b0.1.id = (Ap ++ [a]).any (fun a => mt S V a b0)) := by
          intro bx hbx hm b0 hb0
          rw [inPairs_append, hI3 b0 hb0, List.any_append]
          simp [id_beq_mt S V hyp haA hbx hm b0 hb0]
        -- `a` has no partner
        have stepNone : B.find? (mt S V a) = none →
            (∀ b0 ∈ B, inPairs { w with aOnly := w.aOnly ++ [a.1.id] } b0.1.id = (Ap ++ [a]).any (fun a => mt S V a b0)) := by
          intro hnone b0 hb0
          have : mt S V a b0 = false := by simpa using List.find?_eq_none.mp hnone b0 hb0
          rw [List.any_append]
          simp only [List.any_cons, this, List.any_nil, Bool.or_false]
          exact hI3 b0 hb0
        have hI4' : ∀ b0 ∈ Bp, ∀ x ∈ as', mt S V x.2 b0 = false := fun b0 hb0 x hx => hI4 b0 hb0 x (List.mem_cons_of_mem _ hx)
        have finishNone : B.find? (mt S V a) = none →
            walk S V typ sp B fuel as' (b :: bs') { w with aOnly := w.aOnly ++ [a.1.id] } = .ok (w', ra, rb) →
            w'.pairs = w.pairs ++ pairsOf S V (List.map (·.2) ((pa, a) :: as')) B ∧
            w'.aOnly ++ ra.map (·.2.1.id) = w.aOnly ++ aOnlyOf S V (List.map (·.2) ((pa, a) :: as')) B ∧
            w'.bOnly.map (·.1) ++ rb.filter (fun b => !inPairs w' b.1.id) = w.bOnly.map (·.1) ++ bOnlyOf S V A (b :: bs') := by
          intro hnone hw
          have := ih as' (b :: bs') _ (Ap ++ [a]) Bp w' ra rb hA' hB (by simp only [List.length_cons] at hf ⊢; omega)
            (stepNone hnone) hI4' hw
          simp only [List.map_cons, pairsOf_cons_none S V hnone, aOnlyOf_cons_none S V hnone]
          simpa using this
        have finishSib : ∀ sib, B.find? (mt S V a) = some sib →
            walk S V typ sp B fuel as' (b :: bs') { w with pairs := w.pairs ++ [(a.1.id, sib)] } = .ok (w', ra, rb) →
            w'.pairs = w.pairs ++ pairsOf S V (List.map (·.2) ((pa, a) :: as')) B ∧
            w'.aOnly ++ ra.map (·.2.1.id) = w.aOnly ++ aOnlyOf S V (List.map (·.2) ((pa, a) :: as')) B ∧
            w'.bOnly.map (·.1) ++ rb.filter (fun b => !inPairs w' b.1.id) = w.bOnly.map (·.1) ++ bOnlyOf S V A (b :: bs') := by
          intro sib hfd hw
          have := ih as' (b :: bs') _ (Ap ++ [a]) Bp w' ra rb hA' hB (by simp only [List.length_cons] at hf ⊢; omega)
            (stepPair sib (List.mem_of_find?_eq_some hfd) (List.find?_some hfd)) hI4' hw
          simp only [List.map_cons, pairsOf_cons_some S V hfd, aOnlyOf_cons_some S V hfd]
          simpa using this
        rw [walk_cons] at hw
        split at hw
        · rename_i hn
          split at hw
          · -- direct pair
            rename_i hm
            have hfd := find_mt_unique S V hyp haA hbB hm
            have hk2 : ∀ x ∈ as', mt S V x.2 b = false := by
              intro x hx
              have hp := hyp.k2
              rw [hA] at hp
              have hp2 := (List.pairwise_append.mp hp).2.1
              simp only [List.map_cons, List.pairwise_cons] at hp2
              have := hp2.1 x.2 (List.mem_map.mpr ⟨x, hx, rfl⟩) b hbB hm
              cases h : mt S V x.2 b with
              | false => rfl
              | true => exact absurd h this
            have := ih as' bs' _ (Ap ++ [a]) (Bp ++ [b]) w' ra rb hA' hB' (by simp only [List.length_cons] at hf ⊢; omega)
              (stepPair b hbB hm)
              (by
                intro b0 hb0 x hx
                rcases List.mem_append.mp hb0 with h | h
                · exact hI4' b0 h x hx
                · simp only [List.mem_singleton] at h; subst h; exact hk2 x hx) hw
            have hany : A.any (fun a => mt S V a b) = true := List.any_eq_true.mpr ⟨a, haA, hm⟩
            simp only [List.map_cons, pairsOf_cons_some S V hfd, aOnlyOf_cons_some S V hfd, bOnlyOf_cons_pos S V hany]
            simpa using this
          · split at hw
            · rename_i sib hfd
              exact finishSib sib hfd hw
            · rename_i hfd
              split at hw
              · cases hw
              · exact finishNone hfd hw
        · rename_i hn
          split at hw
          · rename_i ea ia eb ib hfa hfb
            have hrank := hyp.rank a haA b hbB hn ea ia eb ib hfa hfb
            split at hw
            · rename_i hlt
              have hrk := hrank.mp hlt
              have hnone : B.find? (mt S V a) = none := by
                apply List.find?_eq_none.mpr
                intro b0 hb0
                rw [hB] at hb0
                rcases List.mem_append.mp hb0 with h | h
                · simp [hI4 b0 h (pa, a) (List.mem_cons_self ..)]
                · have hsb := hyp.sortB
                  rw [hB] at hsb
                  have hsb2 := (List.pairwise_append.mp hsb).2.1
                  have hle : rk b.1.name ≤ rk b0.1.name := by
                    rcases List.mem_cons.mp h with h | h
                    · rw [h]; exact Nat.le_refl _
                    · exact (List.pairwise_cons.mp hsb2).1 b0 h
                  intro hmt
                  have := mt_name S V hmt
                  rw [this] at hrk; omega
              exact finishNone hnone hw
            · rename_i hlt
              have hrk : rk b.1.name < rk a.1.name := by
                have h1 : ¬ rk a.1.name < rk b.1.name := fun h => hlt (hrank.mpr h)
                have h2 : rk a.1.name ≠ rk b.1.name := fun h => hn (hyp.inj a haA b hbB h)
                omega
              have hno : ∀ x ∈ ((pa, a) :: as'), mt S V x.2 b = false := by
                intro x hx
                have hsa := hyp.sortA
                rw [hA] at hsa
                have hsa2 := (List.pairwise_append.mp hsa).2.1
                have hle : rk a.1.name ≤ rk x.2.1.name := by
                  rcases List.mem_cons.mp hx with h | h
                  · rw [h]; exact Nat.le_refl _
                  · simp only [List.map_cons, List.pairwise_cons] at hsa2
                    exact hsa2.1 x.2 (List.mem_map.mpr ⟨x, h, rfl⟩)
                cases hmt : mt S V x.2 b with
                | false => rfl
                | true =>
                  have := mt_name S V hmt
                  rw [this] at hle; omega
              have hanyA : A.any (fun a => mt S V a b) = inPairs w b.1.id := by
                rw [hI3 b hbB, hA, List.any_append]
                have : (List.map (·.2) ((pa, a) :: as')).any (fun a => mt S V a b) = false := by
                  apply List.any_eq_false.mpr
                  intro x hx
                  obtain ⟨y, hy, rfl⟩ := List.mem_map.mp hx
                  simp [hno y hy]
                rw [this, Bool.or_false]
              have hI3w : ∀ (wx : Walk), wx.pairs = w.pairs → ∀ b0 ∈ B, inPairs wx b0.1.id = Ap.any (fun a => mt S V a b0) := by
                intro wx hwx b0 hb0
                rw [← hI3 b0 hb0]; simp only [inPairs, hwx]
              have hI4n : ∀ b0 ∈ Bp ++ [b], ∀ x ∈ ((pa, a) :: as'), mt S V x.2 b0 = false := by
                intro b0 hb0 x hx
                rcases List.mem_append.mp hb0 with h | h
                · exact hI4 b0 h x hx
                · simp only [List.mem_singleton] at h; subst h; exact hno x hx
              cases hip : inPairs w b.1.id with
              | true =>
                simp only [hip, if_true] at hw
                have := ih ((pa, a) :: as') bs' w Ap (Bp ++ [b]) w' ra rb hA hB' (by simp only [List.length_cons] at hf ⊢; omega)
                  hI3 hI4n hw
                rw [hip] at hanyA
                rw [bOnlyOf_cons_pos S V hanyA]
                exact this
              | false =>
                simp only [hip, Bool.false_eq_true, if_false] at hw
                have := ih ((pa, a) :: as') bs' { w with bOnly := w.bOnly ++ [(b, pa)] } Ap (Bp ++ [b]) w' ra rb hA hB'
                  (by simp only [List.length_cons] at hf ⊢; omega) (hI3w _ rfl) hI4n hw
                rw [hip] at hanyA
                rw [bOnlyOf_cons_neg S V hanyA]
                simpa using this
          · cases hw

theorem enumerate_map_snd {α : Type} (l : List α) : ∀ i, (enumerate l i).map (·.2) = l := by
  induction l with
  | nil => intro i; rfl
  | cons x r ih => intro i; simp only [enumerate, List.map_cons, ih]

theorem enumerate_length {α : Type} (l : List α) : ∀ i, (enumerate l i).length = l.length := by
  induction l with
  | nil => intro i; rfl
  | cons x r ih => intro i; simp only [enumerate, List.length_cons, ih]

theorem walk_top (typ : Nat) (sp : Bool) (rk : Nat → Nat) (A B : List Ch) (hyp : WalkHyp S V typ rk A B)
    (w0 : Walk) (ra : List (Nat × Ch)) (rb : List Ch) (count : Nat)
    (hw : walk S V typ sp B ((enumerate A 0).length + B.length + 1) (enumerate A 0) B {} = .ok (w0, ra, rb)) :
    w0.pairs = pairsOf S V A B ∧ w0.aOnly ++ ra.map (·.2.1.id) = aOnlyOf S V A B ∧
    (w0.bOnly ++ (rb.filter fun b => !inPairs w0 b.1.id).map fun b => (b, count)).map (·.1) = bOnlyOf S V A B := by
  have := walk_spec S V typ sp rk A B hyp _ (enumerate A 0) B {} [] [] w0 ra rb (by simp [enumerate_map_snd]) (by simp)
    (by omega) (by intro b _; simp [inPairs]) (by intro b hb; cases hb) hw
  rw [enumerate_map_snd] at this
  refine ⟨by simpa using this.1, by simpa using this.2.1, ?_⟩
  have h3 := this.2.2
  simp only [List.map_nil, List.nil_append] at h3
  rw [List.map_append, List.map_map]
  have : ((fun x : Ch × Nat => x.1) ∘ fun b => (b, count)) = id := by funext x; rfl
  rw [this, List.map_id]
  exact h3

theorem childElems_mapKidHdrs (f : Hdr → Hdr) (its : Items) :
    (its.mapKidHdrs f).childElems = its.childElems.map fun c => (f c.1, c.2) := by
  induction its with
  | nil => rfl
  | elem h k r _ ihr => simp only [Items.mapKidHdrs, Items.childElems, List.map_cons, ihr]
  | text c r ihr => simpa only [Items.mapKidHdrs, Items.childElems] using ihr

theorem texts_mapKidHdrs (f : Hdr → Hdr) (its : Items) : (its.mapKidHdrs f).texts = its.texts := by
  induction its with
  | nil => rfl
  | elem h k r _ ihr => simpa only [Items.mapKidHdrs, Items.texts] using ihr
  | text c r ihr => simp only [Items.mapKidHdrs, Items.texts, ihr]

theorem childElems_insertAt_perm (nh : Hdr) (nk : Items) (its : Items) : ∀ pos,
    (its.insertAt (fun r => .elem nh nk r) pos).childElems.Perm ((nh, nk) :: its.childElems) := by
  induction its with
  | nil => intro pos; cases pos <;> exact List.Perm.refl _
  | elem h k r _ ihr =>
    intro pos
    cases pos with
    | zero => exact List.Perm.refl _
    | succ q =>
      simp only [Items.insertAt, Items.childElems]
      exact ((ihr q).cons (h, k)).trans (List.Perm.swap _ _ _)
  | text c r ihr =>
    intro pos
    cases pos with
    | zero => exact List.Perm.refl _
    | succ q => simp only [Items.insertAt, Items.childElems]; exact ihr q

theorem texts_insertAt (nh : Hdr) (nk : Items) (its : Items) : ∀ pos,
    (its.insertAt (fun r => .elem nh nk r) pos).texts = its.texts := by
  induction its with
  | nil => intro pos; cases pos <;> rfl
  | elem h k r _ ihr =>
    intro pos
    cases pos with
    | zero => rfl
    | succ q => simp only [Items.insertAt, Items.texts]; exact ihr q
  | text c r ihr =>
    intro pos
    cases pos with
    | zero => rfl
    | succ q => simp only [Items.insertAt, Items.texts, ihr q]

/-- what `import_new_items` makes of an element of the new file -/
def imp (pid newFile : Nat) (b : Ch) : Ch := ({ b.1 with parent := .elem pid, files := b.1.files ++ [newFile] }, b.2)

theorem importNew_spec (ha : Hdr) (newFile minVerB : Nat) (l : List (Ch × Nat)) :
    ∀ (idx : Nat) (ka ka2 : Items), importNew S ha newFile minVerB l idx ka = (ka2, none) →
      ka2.childElems.Perm (ka.childElems ++ (l.map (·.1)).map (imp ha.id newFile)) ∧ ka2.texts = ka.texts := by
  induction l with
  | nil => intro idx ka ka2 h; simp only [importNew] at h; cases h; simp
  | cons e rest ih =>
    intro idx ka ka2 h
    obtain ⟨⟨bh, bk⟩, pos⟩ := e
    unfold importNew at h
    split at h
    · cases h
    · rename_i lo hi _
      have := ih _ _ _ h
      refine ⟨this.1.trans ?_, this.2.trans (texts_insertAt _ _ _ _)⟩
      simp only [List.map_cons]
      refine ((childElems_insertAt_perm _ _ _ _).append_right _).trans ?_
      simp only [List.cons_append]
      exact (List.perm_middle (l₁ := ka.childElems)).symm

theorem inj_of_nodup_map {α β : Type} (f : α → β) : ∀ (l : List α), (l.map f).Nodup → ∀ {x y : α}, x ∈ l → y ∈ l → f x = f y → x = y := by
  intro l
  induction l with
  | nil => intro _ x y hx; cases hx
  | cons a r ih =>
    intro hnd x y hx hy hf
    simp only [List.map_cons, List.nodup_cons] at hnd
    rcases List.mem_cons.mp hx with h1 | h1 <;> rcases List.mem_cons.mp hy with h2 | h2
    · rw [h1, h2]
    · exfalso; apply hnd.1; rw [← h1, hf]; exact List.mem_map.mpr ⟨y, h2, rfl⟩
    · exfalso; apply hnd.1; rw [← h2, ← hf]; exact List.mem_map.mpr ⟨x, h1, rfl⟩
    · exact ih hnd.2 h1 h2 hf

theorem child_eq_find (cid : Nat) (its : Items) : its.child cid = its.childElems.find? (fun c => c.1.id == cid) := by
  induction its with
  | nil => rfl
  | elem h k r _ ihr =>
    simp only [Items.child, Items.childElems, List.find?_cons]
    by_cases hc : h.id = cid
    · simp [hc]
    · have : (h.id == cid) = false := by simpa using hc
      simp [hc, ihr, this]
  | text c r ihr => simpa only [Items.child, Items.childElems] using ihr

theorem childElems_setChild (cid : Nat) (h' : Hdr) (k' : Items) (its : Items) (hnd : (its.childElems.map (·.1.id)).Nodup) :
    (setChild cid h' k' its).childElems = its.childElems.map (fun c => if c.1.id = cid then (h', k') else c) := by
  induction its with
  | nil => rfl
  | elem h k r _ ihr =>
    simp only [Items.childElems, List.map_cons, List.nodup_cons] at hnd
    unfold setChild
    by_cases hc : h.id = cid
    · simp only [hc, if_true, Items.childElems, List.map_cons]
      congr 1
      symm
      refine (List.map_congr_left ?_).trans (List.map_id _)
      intro c hcm
      have : c.1.id ≠ cid := by
        intro heq; apply hnd.1; rw [hc, ← heq]; exact List.mem_map.mpr ⟨c, hcm, rfl⟩
      simp [this]
    · simp only [hc, if_false, Items.childElems, List.map_cons, ihr hnd.2]
  | text c r ihr => simp only [setChild, Items.childElems] at hnd ⊢; exact ihr hnd

theorem texts_setChild (cid : Nat) (h' : Hdr) (k' : Items) (its : Items) : (setChild cid h' k' its).texts = its.texts := by
  induction its with
  | nil => rfl
  | elem h k r _ ihr => unfold setChild; split <;> simp only [Items.texts, ihr]
  | text c r ihr => simp only [setChild, Items.texts, ihr]

def effFiles (h : Hdr) (files : List Nat) : List Nat := if h.files.isEmpty then files else h.files

section fold
variable (fver : Nat → Option Nat) (newFile minVerB fuel : Nat) (files : List Nat)

/-- the step of `merge_sub_elements` -/
def foldStep (acc : Items × Option MergeErr) (p : Nat × Ch) : Items × Option MergeErr :=
  match acc.2 with
  | some _ => acc
  | none =>
    match acc.1.child p.1 with
    | none => acc
    | some (ah, ak) =>
      let files' := if ah.files.isEmpty then files else ah.files
      let r := mergeElement S V fver newFile minVerB fuel ah ak files' p.2.2
      let ah' := if r.2.isNone ∧ !ah.files.isEmpty ∧ !ah.files.contains newFile then { ah with files := ah.files ++ [newFile] } else ah
      (setChild p.1 ah' r.1 acc.1, r.2)

/-- the model's child `c` after the merge with the new file's element `b` -/
def upd (c b : Ch) : Ch :=
  let r := mergeElement S V fver newFile minVerB fuel c.1 c.2 (effFiles c.1 files) b.2
  (if r.2.isNone ∧ !c.1.files.isEmpty ∧ !c.1.files.contains newFile then { c.1 with files := c.1.files ++ [newFile] } else c.1, r.1)

theorem upd_id (c b : Ch) : (upd S V fver newFile minVerB fuel files c b).1.id = c.1.id := by
  simp only [upd]; split <;> rfl

def updBy (pairs : List (Nat × Ch)) (c : Ch) : Ch :=
  match pairs.find? (fun p => p.1 == c.1.id) with
  | some p => upd S V fver newFile minVerB fuel files c p.2
  | none => c

theorem updBy_id (pairs : List (Nat × Ch)) (c : Ch) : (updBy S V fver newFile minVerB fuel files pairs c).1.id = c.1.id := by
  unfold updBy; split
  · exact upd_id ..
  · rfl

theorem fold_err (pairs : List (Nat × Ch)) (acc : Items × Option MergeErr) (e : MergeErr) (h : acc.2 = some e) :
    pairs.foldl (foldStep S V fver newFile minVerB fuel files) acc = acc := by
  induction pairs with
  | nil => rfl
  | cons p rest ih =>
    simp only [List.foldl_cons]
    have : foldStep S V fver newFile minVerB fuel files acc p = acc := by unfold foldStep; rw [h]
    rw [this]; exact ih

theorem fold_spec (pairs : List (Nat × Ch)) : ∀ (acc : Items × Option MergeErr), acc.2 = none → (pairs.map (·.1)).Nodup →
    (acc.1.childElems.map (·.1.id)).Nodup → (pairs.foldl (foldStep S V fver newFile minVerB fuel files) acc).2 = none →
    (pairs.foldl (foldStep S V fver newFile minVerB fuel files) acc).1.childElems
        = acc.1.childElems.map (updBy S V fver newFile minVerB fuel files pairs) ∧
    (pairs.foldl (foldStep S V fver newFile minVerB fuel files) acc).1.texts = acc.1.texts ∧
    (∀ p ∈ pairs, ∀ c ∈ acc.1.childElems, c.1.id = p.1 →
      (mergeElement S V fver newFile minVerB fuel c.1 c.2 (effFiles c.1 files) p.2.2).2 = none) := by
  induction pairs with
  | nil =>
    intro acc _ _ _ _
    refine ⟨?_, rfl, by intro p hp; cases hp⟩
    simp only [List.foldl_nil]
    symm; exact (List.map_congr_left (fun c _ => rfl)).trans (List.map_id _)
  | cons p rest ih =>
    intro acc hacc hnp hnd hres
    simp only [List.foldl_cons] at hres ⊢
    simp only [List.map_cons, List.nodup_cons] at hnp
    cases hch : acc.1.child p.1 with
    | none =>
      have hstep : foldStep S V fver newFile minVerB fuel files acc p = acc := by unfold foldStep; rw [hacc, hch]
      rw [hstep] at hres ⊢
      have := ih acc hacc hnp.2 hnd hres
      rw [child_eq_find] at hch
      have hno : ∀ c ∈ acc.1.childElems, ¬ c.1.id = p.1 := by
        intro c hc; simpa using List.find?_eq_none.mp hch c hc
      refine ⟨?_, this.2.1, ?_⟩
      · rw [this.1]
        apply List.map_congr_left
        intro c hc
        have h1 : (p.1 == c.1.id) = false := by simpa using fun h => hno c hc h.symm
        simp only [updBy, List.find?_cons, h1]
      · intro q hq c hc hid
        rcases List.mem_cons.mp hq with h | h
        · subst h; exact absurd hid (hno c hc)
        · exact this.2.2 q h c hc hid
    | some x =>
      obtain ⟨ah, ak⟩ := x
      have hstep : foldStep S V fver newFile minVerB fuel files acc p =
          (setChild p.1 (upd S V fver newFile minVerB fuel files (ah, ak) p.2).1
            (upd S V fver newFile minVerB fuel files (ah, ak) p.2).2 acc.1,
            (mergeElement S V fver newFile minVerB fuel ah ak (effFiles ah files) p.2.2).2) := by
        unfold foldStep; rw [hacc, hch]; rfl
      rw [hstep] at hres ⊢
      have hUid : (upd S V fver newFile minVerB fuel files (ah, ak) p.2).1.id = ah.id := upd_id ..
      generalize hU : upd S V fver newFile minVerB fuel files (ah, ak) p.2 = U at hres hUid ⊢
      have hr2 : (mergeElement S V fver newFile minVerB fuel ah ak (effFiles ah files) p.2.2).2 = none := by
        cases hr : (mergeElement S V fver newFile minVerB fuel ah ak (effFiles ah files) p.2.2).2 with
        | none => rfl
        | some e =>
          have hfe := fold_err S V fver newFile minVerB fuel files rest
            (setChild p.1 U.1 U.2 acc.1, (mergeElement S V fver newFile minVerB fuel ah ak (effFiles ah files) p.2.2).2) e hr
          rw [hfe] at hres
          rw [hr] at hres; cases hres
      rw [child_eq_find] at hch
      have hmem := List.mem_of_find?_eq_some hch
      have hid : ah.id = p.1 := by simpa using List.find?_some hch
      have hce := childElems_setChild p.1 U.1 U.2 acc.1 hnd
      -- the only child with this id is `(ah, ak)`
      have huniq : ∀ c ∈ acc.1.childElems, c.1.id = p.1 → c = (ah, ak) := by
        intro c hc hcid
        exact inj_of_nodup_map _ _ hnd hc hmem (by rw [hcid, hid])
      have hnd' : ((setChild p.1 U.1 U.2 acc.1).childElems.map (·.1.id)).Nodup := by
        rw [hce, List.map_map]
        have : ((fun c : Ch => c.1.id) ∘ fun c => if c.1.id = p.1 then (U.1, U.2) else c) = fun c : Ch => c.1.id := by
          funext c
          simp only [Function.comp]
          split
          · rename_i h; rw [hUid]; exact hid.trans h.symm
          · rfl
        rw [this]; exact hnd
      have := ih (setChild p.1 U.1 U.2 acc.1, (mergeElement S V fver newFile minVerB fuel ah ak (effFiles ah files) p.2.2).2)
        hr2 hnp.2 hnd' hres
      refine ⟨?_, this.2.1.trans (texts_setChild _ _ _ _), ?_⟩
      · rw [this.1, hce, List.map_map]
        apply List.map_congr_left
        intro c hc
        simp only [Function.comp]
        by_cases hcid : c.1.id = p.1
        · have hc' := huniq c hc hcid
          subst hc'
          simp only [hcid, if_true]
          have h1 : (p.1 == ah.id) = true := by simp [hid]
          have h2 : List.find? (fun q : Nat × Ch => q.1 == ah.id) rest = none := by
            apply List.find?_eq_none.mpr
            intro q hq hqe
            apply hnp.1
            have : q.1 = p.1 := by rw [← hid]; simpa using hqe
            rw [← this]; exact List.mem_map.mpr ⟨q, hq, rfl⟩
          simp only [updBy, List.find?_cons, h1, hU]
          rw [if_pos hid]
          have h3 : List.find? (fun q : Nat × Ch => q.1 == U.1.id) rest = none := by rw [hUid]; exact h2
          simp only [h3]
        · have h1 : (p.1 == c.1.id) = false := by simpa using fun h => hcid h.symm
          simp only [hcid, if_false, updBy, List.find?_cons, h1]
      · intro q hq c hc hcid
        rcases List.mem_cons.mp hq with h | h
        · subst h
          have hc' := huniq c hc hcid
          subst hc'
          exact hr2
        · have hne : c.1.id ≠ p.1 := by
            intro heq; apply hnp.1; rw [← heq, hcid]; exact List.mem_map.mpr ⟨q, h, rfl⟩
          apply this.2.2 q h c _ hcid
          rw [hce]
          apply List.mem_map.mpr
          exact ⟨c, hc, by simp [hne]⟩

end fold

theorem pairsOf_ids_sublist (A B : List Ch) : ((pairsOf S V A B).map (·.1)).Sublist (A.map (·.1.id)) := by
  induction A with
  | nil => exact List.Sublist.refl _
  | cons a r ih =>
    cases hf : B.find? (mt S V a) with
    | none => rw [pairsOf_cons_none S V hf]; exact ih.cons _
    | some b => rw [pairsOf_cons_some S V hf]; exact ih.cons₂ _

theorem pairsOf_find (A B : List Ch) (hnd : (A.map (·.1.id)).Nodup) (a : Ch) (ha : a ∈ A) :
    (pairsOf S V A B).find? (fun p => p.1 == a.1.id) = (B.find? (mt S V a)).map fun b => (a.1.id, b) := by
  induction A with
  | nil => cases ha
  | cons x r ih =>
    simp only [List.map_cons, List.nodup_cons] at hnd
    rcases List.mem_cons.mp ha with h | h
    · subst h
      have hrest : (pairsOf S V r B).find? (fun p => p.1 == a.1.id) = none := by
        apply List.find?_eq_none.mpr
        intro q hq hqe
        apply hnd.1
        have h1 : q.1 ∈ (pairsOf S V r B).map (·.1) := List.mem_map.mpr ⟨q, hq, rfl⟩
        have h2 := (pairsOf_ids_sublist S V r B).subset h1
        have : q.1 = a.1.id := by simpa using hqe
        rw [← this]; exact h2
      cases hf : B.find? (mt S V a) with
      | none => rw [pairsOf_cons_none S V hf, hrest]; rfl
      | some b => rw [pairsOf_cons_some S V hf]; simp
    · have hne : ¬ x.1.id = a.1.id := by
        intro heq; apply hnd.1; rw [heq]; exact List.mem_map.mpr ⟨a, h, rfl⟩
      cases hf : B.find? (mt S V x) with
      | none => rw [pairsOf_cons_none S V hf]; exact ih hnd.2 h
      | some b =>
        rw [pairsOf_cons_some S V hf, List.find?_cons]
        have : ((x.1.id, b).1 == a.1.id) = false := by simpa using hne
        rw [this]; exact ih hnd.2 h

theorem pairsOf_find_none (A B : List Ch) (x : Nat) (hx : x ∉ A.map (·.1.id)) :
    (pairsOf S V A B).find? (fun p => p.1 == x) = none := by
  apply List.find?_eq_none.mpr
  intro q hq hqe
  apply hx
  have h1 : q.1 ∈ (pairsOf S V A B).map (·.1) := List.mem_map.mpr ⟨q, hq, rfl⟩
  have : q.1 = x := by simpa using hqe
  rw [← this]; exact (pairsOf_ids_sublist S V A B).subset h1

theorem mem_aOnlyOf (A B : List Ch) (hnd : (A.map (·.1.id)).Nodup) (a : Ch) (ha : a ∈ A) :
    (aOnlyOf S V A B).contains a.1.id = (B.find? (mt S V a)).isNone := by
  cases h : (B.find? (mt S V a)).isNone with
  | true =>
    apply List.contains_iff_mem.mpr
    exact List.mem_map.mpr ⟨a, List.mem_filter.mpr ⟨ha, h⟩, rfl⟩
  | false =>
    apply Bool.eq_false_iff.mpr
    intro hc
    obtain ⟨a', ha', hid⟩ := List.mem_map.mp (List.contains_iff_mem.mp hc)
    have hm := List.mem_filter.mp ha'
    have := inj_of_nodup_map _ _ hnd hm.1 ha hid
    rw [this] at hm; rw [hm.2] at h; cases h

/-- hypotheses on the children `A` of the model's element and the children `B` of the new file's element -/
structure LevelHyp (typ : Nat) (rk : Nat → Nat) (A B : List Ch) : Prop extends WalkHyp S V typ rk A B where
  idA : (A.map (·.1.id)).Nodup
  idBnd : (B.map (·.1.id)).Nodup
  idAB : ∀ a ∈ A, ∀ b ∈ B, a.1.id ≠ b.1.id

section level
variable (fver : Nat → Option Nat) (newFile minVerB fuel : Nat) (files : List Nat)

/-- what the merge makes of the child `a` of the model -/
def updA (B : List Ch) (a : Ch) : Ch :=
  match B.find? (mt S V a) with
  | some b => upd S V fver newFile minVerB fuel files a b
  | none => (if a.1.files.isEmpty then { a.1 with files := files } else a.1, a.2)

theorem merge_level (rk : Nat → Nat) (ha : Hdr) (ka kb kr : Items)
    (hyp : LevelHyp S V ha.ety.typ rk ka.childElems kb.childElems)
    (h : mergeElement S V fver newFile minVerB (fuel + 1) ha ka files kb = (kr, none)) :
    kr.texts = ka.texts ∧
    kr.childElems.Perm (ka.childElems.map (updA S V fver newFile minVerB fuel files kb.childElems)
      ++ (bOnlyOf S V ka.childElems kb.childElems).map (imp ha.id newFile)) ∧
    (∀ a ∈ ka.childElems, ∀ b, kb.childElems.find? (mt S V a) = some b →
      (mergeElement S V fver newFile minVerB fuel a.1 a.2 (effFiles a.1 files) b.2).2 = none) := by
  unfold mergeElement at h
  dsimp only at h
  split at h
  · cases h
  · rename_i w0 restA restB hw
    have hwt := walk_top S V _ _ rk _ _ hyp.toWalkHyp w0 restA restB ka.length hw
    obtain ⟨hp, hao, hbo⟩ := hwt
    rw [hp, hao] at h
    split at h
    · cases h
    · rename_i ka2 himp
      have hI := importNew_spec S ha newFile minVerB _ 0 _ ka2 himp
      rw [hbo, childElems_mapKidHdrs, texts_mapKidHdrs] at hI
      obtain ⟨hperm, htx⟩ := hI
      change (List.foldl (foldStep S V fver newFile minVerB fuel files) (ka2, none) (pairsOf S V ka.childElems kb.childElems)) = (kr, none) at h
      have hidA := hyp.idA
      have hrestr : ∀ a ∈ ka.childElems,
          ((if (aOnlyOf S V ka.childElems kb.childElems).contains a.1.id = true ∧ a.1.files.isEmpty = true then
              { a.1 with files := files } else a.1, a.2) : Ch) =
            match kb.childElems.find? (mt S V a) with
            | some _ => a
            | none => (if a.1.files.isEmpty then { a.1 with files := files } else a.1, a.2) := by
        intro a ha
        rw [mem_aOnlyOf S V _ _ hidA a ha]
        cases kb.childElems.find? (mt S V a) <;> simp
      have hidsEq : (List.map (fun c : Ch =>
          ((if (aOnlyOf S V ka.childElems kb.childElems).contains c.1.id = true ∧ c.1.files.isEmpty = true then
              { c.1 with files := files } else c.1, c.2) : Ch)) ka.childElems ++
            List.map (imp ha.id newFile) (bOnlyOf S V ka.childElems kb.childElems)).map (·.1.id)
          = ka.childElems.map (·.1.id) ++ (bOnlyOf S V ka.childElems kb.childElems).map (·.1.id) := by
        rw [List.map_append, List.map_map, List.map_map]
        congr 1
        apply List.map_congr_left
        intro c _
        simp only [Function.comp]
        split <;> rfl
      have hbsub : ((bOnlyOf S V ka.childElems kb.childElems).map (·.1.id)).Sublist (kb.childElems.map (·.1.id)) :=
        (List.filter_sublist).map _
      have hnd2 : (ka2.childElems.map (·.1.id)).Nodup := by
        rw [(hperm.map _).nodup_iff, hidsEq]
        apply List.nodup_append.mpr
        refine ⟨hidA, hbsub.nodup hyp.idBnd, ?_⟩
        intro x hx y hy
        obtain ⟨a, ha, rfl⟩ := List.mem_map.mp hx
        obtain ⟨b, hb, rfl⟩ := List.mem_map.mp hy
        exact hyp.idAB a ha b (List.mem_filter.mp hb).1
      have hndP : ((pairsOf S V ka.childElems kb.childElems).map (·.1)).Nodup := (pairsOf_ids_sublist S V _ _).nodup hidA
      have hfs := fold_spec S V fver newFile minVerB fuel files _ (ka2, none) rfl hndP hnd2 (by rw [h])
      rw [h] at hfs
      obtain ⟨hce, htx2, hsub⟩ := hfs
      refine ⟨htx2.trans htx, ?_, ?_⟩
      · rw [hce]
        refine (hperm.map _).trans ?_
        rw [List.map_append, List.map_map, List.map_map]
        apply List.Perm.of_eq
        congr 1
        · apply List.map_congr_left
          intro a ha
          simp only [Function.comp]
          rw [hrestr a ha]
          unfold updA
          cases hf : kb.childElems.find? (mt S V a) with
          | some b =>
            simp only [updBy, pairsOf_find S V _ _ hidA a ha, hf, Option.map_some]
          | none =>
            simp only [updBy]
            have : (if a.1.files.isEmpty then { a.1 with files := files } else a.1).id = a.1.id := by split <;> rfl
            rw [this, pairsOf_find S V _ _ hidA a ha, hf]
            rfl
        · apply List.map_congr_left
          intro b hb
          simp only [Function.comp]
          have : (imp ha.id newFile b).1.id ∉ ka.childElems.map (·.1.id) := by
            intro hm
            obtain ⟨a, ha, hid⟩ := List.mem_map.mp hm
            exact hyp.idAB a ha b (List.mem_filter.mp hb).1 hid
          simp only [updBy, pairsOf_find_none S V _ _ _ this]
      · intro a ha b hf
        have hfind := pairsOf_find S V _ kb.childElems hidA a ha
        rw [hf] at hfind
        have hpm := List.mem_of_find?_eq_some hfind
        have hac : a ∈ ka2.childElems := by
          apply hperm.mem_iff.mpr
          apply List.mem_append_left
          apply List.mem_map.mpr
          refine ⟨a, ha, ?_⟩
          rw [hrestr a ha, hf]
        exact hsub _ hpm a hac rfl

end level

/-! ### the specification: the union of two keyed forests, and the hereditary hypotheses -/

/-- KEYED and ORDERED, at every pair of elements that the merge visits: `rk typ name` is the specification rank of
the sub-element name `name` under an element of type `typ` -/
inductive Compat (rk : Nat → Nat → Nat) : Hdr → Items → Items → Prop
  | mk (ha : Hdr) (ka kb : Items) :
      LevelHyp S V ha.ety.typ (rk ha.ety.typ) ka.childElems kb.childElems →
      (∀ a ∈ ka.childElems, ∀ b ∈ kb.childElems, mt S V a b = true → Compat rk a.1 a.2 b.2) →
      Compat rk ha ka kb

/-- an element that is only in the model and has no file set of its own gets the file set it inherited so far -/
def restrictTo (files : List Nat) (h : Hdr) : Hdr := if h.files.isEmpty then { h with files := files } else h

/-- an element that is in both and has a file set of its own is now also in the new file -/
def addFile (newFile : Nat) (h : Hdr) : Hdr :=
  if !h.files.isEmpty ∧ !h.files.contains newFile then { h with files := h.files ++ [newFile] } else h

mutual
/-- `IsUnion newFile pid files ka kb kr`: the content `kr` is the union of the content `ka` of the model's element `pid`
(inherited file set `files`) and the content `kb` of the new file's element — up to the order of the siblings -/
inductive IsUnion (newFile : Nat) : Nat → List Nat → Items → Items → Items → Prop
  | mk (pid : Nat) (files : List Nat) (ka kb kr : Items) (rs : List Ch) :
      kr.texts = ka.texts →
      kr.childElems.Perm (rs ++ (bOnlyOf S V ka.childElems kb.childElems).map (imp pid newFile)) →
      ChildrenU newFile files kb.childElems ka.childElems rs →
      IsUnion newFile pid files ka kb kr
/-- the model's children one by one: kept (with the inherited file set made explicit) if the new file has no partner,
otherwise united with the partner -/
inductive ChildrenU (newFile : Nat) : List Nat → List Ch → List Ch → List Ch → Prop
  | nil (files : List Nat) (B : List Ch) : ChildrenU newFile files B [] []
  | aOnly (files : List Nat) (B : List Ch) (a : Ch) (as rs : List Ch) :
      B.find? (mt S V a) = none → ChildrenU newFile files B as rs →
      ChildrenU newFile files B (a :: as) ((restrictTo files a.1, a.2) :: rs)
  | pair (files : List Nat) (B : List Ch) (a b : Ch) (r : Items) (as rs : List Ch) :
      B.find? (mt S V a) = some b → IsUnion newFile a.1.id (effFiles a.1 files) a.2 b.2 r →
      ChildrenU newFile files B as rs →
      ChildrenU newFile files B (a :: as) ((addFile newFile a.1, r) :: rs)
end

/-- **Theorem 1 (tree level)**: an accepted merge of keyed, rank-ordered contents yields their union, content and file
attribution, at every depth -/
theorem mergeElement_isUnion (rk : Nat → Nat → Nat) (fver : Nat → Option Nat) (newFile minVerB : Nat) :
    ∀ (fuel : Nat) (ha : Hdr) (ka : Items) (files : List Nat) (kb kr : Items),
      Compat S V rk ha ka kb →
      mergeElement S V fver newFile minVerB fuel ha ka files kb = (kr, none) →
      IsUnion S V newFile ha.id files ka kb kr := by
  intro fuel
  induction fuel with
  | zero => intro ha ka files kb kr _ h; simp only [mergeElement] at h; cases h
  | succ fuel ih =>
    intro ha ka files kb kr hc h
    cases hc with
    | mk _ _ _ hlev hrec =>
      obtain ⟨htx, hperm, hsub⟩ := merge_level S V fver newFile minVerB fuel files (rk ha.ety.typ) ha ka kb kr hlev h
      refine IsUnion.mk ha.id files ka kb kr _ htx hperm ?_
      -- the children of the model, one by one
      have : ∀ (l : List Ch), (∀ a ∈ l, a ∈ ka.childElems) →
          ChildrenU S V newFile files kb.childElems l (l.map (updA S V fver newFile minVerB fuel files kb.childElems)) := by
        intro l
        induction l with
        | nil => intro _; exact ChildrenU.nil files _
        | cons a r ihl =>
          intro hl
          have ha := hl a (List.mem_cons_self ..)
          have hr := ihl (fun x hx => hl x (List.mem_cons_of_mem _ hx))
          rw [List.map_cons]
          cases hf : kb.childElems.find? (mt S V a) with
          | none =>
            have : updA S V fver newFile minVerB fuel files kb.childElems a = (restrictTo files a.1, a.2) := by
              simp only [updA, hf, restrictTo]
            rw [this]
            exact ChildrenU.aOnly files _ a r _ hf hr
          | some b =>
            have hok := hsub a ha b hf
            have hu : updA S V fver newFile minVerB fuel files kb.childElems a =
                (addFile newFile a.1, (mergeElement S V fver newFile minVerB fuel a.1 a.2 (effFiles a.1 files) b.2).1) := by
              simp only [updA, hf, upd, hok, addFile, Option.isNone_none, true_and]
            rw [hu]
            refine ChildrenU.pair files _ a b _ r _ hf ?_ hr
            apply ih a.1 a.2 (effFiles a.1 files) b.2 _ (hrec a ha b (List.mem_of_find?_eq_some hf) (List.find?_some hf))
            rw [← hok]
      exact this ka.childElems (fun a ha => ha)

/-! ### a behaviour outside the four known findings: character data (and attributes) of paired elements are not compared -/

namespace Ex
def hR : Hdr := { id := 0, name := 100, ety := ⟨0, 0⟩, parent := .model 0, attrs := [], files := [1], comment := none }
def hB (id : Nat) (p : PRef) : Hdr := { id := id, name := 102, ety := ⟨2, 2⟩, parent := p, attrs := [], files := [], comment := none }
/-- the model: `<R><B>x</B></R>` -/
def ka : Items := .elem (hB 1 (.elem 0)) (.text (.str [120]) .nil) .nil
/-- the new file: `<R><B>y</B></R>` -/
def kb : Items := .elem (hB 11 (.elem 10)) (.text (.str [121]) .nil) .nil
def fver : Nat → Option Nat := fun _ => some 1
def res := mergeElement toySpec toyEnv fver 2 1 3 hR ka [1] kb

/-- the load is accepted, and the merged model keeps `x`: the file `2`, serialized from the merged model, no longer has
the content `y` it has when loaded on its own -/
example : res.2 = none ∧ res.1.childElems.map (fun c => (c.1.id, c.1.files, c.2.texts)) = [(1, [], [.str [120]])] := by decide
end Ex

/-! ### non-vacuity: the hypotheses hold for `<R><A/></R>` (model) and `<R><B/></R>` (new file), the merge is accepted -/
namespace Ex2
def hA (id : Nat) (p : PRef) : Hdr := { id := id, name := 101, ety := ⟨1, 1⟩, parent := p, attrs := [], files := [], comment := none }
def ka : Items := .elem (hA 1 (.elem 0)) .nil .nil
def kb : Items := .elem (Ex.hB 11 (.elem 10)) .nil .nil
def res := mergeElement toySpec toyEnv Ex.fver 2 1 3 Ex.hR ka [1] kb

example : res.2 = none ∧ res.1.childElems.map (fun c => (c.1.id, c.1.name, c.1.files)) = [(1, 101, [1]), (11, 102, [2])] := by decide

theorem compat : Compat toySpec toyEnv (fun _ n => n) Ex.hR ka kb := by
  have hm : mt toySpec toyEnv (hA 1 (.elem 0), .nil) (Ex.hB 11 (.elem 10), .nil) = false := by decide
  refine Compat.mk _ _ _ ?_ ?_
  · refine { idB := ?_, k1 := ?_, k2 := ?_, rank := ?_, inj := ?_, sortA := ?_, sortB := ?_, idA := ?_, idBnd := ?_, idAB := ?_ }
    · intro b hb b' hb' _
      simp only [kb, Items.childElems, List.mem_singleton] at hb hb'; rw [hb, hb']
    · intro a ha b hb b' hb' _ _
      simp only [kb, Items.childElems, List.mem_singleton] at hb hb'; rw [hb, hb']
    · simp [ka, Items.childElems]
    · intro a ha b hb _ ea ia eb ib h1 h2
      simp only [ka, kb, Items.childElems, List.mem_singleton] at ha hb
      subst ha; subst hb
      have e1 : toySpec.findSub Ex.hR.ety.typ 101 0xFFFFFFFF = some (⟨1, 1⟩, [0]) := by decide
      have e2 : toySpec.findSub Ex.hR.ety.typ 102 0xFFFFFFFF = some (⟨2, 2⟩, [1]) := by decide
      simp only [hA, Ex.hB] at h1 h2
      rw [e1] at h1; rw [e2] at h2
      cases h1; cases h2
      decide
    · intro a ha b hb
      simp only [ka, kb, Items.childElems, List.mem_singleton] at ha hb
      subst ha; subst hb
      decide
    · simp [ka, Items.childElems]
    · simp [kb, Items.childElems]
    · decide
    · decide
    · intro a ha b hb
      simp only [ka, kb, Items.childElems, List.mem_singleton] at ha hb
      subst ha; subst hb
      decide
  · intro a ha b hb hmt
    simp only [ka, kb, Items.childElems, List.mem_singleton] at ha hb
    subst ha; subst hb
    rw [hm] at hmt; cases hmt

example : IsUnion toySpec toyEnv 2 0 [1] ka kb res.1 :=
  mergeElement_isUnion toySpec toyEnv _ Ex.fver 2 1 3 Ex.hR ka [1] kb res.1 compat (by
    have : res.2 = none := by decide
    rw [← this]; rfl)
end Ex2

theorem updA_id (fver : Nat → Option Nat) (newFile minVerB fuel : Nat) (files : List Nat) (B : List Ch) (a : Ch) :
    (updA S V fver newFile minVerB fuel files B a).1.id = a.1.id := by
  unfold updA
  split
  · exact upd_id ..
  · dsimp only; split <;> rfl

/-- **exactly once** (one level): the children of the merged element are the children of the model's element, each once,
and the partnerless children of the new file's element, each once -/
theorem merge_level_once (fver : Nat → Option Nat) (newFile minVerB fuel : Nat) (files : List Nat)
    (rk : Nat → Nat) (ha : Hdr) (ka kb kr : Items)
    (hyp : LevelHyp S V ha.ety.typ rk ka.childElems kb.childElems)
    (h : mergeElement S V fver newFile minVerB (fuel + 1) ha ka files kb = (kr, none)) :
    (kr.childElems.map (·.1.id)).Perm
      (ka.childElems.map (·.1.id) ++ (bOnlyOf S V ka.childElems kb.childElems).map (·.1.id)) ∧
    (kr.childElems.map (·.1.id)).Nodup := by
  obtain ⟨_, hperm, _⟩ := merge_level S V fver newFile minVerB fuel files rk ha ka kb kr hyp h
  have hp : (kr.childElems.map (·.1.id)).Perm
      (ka.childElems.map (·.1.id) ++ (bOnlyOf S V ka.childElems kb.childElems).map (·.1.id)) := by
    refine (hperm.map _).trans (List.Perm.of_eq ?_)
    rw [List.map_append, List.map_map, List.map_map]
    congr 1
    apply List.map_congr_left
    intro a _
    exact updA_id S V fver newFile minVerB fuel files _ a
  refine ⟨hp, hp.nodup_iff.mpr ?_⟩
  apply List.nodup_append.mpr
  refine ⟨hyp.idA, ((List.filter_sublist).map _).nodup hyp.idBnd, ?_⟩
  intro x hx y hy
  obtain ⟨a, ha, rfl⟩ := List.mem_map.mp hx
  obtain ⟨b, hb, rfl⟩ := List.mem_map.mp hy
  exact hyp.idAB a ha b (List.mem_filter.mp hb).1

/-- **Theorem 1 lifted to `load_buffer`**: an accepted merging load makes the content of the root element the union of the
model's content and the parsed content, up to the renumbering of the new element ids -/
theorem opLoad_isUnion (nmAutosar : Nat) (w : World) (k : Nat) (name : Bytes) (strict : Bool) (buf : Bytes)
    (m : Model) (h : Hdr) (kids : Items)
    (hm : w.models[k]? = some m) (hne : m.files.isEmpty = false)
    (hp : (runParser S V strict buf w.nextId nmAutosar).1 = .ok (h, kids))
    (rk : Nat → Nat → Nat) (hc : Compat S V rk m.rootHdr m.rootKids kids)
    (w' : World) (s : String) (hl : opLoad S V nmAutosar w k name strict buf = (w', .ok s)) :
    ∃ kr, IsUnion S V w.nextFile m.rootHdr.id m.rootHdr.files m.rootKids kids kr ∧
      ∃ m', w'.models[k]? = some m' ∧ ∃ base order, m'.rootKids = renumItems base order kr := by
  unfold opLoad at hl
  rw [hm] at hl
  dsimp only at hl
  split at hl
  · cases hl
  · rw [hp] at hl
    dsimp only at hl
    rw [hne] at hl
    simp only [Bool.false_eq_true, if_false] at hl
    split at hl
    · cases hl
    · split at hl
      · cases hl
      · rename_i hr2
        refine ⟨_, mergeElement_isUnion S V rk _ _ _ _ _ _ _ _ _ hc (Prod.ext rfl hr2), ?_⟩
        have hw := (Prod.mk.inj hl).1
        subst hw
        have hk : k < w.models.length := (List.getElem?_eq_some_iff.mp hm).1
        exact ⟨_, List.getElem?_set_self hk, _, _, rfl⟩

end
end AV.W.MU
