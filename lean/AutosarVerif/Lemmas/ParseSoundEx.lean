/-
C08, "no holes": non-vacuity and findings for `Lemmas/ParseSound.lean` on the toy specification (documents written by the
serializer model, loaded by the parser model; checked by evaluation, `decide +kernel`).
-/
import AutosarVerif.Lemmas.ParseSound
import AutosarVerif.Lemmas.SerParseEx

namespace AV.ParseSound.Examples
open AV AV.W AV.Lex AV.PM AV.SerLex AV.SerParse AV.SerParse.Examples

/-- write `<R …>kids</R>` followed by `trail`, load it: accepted (with the content of the root) or the error kind -/
def loadDoc (S : Spec) (root : Hdr) (kids : Items) (trail : Bytes) (strict : Bool) : Option (Except Nat Items) :=
  match serForest S toyEnv none 0 false (.elem root kids .nil) with
  | some b =>
    match (runParser S toyEnv strict (xmlDecl none ++ b ++ trail) 10 100).1 with
    | .ok (_, k) => some (.ok k)
    | .error e => some (.error e.kind)
  | none => none

def elA (attrs : List (Nat × CDv)) (k : Items) : Items := .elem ⟨2, 101, ⟨1, 1⟩, .elem 1, attrs, [], none⟩ k .nil
def elB (k : Items) (r : Items) : Items := .elem ⟨3, 102, ⟨2, 2⟩, .elem 1, [], [], none⟩ k r

/-! ### data after the root element -/

/-- white space after the root element is fine -/
example : (match loadDoc toySpec rootH0 (elB .nil .nil) [10, 32, 10] true with
    | some (.ok _) => true | _ => false) = true := by decide +kernel
/-- a comment after the root element: `AdditionalDataError` (25) in strict mode (the model's `verify_end_of_input` accepts
only the end of the file) -/
example : (match loadDoc toySpec rootH0 (elB .nil .nil) [10, 60, 33, 45, 45, 120, 45, 45, 62] true with
    | some (.error 25) => true | _ => false) = true := by decide +kernel
/-- text after the root element -/
example : (match loadDoc toySpec rootH0 (elB .nil .nil) [120] true with
    | some (.error 25) => true | _ => false) = true := by decide +kernel
/-- an element after the root element -/
example : (match loadDoc toySpec rootH0 (elB .nil .nil) [60, 66, 47, 62] true with
    | some (.error 25) => true | _ => false) = true := by decide +kernel
/-- … which lenient mode accepts with a warning -/
example : (match loadDoc toySpec rootH0 (elB .nil .nil) [60, 66, 47, 62] false with
    | some (.ok _) => true | _ => false) = true := by decide +kernel

/-! ### the checks of `TreeValid` reject (strict mode) -/

/-- a repeated single-occurrence element (`<A>` has multiplicity 0..1): `TooManySubElements` (10) -/
example : (match loadDoc toySpec rootH0 (.elem ⟨2, 101, ⟨1, 1⟩, .elem 1, [], [], none⟩ .nil (elA [] .nil)) [] true with
    | some (.error 10) => true | _ => false) = true := by decide +kernel

/-- the toy specification in which `<A>` is the SHORT-NAME (a string) of the root's type -/
def snSpec : Spec := { toySpec with nmShortName := 101, cdataOf := fun t => if t = 1 ∨ t = 2 then some 1 else none }

/-- a missing SHORT-NAME: `RequiredSubelementMissing` (11) -/
example : (match loadDoc snSpec rootH0 (elB .nil .nil) [] true with
    | some (.error 11) => true | _ => false) = true := by decide +kernel

/-! ### findings: constraints that strict loading does NOT enforce -/

/-- **Finding (an EMPTY SHORT-NAME is accepted)**: only the presence of the SHORT-NAME element is checked — `<A/>`
(no character data at all) satisfies strict loading; the element then has no item name and is not registered -/
example : (match loadDoc snSpec rootH0 (elA [] .nil) [] true with
    | some (.ok (.elem _ .nil .nil)) => true | _ => false) = true := by decide +kernel

/-- **Finding (a repeated attribute is accepted)**: `<A T="x" T="y"/>` is loaded with BOTH attributes -/
example : (match loadDoc toySpec rootH0 (elA [(5, .str [120]), (5, .str [121])] .nil) [] true with
    | some (.ok (.elem h .nil .nil)) => h.attrs.length == 2 | _ => false) = true := by decide +kernel

/-- **Finding (the order of a sequence is not checked)**: `<B/><A/>` is accepted although the root's type is the
sequence `A`, `B` -/
example : (match loadDoc toySpec rootH0 (elB .nil (elA [] .nil)) [] true with
    | some (.ok (.elem _ .nil (.elem _ .nil .nil))) => true | _ => false) = true := by decide +kernel

/-- the toy specification in which the root's attribute `xmlns` exists in version V1 only -/
def rootAttrSpec : Spec := { toySpec with verInfo := fun i => if i = 0 ∨ i = 2 ∨ i = 3 then 1 else 3 }
def schemaV2 : Bytes := nsAutosar ++ [32, 86, 50, 46, 120, 115, 100]   -- "… V2.xsd"
def rootHV2 : Hdr := { rootH0 with attrs := [(10, .str nsAutosar), (11, .str nsXsi), (12, .str schemaV2)] }

/-- **Finding (the root's attributes are checked against 4.0.1, not against the file's version)**: a V2 file whose root
carries an attribute that exists in V1 only is accepted in strict mode (`TreeValid.attrs` is stated for version `1`) -/
example : (match loadDoc rootAttrSpec rootHV2 (elB .nil .nil) [] true with
    | some (.ok _) => true | _ => false) = true := by decide +kernel
example : (rootAttrSpec.findAttr 0 10).map (·.2.2) = some 1 := by decide

end AV.ParseSound.Examples
