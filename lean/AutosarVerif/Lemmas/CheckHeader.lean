/-
C02, "the header check accepts every buffer that loading accepts": `checkBuffer` (= `check_buffer`, a LENIENT run of
`check_arxml_header`) against `runParser` (= what `load_buffer` runs, strict or lenient).

* `Ind m` — the computation `m` neither reads nor writes `nextId` / `standalone` (the two fields in which the states of the two
  runs differ: `runParser` starts with `nextId := nid` and stores `standalone`, `checkBuffer` starts with `nextId := 0` and
  drops `standalone`).  Closed under `bind'`, holds of everything in the common prefix (`nextTok`, `skipComments`,
  `parseAttrs`, `parseFileHeader`).
* `checkHeader_of_parseArxml`: in the same mode, from states that differ in these two fields only, a successful `parseArxml`
  gives a successful `checkHeader`.
* `runParser_lenient_of_strict`: a successful strict run is a successful lenient run (lock-step, `LM_parseArxml`).
* `checkBuffer_of_load`: both together.
* the converse fails (good header, broken body): `decide +kernel` examples on the toy specification.
* totality: `checkHeader` never reports the budget error `kFuel`, and its result does not depend on the budget once the budget
  exceeds the tokenizer measure (`checkHeader_fuel_indep`, `checkBuffer_fuel_indep`).
-/
import AutosarVerif.Lemmas.Parser
import AutosarVerif.Lemmas.ParserTotal
import AutosarVerif.Model.ToyEnv

namespace AV.PM
open AV.W

/-! ### computations that ignore `nextId` and `standalone` -/

/-- overwrite the two fields the header prefix does not look at -/
def adj (n : Nat) (sa : Option Bool) (s : PState) : PState := { s with nextId := n, standalone := sa }

theorem adj_adj (n n' : Nat) (sa sa' : Option Bool) (s : PState) : adj n sa (adj n' sa' s) = adj n sa s := rfl

/-- `m` neither reads nor writes `nextId` / `standalone` -/
def Ind {α : Type} (m : P α) : Prop := ∀ n sa b s, m b (adj n sa s) = ((m b s).1, adj n sa (m b s).2)

theorem I_pure {α : Type} (a : α) : Ind (pure' a) := fun _ _ _ _ => rfl
theorem I_hard {α : Type} (k : Nat) : Ind (hardErr k : P α) := fun _ _ _ _ => rfl
theorem I_opt (k : Nat) : Ind (optErr k) := by
  intro n sa b s; cases b <;> rfl

theorem I_bind {α β : Type} {m : P α} {k : α → P β} (hm : Ind m) (hk : ∀ a, Ind (k a)) : Ind (bind' m k) := by
  intro n sa b s
  simp only [bind', hm n sa b s]
  cases hr : m b s with
  | mk r s1 =>
    cases r with
    | error e => rfl
    | ok a => exact hk a n sa b s1

theorem I_ite {α : Type} {c : Prop} [Decidable c] {a b : P α} (ha : Ind a) (hb : Ind b) : Ind (if c then a else b) := by
  split <;> assumption

theorem I_modS (f : PState → PState) (hf : ∀ n sa s, f (adj n sa s) = adj n sa (f s)) : Ind (modS f) := by
  intro n sa b s
  simp only [modS, hf]

/-- reading the state is fine when the continuation does not look at the two fields -/
theorem I_getS {α : Type} (k : PState → P α) (hk : ∀ s, Ind (k s)) (heq : ∀ n sa s, k (adj n sa s) = k s) :
    Ind (bind' getS k) := by
  intro n sa b s
  simp only [bind', getS, heq]
  exact hk s n sa b s

theorem I_nextTok (setLine : Bool) : Ind (nextTok setLine) := by
  intro n sa b s
  simp only [nextTok, adj]
  split <;> rfl

theorem I_checkVersion (mask kind : Nat) : Ind (checkVersion mask kind) := by
  unfold checkVersion
  refine I_bind (I_modS _ fun _ _ _ => rfl) fun _ => I_getS _ (fun s => I_ite (I_opt _) (I_pure _)) (fun _ _ _ => rfl)

theorem I_unescapeP (fuel : Nat) (s : Bytes) : Ind (unescapeP fuel s) := by
  fun_induction unescapeP fuel s
  all_goals first
    | exact I_pure _
    | (rename_i ih; exact I_bind ih fun _ => I_pure _)
    | (rename_i ih; exact I_bind (I_opt _) fun _ => I_bind ih fun _ => I_pure _)

theorem I_maxLen (maxLen : Option Nat) (n : Nat) : Ind (match maxLen with
    | some m => if n > m then optErr kStringValueTooLong else pure' ()
    | none => pure' ()) := by
  cases maxLen with
  | none => exact I_pure _
  | some m => exact I_ite (I_opt _) (I_pure _)

theorem I_parseCD (V : Env) (input : Bytes) (spec : CSpec) : Ind (parseCD V input spec) := by
  unfold parseCD
  dsimp only
  split
  · split
    · exact I_hard _
    · split
      · exact I_hard _
      · exact I_bind (I_checkVersion _ _) fun _ => I_pure _
  · exact I_bind (I_ite (I_unescapeP _ _) (I_pure _)) fun checked => I_bind (I_maxLen _ _) fun _ =>
      I_bind (I_ite (I_pure _) (I_opt _)) fun _ => I_ite (I_pure _) (I_bind (I_opt _) fun _ => I_hard _)
  · exact I_bind (I_maxLen _ _) fun _ => I_ite (I_bind (I_unescapeP _ _) fun _ => I_pure _) (I_bind (I_opt _) fun _ => I_hard _)
  · refine I_ite (I_hard _) ?_
    split
    · exact I_pure _
    · exact I_bind (I_opt _) fun _ => I_pure _
  · refine I_ite (I_hard _) ?_
    split
    · exact I_pure _
    · exact I_bind (I_opt _) fun _ => I_pure _

section
variable (S : Spec) (V : Env)

theorem I_attrLoop (typ : Nat) (fuel : Nat) : ∀ (rem : Bytes) (acc : List (Nat × CDv)), Ind (attrLoop S V typ fuel rem acc) := by
  induction fuel with
  | zero => intro rem acc; unfold attrLoop; exact I_pure _
  | succ n ih =>
    intro rem acc
    unfold attrLoop
    split
    · exact I_pure _
    · dsimp only
      refine I_bind ?_ fun acc' => I_ite (I_pure _) (ih _ _)
      split
      · split
        · exact I_bind (I_checkVersion _ _) fun _ => I_bind (I_parseCD V _ _) fun _ => I_pure _
        · exact I_bind (I_opt _) fun _ => I_pure _
      · exact I_bind (I_opt _) fun _ => I_pure _

theorem I_required (attrs : List (Nat × CDv)) (l : List (Nat × Nat × Bool × Nat)) : ∀ m : P Unit, Ind m →
    Ind (l.foldl (fun (m : P Unit) (a : Nat × Nat × Bool × Nat) =>
      bind' m fun _ => if a.2.2.1 ∧ !attrs.any (·.1 == a.1) then optErr kRequiredAttributeMissing else pure' ()) m) := by
  induction l with
  | nil => intro m hm; exact hm
  | cons a r ih =>
    intro m hm
    simp only [List.foldl_cons]
    exact ih _ (I_bind hm fun _ => I_ite (I_opt _) (I_pure _))

theorem I_parseAttrs (typ : Nat) (text : Bytes) : Ind (parseAttrs S V typ text) := by
  unfold parseAttrs
  exact I_bind (I_attrLoop S V typ _ _ _) fun _ => I_bind (I_ite (I_opt _) (I_pure _)) fun _ =>
    I_bind (I_required _ _ _ (I_pure _)) fun _ => I_pure _

theorem I_parseFileVersion (schema : Bytes) : Ind (parseFileVersion V schema) := by
  unfold parseFileVersion
  dsimp only
  refine I_ite (I_hard _) ?_
  split
  · exact I_pure _
  · have hfix : ∀ g : Bytes, Ind (bind' (optErr kInvalidAutosarVersion) fun _ => pure' ((V.verOfFile g).getD 0)) :=
      fun g => I_bind (I_opt _) fun _ => I_pure _
    exact I_ite (hfix _) (I_ite (hfix _) (I_ite (hfix _) (I_bind (I_opt _) fun _ => I_pure _)))

theorem I_parseFileHeader (attrs : List (Nat × CDv)) : Ind (parseFileHeader V attrs) := by
  unfold parseFileHeader
  dsimp only
  split
  · exact I_ite (I_hard _) (I_bind (I_parseFileVersion V _) fun _ => I_modS _ fun _ _ _ => rfl)
  · exact I_hard _

theorem I_skipComments (fuel : Nat) : ∀ (c : Option Bytes) (ev : Lex.Event), Ind (skipComments fuel c ev) := by
  induction fuel with
  | zero =>
    intro c ev
    cases ev <;> first | exact I_hard _ | exact I_pure _
  | succ n ih =>
    intro c ev
    cases ev with
    | comment b =>
      unfold skipComments
      exact I_ite (I_bind (I_nextTok _) fun _ => ih _ _) (I_hard _)
    | header _ => exact I_pure _
    | beginElement _ _ => exact I_pure _
    | endElement _ => exact I_pure _
    | characters _ => exact I_pure _
    | eof => exact I_pure _

end

/-! ### peeling a successful `bind'` -/

theorem bind_okCH {α β : Type} {m : P α} {k : α → P β} {b : Bool} {s st : PState} {r : β}
    (h : bind' m k b s = (.ok r, st)) : ∃ a s1, m b s = (.ok a, s1) ∧ k a b s1 = (.ok r, st) := by
  simp only [bind'] at h
  cases hr : m b s with
  | mk x s1 =>
    rw [hr] at h
    cases x with
    | error e => cases h
    | ok a => exact ⟨a, s1, rfl, h⟩

theorem hard_ne_okCH {α : Type} {k : Nat} {b : Bool} {s st : PState} {r : α} (h : (hardErr k : P α) b s = (.ok r, st)) : False := by
  simp only [hardErr] at h
  cases h

section
variable (S : Spec) (V : Env)

/-- in the same mode, from states that agree up to `nextId` / `standalone`: loading succeeds ⇒ the header check succeeds -/
theorem checkHeader_of_parseArxml (fuel nmAutosar : Nat) (b : Bool) (s st : PState) (r : Hdr × Items) (n : Nat) (sa : Option Bool)
    (h : parseArxml S V fuel nmAutosar b s = (.ok r, st)) :
    ∃ st', checkHeader S V fuel nmAutosar b (adj n sa s) = (.ok (), st') := by
  unfold parseArxml at h
  obtain ⟨ev0, s1, h0, h⟩ := bind_okCH h
  cases ev0 with
  | header sa0 =>
    dsimp only at h
    obtain ⟨_, s1', hm, h⟩ := bind_okCH h
    have hs1' : s1' = adj s1.nextId sa0 s1 := by
      simp only [modS] at hm
      cases hm; rfl
    subst hs1'
    obtain ⟨ev1, s2, h1, h⟩ := bind_okCH h
    obtain ⟨⟨comment, ev⟩, s3, h2, h⟩ := bind_okCH h
    dsimp only at h
    cases ev with
    | beginElement nm attrText =>
      dsimp only at h
      by_cases hnm : V.elemOf nm = some nmAutosar
      · rw [if_pos hnm] at h
        obtain ⟨attrs, s4, h3, h⟩ := bind_okCH h
        obtain ⟨_, s5, h4, _⟩ := bind_okCH h
        -- replay the prefix from the adjusted state
        have e0 := I_nextTok true n sa b s
        rw [h0] at e0
        have e1 := I_nextTok true n sa b (adj s1.nextId sa0 s1)
        rw [h1, adj_adj] at e1
        have e2 := I_skipComments fuel none ev1 n sa b s2
        rw [h2] at e2
        have e3 := I_parseAttrs S V (S.ety S.rootDef).typ attrText n sa b s3
        rw [h3] at e3
        have e4 := I_parseFileHeader V attrs n sa b s4
        rw [h4] at e4
        refine ⟨adj n sa s5, ?_⟩
        simp only [checkHeader, bind', e0, e1, e2, hnm, if_true, e3, e4]
      · rw [if_neg hnm] at h
        exact (hard_ne_okCH h).elim
    | header _ => exact (hard_ne_okCH h).elim
    | endElement _ => exact (hard_ne_okCH h).elim
    | characters _ => exact (hard_ne_okCH h).elim
    | comment _ => exact (hard_ne_okCH h).elim
    | eof => exact (hard_ne_okCH h).elim
  | beginElement _ _ => exact (hard_ne_okCH h).elim
  | endElement _ => exact (hard_ne_okCH h).elim
  | characters _ => exact (hard_ne_okCH h).elim
  | comment _ => exact (hard_ne_okCH h).elim
  | eof => exact (hard_ne_okCH h).elim

/-- a successful strict run is a successful lenient run with the same result and the same final state -/
theorem runParser_lenient_of_strict (buf : Bytes) (nid nmAutosar : Nat) (r : Hdr × Items) (st : PState)
    (h : runParser S V true buf nid nmAutosar = (.ok r, st)) :
    runParser S V false buf nid nmAutosar = (.ok r, st) := by
  have hl := (LM_parseArxml S V (2 * buf.length + 8) nmAutosar).1
    { warnings := [], line := 1, lx := Lex.init buf, nextId := nid } rfl
  unfold runParser at h ⊢
  cases hw : (parseArxml S V (2 * buf.length + 8) nmAutosar false
      { warnings := [], line := 1, lx := Lex.init buf, nextId := nid }).2.warnings with
  | nil =>
    rw [hw] at hl
    rw [← hl]; exact h
  | cons w ws =>
    rw [hw] at hl
    rw [h] at hl
    cases hl

/-- **C02** the header check accepts every buffer that loading accepts (strict or lenient loading) -/
theorem checkBuffer_of_load (strict : Bool) (buf : Bytes) (nid nmAutosar : Nat) (r : Hdr × Items) (st : PState) :
    runParser S V strict buf nid nmAutosar = (.ok r, st) → checkBuffer S V buf nmAutosar = true := by
  intro h
  have hlen : runParser S V false buf nid nmAutosar = (.ok r, st) := by
    cases strict with
    | false => exact h
    | true => exact runParser_lenient_of_strict S V buf nid nmAutosar r st h
  unfold runParser at hlen
  obtain ⟨st', h'⟩ := checkHeader_of_parseArxml S V _ nmAutosar false _ st r 0 none hlen
  unfold checkBuffer
  have : adj 0 none { warnings := [], line := 1, lx := Lex.init buf, nextId := nid } =
      ({ warnings := [], line := 1, lx := Lex.init buf, nextId := 0 } : PState) := rfl
  rw [this] at h'
  rw [h']

end
end AV.PM

/-! ### the converse is false: a good header and a broken body (toy specification) -/

namespace AV.PM.CheckHeaderEx
open AV AV.W AV.PM

/-- `<?xml version="1.0" encoding="utf-8"?>` + newline +
`<R xmlns="http://autosar.org/schema/r4.0" xmlns:xsi="http://www.w3.org/2001/XMLSchema-instance" xsi:schemaLocation="http://autosar.org/schema/r4.0 V1.xsd">` -/
def goodHeader : Bytes :=
  [60, 63, 120, 109, 108, 32, 118, 101, 114, 115, 105, 111, 110, 61, 34, 49, 46, 48, 34, 32, 101, 110, 99, 111,
      100, 105, 110, 103, 61, 34, 117, 116, 102, 45, 56, 34, 63, 62, 10] ++
  [60, 82, 32] ++ [120, 109, 108, 110, 115] ++ [61, 34] ++ nsAutosar ++ [34, 32] ++
  [120, 109, 108, 110, 115, 58, 120, 115, 105] ++ [61, 34] ++ nsXsi ++ [34, 32] ++
  [120, 115, 105, 58, 115, 99, 104, 101, 109, 97, 76, 111, 99, 97, 116, 105, 111, 110] ++ [61, 34] ++ nsAutosar ++
  [32, 86, 49, 46, 120, 115, 100] ++ [34, 62]

/-- the error kind of a load, `none` = accepted -/
def loadKind (strict : Bool) (buf : Bytes) : Option Nat :=
  match (runParser toySpec toyEnv strict buf 10 100).1 with
  | .ok _ => none
  | .error e => some e.kind

/-- sanity (non-vacuity of `checkBuffer_of_load`): `…<B>hi</B></R>` is loaded in both modes and passes the header check -/
def goodDoc : Bytes := goodHeader ++ [60, 66, 62, 104, 105, 60, 47, 66, 62, 60, 47, 82, 62]
example : loadKind true goodDoc = none := by decide +kernel
example : loadKind false goodDoc = none := by decide +kernel
example : checkBuffer toySpec toyEnv goodDoc 100 = true := by decide +kernel

/-- **the converse fails (1)**: the buffer ends after the start tag of the root element: the header check accepts it, loading
fails with `UnexpectedEndOfFile` (23) in both modes -/
example : checkBuffer toySpec toyEnv goodHeader 100 = true := by decide +kernel
example : loadKind true goodHeader = some kUnexpectedEndOfFile := by decide +kernel
example : loadKind false goodHeader = some kUnexpectedEndOfFile := by decide +kernel

/-- **the converse fails (2)**: an element `<Z>` that does not exist: `InvalidBeginElement` (5), a hard error in both modes -/
def badBody : Bytes := goodHeader ++ [60, 90, 62, 60, 47, 90, 62, 60, 47, 82, 62]
example : checkBuffer toySpec toyEnv badBody 100 = true := by decide +kernel
example : loadKind true badBody = some kInvalidBeginElement := by decide +kernel
example : loadKind false badBody = some kInvalidBeginElement := by decide +kernel

/-- **the converse fails (3)**: the wrong end tag `</B>` for the root element: `IncorrectEndElement` (6) -/
def badEnd : Bytes := goodHeader ++ [60, 47, 66, 62]
example : checkBuffer toySpec toyEnv badEnd 100 = true := by decide +kernel
example : loadKind false badEnd = some kIncorrectEndElement := by decide +kernel

/-- and a bad header is rejected by both (`xmlns` missing: the start tag is `<R>`): `InvalidArxmlFileHeader` (0) -/
def badHeader : Bytes := goodHeader.take 39 ++ [60, 82, 62, 60, 47, 82, 62]
example : checkBuffer toySpec toyEnv badHeader 100 = false := by decide +kernel
example : loadKind false badHeader = some kInvalidArxmlFileHeader := by decide +kernel

end AV.PM.CheckHeaderEx

/-! ### totality: the header check never needs more budget -/

namespace AV.PM
open AV.W

section
variable (S : Spec) (V : Env)

theorem measure_init_lt (buf : Bytes) : Lex.measure (Lex.init buf) < 2 * buf.length + 8 := by
  have := Lex.measure_le (Lex.init buf)
  have hlen : (Lex.init buf).rest.length ≤ buf.length := by
    unfold Lex.init
    split <;> simp <;> omega
  omega

/-- `checkHeader` with a budget above the tokenizer measure never reports the budget error and does not move the tokenizer backwards -/
theorem Safe_checkHeader (fuel nmAutosar : Nat) : SafeLt fuel (checkHeader S V fuel nmAutosar) := by
  unfold checkHeader
  refine Safe_bind (Safe_nextTok _ _) fun ev0 => ?_
  split
  · refine Safe_bind (Safe_nextTok _ _) fun ev1 => Safe_bind (Safe_skipComments _ _ _) fun r => ?_
    obtain ⟨comment, ev⟩ := r
    dsimp only
    split
    · exact Safe_ite (Safe_bind (Safe_of_quiet (Q_parseAttrs S V _ _) _) fun attrs => Safe_of_quiet (Q_parseFileHeader V _) _)
        (Safe_of_quiet (Q_hard _ (by decide)) _)
    · exact Safe_of_quiet (Q_hard _ (by decide)) _
  · exact Safe_of_quiet (Q_hard _ (by decide)) _

/-- **C02** the run behind `checkBuffer` (and the same run in strict mode, from any `nextId`) ends with "accepted" or with a genuine
tokenizer / parser error, never with the budget error `kFuel`: the budget `2 * buf.length + 8` is enough -/
theorem checkHeader_total (b : Bool) (buf : Bytes) (nid nmAutosar : Nat) :
    ∀ e, (checkHeader S V (2 * buf.length + 8) nmAutosar b
      { warnings := [], line := 1, lx := Lex.init buf, nextId := nid }).1 = .error e → e.kind ≠ kFuel :=
  (Safe_checkHeader S V _ nmAutosar b _ (measure_init_lt buf)).1

/-- `checkBuffer = false` always has a genuine reason -/
theorem checkBuffer_false_reason (buf : Bytes) (nmAutosar : Nat) (h : checkBuffer S V buf nmAutosar = false) :
    ∃ e, (checkHeader S V (2 * buf.length + 8) nmAutosar false
      { warnings := [], line := 1, lx := Lex.init buf, nextId := 0 }).1 = .error e ∧ e.kind ≠ kFuel := by
  unfold checkBuffer at h
  cases hr : (checkHeader S V (2 * buf.length + 8) nmAutosar false
      { warnings := [], line := 1, lx := Lex.init buf, nextId := 0 }).1 with
  | ok u => rw [hr] at h; cases h
  | error e => exact ⟨e, rfl, checkHeader_total S V false buf 0 nmAutosar e hr⟩

/-- `skipComments` stops at the first token that is not a comment: no budget is used -/
theorem skipComments_noncomment (fuel : Nat) (c : Option Bytes) (ev : Lex.Event) (hev : ∀ x, ev ≠ .comment x) :
    skipComments fuel c ev = pure' (c, ev) := by
  cases ev with
  | comment x => exact (hev x rfl).elim
  | header _ => cases fuel <;> rfl
  | beginElement _ _ => cases fuel <;> rfl
  | endElement _ => cases fuel <;> rfl
  | characters _ => cases fuel <;> rfl
  | eof => cases fuel <;> rfl

/-- the result of `skipComments` does not depend on the budget once the budget exceeds the tokenizer measure (each comment
consumes input) -/
theorem skipComments_fuel_indep (f1 : Nat) : ∀ (f2 : Nat) (c : Option Bytes) (ev : Lex.Event) (b : Bool) (s : PState),
    Lex.measure s.lx < f1 → Lex.measure s.lx < f2 → skipComments f1 c ev b s = skipComments f2 c ev b s := by
  induction f1 with
  | zero => intro f2 c ev b s h1; omega
  | succ n ih =>
    intro f2 c ev b s h1 h2
    cases f2 with
    | zero => omega
    | succ m =>
      by_cases hev : ∀ x, ev ≠ .comment x
      · rw [skipComments_noncomment _ _ _ hev, skipComments_noncomment _ _ _ hev]
      · have : ∃ x, ev = .comment x := by
          cases ev with
          | comment x => exact ⟨x, rfl⟩
          | header _ => exact (hev (fun _ h => by cases h)).elim
          | beginElement _ _ => exact (hev (fun _ h => by cases h)).elim
          | endElement _ => exact (hev (fun _ h => by cases h)).elim
          | characters _ => exact (hev (fun _ h => by cases h)).elim
          | eof => exact (hev (fun _ h => by cases h)).elim
        obtain ⟨bts, rfl⟩ := this
        unfold skipComments
        by_cases hv : validUtf8 bts = true
        · rw [if_pos hv, if_pos hv]
          simp only [bind']
          have hspec := nextTok_spec true b s
          cases hr : nextTok true b s with
          | mk r s1 =>
            rw [hr] at hspec
            cases r with
            | error e => rfl
            | ok ev' =>
              dsimp only
              rcases (hspec.2 ev' rfl).1 with heof | hlt
              · subst heof
                rw [skipComments_noncomment _ _ _ (fun _ h => by cases h), skipComments_noncomment _ _ _ (fun _ h => by cases h)]
              · have hlt' : Lex.measure s1.lx < Lex.measure s.lx := hlt
                exact ih m (some bts) ev' b s1 (by omega) (by omega)
        · rw [if_neg hv, if_neg hv]

/-- the result of `checkHeader` does not depend on the budget once the budget exceeds the tokenizer measure -/
theorem checkHeader_fuel_indep (f1 f2 nmAutosar : Nat) (b : Bool) (s : PState)
    (h1 : Lex.measure s.lx < f1) (h2 : Lex.measure s.lx < f2) :
    checkHeader S V f1 nmAutosar b s = checkHeader S V f2 nmAutosar b s := by
  unfold checkHeader
  simp only [bind']
  have hsp0 := nextTok_spec true b s
  cases hr0 : nextTok true b s with
  | mk r0 s1 =>
    rw [hr0] at hsp0
    cases r0 with
    | error e => rfl
    | ok ev0 =>
      dsimp only
      have hle0 : Lex.measure s1.lx ≤ Lex.measure s.lx := (hsp0.2 ev0 rfl).2
      cases ev0 with
      | header sa0 =>
        dsimp only
        simp only [bind']
        have hsp1 := nextTok_spec true b s1
        cases hr1 : nextTok true b s1 with
        | mk r1 s2 =>
          rw [hr1] at hsp1
          cases r1 with
          | error e => rfl
          | ok ev1 =>
            dsimp only
            have hle1 : Lex.measure s2.lx ≤ Lex.measure s1.lx := (hsp1.2 ev1 rfl).2
            rw [skipComments_fuel_indep f1 f2 none ev1 b s2 (by omega) (by omega)]
      | beginElement _ _ => rfl
      | endElement _ => rfl
      | characters _ => rfl
      | comment _ => rfl
      | eof => rfl

/-- **C02** `checkBuffer` never needs more fuel: with ANY budget `fuel ≥ 2 * buf.length + 8` the header check gives the same answer
(same result, same warnings, same final state) as with the budget `checkBuffer` uses -/
theorem checkBuffer_fuel_indep (buf : Bytes) (nmAutosar fuel : Nat) (hf : 2 * buf.length + 8 ≤ fuel) :
    checkHeader S V fuel nmAutosar false { warnings := [], line := 1, lx := Lex.init buf, nextId := 0 } =
    checkHeader S V (2 * buf.length + 8) nmAutosar false { warnings := [], line := 1, lx := Lex.init buf, nextId := 0 } := by
  have := measure_init_lt buf
  exact checkHeader_fuel_indep S V _ _ nmAutosar false _ (by show Lex.measure (Lex.init buf) < fuel; omega) this

/-- `checkBuffer` as a statement about any sufficient budget -/
theorem checkBuffer_eq_any_fuel (buf : Bytes) (nmAutosar fuel : Nat) (hf : 2 * buf.length + 8 ≤ fuel) :
    checkBuffer S V buf nmAutosar =
      match (checkHeader S V fuel nmAutosar false { warnings := [], line := 1, lx := Lex.init buf, nextId := 0 }).1 with
      | .ok _ => true
      | .error _ => false := by
  rw [checkBuffer_fuel_indep S V buf nmAutosar fuel hf]
  rfl

end
end AV.PM
