/-
Non-vacuity of `Lemmas/StepY.lean`: a `ReachY` derivation on `mvSpec` (`Lemmas/MoveOpWitness.lean`) that contains creates, a copy
and a real move, with every guard (`OpXOk`, `CopyGuard`, `MoveGuard`) discharged by `decide`.
-/
import AutosarVerif.Lemmas.StepY
import AutosarVerif.Lemmas.MoveOpWitness
import AutosarVerif.Lemmas.SetRefWitness

namespace AV.W
open AV

section
variable (S : Spec) (V : Env) (vOk : Nat) (rootAttrs : List (Nat × CDv))

/-- the state after a list of steps -/
def runY (w : World) : List OpY → World
  | [] => w
  | op :: r => runY (applyOpY S V rootAttrs w op).1 r

/-- every step of the list is permitted in the state it is issued in -/
def guardsY (w : World) : List OpY → Prop
  | [] => True
  | op :: r => StepOkY S V vOk w op ∧ guardsY (applyOpY S V rootAttrs w op).1 r

instance guardsY_dec (w : World) (ops : List OpY) : Decidable (guardsY S V vOk rootAttrs w ops) :=
  match ops with
  | [] => isTrue trivial
  | op :: r =>
    match (inferInstance : Decidable (StepOkY S V vOk w op)) with
    | isFalse h => isFalse fun hh => h hh.1
    | isTrue h =>
      match guardsY_dec (applyOpY S V rootAttrs w op).1 r with
      | isFalse h' => isFalse fun hh => h' hh.2
      | isTrue h' => isTrue ⟨h, h'⟩

/-- the step function with the structurally recursive form `opCopyS` of `opCopy` (`DeepCopy.lean`; kernel evaluation of
`opCopy` itself gets stuck in the nested recursion of `deepCopy`) -/
def applyOpYS (w : World) : OpY → World × String
  | .copy p x pos => shAns (opCopyS S V w p x pos)
  | op => applyOpY S V rootAttrs w op

theorem applyOpYS_eq (w : World) (op : OpY) : applyOpYS S V rootAttrs w op = applyOpY S V rootAttrs w op := by
  cases op with
  | x op => rfl
  | move p x pos => rfl
  | copy p x pos => show shAns (opCopyS S V w p x pos) = shAns (opCopy S V w p x pos); rw [opCopy_eq_S]

/-- `guardsY` with `applyOpYS` -/
def guardsYS (w : World) : List OpY → Prop
  | [] => True
  | op :: r => StepOkY S V vOk w op ∧ guardsYS (applyOpYS S V rootAttrs w op).1 r

instance guardsYS_dec (w : World) (ops : List OpY) : Decidable (guardsYS S V vOk rootAttrs w ops) :=
  match ops with
  | [] => isTrue trivial
  | op :: r =>
    match (inferInstance : Decidable (StepOkY S V vOk w op)) with
    | isFalse h => isFalse fun hh => h hh.1
    | isTrue h =>
      match guardsYS_dec (applyOpYS S V rootAttrs w op).1 r with
      | isFalse h' => isFalse fun hh => h' hh.2
      | isTrue h' => isTrue ⟨h, h'⟩

variable {S V vOk rootAttrs}

theorem guardsY_of_S (ops : List OpY) : ∀ (w : World), guardsYS S V vOk rootAttrs w ops → guardsY S V vOk rootAttrs w ops := by
  induction ops with
  | nil => intro _ _; trivial
  | cons op r ih =>
    intro w h
    refine ⟨h.1, ih _ ?_⟩
    rw [← applyOpYS_eq]
    exact h.2

theorem runY_eq_S (ops : List OpY) : ∀ (w : World),
    runY S V rootAttrs w ops = ops.foldl (fun w op => (applyOpYS S V rootAttrs w op).1) w := by
  induction ops with
  | nil => intro w; rfl
  | cons op r ih => intro w; rw [List.foldl_cons, applyOpYS_eq]; exact ih _

theorem reachY_run (ops : List OpY) : ∀ (w : World), ReachY S V vOk rootAttrs w → guardsY S V vOk rootAttrs w ops →
    ReachY S V vOk rootAttrs (runY S V rootAttrs w ops) := by
  induction ops with
  | nil => intro w hw _; exact hw
  | cons op r ih => intro w hw hg; exact ih _ (ReachY.step w op hw hg.1) hg.2

end

/-- the history of `MoveOpWitness.lean` (a file of version 2; the package P "a" (e1) with a Q (e3) that holds the X-REF e4 := "/c";
a second package P "c" (e5) with a Q (e7) holding the X-REF e8 := "/c/zz"), then: the package "c" is COPIED into the root (the copy
e9 … e12 gets the name "c_1"), then the package "c" is MOVED into the Q e3 (the reference e4 follows: "/a/c") -/
def yOps : List OpY :=
  (mvOps.map fun op => OpY.x (.core op)) ++ [.copy 0 5 none, .move 3 5 none]

theorem yOps_guards : guardsY mvSpec nameEnv 6 [] emptyWorld yOps := guardsY_of_S _ _ (by decide)

/-- the derivation: the end state is reachable by guarded steps -/
theorem yOps_reach : ReachY mvSpec nameEnv 6 [] (runY mvSpec nameEnv [] emptyWorld yOps) :=
  reachY_run yOps emptyWorld ReachY.empty yOps_guards

/-! ### `mvSpec` meets the hypotheses of the invariant theorems -/

theorem mvSpec_named (t : Nat) (h : mvSpec.isNamed t = true) : t = 1 ∨ t = 4 := by
  by_cases h1 : t = 1
  · exact Or.inl h1
  · by_cases h4 : t = 4
    · exact Or.inr h4
    · exfalso
      by_cases h0 : t = 0
      · subst h0; revert h; decide
      · by_cases h3 : t = 3
        · subst h3; revert h; decide
        · have : mvSpec.subCount t = 0 := by
            simp only [Spec.subCount, mvSpec, refSpec, h0, h1, h3, h4, if_false]
          simp [Spec.isNamed, Spec.shortNameMask, this] at h

theorem mvSpec_snDef (t d : Nat) (h : mvSpec.isNamed t = true) (hd : mvSpec.subAt t 0 = .elem d) : d = 2 := by
  rcases mvSpec_named t h with rfl | rfl
  · have : mvSpec.subAt 1 0 = .elem 2 := by decide
    rw [this] at hd; injection hd with e; exact e.symm
  · have : mvSpec.subAt 4 0 = .elem 2 := by decide
    rw [this] at hd; injection hd with e; exact e.symm

theorem mvSpec_isRef (t : Nat) (h : mvSpec.isRef t = true) : t = 5 := refSpec_isRef t h

theorem mvSpec_hyp : IdxHyp mvSpec nameEnv 6 where
  wf := {
    named_seq := by
      intro t h hm
      rcases mvSpec_named t h with rfl | rfl
      · rfl
      · exact absurd (by decide) hm
    sn_mask := by
      intro t h
      rcases mvSpec_named t h with rfl | rfl <;> decide
    sn_mult := by
      intro t d h hd
      have := mvSpec_snDef t d h hd
      subst this
      decide
    sn_type := by
      intro t d h hd
      have := mvSpec_snDef t d h hd
      subst this
      exact ⟨by decide, by decide, .pattern 8 none, rfl, rfl⟩ }
  only := by
    intro t nm e m idx h hmem hnm
    rcases mvSpec_named t h with rfl | rfl
    · have hl : mvSpec.listSub 1 = [(999, ⟨2, 2⟩, 2, [0]), (103, ⟨3, 3⟩, 7, [1])] := by decide
      rw [hl] at hmem
      simp only [List.mem_cons, List.mem_nil_iff, or_false, Prod.mk.injEq] at hmem
      rcases hmem with ⟨_, _, _, h4⟩ | ⟨h1, _, _, _⟩
      · exact h4
      · subst h1; exact absurd hnm (by decide)
    · have hl : mvSpec.listSub 4 = [(999, ⟨2, 2⟩, 1, [0])] := by decide
      rw [hl] at hmem
      simp only [List.mem_cons, List.mem_nil_iff, or_false, Prod.mk.injEq] at hmem
      exact hmem.2.2.2
  noSlash := by
    intro t d sp s ver h hd hsp hcv
    have := mvSpec_snDef t d h hd
    subst this
    have h2 : mvSpec.chardataSpec (mvSpec.defType 2) = some (.pattern 8 none) := rfl
    rw [h2] at hsp
    injection hsp with hsp
    subst hsp
    intro h47
    simp only [checkValue, nameEnv, Bool.true_and] at hcv
    have : s.contains 47 = true := List.contains_iff_mem.mpr h47
    rw [this] at hcv
    cases hcv
  latest := by decide
  rootName := by decide

theorem mvSpec_refWF : RefWF mvSpec where
  ref_chars := by
    intro t h
    have := mvSpec_isRef t h
    subst this
    rfl
  ref_spec := by
    intro t h
    have := mvSpec_isRef t h
    subst this
    exact ⟨.string false none, rfl, rfl⟩
  sn_not_ref := by
    intro t d h hd
    have := mvSpec_snDef t d h hd
    subst this
    decide
  root_not_ref := by decide

/-- so the end state of the history (creates, a copy, a move) has the full invariant and separated ids, BY THE THEOREM -/
theorem yOps_ginv : GInv mvSpec 6 (runY mvSpec nameEnv [] emptyWorld yOps) ∧ SepInv (runY mvSpec nameEnv [] emptyWorld yOps) :=
  reachY_ginv_sep mvSpec_hyp mvSpec_refWF (by decide) yOps_reach

/-! ### what the steps do -/

/-- every step of the history is answered with success; the copy is e9 … e12, the move answers `ok` -/
example : (yOps.foldl (fun (ws : World × List String) op =>
      let r := applyOpYS mvSpec nameEnv [] ws.1 op; (r.1, ws.2 ++ [r.2])) (emptyWorld, [])).2 =
    ["ok m0", "ok f0 e0", "ok e1 e2", "ok e3", "ok e4", "ok e5 e6", "ok e7", "ok e8", "ok", "ok", "ok e9 e10 e11 e12", "ok"] := by
  decide

/-- the end state: the copy "c_1" (e9) is in the root, the package "c" (e5) is found under "/a/c", the reference e4 follows the
moved element ("/a/c"), the copy e12 of the dangling reference e8 is registered under the same text; index = entries of the tree,
reference map = registrations of the tree -/
example : (((yOps.foldl (fun w op => (applyOpYS mvSpec nameEnv [] w op).1) emptyWorld).models.map fun m =>
      (m.index, entries mvSpec m.rootItems []))) =
    [([([47, 97], 1), ([47, 99, 95, 49], 9), ([47, 97, 47, 99], 5)],
      [([47, 97], 1), ([47, 97, 47, 99], 5), ([47, 99, 95, 49], 9)])] := by
  decide

example : (((yOps.foldl (fun w op => (applyOpYS mvSpec nameEnv [] w op).1) emptyWorld).models.map fun m =>
      (m.refs, refEntries mvSpec m.rootItems))) =
    [([([47, 99, 47, 122, 122], [8, 12]), ([47, 97, 47, 99], [4])],
      [([47, 97, 47, 99], 4), ([47, 99, 47, 122, 122], 8), ([47, 99, 47, 122, 122], 12)])] := by
  decide

/-! ### the clause "no local file sets below the moved element" of `MoveGuard` cannot be dropped
(finding c10:move-keeps-descendant-file-sets) -/

/-- `mvSpec` with splittable packages (so that an element below a package can be restricted to a file) -/
def mvSpecF : Spec := { mvSpec with defSplit := fun d => if d ≤ 1 then 1 else 0 }

/-- two files f0, f1 of version 2; the package "a" (e1) with a Q (e3); the package "c" (e4) with a Q (e6); "a" is taken out of f1
(its set: {f0}), the Q e6 below "c" is taken out of f0 (its set: {f1}) -/
def fOps : List OpY :=
  ([.newModel, .mkFile 0 [102] 2 true, .mkFile 0 [103] 2 true, .named 0 101 [97] none, .create 1 103 none,
    .named 0 101 [99] none, .create 4 103 none, .rmfromfile 1 1, .rmfromfile 6 0] : List Op).map fun op => OpY.x (.core op)

def fWorld : World := runY mvSpecF nameEnv [] emptyWorld fOps

/-- a reachable state … -/
theorem fWorld_reach : ReachY mvSpecF nameEnv 6 [] fWorld :=
  reachY_run fOps emptyWorld ReachY.empty (by decide)

/-- … in which every local file set lies within the effective set of the parent; the package "c" (e4) has an item name, is
not below the Q e3 yet, and `move_element_here(e3 ← e4)` is answered with success — but the guard does not hold (the Q e6 below
"c" has the local file set {f1}), and after the move the file-set invariant is broken: "c" inherits {f0} from "a", its child e6
still has {f1} -/
theorem move_needs_noFiles :
    (∀ m ∈ fWorld.models, FilesOk m.rootHdr.files m.rootKids) ∧
    (opMove mvSpecF nameEnv fWorld 3 4 none).2 = .ok "" ∧
    ¬ MoveGuard mvSpecF fWorld 3 4 ∧
    ¬ (∀ m ∈ (opMove mvSpecF nameEnv fWorld 3 4 none).1.models, FilesOk m.rootHdr.files m.rootKids) := by
  decide

/-- so `Inv` does not survive this unguarded move from a reachable state -/
theorem move_unguarded_breaks_inv : Inv fWorld ∧ ¬ Inv (opMove mvSpecF nameEnv fWorld 3 4 none).1 := by
  obtain ⟨h1, _, _, h4⟩ := move_needs_noFiles
  refine ⟨⟨?_, h1⟩, fun h => h4 h.2⟩
  rw [World.wf_iff]
  have : ∀ m ∈ fWorld.models, m.rootKids.wf (.elem m.rootHdr.id) := by decide
  exact this

/-! ### C06 over histories, non-vacuity: the hypotheses of `reachY_move_refs` are met by the move of the history -/

/-- the state in which the move is issued (after the copy) -/
def yWorld : World := runY mvSpec nameEnv [] emptyWorld (yOps.take 11)

theorem yWorld_reach : ReachY mvSpec nameEnv 6 [] yWorld :=
  reachY_run _ emptyWorld ReachY.empty (guardsY_of_S _ _ (by decide))

/-- `reachY_move_refs` applies to `move_element_here(e3 ← e5)` in `yWorld`: the index of the model is re-keyed from "/c" to
"/a/c", every reference has the text `mvText …` of its old text, and what "/c…" designated, "/a/c…" designates -/
theorem yWorld_move_refs :
    ∃ (cp : List (Hdr × Items)) (dest : Bytes), locate yWorld 3 = some (0, cp) ∧ pathOfChain mvSpec cp = [47, 97] ∧
      dest = pathOfChain mvSpec cp ++ (47 : UInt8) :: (uniqueName (yWorld.models[0]!).index (pathOfChain mvSpec cp) [99]
        ((yWorld.models[0]!).index.length + 2) 0).1 ∧
      ((applyOpY mvSpec nameEnv [] yWorld (.move 3 5 none)).1.models[0]!).index = idxFix (yWorld.models[0]!).index [47, 99] dest ∧
      (refEntries mvSpec ((applyOpY mvSpec nameEnv [] yWorld (.move 3 5 none)).1.models[0]!).rootItems).Perm
        ((refEntries mvSpec (yWorld.models[0]!).rootItems).map fun e => (mvText (yWorld.models[0]!).index [47, 99] dest e.1, e.2)) := by
  have hw : yWorld = (yOps.take 11).foldl (fun w op => (applyOpYS mvSpec nameEnv [] w op).1) emptyWorld := runY_eq_S _ _
  have hok : (opMove mvSpec nameEnv yWorld 3 5 none).2 = .ok "" := by rw [hw]; decide
  have h1 : ((locate yWorld 5).map fun r => (r.1, pathOfChain mvSpec r.2, itemName mvSpec (lastOf r.2).1 (lastOf r.2).2,
      (r.2.dropLast.getLast?).map fun a => a.1.id)) = some (0, [47, 99], some [99], some 0) := by rw [hw]; decide
  have h2 : ((locate yWorld 3).map fun r => pathOfChain mvSpec r.2) = some [47, 97] := by rw [hw]; decide
  cases hlx : locate yWorld 5 with
  | none => rw [hlx] at h1; cases h1
  | some r =>
    obtain ⟨k, cx⟩ := r
    rw [hlx] at h1
    simp only [Option.map_some, Option.some.injEq, Prod.mk.injEq] at h1
    obtain ⟨rfl, hpath, hname, hpar⟩ := h1
    obtain ⟨cp, dest, a1, a2, _, _, a5, a6, _⟩ := reachY_move_refs mvSpec_hyp mvSpec_refWF (by decide) yWorld_reach 3 5 none hok 0 cx hlx
      (fun sph spk hp => by
        rw [hp] at hpar
        simp only [Option.map_some, Option.some.injEq] at hpar
        rw [hpar]; decide) [99] hname
    rw [hpath] at a5 a6
    refine ⟨cp, dest, a1, ?_, a2, a5, a6⟩
    rw [a1] at h2
    simpa using h2

end AV.W
