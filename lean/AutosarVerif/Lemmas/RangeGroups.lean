/-
C07 beyond the flat SEQUENCE: the insertion range of `calc_element_insert_range` (`insertRange` / `rangeScan`) for parents
whose sub-elements lie in nested groups (SEQUENCE in CHOICE, CHOICE / BAG in SEQUENCE, …).

* Part A  `clsScan`: the scan over the classes of the content items (left of / right of / either side of the new element,
          conflict, unknown) and its exactness (`clsScan_exact`, `clsScan_none_iff`).
* Part B  index paths: `PairOk S typ a b` (a child with path `a` may come before a child with path `b`), `Conflict`,
          the class `cls` the code computes, `cls_LE_iff` / `cls_RE_iff` / `cls_N_iff`, and the transitivity fact that makes
          the early exit of the scan sound (`pairOk_tail`).
* Part C  `OrderedKids S typ ver kids` (the declarative "children in specification order"), `rangeScan_eq_clsScan`.
* Part D  `rangeScan_none_iff`, `rangeScan_range_exact`.
* Part E  `Allowed`, `insertRange_isSome_iff`, `insertRange_range_exact` (SEQUENCE / CHOICE parent, any nesting);
          `validEntries`, `qValid_eq`, `valid_allowed_iff` (`list_valid_sub_elements`).
* Part F  BAG / MIXED parents without nested groups (`BagFlat`): `insertRange_range_exact_bag`.
* Part G  `insertRange_range_exact_all`, `opCreate_ok_iff_keeps_order`, `SameKeys`.
* Part H  `grpSpec`: examples, and three `decide`-checked observations on where code and declarative reading differ.
The history invariant is in `Lemmas/RangeGroupsReach.lean`.
-/
import AutosarVerif.Lemmas.Range
import AutosarVerif.Lemmas.RangeSn
import AutosarVerif.Lemmas.KidsKnownReach

namespace AV.W
open Items

/-! ### Part A: the scan over a list of classes -/

/-- what the scan sees in one content item, relative to the new element:
`L` = the item has to stay to the left of the new element, `R` = to the right, `E` = either side, `N` = conflict,
`U` = an element the parent type does not know (skipped by the scan) -/
inductive Cls | L | R | E | N | U
  deriving DecidableEq, Repr

def clsScan : List Cls → Nat → Nat → Nat → Option (Nat × Nat)
  | [], _, lo, hi => some (lo, hi)
  | .R :: _, _, lo, hi => some (lo, hi)
  | .E :: r, i, lo, _ => clsScan r (i + 1) lo (i + 1)
  | .L :: r, i, _, _ => clsScan r (i + 1) (i + 1) (i + 1)
  | .N :: _, _, _, _ => none
  | .U :: r, i, lo, hi => clsScan r (i + 1) lo hi

/-- after an item that has to be to the right, only such items (or indifferent ones) follow -/
def RTail (cs : List Cls) : Prop := cs.Pairwise fun a b => a = .R → (b = .R ∨ b = .E ∨ b = .U)

theorem clsScan_aux (cs : List Cls) (i lo hi lo' hi' : Nat) (hhi : hi ≤ i) (h : clsScan cs i lo hi = some (lo', hi')) :
    (lo' = lo ∨ i < lo') ∧ hi ≤ hi' := by
  induction cs generalizing i lo hi with
  | nil => simp only [clsScan, Option.some.injEq, Prod.mk.injEq] at h; omega
  | cons c r ih =>
    cases c with
    | R => simp only [clsScan, Option.some.injEq, Prod.mk.injEq] at h; omega
    | E => simp only [clsScan] at h; have := ih _ _ _ (Nat.le_refl _) h; omega
    | L => simp only [clsScan] at h; have := ih _ _ _ (Nat.le_refl _) h; omega
    | N => simp [clsScan] at h
    | U => simp only [clsScan] at h; have := ih _ _ _ (by omega) h; omega

theorem clsScan_none_iff (cs : List Cls) (ht : RTail cs) (i lo hi : Nat) :
    clsScan cs i lo hi = none ↔ .N ∈ cs := by
  induction cs generalizing i lo hi with
  | nil => simp [clsScan]
  | cons c r ih =>
    have htr : RTail r := (List.pairwise_cons.mp ht).2
    cases c with
    | R =>
      simp only [clsScan, reduceCtorEq, false_iff, List.mem_cons, false_or]
      intro hN
      have := (List.pairwise_cons.mp ht).1 _ hN rfl
      simp at this
    | E => simp only [clsScan, ih htr, List.mem_cons, reduceCtorEq, false_or]
    | L => simp only [clsScan, ih htr, List.mem_cons, reduceCtorEq, false_or]
    | N => simp [clsScan]
    | U => simp only [clsScan, ih htr, List.mem_cons, reduceCtorEq, false_or]

/-- the scan over known items: the answer is exactly the set of positions with only `L`/`E` items before and only
`R`/`E` items behind -/
theorem clsScan_exact (cs : List Cls) (hU : .U ∉ cs) (ht : RTail cs) (i lo lo' hi' : Nat) (hlo : lo ≤ i)
    (h : clsScan cs i lo i = some (lo', hi')) :
    ∀ p, p ≤ cs.length → ((lo' ≤ i + p ∧ i + p ≤ hi') ↔
      ((∀ c ∈ cs.take p, c = .L ∨ c = .E) ∧ (∀ c ∈ cs.drop p, c = .R ∨ c = .E))) := by
  induction cs generalizing i lo with
  | nil =>
    intro p hp
    simp only [clsScan, Option.some.injEq, Prod.mk.injEq] at h
    simp only [List.length_nil, Nat.le_zero_eq] at hp
    subst hp
    simp; omega
  | cons c r ih =>
    have htr : RTail r := (List.pairwise_cons.mp ht).2
    have hUr : .U ∉ r := fun hm => hU (List.mem_cons_of_mem _ hm)
    intro p hp
    cases c with
    | R =>
      simp only [clsScan, Option.some.injEq, Prod.mk.injEq] at h
      cases p with
      | zero =>
        simp only [List.take_zero, List.drop_zero, List.not_mem_nil, false_imp_iff, implies_true, true_and,
          List.mem_cons, forall_eq_or_imp, reduceCtorEq, or_false]
        have h1 := (List.pairwise_cons.mp ht).1
        constructor
        · intro _ c hc
          rcases h1 c hc rfl with e | e | e
          · exact Or.inl e
          · exact Or.inr e
          · exact absurd (e ▸ hc) hUr
        · intro _; omega
      | succ q =>
        simp only [List.take_succ_cons, List.mem_cons, forall_eq_or_imp, reduceCtorEq, or_self, false_and, iff_false]
        omega
    | E =>
      simp only [clsScan] at h
      have haux := clsScan_aux r (i + 1) lo (i + 1) lo' hi' (Nat.le_refl _) h
      have ih' := ih hUr htr (i + 1) lo (by omega) h
      cases p with
      | zero =>
        have := ih' 0 (Nat.zero_le _)
        simp only [List.take_zero, List.drop_zero, List.not_mem_nil, false_imp_iff, implies_true, true_and,
          List.mem_cons, forall_eq_or_imp, reduceCtorEq, or_true] at this ⊢
        rw [← this]; omega
      | succ q =>
        have := ih' q (by simpa using hp)
        simp only [List.take_succ_cons, List.drop_succ_cons, List.mem_cons, forall_eq_or_imp, reduceCtorEq, or_true, true_and]
        rw [← this]; omega
    | L =>
      simp only [clsScan] at h
      have haux := clsScan_aux r (i + 1) (i + 1) (i + 1) lo' hi' (Nat.le_refl _) h
      have ih' := ih hUr htr (i + 1) (i + 1) (by omega) h
      cases p with
      | zero =>
        simp only [List.take_zero, List.drop_zero, List.mem_cons, forall_eq_or_imp, reduceCtorEq, or_self, false_and,
          and_false, iff_false]
        omega
      | succ q =>
        have := ih' q (by simpa using hp)
        simp only [List.take_succ_cons, List.drop_succ_cons, List.mem_cons, forall_eq_or_imp, reduceCtorEq, true_or, true_and]
        rw [← this]; omega
    | N => simp [clsScan] at h
    | U => exact absurd List.mem_cons_self hU

/-! ### Part B: index paths — the declarative relation and the class the scan computes -/

section spec
variable (S : Spec)

/-- **specification order of a pair**: `a` is the index path of a child that comes (somewhere) before a child with index
path `b`.  Looked at in the innermost group `G` that contains both:
* `G` SEQUENCE: `a` comes first in the specification (lexicographic comparison of the paths), or both are the same element
  and that element may be repeated;
* `G` CHOICE: both are the same element and it may be repeated (two different alternatives exclude each other);
* `G` BAG / MIXED: no constraint;  `G` CHARACTERS: no sub-elements at all. -/
def PairOk (typ : Nat) (a b : List Nat) : Prop :=
  match S.mode (S.commonGroup typ a b) with
  | .sequence => cmpIdx a b = .lt ∨ (a = b ∧ repAllowed S typ a = true)
  | .choice => a = b ∧ repAllowed S typ a = true
  | .bag => True
  | .mixed => True
  | .characters => False

/-- **conflict**: a child with index path `b` excludes a new element with index path `a` wherever it is put:
the same element and it may not be repeated (multiplicity exhausted), or two different alternatives of a CHOICE group -/
def Conflict (typ : Nat) (a b : List Nat) : Prop :=
  match S.mode (S.commonGroup typ a b) with
  | .sequence => a = b ∧ repAllowed S typ a = false
  | .choice => a ≠ b ∨ repAllowed S typ a = false
  | .bag => False
  | .mixed => False
  | .characters => True

/-- the class of an existing child (index path `ex`) relative to the new element (index path `new`), as `rangeScan` computes it -/
def cls (typ : Nat) (new ex : List Nat) : Cls :=
  match S.mode (S.commonGroup typ new ex) with
  | .sequence =>
    match cmpIdx new ex with
    | .lt => .R
    | .eq => if repAllowed S typ new then .E else .N
    | .gt => .L
  | .choice => if new = ex then (if repAllowed S typ new then .E else .N) else .N
  | .bag => .E
  | .mixed => .E
  | .characters => .N

theorem cmpIdx_eq_iff : ∀ a b : List Nat, cmpIdx a b = .eq ↔ a = b
  | [], [] => by simp [cmpIdx]
  | [], _ :: _ => by simp [cmpIdx]
  | _ :: _, [] => by simp [cmpIdx]
  | a :: as, b :: bs => by
    unfold cmpIdx
    by_cases h1 : a < b
    · simp [h1]; omega
    · by_cases h2 : a > b
      · simp [h1, h2]; omega
      · have : a = b := by omega
        subst this
        simp [cmpIdx_eq_iff as bs]

theorem commonGroup_comm : ∀ (t : Nat) (a b : List Nat), S.commonGroup t a b = S.commonGroup t b a
  | t, [], [] => rfl
  | t, [], _ :: _ => rfl
  | t, _ :: _, [] => rfl
  | t, i :: is, j :: js => by
    unfold Spec.commonGroup
    by_cases h : i = j
    · subst h
      simp only [if_true]
      cases S.subAt t i with
      | elem d => rfl
      | group g => exact commonGroup_comm g is js
    · have : ¬ j = i := fun e => h e.symm
      simp [h, this]

theorem cls_ne_U (typ : Nat) (new ex : List Nat) : cls S typ new ex ≠ .U := by
  unfold cls
  repeat' split
  all_goals simp

/-- the child may stay in front of the new element -/
theorem cls_LE_iff (typ : Nat) (new ex : List Nat) :
    (cls S typ new ex = .L ∨ cls S typ new ex = .E) ↔ PairOk S typ ex new := by
  unfold cls PairOk
  rw [commonGroup_comm S typ ex new]
  cases S.mode (S.commonGroup typ new ex) with
  | sequence =>
    simp only
    cases hc : cmpIdx new ex with
    | lt =>
      have h1 : cmpIdx ex new = .gt := (cmpIdx_swap new ex).mp hc
      have h2 : ex ≠ new := fun e => by rw [e, (cmpIdx_eq_iff new new).mpr rfl] at h1; cases h1
      simp [h1, h2]
    | eq =>
      have h1 : new = ex := (cmpIdx_eq_iff new ex).mp hc
      subst h1
      simp only [hc]
      cases repAllowed S typ new <;> simp
    | gt =>
      have h1 : cmpIdx ex new = .lt := (cmpIdx_swap ex new).mpr hc
      simp [h1]
  | choice =>
    simp only
    by_cases h : new = ex
    · subst h; cases repAllowed S typ new <;> simp
    · have : ¬ ex = new := fun e => h e.symm
      simp [h, this]
  | bag => simp
  | mixed => simp
  | characters => simp

/-- the child may stay behind the new element -/
theorem cls_RE_iff (typ : Nat) (new ex : List Nat) :
    (cls S typ new ex = .R ∨ cls S typ new ex = .E) ↔ PairOk S typ new ex := by
  unfold cls PairOk
  cases S.mode (S.commonGroup typ new ex) with
  | sequence =>
    simp only
    cases hc : cmpIdx new ex with
    | lt => simp
    | eq =>
      have h1 : new = ex := (cmpIdx_eq_iff new ex).mp hc
      subst h1
      cases repAllowed S typ new <;> simp
    | gt =>
      have h2 : new ≠ ex := fun e => by rw [e, (cmpIdx_eq_iff ex ex).mpr rfl] at hc; cases hc
      simp [h2]
  | choice =>
    simp only
    by_cases h : new = ex
    · subst h; cases repAllowed S typ new <;> simp
    · simp [h]
  | bag => simp
  | mixed => simp
  | characters => simp

theorem cls_N_iff (typ : Nat) (new ex : List Nat) : cls S typ new ex = .N ↔ Conflict S typ new ex := by
  unfold cls Conflict
  cases S.mode (S.commonGroup typ new ex) with
  | sequence =>
    simp only
    cases hc : cmpIdx new ex with
    | lt =>
      have h2 : new ≠ ex := fun e => by rw [e, (cmpIdx_eq_iff ex ex).mpr rfl] at hc; cases hc
      simp [h2]
    | eq =>
      have h1 : new = ex := (cmpIdx_eq_iff new ex).mp hc
      subst h1
      cases repAllowed S typ new <;> simp
    | gt =>
      have h2 : new ≠ ex := fun e => by rw [e, (cmpIdx_eq_iff ex ex).mpr rfl] at hc; cases hc
      simp [h2]
  | choice =>
    simp only
    by_cases h : new = ex
    · subst h; cases repAllowed S typ new <;> simp
    · simp [h]
  | bag => simp
  | mixed => simp
  | characters => simp

/-- a conflict is exactly: the child can be neither in front of nor behind the new element -/
theorem conflict_iff (typ : Nat) (a b : List Nat) : Conflict S typ a b ↔ (¬ PairOk S typ a b ∧ ¬ PairOk S typ b a) := by
  rw [← cls_N_iff, ← cls_RE_iff, ← cls_LE_iff]
  cases h : cls S typ a b <;> simp
  exact cls_ne_U S typ a b h

theorem repAllowed_group (t i g : Nat) (as : List Nat) (hs : S.subAt t i = .group g) :
    repAllowed S t (i :: as) = repAllowed S g as := by
  unfold repAllowed Spec.subMult
  cases as with
  | nil => simp [Spec.subSpecAt, hs]
  | cons a r => simp [Spec.subSpecAt, hs]

/-- inside a common sub-group the relation is the relation of that group -/
theorem pairOk_group (t i g : Nat) (as bs : List Nat) (hs : S.subAt t i = .group g) :
    PairOk S t (i :: as) (i :: bs) ↔ PairOk S g as bs := by
  unfold PairOk
  rw [repAllowed_group S t i g as hs]
  simp only [Spec.commonGroup, if_true, hs, cmpIdx, Nat.lt_irrefl, if_false, List.cons.injEq, true_and]

/-- different entries of the same group -/
theorem pairOk_ne (t i j : Nat) (as bs : List Nat) (h : i ≠ j) :
    PairOk S t (i :: as) (j :: bs) ↔ ((S.mode t = .sequence ∧ i < j) ∨ S.mode t = .bag ∨ S.mode t = .mixed) := by
  unfold PairOk
  simp only [Spec.commonGroup, h, if_false, cmpIdx, List.cons.injEq, false_and, or_false]
  by_cases h1 : i < j
  · cases S.mode t <;> simp [h1]
  · have : i > j := by omega
    cases S.mode t <;> simp [h1, this]

theorem pairOk_tail : ∀ (t : Nat) (n x y : List Nat), S.mode (S.commonGroup t n x) = .sequence → cmpIdx n x = .lt →
    PairOk S t x y → PairOk S t n y := by
  intro t n
  induction n generalizing t with
  | nil =>
    intro x y hm hc hp
    cases x with
    | nil => simp [cmpIdx] at hc
    | cons j js =>
      simp only [Spec.commonGroup] at hm
      cases y with
      | nil => simp [PairOk, Spec.commonGroup, hm, cmpIdx] at hp
      | cons k ks => simp [PairOk, Spec.commonGroup, hm, cmpIdx]
  | cons i is ih =>
    intro x y hm hc hp
    cases x with
    | nil => simp [cmpIdx] at hc
    | cons j js =>
      have hnil : ∀ (as bs : List Nat) (a : Nat), PairOk S t (a :: as) [] → PairOk S t (a :: bs) [] := by
        intro as bs a h
        unfold PairOk at h ⊢
        simp only [Spec.commonGroup, cmpIdx, reduceCtorEq, false_and, or_false] at h ⊢
        cases hmt : S.mode t <;> simp [hmt] at h ⊢
      by_cases hij : i = j
      · subst hij
        cases hs : S.subAt t i with
        | elem d =>
          simp only [Spec.commonGroup, if_true, hs] at hm
          simp only [cmpIdx, Nat.lt_irrefl, if_false] at hc
          cases y with
          | nil => simp [PairOk, Spec.commonGroup, hm, cmpIdx] at hp
          | cons k ks =>
            by_cases hik : i = k
            · subst hik
              unfold PairOk at hp ⊢
              simp only [Spec.commonGroup, if_true, hs, hm, cmpIdx, Nat.lt_irrefl, if_false, List.cons.injEq, true_and] at hp ⊢
              left
              have hle : cmpIdx js ks ≠ .gt := by
                rcases hp with h | ⟨h, _⟩
                · rw [h]; simp
                · rw [(cmpIdx_eq_iff js ks).mpr h]; simp
              have h1 : cmpIdx is ks ≠ .gt := cmpIdx_le_trans is js ks (by rw [hc]; simp) hle
              cases h2 : cmpIdx is ks with
              | lt => rfl
              | gt => exact absurd h2 h1
              | eq =>
                have h3 := (cmpIdx_eq_iff is ks).mp h2
                subst h3
                have h4 : cmpIdx js is = .gt := (cmpIdx_swap is js).mp hc
                exact absurd h4 hle
            · rw [pairOk_ne S t i k _ _ hik] at hp ⊢
              exact hp
        | group g =>
          simp only [Spec.commonGroup, if_true, hs] at hm
          simp only [cmpIdx, Nat.lt_irrefl, if_false] at hc
          cases y with
          | nil => exact hnil _ _ _ hp
          | cons k ks =>
            by_cases hik : i = k
            · subst hik
              rw [pairOk_group S t i g _ _ hs] at hp ⊢
              exact ih g js ks hm hc hp
            · rw [pairOk_ne S t i k _ _ hik] at hp ⊢
              exact hp
      · simp only [Spec.commonGroup, hij, if_false] at hm
        have hlt : i < j := by
          simp only [cmpIdx] at hc
          by_cases h1 : i < j
          · exact h1
          · by_cases h2 : i > j
            · simp [h1, h2] at hc
            · omega
        cases y with
        | nil => simp [PairOk, Spec.commonGroup, hm, cmpIdx] at hp
        | cons k ks =>
          have hjk : j ≤ k := by
            by_cases hjk : j = k
            · omega
            · rw [pairOk_ne S t j k _ _ hjk] at hp
              simp [hm] at hp
              omega
          rw [pairOk_ne S t i k _ _ (by omega)]
          left
          exact ⟨hm, by omega⟩


end spec

/-! ### Part C: the content list of a parent -/

section kids
variable (S : Spec)

/-- one content item as the scan sees it -/
inductive Kid
  | text
  | unknown
  | key (idx : List Nat)
  deriving DecidableEq, Repr

def Kid.key? : Kid → Option (List Nat)
  | .key i => some i
  | _ => none

/-- how an existing child element called `name` is looked up: `find_sub_element(name, version)`, or in any version -/
def kidOfName (typ ver name : Nat) : Kid :=
  match S.findSubOr typ name ver with
  | some (_, idx) => .key idx
  | none => .unknown

def kidsOf (typ ver : Nat) : Items → List Kid
  | .nil => []
  | .text _ r => .text :: kidsOf typ ver r
  | .elem sh _ r => kidOfName S typ ver sh.name :: kidsOf typ ver r

/-- the index paths of the child elements (known to the parent type), in document order -/
def kidKeys (typ ver : Nat) (kids : Items) : List (List Nat) := (kidsOf S typ ver kids).filterMap Kid.key?

/-- **the children are in specification order**: every child element is known to the type of the parent (in the version, or
in any version), and the index paths of the children are pairwise in specification order (`PairOk`) -/
def OrderedKids (typ ver : Nat) (kids : Items) : Prop :=
  Kid.unknown ∉ kidsOf S typ ver kids ∧ (kidKeys S typ ver kids).Pairwise (PairOk S typ)

theorem kidsOf_length (typ ver : Nat) (kids : Items) : (kidsOf S typ ver kids).length = kids.length := by
  induction kids with
  | nil => rfl
  | text c r ih => simp [kidsOf, Items.length, ih]
  | elem h k r _ ih => simp [kidsOf, Items.length, ih]

/-- reading of `Kid.unknown ∉ …` -/
theorem allKnown_iff (typ ver : Nat) (kids : Items) :
    Kid.unknown ∉ kidsOf S typ ver kids ↔ ∀ c ∈ kids.childElems, S.findSubOr typ c.1.name ver ≠ none := by
  induction kids with
  | nil => simp [kidsOf, Items.childElems]
  | text c r ih => simpa [kidsOf, Items.childElems] using ih
  | elem h k r _ ih =>
    simp only [kidsOf, Items.childElems, List.mem_cons, not_or, forall_eq_or_imp, ih]
    refine and_congr_left (fun _ => ?_)
    unfold kidOfName
    cases S.findSubOr typ h.name ver <;> simp

/-- reading of `kidKeys` -/
theorem kidKeys_nil (typ ver : Nat) : kidKeys S typ ver .nil = [] := rfl
theorem kidKeys_text (typ ver : Nat) (c : CDv) (r : Items) : kidKeys S typ ver (.text c r) = kidKeys S typ ver r := rfl
theorem kidKeys_elem (typ ver : Nat) (h : Hdr) (k r : Items) :
    kidKeys S typ ver (.elem h k r) =
      match S.findSubOr typ h.name ver with
      | some (_, idx) => idx :: kidKeys S typ ver r
      | none => kidKeys S typ ver r := by
  unfold kidKeys
  simp only [kidsOf, kidOfName]
  cases S.findSubOr typ h.name ver <;> simp [List.filterMap_cons, Kid.key?]

def KidOk (typ : Nat) (a b : Kid) : Prop := ∀ x, a.key? = some x → ∀ y, b.key? = some y → PairOk S typ x y

theorem orderedKids_iff (typ ver : Nat) (kids : Items) :
    OrderedKids S typ ver kids ↔ Kid.unknown ∉ kidsOf S typ ver kids ∧ (kidsOf S typ ver kids).Pairwise (KidOk S typ) := by
  unfold OrderedKids kidKeys
  rw [List.pairwise_filterMap]
  exact Iff.rfl

def clsK (typ : Nat) (new : List Nat) : Kid → Cls
  | .text => .E
  | .unknown => .U
  | .key x => cls S typ new x

/-- the model's scan is the class scan -/
theorem rangeScan_eq_clsScan (typ ver : Nat) (new : List Nat) (kids : Items) (i lo hi : Nat) :
    rangeScan S typ ver new kids i lo hi = clsScan ((kidsOf S typ ver kids).map (clsK S typ new)) i lo hi := by
  induction kids generalizing i lo hi with
  | nil => simp [rangeScan, kidsOf, clsScan]
  | text c r ih => simp only [rangeScan, kidsOf, List.map_cons, clsK, clsScan, ih]
  | elem sh sk r _ ih =>
    unfold rangeScan
    simp only [kidsOf, List.map_cons, kidOfName]
    cases hf : S.findSubOr typ sh.name ver with
    | none => simp only [clsK, clsScan, ih]
    | some x =>
      obtain ⟨e, exIdx⟩ := x
      simp only [clsK, cls]
      cases hm : S.mode (S.commonGroup typ new exIdx) with
      | sequence =>
        simp only
        cases hc : cmpIdx new exIdx with
        | lt => simp only [clsScan]
        | gt => simp only [clsScan, ih]
        | eq =>
          simp only
          unfold repAllowed
          cases hmu : S.subMult typ new with
          | none => simp [clsScan, ih]
          | some mu => cases mu <;> simp [clsScan, ih]
      | choice =>
        simp only
        by_cases hn : new = exIdx
        · subst hn
          simp only [if_true]
          unfold repAllowed
          cases hmu : S.subMult typ new with
          | none => simp [clsScan, ih]
          | some mu => cases mu <;> simp [clsScan, ih]
        · simp [hn, clsScan]
      | bag => simp only [clsScan, ih]
      | mixed => simp only [clsScan, ih]
      | characters => simp only [clsScan]

theorem kidsOf_insertAt (typ ver : Nat) (nh : Hdr) (nk : Items) (kids : Items) (p : Nat) :
    kidsOf S typ ver (kids.insertAt (fun r => .elem nh nk r) p) =
      (kidsOf S typ ver kids).take p ++ kidOfName S typ ver nh.name :: (kidsOf S typ ver kids).drop p := by
  induction kids generalizing p with
  | nil => cases p <;> simp [Items.insertAt, kidsOf]
  | text c r ih =>
    cases p with
    | zero => simp [Items.insertAt, kidsOf]
    | succ q => simp [Items.insertAt, kidsOf, ih q]
  | elem h k r _ ih =>
    cases p with
    | zero => simp [Items.insertAt, kidsOf]
    | succ q => simp [Items.insertAt, kidsOf, ih q]

theorem cls_R (typ : Nat) (new x : List Nat) (h : cls S typ new x = .R) :
    S.mode (S.commonGroup typ new x) = .sequence ∧ cmpIdx new x = .lt := by
  unfold cls at h
  cases hm : S.mode (S.commonGroup typ new x) <;> rw [hm] at h <;> simp only at h
  · cases hc : cmpIdx new x <;> rw [hc] at h <;> simp only at h
    · exact ⟨rfl, rfl⟩
    · split at h <;> cases h
    · cases h
  · repeat' split at h
    all_goals cases h
  all_goals cases h

/-- children in specification order: behind a child that has to stay to the right of the new element only such children follow -/
theorem rtail_of_ordered (typ : Nat) (new : List Nat) (l : List Kid) (h : l.Pairwise (KidOk S typ)) :
    RTail (l.map (clsK S typ new)) := by
  unfold RTail
  rw [List.pairwise_map]
  refine h.imp ?_
  intro a b hab ha
  cases a with
  | text => cases ha
  | unknown => cases ha
  | key x =>
    obtain ⟨hm, hc⟩ := cls_R S typ new x ha
    cases b with
    | text => exact Or.inr (Or.inl rfl)
    | unknown => exact Or.inr (Or.inr rfl)
    | key y =>
      have := pairOk_tail S typ new x y hm hc (hab x rfl y rfl)
      rcases (cls_RE_iff S typ new y).mpr this with h1 | h1
      · exact Or.inl h1
      · exact Or.inr (Or.inl h1)

end kids

/-! ### Part D: exactness of the scan -/

section main
variable (S : Spec)

theorem clsK_LE_iff (typ : Nat) (new : List Nat) (a : Kid) (ha : a ≠ .unknown) :
    (clsK S typ new a = .L ∨ clsK S typ new a = .E) ↔ KidOk S typ a (.key new) := by
  cases a with
  | text => simp [clsK, KidOk, Kid.key?]
  | unknown => exact absurd rfl ha
  | key x => simp [clsK, KidOk, Kid.key?, cls_LE_iff]

theorem clsK_RE_iff (typ : Nat) (new : List Nat) (a : Kid) (ha : a ≠ .unknown) :
    (clsK S typ new a = .R ∨ clsK S typ new a = .E) ↔ KidOk S typ (.key new) a := by
  cases a with
  | text => simp [clsK, KidOk, Kid.key?]
  | unknown => exact absurd rfl ha
  | key x => simp [clsK, KidOk, Kid.key?, cls_RE_iff]

/-- inserting into an ordered list of kids -/
theorem pairwise_insert (typ : Nat) (l : List Kid) (hl : l.Pairwise (KidOk S typ)) (new : Kid) (p : Nat) :
    (l.take p ++ new :: l.drop p).Pairwise (KidOk S typ) ↔
      ((∀ a ∈ l.take p, KidOk S typ a new) ∧ (∀ b ∈ l.drop p, KidOk S typ new b)) := by
  have hsplit : (l.take p ++ l.drop p).Pairwise (KidOk S typ) := by rw [List.take_append_drop]; exact hl
  rw [List.pairwise_append] at hsplit
  obtain ⟨h1, h2, h3⟩ := hsplit
  rw [List.pairwise_append, List.pairwise_cons]
  constructor
  · rintro ⟨_, ⟨hb, _⟩, hc⟩
    exact ⟨fun a ha => hc a ha new List.mem_cons_self, hb⟩
  · rintro ⟨ha, hb⟩
    refine ⟨h1, ⟨hb, h2⟩, ?_⟩
    intro a hma b hmb
    rcases List.mem_cons.mp hmb with rfl | hmb
    · exact ha a hma
    · exact h3 a hma b hmb

/-- **the scan refuses exactly when an existing child conflicts with the new element** -/
theorem rangeScan_none_iff (typ ver : Nat) (new : List Nat) (kids : Items) (hord : OrderedKids S typ ver kids) :
    rangeScan S typ ver new kids 0 0 0 = none ↔ ∃ x ∈ kidKeys S typ ver kids, Conflict S typ new x := by
  rw [rangeScan_eq_clsScan]
  have hp := ((orderedKids_iff S typ ver kids).mp hord).2
  rw [clsScan_none_iff _ (rtail_of_ordered S typ new _ hp)]
  simp only [List.mem_map, kidKeys, List.mem_filterMap]
  constructor
  · rintro ⟨a, ha, hc⟩
    cases a with
    | text => cases hc
    | unknown => cases hc
    | key x => exact ⟨x, ⟨.key x, ha, rfl⟩, (cls_N_iff S typ new x).mp hc⟩
  · rintro ⟨x, ⟨a, ha, hk⟩, hc⟩
    cases a with
    | text => cases hk
    | unknown => cases hk
    | key y =>
      simp only [Kid.key?, Option.some.injEq] at hk
      subst hk
      exact ⟨.key y, ha, (cls_N_iff S typ new y).mpr hc⟩

/-- **the range the scan answers is exactly the set of positions at which the new element keeps the children in
specification order** -/
theorem rangeScan_range_exact (typ ver : Nat) (new : List Nat) (kids : Items) (hord : OrderedKids S typ ver kids)
    (lo hi : Nat) (h : rangeScan S typ ver new kids 0 0 0 = some (lo, hi))
    (nh : Hdr) (nk : Items) (hnew : kidOfName S typ ver nh.name = .key new) :
    ∀ p, p ≤ kids.length →
      ((lo ≤ p ∧ p ≤ hi) ↔ OrderedKids S typ ver (kids.insertAt (fun r => .elem nh nk r) p)) := by
  intro p hp
  obtain ⟨hU, hP⟩ := (orderedKids_iff S typ ver kids).mp hord
  rw [rangeScan_eq_clsScan] at h
  have hUc : Cls.U ∉ (kidsOf S typ ver kids).map (clsK S typ new) := by
    intro hm
    obtain ⟨a, ha, hc⟩ := List.mem_map.mp hm
    cases a with
    | text => cases hc
    | unknown => exact hU ha
    | key x => exact cls_ne_U S typ new x hc
  have hex := clsScan_exact _ hUc (rtail_of_ordered S typ new _ hP) 0 0 lo hi (Nat.le_refl _) h p
    (by rw [List.length_map, kidsOf_length]; exact hp)
  rw [Nat.zero_add] at hex
  rw [hex, orderedKids_iff, kidsOf_insertAt, hnew, pairwise_insert S typ _ hP]
  have hU1 : ∀ a ∈ (kidsOf S typ ver kids).take p, a ≠ Kid.unknown := fun a ha e => hU (e ▸ List.mem_of_mem_take ha)
  have hU2 : ∀ a ∈ (kidsOf S typ ver kids).drop p, a ≠ Kid.unknown := fun a ha e => hU (e ▸ List.mem_of_mem_drop ha)
  rw [← List.map_take, ← List.map_drop]
  simp only [List.forall_mem_map]
  constructor
  · rintro ⟨h1, h2⟩
    refine ⟨?_, fun a ha => (clsK_LE_iff S typ new a (hU1 a ha)).mp (h1 a ha),
      fun a ha => (clsK_RE_iff S typ new a (hU2 a ha)).mp (h2 a ha)⟩
    intro hm
    rcases List.mem_append.mp hm with hm | hm
    · exact hU1 _ hm rfl
    · rcases List.mem_cons.mp hm with hm | hm
      · cases hm
      · exact hU2 _ hm rfl
  · rintro ⟨_, h1, h2⟩
    exact ⟨fun a ha => (clsK_LE_iff S typ new a (hU1 a ha)).mpr (h1 a ha),
      fun a ha => (clsK_RE_iff S typ new a (hU2 a ha)).mpr (h2 a ha)⟩

end main


/-! ### Part E: `insertRange` (= `calc_element_insert_range`) and `qValid` (= `list_valid_sub_elements`) -/

section ins
variable (S : Spec)

/-- **the element called `name` may be created** below a parent `h` with content `kids` (declarative):
the parent takes sub-elements, `name` is found in the version, and — unless the parent is a BAG / MIXED — no existing child
conflicts with it (same element with exhausted multiplicity, or another alternative of a common CHOICE group) -/
def Allowed (h : Hdr) (kids : Items) (name ver : Nat) : Prop :=
  S.mode h.ety.typ ≠ .characters ∧
  ∃ e newIdx, S.findSub h.ety.typ name ver = some (e, newIdx) ∧
    (S.mode h.ety.typ = .bag ∨ S.mode h.ety.typ = .mixed ∨
      ∀ x ∈ kidKeys S h.ety.typ ver kids, ¬ Conflict S h.ety.typ newIdx x)

theorem kidOfName_of_findSub (typ ver name : Nat) (e : ETy) (idx : List Nat) (h : S.findSub typ name ver = some (e, idx)) :
    kidOfName S typ ver name = .key idx := by
  unfold kidOfName Spec.findSubOr
  rw [h]

/-- C07, "can be created exactly when allowed" -/
theorem insertRange_isSome_iff (h : Hdr) (kids : Items) (name ver : Nat) (hord : OrderedKids S h.ety.typ ver kids) :
    (insertRange S h kids name ver).isSome ↔ Allowed S h kids name ver := by
  unfold insertRange Allowed
  by_cases hc : S.mode h.ety.typ = .characters
  · simp [hc]
  · rw [if_neg hc]
    cases hf : S.findSub h.ety.typ name ver with
    | none => simp
    | some x =>
      obtain ⟨e, newIdx⟩ := x
      simp only [Option.some.injEq, Prod.mk.injEq, ne_eq, hc, not_false_eq_true, true_and]
      by_cases hb : S.mode h.ety.typ = .bag ∨ S.mode h.ety.typ = .mixed
      · rw [if_pos hb]
        simp only [Option.isSome_some, true_iff]
        rcases hb with hb | hb
        · exact ⟨e, newIdx, ⟨rfl, rfl⟩, Or.inl hb⟩
        · exact ⟨e, newIdx, ⟨rfl, rfl⟩, Or.inr (Or.inl hb)⟩
      · rw [if_neg hb]
        have hn := rangeScan_none_iff S h.ety.typ ver newIdx kids hord
        constructor
        · intro hs
          refine ⟨e, newIdx, ⟨rfl, rfl⟩, Or.inr (Or.inr ?_)⟩
          intro x hx hcf
          have := hn.mpr ⟨x, hx, hcf⟩
          rw [this] at hs
          cases hs
        · rintro ⟨e', idx', ⟨rfl, rfl⟩, h3⟩
          rcases h3 with h3 | h3 | h3
          · exact absurd (Or.inl h3) hb
          · exact absurd (Or.inr h3) hb
          · cases hr : rangeScan S h.ety.typ ver newIdx kids 0 0 0 with
            | some r => rfl
            | none =>
              obtain ⟨x, hx, hcf⟩ := hn.mp hr
              exact absurd hcf (h3 x hx)

/-- C07, "the range is exactly the set of positions that keep the sub-elements in specification order", for a parent that
is a SEQUENCE or a CHOICE (with whatever groups nested in it) -/
theorem insertRange_range_exact (h : Hdr) (kids : Items) (name ver : Nat)
    (hmode : S.mode h.ety.typ = .sequence ∨ S.mode h.ety.typ = .choice)
    (hord : OrderedKids S h.ety.typ ver kids) (lo hi : Nat) (hr : insertRange S h kids name ver = some (lo, hi))
    (nh : Hdr) (nk : Items) (hname : nh.name = name) :
    ∀ p, p ≤ kids.length →
      ((lo ≤ p ∧ p ≤ hi) ↔ OrderedKids S h.ety.typ ver (kids.insertAt (fun r => .elem nh nk r) p)) := by
  unfold insertRange at hr
  have hc : S.mode h.ety.typ ≠ .characters := by rcases hmode with e | e <;> rw [e] <;> simp
  have hb : ¬ (S.mode h.ety.typ = .bag ∨ S.mode h.ety.typ = .mixed) := by rcases hmode with e | e <;> rw [e] <;> simp
  rw [if_neg hc] at hr
  cases hf : S.findSub h.ety.typ name ver with
  | none => rw [hf] at hr; cases hr
  | some x =>
    obtain ⟨e, newIdx⟩ := x
    rw [hf] at hr
    simp only [if_neg hb] at hr
    exact rangeScan_range_exact S h.ety.typ ver newIdx kids hord lo hi hr nh nk
      (by rw [hname]; exact kidOfName_of_findSub S _ ver name e newIdx hf)

/-! #### `list_valid_sub_elements` -/

/-- what `list_valid_sub_elements` returns: (name, is named, is currently allowed) of every sub-element listed for the
version -/
def validEntries (h : Hdr) (kids : Items) (ver : Nat) : List (Nat × Bool × Bool) :=
  (S.listSub h.ety.typ).filterMap fun (nm, e, mask, _) =>
    if (mask &&& ver) ≠ 0 then
      some (nm, decide (((S.shortNameMask e.typ).getD 0 &&& ver) ≠ 0), (insertRange S h kids nm ver).isSome)
    else none

def showValid (l : List (Nat × Bool × Bool)) : String :=
  let l' := l.map fun (nm, named, allowed) => s!"{nm}:{if named then 1 else 0}:{if allowed then 1 else 0}"
  if l'.isEmpty then "ok -" else "ok " ++ ",".intercalate l'

theorem filterMap_congr' {α β : Type} {f g : α → Option β} (l : List α) (h : ∀ x, f x = g x) :
    l.filterMap f = l.filterMap g := by
  have : f = g := funext h
  rw [this]

/-- the answer of the model to the `valid` request is the rendering of `validEntries` -/
theorem qValid_eq (V : Env) (w : World) (p k : Nat) (c : List (Hdr × Items)) (ver : Nat) (x : Hdr × Items)
    (hh : hdrOf w p = some x) (hl : locate w p = some (k, c)) (hv : minVersion V w.models[k]! c = some ver) :
    qValid S V w p = showValid (validEntries S (lastOf c).1 (lastOf c).2 ver) := by
  unfold qValid showValid validEntries
  simp only [hh, hl, hv, List.map_filterMap]
  congr 2
  all_goals (
    first | apply filterMap_congr' | (apply congrArg; apply filterMap_congr')
    rintro ⟨nm, e, mask, idx⟩
    by_cases hm : (mask &&& ver) ≠ 0
    · simp [hm]
    · simp [hm])

/-- **exactly the sub-elements reported as currently allowed can be created**: a name is reported with the flag "allowed"
iff `calc_element_insert_range` answers a range for it -/
theorem valid_allowed_iff (h : Hdr) (kids : Items) (nm ver : Nat) :
    (∃ named, (nm, named, true) ∈ validEntries S h kids ver) ↔ (insertRange S h kids nm ver).isSome := by
  unfold validEntries
  simp only [List.mem_filterMap]
  constructor
  · rintro ⟨named, ⟨nm', e, mask, idx⟩, _, hx⟩
    simp only at hx
    split at hx
    · simp only [Option.some.injEq, Prod.mk.injEq] at hx
      obtain ⟨rfl, _, h3⟩ := hx
      exact h3
    · cases hx
  · intro hs
    have hf : ∃ e idx, S.findSub h.ety.typ nm ver = some (e, idx) := by
      unfold insertRange at hs
      split at hs
      · cases hs
      · cases hf : S.findSub h.ety.typ nm ver with
        | none => rw [hf] at hs; cases hs
        | some x => exact ⟨x.1, x.2, rfl⟩
    obtain ⟨e, idx, hf⟩ := hf
    obtain ⟨m, hm, hv⟩ := Spec.findSubT_sound S nm ver (S.depth + 1) h.ety.typ e idx hf
    refine ⟨decide (((S.shortNameMask e.typ).getD 0 &&& ver) ≠ 0), (nm, e, m, idx), hm, ?_⟩
    simp only
    rw [if_pos (by rw [Nat.and_comm]; exact hv), hs]

end ins


/-! ### Part F: BAG / MIXED parents without nested groups -/

section bag
variable (S : Spec)

/-- no sub-entry of a BAG / MIXED type (or group) is a group (true of the real tables; evaluated) -/
def BagFlat : Prop :=
  ∀ t, (S.mode t = .bag ∨ S.mode t = .mixed) → ∀ i, i < S.subCount t → ∀ g, S.subAt t i ≠ .group g

/-- the first index of a path is in range -/
def HeadOk (t : Nat) (a : List Nat) : Prop := ∀ i rest, a = i :: rest → i < S.subCount t

theorem findSubT_headOk (name v fuel t : Nat) (e : ETy) (idx : List Nat) (h : S.findSubT name v fuel t = some (e, idx)) :
    HeadOk S t idx := by
  cases fuel with
  | zero => simp [Spec.findSubT] at h
  | succ fuel =>
    simp only [Spec.findSubT] at h
    obtain ⟨pos, hpos, hf⟩ := List.exists_of_findSome?_eq_some h
    have hlt : pos < S.subCount t := List.mem_range.mp hpos
    intro i rest hi
    cases hs : S.subAt t pos with
    | elem d =>
      rw [hs] at hf
      simp only at hf
      split at hf
      · simp only [Option.some.injEq, Prod.mk.injEq] at hf
        rw [← hf.2] at hi
        cases hi
        exact hlt
      · cases hf
    | group g =>
      rw [hs] at hf
      simp only at hf
      split at hf
      · simp only [Option.some.injEq, Prod.mk.injEq] at hf
        rw [← hf.2] at hi
        cases hi
        exact hlt
      · cases hf

theorem findSubOr_headOk (t name v : Nat) (e : ETy) (idx : List Nat) (h : S.findSubOr t name v = some (e, idx)) :
    HeadOk S t idx := by
  unfold Spec.findSubOr at h
  split at h
  · rename_i x hx
    cases h
    exact findSubT_headOk S name v _ t e idx hx
  · exact findSubT_headOk S name _ _ t e idx h

theorem kidKeys_headOk (typ ver : Nat) (kids : Items) : ∀ x ∈ kidKeys S typ ver kids, HeadOk S typ x := by
  intro x hx
  simp only [kidKeys, List.mem_filterMap] at hx
  obtain ⟨a, ha, hk⟩ := hx
  induction kids with
  | nil => simp [kidsOf] at ha
  | text c r ih =>
    simp only [kidsOf, List.mem_cons] at ha
    rcases ha with rfl | ha
    · cases hk
    · exact ih ha
  | elem h k r _ ih =>
    simp only [kidsOf, List.mem_cons] at ha
    rcases ha with rfl | ha
    · unfold kidOfName at hk
      cases hf : S.findSubOr typ h.name ver with
      | none => rw [hf] at hk; cases hk
      | some y =>
        rw [hf] at hk
        simp only [Kid.key?, Option.some.injEq] at hk
        subst hk
        exact findSubOr_headOk S typ h.name ver y.1 y.2 hf
    · exact ih ha

/-- in a flat BAG / MIXED every pair is in specification order -/
theorem pairOk_bag (hB : BagFlat S) (t : Nat) (hm : S.mode t = .bag ∨ S.mode t = .mixed) (a b : List Nat) (ha : HeadOk S t a) :
    PairOk S t a b := by
  have hcg : S.commonGroup t a b = t := by
    cases a with
    | nil => cases b <;> rfl
    | cons i as =>
      cases b with
      | nil => rfl
      | cons j bs =>
        simp only [Spec.commonGroup]
        split
        · have hlt := ha i as rfl
          cases hs : S.subAt t i with
          | elem d => rfl
          | group g => exact absurd hs (hB t hm i hlt g)
        · rfl
  unfold PairOk
  rw [hcg]
  rcases hm with hm | hm <;> simp [hm]

/-- so in a flat BAG / MIXED the children are in specification order as soon as they are known -/
theorem orderedKids_bag (hB : BagFlat S) (typ ver : Nat) (hm : S.mode typ = .bag ∨ S.mode typ = .mixed) (kids : Items)
    (hk : Kid.unknown ∉ kidsOf S typ ver kids) : OrderedKids S typ ver kids := by
  refine ⟨hk, ?_⟩
  have : ∀ (l : List (List Nat)), (∀ x ∈ l, HeadOk S typ x) → l.Pairwise (PairOk S typ) := by
    intro l
    induction l with
    | nil => intro _; exact List.Pairwise.nil
    | cons x r ih =>
      intro hall
      refine List.pairwise_cons.mpr ⟨fun y _ => pairOk_bag S hB typ hm x y (hall x List.mem_cons_self), ?_⟩
      exact ih (fun y hy => hall y (List.mem_cons_of_mem _ hy))
  exact this _ (kidKeys_headOk S typ ver kids)

/-- C07 for a flat BAG / MIXED parent: every position keeps the children in specification order, and the whole of
`0 ..= len` is reported -/
theorem insertRange_range_exact_bag (hB : BagFlat S) (h : Hdr) (kids : Items) (name ver : Nat)
    (hmode : S.mode h.ety.typ = .bag ∨ S.mode h.ety.typ = .mixed)
    (hord : OrderedKids S h.ety.typ ver kids) (lo hi : Nat) (hr : insertRange S h kids name ver = some (lo, hi))
    (nh : Hdr) (nk : Items) (hname : nh.name = name) :
    ∀ p, p ≤ kids.length →
      ((lo ≤ p ∧ p ≤ hi) ↔ OrderedKids S h.ety.typ ver (kids.insertAt (fun r => .elem nh nk r) p)) := by
  intro p hp
  unfold insertRange at hr
  have hc : S.mode h.ety.typ ≠ .characters := by rcases hmode with e | e <;> rw [e] <;> simp
  rw [if_neg hc] at hr
  cases hf : S.findSub h.ety.typ name ver with
  | none => rw [hf] at hr; cases hr
  | some x =>
    obtain ⟨e, newIdx⟩ := x
    rw [hf] at hr
    simp only [if_pos hmode, Option.some.injEq, Prod.mk.injEq] at hr
    have hok : OrderedKids S h.ety.typ ver (kids.insertAt (fun r => .elem nh nk r) p) := by
      refine orderedKids_bag S hB _ ver hmode _ ?_
      rw [kidsOf_insertAt, hname, kidOfName_of_findSub S _ ver name e newIdx hf]
      intro hm
      rcases List.mem_append.mp hm with hm | hm
      · exact hord.1 (List.mem_of_mem_take hm)
      · rcases List.mem_cons.mp hm with hm | hm
        · cases hm
        · exact hord.1 (List.mem_of_mem_drop hm)
    constructor
    · intro _; exact hok
    · intro _; omega

end bag

/-! ### Part G: a combined statement, and reading names in another version -/

section combined
variable (S : Spec)

/-- C07 for every kind of parent (SEQUENCE, CHOICE, with nested groups; BAG / MIXED without nested groups): with the
children in specification order, the reported range is exactly the set of positions that keep them in specification order -/
theorem insertRange_range_exact_all (hB : BagFlat S) (h : Hdr) (kids : Items) (name ver : Nat)
    (hord : OrderedKids S h.ety.typ ver kids) (lo hi : Nat) (hr : insertRange S h kids name ver = some (lo, hi))
    (nh : Hdr) (nk : Items) (hname : nh.name = name) :
    ∀ p, p ≤ kids.length →
      ((lo ≤ p ∧ p ≤ hi) ↔ OrderedKids S h.ety.typ ver (kids.insertAt (fun r => .elem nh nk r) p)) := by
  cases hm : S.mode h.ety.typ with
  | sequence => exact insertRange_range_exact S h kids name ver (Or.inl hm) hord lo hi hr nh nk hname
  | choice => exact insertRange_range_exact S h kids name ver (Or.inr hm) hord lo hi hr nh nk hname
  | bag => exact insertRange_range_exact_bag S hB h kids name ver (Or.inl hm) hord lo hi hr nh nk hname
  | mixed => exact insertRange_range_exact_bag S hB h kids name ver (Or.inr hm) hord lo hi hr nh nk hname
  | characters =>
    unfold insertRange at hr
    rw [if_pos hm] at hr
    cases hr

/-- C07 in one statement: below a parent whose children are in specification order, `create_sub_element_at(name, pos)`
succeeds exactly when the new element at `pos` keeps the children in specification order (given that `name` is allowed at
all — `insertRange_isSome_iff` — and is not a named element, for which `create_named_sub_element_at` is the call) -/
theorem opCreate_ok_iff_keeps_order (V : Env) (hB : BagFlat S) (w : World) (p name pos k : Nat) (c : List (Hdr × Items))
    (ver lo hi : Nat) (ety : ETy) (idx : List Nat)
    (hl : locate w p = some (k, c)) (hv : minVersion V (w.models[k]!) c = some ver)
    (hr : insertRange S (lastOf c).1 (lastOf c).2 name ver = some (lo, hi))
    (hf : S.findSub (lastOf c).1.ety.typ name ver = some (ety, idx)) (hn : S.isNamedIn ety.typ ver = false)
    (hord : OrderedKids S (lastOf c).1.ety.typ ver (lastOf c).2) (hp : pos ≤ (lastOf c).2.length)
    (nh : Hdr) (nk : Items) (hname : nh.name = name) :
    (opCreate S V w p name (some pos)).2 ≠ .err ↔
      OrderedKids S (lastOf c).1.ety.typ ver ((lastOf c).2.insertAt (fun r => .elem nh nk r) pos) := by
  rw [← insertRange_range_exact_all S hB _ _ name ver hord lo hi hr nh nk hname pos hp]
  unfold opCreate
  simp only [hl, hv, hr, hf, hn, Option.getD_some]
  by_cases hpos : lo ≤ pos ∧ pos ≤ hi
  · simp [hpos]
  · simp [hpos]

/-- nothing is found for the empty version mask -/
theorem findSubT_zero (name : Nat) : ∀ (fuel t : Nat), S.findSubT name 0 fuel t = none
  | 0, _ => rfl
  | fuel + 1, t => by
    simp only [Spec.findSubT]
    rw [List.findSome?_eq_none_iff]
    intro pos _
    cases S.subAt t pos with
    | elem d => simp
    | group g => simp [findSubT_zero name fuel g]

/-- version `v` reads the names of children like version `ver` does -/
def SameKeys (v ver : Nat) : Prop := ∀ t name, kidOfName S t v name = kidOfName S t ver name

theorem SameKeys.refl (v : Nat) : SameKeys S v v := fun _ _ => rfl

theorem kidsOf_sameKeys (v ver : Nat) (hk : SameKeys S v ver) (typ : Nat) (kids : Items) :
    kidsOf S typ v kids = kidsOf S typ ver kids := by
  induction kids with
  | nil => rfl
  | text c r ih => simp only [kidsOf, ih]
  | elem h k r _ ih => simp only [kidsOf, ih, hk typ h.name]

theorem orderedKids_sameKeys (v ver : Nat) (hk : SameKeys S v ver) (typ : Nat) (kids : Items) :
    OrderedKids S typ v kids ↔ OrderedKids S typ ver kids := by
  unfold OrderedKids kidKeys
  rw [kidsOf_sameKeys S v ver hk]

end combined


/-! ### Part H: a specification with nested groups — non-vacuity, and where the code differs from the declarative reading -/

instance (S : Spec) (typ : Nat) (a b : List Nat) : Decidable (PairOk S typ a b) := by
  unfold PairOk; split <;> infer_instance

instance (S : Spec) (typ : Nat) (a b : List Nat) : Decidable (Conflict S typ a b) := by
  unfold Conflict; split <;> infer_instance

instance (S : Spec) (typ ver : Nat) (kids : Items) : Decidable (OrderedKids S typ ver kids) := by
  unfold OrderedKids; infer_instance

/-- type 0 = SEQUENCE ( A?, CHOICE#10 ( B*, SEQUENCE#11 ( C?, D* ) ), BAG#12 ( E*, F* ), G? );
type 13 = BAG ( A?, SEQUENCE#11 ( C?, D* ) ) — a BAG with a nested group (the real tables have none);
element `X` is called `100 + X`'s definition number: A=101, B=102, C=103, D=104, E=105, F=106, G=107; all of type 20 (characters) -/
def grpSpec : Spec where
  nTypes := 21
  nDefs := 8
  nSubs := 12
  nAttrs := 0
  nVer := 12
  nCData := 1
  nRefItems := 0
  subStart := fun t => if t = 0 then 0 else if t = 10 then 4 else if t = 11 then 6 else if t = 12 then 8 else if t = 13 then 10 else 12
  subEnd := fun t => if t = 0 then 4 else if t = 10 then 6 else if t = 11 then 8 else if t = 12 then 10 else 12
  subVer := fun _ => 0
  attrStart := fun _ => 0
  attrEnd := fun _ => 0
  attrVer := fun _ => 0
  cdataOf := fun t => if t = 20 then some 0 else none
  mode := fun t => if t = 0 ∨ t = 11 then .sequence else if t = 10 then .choice else if t = 12 ∨ t = 13 then .bag else .characters
  refStart := fun _ => 0
  refEnd := fun _ => 0
  subEntry := fun i =>
    match i with
    | 0 => .elem 1 | 1 => .group 10 | 2 => .group 12 | 3 => .elem 7
    | 4 => .elem 2 | 5 => .group 11
    | 6 => .elem 3 | 7 => .elem 4
    | 8 => .elem 5 | 9 => .elem 6
    | 10 => .elem 1 | _ => .group 11
  verInfo := fun _ => 1
  attrName := fun _ => 0
  attrCData := fun _ => 0
  attrRequired := fun _ => false
  refItem := fun _ => 0
  defName := fun d => 100 + d
  defType := fun _ => 20
  defMult := fun d => if d = 2 ∨ d = 4 ∨ d = 5 ∨ d = 6 then .any else .zeroOrOne
  defOrdered := fun _ => false
  defSplit := fun _ => 0
  cspec := fun _ => .string false none
  refTypeIdx := 99
  rootDef := 0
  depth := 2
  nmShortName := 999
  atDest := 998

def gh (id name typ : Nat) : Hdr :=
  { id := id, name := name, ety := ⟨name - 100, typ⟩, parent := .elem 0, attrs := [], files := [], comment := none }

/-- children called `names` (leaf elements) -/
def gk : List Nat → Items
  | [] => .nil
  | n :: r => .elem (gh (n + 1000) n 20) .nil (gk r)

-- the index paths
example : kidKeys grpSpec 0 1 (gk [101, 102, 103, 104, 105, 106, 107]) = [[0], [1, 0], [1, 1, 0], [1, 1, 1], [2, 0], [2, 1], [3]] := by decide
-- C goes in front of D (nested SEQUENCE inside the CHOICE)
example : insertRange grpSpec (gh 0 100 0) (gk [104]) 103 1 = some (0, 0) := by decide
-- D (any) next to a D
example : insertRange grpSpec (gh 0 100 0) (gk [103, 104]) 104 1 = some (1, 2) := by decide
-- B excludes the other alternative of the CHOICE (C / D), and vice versa
example : insertRange grpSpec (gh 0 100 0) (gk [103]) 102 1 = none := by decide
example : insertRange grpSpec (gh 0 100 0) (gk [102]) 104 1 = none := by decide
example : Conflict grpSpec 0 [1, 0] [1, 1, 0] := by decide
-- B may be repeated (multiplicity any), C may not
example : insertRange grpSpec (gh 0 100 0) (gk [101, 102]) 102 1 = some (1, 2) := by decide
example : insertRange grpSpec (gh 0 100 0) (gk [103]) 103 1 = none := by decide
-- the BAG nested in the SEQUENCE: E anywhere among the E / F, behind A and the CHOICE, in front of G
example : insertRange grpSpec (gh 0 100 0) (gk [101, 102, 106, 105, 107]) 105 1 = some (2, 4) := by decide
example : OrderedKids grpSpec 0 1 (gk [101, 102, 106, 105, 107]) := by decide
example : OrderedKids grpSpec 0 1 (gk [101, 103, 104, 104, 106, 107]) := by decide
example : ¬ OrderedKids grpSpec 0 1 (gk [102, 103]) := by decide
example : ¬ OrderedKids grpSpec 0 1 (gk [104, 103]) := by decide
example : ¬ OrderedKids grpSpec 0 1 (gk [105, 102]) := by decide

/-- **Observation 1** (legal position refused): a child element the parent type does not know (name 555) is skipped by the
scan WITHOUT advancing the upper end of the range, so nothing can be appended behind it — although nothing orders the new
element relative to it.  (This is why `OrderedKids` requires the children to be known; the core operations never create an
unknown child, `run_wkidsKnown`.) -/
theorem obs_unknown_child_blocks_append :
    insertRange grpSpec (gh 0 100 0) (gk [101, 555]) 107 1 = some (1, 1) ∧
    insertRange grpSpec (gh 0 100 0) (gk [101]) 107 1 = some (1, 1) ∧
    insertRange grpSpec (gh 0 100 0) (gk [555]) 107 1 = some (0, 0) := by decide

/-- **Observation 2** (position accepted that breaks the order, on a hand-made table only): a parent whose OWN mode is BAG
is answered `0 ..= len` without a scan, also when one of its sub-entries is a SEQUENCE group — D C is accepted, and so is a
second C (multiplicity at most one).  The same SEQUENCE group below a SEQUENCE or CHOICE parent is scanned (examples above).
The real tables have no BAG / MIXED with a nested group (`BagFlat`, evaluated), so this is not reachable there. -/
theorem obs_bag_parent_not_scanned :
    insertRange grpSpec (gh 0 100 13) (gk [104]) 103 1 = some (0, 1) ∧
    ¬ OrderedKids grpSpec 13 1 (gk [104, 103]) ∧
    insertRange grpSpec (gh 0 100 13) (gk [103]) 103 1 = some (0, 1) ∧
    ¬ OrderedKids grpSpec 13 1 (gk [103, 103]) := by decide

theorem grpSpec_not_bagFlat : ¬ BagFlat grpSpec := fun h => h 13 (Or.inl (by decide)) 1 (by decide) 11 (by decide)

/-- **Observation 3** (why the history invariant is relative to a version): the index path of a child is found BY NAME IN A
VERSION.  On `cexSpec` (`Lemmas/RangeSn.lean`: SHORT-NAME is sub-entry 0 in version 1 and sub-entry 2 in version 2, FOO is
sub-entry 1) the content [SHORT-NAME, FOO] is in specification order for version 1 and not for version 2: changing the
version of a file can take an ordered element out of order, so `WOrdered` needs `KeysStable` (or one version). -/
theorem obs_order_depends_on_version :
    OrderedKids cexSpec 0 1 (.elem (cexHdr 1 999 5) .nil (.elem (cexHdr 2 102 5) .nil .nil)) ∧
    ¬ OrderedKids cexSpec 0 2 (.elem (cexHdr 1 999 5) .nil (.elem (cexHdr 2 102 5) .nil .nil)) := by decide


end AV.W
