/-
Boolean table check for `NameWF` (`Lemmas/IndexDefs.lean`) on a packed specification, and its soundness.

`namedAllB P p` scans the data types `t < P.nTypes` and checks `p t` for the named ones; together with
`P.datatypes < 2 ^ (176 * P.nTypes)` (every record beyond the table reads as zeros, so no `t ≥ P.nTypes` is named) this gives
`∀ t, isNamed t → p t` for ALL natural numbers `t` (`namedAllB_sound`).

`nameWfvB P vOk` instantiates the scan with the four facts of `NameWF`, the SEQUENCE requirement being asked only of types
whose SHORT-NAME exists in one of the versions `vOk`; `nameWfB P = nameWfvB P 0xFFFFFFFF` is the check for `NameWF` itself.
`snOnlyFirstB P` instantiates it with the scan of the sub-element listing for a second SHORT-NAME (`SnOnlyFirst`,
`Lemmas/RangeSn.lean`).
-/
import AutosarVerif.Lemmas.IndexDefs
import AutosarVerif.Lemmas.RangeSn
import AutosarVerif.Model.SpecPacked

namespace AV
open AV.W

def Mode.isSeq : Mode → Bool
  | .sequence => true
  | _ => false

def Mode.isChars : Mode → Bool
  | .characters => true
  | _ => false

def Mult.isAny : Mult → Bool
  | .any => true
  | _ => false

theorem Mode.eq_of_isSeq {m : Mode} (h : m.isSeq = true) : m = .sequence := by
  cases m <;> first | rfl | exact absurd h (by decide)

theorem Mode.eq_of_isChars {m : Mode} (h : m.isChars = true) : m = .characters := by
  cases m <;> first | rfl | exact absurd h (by decide)

theorem Mult.ne_of_isAny {m : Mult} (h : m.isAny = false) : m ≠ .any := by
  cases m <;> first | exact absurd h (by decide) | exact (fun h' => by cases h')

namespace PackedSpec

/-! ### records beyond the table -/

theorem fld_eq_zero {data w n i : Nat} (off width : Nat) (h : data < 2 ^ (w * n)) (hi : n ≤ i) :
    fld data w i off width = 0 := by
  have hs : data >>> (w * i + off) = 0 := by
    rw [Nat.shiftRight_eq_div_pow]
    apply Nat.div_eq_of_lt
    apply Nat.lt_of_lt_of_le h
    apply Nat.pow_le_pow_right (by decide)
    have := Nat.mul_le_mul_left w hi
    omega
  show (data >>> (w * i + off)) % 2 ^ width = 0
  rw [hs]
  exact Nat.zero_mod _

/-- a data type index beyond the table has no sub-entries, hence no SHORT-NAME -/
theorem isNamed_of_ge (P : PackedSpec) (h : P.datatypes < 2 ^ (176 * P.nTypes)) (t : Nat) (ht : P.nTypes ≤ t) :
    P.toSpec.isNamed t = false := by
  have hc : P.toSpec.subCount t = 0 := by
    show fld P.datatypes 176 t 16 16 - fld P.datatypes 176 t 0 16 = 0
    rw [fld_eq_zero 16 16 h ht]
    exact Nat.zero_sub _
  have hm : P.toSpec.shortNameMask t = none := by
    unfold Spec.shortNameMask
    rw [if_pos hc]
  unfold Spec.isNamed
  rw [hm]
  rfl

/-! ### the scan over the named types -/

/-- `p` holds of every named data type of the table, and the records beyond the table are zero -/
def namedAllB (P : PackedSpec) (p : Nat → Bool) : Bool :=
  decide (P.datatypes < 2 ^ (176 * P.nTypes)) &&
  (List.range P.nTypes).all (fun t => !P.toSpec.isNamed t || p t)

theorem namedAllB_sound (P : PackedSpec) (p : Nat → Bool) (h : P.namedAllB p = true) :
    ∀ t, P.toSpec.isNamed t = true → p t = true := by
  unfold namedAllB at h
  rw [Bool.and_eq_true, decide_eq_true_eq, List.all_eq_true] at h
  obtain ⟨hlt, hall⟩ := h
  intro t hn
  by_cases ht : t < P.nTypes
  · have := hall t (List.mem_range.mpr ht)
    rw [hn] at this
    exact this
  · have := isNamed_of_ge P hlt t (Nat.le_of_not_lt ht)
    rw [hn] at this
    cases this

/-- the four facts of `NameWF` for the named type `t` (SEQUENCE only if its SHORT-NAME exists in one of the versions `vOk`) -/
def snOkB (P : PackedSpec) (vOk t : Nat) : Bool :=
  let S := P.toSpec
  ((vOk &&& S.subMask t 0) == 0 || (S.mode t).isSeq) &&
  (0xFFFFFFFF &&& S.subMask t 0) != 0 &&
  (match S.subAt t 0 with
    | .group _ => true
    | .elem d =>
      !(S.defMult d).isAny && (S.mode (S.defType d)).isChars && !S.isNamed (S.defType d) &&
      (match S.chardataSpec (S.defType d) with
        | some sp => sp.stringLike
        | none => false))

def nameWfvB (P : PackedSpec) (vOk : Nat) : Bool := P.namedAllB (P.snOkB vOk)

/-- the check for `NameWF` -/
def nameWfB (P : PackedSpec) : Bool := P.nameWfvB 0xFFFFFFFF

theorem nameWfvB_sound (P : PackedSpec) (vOk : Nat) (h : P.nameWfvB vOk = true) : NameWFv P.toSpec vOk := by
  have hall := namedAllB_sound P (P.snOkB vOk) h
  have hsub : ∀ t d, P.toSpec.isNamed t = true → P.toSpec.subAt t 0 = .elem d →
      ((P.toSpec.defMult d).isAny = false ∧ (P.toSpec.mode (P.toSpec.defType d)).isChars = true) ∧
        P.toSpec.isNamed (P.toSpec.defType d) = false ∧
        ∃ sp, P.toSpec.chardataSpec (P.toSpec.defType d) = some sp ∧ sp.stringLike = true := by
    intro t d hn hd
    have h1 := hall t hn
    unfold snOkB at h1
    simp only [Bool.and_eq_true] at h1
    have h2 := h1.2
    rw [hd] at h2
    simp only [Bool.and_eq_true, Bool.not_eq_true'] at h2
    obtain ⟨⟨⟨ha, hb⟩, hc⟩, he⟩ := h2
    refine ⟨⟨ha, hb⟩, hc, ?_⟩
    cases hs : P.toSpec.chardataSpec (P.toSpec.defType d) with
    | none => rw [hs] at he; cases he
    | some sp => rw [hs] at he; exact ⟨sp, rfl, he⟩
  refine ⟨?_, ?_, ?_, ?_⟩
  · intro t hn hv
    have h1 := hall t hn
    unfold snOkB at h1
    simp only [Bool.and_eq_true, Bool.or_eq_true, beq_iff_eq] at h1
    cases h1.1.1 with
    | inl h0 => exact absurd h0 hv
    | inr hs => exact Mode.eq_of_isSeq hs
  · intro t hn
    have h1 := hall t hn
    unfold snOkB at h1
    simp only [Bool.and_eq_true, bne_iff_ne] at h1
    exact h1.1.2
  · intro t d hn hd
    exact Mult.ne_of_isAny (hsub t d hn hd).1.1
  · intro t d hn hd
    obtain ⟨⟨_, hb⟩, hc, he⟩ := hsub t d hn hd
    exact ⟨Mode.eq_of_isChars hb, hc, he⟩

theorem nameWfB_sound (P : PackedSpec) (h : P.nameWfB = true) : NameWF P.toSpec :=
  (nameWfvB_sound P 0xFFFFFFFF h).toNameWF

/-! ### `SnOnlyFirst`: no other listed sub-element of a named type is called SHORT-NAME -/

def snOnlyFirstB (P : PackedSpec) : Bool :=
  P.namedAllB fun t => (P.toSpec.listSub t).all fun r => r.1 != P.toSpec.nmShortName || r.2.2.2 == [0]

theorem snOnlyFirstB_sound (P : PackedSpec) (h : P.snOnlyFirstB = true) : SnOnlyFirst P.toSpec := by
  intro t nm e m idx hn hl hnm
  have h1 := namedAllB_sound P _ h t hn
  rw [List.all_eq_true] at h1
  have h2 := h1 (nm, e, m, idx) hl
  simp only [Bool.or_eq_true, bne_iff_ne, beq_iff_eq] at h2
  cases h2 with
  | inl hne => exact absurd hnm hne
  | inr he => exact he

end PackedSpec
end AV
