/-
Semantics of regular expressions (`Matches`, the textbook inductive definition) and correctness of
the derivative machinery of `Model/Regex.lean`:
`deriv_correct`, `nullable_correct`, `matchD_correct`, and `closed_sound` — a certificate accepted
by `closed` proves that the DFA accepts exactly the language of the regex, for all strings.
-/
import AutosarVerif.Model.Regex

namespace AV.Rx
open Re

inductive Matches : Re → List Nat → Prop
  | eps : Matches eps []
  | cls (rs : List (Nat × Nat)) (neg : Bool) (b : Nat) : inCls rs neg b = true → Matches (cls rs neg) [b]
  | cat {a b : Re} {s t : List Nat} : Matches a s → Matches b t → Matches (cat a b) (s ++ t)
  | altL {a b : Re} {s : List Nat} : Matches a s → Matches (alt a b) s
  | altR {a b : Re} {s : List Nat} : Matches b s → Matches (alt a b) s
  | starNil {a : Re} : Matches (star a) []
  | starCons {a : Re} {s t : List Nat} : Matches a s → Matches (star a) t → Matches (star a) (s ++ t)

theorem not_matches_empty (s : List Nat) : ¬ Matches empty s := by
  intro h; cases h

theorem matches_eps_iff (s : List Nat) : Matches eps s ↔ s = [] := by
  constructor
  · intro h; cases h; rfl
  · intro h; subst h; exact Matches.eps

theorem matches_cls_iff (rs : List (Nat × Nat)) (neg : Bool) (s : List Nat) :
    Matches (cls rs neg) s ↔ ∃ b, s = [b] ∧ inCls rs neg b = true := by
  constructor
  · intro h; cases h with | cls _ _ b hb => exact ⟨b, rfl, hb⟩
  · rintro ⟨b, rfl, hb⟩; exact Matches.cls rs neg b hb

theorem matches_cat_iff (a b : Re) (w : List Nat) :
    Matches (cat a b) w ↔ ∃ u v, w = u ++ v ∧ Matches a u ∧ Matches b v := by
  constructor
  · intro h; cases h with | cat h1 h2 => exact ⟨_, _, rfl, h1, h2⟩
  · rintro ⟨u, v, rfl, h1, h2⟩; exact Matches.cat h1 h2

theorem matches_alt_iff (a b : Re) (w : List Nat) :
    Matches (alt a b) w ↔ Matches a w ∨ Matches b w := by
  constructor
  · intro h; cases h with
    | altL h => exact Or.inl h
    | altR h => exact Or.inr h
  · rintro (h | h)
    · exact Matches.altL h
    · exact Matches.altR h

theorem nullable_of_matches_nil {r : Re} {s : List Nat} (h : Matches r s) (hs : s = []) :
    nullable r = true := by
  induction h with
  | eps => rfl
  | cls _ _ _ _ => simp at hs
  | cat _ _ ih1 ih2 =>
    simp only [List.append_eq_nil_iff] at hs
    simp [nullable, ih1 hs.1, ih2 hs.2]
  | altL _ ih => simp [nullable, ih hs]
  | altR _ ih => simp [nullable, ih hs]
  | starNil => rfl
  | starCons _ _ _ _ => rfl

theorem nullable_correct (r : Re) : nullable r = true ↔ Matches r [] := by
  constructor
  · intro h
    induction r with
    | empty => simp [nullable] at h
    | eps => exact Matches.eps
    | cls _ _ => simp [nullable] at h
    | cat a b iha ihb =>
      simp only [nullable, Bool.and_eq_true] at h
      have := Matches.cat (iha h.1) (ihb h.2)
      simpa using this
    | alt a b iha ihb =>
      simp only [nullable, Bool.or_eq_true] at h
      rcases h with h | h
      · exact Matches.altL (iha h)
      · exact Matches.altR (ihb h)
    | star a _ => exact Matches.starNil
  · intro h; exact nullable_of_matches_nil h rfl

theorem mkCat_sound (a b : Re) (s : List Nat) : Matches (mkCat a b) s ↔ Matches (cat a b) s := by
  have hE1 : ∀ x, ¬ Matches (cat empty x) s := by
    intro x h; rw [matches_cat_iff] at h; obtain ⟨_, _, _, h1, _⟩ := h; exact not_matches_empty _ h1
  have hE2 : ∀ x, ¬ Matches (cat x empty) s := by
    intro x h; rw [matches_cat_iff] at h; obtain ⟨_, _, _, _, h2⟩ := h; exact not_matches_empty _ h2
  have hEps1 : ∀ x, Matches x s ↔ Matches (cat eps x) s := by
    intro x; rw [matches_cat_iff]
    constructor
    · intro h; exact ⟨[], s, by simp, Matches.eps, h⟩
    · rintro ⟨u, v, rfl, hu, hv⟩
      rw [matches_eps_iff] at hu; subst hu; simpa using hv
  have hEps2 : ∀ x, Matches x s ↔ Matches (cat x eps) s := by
    intro x; rw [matches_cat_iff]
    constructor
    · intro h; exact ⟨s, [], by simp, h, Matches.eps⟩
    · rintro ⟨u, v, rfl, hu, hv⟩
      rw [matches_eps_iff] at hv; subst hv; simpa using hu
  have hAssoc : ∀ x y z, Matches (cat x (cat y z)) s ↔ Matches (cat (cat x y) z) s := by
    intro x y z
    simp only [matches_cat_iff]
    constructor
    · rintro ⟨u, v, rfl, hu, ⟨v1, v2, rfl, hv1, hv2⟩⟩
      exact ⟨u ++ v1, v2, by simp, ⟨u, v1, rfl, hu, hv1⟩, hv2⟩
    · rintro ⟨u, v, rfl, ⟨u1, u2, rfl, hu1, hu2⟩, hv⟩
      exact ⟨u1, u2 ++ v, by simp, hu1, ⟨u2, v, rfl, hu2, hv⟩⟩
  unfold mkCat
  split
  · exact ⟨fun h => absurd h (not_matches_empty _), fun h => absurd h (hE1 _)⟩
  · exact ⟨fun h => absurd h (not_matches_empty _), fun h => absurd h (hE2 _)⟩
  · exact hEps1 _
  · exact hEps2 _
  · exact hAssoc _ _ _
  · exact Iff.rfl

theorem mkAlt_sound (a b : Re) (s : List Nat) : Matches (mkAlt a b) s ↔ Matches (alt a b) s := by
  unfold mkAlt
  split
  · rw [matches_alt_iff]
    exact ⟨Or.inr, fun h => h.elim (fun h => absurd h (not_matches_empty _)) id⟩
  · rw [matches_alt_iff]
    exact ⟨Or.inl, fun h => h.elim id (fun h => absurd h (not_matches_empty _))⟩
  · split
    · rename_i heq
      subst heq
      rw [matches_alt_iff]
      exact ⟨Or.inl, fun h => h.elim id id⟩
    · exact Iff.rfl

theorem star_cons_inv {a : Re} {w : List Nat} (h : Matches (star a) w) (b : Nat) (s : List Nat)
    (hw : w = b :: s) : ∃ s1 s2, s = s1 ++ s2 ∧ Matches a (b :: s1) ∧ Matches (star a) s2 := by
  generalize hr : star a = r at h
  induction h generalizing s with
  | eps => cases hr
  | cls _ _ _ _ => cases hr
  | cat _ _ _ _ => cases hr
  | altL _ _ => cases hr
  | altR _ _ => cases hr
  | starNil => simp at hw
  | @starCons a' u t hu ht _ iht =>
    cases hr
    cases u with
    | nil => simp at hw; exact iht s hw rfl
    | cons c u' =>
      simp only [List.cons_append, List.cons.injEq] at hw
      obtain ⟨hc, hs⟩ := hw
      subst hc
      exact ⟨u', t, hs.symm, hu, ht⟩

theorem deriv_correct (b : Nat) (r : Re) (s : List Nat) : Matches (deriv b r) s ↔ Matches r (b :: s) := by
  induction r generalizing s with
  | empty => simp only [deriv]; exact ⟨fun h => absurd h (not_matches_empty _), fun h => absurd h (not_matches_empty _)⟩
  | eps =>
    simp only [deriv]
    exact ⟨fun h => absurd h (not_matches_empty _), fun h => by rw [matches_eps_iff] at h; simp at h⟩
  | cls rs neg =>
    simp only [deriv]
    rw [matches_cls_iff]
    split
    · rename_i hc
      rw [matches_eps_iff]
      constructor
      · intro h; subst h; exact ⟨b, rfl, hc⟩
      · rintro ⟨c, hc1, _⟩; simp at hc1; exact hc1.2
    · rename_i hc
      constructor
      · intro h; exact absurd h (not_matches_empty _)
      · rintro ⟨c, hc1, hc2⟩
        simp at hc1
        obtain ⟨h1, _⟩ := hc1
        subst h1
        exact absurd hc2 hc
  | cat r1 r2 ih1 ih2 =>
    have key : Matches (cat r1 r2) (b :: s) ↔
        (∃ s1 s2, s = s1 ++ s2 ∧ Matches r1 (b :: s1) ∧ Matches r2 s2) ∨ (Matches r1 [] ∧ Matches r2 (b :: s)) := by
      rw [matches_cat_iff]
      constructor
      · rintro ⟨u, v, huv, hu, hv⟩
        cases u with
        | nil => simp at huv; subst huv; exact Or.inr ⟨hu, hv⟩
        | cons c u' =>
          simp only [List.cons_append, List.cons.injEq] at huv
          obtain ⟨hc, hs⟩ := huv
          subst hc
          exact Or.inl ⟨u', v, hs, hu, hv⟩
      · rintro (⟨s1, s2, rfl, h1, h2⟩ | ⟨h1, h2⟩)
        · exact ⟨b :: s1, s2, by simp, h1, h2⟩
        · exact ⟨[], b :: s, by simp, h1, h2⟩
    have left : Matches (mkCat (deriv b r1) r2) s ↔ ∃ s1 s2, s = s1 ++ s2 ∧ Matches r1 (b :: s1) ∧ Matches r2 s2 := by
      rw [mkCat_sound, matches_cat_iff]
      constructor
      · rintro ⟨u, v, rfl, hu, hv⟩; exact ⟨u, v, rfl, (ih1 u).mp hu, hv⟩
      · rintro ⟨u, v, rfl, hu, hv⟩; exact ⟨u, v, rfl, (ih1 u).mpr hu, hv⟩
    simp only [deriv]
    rw [key]
    split
    · rename_i hn
      rw [mkAlt_sound, matches_alt_iff, left, ih2 s]
      have := (nullable_correct r1).mp hn
      constructor
      · rintro (h | h)
        · exact Or.inl h
        · exact Or.inr ⟨this, h⟩
      · rintro (h | ⟨_, h⟩)
        · exact Or.inl h
        · exact Or.inr h
    · rename_i hn
      rw [left]
      constructor
      · intro h; exact Or.inl h
      · rintro (h | ⟨h, _⟩)
        · exact h
        · exact absurd ((nullable_correct r1).mpr h) hn
  | alt r1 r2 ih1 ih2 =>
    simp only [deriv]
    rw [mkAlt_sound, matches_alt_iff, matches_alt_iff, ih1 s, ih2 s]
  | star r ih =>
    simp only [deriv]
    rw [mkCat_sound, matches_cat_iff]
    constructor
    · rintro ⟨u, v, rfl, hu, hv⟩
      have := Matches.starCons ((ih u).mp hu) hv
      simpa using this
    · intro h
      obtain ⟨s1, s2, hs, h1, h2⟩ := star_cons_inv h b s rfl
      exact ⟨s1, s2, hs, (ih s1).mpr h1, h2⟩

/-- the derivative matcher decides `Matches` -/
theorem matchD_correct (r : Re) (s : List Nat) : matchD r s = true ↔ Matches r s := by
  induction s generalizing r with
  | nil => simp only [matchD]; exact nullable_correct r
  | cons b s ih => simp only [matchD]; rw [ih, deriv_correct]

/-! ### soundness of the certificate check -/

theorem pairIn_iff (R : List Pair) (q : Nat) (r : Re) : pairIn R q r = true ↔ (q, r) ∈ R := by
  simp only [pairIn, List.any_eq_true, Bool.and_eq_true, beq_iff_eq]
  constructor
  · rintro ⟨⟨q', r'⟩, hm, h1, h2⟩
    simp only at h1 h2
    subst h1 h2; exact hm
  · intro h; exact ⟨(q, r), h, rfl, rfl⟩

theorem closed_runFrom (d : Dfa) (R : List Pair) (hc : closed d R = true) (s : List Nat)
    (hs : ∀ b ∈ s, b < 256) (q : Nat) (r : Re) (hqr : (q, r) ∈ R) :
    d.runFrom q s = true ↔ Matches r s := by
  induction s generalizing q r with
  | nil =>
    simp only [closed, List.all_eq_true] at hc
    have := hc (q, r) hqr
    simp only [Bool.and_eq_true, beq_iff_eq] at this
    simp only [Dfa.runFrom]
    rw [this.1.2, nullable_correct]
  | cons b s ih =>
    have hb : b < 256 := hs b (by simp)
    have hs' : ∀ c ∈ s, c < 256 := fun c hc' => hs c (by simp [hc'])
    have hcl := hc
    simp only [closed, List.all_eq_true] at hcl
    have := hcl (q, r) hqr
    simp only [Bool.and_eq_true, List.all_eq_true, List.mem_range] at this
    have hstep := this.2 b hb
    simp only [Dfa.runFrom]
    rw [← deriv_correct]
    split
    · rename_i h255
      simp only [h255, if_true, beq_iff_eq] at hstep
      rw [hstep]
      exact ⟨fun h => by simp at h, fun h => absurd h (not_matches_empty _)⟩
    · rename_i h255
      simp only [h255, if_false] at hstep
      exact ih hs' _ _ ((pairIn_iff _ _ _).mp hstep)

/-- **certificate soundness**: if `checkDfa d r` succeeds, the table-driven validator accepts
exactly the strings (of bytes) that match `r` -/
theorem checkDfa_sound (d : Dfa) (r : Re) (h : checkDfa d r = true) (s : List Nat)
    (hs : ∀ b ∈ s, b < 256) : d.run s = true ↔ Matches r s := by
  simp only [checkDfa, Bool.and_eq_true] at h
  exact closed_runFrom d _ h.2 s hs 0 r ((pairIn_iff _ _ _).mp h.1)

end AV.Rx
