/-
C01, element level, part 3: the whole document.  `runParser` on the xml declaration followed by the serializer's text
of a valid root element returns that element (`relabel`), without error and without warning, in both modes.
-/
import AutosarVerif.Lemmas.SerParseTree

namespace AV.SerParse
open AV.W AV.Lex AV.PM AV.SerLex

/-- **`Valid`, document level**: the root element `h` with content `k` is what the strict parser accepts as the root of
a file of version `ver` and reads back unchanged.  The attributes of the root are read while the version is still the
initial one (`1`, i.e. 4.0.1: `parse_attribute_text` runs before `parse_file_header`). -/
structure ValidRoot (S : Spec) (V : Env) (nmAutosar ver : Nat) (h : Hdr) (k : Items) : Prop where
  name : h.name = nmAutosar
  elemOf : V.elemOf (V.elemText h.name) = some h.name
  ety : h.ety = S.ety S.rootDef
  attrs : AttrsRound S V 1 h.ety.typ h.attrs
  header : ∀ (b : Bool) (s : PState), parseFileHeader V h.attrs b s = (.ok (), { s with ver := ver })
  comment : ∀ c, h.comment = some c → validUtf8 c = true
  sn : S.isNamedIn h.ety.typ ver = true → hasSN S k = true
  kids : match S.mode h.ety.typ with
    | .characters => k = .nil ∨ ∃ c, k = .text c .nil ∧ TextOK S V ver h.ety.typ c
    | .mixed => ValidC S V ver h.ety.typ true k false [] [] false
    | _ => k = .nil ∨ ValidC S V ver h.ety.typ false k false [] [] false

section
variable (S : Spec) (V : Env)

theorem skipComments_begin (fuel : Nat) (c : Option Bytes) (nm at0 : Bytes) :
    skipComments fuel c (.beginElement nm at0) = pure' (c, .beginElement nm at0) := by
  cases fuel <;> rfl

theorem skip_step (h : Hdr) (fuel : Nat) (b : Bool) (s : PState) (lesC more : List (Nat × Event)) (sfin : LState)
    (lb : Nat) (nm at0 : Bytes) (hl : lesC.map (·.2) = cmTok h)
    (hrun : Run s.lx (lesC ++ (lb, .beginElement nm at0) :: more) sfin) (hf : 1 ≤ fuel)
    (hc : ∀ c, h.comment = some c → validUtf8 c = true) :
    ∃ s', (bind' (nextTok true) fun ev1 => skipComments fuel none ev1) b s = (.ok (h.comment, .beginElement nm at0), s') ∧
      Run s'.lx more sfin ∧ Keeps s s' := by
  unfold cmTok at hl
  cases hcm : h.comment with
  | none =>
    simp only [hcm] at hl
    have : lesC = [] := by simpa using hl
    subst this
    obtain ⟨lx1, hn, hr1⟩ := nextTok_run_true b s (by simpa using hrun)
    rw [bind_ok hn, skipComments_begin]
    exact ⟨{ s with lx := lx1, line := lb }, rfl, hr1, ⟨rfl, rfl, rfl, rfl⟩⟩
  | some c =>
    simp only [hcm] at hl
    obtain ⟨l, rfl⟩ := map_snd_singleton hl
    obtain ⟨f, rfl⟩ : ∃ f, fuel = f + 1 := ⟨fuel - 1, by omega⟩
    obtain ⟨lx1, hn, hr1⟩ := nextTok_run_true b s (by simpa using hrun)
    rw [bind_ok hn]
    simp only [skipComments, hc c hcm, if_true]
    obtain ⟨lx2, hn2, hr2⟩ := nextTok_run_true b { s with lx := lx1, line := l } hr1
    rw [bind_ok hn2, skipComments_begin]
    exact ⟨{ s with lx := lx2, line := lb }, rfl, hr2, ⟨rfl, rfl, rfl, rfl⟩⟩

/-- **C01, element level — the document.**  For a root element `h` with content `k` that satisfies the lexical
hypotheses (`wfItems`), that the serializer can write (`serForest … = some bytes`) and that is valid (`ValidRoot`):
the parser, run in either mode on the xml declaration followed by the serializer's text with ids starting at `nid`,
returns the root element and its content with the same names, types, attributes, comments, values and order; the ids are
`nid, nid+1, …` in document order; there is no warning; the version and `standalone` are those of the text. -/
theorem runParser_serialized (sa : Option Bool) (h : Hdr) (k : Items) (bytes : Bytes) (nid nmAutosar ver : Nat)
    (strict : Bool) (hwf : wfItems V (.elem h k .nil) = true)
    (hser : serForest S V none 0 false (.elem h k .nil) = some bytes)
    (hvalid : ValidRoot S V nmAutosar ver h k) :
    ∃ st, runParser S V strict (xmlDecl sa ++ bytes) nid nmAutosar =
        (.ok ({ h with id := nid, parent := .none, files := [] }, relabel (.elem nid) (nid + 1) k), st) ∧
      st.warnings = [] ∧ st.ver = ver ∧ st.standalone = sa ∧ st.nextId = nid + 1 + cnt k := by
  obtain ⟨hname, helemOf, hety, hattrsV, hheader, hcomment, hsn, hkids⟩ := hvalid
  subst hname
  obtain ⟨toks, htok, hrunAll⟩ := serForest_tokens S V (.elem h k .nil) false 0 bytes hwf hser
  obtain ⟨les, hles, hrun⟩ := hrunAll [] 1 (Or.inl rfl)
  simp only [List.append_nil] at hrun
  -- the shape of the events
  unfold tokensOf at htok
  rw [tokF_elem] at htok
  simp only [visible, if_true] at htok
  cases hnt : nodeTok S V none h k with
  | none => simp [hnt] at htok
  | some n =>
  simp only [hnt, tokF_nil_nil, Option.some.injEq] at htok
  subst htok
  obtain ⟨attrs, btoks, mixedK, hsa', hn, hbt, hvk⟩ := node_split S V ver h k n hkids hnt
  obtain ⟨at0, hsa, hattrs⟩ := hattrsV
  rw [hsa] at hsa'; simp only [Option.some.injEq] at hsa'; subst hsa'
  subst hn
  have hfl : flush [] = [] := rfl
  simp only [hfl, List.nil_append, List.append_nil] at hles
  obtain ⟨lesC, lesN, rfl, hC, hN⟩ := List.map_eq_append_iff.mp hles
  obtain ⟨⟨lb, eb⟩, lesN', rfl, hb, hN'⟩ := List.map_eq_cons_iff.mp hN
  simp only at hb; subst hb
  obtain ⟨lesB, lesE, rfl, hB, hE⟩ := List.map_eq_append_iff.mp hN'
  obtain ⟨le, rfl⟩ := map_snd_singleton hE
  -- the fuel
  have hrun0 : Run ⟨xmlDecl sa ++ bytes, 1, none⟩ ((1, .header sa) :: (lesC ++ (lb, .beginElement (V.elemText h.name) (at0.drop 1)) ::
      (lesB ++ [(le, .endElement (V.elemText h.name))]))) ⟨[], 1 + countNl bytes, none⟩ :=
    Run.ev _ _ _ _ _ _ rfl (step_xmlDecl sa bytes 1) (by simp) hrun
  have hmeas := hrun0.measure_le hrun0.no_eof
  simp only [Lex.measure, List.length_cons, List.length_append, List.length_nil] at hmeas
  have hfuel : lesB.length + 2 < 2 * (xmlDecl sa ++ bytes).length + 8 := by
    simp at hmeas ⊢; omega
  -- run the parser
  unfold runParser
  rw [init_xmlDecl]
  generalize 2 * (xmlDecl sa ++ bytes).length + 8 = fuel at hfuel ⊢
  unfold parseArxml
  obtain ⟨lx1, hn1, r1⟩ := nextTok_run_true strict
    { warnings := [], line := 1, lx := ⟨xmlDecl sa ++ bytes, 1, none⟩, nextId := nid } hrun0
  rw [bind_ok hn1]
  simp only
  rw [bind_ok (show (modS fun s => { s with standalone := sa }) strict _ = (.ok (), _) from rfl)]
  have r1' : Run lx1 (lesC ++ (lb, .beginElement (V.elemText h.name) (at0.drop 1)) ::
      (lesB ++ (le, .endElement (V.elemText h.name)) :: [])) ⟨[], 1 + countNl bytes, none⟩ := by simpa using r1
  obtain ⟨s3, e3, r3, k3⟩ := skip_step h fuel strict
    { warnings := [], line := 1, lx := lx1, nextId := nid, standalone := sa } lesC _ _ lb _ _ hC r1' (by omega) hcomment
  -- `bind' (nextTok true) fun ev1 => bind' (skipComments …) k` is `bind' (bind' (nextTok true) (skipComments …)) k`
  have hassoc : ∀ (k : Option Bytes × Event → P (Hdr × Items)) (s : PState),
      (bind' (nextTok true) fun ev1 => bind' (skipComments fuel none ev1) k) strict s =
      bind' (bind' (nextTok true) fun ev1 => skipComments fuel none ev1) k strict s := by
    intro k s
    simp only [bind']
    cases nextTok true strict s with
    | mk r s' => cases r <;> rfl
  rw [hassoc, bind_ok e3]
  simp only [helemOf, if_true]
  have hv3 : s3.ver = 1 := k3.ver
  obtain ⟨cc, hat⟩ := hattrs strict s3 hv3
  rw [← hety, bind_ok hat, bind_ok (hheader strict _), bind_ok (allocId_eq strict _)]
  simp only
  obtain ⟨s6, e6, r6, hn6, hw6, hv6, hs6⟩ := content_ok S V ver k
    { id := s3.nextId, name := h.name, ety := h.ety, parent := .none, attrs := h.attrs, files := [], comment := h.comment }
    mixedK false [] [] false [] [] {} fuel strict
    { s3 with compat := cc, ver := ver, nextId := s3.nextId + 1 } btoks lesB [] ⟨[], 1 + countNl bytes, none⟩ le hvk hbt
    (Or.inl ⟨rfl, rfl, rfl⟩) r3 hB (by omega) rfl rfl rfl rfl (by intro nm; rfl)
    helemOf (by intro hh; exact Or.inr (hsn hh))
  simp only [List.append_nil, List.nil_append, itemsOf_listOf] at e6
  rw [bind_ok e6]
  rw [bind_ok (nextTok_run_end false strict s6 _ r6)]
  simp only [PM.bind_pure]
  refine ⟨{ s6 with lx := ⟨[], 1 + countNl bytes, none⟩ }, ?_, ?_, ?_, ?_, ?_⟩
  · simp [pure', k3.nextId]
  · simp only [hw6, k3.warnings]
  · simp only [hv6]
  · simp only [hs6, k3.standalone]
  · simp only [hn6, k3.nextId]

end

end AV.SerParse
