/-
The fourth alphabet `OpL`: the third alphabet `OpY` of `Lemmas/StepY.lean` (core operations, rename, sort,
`set_reference_target`, move, copy) together with `load_buffer` as a GUARDED operation: a load that is refused (unknown model,
parser error) is a step that changes nothing; an accepted load must be the FIRST load into a model without files, strict or
lenient without a warning, and its result must meet `LoadGuard` (`Lemmas/LoadInv.lean`: version among `vOk`, SHORT-NAME
discipline, pairwise different paths, no reference text split by a comment).

* `reachL_ginv`: in every reachable state the full invariant `GInv` holds;
* `reachL_sep`: … and the element ids of different models are apart (`SepInv`);
* `reachY_reachL`: the histories of the third alphabet are histories of the fourth.
-/
import AutosarVerif.Lemmas.LoadInv

namespace AV.W
open Items AV.PM AV.LoadInv

inductive OpL
  | y (op : OpY)
  | load (k : Nat) (name : Bytes) (strict : Bool) (buf : Bytes)

section
variable (S : Spec) (V : Env) (vOk : Nat) (rootAttrs : List (Nat × CDv)) (nmAutosar : Nat)

def applyOpL (w : World) : OpL → World × String
  | .y op => applyOpY S V rootAttrs w op
  | .load k name strict buf => ((opLoad S V nmAutosar w k name strict buf).1, (opLoad S V nmAutosar w k name strict buf).2.show)

/-- the guard of `load_buffer` in the state `w`: nothing is asked of a load that the model or the parser refuses; an accepted
load goes into a model without files, is accepted without reservation, and its result meets `LoadGuard` -/
def LoadOk (w : World) (k : Nat) (strict : Bool) (buf : Bytes) : Prop :=
  match w.models[k]? with
  | none => True
  | some m =>
    match runParser S V strict buf w.nextId nmAutosar with
    | (.error _, _) => True
    | (.ok (h, kids), st) => m.files = [] ∧ Clean strict st ∧ LoadGuard S vOk h kids st.ver

instance (w : World) (k : Nat) (strict : Bool) (buf : Bytes) : Decidable (LoadOk S V vOk nmAutosar w k strict buf) := by
  unfold LoadOk
  split
  · infer_instance
  · split <;> infer_instance

/-- the guard of one step, in the state `w` -/
def StepOkL (w : World) : OpL → Prop
  | .y op => StepOkY S V vOk w op
  | .load k _ strict buf => LoadOk S V vOk nmAutosar w k strict buf

instance (w : World) (op : OpL) : Decidable (StepOkL S V vOk nmAutosar w op) := by
  cases op <;> simp only [StepOkL] <;> infer_instance

/-- the states reachable from the empty world by guarded steps -/
inductive ReachL : World → Prop
  | empty : ReachL emptyWorld
  | step (w : World) (op : OpL) : ReachL w → StepOkL S V vOk nmAutosar w op → ReachL (applyOpL S V rootAttrs nmAutosar w op).1

variable {S V vOk rootAttrs nmAutosar}

theorem opLoad_none (w : World) (k : Nat) (name : Bytes) (strict : Bool) (buf : Bytes) (hm : w.models[k]? = none) :
    (opLoad S V nmAutosar w k name strict buf).1 = w := by
  unfold opLoad
  simp only [hm]

theorem opLoad_error (w : World) (k : Nat) (m : Model) (name : Bytes) (strict : Bool) (buf : Bytes) (e : PErr) (st : PState)
    (hm : w.models[k]? = some m) (hr : runParser S V strict buf w.nextId nmAutosar = (.error e, st)) :
    (opLoad S V nmAutosar w k name strict buf).1 = w := by
  unfold opLoad
  simp only [hm]
  split
  · rfl
  · simp only [hr]

/-- what a guarded load does: nothing, or it is a guarded first load -/
theorem opLoad_guarded (w : World) (k : Nat) (name : Bytes) (strict : Bool) (buf : Bytes)
    (hop : LoadOk S V vOk nmAutosar w k strict buf) :
    (opLoad S V nmAutosar w k name strict buf).1 = w ∨
    ∃ m h kids st, w.models[k]? = some m ∧ m.files = [] ∧
      runParser S V strict buf w.nextId nmAutosar = (.ok (h, kids), st) ∧ Clean strict st ∧ LoadGuard S vOk h kids st.ver := by
  unfold LoadOk at hop
  cases hm : w.models[k]? with
  | none => exact Or.inl (opLoad_none w k name strict buf hm)
  | some m =>
    simp only [hm] at hop
    cases hr : runParser S V strict buf w.nextId nmAutosar with
    | mk r st =>
      cases r with
      | error e => exact Or.inl (opLoad_error w k m name strict buf e st hm hr)
      | ok hk =>
        obtain ⟨h, kids⟩ := hk
        simp only [hr] at hop
        exact Or.inr ⟨m, h, kids, st, rfl, hop.1, rfl, hop.2.1, hop.2.2⟩

/-- one guarded step keeps the full invariant and `SepInv` -/
theorem applyOpL_ginv_sep (hH : IdxHyp S V vOk) (hR : RefWF S) (hv32 : vOk &&& 0xFFFFFFFF = vOk)
    (hroot : nmAutosar ≠ S.nmShortName) (hNoSub : ∀ t, S.isRef t = true → S.subCount t = 0) (w : World) (op : OpL)
    (hop : StepOkL S V vOk nmAutosar w op) (h : GInv S vOk w) (hs : SepInv w) :
    GInv S vOk (applyOpL S V rootAttrs nmAutosar w op).1 ∧ SepInv (applyOpL S V rootAttrs nmAutosar w op).1 := by
  cases op with
  | y op => exact ⟨applyOpY_ginv hH hR hv32 w op hop h, applyOpY_sep hH hR hv32 w op hop h hs⟩
  | load k name strict buf =>
    show GInv S vOk (opLoad S V nmAutosar w k name strict buf).1 ∧ SepInv (opLoad S V nmAutosar w k name strict buf).1
    rcases opLoad_guarded w k name strict buf hop with e | ⟨m, hd, kids, st, hm, hemp, hr, hc, hg⟩
    · rw [e]; exact ⟨h, hs⟩
    · exact ⟨opLoad_first_ginv S V vOk nmAutosar w k m name strict buf hd kids st hm hemp hr hroot hR hNoSub hv32 hc hg h,
        opLoad_first_sep S V vOk nmAutosar w k m name strict buf hd kids st hm hemp hr h.2.1.1.1 hs⟩

theorem reachL_ginv_sep (hH : IdxHyp S V vOk) (hR : RefWF S) (hv32 : vOk &&& 0xFFFFFFFF = vOk)
    (hroot : nmAutosar ≠ S.nmShortName) (hNoSub : ∀ t, S.isRef t = true → S.subCount t = 0) {w : World}
    (h : ReachL S V vOk rootAttrs nmAutosar w) : GInv S vOk w ∧ SepInv w := by
  induction h with
  | empty => exact ⟨ginv_empty S vOk, sepInv_empty⟩
  | step w op _ hop ih => exact applyOpL_ginv_sep hH hR hv32 hroot hNoSub w op hop ih.1 ih.2

/-- **the full invariant in every state reachable by guarded steps of the fourth alphabet** (core operations, rename, sort,
set_reference_target, move, copy, guarded first loads) -/
theorem reachL_ginv (hH : IdxHyp S V vOk) (hR : RefWF S) (hv32 : vOk &&& 0xFFFFFFFF = vOk)
    (hroot : nmAutosar ≠ S.nmShortName) (hNoSub : ∀ t, S.isRef t = true → S.subCount t = 0) {w : World}
    (h : ReachL S V vOk rootAttrs nmAutosar w) : GInv S vOk w :=
  (reachL_ginv_sep hH hR hv32 hroot hNoSub h).1

/-- … and the element ids of different models are apart -/
theorem reachL_sep (hH : IdxHyp S V vOk) (hR : RefWF S) (hv32 : vOk &&& 0xFFFFFFFF = vOk)
    (hroot : nmAutosar ≠ S.nmShortName) (hNoSub : ∀ t, S.isRef t = true → S.subCount t = 0) {w : World}
    (h : ReachL S V vOk rootAttrs nmAutosar w) : SepInv w :=
  (reachL_ginv_sep hH hR hv32 hroot hNoSub h).2

/-- the histories of the third alphabet are histories of the fourth -/
theorem reachY_reachL {w : World} (h : ReachY S V vOk rootAttrs w) : ReachL S V vOk rootAttrs nmAutosar w := by
  induction h with
  | empty => exact ReachL.empty
  | step w op _ hop ih => exact ReachL.step w (.y op) ih hop

end

/-! ### non-vacuity (toy specification of `LoadInv.Witness`): a guarded load exists, the duplicate-path load is not one -/

namespace LoadExamples
open AV.LoadInv.Witness

/-- `…<R …><B><A>x</A></B><B><A>y</A></B></R>`: two elements with different paths -/
def goodDoc : Bytes := [60, 63, 120, 109, 108, 32, 118, 101, 114, 115, 105, 111, 110, 61, 34, 49, 46, 48, 34, 32, 101, 110, 99, 111, 100, 105, 110, 103, 61, 34, 117, 116, 102, 45, 56, 34, 63, 62, 10, 60, 82, 32, 120, 109, 108, 110, 115, 61, 34, 104, 116, 116, 112, 58, 47, 47, 97, 117, 116, 111, 115, 97, 114, 46, 111, 114, 103, 47, 115, 99, 104, 101, 109, 97, 47, 114, 52, 46, 48, 34, 32, 120, 109, 108, 110, 115, 58, 120, 115, 105, 61, 34, 104, 116, 116, 112, 58, 47, 47, 119, 119, 119, 46, 119, 51, 46, 111, 114, 103, 47, 50, 48, 48, 49, 47, 88, 77, 76, 83, 99, 104, 101, 109, 97, 45, 105, 110, 115, 116, 97, 110, 99, 101, 34, 32, 120, 115, 105, 58, 115, 99, 104, 101, 109, 97, 76, 111, 99, 97, 116, 105, 111, 110, 61, 34, 104, 116, 116, 112, 58, 47, 47, 97, 117, 116, 111, 115, 97, 114, 46, 111, 114, 103, 47, 115, 99, 104, 101, 109, 97, 47, 114, 52, 46, 48, 32, 86, 49, 46, 120, 115, 100, 34, 62, 60, 66, 62, 60, 65, 62, 120, 60, 47, 65, 62, 60, 47, 66, 62, 60, 66, 62, 60, 65, 62, 121, 60, 47, 65, 62, 60, 47, 66, 62, 60, 47, 82, 62]

/-- the guard holds for the good document (strict and lenient), so the load is a step of `ReachL` … -/
example : LoadOk ldDupSpec toyEnv 3 100 (w0 ldDupSpec) 0 true goodDoc ∧ LoadOk ldDupSpec toyEnv 3 100 (w0 ldDupSpec) 0 false goodDoc := by
  decide +kernel

/-- … it is accepted, and the loaded model has the two index entries -/
example : (opLoad ldDupSpec toyEnv 100 (w0 ldDupSpec) 0 [102] true goodDoc).1.models.map (·.index) = [[([47, 120], 2), ([47, 121], 4)]] := by
  decide +kernel

/-- the guard REFUSES the duplicate-path document (only `LoadGuard.keys` fails: the other three parts hold) -/
example : ¬ LoadOk ldDupSpec toyEnv 3 100 (w0 ldDupSpec) 0 true dupDoc := by decide +kernel

example : (match runParser ldDupSpec toyEnv true dupDoc 1 100 with
    | (.ok (h, kids), st) => decide (st.ver &&& 3 = st.ver) && snOkB ldDupSpec (.elem h kids .nil) && refOneB ldDupSpec (.elem h kids .nil) &&
        !decide (keysNodupI (entries ldDupSpec (.elem h kids .nil) []))
    | _ => false) = true := by decide +kernel


/-- the guard refuses the reference text split by a comment (`LoadGuard.one` fails) -/
example : ¬ LoadOk ldRefSpec toyEnv 3 100 (w0 ldRefSpec) 0 true refDoc := by decide +kernel

/-! #### the hypotheses of `reachL_ginv` are jointly satisfiable, with a history that contains an accepted load -/

/-- `ldDupSpec` with a SHORT-NAME whose values are checked by the validator 8 -/
def ldOkSpec : Spec := { ldDupSpec with
  cdataOf := fun t => if t = 1 then some 5 else none
  cspec := fun i => if i = 5 then .pattern 8 none else .string false none }

/-- the validator 8 refuses '/' -/
def ldOkEnv : Env := { toyEnv with validate := fun k s => k != 8 || !s.contains 47 }

theorem ldOkSpec_named (t : Nat) (h : ldOkSpec.isNamed t = true) : t = 2 := by
  by_cases h2 : t = 2
  · exact h2
  · exfalso
    by_cases h0 : t = 0
    · subst h0; revert h; decide
    · have : ldOkSpec.subCount t = 0 := by
        simp only [Spec.subCount, ldOkSpec, ldDupSpec, h0, h2, if_false]
      simp [Spec.isNamed, Spec.shortNameMask, this] at h

theorem ldOkSpec_snDef (t d : Nat) (h : ldOkSpec.isNamed t = true) (hd : ldOkSpec.subAt t 0 = .elem d) : d = 1 := by
  have := ldOkSpec_named t h
  subst this
  have : ldOkSpec.subAt 2 0 = .elem 1 := by decide
  rw [this] at hd; injection hd with e; exact e.symm

theorem ldOkSpec_hyp : IdxHyp ldOkSpec ldOkEnv 3 where
  wf := {
    named_seq := by
      intro t h _
      have := ldOkSpec_named t h
      subst this
      rfl
    sn_mask := by
      intro t h
      have := ldOkSpec_named t h
      subst this
      decide
    sn_mult := by
      intro t d h hd
      have := ldOkSpec_snDef t d h hd
      subst this
      decide
    sn_type := by
      intro t d h hd
      have := ldOkSpec_snDef t d h hd
      subst this
      exact ⟨by decide, by decide, .pattern 8 none, rfl, rfl⟩ }
  only := by
    intro t nm e m idx h hmem _
    have := ldOkSpec_named t h
    subst this
    have hl : ldOkSpec.listSub 2 = [(101, ⟨1, 1⟩, 3, [0])] := by decide
    rw [hl] at hmem
    simp only [List.mem_cons, List.mem_nil_iff, or_false, Prod.mk.injEq] at hmem
    exact hmem.2.2.2
  noSlash := by
    intro t d sp s ver h hd hsp hcv
    have := ldOkSpec_snDef t d h hd
    subst this
    have : sp = .pattern 8 none := by
      have h1 : ldOkSpec.chardataSpec (ldOkSpec.defType 1) = some (.pattern 8 none) := rfl
      rw [h1] at hsp
      injection hsp with e
      exact e.symm
    subst this
    intro h47
    simp only [checkValue, ldOkEnv, Bool.true_and] at hcv
    have : s.contains 47 = true := List.contains_iff_mem.mpr h47
    rw [this] at hcv
    cases hcv
  latest := by decide
  rootName := by decide

theorem ldOkSpec_isRef (t : Nat) : ldOkSpec.isRef t = false := by
  by_cases h1 : t = 1
  · subst h1; decide
  · simp [Spec.isRef, ldOkSpec, h1]

theorem ldOkSpec_refWF : RefWF ldOkSpec where
  ref_chars := by intro t h; rw [ldOkSpec_isRef] at h; cases h
  ref_spec := by intro t h; rw [ldOkSpec_isRef] at h; cases h
  sn_not_ref := by intro t d _ _; exact ldOkSpec_isRef _
  root_not_ref := ldOkSpec_isRef _

/-- the history: `new`, then `load_buffer` of the good document -/
def loadOps : List OpL := [.y (.x (.core .newModel)), .load 0 [102] true goodDoc]

def runL (ops : List OpL) : World := ops.foldl (fun w op => (applyOpL ldOkSpec ldOkEnv [] 100 w op).1) emptyWorld

/-- both steps pass their guards … -/
theorem loadOps_reach : ReachL ldOkSpec ldOkEnv 3 [] 100 (runL loadOps) := by
  have s1 := ReachL.step (S := ldOkSpec) (V := ldOkEnv) (vOk := 3) (rootAttrs := []) (nmAutosar := 100) emptyWorld
    (.y (.x (.core .newModel))) ReachL.empty (by decide)
  exact ReachL.step _ (.load 0 [102] true goodDoc) s1 (by decide +kernel)

/-- … so the state after the load has the full invariant and separated ids, BY THE THEOREM -/
theorem loadOps_ginv : GInv ldOkSpec 3 (runL loadOps) ∧ SepInv (runL loadOps) :=
  reachL_ginv_sep ldOkSpec_hyp ldOkSpec_refWF (by decide) (by decide) (fun t h => by rw [ldOkSpec_isRef] at h; cases h) loadOps_reach

/-- the load was accepted: the model holds the two packages, the index their two paths -/
example : (runL loadOps).models.map (fun m => (m.rootItems.ids, m.index)) = [([0, 1, 2, 3, 4], [([47, 120], 1), ([47, 121], 3)])] := by
  decide +kernel

end LoadExamples
end AV.W
