/-
Property C12 (single-threaded use never panics) for the merge of a newly loaded file: the two `panic` answers of the model of
`AutosarModel::merge_element` (`Model/Merge.lean`) are unreachable.
-/
import AutosarVerif.Lemmas.LoadMerge
import AutosarVerif.Lemmas.KidsKnownReach

namespace AV.W
open Items

section
variable (S : Spec) (V : Env)

/-- the name is known to the type in the all-version lookup -/
def KnownTo (typ name : Nat) : Prop := S.findSub typ name 0xFFFFFFFF ≠ none

/-- 1. the positional walk never panics when the names of all elements of both sides are known to the type of the parent
(the sibling list `allB` plays no role: siblings only go into `pairs`) -/
theorem walk_no_panic (typ : Nat) (splitable : Bool) (allB : List (Hdr × Items)) :
    ∀ (fuel : Nat) (as : List (Nat × (Hdr × Items))) (bs : List (Hdr × Items)) (w : Walk),
      (∀ a ∈ as, S.findSub typ a.2.1.name 0xFFFFFFFF ≠ none) →
      (∀ b ∈ bs, S.findSub typ b.1.name 0xFFFFFFFF ≠ none) →
      walk S V typ splitable allB fuel as bs w ≠ .error .panic := by
  intro fuel as bs w
  fun_induction walk S V typ splitable allB fuel as bs w
  all_goals intro hA hB
  case case1 | case2 | case3 => intro h; cases h
  case case7 => intro h; cases h
  case case13 fuel pa ah ak as bh bk bs w _ hnone =>
    exfalso
    have h1 := hA _ List.mem_cons_self
    have h2 := hB _ List.mem_cons_self
    dsimp only at h1 h2
    cases h3 : S.findSub typ ah.name 0xFFFFFFFF with
    | none => exact h1 h3
    | some x =>
      cases h4 : S.findSub typ bh.name 0xFFFFFFFF with
      | none => exact h2 h4
      | some y => exact hnone x.1 x.2 y.1 y.2 h3 h4
  case case4 ih | case8 ih =>
    exact ih (fun a ha => hA a (List.mem_cons_of_mem _ ha)) (fun b hb => hB b (List.mem_cons_of_mem _ hb))
  case case5 ih | case9 ih | case6 ih | case10 ih | case11 ih =>
    exact ih (fun a ha => hA a (List.mem_cons_of_mem _ ha)) hB
  case case12 ih =>
    exact ih hA (fun b hb => hB b (List.mem_cons_of_mem _ hb))

/-- the pairs of the walk: the model's side is an element of `as` and the partner has the same element name -/
theorem walk_pairs_name (typ : Nat) (splitable : Bool) (allB : List (Hdr × Items)) :
    ∀ (fuel : Nat) (as : List (Nat × (Hdr × Items))) (bs : List (Hdr × Items)) (w w' : Walk)
      (ra : List (Nat × (Hdr × Items))) (rb : List (Hdr × Items)),
      walk S V typ splitable allB fuel as bs w = .ok (w', ra, rb) →
      ∀ p ∈ w'.pairs, p ∈ w.pairs ∨ ∃ a ∈ as, p.1 = a.2.1.id ∧ a.2.1.name = p.2.1.name := by
  intro fuel as bs w
  fun_induction walk S V typ splitable allB fuel as bs w
  all_goals intro w' ra rb hr
  case case1 | case2 | case3 => cases hr; exact fun p hp => Or.inl hp
  case case7 | case13 => cases hr
  case case4 fuel pa ah ak as bh bk bs w hn _ _ ih | case8 fuel pa ah ak as bh bk bs w hn _ _ ih =>
    intro p hp
    rcases ih w' ra rb hr p hp with h | ⟨a, ha, h⟩
    · rcases List.mem_append.mp h with h | h
      · exact Or.inl h
      · simp only [List.mem_singleton] at h; subst h
        exact Or.inr ⟨_, List.mem_cons_self, rfl, hn⟩
    · exact Or.inr ⟨a, List.mem_cons_of_mem _ ha, h⟩
  case case5 fuel pa ah ak as bh bk bs w _ _ _ sib hsib ih | case9 fuel pa ah ak as bh bk bs w _ _ _ sib hsib ih =>
    intro p hp
    rcases ih w' ra rb hr p hp with h | ⟨a, ha, h⟩
    · rcases List.mem_append.mp h with h | h
      · exact Or.inl h
      · simp only [List.mem_singleton] at h; subst h
        have := List.find?_some hsib
        simp only [Bool.and_eq_true, beq_iff_eq] at this
        exact Or.inr ⟨_, List.mem_cons_self, rfl, this.1.symm⟩
    · exact Or.inr ⟨a, List.mem_cons_of_mem _ ha, h⟩
  case case6 ih | case10 ih | case11 ih =>
    intro p hp
    rcases ih w' ra rb hr p hp with h | ⟨a, ha, h⟩
    · exact Or.inl h
    · exact Or.inr ⟨a, List.mem_cons_of_mem _ ha, h⟩
  case case12 fuel pa ah ak as bh bk bs w _ _ _ _ _ _ _ _ w0 ih =>
    intro p hp
    rcases ih w' ra rb hr p hp with h | h
    · simp only [w0] at h
      split at h <;> exact Or.inl h
    · exact Or.inr h

/-- `import_new_items` only answers `InvalidFileMerge` -/
theorem importNew_no_panic (ha : Hdr) (newFile minVerB : Nat) (l : List ((Hdr × Items) × Nat)) :
    ∀ (idx : Nat) (ka : Items), (importNew S ha newFile minVerB l idx ka).2 ≠ some .panic := by
  induction l with
  | nil => intro idx ka h; cases h
  | cons e rest ih =>
    intro idx ka
    obtain ⟨⟨bh, bk⟩, pos⟩ := e
    unfold importNew
    split
    · intro h; cases h
    · exact ih _ _

end

theorem eq_of_map_nodup {α β : Type} (f : α → β) : ∀ (l : List α), (l.map f).Nodup →
    ∀ x ∈ l, ∀ y ∈ l, f x = f y → x = y := by
  intro l
  induction l with
  | nil => intro _ x hx; cases hx
  | cons a r ih =>
    intro hn x hx y hy e
    simp only [List.map_cons, List.nodup_cons, List.mem_map, not_exists, not_and] at hn
    rcases List.mem_cons.mp hx with hx | hx <;> rcases List.mem_cons.mp hy with hy | hy
    · rw [hx, hy]
    · rw [hx] at e; exact absurd e.symm (hn.1 y hy)
    · rw [hy] at e; exact absurd e (hn.1 x hx)
    · exact ih hn.2 x hx y hy e

theorem size_kid_lt (its : Items) : ∀ c ∈ its.childElems, c.2.size < its.size := by
  induction its with
  | nil => intro c hc; cases hc
  | elem h k r _ ihr =>
    intro c hc
    simp only [Items.childElems, List.mem_cons] at hc
    simp only [Items.size]
    rcases hc with hc | hc
    · subst hc; simp only; omega
    · have := ihr c hc; omega
  | text c r ihr =>
    intro c' hc
    have := ihr c' hc
    simp only [Items.size]; omega

/-- the recorded type of every element is the one the function `g` gives for the type of its parent and its name
(`t` = type of the parent of the forest) -/
def TyBy (g : Nat → Nat → Nat) : Nat → Items → Prop
  | _, .nil => True
  | t, .text _ r => TyBy g t r
  | t, .elem h k r => h.ety.typ = g t h.name ∧ TyBy g h.ety.typ k ∧ TyBy g t r

theorem tyBy_iff (g : Nat → Nat → Nat) (t : Nat) (its : Items) :
    TyBy g t its ↔ ∀ c ∈ its.childElems, c.1.ety.typ = g t c.1.name ∧ TyBy g c.1.ety.typ c.2 := by
  induction its with
  | nil => simp [TyBy, Items.childElems]
  | text c r ih => simpa only [TyBy, Items.childElems] using ih
  | elem h k r _ ih => simp only [TyBy, Items.childElems, List.forall_mem_cons, ih, and_assoc]

section
variable (S : Spec) (V : Env)

/-- 2. `merge_element` never panics: fuel above the size of the new file's content suffices; the names of the sub-elements
are known to the types of their parents on both sides (`kb` read below the type of `ha`), types are a function `g` of the
parent type and the name on both sides (so paired elements have the same type), ids are unique in `ka` and the ids of `kb`
are new. -/
theorem mergeElement_no_panic (g : Nat → Nat → Nat) (fver : Nat → Option Nat) (newFile minVerB : Nat) (fuel : Nat) :
    ∀ (ha : Hdr) (ka : Items) (files : List Nat) (kb : Items),
      kb.size < fuel →
      kidsKnownAt S ha ka → KidsKnown S ka → kidsKnownAt S ha kb → KidsKnown S kb →
      TyBy g ha.ety.typ ka → TyBy g ha.ety.typ kb →
      ka.ids.Nodup → (∀ x ∈ kb.ids, x ∉ ka.ids) →
      (mergeElement S V fver newFile minVerB fuel ha ka files kb).2 ≠ some .panic := by
  induction fuel with
  | zero => intro ha ka files kb h; omega
  | succ n ih =>
    intro ha ka files kb hsz hAa hKa hAb hKb hTa hTb hna hdisj
    have hKa' := (kidsKnown_iff S ka).mp hKa
    have hKb' := (kidsKnown_iff S kb).mp hKb
    have hTa' := (tyBy_iff g _ ka).mp hTa
    have hTb' := (tyBy_iff g _ kb).mp hTb
    have hkn : (ka.childElems.map (·.1.id)).Nodup := List.Nodup.sublist (kid_ids_sublist ka) hna
    have hasmem : ∀ a ∈ enumerate ka.childElems 0, a.2 ∈ ka.childElems := by
      intro a h
      have h2 : a.2 ∈ (enumerate ka.childElems 0).map (·.2) := List.mem_map.mpr ⟨a, h, rfl⟩
      rw [enumerate_map_sndLM] at h2; exact h2
    have hasmap : (enumerate ka.childElems 0).map (·.2.1.id) = ka.childElems.map (·.1.id) := by
      rw [← congrArg (List.map (·.1.id)) (enumerate_map_sndLM ka.childElems 0), List.map_map]; rfl
    unfold mergeElement
    dsimp only
    split
    · rename_i e hwalk
      intro h
      simp only [Option.some.injEq] at h
      subst h
      exact walk_no_panic S V _ _ _ _ _ _ _ (fun a h => hAa _ (hasmem a h)) hAb hwalk
    · rename_i w0 restA restB hwalk
      obtain ⟨hb1, hb2, hb3, l, hl1, hl2⟩ := walk_spec S V _ _ _ _ _ _ _ _ _ _ hwalk
      have hpn := walk_pairs_name S V _ _ _ _ _ _ _ _ _ _ hwalk
      split
      · rename_i ka2 e heq
        have key := congrArg (fun r => r.2) heq
        dsimp only at key
        rw [← key]; exact importNew_no_panic S _ _ _ _ _ _
      · rename_i ka2 heq
        have key := congrArg (fun r => r.1) heq
        dsimp only at key
        rw [← key]
        simp only [List.map_nil, List.nil_append] at hl1
        rw [hasmap] at hl2
        have hpOk : ∀ p ∈ w0.pairs, p.2 ∈ kb.childElems ∧ ∃ a ∈ ka.childElems, p.1 = a.1.id ∧ a.1.name = p.2.1.name := by
          intro p hp
          refine ⟨?_, ?_⟩
          · rcases hb2 p hp with h | h | h
            · simp at h
            · exact h
            · exact h
          · rcases hpn p hp with h | ⟨a, ha', h⟩
            · simp at h
            · exact ⟨a.2, hasmem a ha', h⟩
        have hpn : (w0.pairs.map (·.1)).Nodup := by rw [hl1]; exact List.Nodup.sublist hl2 hkn
        refine (foldl_inv (fun (l : List (Nat × (Hdr × Items))) (acc : Items × Option MergeErr) =>
          (∀ p ∈ l, p.2 ∈ kb.childElems ∧ ∃ a ∈ ka.childElems, p.1 = a.1.id ∧ a.1.name = p.2.1.name) ∧
          (l.map (·.1)).Nodup ∧
          (∀ c ∈ acc.1.childElems, c.1.id ∈ l.map (·.1) →
            ∃ c0 ∈ ka.childElems, c.1.id = c0.1.id ∧ c.1.name = c0.1.name ∧ c.1.ety = c0.1.ety ∧ c.2 = c0.2) ∧
          acc.2 ≠ some .panic) _ ?_ _ (_, none) ⟨hpOk, hpn, ?_, fun h => by cases h⟩).2.2.2
        · -- step
          intro p rest acc ⟨hq, hnd, hch, herr⟩
          have hq' : ∀ p ∈ rest, p.2 ∈ kb.childElems ∧ ∃ a ∈ ka.childElems, p.1 = a.1.id ∧ a.1.name = p.2.1.name :=
            fun q hq' => hq q (List.mem_cons_of_mem _ hq')
          simp only [List.map_cons, List.nodup_cons] at hnd
          have hch' : ∀ c ∈ acc.1.childElems, c.1.id ∈ rest.map (·.1) →
              ∃ c0 ∈ ka.childElems, c.1.id = c0.1.id ∧ c.1.name = c0.1.name ∧ c.1.ety = c0.1.ety ∧ c.2 = c0.2 :=
            fun c hc hi => hch c hc (by simp only [List.map_cons]; exact List.mem_cons_of_mem _ hi)
          split
          · exact ⟨hq', hnd.2, hch', herr⟩
          · split
            · exact ⟨hq', hnd.2, hch', herr⟩
            · rename_i ah ak hchild
              dsimp only
              obtain ⟨hmem, hid⟩ := child_mem _ _ _ hchild
              refine ⟨hq', hnd.2, ?_, ?_⟩
              · intro c hc hi
                rcases mem_childElems_setChild _ _ _ _ c hc with h | ⟨rfl, -⟩
                · exact hch' c h hi
                · exfalso
                  have hkeep : ∀ (c : Prop) [Decidable c] (X : List Nat), (if c then { ah with files := X } else ah).id = ah.id := by
                    intro c _ X; split <;> rfl
                  dsimp only at hi
                  rw [hkeep, hid] at hi
                  exact hnd.1 hi
              · obtain ⟨c0, hc0, e1, e2, e3, e4⟩ := hch (ah, ak) hmem (by simp only [List.map_cons]; rw [hid]; exact List.mem_cons_self)
                dsimp only at e1 e2 e3 e4
                obtain ⟨hpb, a, haK, hpa, hname⟩ := hq p List.mem_cons_self
                have hca : c0 = a := eq_of_map_nodup (fun c : Hdr × Items => c.1.id) _ hkn c0 hc0 a haK (by
                  show c0.1.id = a.1.id
                  rw [← e1, hid, hpa])
                subst hca
                have htyp : ah.ety.typ = p.2.1.ety.typ := by
                  rw [e3, (hTa' c0 hc0).1, (hTb' p.2 hpb).1, hname]
                have hA1 : kidsKnownAt S ah ak := by
                  unfold kidsKnownAt; rw [e3, e4]; exact (hKa' c0 hc0).1
                have hA2 : kidsKnownAt S ah p.2.2 := by
                  unfold kidsKnownAt; rw [htyp]; exact (hKb' p.2 hpb).1
                refine ih ah ak _ p.2.2 ?_ hA1 (by rw [e4]; exact (hKa' c0 hc0).2) hA2 (hKb' p.2 hpb).2
                  (by rw [e3, e4]; exact (hTa' c0 hc0).2) (by rw [htyp]; exact (hTb' p.2 hpb).2)
                  (by rw [e4]; exact nodup_kid ka hna c0 hc0) ?_
                · have := size_kid_lt kb p.2 hpb; omega
                · intro x hx hx'
                  rw [e4] at hx'
                  exact hdisj x ((mem_ids_iff_kids kb x).mpr ⟨p.2, hpb, Or.inr hx⟩)
                    ((mem_ids_iff_kids ka x).mpr ⟨c0, hc0, Or.inr hx'⟩)
        · -- the children before `merge_sub_elements`
          intro c hc hi
          dsimp only at hc
          rcases importNew_kids S ha newFile minVerB _ _ _ c hc with h | ⟨e, he, rfl⟩
          · rw [childElems_mapKidHdrs] at h
            obtain ⟨c0, hc0, rfl⟩ := List.mem_map.mp h
            refine ⟨c0, hc0, ?_⟩
            dsimp only
            split <;> exact ⟨rfl, rfl, rfl, rfl⟩
          · exfalso
            have he1 : e.1 ∈ kb.childElems := by
              rcases List.mem_append.mp he with h | h
              · rcases hb1 e h with h | h
                · simp at h
                · exact h
              · obtain ⟨b, hb, rfl⟩ := List.mem_map.mp h
                exact hb3 b (List.mem_filter.mp hb).1
            dsimp only at hi
            rw [hl1] at hi
            exact hdisj _ ((mem_ids_iff_kids kb _).mpr ⟨e.1, he1, Or.inl rfl⟩)
              ((kid_ids_sublist ka).subset (hl2.subset hi))

/-- 3. the merge that `load_buffer` starts on the roots (`mergeRes`, fuel `kids.size + m.rootKids.size + 2`) never panics.
`hK` is `WKidsKnown` for the model (part of `GInv`); `hAb`/`hKb` is what the parser guarantees for the accepted tree (the
parsed root has the type of the model's root); `hn`/`hdisj` hold in `GInv` worlds (the parser labels from `w.nextId`);
`hTa`/`hTb` (types are a function of parent type and name) is the extra hypothesis: see `tyGap_panics`. -/
theorem mergeRes_no_panic (g : Nat → Nat → Nat) (m : Model) (fid : Nat) (name : Bytes) (kids : Items) (st : PM.PState)
    (hK : KidsKnown S m.rootItems) (hAb : kidsKnownAt S m.rootHdr kids) (hKb : KidsKnown S kids)
    (hTa : TyBy g m.rootHdr.ety.typ m.rootKids) (hTb : TyBy g m.rootHdr.ety.typ kids)
    (hn : m.rootKids.ids.Nodup) (hdisj : ∀ x ∈ kids.ids, x ∉ m.rootKids.ids) :
    (mergeRes S V m fid name kids st).2 ≠ some .panic := by
  unfold mergeRes
  simp only [Model.rootItems, KidsKnown] at hK
  exact mergeElement_no_panic S V g _ _ _ _ _ _ _ _ (by omega) hK.1 hK.2.1 hAb hKb hTa hTb hn hdisj

end

/-! ### the typing hypothesis cannot be dropped

R (type 0): X (element 1, type 1) in version 1, X (element 2, type 2) in version 2 — the same name with two types;
type 1: A (name 110);  type 2: B (name 111).  All other hypotheses of `mergeElement_no_panic` hold (`KidsKnown` on both sides in
the all-version lookup, unique and disjoint ids), the two X are paired by name, and the walk below them asks the type of the
model's X for `B`: `unwrap()` on `None`. -/

def tyGapSpec : Spec where
  nTypes := 5
  nDefs := 5
  nSubs := 4
  nAttrs := 0
  nVer := 4
  nCData := 0
  nRefItems := 0
  subStart := fun t => if t = 0 then 0 else if t = 1 then 2 else if t = 2 then 3 else 4
  subEnd := fun t => if t = 0 then 2 else if t = 1 then 3 else 4
  subVer := fun t => if t = 0 then 0 else if t = 1 then 2 else if t = 2 then 3 else 4
  attrStart := fun _ => 0
  attrEnd := fun _ => 0
  attrVer := fun _ => 0
  cdataOf := fun _ => none
  mode := fun _ => .sequence
  refStart := fun _ => 0
  refEnd := fun _ => 0
  subEntry := fun i => if i = 0 then .elem 1 else if i = 1 then .elem 2 else if i = 2 then .elem 3 else .elem 4
  verInfo := fun i => if i = 0 then 1 else if i = 1 then 2 else 3
  attrName := fun _ => 0
  attrCData := fun _ => 0
  attrRequired := fun _ => false
  refItem := fun _ => 0
  defName := fun d => if d = 1 then 101 else if d = 2 then 101 else if d = 3 then 110 else if d = 4 then 111 else 100
  defType := fun d => d
  defMult := fun _ => .any
  defOrdered := fun _ => false
  defSplit := fun _ => 3
  cspec := fun _ => .pattern 8 none
  refTypeIdx := 99
  rootDef := 0
  depth := 1
  nmShortName := 999
  atDest := 998

def tgHdr (id name d : Nat) (par : PRef) (files : List Nat) : Hdr :=
  { id := id, name := name, ety := ⟨d, d⟩, parent := par, attrs := [], files := files, comment := none }

/-- the model's root (file 0, version 1): X of type 1 with an A -/
def tgRoot : Hdr := tgHdr 0 100 0 .none [0]
def tgKa : Items := .elem (tgHdr 1 101 1 (.elem 0) []) (.elem (tgHdr 2 110 3 (.elem 1) []) .nil .nil) .nil
/-- the content of the new file's root (version 2): X of type 2 with a B -/
def tgKb : Items := .elem (tgHdr 11 101 2 (.elem 10) []) (.elem (tgHdr 12 111 4 (.elem 11) []) .nil .nil) .nil

/-- the types the two sides record are the ones `find_sub_element` gives in their versions -/
example : (tyGapSpec.findSub 0 101 1).map (·.1) = some ⟨1, 1⟩ ∧ (tyGapSpec.findSub 0 101 2).map (·.1) = some ⟨2, 2⟩ := by decide

/-- both sides satisfy `KidsKnown`, ids are unique and disjoint — and the merge panics -/
theorem tyGap_panics :
    (mergeElement tyGapSpec toyEnv (fun g => if g = 0 then some 1 else if g = 1 then some 2 else none) 1 2 10 tgRoot tgKa [0] tgKb).2
      = some .panic := by decide

/-- the other hypotheses of `mergeElement_no_panic` hold in the witness -/
theorem tyGap_hyps : kidsKnownAt tyGapSpec tgRoot tgKa ∧ KidsKnown tyGapSpec tgKa ∧ kidsKnownAt tyGapSpec tgRoot tgKb ∧
    KidsKnown tyGapSpec tgKb ∧ tgKa.ids.Nodup ∧ (∀ x ∈ tgKb.ids, x ∉ tgKa.ids) := by
  refine ⟨?_, ?_, ?_, ?_, by decide, by decide⟩
  · intro c hc; simp only [tgKa, Items.childElems, List.mem_singleton] at hc; subst hc; decide
  · simp only [tgKa, KidsKnown, Items.childElems, List.mem_singleton, forall_eq, List.not_mem_nil, false_imp_iff, implies_true, and_true]; decide
  · intro c hc; simp only [tgKb, Items.childElems, List.mem_singleton] at hc; subst hc; decide
  · simp only [tgKb, KidsKnown, Items.childElems, List.mem_singleton, forall_eq, List.not_mem_nil, false_imp_iff, implies_true, and_true]; decide

end AV.W
