/-
C05, definitions for the history-level invariant "the reverse reference map holds, under each path, exactly the reference
elements of the tree whose text is that path, each once".
-/
import AutosarVerif.Lemmas.IndexDefs

namespace AV.W
open Items

section
variable (S : Spec)

/-- the registration a node contributes: a reference element (its type carries the REFERENCE character data) that holds a
text `p` is a referrer of `p` -/
def refOf (h : Hdr) (k : Items) : List (Bytes × Nat) :=
  if S.isRef h.ety.typ then
    match charData S h k with
    | some (.str p) => [(p, h.id)]
    | _ => []
  else []

/-- what the reverse reference map must hold for the forest: one pair (text, id) per reference element with a text, in
document order -/
def refEntries : Items → List (Bytes × Nat)
  | .nil => []
  | .text _ r => refEntries r
  | .elem h k r => refOf S h k ++ refEntries k ++ refEntries r

end

/-- the lists of the map are never empty (`remove_reference_origin` drops a key whose list becomes empty) -/
def refsNonempty (rs : List (Bytes × List Nat)) : Prop := ∀ e ∈ rs, e.2 ≠ []

/-- the reverse reference map `rs` is exact for the forest `its` -/
def RefsExact (S : Spec) (rs : List (Bytes × List Nat)) (its : Items) : Prop :=
  keysNodup rs ∧ refsNonempty rs ∧ ∀ p id, (refsGet rs p).count id = (refEntries S its).count (p, id)

/-- what the reference invariant needs from the specification: a reference type holds plain character data of a
string-like kind, and the SHORT-NAME of a named type is not a reference -/
structure RefWF (S : Spec) : Prop where
  ref_chars : ∀ t, S.isRef t = true → S.mode t = .characters
  ref_spec : ∀ t, S.isRef t = true → ∃ sp, S.chardataSpec t = some sp ∧ sp.stringLike = true
  sn_not_ref : ∀ t d, S.isNamed t = true → S.subAt t 0 = .elem d → S.isRef (S.defType d) = false
  root_not_ref : S.isRef (S.defType S.rootDef) = false

end AV.W
