/-
C11 over the step function: for EVERY core operation (`Model/Step.lean`), if the operation refuses (`err`) the world is
returned unchanged.  (The driver answers these requests with `applyOp`, so this is a statement about what the
correspondence run compares with the library.)
-/
import AutosarVerif.Lemmas.Reachable

namespace AV.W

section
variable (S : Spec) (V : Env) (rootAttrs : List (Nat × CDv))

/-- the operation refuses -/
def opRefuses (w : World) : Op → Prop
  | .newModel => False
  | .mkFile k name ver valid => (opMkFile S w k name ver valid).2 = "err"
  | .create p name pos => (opCreate S V w p name pos).2 = .err
  | .named p name item pos => (opNamed S V w p name item pos).2 = .err
  | .remove p c => (opRemove S w p c).2 = .err
  | .cdata x v => (opCData S V w x v).2 = .err
  | .rmcdata x => (opRmCData S w x).2 = .err
  | .attr x a v => (opAttr S V w x a v).2 = .err
  | .attrs x a s => (opAttrS S V w x a s).2 = .err
  | .rmattr x a => (opRmAttr S w x a).2 = .err
  | .comment x cm => (opComment w x cm).2 = .err
  | .instext x pos s => (opInsText S w x pos s).2 = .err
  | .rmtext x pos => (opRmText S w x pos).2 = .err
  | .addfile x f => (opAddFile S w x f).2 = .err
  | .rmfromfile x f => (opRmFromFile S w x f).2 = .err
  | .rmfile k f => (opRmFile S w k f).2 = .err
  | .setver f ver => (opSetVersion S w f ver).2 = .err

theorem opMkFile_err_frame (w : World) (k : Nat) (name : Bytes) (ver : Nat) (valid : Bool) :
    (opMkFile S w k name ver valid).2 = "err" → (opMkFile S w k name ver valid).1 = w := by
  unfold opMkFile
  split
  · intro _; rfl
  · split
    · intro _; rfl
    · split
      · intro _; rfl
      · intro h
        exfalso
        simp only at h
        -- the success answer starts with "ok"
        have : ∀ (t : String), ("ok f" ++ t) ≠ "err" := by
          intro t e
          have := congrArg String.toList e
          simp [String.toList_append] at this
        revert h
        split <;> intro h
        · exact this _ (by simp only [String.append_assoc] at h; exact h)
        · exact this _ (by simp only [String.append_assoc] at h; exact h)

theorem opRmAttr_never_err (w : World) (x a : Nat) : (opRmAttr S w x a).2 ≠ .err := by
  fun_cases opRmAttr S w x a <;> simp

theorem opComment_never_err (w : World) (x : Nat) (cm : Option Bytes) : (opComment w x cm).2 ≠ .err := by
  fun_cases opComment w x cm <;> simp

theorem opRmFile_never_err (w : World) (k f : Nat) : (opRmFile S w k f).2 ≠ .err := by
  fun_cases opRmFile S w k f <;> simp

/-- **failed operations have no effect**, for the whole step function -/
theorem applyOp_err_frame (w : World) (op : Op) (h : opRefuses S V w op) : (applyOp S V rootAttrs w op).1 = w := by
  cases op with
  | newModel => exact h.elim
  | mkFile k name ver valid => exact opMkFile_err_frame S w k name ver valid h
  | create p name pos => exact opCreate_err_frame S V w p name pos h
  | named p name item pos => exact opNamed_err_frame S V w p name item pos h
  | remove p c => exact opRemove_err_frame S w p c h
  | cdata x v => exact opCData_err_frame S V w x v h
  | rmcdata x => exact opRmCData_err_frame S w x h
  | attr x a v => exact opAttr_err_frame S V w x a v h
  | attrs x a s => exact opAttrS_err_frame S V w x a s h
  | rmattr x a => exact absurd h (opRmAttr_never_err S w x a)
  | comment x cm => exact absurd h (opComment_never_err w x cm)
  | instext x pos s => exact opInsText_err_frame S w x pos s h
  | rmtext x pos => exact opRmText_err_frame S w x pos h
  | addfile x f => exact opAddFile_err_frame S w x f h
  | rmfromfile x f => exact opRmFromFile_err_frame S w x f h
  | rmfile k f => exact absurd h (opRmFile_never_err S w k f)
  | setver f ver => exact opSetVersion_err_frame S w f ver h

/-- the refusal is visible in the answer line the driver prints -/
theorem applyOp_answer_err (w : World) (op : Op) (h : opRefuses S V w op) : (applyOp S V rootAttrs w op).2 = "err" := by
  cases op <;> first
    | exact h.elim
    | (simp only [opRefuses] at h; simp only [applyOp, shAns, h, Ans.show])
    | (simp only [opRefuses] at h; simp only [applyOp]; exact h)

end
end AV.W
