/-
C07 as a history invariant: every element of every model has its children in specification order (`OrderedKids`,
`Lemmas/RangeGroups.lean`), in every state reached by a history of the core operations (`Model/Step.lean`).

The index path of a child is looked up BY NAME IN A VERSION, so "in specification order" is relative to a version `ver`:
`WOrdered S ver w`.  Removal, text edits, attribute edits, `set_character_data`, comments and all file operations keep it for
every `ver` (they keep names, types and the order of the remaining children).  `create` / `named create` work with the version
of the parent (`Element::min_version`); they keep `WOrdered S ver` when that version reads the names like `ver` does
(`SameKeys`; trivially so in histories with one version, see `run_wordered_uniform`).
-/
import AutosarVerif.Lemmas.RangeGroups

namespace AV.W
open Items

section
variable (S : Spec) (V : Env) (vOk : Nat) (rootAttrs : List (Nat × CDv)) (ver : Nat)

/-- the children of `h` are in specification order (names read in version `ver`) -/
def orderedAt (h : Hdr) (k : Items) : Prop := OrderedKids S h.ety.typ ver k

/-- every element of the forest has its children in specification order -/
def OrderedTree : Items → Prop
  | .nil => True
  | .text _ r => OrderedTree r
  | .elem h k r => orderedAt S ver h k ∧ OrderedTree k ∧ OrderedTree r

/-- … in every model -/
def WOrdered (w : World) : Prop := ∀ m ∈ w.models, OrderedTree S ver m.rootItems

/-! ### small facts -/

theorem orderedKids_nil (typ : Nat) : OrderedKids S typ ver .nil := ⟨by simp [kidsOf], by simp [kidKeys, kidsOf]⟩

theorem orderedKids_textNil (typ : Nat) (c : CDv) : OrderedKids S typ ver (.text c .nil) :=
  ⟨by simp [kidsOf], by simp [kidKeys, kidsOf, List.filterMap_cons, Kid.key?]⟩

theorem orderedAt_nil (h : Hdr) : orderedAt S ver h .nil := orderedKids_nil S ver _
theorem orderedAt_textNil (h : Hdr) (c : CDv) : orderedAt S ver h (.text c .nil) := orderedKids_textNil S ver _ c

theorem orderedAt_hdr (h h' : Hdr) (k : Items) (he : h'.ety = h.ety) (a : orderedAt S ver h k) : orderedAt S ver h' k := by
  unfold orderedAt at *
  rw [he]; exact a

theorem orderedTree_elem (h : Hdr) (k r : Items) :
    OrderedTree S ver (.elem h k r) ↔ orderedAt S ver h k ∧ OrderedTree S ver k ∧ OrderedTree S ver r := Iff.rfl

theorem orderedTree_iff (its : Items) :
    OrderedTree S ver its ↔ ∀ c ∈ its.childElems, orderedAt S ver c.1 c.2 ∧ OrderedTree S ver c.2 := by
  induction its with
  | nil => simp [OrderedTree, Items.childElems]
  | text c r ih => simpa only [OrderedTree, Items.childElems] using ih
  | elem h k r _ ih => simp only [OrderedTree, Items.childElems, List.forall_mem_cons, ih, and_assoc]

/-! ### the order is a function of the skeleton (names and types of the elements, places of the text items) -/

theorem kidsOf_skel (typ : Nat) (k : Items) : kidsOf S typ ver k.skel = kidsOf S typ ver k := by
  induction k with
  | nil => rfl
  | text c r ih => simp only [skel_text, kidsOf, ih]
  | elem h kk r _ ih => simp only [skel_elem, kidsOf, ih, core_name]

theorem orderedKids_of_kidsOf (typ : Nat) (k k' : Items) (e : kidsOf S typ ver k' = kidsOf S typ ver k) :
    OrderedKids S typ ver k' ↔ OrderedKids S typ ver k := by
  unfold OrderedKids kidKeys
  rw [e]

theorem orderedTree_skel (its : Items) : OrderedTree S ver its.skel ↔ OrderedTree S ver its := by
  induction its with
  | nil => exact Iff.rfl
  | text c r ih => rw [skel_text]; exact ih
  | elem h k r ihk ihr =>
    rw [skel_elem, orderedTree_elem, orderedTree_elem, ihk, ihr]
    refine and_congr_left (fun _ => ?_)
    unfold orderedAt
    rw [core_ety]
    exact orderedKids_of_kidsOf S ver _ k k.skel (kidsOf_skel S ver _ k)

theorem orderedTree_of_skel {its its' : Items} (h : its'.skel = its.skel) : OrderedTree S ver its' ↔ OrderedTree S ver its := by
  rw [← orderedTree_skel S ver its', h, orderedTree_skel]

theorem orderedTree_setRoot_skel (m : Model) (its : Items) (hsk : its.skel = m.rootItems.skel)
    (h : OrderedTree S ver m.rootItems) : OrderedTree S ver (m.setRoot its).rootItems := by
  obtain ⟨h1, _, _, _⟩ := setRoot_of_skel m its hsk
  rw [h1]
  exact (orderedTree_of_skel S ver hsk).mpr h

theorem orderedTree_root_congr (h h' : Hdr) (k k' : Items) (hty : h'.ety = h.ety) (hsk : k'.skel = k.skel)
    (hl : OrderedTree S ver (.elem h k .nil)) : OrderedTree S ver (.elem h' k' .nil) := by
  obtain ⟨a, b, _⟩ := hl
  refine ⟨?_, (orderedTree_of_skel S ver hsk).mpr b, trivial⟩
  unfold orderedAt at *
  rw [hty]
  refine (orderedKids_of_kidsOf S ver _ k k' ?_).mpr a
  rw [← kidsOf_skel S ver _ k', hsk, kidsOf_skel]

theorem wordered_congr (w w' : World) (hl : WOrdered S ver w) (hmodels : w'.models = w.models) : WOrdered S ver w' := by
  intro m hmem
  rw [hmodels] at hmem
  exact hl m hmem

theorem wordered_update (w w' : World) (k : Nat) (m' : Model) (hK : WOrdered S ver w) (hm : OrderedTree S ver m'.rootItems)
    (hmodels : w'.models = w.models.set k m') : WOrdered S ver w' := by
  intro m hmem
  rw [hmodels] at hmem
  rcases List.mem_or_eq_of_mem_set hmem with h | h
  · exact hK m h
  · rw [h]; exact hm

/-! ### one node is edited -/

theorem kidsOf_modify (typ : Nat) (t : Nat) (f : Hdr → Items → Hdr × Items) (k : Items)
    (hf : ∀ h0 k0, Occ h0 k0 k → h0.id = t → (f h0 k0).1.name = h0.name) :
    kidsOf S typ ver (k.modify t f) = kidsOf S typ ver k := by
  induction k with
  | nil => rfl
  | text c r ih => simp only [Items.modify, kidsOf]; rw [ih hf]
  | elem h kk r _ ih =>
    have ih := ih (fun h0 k0 ho => hf h0 k0 (Or.inr (Or.inr ho)))
    simp only [Items.modify]
    split
    · rename_i heq
      simp only [kidsOf, ih, hf h kk (Or.inl ⟨rfl, rfl⟩) heq]
    · simp only [kidsOf, ih]

theorem orderedAt_modify (h : Hdr) (t : Nat) (f : Hdr → Items → Hdr × Items) (k : Items)
    (hf : ∀ h0 k0, Occ h0 k0 k → h0.id = t → (f h0 k0).1.name = h0.name) (hk : orderedAt S ver h k) :
    orderedAt S ver h (k.modify t f) :=
  (orderedKids_of_kidsOf S ver _ k _ (kidsOf_modify S ver _ t f k hf)).mpr hk

/-- an edit of node `t` that keeps the name of `t` and the property at `t` and in its new content -/
theorem orderedTree_modify (t : Nat) (f : Hdr → Items → Hdr × Items) (its : Items)
    (hf : ∀ h k, Occ h k its → h.id = t → (f h k).1.name = h.name ∧
      (orderedAt S ver h k → OrderedTree S ver k → orderedAt S ver (f h k).1 (f h k).2 ∧ OrderedTree S ver (f h k).2))
    (hK : OrderedTree S ver its) : OrderedTree S ver (its.modify t f) := by
  induction its with
  | nil => trivial
  | text c r ih => simp only [Items.modify, OrderedTree] at *; exact ih hf hK
  | elem hd k r ihk ihr =>
    have hfk := fun h0 k0 ho => hf h0 k0 (Or.inr (Or.inl ho))
    have hfr := fun h0 k0 ho => hf h0 k0 (Or.inr (Or.inr ho))
    simp only [Items.modify]
    split
    · rename_i heq
      obtain ⟨a, b⟩ := (hf hd k (Or.inl ⟨rfl, rfl⟩) heq).2 hK.1 hK.2.1
      exact ⟨a, b, ihr hfr hK.2.2⟩
    · exact ⟨orderedAt_modify S ver hd t f k (fun h0 k0 ho e => (hfk h0 k0 ho e).1) hK.1, ihk hfk hK.2.1, ihr hfr hK.2.2⟩

theorem wordered_located (w w' : World) (x k : Nat) (c : List (Hdr × Items)) (hloc : locate w x = some (k, c)) (m' : Model)
    (f : Hdr → Items → Hdr × Items) (hl : WOrdered S ver w) (hmodels : w'.models = w.models.set k m')
    (hroot : m'.rootItems = (w.models[k]!).rootItems.modify x f)
    (hf : ∀ h k0, (f h k0).1.name = h.name ∧ (orderedAt S ver h k0 → OrderedTree S ver k0 →
      orderedAt S ver (f h k0).1 (f h k0).2 ∧ OrderedTree S ver (f h k0).2)) : WOrdered S ver w' := by
  obtain ⟨m, _, hm2, hmem, _⟩ := locate_chain w x k c hloc
  refine wordered_update S ver w w' k m' hl ?_ hmodels
  rw [hroot, hm2]
  exact orderedTree_modify S ver x f _ (fun h k0 _ _ => hf h k0) (hl m hmem)

/-- the end of the proofs for the operations that edit one located node -/
macro "ordered_located" hl:ident : tactic => `(tactic| (
  refine wordered_located _ _ _ _ _ _ _ (by assumption) _ _ $hl rfl (rootItems_setRoot_modify _ _ _) ?_
  intro h0 k0
  first
    | exact ⟨rfl, fun _ _ => ⟨orderedAt_nil _ _ _, trivial⟩⟩
    | exact ⟨rfl, fun _ _ => ⟨orderedAt_textNil _ _ _ _, trivial⟩⟩
    | exact ⟨rfl, fun a b => ⟨a, b⟩⟩
    | exact ⟨(setAttrHdr_keeps4 _ _ h0 _ _ _).2.1, fun a b =>
        ⟨orderedAt_hdr _ _ _ _ _ (setAttrHdr_keeps4 _ _ h0 _ _ _).2.2.1 a, b⟩⟩
    | (refine ⟨?_, fun a b => ⟨orderedAt_hdr _ _ _ _ _ ?_ a, b⟩⟩ <;> (dsimp only; split <;> rfl))))

theorem opCData_ordered (w : World) (x : Nat) (v : CDv) (hl : WOrdered S ver w) : WOrdered S ver (opCData S V w x v).1 := by
  unfold opCData
  split
  · exact hl
  · split
    · exact hl
    · split
      · exact hl
      · split
        · exact hl
        · rename_i k c hloc
          dsimp only
          split
          · exact hl
          · split
            · exact hl
            · split
              · exact hl
              · split
                · exact hl
                · ordered_located hl

theorem opRmCData_ordered (w : World) (x : Nat) (hl : WOrdered S ver w) : WOrdered S ver (opRmCData S w x).1 := by
  unfold opRmCData
  repeat' (first | exact hl | split | dsimp only)
  all_goals ordered_located hl

theorem opAttr_ordered (w : World) (x a : Nat) (v : CDv) (hl : WOrdered S ver w) : WOrdered S ver (opAttr S V w x a v).1 := by
  unfold opAttr
  repeat' (first | exact hl | split | dsimp only)
  all_goals ordered_located hl

theorem opAttrS_ordered (w : World) (x a : Nat) (s : Bytes) (hl : WOrdered S ver w) : WOrdered S ver (opAttrS S V w x a s).1 := by
  unfold opAttrS
  repeat' (first | exact hl | split | dsimp only)
  all_goals ordered_located hl

theorem opRmAttr_ordered (w : World) (x a : Nat) (hl : WOrdered S ver w) : WOrdered S ver (opRmAttr S w x a).1 := by
  unfold opRmAttr
  repeat' (first | exact hl | split | dsimp only)
  all_goals first
    | exact wordered_congr S ver w _ hl rfl
    | ordered_located hl

theorem opComment_ordered (w : World) (x : Nat) (cm : Option Bytes) (hl : WOrdered S ver w) :
    WOrdered S ver (opComment w x cm).1 := by
  unfold opComment
  split
  · exact wordered_congr S ver w _ hl rfl
  · ordered_located hl

/-! ### text items, removal -/

theorem kidsOf_insertText (typ : Nat) (cd : CDv) (kids : Items) (p : Nat) :
    kidsOf S typ ver (kids.insertAt (fun r => .text cd r) p) =
      (kidsOf S typ ver kids).take p ++ Kid.text :: (kidsOf S typ ver kids).drop p := by
  induction kids generalizing p with
  | nil => cases p <;> simp [Items.insertAt, kidsOf]
  | text c r ih =>
    cases p with
    | zero => simp [Items.insertAt, kidsOf]
    | succ q => simp [Items.insertAt, kidsOf, ih q]
  | elem h k r _ ih =>
    cases p with
    | zero => simp [Items.insertAt, kidsOf]
    | succ q => simp [Items.insertAt, kidsOf, ih q]

theorem orderedKids_insertText (typ : Nat) (cd : CDv) (k : Items) (pos : Nat) (a : OrderedKids S typ ver k) :
    OrderedKids S typ ver (k.insertAt (fun r => .text cd r) pos) := by
  rw [orderedKids_iff] at a ⊢
  rw [kidsOf_insertText, pairwise_insert S typ _ a.2]
  refine ⟨?_, fun _ _ _ _ y hy => (by cases hy), fun _ _ x hx => (by cases hx)⟩
  intro hm
  rcases List.mem_append.mp hm with hm | hm
  · exact a.1 (List.mem_of_mem_take hm)
  · rcases List.mem_cons.mp hm with hm | hm
    · cases hm
    · exact a.1 (List.mem_of_mem_drop hm)

theorem childElems_sub_insertText (cd : CDv) (k : Items) (pos : Nat) :
    (k.insertAt (fun r => .text cd r) pos).childElems = k.childElems := childElems_insertText cd k pos

theorem ordered_insertText (h : Hdr) (cd : CDv) (k : Items) (pos : Nat) (a : orderedAt S ver h k) (b : OrderedTree S ver k) :
    orderedAt S ver h (k.insertAt (fun r => .text cd r) pos) ∧ OrderedTree S ver (k.insertAt (fun r => .text cd r) pos) := by
  refine ⟨orderedKids_insertText S ver _ cd k pos a, ?_⟩
  rw [orderedTree_iff, childElems_insertText]
  exact (orderedTree_iff S ver k).mp b

theorem kidsOf_removeAt_sublist (typ : Nat) (k : Items) (pos : Nat) :
    (kidsOf S typ ver (k.removeAt pos)).Sublist (kidsOf S typ ver k) := by
  induction k generalizing pos with
  | nil => exact List.Sublist.refl _
  | text c r ih =>
    cases pos with
    | zero => exact List.sublist_cons_self _ _
    | succ q => simp only [Items.removeAt, kidsOf]; exact (ih q).cons_cons _
  | elem h kk r _ ih =>
    cases pos with
    | zero => exact List.sublist_cons_self _ _
    | succ q => simp only [Items.removeAt, kidsOf]; exact (ih q).cons_cons _

theorem orderedKids_of_sublist (typ : Nat) (k k' : Items) (hs : (kidsOf S typ ver k').Sublist (kidsOf S typ ver k))
    (a : OrderedKids S typ ver k) : OrderedKids S typ ver k' := by
  rw [orderedKids_iff] at a ⊢
  exact ⟨fun hm => a.1 (hs.subset hm), a.2.sublist hs⟩

theorem ordered_removeAt (h : Hdr) (k : Items) (pos : Nat) (a : orderedAt S ver h k) (b : OrderedTree S ver k) :
    orderedAt S ver h (k.removeAt pos) ∧ OrderedTree S ver (k.removeAt pos) := by
  refine ⟨orderedKids_of_sublist S ver _ k _ (kidsOf_removeAt_sublist S ver _ k pos) a, ?_⟩
  rw [orderedTree_iff]
  exact fun c hc => (orderedTree_iff S ver k).mp b c (mem_childElems_removeAt c k pos hc)

theorem opInsText_ordered (w : World) (x pos : Nat) (s : Bytes) (hl : WOrdered S ver w) :
    WOrdered S ver (opInsText S w x pos s).1 := by
  unfold opInsText
  split
  · exact hl
  · rename_i k c hloc
    obtain ⟨m, _, hm2, hmem, _⟩ := locate_chain w x k c hloc
    dsimp only
    split
    · exact hl
    · split
      · exact hl
      · refine wordered_update S ver w _ k _ hl ?_ rfl
        rw [hm2, rootItems_setRoot_modify m x _]
        refine orderedTree_modify S ver x _ _ ?_ (hl m hmem)
        intro h k0 _ _
        exact ⟨rfl, fun a b => ordered_insertText S ver h _ k0 pos a b⟩

theorem opRmText_ordered (w : World) (x pos : Nat) (hl : WOrdered S ver w) : WOrdered S ver (opRmText S w x pos).1 := by
  unfold opRmText
  split
  · exact hl
  · rename_i k c hloc
    obtain ⟨m, _, hm2, hmem, _⟩ := locate_chain w x k c hloc
    dsimp only
    split
    · exact hl
    · split
      · refine wordered_update S ver w _ k _ hl ?_ rfl
        rw [hm2, rootItems_setRoot_modify m x _]
        refine orderedTree_modify S ver x _ _ ?_ (hl m hmem)
        intro h k0 _ _
        exact ⟨rfl, fun a b => ordered_removeAt S ver h k0 pos a b⟩
      · exact hl

theorem opRemove_ordered (w : World) (p cid : Nat) (hl : WOrdered S ver w) : WOrdered S ver (opRemove S w p cid).1 := by
  unfold opRemove
  split
  · exact hl
  · rename_i k c hloc
    obtain ⟨m, _, hm2, hmem, _⟩ := locate_chain w p k c hloc
    dsimp only
    rw [hm2]
    split
    · rename_i pos ch ck _ _
      split
      · exact hl
      · refine wordered_update S ver w _ k _ hl ?_ rfl
        show OrderedTree S ver (m.setRoot (m.rootItems.modify p fun h0 k0 => (h0, k0.removeAt pos))).rootItems
        rw [rootItems_setRoot_modify m p _]
        refine orderedTree_modify S ver p _ _ ?_ (hl m hmem)
        intro h k0 _ _
        exact ⟨rfl, fun a b => ordered_removeAt S ver h k0 pos a b⟩
    · exact hl

/-! ### file operations, creation of a model -/

theorem opAddFile_ordered (w : World) (x f : Nat) (hl : WOrdered S ver w) : WOrdered S ver (opAddFile S w x f).1 := by
  unfold opAddFile
  split
  · exact hl
  · rename_i k c hloc
    obtain ⟨m, _, hm2, hmem, _⟩ := locate_chain w x k c hloc
    dsimp only
    repeat' (first | exact hl | split)
    all_goals (
      refine wordered_update S ver w _ k _ hl ?_ rfl
      rw [hm2]
      exact orderedTree_setRoot_skel S ver m _ (addPath_skel S f (c.map (·.1.id)) [] true m.rootItems) (hl m hmem))

theorem opSetVersion_ordered (w : World) (f v : Nat) (hl : WOrdered S ver w) : WOrdered S ver (opSetVersion S w f v).1 := by
  unfold opSetVersion
  split
  · exact hl
  · rename_i k hk
    dsimp only
    split
    · exact hl
    · split
      · have hlt : k < w.models.length := by
          unfold fileModel at hk
          have := List.mem_of_find?_eq_some hk
          exact List.mem_range.mp this
        have hmem : w.models[k]! ∈ w.models := by
          rw [getElem!_pos w.models k hlt]; exact List.getElem_mem hlt
        refine wordered_update S ver w _ k _ hl ?_ rfl
        exact hl (w.models[k]!) hmem
      · exact hl

theorem newModel_ordered (w : World) (hl : WOrdered S ver w) :
    WOrdered S ver { w with models := w.models ++ [newModel S rootAttrs] } := by
  intro m hmem
  rcases List.mem_append.mp hmem with h | h
  · exact hl m h
  · rw [List.mem_singleton] at h
    subst h
    exact ⟨orderedAt_nil S ver _, trivial, trivial⟩

theorem opMkFile_ordered (w : World) (k : Nat) (name : Bytes) (v : Nat) (valid : Bool) (hl : WOrdered S ver w) :
    WOrdered S ver (opMkFile S w k name v valid).1 := by
  unfold opMkFile
  split
  · exact hl
  · rename_i m hmk
    have hm : OrderedTree S ver (.elem m.rootHdr m.rootKids .nil) := hl m (List.mem_of_getElem? hmk)
    obtain ⟨hc, hs⟩ := restrictStep_skel S w.nextFile m.rootHdr m.rootKids [] true
    have hty : (restrictStep S w.nextFile m.rootHdr m.rootKids [] true).1.ety = m.rootHdr.ety := (core_inj hc).2.2
    split
    · exact hl
    · split
      · exact hl
      · cases hiss : m.rootIssued with
        | true =>
          simp only [if_true]
          refine wordered_update S ver w _ k _ hl ?_ rfl
          exact orderedTree_root_congr S ver _ _ _ _ hty hs hm
        | false =>
          simp only [Bool.false_eq_true, if_false]
          refine wordered_update S ver w _ k _ hl ?_ rfl
          exact orderedTree_root_congr S ver m.rootHdr _ m.rootKids _ hty ((skel_setParents _ _).trans hs) hm

theorem removeAll_ordered (ids : List Nat) : ∀ (w : World), WOrdered S ver w → WOrdered S ver (removeAll S w ids) := by
  induction ids with
  | nil => intro w hl; exact hl
  | cons id rest ih =>
    intro w hl
    simp only [removeAll]
    apply ih
    split
    · split
      · exact opRemove_ordered S ver w _ _ hl
      · exact hl
    · exact hl

theorem opRmFromFile_ordered (w : World) (x f : Nat) (hl : WOrdered S ver w) : WOrdered S ver (opRmFromFile S w x f).1 := by
  unfold opRmFromFile
  split
  · exact hl
  · dsimp only
    split
    · exact hl
    · split
      · exact hl
      · split
        · exact hl
        · split
          · exact hl
          · rename_i cur _
            have hl1 : WOrdered S ver (if (cur.filter (· != f)).isEmpty then
                (match (‹List (Hdr × Items)›).dropLast.getLast? with
                  | some (ph, _) => (opRemove S w ph.id x).1
                  | none => w) else w) := by
              split
              · split
                · exact opRemove_ordered S ver w _ _ hl
                · exact hl
              · exact hl
            split
            · exact hl1
            · rename_i k1 c1 hloc1
              obtain ⟨m1, _, hm2, hmem1, _⟩ := locate_chain _ x k1 c1 hloc1
              apply removeAll_ordered
              refine wordered_update S ver _ _ k1 _ hl1 ?_ rfl
              rw [hm2]
              exact orderedTree_setRoot_skel S ver m1 _ (rmAt_skel f x [] m1.rootItems) (hl1 m1 hmem1)

theorem opRmFile_ordered (w : World) (k f : Nat) (hl : WOrdered S ver w) : WOrdered S ver (opRmFile S w k f).1 := by
  unfold opRmFile
  split
  · exact hl
  · rename_i m hk
    split
    · exact hl
    · dsimp only
      split
      · exact hl
      · apply opRmFromFile_ordered
        refine wordered_update S ver w _ k _ hl ?_ rfl
        exact hl m (List.mem_of_getElem? hk)

theorem wordered_empty : WOrdered S ver emptyWorld := fun m hm => by simp [emptyWorld] at hm

/-! ### `create_sub_element`, `create_named_sub_element` -/

theorem ordered_insertElem (hB : BagFlat S) (v : Nat) (hk : SameKeys S v ver) (h nh : Hdr) (nk k0 : Items)
    (name lo hi pos : Nat) (hname : nh.name = name)
    (hr : insertRange S h k0 name v = some (lo, hi)) (hpos : lo ≤ pos ∧ pos ≤ hi)
    (hnk : orderedAt S ver nh nk ∧ OrderedTree S ver nk)
    (a : orderedAt S ver h k0) (b : OrderedTree S ver k0) :
    orderedAt S ver h (k0.insertAt (fun r => .elem nh nk r) pos) ∧
      OrderedTree S ver (k0.insertAt (fun r => .elem nh nk r) pos) := by
  refine ⟨?_, ?_⟩
  · unfold orderedAt at a ⊢
    rw [← orderedKids_sameKeys S v ver hk] at a ⊢
    have hle := (insertRange_hi_le S h k0 name v lo hi hr).2
    exact (insertRange_range_exact_all S hB h k0 name v a lo hi hr nh nk hname pos (by omega)).mp hpos
  · rw [orderedTree_iff]
    intro c hc
    rcases mem_childElems_insertAt nh nk c k0 pos hc with e | e
    · rw [e]; exact hnk
    · exact (orderedTree_iff S ver k0).mp b c e

/-- `create_sub_element[_at]` keeps the children of every element in specification order -/
theorem opCreate_wordered (hB : BagFlat S) (w : World) (p name : Nat) (pos? : Option Nat)
    (hw : WInv S vOk w) (hl : WOrdered S ver w)
    (hsk : ∀ k c v, locate w p = some (k, c) → minVersion V (w.models[k]!) c = some v → v ≠ 0 → SameKeys S v ver) :
    WOrdered S ver (opCreate S V w p name pos?).1 := by
  unfold opCreate
  split
  · exact hl
  · rename_i k c hloc
    obtain ⟨m, _, hm2, hmem, hc⟩ := locate_chain w p k c hloc
    have hm := hw m hmem
    have hsk' := hsk k c
    dsimp only
    rw [hm2] at hsk' ⊢
    split
    · exact hl
    · rename_i v hver
      split
      · exact hl
      · rename_i lo hi hr
        split
        · exact hl
        · rename_i hpos
          split
          · exact hl
          · rename_i ety _ hfs
            split
            · exact hl
            · have hv0 : v ≠ 0 := by
                intro e
                rw [e] at hfs
                unfold Spec.findSub at hfs
                rw [findSubT_zero] at hfs
                cases hfs
              have hk := hsk' v hloc hver hv0
              refine wordered_update S ver w _ k _ hl ?_ rfl
              rw [rootItems_setRoot_modify]
              refine orderedTree_modify S ver p _ _ (fun h k0 ho he => ⟨rfl, fun a b => ?_⟩) (hl m hmem)
              obtain ⟨e1, e2⟩ := node_eq S vOk hm p c hc h k0 ho he
              rw [← e1, ← e2] at hr
              exact ordered_insertElem S ver hB v hk h _ .nil k0 name lo hi _ rfl hr (Decidable.not_not.mp hpos)
                ⟨orderedAt_nil S ver _, trivial⟩ a b

theorem orderedKids_single (typ : Nat) (sh : Hdr) (sk : Items) (idx : List Nat)
    (h : kidOfName S typ ver sh.name = .key idx) : OrderedKids S typ ver (.elem sh sk .nil) := by
  unfold OrderedKids kidKeys
  simp [kidsOf, h, Kid.key?]

/-- `create_named_sub_element[_at]` keeps the children of every element in specification order -/
theorem opNamed_wordered (hB : BagFlat S) (w : World) (p name : Nat) (item : Bytes) (pos? : Option Nat)
    (hw : WInv S vOk w) (hl : WOrdered S ver w)
    (hsk : ∀ k c v, locate w p = some (k, c) → minVersion V (w.models[k]!) c = some v → v ≠ 0 → SameKeys S v ver) :
    WOrdered S ver (opNamed S V w p name item pos?).1 := by
  unfold opNamed
  split
  · exact hl
  · rename_i k c hloc
    obtain ⟨m, _, hm2, hmem, hc⟩ := locate_chain w p k c hloc
    have hm := hw m hmem
    have hsk' := hsk k c
    dsimp only
    rw [hm2] at hsk' ⊢
    split
    · exact hl
    · rename_i v hver
      split
      · exact hl
      · rename_i lo hi hr
        split
        · exact hl
        · rename_i hpos
          split
          · exact hl
          · split
            · exact hl
            · rename_i ety _ hfs
              split
              · exact hl
              · have hv0 : v ≠ 0 := by
                  intro e
                  rw [e] at hfs
                  unfold Spec.findSub at hfs
                  rw [findSubT_zero] at hfs
                  cases hfs
                have hk := hsk' v hloc hver hv0
                cases hsn : S.findSub ety.typ S.nmShortName v with
                | none => simp only [Bool.not_false, if_true]; exact hl
                | some x =>
                  obtain ⟨sty, sidx⟩ := x
                  simp only
                  cases hsp : S.chardataSpec sty.typ with
                  | none => simp only [Bool.not_false, if_true]; exact hl
                  | some sp =>
                    simp only
                    split
                    · exact hl
                    · split
                      · exact hl
                      · refine wordered_update S ver w _ k _ hl ?_ rfl
                        show OrderedTree S ver (Model.setRoot m _).rootItems
                        rw [rootItems_setRoot_modify]
                        refine orderedTree_modify S ver p _ _ (fun h k0 ho he => ⟨rfl, fun a b => ?_⟩) (hl m hmem)
                        obtain ⟨e1, e2⟩ := node_eq S vOk hm p c hc h k0 ho he
                        rw [← e1, ← e2] at hr
                        refine ordered_insertElem S ver hB v hk h _ _ k0 name lo hi _ rfl hr (Decidable.not_not.mp hpos) ?_ a b
                        split
                        · exact ⟨orderedAt_nil S ver _, trivial⟩
                        · refine ⟨?_, ⟨orderedAt_textNil S ver _ _, trivial, trivial⟩⟩
                          refine orderedKids_single S ver _ _ _ sidx ?_
                          rw [← hk]
                          exact kidOfName_of_findSub S _ v S.nmShortName sty sidx hsn

/-! ### the step theorem -/

/-- every version a file can have (a non-empty part of the mask `vOk`) reads the names of children like `ver` does -/
def KeysStable (vOk ver : Nat) : Prop := ∀ v, v &&& vOk = v → v ≠ 0 → SameKeys S v ver

/-- with one version only, the hypothesis is met -/
theorem keysStable_single (hsingle : ∀ v, v &&& ver = v → v = 0 ∨ v = ver) : KeysStable S ver ver := by
  intro v hv h0
  rcases hsingle v hv with e | e
  · exact absurd e h0
  · rw [e]; exact SameKeys.refl S ver

/-- **every core operation keeps the children of every element in specification order** -/
theorem applyOp_wordered (hH : IdxHyp S V vOk) (hB : BagFlat S) (hK : KeysStable S vOk ver) (w : World) (op : Op)
    (hw : WInv S vOk w) (hl : WOrdered S ver w) : WOrdered S ver (applyOp S V rootAttrs w op).1 := by
  have hsk : ∀ p k c v, locate w p = some (k, c) → minVersion V (w.models[k]!) c = some v → v ≠ 0 → SameKeys S v ver := by
    intro p k c v hloc hver h0
    obtain ⟨m, _, hm2, hmem, _⟩ := locate_chain w p k c hloc
    rw [hm2] at hver
    exact hK v (minVersion_ok S V vOk (hw m hmem) hH.latest c v hver) h0
  cases op with
  | newModel => exact newModel_ordered S rootAttrs ver w hl
  | mkFile k name v valid => exact opMkFile_ordered S ver w k name v valid hl
  | create p name pos => exact opCreate_wordered S V vOk ver hB w p name pos hw hl (hsk p)
  | named p name item pos => exact opNamed_wordered S V vOk ver hB w p name item pos hw hl (hsk p)
  | remove p c => exact opRemove_ordered S ver w p c hl
  | cdata x v => exact opCData_ordered S V ver w x v hl
  | rmcdata x => exact opRmCData_ordered S ver w x hl
  | attr x a v => exact opAttr_ordered S V ver w x a v hl
  | attrs x a s => exact opAttrS_ordered S V ver w x a s hl
  | rmattr x a => exact opRmAttr_ordered S ver w x a hl
  | comment x cm => exact opComment_ordered S ver w x cm hl
  | instext x pos s => exact opInsText_ordered S ver w x pos s hl
  | rmtext x pos => exact opRmText_ordered S ver w x pos hl
  | addfile x f => exact opAddFile_ordered S ver w x f hl
  | rmfromfile x f => exact opRmFromFile_ordered S ver w x f hl
  | rmfile k f => exact opRmFile_ordered S ver w k f hl
  | setver f v => exact opSetVersion_ordered S ver w f v hl

/-- **every reachable state** of a guarded history of core operations has the children of every element in specification
order — every tree built by `create` / `named create` (and edited by the other core operations) from the empty world -/
theorem run_wordered (hH : IdxHyp S V vOk) (hR : RefWF S) (hB : BagFlat S) (hK : KeysStable S vOk ver) (ops : List Op)
    (hops : ∀ op ∈ ops, OpOk S vOk op) : WOrdered S ver (run S V rootAttrs ops) := by
  unfold run
  suffices h : ∀ (w : World), CInv S vOk w → WOrdered S ver w →
      CInv S vOk (ops.foldl (fun w op => (applyOp S V rootAttrs w op).1) w) ∧
      WOrdered S ver (ops.foldl (fun w op => (applyOp S V rootAttrs w op).1) w) from
    (h _ (cinv_empty S vOk) (wordered_empty S ver)).2
  induction ops with
  | nil => intro w hw hk; exact ⟨hw, hk⟩
  | cons op rest ih =>
    intro w hw hk
    simp only [List.foldl_cons]
    exact ih (fun o ho => hops o (List.mem_cons_of_mem _ ho)) _
      (applyOp_cinv S V vOk rootAttrs hH hR w op (hops op List.mem_cons_self) hw)
      (applyOp_wordered S V vOk rootAttrs ver hH hB hK w op hw.1 hk)

/-- histories in which every file has the one version `ver` -/
theorem run_wordered_uniform (hH : IdxHyp S V ver) (hR : RefWF S) (hB : BagFlat S)
    (hsingle : ∀ v, v &&& ver = v → v = 0 ∨ v = ver) (ops : List Op)
    (hops : ∀ op ∈ ops, OpOk S ver op) : WOrdered S ver (run S V rootAttrs ops) :=
  run_wordered S V ver rootAttrs ver hH hR hB (keysStable_single S ver hsingle) ops hops

end
end AV.W
