/-
An extra invariant for `set_reference_target`: a reference element holds AT MOST ONE content item (`WROne`).  Together with
`WRLeaf` (no sub-elements): the content of a reference element is empty or one character data item.  `CInv` does not say
this, and `opSetRef` (which replaces the FIRST content item by the path) needs it to keep the reverse reference map exact.
-/
import AutosarVerif.Lemmas.RefsReach

namespace AV.W
open Items

section
variable (S : Spec) (V : Env) (vOk : Nat) (rootAttrs : List (Nat × CDv))

/-- a reference element holds at most one content item -/
def RefOne (its : Items) : Prop := ∀ h k, Occ h k its → S.isRef h.ety.typ = true → k.length ≤ 1

def WROne (w : World) : Prop := ∀ m ∈ w.models, RefOne S m.rootItems

theorem refOne_nil : RefOne S .nil := fun _ _ ho => ho.elim

theorem refOne_elem (hd : Hdr) (k r : Items) :
    RefOne S (.elem hd k r) ↔ (S.isRef hd.ety.typ = true → k.length ≤ 1) ∧ RefOne S k ∧ RefOne S r := by
  constructor
  · intro h
    exact ⟨fun hx => h hd k (Or.inl ⟨rfl, rfl⟩) hx, fun h0 k0 ho => h h0 k0 (Or.inr (Or.inl ho)),
      fun h0 k0 ho => h h0 k0 (Or.inr (Or.inr ho))⟩
  · rintro ⟨a, b, c⟩ h0 k0 ho hx
    rcases ho with ⟨rfl, rfl⟩ | ho | ho
    · exact a hx
    · exact b h0 k0 ho hx
    · exact c h0 k0 ho hx

theorem refOne_text (c : CDv) (r : Items) : RefOne S (.text c r) ↔ RefOne S r := Iff.rfl

theorem length_modify (t : Nat) (f : Hdr → Items → Hdr × Items) (its : Items) : (its.modify t f).length = its.length := by
  induction its with
  | nil => rfl
  | text c r ih => simp only [Items.modify, Items.length, ih]
  | elem hd k r _ ihr =>
    by_cases heq : hd.id = t
    · rw [modify_elem_eq t f hd k r heq]; simp only [Items.length, ihr]
    · rw [modify_elem_ne t f hd k r heq]; simp only [Items.length, ihr]

/-- an edit of node `t` that keeps the property at `t` and in the new content of `t` -/
theorem refOne_modify (t : Nat) (f : Hdr → Items → Hdr × Items) (its : Items)
    (hf : ∀ h k, Occ h k its → h.id = t → (S.isRef h.ety.typ = true → k.length ≤ 1) → RefOne S k →
      (S.isRef (f h k).1.ety.typ = true → (f h k).2.length ≤ 1) ∧ RefOne S (f h k).2)
    (hl : RefOne S its) : RefOne S (its.modify t f) := by
  induction its with
  | nil => exact hl
  | text c r ih =>
    simp only [Items.modify]
    exact (refOne_text S c _).mpr (ih hf ((refOne_text S c r).mp hl))
  | elem hd k r ihk ihr =>
    obtain ⟨a, b, c⟩ := (refOne_elem S hd k r).mp hl
    have ihk' := ihk (fun h0 k0 ho => hf h0 k0 (Or.inr (Or.inl ho))) b
    have ihr' := ihr (fun h0 k0 ho => hf h0 k0 (Or.inr (Or.inr ho))) c
    by_cases heq : hd.id = t
    · rw [modify_elem_eq t f hd k r heq]
      obtain ⟨h1, h2⟩ := hf hd k (Or.inl ⟨rfl, rfl⟩) heq a b
      exact (refOne_elem S _ _ _).mpr ⟨h1, h2, ihr'⟩
    · rw [modify_elem_ne t f hd k r heq]
      refine (refOne_elem S _ _ _).mpr ⟨fun hx => ?_, ihk', ihr'⟩
      rw [length_modify]
      exact a hx

theorem wrone_update (w w' : World) (k : Nat) (m' : Model) (hl : WROne S w) (hm : RefOne S m'.rootItems)
    (hmodels : w'.models = w.models.set k m') : WROne S w' := by
  intro m hmem
  rw [hmodels] at hmem
  rcases List.mem_or_eq_of_mem_set hmem with h | h
  · exact hl m h
  · rw [h]; exact hm

theorem wrone_congr (w w' : World) (hl : WROne S w) (hmodels : w'.models = w.models) : WROne S w' := by
  intro m hmem
  rw [hmodels] at hmem
  exact hl m hmem

/-- the content of a reference element under `WRLeaf` and `WROne`: empty or one character data item -/
theorem ref_content_shape (k : Items) (h1 : k.childElems = []) (h2 : k.length ≤ 1) : k = .nil ∨ ∃ c, k = .text c .nil := by
  cases k with
  | nil => exact Or.inl rfl
  | elem hd kk r => simp [Items.childElems] at h1
  | text c r =>
    cases r with
    | nil => exact Or.inr ⟨c, rfl⟩
    | elem _ _ _ => simp [Items.length] at h2
    | text _ _ => simp [Items.length] at h2

/-! ### primitive edits -/

theorem refOne_insertAt (nh : Hdr) (nk : Items) (k : Items) (pos : Nat) (hn : RefOne S (.elem nh nk .nil))
    (hk : RefOne S k) : RefOne S (k.insertAt (fun r => .elem nh nk r) pos) := by
  obtain ⟨n1, n2, _⟩ := (refOne_elem S nh nk .nil).mp hn
  induction k generalizing pos with
  | nil => cases pos <;> exact hn
  | text c r ih =>
    cases pos with
    | zero => exact (refOne_elem S _ _ _).mpr ⟨n1, n2, hk⟩
    | succ q => exact (refOne_text S c _).mpr (ih q ((refOne_text S c r).mp hk))
  | elem h kk r _ ih =>
    cases pos with
    | zero => exact (refOne_elem S _ _ _).mpr ⟨n1, n2, hk⟩
    | succ q =>
      obtain ⟨a, b, c⟩ := (refOne_elem S h kk r).mp hk
      exact (refOne_elem S _ _ _).mpr ⟨a, b, ih q c⟩

theorem refOne_insertText (cd : CDv) (k : Items) (pos : Nat) (hk : RefOne S k) :
    RefOne S (k.insertAt (fun r => .text cd r) pos) := by
  induction k generalizing pos with
  | nil => cases pos <;> exact (refOne_text S cd _).mpr hk
  | text c r ih =>
    cases pos with
    | zero => exact (refOne_text S cd _).mpr hk
    | succ q => exact (refOne_text S c _).mpr (ih q ((refOne_text S c r).mp hk))
  | elem h kk r _ ih =>
    cases pos with
    | zero => exact (refOne_text S cd _).mpr hk
    | succ q =>
      obtain ⟨a, b, c⟩ := (refOne_elem S h kk r).mp hk
      exact (refOne_elem S _ _ _).mpr ⟨a, b, ih q c⟩

theorem refOne_removeAt (k : Items) (pos : Nat) (hk : RefOne S k) : RefOne S (k.removeAt pos) := by
  induction k generalizing pos with
  | nil => exact hk
  | text c r ih =>
    cases pos with
    | zero => exact (refOne_text S c r).mp hk
    | succ q => exact (refOne_text S c _).mpr (ih q ((refOne_text S c r).mp hk))
  | elem h kk r _ ih =>
    obtain ⟨a, b, c⟩ := (refOne_elem S h kk r).mp hk
    cases pos with
    | zero => exact c
    | succ q => exact (refOne_elem S _ _ _).mpr ⟨a, b, ih q c⟩

theorem length_removeAt_le (k : Items) (pos : Nat) : (k.removeAt pos).length ≤ k.length := by
  induction k generalizing pos with
  | nil => exact Nat.le_refl _
  | text c r ih =>
    cases pos with
    | zero => simp only [Items.removeAt, Items.length]; omega
    | succ q => simp only [Items.removeAt, Items.length]; have := ih q; omega
  | elem h kk r _ ih =>
    cases pos with
    | zero => simp only [Items.removeAt, Items.length]; omega
    | succ q => simp only [Items.removeAt, Items.length]; have := ih q; omega

/-! ### `RefOne` is a function of the skeleton -/

theorem length_skel (k : Items) : k.skel.length = k.length := by
  induction k with
  | nil => rfl
  | text c r ih => simp only [skel_text, Items.length, ih]
  | elem h kk r _ ih => simp only [skel_elem, Items.length, ih]

theorem refOne_skel (its : Items) : RefOne S its.skel ↔ RefOne S its := by
  induction its with
  | nil => exact Iff.rfl
  | text c r ih => rw [skel_text, refOne_text, refOne_text]; exact ih
  | elem h k r ihk ihr => rw [skel_elem, refOne_elem, refOne_elem, ihk, ihr, core_ety, length_skel]

theorem refOne_of_skel {its its' : Items} (h : its'.skel = its.skel) : RefOne S its' ↔ RefOne S its := by
  rw [← refOne_skel S its', h, refOne_skel]

theorem refOne_setRoot_skel (m : Model) (its : Items) (hsk : its.skel = m.rootItems.skel) (h : RefOne S m.rootItems) :
    RefOne S (m.setRoot its).rootItems := by
  obtain ⟨h1, _, _, _⟩ := setRoot_of_skel m its hsk
  rw [h1]
  exact (refOne_of_skel S hsk).mpr h

theorem refOne_root_congr (h h' : Hdr) (k k' : Items) (hty : h'.ety = h.ety) (hsk : k'.skel = k.skel)
    (hl : RefOne S (.elem h k .nil)) : RefOne S (.elem h' k' .nil) := by
  obtain ⟨a, b, c⟩ := (refOne_elem S h k .nil).mp hl
  refine (refOne_elem S h' k' .nil).mpr ⟨fun hx => ?_, (refOne_of_skel S hsk).mpr b, c⟩
  rw [hty] at hx
  rw [← length_skel, hsk, length_skel]
  exact a hx

/-! ### the operations that edit one located node -/

theorem wrone_located (w w' : World) (x k : Nat) (c : List (Hdr × Items)) (hloc : locate w x = some (k, c)) (m' : Model)
    (f : Hdr → Items → Hdr × Items) (hl : WROne S w) (hmodels : w'.models = w.models.set k m')
    (hroot : m'.rootItems = (w.models[k]!).rootItems.modify x f)
    (hf : ∀ h k, (S.isRef h.ety.typ = true → k.length ≤ 1) → RefOne S k →
      (S.isRef (f h k).1.ety.typ = true → (f h k).2.length ≤ 1) ∧ RefOne S (f h k).2) : WROne S w' := by
  obtain ⟨m, _, hm2, hmem, _⟩ := locate_chain w x k c hloc
  refine wrone_update S w w' k m' hl ?_ hmodels
  rw [hroot, hm2]
  exact refOne_modify S x f _ (fun h k0 _ _ a b => hf h k0 a b) (hl m hmem)

macro "one_located" hl:ident : tactic => `(tactic| (
  refine wrone_located _ _ _ _ _ _ (by assumption) _ _ $hl rfl (rootItems_setRoot_modify _ _ _) ?_
  intro h0 k0 a b
  first
    | exact ⟨fun _ => Nat.zero_le _, refOne_nil _⟩
    | exact ⟨fun _ => Nat.le_refl _, (refOne_text _ _ _).mpr (refOne_nil _)⟩
    | exact ⟨a, b⟩
    | exact ⟨fun hx => a (by rw [(setAttrHdr_keeps4 _ _ h0 _ _ _).2.2.1] at hx; exact hx), b⟩
    | (refine ⟨fun hx => a ?_, b⟩; revert hx; dsimp only; split <;> exact id)))

theorem opCData_one (w : World) (x : Nat) (v : CDv) (hl : WROne S w) : WROne S (opCData S V w x v).1 := by
  unfold opCData
  split
  · exact hl
  · split
    · exact hl
    · split
      · exact hl
      · split
        · exact hl
        · rename_i k c hloc
          dsimp only
          split
          · exact hl
          · split
            · exact hl
            · split
              · exact hl
              · split
                · exact hl
                · one_located hl

theorem opRmCData_one (w : World) (x : Nat) (hl : WROne S w) : WROne S (opRmCData S w x).1 := by
  unfold opRmCData
  repeat' (first | exact hl | split | dsimp only)
  all_goals one_located hl

theorem opAttr_one (w : World) (x a : Nat) (v : CDv) (hl : WROne S w) : WROne S (opAttr S V w x a v).1 := by
  unfold opAttr
  repeat' (first | exact hl | split | dsimp only)
  all_goals one_located hl

theorem opAttrS_one (w : World) (x a : Nat) (s : Bytes) (hl : WROne S w) : WROne S (opAttrS S V w x a s).1 := by
  unfold opAttrS
  repeat' (first | exact hl | split | dsimp only)
  all_goals one_located hl

theorem opRmAttr_one (w : World) (x a : Nat) (hl : WROne S w) : WROne S (opRmAttr S w x a).1 := by
  unfold opRmAttr
  repeat' (first | exact hl | split | dsimp only)
  all_goals first
    | exact wrone_congr S w _ hl rfl
    | one_located hl

theorem opComment_one (w : World) (x : Nat) (cm : Option Bytes) (hl : WROne S w) : WROne S (opComment w x cm).1 := by
  unfold opComment
  split
  · exact wrone_congr S w _ hl rfl
  · one_located hl

theorem opRmText_one (w : World) (x pos : Nat) (hl : WROne S w) : WROne S (opRmText S w x pos).1 := by
  unfold opRmText
  split
  · exact hl
  · rename_i k c hloc
    obtain ⟨m, _, hm2, hmem, _⟩ := locate_chain w x k c hloc
    dsimp only
    split
    · exact hl
    · split
      · refine wrone_update S w _ k _ hl ?_ rfl
        rw [hm2, rootItems_setRoot_modify m x _]
        refine refOne_modify S x _ _ ?_ (hl m hmem)
        intro h k0 _ _ a b
        exact ⟨fun hx => Nat.le_trans (length_removeAt_le k0 pos) (a hx), refOne_removeAt S k0 pos b⟩
      · exact hl

theorem opRemove_one (w : World) (p cid : Nat) (hl : WROne S w) : WROne S (opRemove S w p cid).1 := by
  unfold opRemove
  split
  · exact hl
  · rename_i k c hloc
    obtain ⟨m, _, hm2, hmem, _⟩ := locate_chain w p k c hloc
    dsimp only
    rw [hm2]
    split
    · rename_i pos ch ck _ _
      split
      · exact hl
      · refine wrone_update S w _ k _ hl ?_ rfl
        show RefOne S (m.setRoot (m.rootItems.modify p fun h0 k0 => (h0, k0.removeAt pos))).rootItems
        rw [rootItems_setRoot_modify m p _]
        refine refOne_modify S p _ _ ?_ (hl m hmem)
        intro h k0 _ _ a b
        exact ⟨fun hx => Nat.le_trans (length_removeAt_le k0 pos) (a hx), refOne_removeAt S k0 pos b⟩
    · exact hl

/-- `insert_character_content_item` works on MIXED elements only; a reference element is a CHARACTERS element -/
theorem opInsText_one (hR : RefWF S) (w : World) (x pos : Nat) (s : Bytes) (hw : WInv S vOk w) (hl : WROne S w) :
    WROne S (opInsText S w x pos s).1 := by
  unfold opInsText
  split
  · exact hl
  · rename_i k c hloc
    obtain ⟨m, _, hm2, hmem, hc⟩ := locate_chain w x k c hloc
    have hm := hw m hmem
    dsimp only
    split
    · exact hl
    · rename_i hmode
      split
      · exact hl
      · refine wrone_update S w _ k _ hl ?_ rfl
        rw [hm2, rootItems_setRoot_modify m x _]
        have hmixed : S.mode (lastOf c).1.ety.typ = .mixed := by
          cases hmd : S.mode (lastOf c).1.ety.typ <;> simp_all
        refine refOne_modify S x _ _ ?_ (hl m hmem)
        intro h k0 ho he _ b
        obtain ⟨e1, _⟩ := node_eq S vOk hm x c hc h k0 ho he
        have hnr : S.isRef h.ety.typ = false :=
          not_ref_of_mode S hR _ (by rw [e1, hmixed]; exact fun hx => by cases hx)
        refine ⟨fun hx => ?_, refOne_insertText S _ k0 pos b⟩
        rw [hnr] at hx; cases hx

theorem opCreate_one (hR : RefWF S) (w : World) (p name : Nat) (pos? : Option Nat)
    (hw : WInv S vOk w) (hl : WROne S w) : WROne S (opCreate S V w p name pos?).1 := by
  unfold opCreate
  split
  · exact hl
  · rename_i k c hloc
    obtain ⟨m, _, hm2, hmem, hc⟩ := locate_chain w p k c hloc
    have hm := hw m hmem
    dsimp only
    rw [hm2]
    split
    · exact hl
    · rename_i ver hver
      split
      · exact hl
      · rename_i lo hi hrange
        split
        · exact hl
        · split
          · exact hl
          · split
            · exact hl
            · refine wrone_update S w _ k _ hl ?_ rfl
              show RefOne S (m.setRoot _).rootItems
              rw [rootItems_setRoot_modify m p _]
              refine refOne_modify S p _ _ ?_ (hl m hmem)
              intro h k0 ho he _ b
              obtain ⟨e1, e2⟩ := node_eq S vOk hm p c hc h k0 ho he
              have hnr : S.isRef h.ety.typ = false :=
                not_ref_of_insertRange S hR h k0 name ver (lo, hi) (by rw [e1, e2]; exact hrange)
              refine ⟨fun hx => ?_, refOne_insertAt S _ .nil k0 _ ?_ b⟩
              · rw [hnr] at hx; cases hx
              · exact (refOne_elem S _ _ _).mpr ⟨fun _ => Nat.zero_le _, refOne_nil S, refOne_nil S⟩

theorem opNamed_one (hH : IdxHyp S V vOk) (hR : RefWF S) (w : World) (p name : Nat) (item : Bytes) (pos? : Option Nat)
    (hw : WInv S vOk w) (hl : WROne S w) : WROne S (opNamed S V w p name item pos?).1 := by
  unfold opNamed
  split
  · exact hl
  · rename_i k c hloc
    obtain ⟨m, _, hm2, hmem, hc⟩ := locate_chain w p k c hloc
    have hm := hw m hmem
    dsimp only
    rw [hm2]
    split
    · exact hl
    · rename_i ver hver
      split
      · exact hl
      · rename_i lo hi hrange
        split
        · exact hl
        · split
          · exact hl
          · split
            · exact hl
            · rename_i ety _ hfs
              split
              · exact hl
              · rename_i hnin
                have hin : S.isNamedIn ety.typ ver = true := by
                  cases hx : S.isNamedIn ety.typ ver with
                  | true => rfl
                  | false => exact absurd hx (by simpa using hnin)
                have hvok := minVersion_ok S V vOk hm hH.latest c ver hver
                obtain ⟨d, hsn, hd, hnamed, hseq, _, hunnamed, sp, hsp, _⟩ := named_facts S V vOk hH ety.typ ver hin hvok
                have hsnIn : S.isNamedIn (S.ety d).typ ver = false := by
                  have : S.isNamed (S.defType d) = false := hunnamed
                  unfold Spec.isNamed at this
                  unfold Spec.isNamedIn
                  show (match S.shortNameMask (S.defType d) with | some m => (m &&& ver) != 0 | none => false) = false
                  cases hmk : S.shortNameMask (S.defType d) with
                  | none => rfl
                  | some _ => rw [hmk] at this; simp at this
                have hspec : S.chardataSpec (S.ety d).typ = some sp := hsp
                simp only [hsn, hsnIn, hspec, Bool.false_eq_true, if_false]
                split
                · exact hl
                · split
                  · exact hl
                  · refine wrone_update S w _ k _ hl ?_ rfl
                    show RefOne S (m.setRoot _).rootItems
                    rw [rootItems_setRoot_modify m p _]
                    refine refOne_modify S p _ _ ?_ (hl m hmem)
                    intro h k0 ho he _ b
                    obtain ⟨e1, e2⟩ := node_eq S vOk hm p c hc h k0 ho he
                    have hnr : S.isRef h.ety.typ = false :=
                      not_ref_of_insertRange S hR h k0 name ver (lo, hi) (by rw [e1, e2]; exact hrange)
                    have hnew : S.isRef ety.typ = false :=
                      not_ref_of_mode S hR _ (by rw [hseq]; exact fun hx => by cases hx)
                    refine ⟨fun hx => ?_, refOne_insertAt S _ _ k0 _ ?_ b⟩
                    · rw [hnr] at hx; cases hx
                    · refine (refOne_elem S _ _ _).mpr ⟨fun hx => ?_, ?_, refOne_nil S⟩
                      · rw [show (newHdr w.nextId name ety p).ety.typ = ety.typ from rfl, hnew] at hx; cases hx
                      · exact (refOne_elem S _ _ _).mpr ⟨fun _ => Nat.le_refl _, refOne_nil S, refOne_nil S⟩

/-! ### file operations, creation of a model -/

theorem opAddFile_one (w : World) (x f : Nat) (hl : WROne S w) : WROne S (opAddFile S w x f).1 := by
  unfold opAddFile
  split
  · exact hl
  · rename_i k c hloc
    obtain ⟨m, _, hm2, hmem, _⟩ := locate_chain w x k c hloc
    dsimp only
    repeat' (first | exact hl | split)
    all_goals (
      refine wrone_update S w _ k _ hl ?_ rfl
      rw [hm2]
      exact refOne_setRoot_skel S m _ (addPath_skel S f (c.map (·.1.id)) [] true m.rootItems) (hl m hmem))

theorem opSetVersion_one (w : World) (f ver : Nat) (hl : WROne S w) : WROne S (opSetVersion S w f ver).1 := by
  unfold opSetVersion
  split
  · exact hl
  · rename_i k hk
    dsimp only
    split
    · exact hl
    · split
      · have hlt : k < w.models.length := by
          unfold fileModel at hk
          have := List.mem_of_find?_eq_some hk
          exact List.mem_range.mp this
        have hmem : w.models[k]! ∈ w.models := by
          rw [getElem!_pos w.models k hlt]; exact List.getElem_mem hlt
        refine wrone_update S w _ k _ hl ?_ rfl
        exact hl (w.models[k]!) hmem
      · exact hl

theorem newModel_one (w : World) (hl : WROne S w) : WROne S { w with models := w.models ++ [newModel S rootAttrs] } := by
  intro m hmem
  rcases List.mem_append.mp hmem with h | h
  · exact hl m h
  · rw [List.mem_singleton] at h
    subst h
    exact (refOne_elem S _ _ _).mpr ⟨fun _ => Nat.zero_le _, refOne_nil S, refOne_nil S⟩

theorem opMkFile_one (w : World) (k : Nat) (name : Bytes) (ver : Nat) (valid : Bool) (hl : WROne S w) :
    WROne S (opMkFile S w k name ver valid).1 := by
  unfold opMkFile
  split
  · exact hl
  · rename_i m hmk
    have hm : RefOne S (.elem m.rootHdr m.rootKids .nil) := hl m (List.mem_of_getElem? hmk)
    obtain ⟨hc, hs⟩ := restrictStep_skel S w.nextFile m.rootHdr m.rootKids [] true
    have hty : (restrictStep S w.nextFile m.rootHdr m.rootKids [] true).1.ety = m.rootHdr.ety := (core_inj hc).2.2
    split
    · exact hl
    · split
      · exact hl
      · cases hiss : m.rootIssued with
        | true =>
          simp only [if_true]
          refine wrone_update S w _ k _ hl ?_ rfl
          exact refOne_root_congr S _ _ _ _ hty hs hm
        | false =>
          simp only [Bool.false_eq_true, if_false]
          refine wrone_update S w _ k _ hl ?_ rfl
          exact refOne_root_congr S m.rootHdr _ m.rootKids _ hty ((skel_setParents _ _).trans hs) hm

theorem removeAll_one (ids : List Nat) : ∀ (w : World), WROne S w → WROne S (removeAll S w ids) := by
  induction ids with
  | nil => intro w hl; exact hl
  | cons id rest ih =>
    intro w hl
    simp only [removeAll]
    apply ih
    split
    · split
      · exact opRemove_one S w _ _ hl
      · exact hl
    · exact hl

theorem opRmFromFile_one (w : World) (x f : Nat) (hl : WROne S w) : WROne S (opRmFromFile S w x f).1 := by
  unfold opRmFromFile
  split
  · exact hl
  · dsimp only
    split
    · exact hl
    · split
      · exact hl
      · split
        · exact hl
        · split
          · exact hl
          · rename_i cur _
            have hl1 : WROne S (if (cur.filter (· != f)).isEmpty then
                (match (‹List (Hdr × Items)›).dropLast.getLast? with
                  | some (ph, _) => (opRemove S w ph.id x).1
                  | none => w) else w) := by
              split
              · split
                · exact opRemove_one S w _ _ hl
                · exact hl
              · exact hl
            split
            · exact hl1
            · rename_i k1 c1 hloc1
              obtain ⟨m1, _, hm2, hmem1, _⟩ := locate_chain _ x k1 c1 hloc1
              apply removeAll_one
              refine wrone_update S _ _ k1 _ hl1 ?_ rfl
              rw [hm2]
              exact refOne_setRoot_skel S m1 _ (rmAt_skel f x [] m1.rootItems) (hl1 m1 hmem1)

theorem opRmFile_one (w : World) (k f : Nat) (hl : WROne S w) : WROne S (opRmFile S w k f).1 := by
  unfold opRmFile
  split
  · exact hl
  · rename_i m hk
    split
    · exact hl
    · dsimp only
      split
      · exact hl
      · apply opRmFromFile_one
        refine wrone_update S w _ k _ hl ?_ rfl
        exact hl m (List.mem_of_getElem? hk)

/-! ### the step theorem -/

theorem wrone_empty : WROne S emptyWorld := by
  intro m hm; simp [emptyWorld] at hm

/-- every guarded core operation keeps `WROne` (given the index invariant before the step) -/
theorem applyOp_wrone (hH : IdxHyp S V vOk) (hR : RefWF S) (w : World) (op : Op) (hw : WInv S vOk w) (hl : WROne S w) :
    WROne S (applyOp S V rootAttrs w op).1 := by
  cases op with
  | newModel => exact newModel_one S rootAttrs w hl
  | mkFile k name ver valid => exact opMkFile_one S w k name ver valid hl
  | create p name pos => exact opCreate_one S V vOk hR w p name pos hw hl
  | named p name item pos => exact opNamed_one S V vOk hH hR w p name item pos hw hl
  | remove p c => exact opRemove_one S w p c hl
  | cdata x v => exact opCData_one S V w x v hl
  | rmcdata x => exact opRmCData_one S w x hl
  | attr x a v => exact opAttr_one S V w x a v hl
  | attrs x a s => exact opAttrS_one S V w x a s hl
  | rmattr x a => exact opRmAttr_one S w x a hl
  | comment x cm => exact opComment_one S w x cm hl
  | instext x pos s => exact opInsText_one S vOk hR w x pos s hw hl
  | rmtext x pos => exact opRmText_one S w x pos hl
  | addfile x f => exact opAddFile_one S w x f hl
  | rmfromfile x f => exact opRmFromFile_one S w x f hl
  | rmfile k f => exact opRmFile_one S w k f hl
  | setver f ver => exact opSetVersion_one S w f ver hl

/-- **every reachable state** of a guarded history: the combined invariant and `WROne` -/
theorem run_cinv_one (hH : IdxHyp S V vOk) (hR : RefWF S) (ops : List Op) (hops : ∀ op ∈ ops, OpOk S vOk op) :
    CInv S vOk (run S V rootAttrs ops) ∧ WROne S (run S V rootAttrs ops) := by
  unfold run
  suffices h : ∀ (w : World), CInv S vOk w ∧ WROne S w →
      CInv S vOk (ops.foldl (fun w op => (applyOp S V rootAttrs w op).1) w) ∧
      WROne S (ops.foldl (fun w op => (applyOp S V rootAttrs w op).1) w) from
    h _ ⟨cinv_empty S vOk, wrone_empty S⟩
  induction ops with
  | nil => intro w hw; exact hw
  | cons op rest ih =>
    intro w hw
    simp only [List.foldl_cons]
    exact ih (fun o ho => hops o (List.mem_cons_of_mem _ ho)) _
      ⟨applyOp_cinv S V vOk rootAttrs hH hR w op (hops op List.mem_cons_self) hw.1,
        applyOp_wrone S V vOk rootAttrs hH hR w op hw.1.1 hw.2⟩

end
end AV.W

