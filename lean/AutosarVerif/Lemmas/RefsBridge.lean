/-
C05: `refEntries` (the structural "what the reverse reference map must hold") says what the property says: one pair
(text, element) per reference element of the tree that holds a text, each once.
-/
import AutosarVerif.Lemmas.RefsReach

namespace AV.W
open Items

section
variable (S : Spec)

theorem refOf_cases (h : Hdr) (k : Items) : refOf S h k = [] ∨ ∃ p, refOf S h k = [(p, h.id)] := by
  unfold refOf
  split
  · split
    · exact Or.inr ⟨_, rfl⟩
    · exact Or.inl rfl
  · exact Or.inl rfl

/-- the ids of the registrations are ids of the forest, in document order, each element at most once -/
theorem refEntries_ids_sublist (its : Items) : ((refEntries S its).map (·.2)).Sublist its.ids := by
  induction its with
  | nil => exact List.Sublist.refl _
  | text _ r ih => exact ih
  | elem h k r ihk ihr =>
    simp only [refEntries, Items.ids, List.map_append]
    rcases refOf_cases S h k with h0 | ⟨p, hp⟩
    · rw [h0]
      exact List.Sublist.cons _ (List.Sublist.append ihk ihr)
    · rw [hp]
      exact List.Sublist.cons₂ _ (List.Sublist.append ihk ihr)

theorem refEntries_nodup (its : Items) (hn : its.ids.Nodup) : (refEntries S its).Nodup := by
  have h1 : ((refEntries S its).map (·.2)).Nodup := List.Nodup.sublist (refEntries_ids_sublist S its) hn
  exact List.Pairwise.of_map (·.2) (fun a b hab e => hab (congrArg Prod.snd e)) h1

/-- a pair is a registration iff some node of the forest contributes it -/
theorem refEntries_mem_iff (its : Items) (p : Bytes) (id : Nat) :
    (p, id) ∈ refEntries S its ↔ ∃ h k, Occ h k its ∧ (p, id) ∈ refOf S h k := by
  induction its with
  | nil => simp [refEntries, Occ]
  | text _ r ih => simp only [refEntries, Occ]; exact ih
  | elem hd kk r ihk ihr =>
    simp only [refEntries, List.mem_append, Occ]
    constructor
    · rintro ((h | h) | h)
      · exact ⟨hd, kk, Or.inl ⟨rfl, rfl⟩, h⟩
      · obtain ⟨h0, k0, ho, hm⟩ := ihk.mp h; exact ⟨h0, k0, Or.inr (Or.inl ho), hm⟩
      · obtain ⟨h0, k0, ho, hm⟩ := ihr.mp h; exact ⟨h0, k0, Or.inr (Or.inr ho), hm⟩
    · rintro ⟨h0, k0, (⟨rfl, rfl⟩ | ho | ho), hm⟩
      · exact Or.inl (Or.inl hm)
      · exact Or.inl (Or.inr (ihk.mpr ⟨h0, k0, ho, hm⟩))
      · exact Or.inr (ihr.mpr ⟨h0, k0, ho, hm⟩)

/-- what a node contributes: it is a reference element and holds the text `p` -/
theorem mem_refOf_iff (h : Hdr) (k : Items) (p : Bytes) (id : Nat) :
    (p, id) ∈ refOf S h k ↔ h.id = id ∧ S.isRef h.ety.typ = true ∧ charData S h k = some (.str p) := by
  unfold refOf
  split
  · rename_i hr
    split
    · rename_i q hq
      simp only [List.mem_singleton, Prod.mk.injEq]
      constructor
      · rintro ⟨rfl, rfl⟩; exact ⟨rfl, hr, hq⟩
      · rintro ⟨rfl, _, h2⟩
        rw [hq] at h2
        injection h2 with h3; injection h3 with h4
        exact ⟨h4.symm, rfl⟩
    · rename_i hne
      simp only [List.not_mem_nil, false_iff, not_and]
      intro _ _ hc
      exact hne p hc
  · rename_i hr
    simp only [List.not_mem_nil, false_iff, not_and]
    intro _ h2; exact absurd h2 hr

/-- **exactness in the words of the property**: with unique ids, `id` occurs in the referrer list of `p` exactly once if it
is a reference element of the tree whose text is `p`, and not at all otherwise -/
theorem refsExact_count (rs : List (Bytes × List Nat)) (its : Items) (hn : its.ids.Nodup) (he : RefsExact S rs its)
    (p : Bytes) (id : Nat) [Decidable (∃ h k, Occ h k its ∧ h.id = id ∧ S.isRef h.ety.typ = true ∧ charData S h k = some (.str p))] :
    (refsGet rs p).count id =
      if ∃ h k, Occ h k its ∧ h.id = id ∧ S.isRef h.ety.typ = true ∧ charData S h k = some (.str p) then 1 else 0 := by
  rw [he.2.2 p id, (refEntries_nodup S its hn).count]
  have : (p, id) ∈ refEntries S its ↔ ∃ h k, Occ h k its ∧ h.id = id ∧ S.isRef h.ety.typ = true ∧ charData S h k = some (.str p) := by
    rw [refEntries_mem_iff]
    constructor
    · rintro ⟨h, k, ho, hm⟩; exact ⟨h, k, ho, (mem_refOf_iff S h k p id).mp hm⟩
    · rintro ⟨h, k, ho, hm⟩; exact ⟨h, k, ho, (mem_refOf_iff S h k p id).mpr hm⟩
  by_cases hx : (p, id) ∈ refEntries S its
  · rw [if_pos hx, if_pos (this.mp hx)]
  · rw [if_neg hx, if_neg (fun h => hx (this.mpr h))]

end
end AV.W
