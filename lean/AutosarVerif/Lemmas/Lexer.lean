/-
C02, lexer level: every call of `next` makes progress (so tokenising any byte string terminates
within a number of calls linear in its length), the supplied fuel is never exhausted, and every
line number reported — with an event or with an error — lies between 1 and 1 + the number of
newlines of the input.
-/
import AutosarVerif.Model.Lexer

namespace AV.Lex

theorem splitAt1_len (p : UInt8 → Bool) (s a b : Bytes) (h : splitAt1 p s = some (a, b)) :
    a.length + b.length + 1 = s.length := by
  induction s generalizing a b with
  | nil => simp [splitAt1] at h
  | cons c r ih =>
    simp only [splitAt1] at h
    split at h
    · simp at h; obtain ⟨rfl, rfl⟩ := h; simp
    · simp only [Option.map_eq_some_iff] at h
      obtain ⟨⟨a', b'⟩, h1, h2⟩ := h
      simp at h2; obtain ⟨rfl, rfl⟩ := h2
      have := ih a' b' h1
      simp; omega

theorem splitAt1_nl (p : UInt8 → Bool) (s a b : Bytes) (h : splitAt1 p s = some (a, b)) :
    countNl a + countNl b ≤ countNl s := by
  induction s generalizing a b with
  | nil => simp [splitAt1] at h
  | cons c r ih =>
    simp only [splitAt1] at h
    split at h
    · simp at h; obtain ⟨rfl, rfl⟩ := h
      simp only [countNl, List.countP_nil, List.countP_cons]; omega
    · simp only [Option.map_eq_some_iff] at h
      obtain ⟨⟨a', b'⟩, h1, h2⟩ := h
      simp at h2; obtain ⟨rfl, rfl⟩ := h2
      have := ih a' b' h1
      simp only [countNl, List.countP_cons] at this ⊢; omega

theorem countNl_take_drop (s : Bytes) (n : Nat) : countNl (s.take n) + countNl (s.drop n) = countNl s := by
  simp only [countNl]
  rw [← List.countP_append, List.take_append_drop]

theorem countNl_drop_le (s : Bytes) (n : Nat) : countNl (s.drop n) ≤ countNl s := by
  have := countNl_take_drop s n; omega

theorem countNl_take_le (s : Bytes) (n : Nat) : countNl (s.take n) ≤ countNl s := by
  have := countNl_take_drop s n; omega

theorem countNl_dropLast_le (s : Bytes) : countNl s.dropLast ≤ countNl s := by
  rw [List.dropLast_eq_take]; exact countNl_take_le _ _

theorem countNl_tw_dw (s : Bytes) (p : UInt8 → Bool) : countNl (s.takeWhile p) + countNl (s.dropWhile p) = countNl s := by
  simp only [countNl]
  rw [← List.countP_append, List.takeWhile_append_dropWhile]

theorem findCommentEnd_bound (cur : Bytes) (i frm ce : Nat) (h : findCommentEnd cur i frm = some ce) :
    i + 2 ≤ ce ∧ ce < i + cur.length := by
  fun_induction findCommentEnd cur i frm with
  | case1 r i frm hge => simp only [Option.some.injEq] at h; simp only [List.length_cons]; omega
  | case2 r i frm hlt ih => have := ih h; simp only [List.length_cons] at this ⊢; omega
  | case3 c r i frm hne ih => have := ih h; simp only [List.length_cons] at this ⊢; omega
  | case4 i frm => simp at h

/-- measure that decreases with every event other than end-of-file and errors -/
def measure (s : LState) : Nat := 2 * s.rest.length + (if s.deferred.isSome then 1 else 0)

theorem measure_le (s : LState) : measure s ≤ 2 * s.rest.length + 1 := by
  unfold measure; split <;> omega

/-- what one loop iteration guarantees, relative to a bound `L` with `line + newlines(rest) ≤ L` -/
def Good (s : LState) (L : Nat) : Step → Prop
  | .ev l e s' => s.line ≤ l ∧ l ≤ L ∧ s'.line + countNl s'.rest ≤ L ∧ s.line ≤ s'.line ∧
      (e = .eof ∨ measure s' < 2 * s.rest.length)
  | .err l _ _ => l = s.line
  | .again s' => s'.rest.length < s.rest.length ∧ s'.line + countNl s'.rest ≤ L ∧ s.line ≤ s'.line ∧ s'.deferred = s.deferred

theorem good_end (s : LState) (L : Nat) (hL : s.line + countNl s.rest ≤ L) (nm tail : Bytes)
    (h1 : tail.length + 2 ≤ s.rest.length) (h2 : countNl tail ≤ countNl s.rest) : Good s L (stepEnd s nm tail) := by
  have := measure_le { s with rest := tail }
  simp only [stepEnd, Good]
  dsimp only at this ⊢
  refine ⟨Nat.le_refl _, by omega, by omega, Nat.le_refl _, Or.inr (by omega)⟩

theorem good_pi (s : LState) (L : Nat) (hL : s.line + countNl s.rest ≤ L) (inner tail : Bytes)
    (h1 : tail.length + 2 ≤ s.rest.length) (h2 : countNl inner + countNl tail ≤ countNl s.rest) : Good s L (stepPI s inner tail) := by
  have htext : countNl ((inner.drop 1).dropLast) ≤ countNl inner :=
    Nat.le_trans (countNl_dropLast_le _) (countNl_drop_le _ _)
  have := measure_le { s with rest := tail, line := s.line + countNl ((inner.drop 1).dropLast) }
  unfold stepPI
  split
  · simp [Good]
  · split
    · simp [Good]
    · simp only [Good]
      dsimp only at this ⊢
      refine ⟨by omega, by omega, by omega, by omega, Or.inr (by omega)⟩
    · simp only [Good]
      refine ⟨by omega, by omega, by omega, by first | rfl | trivial⟩

theorem good_comment (s : LState) (L : Nat) (hL : s.line + countNl s.rest ≤ L) (n : Nat) : Good s L (stepComment s n) := by
  unfold stepComment
  split
  · simp [Good]
  · rename_i ce hce
    have hb := findCommentEnd_bound _ _ _ _ hce
    have h1 := countNl_take_drop s.rest ce
    have h2 := countNl_drop_le (s.rest.drop ce) 1
    simp only [List.drop_drop] at h2
    have := measure_le { s with rest := s.rest.drop (ce + 1), line := s.line + countNl (s.rest.take ce) }
    split
    · simp [Good]
    · simp only [Good]
      have hdl : (s.rest.drop (ce + 1)).length = s.rest.length - (ce + 1) := List.length_drop
      dsimp only at this ⊢
      simp only [Nat.zero_add] at hb
      refine ⟨by omega, by omega, by omega, by omega, Or.inr (by omega)⟩

theorem good_begin (s : LState) (L : Nat) (hL : s.line + countNl s.rest ≤ L) (inner tail : Bytes)
    (h1 : tail.length + 3 ≤ s.rest.length) (h2 : countNl inner + countNl tail ≤ countNl s.rest) : Good s L (stepBegin s inner tail) := by
  have htext : countNl (if (inner.getLast? == some 47) = true then inner.dropLast else inner) ≤ countNl inner := by
    split
    · exact countNl_dropLast_le _
    · exact Nat.le_refl _
  simp only [stepBegin, Good]
  refine ⟨by omega, by omega, by omega, by omega, Or.inr (Nat.lt_of_le_of_lt (measure_le _) (by dsimp only; omega))⟩

theorem good_chars (s : LState) (L : Nat) (hL : s.line + countNl s.rest ≤ L) (c : UInt8) (r : Bytes)
    (hr : s.rest = c :: r) (hc : c ≠ 60) : Good s L (stepChars s) := by
  have h1 := countNl_tw_dw s.rest (· ≠ 60)
  have hlen : (s.rest.dropWhile (· ≠ 60)).length < s.rest.length := by
    rw [hr]
    have e : (c :: r).dropWhile (· ≠ 60) = r.dropWhile (· ≠ 60) :=
      List.dropWhile_cons_of_pos (by simpa using hc)
    rw [e]
    have := (List.dropWhile_sublist (· ≠ 60) (l := r)).length_le
    simp only [List.length_cons]
    omega
  have := measure_le { s with rest := s.rest.dropWhile (· ≠ 60), line := s.line + countNl (s.rest.takeWhile (· ≠ 60)) }
  unfold stepChars
  split
  · simp only [Good]
    exact ⟨hlen, by omega, by omega, by first | rfl | trivial⟩
  · simp only [Good]
    dsimp only at this ⊢
    refine ⟨by omega, by omega, by omega, by omega, Or.inr (by omega)⟩

/-- every loop iteration is `Good` -/
theorem step1_good (s : LState) (L : Nat) (hL : s.line + countNl s.rest ≤ L) : Good s L (step1 s) := by
  unfold step1
  split
  · simp [Good]; omega
  · rename_i c after hrest
    split
    · rename_i hc
      have hafter : countNl s.rest = countNl after := by rw [hrest, hc]; simp [countNl]
      have hrl : s.rest.length = after.length + 1 := by rw [hrest]; simp
      split
      · simp [Good]
      · rename_i inner tail hsplit
        have hlen := splitAt1_len _ _ _ _ hsplit
        have hnl := splitAt1_nl _ _ _ _ hsplit
        split
        · simp [Good]
        · rename_i d nm
          have hnm : countNl nm ≤ countNl (d :: nm) := by simp [countNl, List.countP_cons]
          simp at hlen
          split
          · exact good_end s L hL nm tail (by omega) (by omega)
          · split
            · exact good_pi s L hL (d :: nm) tail (by omega) (by omega)
            · split
              · exact good_comment s L hL _
              · exact good_begin s L hL (d :: nm) tail (by omega) (by omega)
    · rename_i hc
      exact good_chars s L hL c after hrest hc

theorem step1_err (s : LState) (l : Nat) (e : LexErr) (s' : LState) (h : step1 s = .err l e s') : l = s.line := by
  have := step1_good s (s.line + countNl s.rest) (Nat.le_refl _)
  rw [h] at this; exact this

theorem step1_ev (s : LState) (L : Nat) (hL : s.line + countNl s.rest ≤ L) (l : Nat) (e : Event) (s' : LState)
    (h : step1 s = .ev l e s') :
    s.line ≤ l ∧ l ≤ L ∧ s'.line + countNl s'.rest ≤ L ∧ s.line ≤ s'.line ∧ (e = .eof ∨ measure s' < 2 * s.rest.length) := by
  have := step1_good s L hL
  rw [h] at this; exact this

theorem step1_again (s : LState) (L : Nat) (hL : s.line + countNl s.rest ≤ L) (s' : LState) (h : step1 s = .again s') :
    s'.rest.length < s.rest.length ∧ s'.line + countNl s'.rest ≤ L ∧ s.line ≤ s'.line ∧ s'.deferred = s.deferred := by
  have := step1_good s L hL
  rw [h] at this; exact this

/-- **the fuel of `next` is never exhausted** -/
theorem next_isSome (fuel : Nat) (s : LState) (h : s.rest.length < fuel) : (next fuel s).isSome = true := by
  induction fuel generalizing s with
  | zero => omega
  | succ fuel ih =>
    obtain ⟨rest, line, deferred⟩ := s
    cases deferred with
    | some nm => simp [next]
    | none =>
      simp only [next]
      cases hs : step1 ⟨rest, line, none⟩ with
      | ev l e s' => simp
      | err l e s' => simp
      | again s' =>
        have hp := step1_again ⟨rest, line, none⟩ (line + countNl rest) (Nat.le_refl _) s' hs
        exact ih s' (by simp at h hp; omega)

/-- **line numbers**: every line reported by `next` (with an event or an error) is at least the
current line and at most the bound `L`, and the bound keeps holding for the next call -/
theorem next_lines (fuel : Nat) (s : LState) (L : Nat) (hL : s.line + countNl s.rest ≤ L) :
    match next fuel s with
    | some (.ok (l, _), s') => s.line ≤ l ∧ l ≤ L ∧ s'.line + countNl s'.rest ≤ L ∧ s.line ≤ s'.line
    | some (.error (l, _), _) => s.line ≤ l ∧ l ≤ L
    | none => True := by
  induction fuel generalizing s with
  | zero =>
    obtain ⟨rest, line, deferred⟩ := s
    cases deferred with
    | some nm => simp [next]; simp at hL; omega
    | none => simp [next]
  | succ fuel ih =>
    obtain ⟨rest, line, deferred⟩ := s
    cases deferred with
    | some nm => simp [next]; simp at hL; omega
    | none =>
      simp only [next]
      cases hs : step1 ⟨rest, line, none⟩ with
      | ev l e s' =>
        have hp := step1_ev ⟨rest, line, none⟩ L hL l e s' hs
        simp at hp ⊢
        exact ⟨hp.1, hp.2.1, hp.2.2.1, hp.2.2.2.1⟩
      | err l e s' =>
        have hp := step1_err ⟨rest, line, none⟩ l e s' hs
        simp at hp hL ⊢
        omega
      | again s' =>
        have hp := step1_again ⟨rest, line, none⟩ L hL s' hs
        simp at hp
        have hi := ih s' hp.2.1
        cases hn : next fuel s' with
        | none => simp only [hn]
        | some r =>
          obtain ⟨res, s''⟩ := r
          rw [hn] at hi
          cases res with
          | ok le => obtain ⟨l, e⟩ := le; simp only [hn]; dsimp only at hi ⊢; omega
          | error le => obtain ⟨l, e⟩ := le; simp only [hn]; dsimp only at hi ⊢; omega

theorem init_bound (buf : Bytes) : (init buf).line = 1 ∧ (init buf).line + countNl (init buf).rest ≤ 1 + countNl buf := by
  unfold init
  split
  · simp [countNl, List.countP_cons]
  · simp

end AV.Lex

namespace AV.Lex

/-- every call of `next` that returns an event other than end-of-file strictly decreases the measure -/
theorem next_measure (fuel : Nat) (s : LState) (l : Nat) (e : Event) (s' : LState)
    (h : next fuel s = some (.ok (l, e), s')) : e = .eof ∨ measure s' < measure s := by
  induction fuel generalizing s with
  | zero =>
    obtain ⟨rest, line, deferred⟩ := s
    cases deferred with
    | some nm => simp [next] at h; obtain ⟨_, _, rfl⟩ := h; right; simp [measure]
    | none => simp [next] at h
  | succ fuel ih =>
    obtain ⟨rest, line, deferred⟩ := s
    cases deferred with
    | some nm => simp [next] at h; obtain ⟨_, _, rfl⟩ := h; right; simp [measure]
    | none =>
      simp only [next] at h
      cases hs : step1 ⟨rest, line, none⟩ with
      | ev l0 e0 s0 =>
        rw [hs] at h; simp at h
        obtain ⟨⟨rfl, rfl⟩, rfl⟩ := h
        have hp := step1_ev ⟨rest, line, none⟩ (line + countNl rest) (Nat.le_refl _) l0 e0 s0 hs
        rcases hp.2.2.2.2 with h1 | h1
        · exact Or.inl h1
        · right; simp [measure] at h1 ⊢; omega
      | err l0 e0 s0 => rw [hs] at h; simp at h
      | again s0 =>
        rw [hs] at h
        have hp := step1_again ⟨rest, line, none⟩ (line + countNl rest) (Nat.le_refl _) s0 hs
        rcases ih s0 h with h1 | h1
        · exact Or.inl h1
        · right
          have := measure_le s0
          simp [measure] at h1 hp this ⊢
          omega

/-- **termination of tokenisation**: for any byte string the token loop reaches end-of-file or an
error within the supplied number of calls (the third component of `lex` is `true`) -/
theorem lexAll_finishes (fuel : Nat) (s : LState) (acc : List (Nat × Event)) (h : measure s < fuel) :
    (lexAll fuel s acc).2.2 = true := by
  induction fuel generalizing s acc with
  | zero => omega
  | succ fuel ih =>
    simp only [lexAll]
    have hsome := next_isSome (s.rest.length + 1) s (by omega)
    cases hn : next (s.rest.length + 1) s with
    | none => simp [hn] at hsome
    | some r =>
      obtain ⟨res, s'⟩ := r
      cases res with
      | error le => simp
      | ok le =>
        obtain ⟨l, e⟩ := le
        cases e with
        | eof => simp
        | header sa =>
          rcases next_measure _ s l _ s' hn with h1 | h1
          · cases h1
          · exact ih s' _ (by omega)
        | beginElement a b =>
          rcases next_measure _ s l _ s' hn with h1 | h1
          · cases h1
          · exact ih s' _ (by omega)
        | endElement a =>
          rcases next_measure _ s l _ s' hn with h1 | h1
          · cases h1
          · exact ih s' _ (by omega)
        | characters a =>
          rcases next_measure _ s l _ s' hn with h1 | h1
          · cases h1
          · exact ih s' _ (by omega)
        | comment a =>
          rcases next_measure _ s l _ s' hn with h1 | h1
          · cases h1
          · exact ih s' _ (by omega)

theorem lex_finishes (buf : Bytes) : (lex buf).2.2 = true := by
  unfold lex
  apply lexAll_finishes
  have : (init buf).rest.length ≤ buf.length := by
    unfold init; split <;> simp <;> omega
  have := measure_le (init buf)
  omega

/-- **line numbers of the whole token stream**: all event lines and the error line are within `[lo, L]` -/
theorem lexAll_lines (fuel : Nat) (s : LState) (acc : List (Nat × Event)) (lo L : Nat)
    (hlo : lo ≤ s.line) (hL : s.line + countNl s.rest ≤ L) (hacc : ∀ p ∈ acc, lo ≤ p.1 ∧ p.1 ≤ L) :
    (∀ p ∈ (lexAll fuel s acc).1, lo ≤ p.1 ∧ p.1 ≤ L) ∧
    (∀ le, (lexAll fuel s acc).2.1 = some le → lo ≤ le.1 ∧ le.1 ≤ L) := by
  induction fuel generalizing s acc with
  | zero => simp [lexAll]; exact fun a b h => hacc (a, b) h
  | succ fuel ih =>
    simp only [lexAll]
    have hl := next_lines (s.rest.length + 1) s L hL
    cases hn : next (s.rest.length + 1) s with
    | none => simp; exact fun a b h => hacc (a, b) h
    | some r =>
      obtain ⟨res, s'⟩ := r
      rw [hn] at hl
      cases res with
      | error le =>
        obtain ⟨l, e⟩ := le
        dsimp only at hl
        simp
        exact ⟨fun a b h => hacc (a, b) h, by omega, hl.2⟩
      | ok le =>
        obtain ⟨l, e⟩ := le
        dsimp only at hl
        have hacc' : ∀ p ∈ (l, e) :: acc, lo ≤ p.1 ∧ p.1 ≤ L := by
          intro p hp
          rcases List.mem_cons.mp hp with rfl | hp
          · exact ⟨by dsimp only; omega, hl.2.1⟩
          · exact hacc p hp
        cases e with
        | eof =>
          simp
          intro a b hab
          rcases hab with hab | ⟨rfl, rfl⟩
          · exact hacc (a, b) hab
          · exact ⟨by omega, hl.2.1⟩
        | header sa => exact ih s' _ (by omega) hl.2.2.1 hacc'
        | beginElement a b => exact ih s' _ (by omega) hl.2.2.1 hacc'
        | endElement a => exact ih s' _ (by omega) hl.2.2.1 hacc'
        | characters a => exact ih s' _ (by omega) hl.2.2.1 hacc'
        | comment a => exact ih s' _ (by omega) hl.2.2.1 hacc'

/-- every line the lexer reports for a buffer is between 1 and 1 + the number of newlines of the buffer -/
theorem lex_lines (buf : Bytes) :
    (∀ p ∈ (lex buf).1, 1 ≤ p.1 ∧ p.1 ≤ 1 + countNl buf) ∧
    (∀ le, (lex buf).2.1 = some le → 1 ≤ le.1 ∧ le.1 ≤ 1 + countNl buf) := by
  unfold lex
  have hb := init_bound buf
  exact lexAll_lines _ (init buf) [] 1 (1 + countNl buf) (by omega) hb.2 (by simp)

end AV.Lex

namespace AV.Lex

theorem xmlHeader_ok (t : Bytes) (ev : Event) (h : xmlHeader t = some (.ok ev)) : ∃ sa, ev = .header sa := by
  unfold xmlHeader at h
  split at h
  · split at h
    · dsimp only at h
      split at h
      · cases h
      · rename_i sa _
        simp only [Option.some.injEq, Except.ok.injEq] at h
        exact ⟨_, h.symm⟩
    · cases h
  · cases h

/-- the end-of-file event is only produced at the end of the buffer -/
theorem step1_eof (s : LState) (l : Nat) (s' : LState) (h : step1 s = .ev l .eof s') : s' = s ∧ s.rest = [] := by
  unfold step1 at h
  split at h
  · cases h; exact ⟨rfl, by assumption⟩
  · split at h
    · split at h
      · cases h
      · split at h
        · cases h
        · split at h
          · simp [stepEnd] at h
          · split at h
            · unfold stepPI at h
              split at h
              · cases h
              · split at h
                · cases h
                · rename_i ev hx
                  simp only [Step.ev.injEq] at h
                  obtain ⟨sa, hsa⟩ := xmlHeader_ok _ _ hx
                  rw [hsa] at h
                  cases h.2.1
                · cases h
            · split at h
              · unfold stepComment at h
                split at h
                · cases h
                · split at h
                  · cases h
                  · simp at h
              · simp [stepBegin] at h
    · unfold stepChars at h
      split at h
      · cases h
      · simp at h

theorem next_eof_measure (fuel : Nat) (s : LState) (l : Nat) (s' : LState)
    (h : next fuel s = some (.ok (l, .eof), s')) : measure s' = 0 := by
  induction fuel generalizing s with
  | zero =>
    obtain ⟨rest, line, deferred⟩ := s
    cases deferred with
    | some nm => simp [next] at h
    | none => simp [next] at h
  | succ fuel ih =>
    obtain ⟨rest, line, deferred⟩ := s
    cases deferred with
    | some nm => simp [next] at h
    | none =>
      simp only [next] at h
      cases hs : step1 ⟨rest, line, none⟩ with
      | ev l0 e0 s0 =>
        rw [hs] at h; simp at h
        obtain ⟨⟨rfl, rfl⟩, rfl⟩ := h
        have := step1_eof _ _ _ hs
        rw [this.1]
        simp only [measure]
        have hr : rest = [] := this.2
        simp [hr]
      | err l0 e0 s0 => rw [hs] at h; simp at h
      | again s0 => rw [hs] at h; exact ih s0 h

/-- a token never moves the tokenizer backwards -/
theorem next_measure_le (fuel : Nat) (s : LState) (l : Nat) (e : Event) (s' : LState)
    (h : next fuel s = some (.ok (l, e), s')) : measure s' ≤ measure s := by
  rcases next_measure fuel s l e s' h with he | hlt
  · subst he
    rw [next_eof_measure fuel s l s' h]
    exact Nat.zero_le _
  · omega

end AV.Lex
