/-
`move_element_here`, non-vacuity: a concrete move, checked by `decide`, in which a reference follows the moved element.

`mvSpec` = `refSpec` (`Lemmas/RefsWitness.lean`) where Q (type 3) accepts, besides X-REF, also packages P (sub-entry 6, all
versions).  History: a file of version 2; the package P "a" (e1, SHORT-NAME e2) with a Q (e3) that holds the X-REF e4; a second
package P "c" (e5, SHORT-NAME e6) next to it, with a Q (e7) holding the X-REF e8; e4 := "/c" (designates e5), e8 := "/c/zz"
(dangling, below the package).  Then `move_element_here`: the package e5 is moved into the Q e3.
-/
import AutosarVerif.Lemmas.MoveOpC06
import AutosarVerif.Lemmas.RefsWitness

namespace AV.W
open AV

def mvSpec : Spec :=
  { refSpec with
    nSubs := 7
    subEnd := fun t => if t = 3 then 7 else refSpec.subEnd t
    subEntry := fun i => if i = 6 then .elem 1 else refSpec.subEntry i }

def mvOps : List Op :=
  [.newModel, .mkFile 0 [102] 2 true, .named 0 101 [97] none, .create 1 103 none, .create 3 105 none,
   .named 0 101 [99] none, .create 5 103 none, .create 7 105 none,
   .cdata 4 (.str [47, 99]), .cdata 8 (.str [47, 99, 47, 122, 122])]

/-- the world before the move -/
def mvWorld : World := run mvSpec nameEnv [] mvOps

/-- every operation of the history is answered with success -/
example : (mvOps.foldl (fun (ws : World × List String) op =>
      let r := applyOp mvSpec nameEnv [] ws.1 op; (r.1, ws.2 ++ [r.2])) (emptyWorld, [])).2 =
    ["ok m0", "ok f0 e0", "ok e1 e2", "ok e3", "ok e4", "ok e5 e6", "ok e7", "ok e8", "ok", "ok"] := by decide

/-- before: reverse reference map, registrations of the tree, path index -/
example : (mvWorld.models.map fun m => (m.refs, refEntries mvSpec m.rootItems, m.index)) =
    [([([47, 99], [4]), ([47, 99, 47, 122, 122], [8])],
      [([47, 99], 4), ([47, 99, 47, 122, 122], 8)],
      [([47, 97], 1), ([47, 99], 5)])] := by decide

/-- after `move_element_here(e3 ← e5)`: the answer is `ok`; e5 is found under "/a/c"; the reference e4, which designated e5
through "/c", has the text "/a/c" and so designates e5 as before; the dangling reference e8 (text "/c/zz", no element) keeps
its text; map and registrations agree -/
example :
    (opMove mvSpec nameEnv mvWorld 3 5 none).2 = .ok "" ∧
    ((opMove mvSpec nameEnv mvWorld 3 5 none).1.models.map fun m => (m.refs, refEntries mvSpec m.rootItems, m.index)) =
    [([([47, 99, 47, 122, 122], [8]), ([47, 97, 47, 99], [4])],
      [([47, 97, 47, 99], 4), ([47, 99, 47, 122, 122], 8)],
      [([47, 97], 1), ([47, 97, 47, 99], 5)])] := by decide

/-- the reference e4 resolved to e5 before and resolves to e5 afterwards; `mvText` describes both texts -/
example :
    idxGet (mvWorld.models[0]!).index [47, 99] = some 5 ∧
    idxGet ((opMove mvSpec nameEnv mvWorld 3 5 none).1.models[0]!).index [47, 97, 47, 99] = some 5 ∧
    mvText (mvWorld.models[0]!).index [47, 99] [47, 97, 47, 99] [47, 99] = [47, 97, 47, 99] ∧
    mvText (mvWorld.models[0]!).index [47, 99] [47, 97, 47, 99] [47, 99, 47, 122, 122] = [47, 99, 47, 122, 122] := by decide

/-- the unconditional form of C06 ("every reference with text `t` has the text `rekey src dest t` afterwards") is FALSE: the
loop of `move_element_here` walks over the paths of the elements of the moved subtree, not over the keys of the reverse
reference map (as `set_item_name` does), so the dangling reference e8 with the text "/c/zz" below the old path keeps its text,
while `rekey` would send it to "/a/c/zz" -/
example :
    (refEntries mvSpec ((opMove mvSpec nameEnv mvWorld 3 5 none).1.models[0]!).rootItems).contains ([47, 99, 47, 122, 122], 8) = true ∧
    rekey [47, 99] [47, 97, 47, 99] [47, 99, 47, 122, 122] = [47, 97, 47, 99, 47, 122, 122] := by decide

/-- a move below itself, and a move of the package to where it already is (no position), change nothing -/
example : (opMove mvSpec nameEnv mvWorld 7 5 none).2 = .err ∧ (opMove mvSpec nameEnv mvWorld 0 5 none).2 = .ok "" ∧
    ((opMove mvSpec nameEnv mvWorld 0 5 none).1.models.map fun m => m.index) = (mvWorld.models.map fun m => m.index) := by
  decide

end AV.W

