/-
`set_item_name` (`opRename`) as a core operation, part 2: C06 "references keep following their target through a rename".
In a world whose path index and reverse reference map are exact (`CInv`), when `set_item_name` changes the state:
 * the path index of the model is re-keyed by `rekey old new` (`opRename_C06_index`, `opRename_C06_index_conv`),
 * the text of every reference element is re-keyed by the same function (`opRename_C06_texts`),
 * hence a reference that resolved to the element `e` resolves to the same element `e` afterwards, and a reference whose
   text is not at or below the old path keeps its text (`opRename_C06`),
 * nothing else changes (`opRename_frame`, `opRename_C06_frame`).
At the end: the statement is not vacuous (a concrete rename on the small specification `refSpec`), and the index invariant
alone is NOT kept by `set_item_name` (`opRename_winv_needs_refs`).
-/
import AutosarVerif.Lemmas.RenameOp
import AutosarVerif.Lemmas.RefsWitness

namespace AV.W
open Items

section
variable (S : Spec) (V : Env) (vOk : Nat)

/-! ### the state-changing branch -/

/-- `set_item_name` on the located element changed the world: it took its state-changing branch -/
theorem opRename_changed (w : World) (x : Nat) (nm : Bytes) (k : Nat) (c : List (Hdr × Items))
    (hloc : locate w x = some (k, c)) (hch : (opRename S V w x nm).1 ≠ w) :
    ∃ ver cur sh sk rest,
      minVersion V (w.models[k]!) c = some ver ∧
      itemName S (lastOf c).1 (lastOf c).2 = some cur ∧ cur ≠ nm ∧ nm ≠ [] ∧
      (lastOf c).2 = .elem sh sk rest ∧ sh.name = S.nmShortName ∧
      idxGet (w.models[k]!).index (renNew S c nm) = none ∧
      S.mode sh.ety.typ = .characters ∧
      (∃ sp, S.chardataSpec sh.ety.typ = some sp ∧ checkValue V (.str nm) sp ver = true) ∧
      opRename S V w x nm = (setModel w k (renModel S (w.models[k]!) c sh nm), .ok "") := by
  rcases opRename_cases S V w x nm with h | ⟨k', c', ver, cur, sh, sk, rest, h1, h2, h3, h4, h5, h6, h7, h8, h9, h10, h11⟩
  · exact absurd h hch
  · rw [hloc] at h1
    injection h1 with h1
    injection h1 with hk hc
    subst hk; subst hc
    exact ⟨ver, cur, sh, sk, rest, h2, h3, h4, h5, h6, h7, h8, h9, h10, h11⟩

/-- the model `k` of the world after the rename -/
theorem opRename_model (w : World) (x : Nat) (nm : Bytes) (k : Nat) (c : List (Hdr × Items))
    (hloc : locate w x = some (k, c)) (sh : Hdr)
    (heq : opRename S V w x nm = (setModel w k (renModel S (w.models[k]!) c sh nm), .ok "")) :
    (opRename S V w x nm).1.models[k]! = renModel S (w.models[k]!) c sh nm := by
  obtain ⟨m, hm1, _, _, _⟩ := locate_chain w x k c hloc
  have hlt : k < w.models.length := by
    cases hk : decide (k < w.models.length) with
    | true => exact of_decide_eq_true hk
    | false =>
      have := of_decide_eq_false hk
      rw [List.getElem?_eq_none (by omega)] at hm1
      cases hm1
  rw [heq]
  show (w.models.set k _)[k]! = _
  simp [hlt]

/-- the common start of the C06 theorems -/
theorem c06_setup (hH : IdxHyp S V vOk) (w : World) (hC : CInv S vOk w) (x : Nat) (nm : Bytes) (k : Nat)
    (c : List (Hdr × Items)) (hloc : locate w x = some (k, c)) (hch : (opRename S V w x nm).1 ≠ w) :
    ∃ cur sh sk rest, RenSit S vOk w.nextId (w.models[k]!) x c cur nm sh sk rest ∧
      (opRename S V w x nm).1.models[k]! = renModel S (w.models[k]!) c sh nm ∧
      opRename S V w x nm = (setModel w k (renModel S (w.models[k]!) c sh nm), .ok "") := by
  obtain ⟨ver, cur, sh, sk, rest, _, hcur, hne, _, hk, hsn, hlook, _, hval, heq⟩ := opRename_changed S V w x nm k c hloc hch
  obtain ⟨_, hs⟩ := renSit_of_branch S V vOk hH w hC.1 hC.2.1 x nm k c ver cur sh sk rest hloc hcur hne hk hsn hlook hval
  exact ⟨cur, sh, sk, rest, hs, opRename_model S V w x nm k c hloc sh heq, heq⟩

/-! ### 4a. the path index is re-keyed -/

/-- every entry of the index moves to the re-keyed path, with the same element -/
theorem opRename_C06_index (hH : IdxHyp S V vOk) (hR : RefWF S) (w : World) (hC : CInv S vOk w) (x : Nat) (nm : Bytes)
    (k : Nat) (c : List (Hdr × Items)) (hloc : locate w x = some (k, c)) (hch : (opRename S V w x nm).1 ≠ w)
    (q : Bytes) (i : Nat) (hq : idxGet (w.models[k]!).index q = some i) :
    idxGet ((opRename S V w x nm).1.models[k]!).index (rekey (pathOfChain S c) (renNew S c nm) q) = some i := by
  obtain ⟨cur, sh, sk, rest, hs, hm', _⟩ := c06_setup S V vOk hH w hC x nm k c hloc hch
  rw [hm']
  exact (idxFix_get _ _ _ hs.minv.idxKeys (hs.out hR).free _ i).mpr ⟨q, hq, rfl⟩

/-- … and every entry of the new index is the re-keyed image of an entry of the old index -/
theorem opRename_C06_index_conv (hH : IdxHyp S V vOk) (hR : RefWF S) (w : World) (hC : CInv S vOk w) (x : Nat)
    (nm : Bytes) (k : Nat) (c : List (Hdr × Items)) (hloc : locate w x = some (k, c))
    (hch : (opRename S V w x nm).1 ≠ w) (q' : Bytes) (i : Nat)
    (hq : idxGet ((opRename S V w x nm).1.models[k]!).index q' = some i) :
    ∃ q, idxGet (w.models[k]!).index q = some i ∧ rekey (pathOfChain S c) (renNew S c nm) q = q' := by
  obtain ⟨cur, sh, sk, rest, hs, hm', _⟩ := c06_setup S V vOk hH w hC x nm k c hloc hch
  rw [hm'] at hq
  exact (idxFix_get _ _ _ hs.minv.idxKeys (hs.out hR).free _ i).mp hq

/-- the shape of the two paths: the last name is replaced -/
theorem opRename_C06_paths (hH : IdxHyp S V vOk) (w : World) (hC : CInv S vOk w) (x : Nat) (nm : Bytes)
    (k : Nat) (c : List (Hdr × Items)) (hloc : locate w x = some (k, c)) (hch : (opRename S V w x nm).1 ≠ w) :
    ∃ b cur, itemName S (lastOf c).1 (lastOf c).2 = some cur ∧ cur ≠ nm ∧ 47 ∉ cur ∧ 47 ∉ nm ∧
      pathOfChain S c = b ++ 47 :: cur ∧ renNew S c nm = b ++ 47 :: nm := by
  obtain ⟨cur, sh, sk, rest, hs, _, _⟩ := c06_setup S V vOk hH w hC x nm k c hloc hch
  obtain ⟨b, _, hsl, hold, hnew, _⟩ := rename_ctx S vOk hs.minv x c hs.hchain cur hs.hcur sh sk rest hs.hkids hs.hsn nm
  exact ⟨b, cur, hs.hcur, hs.hne, hsl, hs.hslash, hold, hnew⟩

/-! ### 4b. the reference texts are re-keyed -/

/-- a node outside the edited node (which holds no nodes) is still there after the edit, its content edited below -/
theorem occ_modify_other (t : Nat) (f : Hdr → Items → Hdr × Items) (its : Items)
    (hleaf : ∀ h0 k0, Occ h0 k0 its → h0.id = t → ∀ h' k', ¬ Occ h' k' k0)
    (h : Hdr) (k : Items) (ho : Occ h k its) (hne : h.id ≠ t) : Occ h (k.modify t f) (its.modify t f) := by
  induction its with
  | nil => exact ho.elim
  | text cc r ih => exact ih hleaf ho
  | elem hd kk r ihk ihr =>
    have ihk := ihk (fun h0 k0 ho0 => hleaf h0 k0 (Or.inr (Or.inl ho0)))
    have ihr := ihr (fun h0 k0 ho0 => hleaf h0 k0 (Or.inr (Or.inr ho0)))
    by_cases heq : hd.id = t
    · rw [modify_elem_eq t f hd kk r heq]
      rcases ho with ⟨rfl, rfl⟩ | ho | ho
      · exact absurd heq hne
      · exact absurd ho (hleaf hd kk (Or.inl ⟨rfl, rfl⟩) heq h k)
      · exact Or.inr (Or.inr (ihr ho))
    · rw [modify_elem_ne t f hd kk r heq]
      rcases ho with ⟨rfl, rfl⟩ | ho | ho
      · exact Or.inl ⟨rfl, rfl⟩
      · exact Or.inr (Or.inl (ihk ho))
      · exact Or.inr (Or.inr (ihr ho))

variable {S vOk}

/-- a registered text that is not a moved key is not at or below the old path -/
theorem rekey_if_moved {nid : Nat} {m : Model} {x : Nat} {c : List (Hdr × Items)} {cur nm : Bytes} {sh : Hdr}
    {sk rest : Items} (hs : RenSit S vOk nid m x c cur nm sh sk rest) (p : Bytes) (id : Nat)
    (he : (p, id) ∈ refEntries S m.rootItems) :
    (if p ∈ (movedRefs (pathOfChain S c) m.refs).map (·.1) then rekey (pathOfChain S c) (renNew S c nm) p else p) =
      rekey (pathOfChain S c) (renNew S c nm) p := by
  split
  · rfl
  · rename_i hnk
    have hin : id ∈ refsGet m.refs p := exact_listed_of_mem S hs.rex p id he
    have hkey : p ∈ m.refs.map (·.1) := key_of_refsGet_ne _ _ (List.ne_nil_of_mem hin)
    obtain ⟨y, hy, hye⟩ := List.mem_map.mp hkey
    cases hps : pathSuffix (pathOfChain S c) p with
    | none => rw [rekey_none _ _ _ hps]
    | some s =>
      exfalso
      apply hnk
      refine List.mem_map.mpr ⟨y, ?_, hye⟩
      unfold movedRefs
      exact List.mem_filter.mpr ⟨hy, by rw [hye, hps]; rfl⟩

variable (S vOk)

/-- every reference element is still there, with the same header, and its text is the re-keyed text -/
theorem opRename_C06_texts (hH : IdxHyp S V vOk) (hR : RefWF S) (w : World) (hC : CInv S vOk w) (x : Nat) (nm : Bytes)
    (k : Nat) (c : List (Hdr × Items)) (hloc : locate w x = some (k, c)) (hch : (opRename S V w x nm).1 ≠ w)
    (h : Hdr) (k0 : Items) (p : Bytes) (ho : Occ h k0 (w.models[k]!).rootItems) (href : S.isRef h.ety.typ = true)
    (hcd : charData S h k0 = some (.str p)) :
    ∃ k0', Occ h k0' ((opRename S V w x nm).1.models[k]!).rootItems ∧
      charData S h k0' = some (.str (rekey (pathOfChain S c) (renNew S c nm) p)) := by
  obtain ⟨cur, sh, sk, rest, hs, hm', _⟩ := c06_setup S V vOk hH w hC x nm k c hloc hch
  have hout := hs.out hR
  obtain ⟨b, _, _, _, _, _, hosh, hnamed, hsub, htyp, _⟩ :=
    rename_ctx S vOk hs.minv x c hs.hchain cur hs.hcur sh sk rest hs.hkids hs.hsn nm
  have hk0 := charData_some_shape S h k0 _ hcd
  subst hk0
  have hmode : S.mode h.ety.typ = .characters ∨ S.mode h.ety.typ = .mixed := by
    cases hd : decide (S.mode h.ety.typ = .characters ∨ S.mode h.ety.typ = .mixed) with
    | true => exact of_decide_eq_true hd
    | false =>
      have hn := of_decide_eq_false hd
      simp only [charData, if_neg hn] at hcd
      cases hcd
  have hshref : S.isRef sh.ety.typ = false := by rw [htyp]; exact hR.sn_not_ref _ _ hnamed hsub
  have hne : h.id ≠ sh.id := by
    intro e
    obtain ⟨rfl, _⟩ := occ_unique _ hs.minv.ids h sh _ _ ho hosh e
    rw [hshref] at href; cases href
  have ho1 : Occ h (.text (.str p) .nil) (renRoot1 (w.models[k]!) sh nm) := by
    have := occ_modify_other sh.id (fun h0 _ => (h0, Items.text (.str nm) .nil)) _ ?_ h _ ho hne
    · rwa [modify_text_nil] at this
    · intro h0 k1 ho0 he h' k'
      obtain ⟨_, rfl⟩ := occ_unique _ hs.minv.ids h0 sh _ _ ho0 hosh he
      exact not_occ_text_nil h' k' _
  have ho2 := foldTexts_occ hout.moved h p href hmode ho1
  have hmem : (p, h.id) ∈ refEntries S (w.models[k]!).rootItems :=
    refOf_mem_refEntries S _ h _ ho _ (by rw [refOf_str S h p href hmode]; exact List.mem_singleton.mpr rfl)
  rw [rekey_if_moved hs p h.id hmem, ← hout.tree, ← hm'] at ho2
  refine ⟨_, ho2, ?_⟩
  simp only [charData, hmode, if_true]

/-! ### 4c. THE C06 STATEMENT -/

/-- **C06**: a reference element (header `h`, text `p`) of the model in which an element is renamed is still there afterwards;
if its text resolved to the element `e` before, its new text resolves to the SAME element `e`; and if its text was not at
or below the old path of the renamed element, its text is unchanged -/
theorem opRename_C06 (hH : IdxHyp S V vOk) (hR : RefWF S) (w : World) (hC : CInv S vOk w) (x : Nat) (nm : Bytes)
    (k : Nat) (c : List (Hdr × Items)) (hloc : locate w x = some (k, c)) (hch : (opRename S V w x nm).1 ≠ w)
    (h : Hdr) (k0 : Items) (p : Bytes) (ho : Occ h k0 (w.models[k]!).rootItems) (href : S.isRef h.ety.typ = true)
    (hcd : charData S h k0 = some (.str p)) :
    ∃ k0' p', Occ h k0' ((opRename S V w x nm).1.models[k]!).rootItems ∧ charData S h k0' = some (.str p') ∧
      (∀ e, idxGet (w.models[k]!).index p = some e → idxGet ((opRename S V w x nm).1.models[k]!).index p' = some e) ∧
      (pathSuffix (pathOfChain S c) p = none → p' = p) ∧
      (∀ s, pathSuffix (pathOfChain S c) p = some s → p' = renNew S c nm ++ s) := by
  obtain ⟨k0', ho', hcd'⟩ := opRename_C06_texts S V vOk hH hR w hC x nm k c hloc hch h k0 p ho href hcd
  refine ⟨k0', _, ho', hcd', ?_, ?_, ?_⟩
  · intro e he
    exact opRename_C06_index S V vOk hH hR w hC x nm k c hloc hch p e he
  · intro hn; exact rekey_none _ _ _ hn
  · intro s hs; exact rekey_some _ _ _ _ hs

/-! ### 4d. nothing else changes -/

/-- `set_item_name` changes at most the model the element lives in: the counters, the removed elements, the file ownership
and the number of models stay, and so does every model in which the element is not located -/
theorem opRename_frame (w : World) (x : Nat) (nm : Bytes) :
    (opRename S V w x nm).1.nextId = w.nextId ∧ (opRename S V w x nm).1.nextFile = w.nextFile ∧
    (opRename S V w x nm).1.dead = w.dead ∧ (opRename S V w x nm).1.fileOwner = w.fileOwner ∧
    (opRename S V w x nm).1.models.length = w.models.length ∧
    ∀ j, (∀ k c, locate w x = some (k, c) → j ≠ k) → (opRename S V w x nm).1.models[j]? = w.models[j]? := by
  rcases opRename_cases S V w x nm with h | ⟨k, c, ver, cur, sh, sk, rest, h1, _, _, _, _, _, _, _, _, _, h11⟩
  · rw [h]; exact ⟨rfl, rfl, rfl, rfl, rfl, fun _ _ => rfl⟩
  · rw [h11]
    refine ⟨rfl, rfl, rfl, rfl, by simp [setModel], ?_⟩
    intro j hj
    show (w.models.set k _)[j]? = _
    rw [List.getElem?_set_ne (Ne.symm (hj k c h1))]

/-- in the state-changing branch: the answer is `ok`, the models of the world are the old ones with the model of the element
replaced, and in that model the files and the root element's header are the old ones -/
theorem opRename_C06_frame (hH : IdxHyp S V vOk) (w : World) (hC : CInv S vOk w) (x : Nat) (nm : Bytes) (k : Nat)
    (c : List (Hdr × Items)) (hloc : locate w x = some (k, c)) (hch : (opRename S V w x nm).1 ≠ w) :
    (opRename S V w x nm).2 = .ok "" ∧
    (opRename S V w x nm).1.models = w.models.set k ((opRename S V w x nm).1.models[k]!) ∧
    (∀ j, j ≠ k → (opRename S V w x nm).1.models[j]? = w.models[j]?) ∧
    ((opRename S V w x nm).1.models[k]!).files = (w.models[k]!).files ∧
    ((opRename S V w x nm).1.models[k]!).rootHdr = (w.models[k]!).rootHdr ∧
    ((opRename S V w x nm).1.models[k]!).rootIssued = (w.models[k]!).rootIssued := by
  obtain ⟨cur, sh, sk, rest, hs, hm', heq⟩ := c06_setup S V vOk hH w hC x nm k c hloc hch
  obtain ⟨_, r2, r3, r4⟩ := renModel_rootItems (S := S) (c := c)
    (loop_hasRoot (w.models[k]!) sh nm (pathOfChain S c) (renNew S c nm))
  refine ⟨by rw [heq], ?_, ?_, by rw [hm']; exact r3, by rw [hm']; exact r2, by rw [hm']; exact r4⟩
  · rw [hm', heq]; rfl
  · intro j hj
    rw [heq]
    show (w.models.set k _)[j]? = _
    rw [List.getElem?_set_ne (Ne.symm hj)]

end

/-! ### 5. the statements are not vacuous

On the small specification `refSpec` (`Lemmas/RefsWitness.lean`): the package P "a" (e1) with a Q (e3) that holds three
X-REF elements e4, e5, e6 with the texts "/a", "/a/x" (dangling, below the package) and "/a1" (dangling, shares a textual
prefix only), and a second package "c" (e7).  `set_item_name(e1, "b")`. -/

def renOps : List Op :=
  [.newModel, .mkFile 0 [102] 2 true, .named 0 101 [97] none, .create 1 103 none,
   .create 3 105 none, .create 3 105 none, .create 3 105 none,
   .cdata 4 (.str [47, 97]), .cdata 5 (.str [47, 97, 47, 120]), .cdata 6 (.str [47, 97, 49]), .named 0 101 [99] none]

/-- the world before the rename -/
def renWorld : World := run refSpec nameEnv [] renOps

theorem renOps_ok : ∀ op ∈ renOps, OpOk refSpec 6 op := by decide

/-- the combined invariant holds before the rename (it is a reachable state of a guarded history) … -/
theorem renWorld_cinv : CInv refSpec 6 renWorld :=
  run_cinv refSpec nameEnv 6 [] refSpec_hyp refSpec_refWF renOps renOps_ok

/-- … and after it, by `opRename_cinv` -/
theorem renWorld_cinv_after : CInv refSpec 6 (opRename refSpec nameEnv renWorld 1 [98]).1 :=
  opRename_cinv refSpec nameEnv 6 refSpec_hyp refSpec_refWF renWorld 1 [98] renWorld_cinv

/-- before: reverse reference map, registrations of the tree, path index -/
example : (renWorld.models.map fun m => (m.refs, refEntries refSpec m.rootItems, m.index)) =
    [([([47, 97], [4]), ([47, 97, 47, 120], [5]), ([47, 97, 49], [6])],
      [([47, 97], 4), ([47, 97, 47, 120], 5), ([47, 97, 49], 6)],
      [([47, 97], 1), ([47, 99], 7)])] := by decide

/-- after `set_item_name(e1, "b")`: "/a" ↦ "/b", "/a/x" ↦ "/b/x", "/a1" stays; e1 is found under "/b"; the answer is `ok` -/
example : ((opRename refSpec nameEnv renWorld 1 [98]).1.models.map fun m => (m.refs, refEntries refSpec m.rootItems, m.index)) =
    [([([47, 97, 49], [6]), ([47, 98], [4]), ([47, 98, 47, 120], [5])],
      [([47, 98], 4), ([47, 98, 47, 120], 5), ([47, 97, 49], 6)],
      [([47, 99], 7), ([47, 98], 1)])] ∧
    (opRename refSpec nameEnv renWorld 1 [98]).2 = .ok "" := by decide

/-- the reference e4 resolved to e1 before and resolves to e1 afterwards -/
example :
    idxGet (renWorld.models[0]!).index [47, 97] = some 1 ∧
    idxGet ((opRename refSpec nameEnv renWorld 1 [98]).1.models[0]!).index [47, 98] = some 1 ∧
    rekey [47, 97] [47, 98] [47, 97] = [47, 98] ∧ rekey [47, 97] [47, 98] [47, 97, 47, 120] = [47, 98, 47, 120] ∧
    rekey [47, 97] [47, 98] [47, 97, 49] = [47, 97, 49] := by decide

/-- renaming to the name of the sibling, or to a name with '/', is refused and changes nothing observable -/
example : (opRename refSpec nameEnv renWorld 1 [99]).2 = .err ∧ (opRename refSpec nameEnv renWorld 1 [98, 47]).2 = .err := by
  decide

/-- the hypotheses of the C06 theorems are met by this rename: the element is located, the world changes, `CInv` holds -/
theorem renWorld_hyps : ∃ k c, locate renWorld 1 = some (k, c) ∧ (opRename refSpec nameEnv renWorld 1 [98]).1 ≠ renWorld ∧
    CInv refSpec 6 renWorld := by
  have h : (locate renWorld 1).isSome = true := by decide
  cases hl : locate renWorld 1 with
  | none => rw [hl] at h; cases h
  | some kc =>
    refine ⟨kc.1, kc.2, rfl, ?_, renWorld_cinv⟩
    intro e
    have h2 := congrArg (fun w : World => w.models.map (·.index)) e
    revert h2
    decide

/-! ### the index invariant alone is not kept

`opRename_winv` asks for an exact reverse reference map.  It has to: the loop of `set_item_name` overwrites the first content
item of whatever elements the map lists under a key at or below the old path.  Take the world above and let the map (wrongly)
list the package e1 itself as a referrer of "/a": the index invariant still holds (it does not look at the map), but the
rename replaces the SHORT-NAME of e1 by the text "/b", so e1 has no name any more while the index lists it under "/b". -/

/-- the world above with a wrong reverse reference map -/
def renBadWorld : World :=
  { renWorld with models := renWorld.models.map fun m => { m with refs := [([47, 97], [1])] } }

theorem renBadWorld_winv : WInv refSpec 6 renBadWorld := by
  intro m hm
  obtain ⟨m0, hm0, rfl⟩ := List.mem_map.mp hm
  have h := renWorld_cinv.1 m0 hm0
  exact ⟨h.vers, h.ids, h.bound, h.fresh, h.rootName, h.sn, h.keys, h.idxKeys, h.exact⟩

/-- the index invariant holds before and fails after `set_item_name` -/
theorem opRename_winv_needs_refs :
    ∃ w : World, WInv refSpec 6 w ∧ ¬ WInv refSpec 6 (opRename refSpec nameEnv w 1 [98]).1 := by
  refine ⟨renBadWorld, renBadWorld_winv, ?_⟩
  intro h
  have hmem : (opRename refSpec nameEnv renBadWorld 1 [98]).1.models[0]! ∈ (opRename refSpec nameEnv renBadWorld 1 [98]).1.models := by
    have hl : (opRename refSpec nameEnv renBadWorld 1 [98]).1.models.length = 1 := by decide
    have : (opRename refSpec nameEnv renBadWorld 1 [98]).1.models[0]! = (opRename refSpec nameEnv renBadWorld 1 [98]).1.models[0]'(by omega) := by
      simp [hl]
    rw [this]
    exact List.getElem_mem _
  have hm := h _ hmem
  have h1 : idxGet ((opRename refSpec nameEnv renBadWorld 1 [98]).1.models[0]!).index [47, 98] = some 1 := by decide
  have h2 := (hm.exact [47, 98] 1).mp h1
  revert h2
  decide

end AV.W
