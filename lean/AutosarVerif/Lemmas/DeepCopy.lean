/-
C13: a deep copy is faithful (`deepCopy`, `registerCopy`, `uniqueName`, `opCopy` of `Model/WorldOps2.lean`).

1. Identities (`deepCopy_ids`): the ids of a copy are `nid … n'-1` in preorder (so: pairwise different, in `[nid, n')`), the
   parent fields agree with the structure (`Items.wf`), no copied element has a local file set.
2. The copy is the version filter of the source: `compatFilter` (fuel as in `deepCopy`) and `compatFilterT` (no fuel,
   `compatFilter_eq_T`) are written without identities; up to identities, parent links and file sets (`Items.shape`) the copy IS
   the filter, and both fail together (`deepCopy_shape_map`, `deepCopy_shape`, `deepCopy_none_iff`, `deepCopy_eq_none_iff`).
3. Same version (`AllCompat`; Boolean check `allCompatB`): the copy succeeds and has the shape of the source
   (`deepCopy_faithful`, `deepCopy_faithful_size`); in every version the copy contains only what the version permits
   (`deepCopy_allCompat`: "… and still validates").
4. Fuel above the nesting depth of the content is irrelevant (`deepCopy_fuel`, `deepCopy_fuel_size`; `depth_lt_size`).
5. A successful `opCopy` (`opCopy_ok`: everything it went through, `CopyOk`) changes only the destination model
   (`opCopy_frame`), leaves the source subtree where it is (`opCopy_source_kept`), and the handle of the source denotes the
   same node afterwards (`opCopy_source_hdrOf`).
6. Registration: `registerCopy` inserts exactly the index entries of the copy and registers exactly its reference elements
   (`registerCopy_index`, `registerCopy_refs`; with new, pairwise different paths the index is `idx ++ entries …`:
   `registerCopy_index_fresh`); `make_unique_item_name` returns an unused name (`uniqueName_fresh`); a successful `opCopy` in
   a world with the index invariant extends the index by the entries of the copy (`opCopy_index`), the reference map by its
   reference elements (`opCopy_refs`), everything copied is findable (`opCopy_findable`), and the invariants C04 / C05 / C03
   survive (`opCopy_inv`, `opCopy_rinv`, `opCopy_wf`) — under `CopyPathsOk`, which holds by itself for a same-version copy of
   a named element (`opCopy_inv_same_version`) and cannot be dropped (`Lemmas/DeepCopyWitness.lean`).
-/
import AutosarVerif.Lemmas.RefsOpsA
import AutosarVerif.Lemmas.Files
import AutosarVerif.Lemmas.CData
namespace AV.W
open Items

section
variable (S : Spec)

/-- specification of the attribute filter: keep an attribute iff `findAttr` knows it in `ver` with a compatible value;
fail if an attribute is unknown, or is dropped although required -/
def keepAttrs (typ ver : Nat) : List (Nat × CDv) → Option (List (Nat × CDv))
  | [] => some []
  | a :: rest =>
    match S.findAttr typ a.1 with
    | none => none
    | some (cd, req, mask) =>
      if (mask &&& ver) ≠ 0 ∧ valueCompat a.2 (S.cspec cd) ver then (keepAttrs typ ver rest).map (a :: ·)
      else if req then none else keepAttrs typ ver rest

/-- the step function of the attribute loop of `deepCopy` -/
def attrStep (typ ver : Nat) (acc : Option (List (Nat × CDv))) (a : Nat × CDv) : Option (List (Nat × CDv)) :=
  match acc with
  | none => none
  | some l =>
    match S.findAttr typ a.1 with
    | none => none
    | some (cd, req, mask) =>
      if (mask &&& ver) ≠ 0 ∧ valueCompat a.2 (S.cspec cd) ver then some (l ++ [a])
      else if req then none else some l

theorem foldl_attrStep_none (typ ver : Nat) (attrs : List (Nat × CDv)) :
    attrs.foldl (attrStep S typ ver) none = none := by
  induction attrs with
  | nil => rfl
  | cons a rest ih => simpa [attrStep] using ih

theorem foldl_attrStep (typ ver : Nat) (attrs : List (Nat × CDv)) (l : List (Nat × CDv)) :
    attrs.foldl (attrStep S typ ver) (some l) = (keepAttrs S typ ver attrs).map (l ++ ·) := by
  induction attrs generalizing l with
  | nil => simp [keepAttrs]
  | cons a rest ih =>
    simp only [List.foldl_cons, keepAttrs]
    cases hf : S.findAttr typ a.1 with
    | none => simp only [attrStep, hf]; exact foldl_attrStep_none S typ ver rest
    | some x =>
      obtain ⟨cd, req, mask⟩ := x
      simp only [attrStep, hf]
      split
      · rw [ih]; cases keepAttrs S typ ver rest <;> simp
      · split
        · exact foldl_attrStep_none S typ ver rest
        · exact ih l

theorem deepCopy_succ (f : Nat) (h : Hdr) (kids : Items) (ver : Nat) (parent : PRef) (nid : Nat) :
    deepCopy S (f + 1) h kids ver parent nid =
      match keepAttrs S h.ety.typ ver h.attrs with
      | none => none
      | some attrs =>
        some ({ h with id := nid, parent := parent, attrs := attrs, files := [] },
          (deepCopy.go S h ver nid f kids (nid + 1)).1, (deepCopy.go S h ver nid f kids (nid + 1)).2) := by
  rw [deepCopy.eq_2]
  generalize hg : List.foldl _ (some []) h.attrs = r
  have hr : r = keepAttrs S h.ety.typ ver h.attrs := by
    rw [← hg]
    have := foldl_attrStep S h.ety.typ ver h.attrs []
    simp only [List.nil_append, Option.map_id'] at this
    rw [← this]
    rfl
  rw [hr]
  cases keepAttrs S h.ety.typ ver h.attrs <;> rfl


/-- a text item is kept iff it is compatible with the character data specification of the parent type -/
def keepText (typ ver : Nat) (c : CDv) : Bool :=
  match S.chardataSpec typ with
  | some sp => valueCompat c sp ver
  | none => true

theorem go_nil (h : Hdr) (ver myId f n : Nat) : deepCopy.go S h ver myId f .nil n = (.nil, n) := deepCopy.go.eq_1 ..

theorem go_text (h : Hdr) (ver myId f n : Nat) (c : CDv) (r : Items) :
    deepCopy.go S h ver myId f (.text c r) n =
      (if keepText S h.ety.typ ver c then .text c (deepCopy.go S h ver myId f r n).1 else (deepCopy.go S h ver myId f r n).1,
        (deepCopy.go S h ver myId f r n).2) := by
  rw [deepCopy.go.eq_2]; rfl

theorem go_elem (h : Hdr) (ver myId f n : Nat) (sh : Hdr) (sk r : Items) :
    deepCopy.go S h ver myId f (.elem sh sk r) n =
      if (S.findSub h.ety.typ sh.name ver).isSome then
        match deepCopy S f sh sk ver (.elem myId) n with
        | some (ch, ck, n1) => (.elem ch ck (deepCopy.go S h ver myId f r n1).1, (deepCopy.go S h ver myId f r n1).2)
        | none => deepCopy.go S h ver myId f r n
      else deepCopy.go S h ver myId f r n := by
  rw [deepCopy.go.eq_3]
  split
  · cases hd : deepCopy S f sh sk ver (.elem myId) n with
    | none => rfl
    | some x => obtain ⟨ch, ck, n1⟩ := x; rfl
  · rfl

theorem range'_glue (n n1 n' : Nat) (h1 : n ≤ n1) (h2 : n1 ≤ n') :
    List.range' n (n1 - n) ++ List.range' n1 (n' - n1) = List.range' n (n' - n) := by
  have e : n1 = n + (n1 - n) := by omega
  have e2 : n' - n = (n1 - n) + (n' - n1) := by omega
  rw [e2, ← List.range'_append_1, ← e]

/-! ### 1. identities -/

theorem ids_elem_nil (h : Hdr) (k : Items) : (Items.elem h k .nil).ids = h.id :: k.ids := by
  simp [Items.ids]

theorem hdrs_elem_nil (h : Hdr) (k : Items) : (Items.elem h k .nil).hdrs = h :: k.hdrs := by
  simp [Items.hdrs]

/-- what part 1 says about one copied node -/
def CopyIdsOk (parent : PRef) (nid : Nat) (h' : Hdr) (k' : Items) (n' : Nat) : Prop :=
  (Items.elem h' k' .nil).ids = List.range' nid (n' - nid) ∧ nid < n' ∧ h'.id = nid ∧ h'.parent = parent ∧
    k'.wf (.elem nid) ∧ ∀ hd ∈ (Items.elem h' k' .nil).hdrs, hd.files = []

theorem go_ids (h : Hdr) (ver myId f : Nat)
    (ih : ∀ (sh : Hdr) (sk : Items) (parent : PRef) (nid : Nat) (h' : Hdr) (k' : Items) (n' : Nat),
      deepCopy S f sh sk ver parent nid = some (h', k', n') → CopyIdsOk parent nid h' k' n')
    (its : Items) (n : Nat) :
    n ≤ (deepCopy.go S h ver myId f its n).2 ∧
    (deepCopy.go S h ver myId f its n).1.ids = List.range' n ((deepCopy.go S h ver myId f its n).2 - n) ∧
    (deepCopy.go S h ver myId f its n).1.wf (.elem myId) ∧
    ∀ hd ∈ (deepCopy.go S h ver myId f its n).1.hdrs, hd.files = [] := by
  induction its generalizing n with
  | nil => simp [deepCopy.go, Items.ids, Items.wf, Items.hdrs]
  | text c r ihr =>
    rw [go_text]
    obtain ⟨h1, h2, h3, h4⟩ := ihr n
    split <;> simp only [Items.ids, Items.wf, Items.hdrs] <;> exact ⟨h1, h2, h3, h4⟩
  | elem sh sk r _ ihr =>
    rw [go_elem]
    split
    · split
      · rename_i ch ck n1 hc
        obtain ⟨c1, c2, c3, c4, c5, c6⟩ := ih sh sk _ n ch ck n1 hc
        obtain ⟨h1, h2, h3, h4⟩ := ihr n1
        dsimp only
        refine ⟨by omega, ?_, ?_, ?_⟩
        · have : (Items.elem ch ck (deepCopy.go S h ver myId f r n1).1).ids =
              (Items.elem ch ck .nil).ids ++ (deepCopy.go S h ver myId f r n1).1.ids := by
            simp [Items.ids]
          rw [this, c1, h2]
          exact range'_glue n n1 _ (by omega) h1
        · simp only [Items.wf]
          exact ⟨c4, c3 ▸ c5, h3⟩
        · intro hd hm
          have hm' : hd ∈ (Items.elem ch ck .nil).hdrs ∨ hd ∈ (deepCopy.go S h ver myId f r n1).1.hdrs := by
            simpa [Items.hdrs, or_assoc] using hm
          rcases hm' with hm' | hm'
          · exact c6 hd hm'
          · exact h4 hd hm'
      · exact ihr n
    · exact ihr n

theorem deepCopy_ids_aux (fuel : Nat) : ∀ (h : Hdr) (kids : Items) (ver : Nat) (parent : PRef) (nid : Nat) (h' : Hdr) (k' : Items) (n' : Nat),
    deepCopy S fuel h kids ver parent nid = some (h', k', n') → CopyIdsOk parent nid h' k' n' := by
  induction fuel with
  | zero => intro h kids ver parent nid h' k' n' hc; simp [deepCopy] at hc
  | succ f ih =>
    intro h kids ver parent nid h' k' n' hc
    rw [deepCopy_succ] at hc
    split at hc
    · cases hc
    · rename_i attrs _
      simp only [Option.some.injEq, Prod.mk.injEq] at hc
      obtain ⟨rfl, rfl, rfl⟩ := hc
      obtain ⟨h1, h2, h3, h4⟩ := go_ids S h ver nid f (fun sh sk p n a b c hc => ih sh sk ver p n a b c hc) kids (nid + 1)
      refine ⟨?_, by omega, rfl, rfl, h3, ?_⟩
      · rw [ids_elem_nil, h2]
        have e : (deepCopy.go S h ver nid f kids (nid + 1)).2 - nid = ((deepCopy.go S h ver nid f kids (nid + 1)).2 - (nid + 1)) + 1 := by omega
        rw [e, List.range'_succ]
      · intro hd hm
        rw [hdrs_elem_nil] at hm
        rcases List.mem_cons.mp hm with rfl | hm
        · rfl
        · exact h4 hd hm


/-- part 1: the ids of a copy are `nid, nid+1, …, n'-1` in preorder — so they are pairwise different and lie in `[nid, n')` —,
the parent fields of the copy agree with its structure, and no copied element has a local file set -/
theorem deepCopy_ids (fuel : Nat) (h : Hdr) (kids : Items) (ver : Nat) (parent : PRef) (nid : Nat) (h' : Hdr) (k' : Items) (n' : Nat)
    (hc : deepCopy S fuel h kids ver parent nid = some (h', k', n')) :
    (Items.elem h' k' .nil).ids = List.range' nid (n' - nid) ∧ nid < n' ∧ (Items.elem h' k' .nil).ids.Nodup ∧
    (∀ i ∈ (Items.elem h' k' .nil).ids, nid ≤ i ∧ i < n') ∧
    h'.id = nid ∧ k'.wf (.elem nid) ∧ (Items.elem h' k' .nil).wf parent ∧
    ∀ hd ∈ (Items.elem h' k' .nil).hdrs, hd.files = [] := by
  obtain ⟨h1, h2, h3, h4, h5, h6⟩ := deepCopy_ids_aux S fuel h kids ver parent nid h' k' n' hc
  refine ⟨h1, h2, ?_, ?_, h3, h5, ⟨h4, h3 ▸ h5, trivial⟩, h6⟩
  · rw [h1]; exact List.nodup_range'
  · intro i hi
    rw [h1, List.mem_range'_1] at hi
    omega

/-! ### 2. the copy is the version filter of the source -/

/-- a header without what a copy necessarily changes: identity, parent link, local file set -/
def Hdr.shape (h : Hdr) : Hdr := { h with id := 0, parent := .none, files := [] }

/-- a forest up to identities, parent links and local file sets -/
def Items.shape (its : Items) : Items := its.mapHdrs Hdr.shape

theorem shape_nil : Items.nil.shape = .nil := rfl
theorem shape_elem (h : Hdr) (k r : Items) : (Items.elem h k r).shape = .elem h.shape k.shape r.shape := rfl
theorem shape_text (c : CDv) (r : Items) : (Items.text c r).shape = .text c r.shape := rfl

/-- content filter with the filter for the sub-elements as a parameter: texts are kept iff compatible with the character
data specification of the parent type `typ`; a sub-element is kept iff `findSub typ name ver` knows it and its own filter
succeeds -/
def filterKids (ver : Nat) (sub : Hdr → Items → Option (Hdr × Items)) (typ : Nat) : Items → Items
  | .nil => .nil
  | .text c r => if keepText S typ ver c then .text c (filterKids ver sub typ r) else filterKids ver sub typ r
  | .elem sh sk r =>
    if (S.findSub typ sh.name ver).isSome then
      match sub sh sk with
      | some (ch, ck) => .elem ch ck (filterKids ver sub typ r)
      | none => filterKids ver sub typ r
    else filterKids ver sub typ r

/-- "keep exactly what is permitted in `ver`" (no identities involved): `none` if an attribute of the node is unknown or
is required but has to be dropped -/
def compatFilter (ver : Nat) : Nat → Hdr → Items → Option (Hdr × Items)
  | 0, _, _ => none
  | fuel + 1, h, kids =>
    match keepAttrs S h.ety.typ ver h.attrs with
    | none => none
    | some attrs => some ({ h with attrs := attrs }, filterKids S ver (compatFilter ver fuel) h.ety.typ kids)

theorem go_shape (h : Hdr) (ver myId f : Nat)
    (ih : ∀ (sh : Hdr) (sk : Items) (parent : PRef) (nid : Nat),
      (deepCopy S f sh sk ver parent nid).map (fun r => (r.1.shape, r.2.1.shape)) =
        (compatFilter S ver f sh sk).map (fun r => (r.1.shape, r.2.shape)))
    (its : Items) (n : Nat) :
    (deepCopy.go S h ver myId f its n).1.shape = (filterKids S ver (compatFilter S ver f) h.ety.typ its).shape := by
  induction its generalizing n with
  | nil => rw [go_nil]; rfl
  | text c r ihr =>
    rw [go_text]
    simp only [filterKids]
    split
    · simp only [shape_text, ihr n]
    · exact ihr n
  | elem sh sk r _ ihr =>
    rw [go_elem]
    simp only [filterKids]
    split
    · have := ih sh sk (.elem myId) n
      cases hd : deepCopy S f sh sk ver (.elem myId) n with
      | none =>
        rw [hd] at this
        cases hc : compatFilter S ver f sh sk with
        | none => exact ihr n
        | some y => rw [hc] at this; simp at this
      | some x =>
        obtain ⟨ch, ck, n1⟩ := x
        rw [hd] at this
        cases hc : compatFilter S ver f sh sk with
        | none => rw [hc] at this; simp at this
        | some y =>
          obtain ⟨fh, fk⟩ := y
          rw [hc] at this
          simp only [Option.map_some, Option.some.injEq, Prod.mk.injEq] at this
          simp only [shape_elem, this.1, this.2, ihr n1]
    · exact ihr n

/-- part 2, in one equation: up to identities, parent links and file sets, `deepCopy` IS the version filter (both are `none`
together, for every fuel) -/
theorem deepCopy_shape_map (fuel : Nat) : ∀ (h : Hdr) (kids : Items) (ver : Nat) (parent : PRef) (nid : Nat),
    (deepCopy S fuel h kids ver parent nid).map (fun r => (r.1.shape, r.2.1.shape)) =
      (compatFilter S ver fuel h kids).map (fun r => (r.1.shape, r.2.shape)) := by
  induction fuel with
  | zero => intros; simp [deepCopy, compatFilter]
  | succ f ih =>
    intro h kids ver parent nid
    rw [deepCopy_succ]
    simp only [compatFilter]
    cases keepAttrs S h.ety.typ ver h.attrs with
    | none => rfl
    | some attrs =>
      simp only [Option.map_some, Option.some.injEq, Prod.mk.injEq]
      exact ⟨rfl, go_shape S h ver nid f (fun sh sk p n => ih sh sk ver p n) kids (nid + 1)⟩

theorem deepCopy_shape (fuel : Nat) (h : Hdr) (kids : Items) (ver : Nat) (parent : PRef) (nid : Nat) (h' : Hdr) (k' : Items) (n' : Nat)
    (hc : deepCopy S fuel h kids ver parent nid = some (h', k', n')) :
    ∃ fh fk, compatFilter S ver fuel h kids = some (fh, fk) ∧
      Items.shape (.elem h' k' .nil) = Items.shape (.elem fh fk .nil) := by
  have := deepCopy_shape_map S fuel h kids ver parent nid
  rw [hc] at this
  cases hf : compatFilter S ver fuel h kids with
  | none => rw [hf] at this; simp at this
  | some y =>
    obtain ⟨fh, fk⟩ := y
    rw [hf] at this
    simp only [Option.map_some, Option.some.injEq, Prod.mk.injEq] at this
    exact ⟨fh, fk, rfl, by simp only [shape_elem, this.1, this.2]⟩

theorem deepCopy_none_iff (fuel : Nat) (h : Hdr) (kids : Items) (ver : Nat) (parent : PRef) (nid : Nat) :
    deepCopy S fuel h kids ver parent nid = none ↔ compatFilter S ver fuel h kids = none := by
  have := deepCopy_shape_map S fuel h kids ver parent nid
  cases hd : deepCopy S fuel h kids ver parent nid <;> cases hf : compatFilter S ver fuel h kids <;>
    simp [hd, hf] at this ⊢


/-- `deepCopy` with at least one unit of fuel fails exactly when an attribute of the copied node itself is unknown, or is
required but not permitted in `ver` (a sub-element whose own copy fails is omitted instead) -/
theorem deepCopy_eq_none_iff (f : Nat) (h : Hdr) (kids : Items) (ver : Nat) (parent : PRef) (nid : Nat) :
    deepCopy S (f + 1) h kids ver parent nid = none ↔ keepAttrs S h.ety.typ ver h.attrs = none := by
  rw [deepCopy_succ]
  cases keepAttrs S h.ety.typ ver h.attrs <;> simp

/-! ### 4. fuel -/

/-- nesting depth of a forest (number of element levels) -/
def Items.depth : Items → Nat
  | .nil => 0
  | .text _ r => r.depth
  | .elem _ k r => max (k.depth + 1) r.depth

theorem depth_lt_size (its : Items) : its.depth < its.size := by
  induction its with
  | nil => simp [Items.depth, Items.size]
  | text _ r ih => simp only [Items.depth, Items.size]; omega
  | elem _ k r ihk ihr => simp only [Items.depth, Items.size]; omega

theorem go_fuel (h : Hdr) (ver myId f f' : Nat)
    (ih : ∀ (sh : Hdr) (sk : Items) (parent : PRef) (nid : Nat), sk.depth < f →
      deepCopy S f sh sk ver parent nid = deepCopy S f' sh sk ver parent nid)
    (its : Items) (n : Nat) (hd : its.depth ≤ f) :
    deepCopy.go S h ver myId f its n = deepCopy.go S h ver myId f' its n := by
  induction its generalizing n with
  | nil => rw [go_nil, go_nil]
  | text c r ihr =>
    simp only [Items.depth] at hd
    rw [go_text, go_text, ihr n hd]
  | elem sh sk r _ ihr =>
    simp only [Items.depth] at hd
    rw [go_elem, go_elem, ih sh sk _ n (by omega), ihr n (by omega)]
    split
    · split
      · rw [ihr _ (by omega)]
      · rfl
    · rfl

/-- part 4: once the fuel exceeds the nesting depth of the content, more fuel changes nothing -/
theorem deepCopy_fuel (fuel : Nat) : ∀ (fuel' : Nat) (h : Hdr) (kids : Items) (ver : Nat) (parent : PRef) (nid : Nat),
    kids.depth < fuel → fuel ≤ fuel' →
    deepCopy S fuel h kids ver parent nid = deepCopy S fuel' h kids ver parent nid := by
  induction fuel with
  | zero => intro fuel' h kids ver parent nid hd; omega
  | succ f ih =>
    intro fuel' h kids ver parent nid hd hle
    obtain ⟨f', rfl⟩ : ∃ f', fuel' = f' + 1 := ⟨fuel' - 1, by omega⟩
    rw [deepCopy_succ, deepCopy_succ,
      go_fuel S h ver nid f f' (fun sh sk p n hsk => ih f' sh sk ver p n hsk (by omega)) kids (nid + 1) (by omega)]

/-- the fuel `opCopy` passes is enough -/
theorem deepCopy_fuel_size (fuel : Nat) (h : Hdr) (kids : Items) (ver : Nat) (parent : PRef) (nid : Nat)
    (hf : kids.size + 2 ≤ fuel) :
    deepCopy S fuel h kids ver parent nid = deepCopy S (kids.size + 2) h kids ver parent nid :=
  (deepCopy_fuel S (kids.size + 2) fuel h kids ver parent nid (by have := depth_lt_size kids; omega) hf).symm

/-! ### the filter without fuel -/

/-- the version filter of a forest below an element of type `typ`, by structural recursion -/
def filterItems (ver : Nat) (typ : Nat) : Items → Items
  | .nil => .nil
  | .text c r => if keepText S typ ver c then .text c (filterItems ver typ r) else filterItems ver typ r
  | .elem sh sk r =>
    if (S.findSub typ sh.name ver).isSome then
      match keepAttrs S sh.ety.typ ver sh.attrs with
      | some attrs => .elem { sh with attrs := attrs } (filterItems ver sh.ety.typ sk) (filterItems ver typ r)
      | none => filterItems ver typ r
    else filterItems ver typ r

/-- `compatFilter` without fuel -/
def compatFilterT (ver : Nat) (h : Hdr) (kids : Items) : Option (Hdr × Items) :=
  match keepAttrs S h.ety.typ ver h.attrs with
  | none => none
  | some attrs => some ({ h with attrs := attrs }, filterItems S ver h.ety.typ kids)

theorem filterKids_eq (ver f typ : Nat)
    (ih : ∀ (sh : Hdr) (sk : Items), sk.depth < f → compatFilter S ver f sh sk = compatFilterT S ver sh sk)
    (its : Items) (hd : its.depth ≤ f) :
    filterKids S ver (compatFilter S ver f) typ its = filterItems S ver typ its := by
  induction its with
  | nil => rfl
  | text c r ihr =>
    simp only [Items.depth] at hd
    simp only [filterKids, filterItems, ihr hd]
  | elem sh sk r _ ihr =>
    simp only [Items.depth] at hd
    simp only [filterKids, filterItems, ihr (by omega), ih sh sk (by omega), compatFilterT]
    split
    · cases keepAttrs S sh.ety.typ ver sh.attrs <;> rfl
    · rfl

theorem compatFilter_eq_T (fuel : Nat) : ∀ (h : Hdr) (kids : Items) (ver : Nat), kids.depth < fuel →
    compatFilter S ver fuel h kids = compatFilterT S ver h kids := by
  induction fuel with
  | zero => intro h kids ver hd; omega
  | succ f ih =>
    intro h kids ver hd
    simp only [compatFilter, compatFilterT]
    rw [filterKids_eq S ver f h.ety.typ (fun sh sk hsk => ih sh sk ver hsk) kids (by omega)]


/-! ### 3. same-version faithfulness -/

/-- every attribute is known to `findAttr`, exists in `ver`, and has a value compatible with `ver` -/
def AttrsCompat (typ ver : Nat) (attrs : List (Nat × CDv)) : Prop :=
  ∀ a ∈ attrs, ∃ cd req mask, S.findAttr typ a.1 = some (cd, req, mask) ∧ (mask &&& ver) ≠ 0 ∧
    valueCompat a.2 (S.cspec cd) ver = true

/-- everything in the content of an element of type `typ` is permitted in `ver`, recursively -/
def ItemsCompat (ver : Nat) (typ : Nat) : Items → Prop
  | .nil => True
  | .text c r => keepText S typ ver c = true ∧ ItemsCompat ver typ r
  | .elem sh sk r => (S.findSub typ sh.name ver).isSome = true ∧ AttrsCompat S sh.ety.typ ver sh.attrs ∧
      ItemsCompat ver sh.ety.typ sk ∧ ItemsCompat ver typ r

/-- the node `(h, kids)` contains nothing that `ver` does not permit -/
def AllCompat (ver : Nat) (h : Hdr) (kids : Items) : Prop :=
  AttrsCompat S h.ety.typ ver h.attrs ∧ ItemsCompat S ver h.ety.typ kids

theorem keepAttrs_all (typ ver : Nat) (attrs : List (Nat × CDv)) (h : AttrsCompat S typ ver attrs) :
    keepAttrs S typ ver attrs = some attrs := by
  induction attrs with
  | nil => rfl
  | cons a rest ih =>
    obtain ⟨cd, req, mask, h1, h2, h3⟩ := h a (List.mem_cons_self ..)
    have := ih (fun b hb => h b (List.mem_cons_of_mem _ hb))
    simp only [keepAttrs, h1, this]
    simp [h2, h3]

theorem filterItems_all (ver typ : Nat) (its : Items) (h : ItemsCompat S ver typ its) : filterItems S ver typ its = its := by
  induction its generalizing typ with
  | nil => rfl
  | text c r ihr => simp only [filterItems, h.1, if_true, ihr typ h.2]
  | elem sh sk r ihk ihr =>
    obtain ⟨h1, h2, h3, h4⟩ := h
    simp only [filterItems, h1, if_true, keepAttrs_all S _ _ _ h2, ihk _ h3, ihr _ h4]

theorem compatFilterT_all (ver : Nat) (h : Hdr) (kids : Items) (hc : AllCompat S ver h kids) :
    compatFilterT S ver h kids = some (h, kids) := by
  simp only [compatFilterT, keepAttrs_all S _ _ _ hc.1, filterItems_all S _ _ _ hc.2]

/-- part 3: if everything in the source is permitted in `ver`, the copy succeeds with any fuel above the nesting depth of the
content (`kids.size + 2`, which `opCopy` passes, is more than enough) and equals the source up to identities, parent links and
local file sets -/
theorem deepCopy_faithful (fuel : Nat) (h : Hdr) (kids : Items) (ver : Nat) (parent : PRef) (nid : Nat)
    (hc : AllCompat S ver h kids) (hf : kids.depth < fuel) :
    ∃ h' k' n', deepCopy S fuel h kids ver parent nid = some (h', k', n') ∧
      Items.shape (.elem h' k' .nil) = Items.shape (.elem h kids .nil) := by
  have hT : compatFilter S ver fuel h kids = some (h, kids) := by
    rw [compatFilter_eq_T S fuel h kids ver hf]; exact compatFilterT_all S ver h kids hc
  cases hd : deepCopy S fuel h kids ver parent nid with
  | none => rw [(deepCopy_none_iff S fuel h kids ver parent nid).mp hd] at hT; cases hT
  | some x =>
    obtain ⟨h', k', n'⟩ := x
    obtain ⟨fh, fk, h1, h2⟩ := deepCopy_shape S fuel h kids ver parent nid h' k' n' hd
    rw [hT] at h1
    cases h1
    exact ⟨h', k', n', rfl, h2⟩

theorem deepCopy_faithful_size (h : Hdr) (kids : Items) (ver : Nat) (parent : PRef) (nid : Nat) (hc : AllCompat S ver h kids) :
    ∃ h' k' n', deepCopy S (kids.size + 2) h kids ver parent nid = some (h', k', n') ∧
      Items.shape (.elem h' k' .nil) = Items.shape (.elem h kids .nil) :=
  deepCopy_faithful S _ h kids ver parent nid hc (by have := depth_lt_size kids; omega)


/-! ### `AllCompat` as a check -/

/-- `AttrsCompat` as a Boolean check -/
def attrsCompatB (typ ver : Nat) (attrs : List (Nat × CDv)) : Bool :=
  attrs.all fun a =>
    match S.findAttr typ a.1 with
    | some (cd, _, mask) => (mask &&& ver) != 0 && valueCompat a.2 (S.cspec cd) ver
    | none => false

/-- `ItemsCompat` as a Boolean check -/
def itemsCompatB (ver : Nat) (typ : Nat) : Items → Bool
  | .nil => true
  | .text c r => keepText S typ ver c && itemsCompatB ver typ r
  | .elem sh sk r => (S.findSub typ sh.name ver).isSome && attrsCompatB S sh.ety.typ ver sh.attrs &&
      itemsCompatB ver sh.ety.typ sk && itemsCompatB ver typ r

/-- `AllCompat` as a Boolean check -/
def allCompatB (ver : Nat) (h : Hdr) (kids : Items) : Bool :=
  attrsCompatB S h.ety.typ ver h.attrs && itemsCompatB S ver h.ety.typ kids

theorem attrsCompatB_sound (typ ver : Nat) (attrs : List (Nat × CDv)) (h : attrsCompatB S typ ver attrs = true) :
    AttrsCompat S typ ver attrs := by
  intro a ha
  have := List.all_eq_true.mp h a ha
  split at this
  · rename_i cd req mask hf
    simp only [Bool.and_eq_true, bne_iff_ne, ne_eq] at this
    exact ⟨cd, req, mask, hf, this.1, this.2⟩
  · cases this

theorem itemsCompatB_sound (ver typ : Nat) (its : Items) (h : itemsCompatB S ver typ its = true) : ItemsCompat S ver typ its := by
  induction its generalizing typ with
  | nil => trivial
  | text c r ihr =>
    simp only [itemsCompatB, Bool.and_eq_true] at h
    exact ⟨h.1, ihr typ h.2⟩
  | elem sh sk r ihk ihr =>
    simp only [itemsCompatB, Bool.and_eq_true] at h
    exact ⟨h.1.1.1, attrsCompatB_sound S _ _ _ h.1.1.2, ihk _ h.1.2, ihr _ h.2⟩

theorem allCompatB_sound (ver : Nat) (h : Hdr) (kids : Items) (hb : allCompatB S ver h kids = true) : AllCompat S ver h kids := by
  simp only [allCompatB, Bool.and_eq_true] at hb
  exact ⟨attrsCompatB_sound S _ _ _ hb.1, itemsCompatB_sound S _ _ _ hb.2⟩

/-! ### the filtered content validates: it contains only what `ver` permits -/

theorem keepAttrs_compat (typ ver : Nat) (attrs l : List (Nat × CDv)) (h : keepAttrs S typ ver attrs = some l) :
    AttrsCompat S typ ver l := by
  induction attrs generalizing l with
  | nil => simp only [keepAttrs, Option.some.injEq] at h; subst h; intro a ha; cases ha
  | cons a rest ih =>
    simp only [keepAttrs] at h
    split at h
    · cases h
    · rename_i cd req mask hf
      split at h
      · rename_i hok
        cases hr : keepAttrs S typ ver rest with
        | none => rw [hr] at h; cases h
        | some l' =>
          rw [hr] at h
          simp only [Option.map_some, Option.some.injEq] at h
          subst h
          intro b hb
          rcases List.mem_cons.mp hb with rfl | hb
          · exact ⟨cd, req, mask, hf, hok.1, hok.2⟩
          · exact ih l' hr b hb
      · split at h
        · cases h
        · exact ih l h

theorem filterItems_compat (ver typ : Nat) (its : Items) : ItemsCompat S ver typ (filterItems S ver typ its) := by
  induction its generalizing typ with
  | nil => trivial
  | text c r ihr =>
    simp only [filterItems]
    split
    · rename_i hk; exact ⟨hk, ihr typ⟩
    · exact ihr typ
  | elem sh sk r ihk ihr =>
    simp only [filterItems]
    split
    · rename_i hs
      split
      · rename_i attrs ha
        exact ⟨hs, keepAttrs_compat S _ _ _ _ ha, ihk _, ihr _⟩
      · exact ihr typ
    · exact ihr typ

/-- the version filter is a projection: what it returns contains only what `ver` permits -/
theorem compatFilterT_compat (ver : Nat) (h : Hdr) (kids : Items) (fh : Hdr) (fk : Items)
    (hc : compatFilterT S ver h kids = some (fh, fk)) : AllCompat S ver fh fk := by
  simp only [compatFilterT] at hc
  split at hc
  · cases hc
  · rename_i attrs ha
    simp only [Option.some.injEq, Prod.mk.injEq] at hc
    obtain ⟨rfl, rfl⟩ := hc
    exact ⟨keepAttrs_compat S _ _ _ _ ha, filterItems_compat S ver _ kids⟩

theorem itemsCompat_shape (ver typ : Nat) (its : Items) : ItemsCompat S ver typ its.shape ↔ ItemsCompat S ver typ its := by
  induction its generalizing typ with
  | nil => exact Iff.rfl
  | text c r ihr => simp only [shape_text, ItemsCompat, ihr]
  | elem sh sk r ihk ihr =>
    simp only [shape_elem, ItemsCompat, ihk, ihr]
    exact Iff.rfl

theorem allCompat_of_shape (ver : Nat) (h h' : Hdr) (k k' : Items)
    (e : Items.shape (.elem h' k' .nil) = Items.shape (.elem h k .nil)) : AllCompat S ver h' k' ↔ AllCompat S ver h k := by
  simp only [shape_elem, Items.elem.injEq] at e
  obtain ⟨e1, e2, _⟩ := e
  have a1 : h'.ety = h.ety := (congrArg Hdr.ety e1 : h'.shape.ety = h.shape.ety)
  have a2 : h'.attrs = h.attrs := (congrArg Hdr.attrs e1 : h'.shape.attrs = h.shape.attrs)
  simp only [AllCompat, a1, a2]
  rw [← itemsCompat_shape S ver h.ety.typ k', e2, itemsCompat_shape]

/-- "… and still validates": with enough fuel the copy contains only attributes, values, texts and sub-elements that `ver`
permits -/
theorem deepCopy_allCompat (fuel : Nat) (h : Hdr) (kids : Items) (ver : Nat) (parent : PRef) (nid : Nat) (h' : Hdr) (k' : Items) (n' : Nat)
    (hf : kids.depth < fuel) (hc : deepCopy S fuel h kids ver parent nid = some (h', k', n')) : AllCompat S ver h' k' := by
  obtain ⟨fh, fk, h1, h2⟩ := deepCopy_shape S fuel h kids ver parent nid h' k' n' hc
  rw [compatFilter_eq_T S fuel h kids ver hf] at h1
  exact (allCompat_of_shape S ver fh h' fk k' h2).mpr (compatFilterT_compat S ver h kids fh fk h1)

/-! ### `opCopy`: what a successful call went through -/

variable (V : Env)

/-- the renaming step of `opCopy`: the SHORT-NAME text of the copy is replaced by the first free `name`, `name_1`, … below the
destination; the flag says that an identifiable copy has no item name (`opCopy` fails) -/
def copyRename (idx : List (Bytes × Nat)) (path : Bytes) (nh : Hdr) (nk : Items) : Items × Bool :=
  if isIdentifiable S nh nk then
    match itemName S nh nk with
    | some orig =>
      let (nm, cnt) := uniqueName idx path orig (idx.length + 2) 0
      ((if cnt > 0 then setShortName nk nm else nk), false)
    | none => (nk, true)
  else (nk, false)

/-- everything a successful `opCopy S V w p x pos` went through -/
structure CopyOk (w : World) (p x : Nat) (pos : Option Nat) (k : Nat) (cp : List (Hdr × Items)) (ver : Nat) (xh : Hdr) (xkids : Items)
    (q : Nat) (nh : Hdr) (nk : Items) (n' : Nat) (nk1 : Items) (idx' : List (Bytes × Nat)) (rs' : List (Bytes × List Nat)) : Prop where
  ne : p ≠ x
  loc : locate w p = some (k, cp)
  minv : minVersion V (w.models[k]!) cp = some ver
  src : hdrOf w x = some (xh, xkids)
  range : ∃ lo hi, insertRange S (lastOf cp).1 (lastOf cp).2 xh.name ver = some (lo, hi) ∧ q = pos.getD hi ∧ lo ≤ q ∧ q ≤ hi
  notBelow : (cp.dropLast.any fun (h, _) => h.id = x) = false
  copy : deepCopy S (xkids.size + 2) xh xkids ver (.elem p) w.nextId = some (nh, nk, n')
  rename : copyRename S (w.models[k]!).index (pathOfChain S cp) nh nk = (nk1, false)
  reg : registerCopy S (nk1.size + 2) nh nk1 (namesOfChain S cp) (w.models[k]!).index (w.models[k]!).refs = (idx', rs')

/-- the destination model after a successful `opCopy` -/
def copyModel (m : Model) (p q : Nat) (nh : Hdr) (nk1 : Items) (idx' : List (Bytes × Nat)) (rs' : List (Bytes × List Nat)) : Model :=
  { m.setRoot (m.rootItems.modify p fun h0 k0 => (h0, k0.insertAt (fun r => .elem nh nk1 r) q)) with index := idx', refs := rs' }

/-- the world a successful `opCopy` returns -/
def copyWorld (w : World) (k p q : Nat) (nh : Hdr) (nk1 : Items) (n' : Nat) (idx' : List (Bytes × Nat)) (rs' : List (Bytes × List Nat)) : World :=
  { setModel w k (copyModel (w.models[k]!) p q nh nk1 idx' rs') with nextId := n' }

theorem opCopy_ok (w : World) (p x : Nat) (pos : Option Nat) (hok : (opCopy S V w p x pos).2 ≠ .err) :
    ∃ k cp ver xh xkids q nh nk n' nk1 idx' rs', CopyOk S V w p x pos k cp ver xh xkids q nh nk n' nk1 idx' rs' ∧
      opCopy S V w p x pos = (copyWorld w k p q nh nk1 n' idx' rs',
        .ok (" ".intercalate ((Items.elem nh nk1 .nil).ids.map fun i => s!"e{i}"))) := by
  revert hok
  fun_cases opCopy S V w p x pos
  all_goals try (intro h; exact absurd rfl h)
  rename_i hne k cp hloc m ver hver xh xkids hsrc ph pkids hlast lo hi hr q hq hnb nh nk n' hcopy path nk1 fail hren hfail idx' rs' hreg root' newIds
  intro _
  refine ⟨k, cp, ver, xh, xkids, q, nh, nk, n', nk1, idx', rs', ⟨hne, hloc, hver, hsrc, ⟨lo, hi, ?_, rfl, ?_, ?_⟩, ?_, hcopy, ?_, hreg⟩, rfl⟩
  · rw [hlast]; exact hr
  · exact (Decidable.not_not.mp hq).1
  · exact (Decidable.not_not.mp hq).2
  · simpa using hnb
  · have : fail = false := by simpa using hfail
    subst this
    rw [← hren]; rfl

/-! ### 5. the source is left unchanged -/

theorem Occ.ids_sub {h0 : Hdr} {k0 : Items} {its : Items} (h : Occ h0 k0 its) : ∀ t ∈ k0.ids, t ∈ its.ids := by
  induction its with
  | nil => exact h.elim
  | text c r ih => exact ih h
  | elem hd k r ihk ihr =>
    intro t ht
    simp only [Items.ids, List.mem_cons, List.mem_append]
    rcases h with ⟨_, rfl⟩ | h | h
    · exact Or.inr (Or.inl ht)
    · exact Or.inr (Or.inl (ihk h t ht))
    · exact Or.inr (Or.inr (ihr h t ht))

theorem occ_insertAt (h0 : Hdr) (k0 : Items) (nh : Hdr) (nk : Items) (its : Items) (q : Nat) (h : Occ h0 k0 its) :
    Occ h0 k0 (its.insertAt (fun r => .elem nh nk r) q) := by
  induction its generalizing q with
  | nil => exact h.elim
  | text c r ih =>
    cases q with
    | zero => exact Or.inr (Or.inr h)
    | succ q => exact ih q h
  | elem hd k r _ ihr =>
    cases q with
    | zero => exact Or.inr (Or.inr h)
    | succ q =>
      rcases h with h | h | h
      · exact Or.inl h
      · exact Or.inr (Or.inl h)
      · exact Or.inr (Or.inr (ihr q h))

/-- an edit of node `t` keeps every node that is not `t` and does not contain `t`, if it keeps the nodes below `t` -/
theorem occ_modify (h0 : Hdr) (k0 : Items) (t : Nat) (f : Hdr → Items → Hdr × Items)
    (hf : ∀ h k, Occ h0 k0 k → Occ h0 k0 (f h k).2) (hne : h0.id ≠ t) (hnot : t ∉ k0.ids)
    (its : Items) (h : Occ h0 k0 its) : Occ h0 k0 (its.modify t f) := by
  induction its with
  | nil => exact h.elim
  | text c r ih => exact ih h
  | elem hd k r ihk ihr =>
    simp only [Items.modify]
    split
    · rename_i heq
      rcases h with ⟨rfl, _⟩ | h | h
      · exact absurd heq hne
      · exact Or.inr (Or.inl (hf hd k h))
      · exact Or.inr (Or.inr (ihr h))
    · rcases h with ⟨rfl, rfl⟩ | h | h
      · exact Or.inl ⟨rfl, modify_not_mem t f k hnot⟩
      · exact Or.inr (Or.inl (ihk h))
      · exact Or.inr (Or.inr (ihr h))

theorem dropLast_cons_of_chain (t : Nat) (k : Items) (c : List (Hdr × Items)) (hc : k.chain t = some c) (a : Hdr × Items) :
    (a :: c).dropLast = a :: c.dropLast := by
  cases c with
  | nil => obtain ⟨_, _, hl, _⟩ := chain_last t k [] hc; simp at hl
  | cons b bs => rfl

/-- with unique ids, the chain from the top to a node inside the subtree of `h0` passes through `h0` -/
theorem chain_through (h0 : Hdr) (k0 : Items) (t : Nat) (its : Items) (hn : its.ids.Nodup) (ho : Occ h0 k0 its) (ht : t ∈ k0.ids)
    (c : List (Hdr × Items)) (hc : its.chain t = some c) : (c.dropLast.any fun (h, _) => h.id = h0.id) = true := by
  induction its generalizing c with
  | nil => exact ho.elim
  | text _ r ih => exact ih (by simpa [Items.ids] using hn) ho c hc
  | elem hd k r ihk ihr =>
    simp only [Items.ids, List.nodup_cons, List.nodup_append, List.mem_append, not_or] at hn
    obtain ⟨hn1, hnk, hnr, hdis⟩ := hn
    simp only [Items.chain] at hc
    rcases ho with ⟨rfl, rfl⟩ | ho | ho
    · have hne : ¬ hd.id = t := fun e => hn1.1 (e ▸ ht)
      rw [if_neg hne] at hc
      obtain ⟨c', hc'⟩ := chain_some_of_mem t k ht
      rw [hc'] at hc
      simp only [Option.some.injEq] at hc
      subst hc
      rw [dropLast_cons_of_chain t k c' hc']
      simp
    · have htk : t ∈ k.ids := ho.ids_sub t ht
      have hne : ¬ hd.id = t := fun e => hn1.1 (e ▸ htk)
      rw [if_neg hne] at hc
      obtain ⟨c', hc'⟩ := chain_some_of_mem t k htk
      rw [hc'] at hc
      simp only [Option.some.injEq] at hc
      subst hc
      rw [dropLast_cons_of_chain t k c' hc']
      simp only [List.any_cons, ihk hnk ho c' hc', Bool.or_true]
    · have htr : t ∈ r.ids := ho.ids_sub t ht
      have hne : ¬ hd.id = t := fun e => hn1.2 (e ▸ htr)
      rw [if_neg hne] at hc
      have : k.chain t = none := chain_none_of_not_mem t k (fun e => hdis t e t htr rfl)
      rw [this] at hc
      exact ihr hnr ho c hc


theorem copyModel_rootItems (m : Model) (p q : Nat) (nh : Hdr) (nk1 : Items) (idx' : List (Bytes × Nat)) (rs' : List (Bytes × List Nat)) :
    (copyModel m p q nh nk1 idx' rs').rootItems =
      m.rootItems.modify p (fun h0 k0 => (h0, k0.insertAt (fun r => .elem nh nk1 r) q)) :=
  rootItems_setRoot_modify m p _

theorem copyModel_fields (m : Model) (p q : Nat) (nh : Hdr) (nk1 : Items) (idx' : List (Bytes × Nat)) (rs' : List (Bytes × List Nat)) :
    (copyModel m p q nh nk1 idx' rs').files = m.files ∧ (copyModel m p q nh nk1 idx' rs').rootIssued = m.rootIssued ∧
    (copyModel m p q nh nk1 idx' rs').index = idx' ∧ (copyModel m p q nh nk1 idx' rs').refs = rs' :=
  ⟨(setRoot_modify_fields m p _).2.2.1, (setRoot_modify_fields m p _).2.2.2, rfl, rfl⟩

theorem copyWorld_get_self (w : World) (k p q : Nat) (nh : Hdr) (nk1 : Items) (n' : Nat) (idx' : List (Bytes × Nat))
    (rs' : List (Bytes × List Nat)) (hlt : k < w.models.length) :
    (copyWorld w k p q nh nk1 n' idx' rs').models[k]? = some (copyModel (w.models[k]!) p q nh nk1 idx' rs') := by
  simp only [copyWorld, setModel]
  rw [List.getElem?_set_self hlt]

theorem copyWorld_get_other (w : World) (k p q : Nat) (nh : Hdr) (nk1 : Items) (n' : Nat) (idx' : List (Bytes × Nat))
    (rs' : List (Bytes × List Nat)) (j : Nat) (hj : j ≠ k) :
    (copyWorld w k p q nh nk1 n' idx' rs').models[j]? = w.models[j]? := by
  simp only [copyWorld, setModel]
  rw [List.getElem?_set_ne (Ne.symm hj)]

theorem lt_of_getElem?_some {α : Type} (l : List α) (k : Nat) (a : α) (h : l[k]? = some a) : k < l.length := by
  rcases Nat.lt_or_ge k l.length with h' | h'
  · exact h'
  · rw [List.getElem?_eq_none h'] at h; cases h

/-- part 5a: a successful `opCopy` changes only the destination model (and `nextId`); in the destination model it changes only
the tree — by inserting the copy below `p` —, the index and the reference map -/
theorem opCopy_frame (w : World) (p x : Nat) (pos : Option Nat) (hok : (opCopy S V w p x pos).2 ≠ .err) :
    ∃ k cp m m' q nh nk1, locate w p = some (k, cp) ∧ w.models[k]? = some m ∧ (opCopy S V w p x pos).1.models[k]? = some m' ∧
      (∀ j, j ≠ k → (opCopy S V w p x pos).1.models[j]? = w.models[j]?) ∧
      (opCopy S V w p x pos).1.models.length = w.models.length ∧
      (opCopy S V w p x pos).1.dead = w.dead ∧ (opCopy S V w p x pos).1.nextFile = w.nextFile ∧
      (opCopy S V w p x pos).1.fileOwner = w.fileOwner ∧
      m'.files = m.files ∧ m'.rootIssued = m.rootIssued ∧
      m'.rootItems = m.rootItems.modify p (fun h0 k0 => (h0, k0.insertAt (fun r => .elem nh nk1 r) q)) := by
  obtain ⟨k, cp, ver, xh, xkids, q, nh, nk, n', nk1, idx', rs', hc, hres⟩ := opCopy_ok S V w p x pos hok
  obtain ⟨m, hm1, hm2, _, _⟩ := locate_chain w p k cp hc.loc
  have hlt : k < w.models.length := lt_of_getElem?_some _ _ _ hm1
  rw [hres]
  refine ⟨k, cp, m, copyModel m p q nh nk1 idx' rs', q, nh, nk1, hc.loc, hm1, ?_, ?_, ?_, rfl, rfl, rfl,
    (copyModel_fields ..).1, (copyModel_fields ..).2.1, copyModel_rootItems ..⟩
  · rw [← hm2]; exact copyWorld_get_self w k p q nh nk1 n' idx' rs' hlt
  · intro j hj; exact copyWorld_get_other w k p q nh nk1 n' idx' rs' j hj
  · simp [copyWorld, setModel]

/-- part 5b: the source node, with its whole content, is still there after a successful `opCopy` (`x` live, element ids unique
in every model): `opCopy` refuses `p = x` and `p` below `x`, which are the only destinations whose edit would touch the
subtree of `x` -/
theorem opCopy_source_kept (w : World) (p x : Nat) (pos : Option Nat) (hok : (opCopy S V w p x pos).2 ≠ .err)
    (kx : Nat) (cx : List (Hdr × Items)) (hx : locate w x = some (kx, cx)) (hnd : ∀ m ∈ w.models, m.rootItems.ids.Nodup) :
    hdrOf w x = some (lastOf cx) ∧ Occ (lastOf cx).1 (lastOf cx).2 (w.models[kx]!).rootItems ∧
      Occ (lastOf cx).1 (lastOf cx).2 ((opCopy S V w p x pos).1.models[kx]!).rootItems := by
  have hsrc : hdrOf w x = some (lastOf cx) := by simp only [hdrOf, hx]
  obtain ⟨mx, hx1, hx2, hx3, hx4⟩ := locate_chain w x kx cx hx
  obtain ⟨hocc, hid⟩ := chain_occ x mx.rootItems cx hx4
  refine ⟨hsrc, hx2 ▸ hocc, ?_⟩
  obtain ⟨k, cp, ver, xh, xkids, q, nh, nk, n', nk1, idx', rs', hc, hres⟩ := opCopy_ok S V w p x pos hok
  obtain ⟨m, hm1, hm2, hm3, hm4⟩ := locate_chain w p k cp hc.loc
  rw [hres]
  by_cases hk : kx = k
  · subst hk
    have hlt : kx < w.models.length := lt_of_getElem?_some _ _ _ hm1
    have hmm : mx = m := by rw [hx1] at hm1; exact Option.some.inj hm1
    subst hmm
    have : (copyWorld w kx p q nh nk1 n' idx' rs').models[kx]! = copyModel (w.models[kx]!) p q nh nk1 idx' rs' := by
      rw [getElem!_def, copyWorld_get_self w kx p q nh nk1 n' idx' rs' hlt]
    rw [this, copyModel_rootItems, hx2]
    refine occ_modify _ _ p _ (fun h k ho => occ_insertAt _ _ nh nk1 k q ho) (by rw [hid]; exact fun e => hc.ne e.symm) ?_ _ hocc
    intro hp
    have := chain_through _ _ p mx.rootItems (hnd mx hm3) hocc hp cp hm4
    rw [hid, hc.notBelow] at this
    cases this
  · have : (copyWorld w k p q nh nk1 n' idx' rs').models[kx]! = w.models[kx]! := by
      simp only [copyWorld, setModel, getElem!_def]
      rw [List.getElem?_set_ne (Ne.symm hk)]
    rw [this, hx2]
    exact hocc

/-! ### 6. registration -/

/-- insert a list of (path, id) pairs into the index, one after the other -/
def insertAll (idx : List (Bytes × Nat)) (es : List (Bytes × Nat)) : List (Bytes × Nat) :=
  es.foldl (fun ix e => idxInsert ix e.1 e.2) idx

/-- register a list of (target path, referrer) pairs in the reference map, one after the other -/
def addAll (rs : List (Bytes × List Nat)) (es : List (Bytes × Nat)) : List (Bytes × List Nat) :=
  es.foldl (fun r e => refsAdd r e.1 e.2) rs

theorem insertAll_append (idx : List (Bytes × Nat)) (a b : List (Bytes × Nat)) :
    insertAll idx (a ++ b) = insertAll (insertAll idx a) b := by simp [insertAll, List.foldl_append]

theorem addAll_append (rs : List (Bytes × List Nat)) (a b : List (Bytes × Nat)) :
    addAll rs (a ++ b) = addAll (addAll rs a) b := by simp [addAll, List.foldl_append]

theorem joinPath_snoc (pre : List Bytes) (n : Bytes) : joinPath (pre ++ [n]) = joinPath pre ++ 47 :: n := by
  simp only [joinPath, List.foldl_append, List.foldl_cons, List.foldl_nil]
  rw [List.append_assoc]; rfl

/-- under the SHORT-NAME discipline an identifiable element has an item name -/
theorem itemName_of_identifiable (h : Hdr) (k : Items) (hk : kidsOk S h k) (hi : isIdentifiable S h k = true) :
    ∃ n, itemName S h k = some n := by
  have hf : firstIsSn S k := by
    unfold isIdentifiable at hi
    cases k with
    | nil => simp at hi
    | text _ _ => simp at hi
    | elem sh sk r => simp only [Bool.and_eq_true, beq_iff_eq] at hi; exact hi.2
  obtain ⟨_, n, _, _, _, hn, _⟩ := (itemName_of_kidsOk S h k hk).1 hf
  exact ⟨n, hn⟩

/-- the step of the inner fold of `registerCopy` -/
def regStep (fuel : Nat) (pre' : List Bytes) (acc : List (Bytes × Nat) × List (Bytes × List Nat)) (ch : Hdr × Items) :
    List (Bytes × Nat) × List (Bytes × List Nat) :=
  registerCopy S fuel ch.1 ch.2 pre' acc.1 acc.2

/-- the names handed down to the content of a node -/
def regPre (h : Hdr) (k : Items) (pre : List Bytes) : List Bytes :=
  match itemName S h k with
  | some n => pre ++ [n]
  | none => pre

theorem joinPath_regPre (h : Hdr) (k : Items) (pre : List Bytes) : joinPath (regPre S h k pre) = kidPre S h k (joinPath pre) := by
  unfold regPre kidPre
  cases itemName S h k with
  | none => rfl
  | some n => exact joinPath_snoc pre n

theorem registerCopy_succ (fuel : Nat) (h : Hdr) (kids : Items) (pre : List Bytes) (idx : List (Bytes × Nat))
    (rs : List (Bytes × List Nat)) (hk : kidsOk S h kids) :
    registerCopy S (fuel + 1) h kids pre idx rs =
      kids.childElems.foldl (regStep S fuel (regPre S h kids pre))
        (insertAll idx (ownEntry S h kids (joinPath pre)), addAll rs (refOf S h kids)) := by
  rw [registerCopy]
  have hr : addAll rs (refOf S h kids) = (if S.isRef h.ety.typ then
        match charData S h kids with
        | some (.str r) => refsAdd rs r h.id
        | _ => rs
      else rs) := by
    unfold refOf
    split
    · cases hc : charData S h kids with
      | none => rfl
      | some v => cases v <;> rfl
    · rfl
  rw [hr]
  cases hi : isIdentifiable S h kids with
  | true =>
    obtain ⟨n, hn⟩ := itemName_of_identifiable S h kids hk hi
    simp only [regPre, ownEntry, hn, if_true, insertAll, List.foldl_cons, List.foldl_nil, joinPath_snoc]
    rfl
  | false =>
    have hn : itemName S h kids = none := by
      cases hn : itemName S h kids with
      | none => rfl
      | some n => rw [itemName_some_identifiable S h kids n hn] at hi; cases hi
    simp only [regPre, ownEntry, hn, insertAll, List.foldl_nil]
    rfl


/-- the statement about one call of `registerCopy`, for a given amount of fuel -/
def RegSpec (fuel : Nat) : Prop :=
  ∀ (h : Hdr) (kids : Items) (pre : List Bytes) (idx : List (Bytes × Nat)) (rs : List (Bytes × List Nat)),
    kidsOk S h kids → SnOk S kids → kids.size + 1 ≤ fuel →
    registerCopy S fuel h kids pre idx rs =
      (insertAll idx (entries S (.elem h kids .nil) (joinPath pre)), addAll rs (refEntries S (.elem h kids .nil)))

theorem regFold (fuel : Nat) (IH : RegSpec S fuel) (pre' : List Bytes) (ks : Items) :
    ∀ (idx : List (Bytes × Nat)) (rs : List (Bytes × List Nat)), SnOk S ks → ks.size ≤ fuel →
      ks.childElems.foldl (regStep S fuel pre') (idx, rs) =
        (insertAll idx (entries S ks (joinPath pre')), addAll rs (refEntries S ks)) := by
  induction ks with
  | nil => intro idx rs _ _; rfl
  | text c r ih =>
    intro idx rs hs hf
    simp only [Items.size] at hf
    exact ih idx rs hs (by omega)
  | elem h k r _ ihr =>
    intro idx rs hs hf
    simp only [Items.size] at hf
    have hr := size_pos r
    obtain ⟨hko, hsk, hsr⟩ := hs
    simp only [Items.childElems, List.foldl_cons, regStep]
    rw [IH h k pre' idx rs hko hsk (by omega)]
    have := ihr (insertAll idx (entries S (.elem h k .nil) (joinPath pre'))) (addAll rs (refEntries S (.elem h k .nil))) hsr (by omega)
    rw [this, entries_elem_split S h k r, refEntries_elem_split S h k r, insertAll_append, addAll_append]

theorem regSpec_all (fuel : Nat) : RegSpec S fuel := by
  induction fuel with
  | zero => intro h kids pre idx rs _ _ hf; have := size_pos kids; omega
  | succ fuel ih =>
    intro h kids pre idx rs hk hs hf
    rw [registerCopy_succ S fuel h kids pre idx rs hk,
      regFold S fuel ih _ kids _ _ hs (by omega), joinPath_regPre, entries_elem_nil, insertAll_append]
    simp only [refEntries, List.append_nil, addAll_append]

/-- part 6 (index): with enough fuel `registerCopy` inserts exactly the index entries of the copy, in document order, below
the path of the destination -/
theorem registerCopy_index (fuel : Nat) (h : Hdr) (kids : Items) (pre : List Bytes) (idx : List (Bytes × Nat))
    (rs : List (Bytes × List Nat)) (hk : kidsOk S h kids) (hs : SnOk S kids) (hf : kids.size + 1 ≤ fuel) :
    (registerCopy S fuel h kids pre idx rs).1 = insertAll idx (entries S (.elem h kids .nil) (joinPath pre)) := by
  rw [regSpec_all S fuel h kids pre idx rs hk hs hf]

/-- part 6 (references): … and registers exactly the reference elements of the copy, in document order -/
theorem registerCopy_refs (fuel : Nat) (h : Hdr) (kids : Items) (pre : List Bytes) (idx : List (Bytes × Nat))
    (rs : List (Bytes × List Nat)) (hk : kidsOk S h kids) (hs : SnOk S kids) (hf : kids.size + 1 ≤ fuel) :
    (registerCopy S fuel h kids pre idx rs).2 = addAll rs (refEntries S (.elem h kids .nil)) := by
  rw [regSpec_all S fuel h kids pre idx rs hk hs hf]


/-! ### fresh keys: registration appends -/

theorem idxGet_none_iff (idx : List (Bytes × Nat)) (p : Bytes) : idxGet idx p = none ↔ p ∉ idx.map (·.1) := by
  induction idx with
  | nil => simp [idxGet]
  | cons e es ih =>
    by_cases he : e.1 = p
    · simp [idxGet, he]
    · have hb : (e.1 == p) = false := by simpa using he
      simp only [idxGet, List.find?_cons, hb, List.map_cons, List.mem_cons, not_or] at ih ⊢
      rw [ih]
      exact ⟨fun h => ⟨fun e' => he e'.symm, h⟩, fun h => h.2⟩

theorem idxInsert_fresh (idx : List (Bytes × Nat)) (p : Bytes) (id : Nat) (h : p ∉ idx.map (·.1)) :
    idxInsert idx p id = idx ++ [(p, id)] := by
  unfold idxInsert
  rw [if_neg]
  intro hany
  apply h
  obtain ⟨e, he, hep⟩ := List.any_eq_true.mp hany
  exact List.mem_map.mpr ⟨e, he, by simpa using hep⟩

theorem insertAll_fresh (es : List (Bytes × Nat)) : ∀ (idx : List (Bytes × Nat)), keysNodupI es →
    (∀ e ∈ es, e.1 ∉ idx.map (·.1)) → insertAll idx es = idx ++ es := by
  induction es with
  | nil => intro idx _ _; simp [insertAll]
  | cons e rest ih =>
    intro idx hn hf
    simp only [keysNodupI, List.map_cons, List.nodup_cons] at hn
    have h1 : insertAll idx (e :: rest) = insertAll (idxInsert idx e.1 e.2) rest := rfl
    rw [h1, idxInsert_fresh idx e.1 e.2 (hf e List.mem_cons_self), ih _ hn.2, List.append_assoc]
    · rfl
    · intro x hx
      rw [List.map_append, List.mem_append, not_or]
      refine ⟨hf x (List.mem_cons_of_mem _ hx), ?_⟩
      simp only [List.map_cons, List.map_nil, List.mem_singleton]
      intro e'
      exact hn.1 (e' ▸ List.mem_map.mpr ⟨x, hx, rfl⟩)

/-- part 6 as stated: if the paths of the copy are new to the index and pairwise different, the index after `registerCopy`
is the old index followed by the entries of the copy (in document order) -/
theorem registerCopy_index_fresh (fuel : Nat) (h : Hdr) (kids : Items) (pre : List Bytes) (idx : List (Bytes × Nat))
    (rs : List (Bytes × List Nat)) (hk : kidsOk S h kids) (hs : SnOk S kids) (hf : kids.size + 1 ≤ fuel)
    (hn : keysNodupI (entries S (.elem h kids .nil) (joinPath pre)))
    (hfresh : ∀ e ∈ entries S (.elem h kids .nil) (joinPath pre), idxGet idx e.1 = none) :
    (registerCopy S fuel h kids pre idx rs).1 = idx ++ entries S (.elem h kids .nil) (joinPath pre) := by
  rw [registerCopy_index S fuel h kids pre idx rs hk hs hf]
  exact insertAll_fresh _ idx hn (fun e he => (idxGet_none_iff idx e.1).mp (hfresh e he))


/-! ### the copy obeys the SHORT-NAME discipline -/

theorem kidsOk_of_noSnTop (h : Hdr) (k : Items) (hk : noSnTop S k) : kidsOk S h k := by
  cases k with
  | nil => trivial
  | text _ r => exact hk
  | elem sh sk r => exact ⟨fun e => absurd e hk.1, hk.2⟩

theorem valueCompat_stringLike (v : CDv) (sp : CSpec) (ver : Nat) (h : sp.stringLike = true) : valueCompat v sp ver = true := by
  cases sp <;> first | rfl | cases h

/-- a proper SHORT-NAME is copied with its text -/
theorem deepCopy_properSn (fuel : Nat) (sh : Hdr) (sk : Items) (ver : Nat) (parent : PRef) (nid : Nat) (ch : Hdr) (ck : Items) (n1 : Nat)
    (hp : properSn S sh sk) (hc : deepCopy S fuel sh sk ver parent nid = some (ch, ck, n1)) : ck = sk := by
  obtain ⟨_, _, ⟨sp, hsp, hsl⟩, n, rfl, _⟩ := hp
  cases fuel with
  | zero => simp [deepCopy] at hc
  | succ f =>
    rw [deepCopy_succ] at hc
    split at hc
    · cases hc
    · simp only [Option.some.injEq, Prod.mk.injEq] at hc
      obtain ⟨_, rfl, _⟩ := hc
      rw [go_text, go_nil]
      have : keepText S sh.ety.typ ver (.str n) = true := by
        simp only [keepText, hsp]; exact valueCompat_stringLike _ sp ver hsl
      simp only [this, if_true]

theorem go_noSnTop (h : Hdr) (ver myId f : Nat) (its : Items) (n : Nat) (hk : noSnTop S its) :
    noSnTop S (deepCopy.go S h ver myId f its n).1 := by
  induction its generalizing n with
  | nil => rw [go_nil]; trivial
  | text c r ihr =>
    rw [go_text]
    split
    · exact ihr n hk
    · exact ihr n hk
  | elem sh sk r _ ihr =>
    rw [go_elem]
    split
    · cases hd : deepCopy S f sh sk ver (.elem myId) n with
      | none => exact ihr n hk.2
      | some x =>
        obtain ⟨ch, ck, n1⟩ := x
        obtain ⟨_, _, hname, _⟩ := deepCopy_head S f sh sk ver _ n ch ck n1 hd
        exact ⟨hname ▸ hk.1, ihr n1 hk.2⟩
    · exact ihr n hk.2

theorem go_snOk (h : Hdr) (ver myId f : Nat)
    (ih : ∀ (sh : Hdr) (sk : Items) (parent : PRef) (nid : Nat) (h' : Hdr) (k' : Items) (n' : Nat), kidsOk S sh sk → SnOk S sk →
      deepCopy S f sh sk ver parent nid = some (h', k', n') → kidsOk S h' k' ∧ SnOk S k')
    (its : Items) (n : Nat) (hs : SnOk S its) : SnOk S (deepCopy.go S h ver myId f its n).1 := by
  induction its generalizing n with
  | nil => rw [go_nil]; trivial
  | text c r ihr =>
    rw [go_text]
    split
    · exact ihr n hs
    · exact ihr n hs
  | elem sh sk r _ ihr =>
    rw [go_elem]
    split
    · cases hd : deepCopy S f sh sk ver (.elem myId) n with
      | none => exact ihr n hs.2.2
      | some x =>
        obtain ⟨ch, ck, n1⟩ := x
        obtain ⟨a, b⟩ := ih sh sk _ n ch ck n1 hs.1 hs.2.1 hd
        exact ⟨a, b, ihr n1 hs.2.2⟩
    · exact ihr n hs.2.2

theorem go_kidsOk (h : Hdr) (ver myId f : Nat) (its : Items) (n : Nat) (hk : kidsOk S h its) :
    kidsOk S h (deepCopy.go S h ver myId f its n).1 := by
  cases its with
  | nil => rw [go_nil]; trivial
  | text c r =>
    rw [go_text]
    have := go_noSnTop S h ver myId f r n hk
    split
    · exact this
    · exact kidsOk_of_noSnTop S h _ this
  | elem sh sk r =>
    rw [go_elem]
    split
    · cases hd : deepCopy S f sh sk ver (.elem myId) n with
      | none => exact kidsOk_of_noSnTop S h _ (go_noSnTop S h ver myId f r n hk.2)
      | some x =>
        obtain ⟨ch, ck, n1⟩ := x
        obtain ⟨_, _, hname, hety, _⟩ := deepCopy_head S f sh sk ver _ n ch ck n1 hd
        refine ⟨fun e => ?_, go_noSnTop S h ver myId f r n1 hk.2⟩
        obtain ⟨h1, h2⟩ := hk.1 (hname ▸ e)
        have := deepCopy_properSn S f sh sk ver _ n ch ck n1 h2 hd
        subst this
        rw [hety]
        exact ⟨h1, (properSn_hdr S sh ch ck hety).mpr h2⟩
    · exact kidsOk_of_noSnTop S h _ (go_noSnTop S h ver myId f r n hk.2)

/-- the copy of a subtree that obeys the SHORT-NAME discipline obeys it -/
theorem deepCopy_snOk (fuel : Nat) : ∀ (h : Hdr) (kids : Items) (ver : Nat) (parent : PRef) (nid : Nat) (h' : Hdr) (k' : Items) (n' : Nat),
    kidsOk S h kids → SnOk S kids → deepCopy S fuel h kids ver parent nid = some (h', k', n') → kidsOk S h' k' ∧ SnOk S k' := by
  induction fuel with
  | zero => intro h kids ver parent nid h' k' n' _ _ hc; simp [deepCopy] at hc
  | succ f ih =>
    intro h kids ver parent nid h' k' n' hk hs hc
    rw [deepCopy_succ] at hc
    split at hc
    · cases hc
    · simp only [Option.some.injEq, Prod.mk.injEq] at hc
      obtain ⟨rfl, rfl, _⟩ := hc
      exact ⟨(kidsOk_hdr S h _ _ rfl).mpr (go_kidsOk S h ver nid f kids _ hk),
        go_snOk S h ver nid f (fun sh sk p n a b c => ih sh sk ver p n a b c) kids _ hs⟩

/-! ### `make_unique_item_name` -/

theorem toDec_val (n : Nat) : CData.digitsVal 10 (CData.toDec n) 0 = some n := by
  obtain ⟨k, hk⟩ := CData.toDecAux_digits (n + 1) n [] (CData.lt_ten_pow_succ n)
  have := hk 0
  simpa [CData.toDec, CData.digitsVal] using this

theorem toDec_inj (a b : Nat) (h : CData.toDec a = CData.toDec b) : a = b := by
  have ha := toDec_val a
  rw [h, toDec_val b] at ha
  exact (Option.some.inj ha).symm

theorem toDecAux_mem (fuel n : Nat) (acc : Bytes) (b : UInt8) (hb : b ∈ CData.toDecAux fuel n acc) :
    b ∈ acc ∨ (48 ≤ b.toNat ∧ b.toNat ≤ 57) := by
  induction fuel generalizing n acc with
  | zero => exact Or.inl hb
  | succ fuel ih =>
    simp only [CData.toDecAux] at hb
    have hd : (UInt8.ofNat (48 + n % 10)).toNat = 48 + n % 10 := by
      simp [UInt8.toNat_ofNat']; omega
    split at hb
    · rcases List.mem_cons.mp hb with rfl | hb
      · right; rw [hd]; omega
      · exact Or.inl hb
    · rcases ih _ _ hb with hb | hb
      · rcases List.mem_cons.mp hb with rfl | hb
        · right; rw [hd]; omega
        · exact Or.inl hb
      · exact Or.inr hb

theorem toDec_no_slash (n : Nat) : (47 : UInt8) ∉ CData.toDec n := by
  intro h
  rcases toDecAux_mem _ _ _ _ h with h | h
  · cases h
  · simp at h

/-- the `c`-th candidate name -/
def candName (orig : Bytes) (c : Nat) : Bytes := if c = 0 then orig else orig ++ [95] ++ CData.toDec c

theorem candName_inj (orig : Bytes) (a b : Nat) (h : candName orig a = candName orig b) : a = b := by
  unfold candName at h
  split at h <;> split at h
  · omega
  · have := congrArg List.length h; simp at this
  · have := congrArg List.length h; simp at this
  · rw [List.append_assoc, List.append_assoc] at h
    have := List.append_cancel_left h
    simp only [List.cons_append, List.nil_append, List.cons.injEq, true_and] at this
    exact toDec_inj a b this

theorem candName_no_slash (orig : Bytes) (c : Nat) (h : 47 ∉ orig) : 47 ∉ candName orig c := by
  unfold candName
  split
  · exact h
  · simp only [List.mem_append, List.mem_singleton, not_or]
    exact ⟨⟨h, by decide⟩, toDec_no_slash c⟩

theorem uniqueName_zero (idx : List (Bytes × Nat)) (path orig : Bytes) (c : Nat) (hc : c ≠ 0) :
    uniqueName idx path orig 0 c = (candName orig c, c) := by
  simp only [uniqueName, candName, hc, if_false]

theorem uniqueName_succ (idx : List (Bytes × Nat)) (path orig : Bytes) (f c : Nat) :
    uniqueName idx path orig (f + 1) c =
      if (idxGet idx (path ++ [47] ++ candName orig c)).isSome then uniqueName idx path orig f (c + 1)
      else (candName orig c, c) := rfl

theorem uniqueName_spec (idx : List (Bytes × Nat)) (path orig : Bytes) (fuel : Nat) : ∀ (c : Nat), (c = 0 → 0 < fuel) →
    (uniqueName idx path orig fuel c).1 = candName orig (uniqueName idx path orig fuel c).2 ∧
    c ≤ (uniqueName idx path orig fuel c).2 ∧ (uniqueName idx path orig fuel c).2 ≤ c + fuel ∧
    (∀ j, c ≤ j → j < (uniqueName idx path orig fuel c).2 → idxGet idx (path ++ [47] ++ candName orig j) ≠ none) ∧
    ((uniqueName idx path orig fuel c).2 < c + fuel → idxGet idx (path ++ [47] ++ (uniqueName idx path orig fuel c).1) = none) := by
  induction fuel with
  | zero =>
    intro c hc
    have : c ≠ 0 := fun e => by have := hc e; omega
    rw [uniqueName_zero idx path orig c this]
    exact ⟨rfl, Nat.le_refl _, Nat.le_refl _, fun j h1 h2 => by omega, fun h => by omega⟩
  | succ f ih =>
    intro c _
    rw [uniqueName_succ]
    by_cases hsome : (idxGet idx (path ++ [47] ++ candName orig c)).isSome = true
    · rw [if_pos hsome]
      obtain ⟨h1, h2, h3, h4, h5⟩ := ih (c + 1) (by omega)
      refine ⟨h1, by omega, by omega, ?_, fun h => h5 (by omega)⟩
      intro j hj1 hj2
      by_cases hjc : j = c
      · subst hjc
        intro hn
        rw [hn] at hsome
        cases hsome
      · exact h4 j (by omega) hj2
    · rw [if_neg hsome]
      refine ⟨rfl, Nat.le_refl _, by omega, fun j h1 h2 => by omega, fun _ => ?_⟩
      cases hg : idxGet idx (path ++ [47] ++ candName orig c) with
      | none => rfl
      | some v => rw [hg] at hsome; simp at hsome

/-- `make_unique_item_name` with the fuel `opCopy` passes returns a name that is not in the index -/
theorem uniqueName_fresh (idx : List (Bytes × Nat)) (path orig : Bytes) :
    idxGet idx (path ++ [47] ++ (uniqueName idx path orig (idx.length + 2) 0).1) = none ∧
    (uniqueName idx path orig (idx.length + 2) 0).1 = candName orig (uniqueName idx path orig (idx.length + 2) 0).2 := by
  obtain ⟨h1, _, h3, h4, h5⟩ := uniqueName_spec idx path orig (idx.length + 2) 0 (by omega)
  refine ⟨?_, h1⟩
  apply h5
  rcases Nat.lt_or_ge (uniqueName idx path orig (idx.length + 2) 0).2 (0 + (idx.length + 2)) with h | h
  · exact h
  · exfalso
    -- pigeonhole: idx.length + 2 pairwise different keys in a list of idx.length keys
    let ks := (List.range (idx.length + 2)).map fun j => path ++ [47] ++ candName orig j
    have hnd : ks.Nodup := by
      refine List.Pairwise.map _ ?_ (List.nodup_range (n := idx.length + 2))
      intro a b hab e
      exact hab (candName_inj orig a b (List.append_cancel_left e))
    have hsub : ks ⊆ idx.map (·.1) := by
      intro q hq
      obtain ⟨j, hj, rfl⟩ := List.mem_map.mp hq
      have := h4 j (Nat.zero_le _) (by have := List.mem_range.mp hj; omega)
      cases hg : idxGet idx (path ++ [47] ++ candName orig j) with
      | none => exact absurd hg this
      | some v =>
        cases hx : decide ((path ++ [47] ++ candName orig j) ∈ idx.map (·.1)) with
        | true => exact of_decide_eq_true hx
        | false =>
          rw [(idxGet_none_iff idx _).mpr (of_decide_eq_false hx)] at hg
          cases hg
    have := List.Nodup.length_le_of_subset hnd hsub
    simp only [ks, List.length_map, List.length_range] at this
    omega


/-- the content of the copy after the renaming step: unchanged if the copy has no item name; otherwise its SHORT-NAME text is
replaced by a name `nm` without '/' under which the destination has no index entry -/
theorem copyRename_spec (idx : List (Bytes × Nat)) (path : Bytes) (nh : Hdr) (nk nk1 : Items) (hk : kidsOk S nh nk)
    (hr : copyRename S idx path nh nk = (nk1, false)) :
    (itemName S nh nk = none ∧ nk1 = nk) ∨
    ∃ sh orig rest nm, nk = .elem sh (.text (.str orig) .nil) rest ∧ sh.name = S.nmShortName ∧ itemName S nh nk = some orig ∧
      nk1 = .elem sh (.text (.str nm) .nil) rest ∧ 47 ∉ nm ∧ idxGet idx (path ++ [47] ++ nm) = none := by
  unfold copyRename at hr
  cases hi : isIdentifiable S nh nk with
  | false =>
    rw [hi] at hr
    simp only [Bool.false_eq_true, if_false, Prod.mk.injEq, and_true] at hr
    left
    refine ⟨?_, hr.symm⟩
    cases hn : itemName S nh nk with
    | none => rfl
    | some n => rw [itemName_some_identifiable S nh nk n hn] at hi; cases hi
  | true =>
    rw [hi] at hr
    simp only [if_true] at hr
    have hf : firstIsSn S nk := by
      unfold isIdentifiable at hi
      cases nk with
      | nil => simp at hi
      | text _ _ => simp at hi
      | elem sh sk r => simp only [Bool.and_eq_true, beq_iff_eq] at hi; exact hi.2
    obtain ⟨sh, orig, rest, hnk, hsn, hin, hslash⟩ := (itemName_of_kidsOk S nh nk hk).1 hf
    rw [hin] at hr
    simp only [Prod.mk.injEq, and_true] at hr
    obtain ⟨hfresh, hcand⟩ := uniqueName_fresh idx path orig
    right
    refine ⟨sh, orig, rest, (uniqueName idx path orig (idx.length + 2) 0).1, hnk, hsn, hin, ?_, ?_, hfresh⟩
    · rw [← hr]
      split
      · rw [hnk]; rfl
      · rename_i h0
        have h0' : (uniqueName idx path orig (idx.length + 2) 0).2 = 0 := by omega
        rw [hcand, h0', hnk]
        rfl
    · rw [hcand]; exact candName_no_slash orig _ hslash


/-! ### the content of a named node, and the same content with another SHORT-NAME text -/

/-- entries of a node with item name `n` whose content starts with the SHORT-NAME `sh`: its own entry, then the entries of the
rest of its content -/
theorem entries_named (nh sh : Hdr) (n : Bytes) (rest : Items) (hk : kidsOk S nh (.elem sh (.text (.str n) .nil) rest))
    (hsn : sh.name = S.nmShortName) (pre : Bytes) :
    entries S (.elem nh (.elem sh (.text (.str n) .nil) rest) .nil) pre =
      (pre ++ 47 :: n, nh.id) :: entries S rest (pre ++ 47 :: n) := by
  obtain ⟨sh', n', rest', he, _, hin, _⟩ := (itemName_of_kidsOk S nh _ hk).1 hsn
  simp only [Items.elem.injEq, Items.text.injEq, CDv.str.injEq, and_true] at he
  obtain ⟨rfl, rfl, rfl⟩ := he
  have hsh : itemName S sh (.text (.str n) .nil) = none := itemName_none_of_not_sn S sh _ id
  rw [entries_elem_some S nh _ .nil pre n hin, entries_elem_none S sh _ rest _ hsh]
  simp only [entries, List.append_nil, List.nil_append]

theorem kidsOk_retext (nh sh : Hdr) (n nm : Bytes) (rest : Items) (hk : kidsOk S nh (.elem sh (.text (.str n) .nil) rest))
    (hnm : 47 ∉ nm) : kidsOk S nh (.elem sh (.text (.str nm) .nil) rest) := by
  refine ⟨fun e => ?_, hk.2⟩
  obtain ⟨h1, h2, h3, h4, _⟩ := hk.1 e
  exact ⟨h1, h2, h3, h4, nm, rfl, hnm⟩

theorem snOk_retext (sh : Hdr) (n nm : Bytes) (rest : Items) (hs : SnOk S (.elem sh (.text (.str n) .nil) rest)) :
    SnOk S (.elem sh (.text (.str nm) .nil) rest) := ⟨trivial, trivial, hs.2.2⟩

theorem keysNodupI_map_prefix (pre : Bytes) (l : List (Bytes × Nat)) :
    keysNodupI (l.map fun e => (pre ++ e.1, e.2)) ↔ keysNodupI l := by
  unfold keysNodupI
  rw [List.map_map]
  have : ((fun x : Bytes × Nat => x.1) ∘ fun e : Bytes × Nat => (pre ++ e.1, e.2)) = (fun b => pre ++ b) ∘ (fun x : Bytes × Nat => x.1) := rfl
  rw [this, ← List.map_map]
  constructor
  · exact fun h => List.Pairwise.of_map _ (fun a b hab e => hab (e ▸ rfl)) h
  · intro h
    refine List.Pairwise.map _ ?_ h
    intro a b hab e
    exact hab (List.append_cancel_left e)

/-- whether the paths of a forest are pairwise different does not depend on the prefix -/
theorem keysNodupI_entries_prefix (its : Items) (pre : Bytes) : keysNodupI (entries S its pre) ↔ keysNodupI (entries S its []) := by
  rw [entries_prefix S its pre]; exact keysNodupI_map_prefix pre _

/-- the paths of a named node are pairwise different iff those of the rest of its content are -/
theorem keysNodupI_named (nh sh : Hdr) (n : Bytes) (rest : Items) (hk : kidsOk S nh (.elem sh (.text (.str n) .nil) rest))
    (hsn : sh.name = S.nmShortName) (pre : Bytes) :
    keysNodupI (entries S (.elem nh (.elem sh (.text (.str n) .nil) rest) .nil) pre) ↔ keysNodupI (entries S rest []) := by
  rw [entries_named S nh sh n rest hk hsn pre, ← keysNodupI_entries_prefix S rest (pre ++ 47 :: n)]
  unfold keysNodupI
  rw [List.map_cons, List.nodup_cons]
  constructor
  · exact fun h => h.2
  · intro h
    refine ⟨?_, h⟩
    intro hm
    obtain ⟨⟨q, i⟩, hqi, hq⟩ := List.mem_map.mp hm
    obtain ⟨s, hs⟩ := entries_key_shape S rest _ q i hqi
    simp only at hq
    rw [hs] at hq
    have := congrArg List.length hq
    simp at this


/-! ### no index entry at or below an unused path -/

theorem joinPath_head (names : List Bytes) : joinPath names = [] ∨ (joinPath names).head? = some 47 := by
  have : ∀ (l : List Bytes) (acc : Bytes), (acc = [] ∨ acc.head? = some 47) →
      (l.foldl (fun acc n => acc ++ [47] ++ n) acc = [] ∨ (l.foldl (fun acc n => acc ++ [47] ++ n) acc).head? = some 47) := by
    intro l
    induction l with
    | nil => intro acc h; exact h
    | cons n ns ih =>
      intro acc h
      apply ih
      right
      rcases h with rfl | h
      · rfl
      · cases acc with
        | nil => cases h
        | cons a as => simpa using h
  exact this names [] (Or.inl rfl)

theorem pathOfChain_head (c : List (Hdr × Items)) : pathOfChain S c = [] ∨ (pathOfChain S c).head? = some 47 :=
  joinPath_head _

theorem head_path_name (path nm : Bytes) (hp : path = [] ∨ path.head? = some 47) : (path ++ 47 :: nm).head? = some 47 := by
  rcases hp with rfl | hp
  · rfl
  · cases path with
    | nil => cases hp
    | cons a as => simpa using hp

variable (vOk : Nat)

/-- in a model that satisfies the invariant, there is no index entry at or below a path that has no index entry -/
theorem idxGet_none_under {nid : Nat} {m : Model} (hm : MInv S vOk nid m) (P : Bytes) (hP : P.head? = some 47)
    (hfree : idxGet m.index P = none) (q s : Bytes) (hs : pathSuffix P q = some s) : idxGet m.index q = none := by
  cases hq : idxGet m.index q with
  | none => rfl
  | some i =>
    exfalso
    have hmem := (hm.exact q i).mp hq
    have hne : P ≠ [] := by intro e; rw [e] at hP; cases hP
    have hpre : pathSuffix [] P = some P := by
      have := pathSuffix_append [] P (Or.inr hP)
      simpa using this
    obtain ⟨j, hj⟩ := entries_prefix_closed S m.rootItems hm.sn [] P q i hmem s hs P hpre hne
    rw [(hm.exact P j).mpr hj] at hfree
    cases hfree

/-- the entries of a named node lie at or below its path -/
theorem entries_named_under (nh sh : Hdr) (n : Bytes) (rest : Items) (hk : kidsOk S nh (.elem sh (.text (.str n) .nil) rest))
    (hsn : sh.name = S.nmShortName) (pre : Bytes) (e : Bytes × Nat)
    (he : e ∈ entries S (.elem nh (.elem sh (.text (.str n) .nil) rest) .nil) pre) :
    ∃ s, pathSuffix (pre ++ 47 :: n) e.1 = some s := by
  rw [entries_named S nh sh n rest hk hsn pre] at he
  rcases List.mem_cons.mp he with rfl | he
  · exact ⟨[], pathSuffix_self _⟩
  · obtain ⟨u, hu⟩ := entries_key_shape S rest _ e.1 e.2 he
    exact ⟨47 :: u, by rw [hu]; exact pathSuffix_child _ u⟩


/-! ### inserting a registered subtree keeps the index invariant -/

/-- Below node `p` of a model that satisfies the invariant, a subtree `(nh, nk1)` is inserted that obeys the SHORT-NAME
discipline, is not itself a SHORT-NAME, has new pairwise different ids, and whose paths (below the path of `p`) are pairwise
different and new to the index; the index is extended by exactly these paths: the invariant holds again. -/
theorem minv_insert_subtree (nid nid' : Nat) (m m' : Model) (p q : Nat) (cp : List (Hdr × Items)) (nh : Hdr) (nk1 : Items)
    (hm : MInv S vOk nid m) (hc : m.rootItems.chain p = some cp) (hiss : m.rootIssued = true)
    (hpname : (lastOf cp).1.name ≠ S.nmShortName) (hpos : firstIsSn S (lastOf cp).2 → 1 ≤ q)
    (hname : nh.name ≠ S.nmShortName) (hk : kidsOk S nh nk1) (hs : SnOk S nk1)
    (hidsN : (Items.elem nh nk1 .nil).ids.Nodup) (hidsF : ∀ i ∈ (Items.elem nh nk1 .nil).ids, nid ≤ i ∧ i < nid')
    (hkeys : keysNodupI (entries S (.elem nh nk1 .nil) (pathOfChain S cp)))
    (hfresh : ∀ e ∈ entries S (.elem nh nk1 .nil) (pathOfChain S cp), idxGet m.index e.1 = none)
    (hroot : m'.rootItems = m.rootItems.modify p (fun h0 k0 => (h0, k0.insertAt (fun r => .elem nh nk1 r) q)))
    (hidx : m'.index = m.index ++ entries S (.elem nh nk1 .nil) (pathOfChain S cp))
    (hiss' : m'.rootIssued = m.rootIssued) (hfiles : m'.files = m.files) : MInv S vOk nid' m' := by
  let f : Hdr → Items → Hdr × Items := fun h0 k0 => (h0, k0.insertAt (fun r => .elem nh nk1 r) q)
  have key : ∀ h k0, Occ h k0 m.rootItems → h.id = p → h.name ≠ S.nmShortName ∧ (firstIsSn S k0 → 1 ≤ q) := by
    intro h k0 ho he
    obtain ⟨e1, e2⟩ := node_eq S vOk hm p cp hc h k0 ho he
    rw [e1, e2]; exact ⟨hpname, hpos⟩
  have hv : KeepsView S p f m.rootItems := fun h k0 ho he => ⟨rfl, rfl, rfl, fun hn => absurd hn (key h k0 ho he).1⟩
  obtain ⟨pfx, hpfx, hperm⟩ := entries_modify_located S p f (fun _ => []) (fun pre => entries S (.elem nh nk1 .nil) pre)
    m.rootItems hv (fun h k0 ho he => ⟨itemName_insertAt S h nh nk1 hname k0 _ (key h k0 ho he).2, fun pre => by
      rw [List.append_nil]
      exact (entries_insertAt S nh nk1 k0 _ pre).trans List.perm_append_comm⟩) hm.ids (chain_mem_ids p _ cp hc) []
  rw [kpre_chain S p _ cp hc, chainPre_nil] at hpfx
  cases hpfx
  rw [List.append_nil] at hperm
  have hids : (m.rootItems.modify p f).ids.Perm (m.rootItems.ids ++ (Items.elem nh nk1 .nil).ids) :=
    ids_modify_add p f _ _ (fun h k0 _ _ => ⟨rfl, by
      have := ids_insertAt nh nk1 k0 q
      rw [ids_elem_nil]
      exact this.trans List.perm_append_comm⟩) hm.ids (chain_mem_ids p _ cp hc)
  have hle : nid ≤ nid' := by
    have := hidsF nh.id (by rw [ids_elem_nil]; exact List.mem_cons_self)
    omega
  have hnew : ∀ e ∈ entries S (.elem nh nk1 .nil) (pathOfChain S cp), ∀ i, (e.1, i) ∉ entries S m.rootItems [] := by
    intro e he i hi
    have h1 := hfresh e he
    rw [(hm.exact e.1 i).mpr hi] at h1
    cases h1
  have hr' : m'.rootItems = if m.rootHdr.id = p then .elem (f m.rootHdr m.rootKids).1 (f m.rootHdr m.rootKids).2 .nil
      else .elem m.rootHdr (m.rootKids.modify p f) .nil := by
    rw [hroot]; simp only [Model.rootItems, Items.modify]; rfl
  refine ⟨?_, ?_, ?_, ?_, ?_, ?_, ?_, ?_, ?_⟩
  · rw [hfiles]; exact hm.vers
  · rw [hroot]
    refine (List.Perm.nodup_iff hids).mpr ?_
    refine List.nodup_append.mpr ⟨hm.ids, hidsN, fun a ha b hb e => ?_⟩
    have h1 := hm.bound hiss a ha
    have h2 := (hidsF b hb).1
    omega
  · intro _ i hi
    rw [hroot] at hi
    rcases List.mem_append.mp ((List.Perm.mem_iff hids).mp hi) with h1 | h1
    · exact Nat.lt_of_lt_of_le (hm.bound hiss i h1) hle
    · exact (hidsF i h1).2
  · intro hi; rw [hiss', hiss] at hi; cases hi
  · have hr2 := hr'
    rw [rootItems_eq m'] at hr2
    split at hr2
    · injection hr2 with a _ _
      rw [a]; exact hm.rootName
    · injection hr2 with a _ _
      rw [a]; exact hm.rootName
  · rw [hroot]
    exact snOk_modify S p f _ (fun h k0 ho he => ⟨rfl, rfl, fun hn _ => absurd hn (key h k0 ho he).1, fun hk0 hs0 =>
      ⟨kidsOk_insertAt S h nh nk1 hname k0 _ (key h k0 ho he).2 hk0, snOk_insertAt S nh nk1 ⟨hk, hs⟩ k0 _ hs0⟩⟩) hm.sn
  · rw [hroot]
    unfold keysNodupI
    refine (List.Perm.nodup_iff (hperm.map (·.1))).mpr ?_
    rw [List.map_append]
    refine List.nodup_append.mpr ⟨hm.keys, hkeys, fun a ha b hb e => ?_⟩
    obtain ⟨⟨qa, ia⟩, hqa, rfl⟩ := List.mem_map.mp ha
    obtain ⟨eb, heb, rfl⟩ := List.mem_map.mp hb
    simp only at e
    exact hnew eb heb ia (e ▸ hqa)
  · rw [hidx]
    unfold keysNodupI
    rw [List.map_append]
    refine List.nodup_append.mpr ⟨hm.idxKeys, hkeys, fun a ha b hb e => ?_⟩
    obtain ⟨eb, heb, rfl⟩ := List.mem_map.mp hb
    have := (idxGet_none_iff m.index eb.1).mp (hfresh eb heb)
    exact this (e ▸ ha)
  · intro qq i
    have hkn : keysNodupI (m.index ++ entries S (.elem nh nk1 .nil) (pathOfChain S cp)) := by
      unfold keysNodupI
      rw [List.map_append]
      refine List.nodup_append.mpr ⟨hm.idxKeys, hkeys, fun a ha b hb e => ?_⟩
      obtain ⟨eb, heb, rfl⟩ := List.mem_map.mp hb
      exact (idxGet_none_iff m.index eb.1).mp (hfresh eb heb) (e ▸ ha)
    rw [hidx, hroot, idxGet_iff_mem _ hkn, List.Perm.mem_iff hperm, List.mem_append, List.mem_append,
      ← idxGet_iff_mem _ hm.idxKeys, hm.exact]


/-! ### `opCopy` keeps the index invariant -/

/-- every element a handle can name obeys the SHORT-NAME discipline -/
theorem hdrOf_disciplined (w : World) (hw : WInv S vOk w) (x : Nat) (xh : Hdr) (xkids : Items) (hx : hdrOf w x = some (xh, xkids)) :
    kidsOk S xh xkids ∧ SnOk S xkids := by
  unfold hdrOf at hx
  split at hx
  · rename_i kx cx hloc
    obtain ⟨mx, _, _, hmem, hcx⟩ := locate_chain w x kx cx hloc
    obtain ⟨ho, _⟩ := chain_occ x mx.rootItems cx hcx
    simp only [Option.some.injEq] at hx
    rw [hx] at ho
    exact kidsOk_of_occ S _ (hw mx hmem).sn xh xkids ho
  · simp only [Option.map_eq_some_iff, Prod.mk.injEq] at hx
    obtain ⟨_, _, _, rfl⟩ := hx
    exact ⟨trivial, trivial⟩

/-- what `opCopy` does not establish itself about the paths of the copy `(nh, nk)` (before the renaming step): they are
pairwise different — a copy into a version in which a nested element loses its SHORT-NAME can merge two paths —, and if the
copy has no item name of its own, the paths of its named descendants are new below the destination -/
def CopyPathsOk (idx : List (Bytes × Nat)) (path : Bytes) (nh : Hdr) (nk : Items) : Prop :=
  keysNodupI (entries S (.elem nh nk .nil) []) ∧
  (itemName S nh nk = none → ∀ e ∈ entries S nk path, idxGet idx e.1 = none)

theorem ids_retext (nh sh : Hdr) (a b : CDv) (rest : Items) :
    (Items.elem nh (.elem sh (.text a .nil) rest) .nil).ids = (Items.elem nh (.elem sh (.text b .nil) rest) .nil).ids := rfl

theorem size_retext (sh : Hdr) (a b : CDv) (rest : Items) :
    (Items.elem sh (.text a .nil) rest).size = (Items.elem sh (.text b .nil) rest).size := rfl

/-- the facts `opCopy_inv` and `opCopy_index` share: after a successful `opCopy` (in a world with the index invariant, of an
element that is not a SHORT-NAME, with `CopyPathsOk`) the inserted subtree is disciplined, has new ids and new, pairwise
different paths -/
theorem copyOk_facts (w : World) (p x : Nat) (pos : Option Nat) (hw : WInv S vOk w)
    (k : Nat) (cp : List (Hdr × Items)) (ver : Nat) (xh : Hdr) (xkids : Items) (q : Nat) (nh : Hdr) (nk : Items) (n' : Nat)
    (nk1 : Items) (idx' : List (Bytes × Nat)) (rs' : List (Bytes × List Nat))
    (hc : CopyOk S V w p x pos k cp ver xh xkids q nh nk n' nk1 idx' rs')
    (hpaths : CopyPathsOk S (w.models[k]!).index (pathOfChain S cp) nh nk) :
    kidsOk S nh nk1 ∧ SnOk S nk1 ∧ nk1.size = nk.size ∧
    (Items.elem nh nk1 .nil).ids = List.range' w.nextId (n' - w.nextId) ∧ w.nextId < n' ∧
    keysNodupI (entries S (.elem nh nk1 .nil) (pathOfChain S cp)) ∧
    (∀ e ∈ entries S (.elem nh nk1 .nil) (pathOfChain S cp), idxGet (w.models[k]!).index e.1 = none) := by
  obtain ⟨m, _, hm2, hmem, hch⟩ := locate_chain w p k cp hc.loc
  have hm := hw m hmem
  rw [hm2] at hpaths ⊢
  obtain ⟨hxk, hxs⟩ := hdrOf_disciplined S vOk w hw x xh xkids hc.src
  obtain ⟨hnk, hns⟩ := deepCopy_snOk S _ xh xkids ver _ _ nh nk n' hxk hxs hc.copy
  obtain ⟨hids, hlt, _⟩ := deepCopy_ids S _ xh xkids ver _ _ nh nk n' hc.copy
  have hren := hc.rename
  rw [hm2] at hren
  rcases copyRename_spec S m.index (pathOfChain S cp) nh nk nk1 hnk hren with ⟨hnone, rfl⟩ | ⟨sh, orig, rest, nm, rfl, hsn, hin, rfl, hnm, hfree⟩
  · refine ⟨hnk, hns, rfl, hids, hlt, (keysNodupI_entries_prefix S _ _).mpr hpaths.1, ?_⟩
    intro e he
    rw [entries_elem_none S nh nk1 .nil _ hnone] at he
    simp only [entries, List.append_nil] at he
    exact hpaths.2 hnone e he
  · have hk1 := kidsOk_retext S nh sh orig nm rest hnk hnm
    refine ⟨hk1, snOk_retext S sh orig nm rest hns, rfl, hids, hlt, ?_, ?_⟩
    · rw [keysNodupI_named S nh sh nm rest hk1 hsn]
      exact (keysNodupI_named S nh sh orig rest hnk hsn []).mp hpaths.1
    · intro e he
      obtain ⟨s, hs⟩ := entries_named_under S nh sh nm rest hk1 hsn _ e he
      refine idxGet_none_under S vOk hm (pathOfChain S cp ++ 47 :: nm) (head_path_name _ nm (pathOfChain_head S cp)) ?_ e.1 s hs
      rw [← path_norm]; exact hfree


theorem copyWorld_models (w : World) (k p q : Nat) (nh : Hdr) (nk1 : Items) (n' : Nat) (idx' : List (Bytes × Nat))
    (rs' : List (Bytes × List Nat)) :
    (copyWorld w k p q nh nk1 n' idx' rs').models = w.models.set k (copyModel (w.models[k]!) p q nh nk1 idx' rs') := rfl

/-- part 6, index: after a successful `opCopy` the index of the destination model is the old index followed by the index
entries of the inserted copy (below the path of the destination, in document order) -/
theorem opCopy_index (w : World) (p x : Nat) (pos : Option Nat) (hw : WInv S vOk w)
    (k : Nat) (cp : List (Hdr × Items)) (ver : Nat) (xh : Hdr) (xkids : Items) (q : Nat) (nh : Hdr) (nk : Items) (n' : Nat)
    (nk1 : Items) (idx' : List (Bytes × Nat)) (rs' : List (Bytes × List Nat))
    (hc : CopyOk S V w p x pos k cp ver xh xkids q nh nk n' nk1 idx' rs')
    (hpaths : CopyPathsOk S (w.models[k]!).index (pathOfChain S cp) nh nk) :
    idx' = (w.models[k]!).index ++ entries S (.elem nh nk1 .nil) (pathOfChain S cp) := by
  obtain ⟨f1, f2, _, _, _, f6, f7⟩ := copyOk_facts S V vOk w p x pos hw k cp ver xh xkids q nh nk n' nk1 idx' rs' hc hpaths
  have := registerCopy_index_fresh S (nk1.size + 2) nh nk1 (namesOfChain S cp) (w.models[k]!).index (w.models[k]!).refs f1 f2
    (by omega) f6 f7
  rw [hc.reg] at this
  exact this

/-- `opCopy` keeps the index invariant (C04) — for a source that is not itself a SHORT-NAME element, and under `CopyPathsOk` -/
theorem opCopy_inv (hH : IdxHyp S V vOk) (w : World) (p x : Nat) (pos : Option Nat) (hw : WInv S vOk w)
    (hname : ∀ xh xk, hdrOf w x = some (xh, xk) → xh.name ≠ S.nmShortName)
    (hpaths : ∀ k cp ver xh xkids q nh nk n' nk1 idx' rs', CopyOk S V w p x pos k cp ver xh xkids q nh nk n' nk1 idx' rs' →
      CopyPathsOk S (w.models[k]!).index (pathOfChain S cp) nh nk) :
    WInv S vOk (opCopy S V w p x pos).1 := by
  by_cases hok : (opCopy S V w p x pos).2 = .err
  · rw [opCopy_err_frame S V w p x pos hok]; exact hw
  · obtain ⟨k, cp, ver, xh, xkids, q, nh, nk, n', nk1, idx', rs', hc, hres⟩ := opCopy_ok S V w p x pos hok
    have hp := hpaths _ _ _ _ _ _ _ _ _ _ _ _ hc
    obtain ⟨f1, f2, _, f4, f5, f6, f7⟩ := copyOk_facts S V vOk w p x pos hw k cp ver xh xkids q nh nk n' nk1 idx' rs' hc hp
    have hidx := opCopy_index S V vOk w p x pos hw k cp ver xh xkids q nh nk n' nk1 idx' rs' hc hp
    obtain ⟨m, _, hm2, hmem, hch⟩ := locate_chain w p k cp hc.loc
    have hm := hw m hmem
    have hminv := hc.minv
    rw [hm2] at hminv hidx f7
    have hiss := issued_of_minVersion S V vOk hm p cp hch ver hminv
    obtain ⟨lo, hi, hrange, _, hq1, hq2⟩ := hc.range
    obtain ⟨hocc, _⟩ := chain_occ p m.rootItems cp hch
    have hnh : nh.name = xh.name := (deepCopy_head S _ xh xkids ver _ _ nh nk n' hc.copy).2.2.1
    rw [hres]
    refine winv_update S vOk w _ k _ hw (Nat.le_of_lt f5) ?_ (copyWorld_models ..)
    rw [hm2]
    refine minv_insert_subtree S vOk w.nextId n' m _ p q cp nh nk1 hm hch hiss ?_ ?_ (hnh ▸ hname xh xkids hc.src) f1 f2
      ?_ ?_ f6 f7 (copyModel_rootItems ..) ?_ (copyModel_fields ..).2.1 (copyModel_fields ..).1
    · intro hn
      have := properSn_mode S (sn_proper_of_occ S _ hm.sn (hm.topOk S vOk) _ _ hocc hn)
      unfold insertRange at hrange
      rw [if_pos this] at hrange; cases hrange
    · intro hf
      cases hl : (lastOf cp).2 with
      | nil => rw [hl] at hf; exact hf.elim
      | text _ _ => rw [hl] at hf; exact hf.elim
      | elem sh sk rest =>
        rw [hl] at hf hrange
        have hk := (kidsOk_of_occ S _ hm.sn _ _ hocc).1
        rw [hl] at hk
        obtain ⟨⟨hnamed, hseq, _, _⟩, _⟩ := hk.1 hf
        have := insertRange_lo_pos S hH.wf hH.only (lastOf cp).1 sh sk rest xh.name ver lo hi hnamed hseq hf hrange
        omega
    · rw [f4]; exact List.nodup_range'
    · intro i hi
      rw [f4, List.mem_range'_1] at hi
      omega
    · rw [(copyModel_fields ..).2.2.1]; exact hidx

/-! ### `opCopy` keeps the reference invariant -/

theorem addAll_spec (es : List (Bytes × Nat)) : ∀ (rs : List (Bytes × List Nat)), keysNodup rs → refsNonempty rs →
    keysNodup (addAll rs es) ∧ refsNonempty (addAll rs es) ∧
      ∀ p id, (refsGet (addAll rs es) p).count id = (refsGet rs p).count id + es.count (p, id) := by
  induction es with
  | nil => intro rs hn hne; exact ⟨hn, hne, fun p id => by simp [addAll]⟩
  | cons e es ih =>
    intro rs hn hne
    obtain ⟨a, b, c⟩ := ih (refsAdd rs e.1 e.2) (refsAdd_keysNodup rs e.1 e.2 hn) (refsAdd_nonempty rs e.1 e.2 hne)
    have hfold : addAll rs (e :: es) = addAll (refsAdd rs e.1 e.2) es := rfl
    rw [hfold]
    refine ⟨a, b, fun p id => ?_⟩
    rw [c p id, refsAdd_count rs e.1 p e.2 id hn, count_cons_pair]
    omega

/-- part 6, references: after a successful `opCopy` the reference map of the destination model is the old map with the
reference elements of the inserted copy registered one after the other (in document order) -/
theorem opCopy_refs (w : World) (p x : Nat) (pos : Option Nat) (hw : WInv S vOk w)
    (k : Nat) (cp : List (Hdr × Items)) (ver : Nat) (xh : Hdr) (xkids : Items) (q : Nat) (nh : Hdr) (nk : Items) (n' : Nat)
    (nk1 : Items) (idx' : List (Bytes × Nat)) (rs' : List (Bytes × List Nat))
    (hc : CopyOk S V w p x pos k cp ver xh xkids q nh nk n' nk1 idx' rs')
    (hpaths : CopyPathsOk S (w.models[k]!).index (pathOfChain S cp) nh nk) :
    rs' = addAll (w.models[k]!).refs (refEntries S (.elem nh nk1 .nil)) := by
  obtain ⟨f1, f2, _⟩ := copyOk_facts S V vOk w p x pos hw k cp ver xh xkids q nh nk n' nk1 idx' rs' hc hpaths
  have := registerCopy_refs S (nk1.size + 2) nh nk1 (namesOfChain S cp) (w.models[k]!).index (w.models[k]!).refs f1 f2 (by omega)
  rw [hc.reg] at this
  exact this

/-- `opCopy` keeps the reference invariant (C05), under the hypotheses of `opCopy_inv` -/
theorem opCopy_rinv (hR : RefWF S) (w : World) (p x : Nat) (pos : Option Nat) (hw : WInv S vOk w) (hr : WRInv S w)
    (hpaths : ∀ k cp ver xh xkids q nh nk n' nk1 idx' rs', CopyOk S V w p x pos k cp ver xh xkids q nh nk n' nk1 idx' rs' →
      CopyPathsOk S (w.models[k]!).index (pathOfChain S cp) nh nk) :
    WRInv S (opCopy S V w p x pos).1 := by
  by_cases hok : (opCopy S V w p x pos).2 = .err
  · rw [opCopy_err_frame S V w p x pos hok]; exact hr
  · obtain ⟨k, cp, ver, xh, xkids, q, nh, nk, n', nk1, idx', rs', hc, hres⟩ := opCopy_ok S V w p x pos hok
    have hp := hpaths _ _ _ _ _ _ _ _ _ _ _ _ hc
    have hrefs := opCopy_refs S V vOk w p x pos hw k cp ver xh xkids q nh nk n' nk1 idx' rs' hc hp
    obtain ⟨m, _, hm2, hmem, hch⟩ := locate_chain w p k cp hc.loc
    have hm := hw m hmem
    rw [hm2] at hrefs
    obtain ⟨lo, hi, hrange, _, _, _⟩ := hc.range
    rw [hres]
    refine wrinv_update S w _ k _ hr ?_ (copyWorld_models ..)
    rw [hm2, (copyModel_fields ..).2.2.2, copyModel_rootItems, hrefs]
    obtain ⟨a, b, c⟩ := addAll_spec (refEntries S (.elem nh nk1 .nil)) m.refs (hr m hmem).1 (hr m hmem).2.1
    refine refsExact_transfer S m.refs _ m.rootItems _ [] (refEntries S (.elem nh nk1 .nil)) (hr m hmem) a b ?_ ?_
    · refine refEntries_modify_located S p _ [] _ m.rootItems ?_ hm.ids (chain_mem_ids p _ cp hch)
      intro h k0 ho he
      obtain ⟨e1, e2⟩ := node_eq S vOk hm p cp hch h k0 ho he
      have hnr : S.isRef h.ety.typ = false :=
        not_ref_of_insertRange S hR h k0 xh.name ver (lo, hi) (by rw [e1, e2]; exact hrange)
      refine ⟨rfl, ?_⟩
      rw [refOf_not_ref S h _ hnr, refOf_not_ref S h _ hnr, List.nil_append, List.nil_append, List.append_nil]
      exact (refEntries_insertAt S nh nk1 k0 q).trans List.perm_append_comm
    · intro p' id
      rw [c p' id]
      simp


/-- "makes every copied identifiable element and reference findable in the destination model": after a successful `opCopy`
every named element of the copy is found in the index under its path below the destination, and every reference element of
the copy is listed in the reference map under its text -/
theorem opCopy_findable (w : World) (p x : Nat) (pos : Option Nat) (hw : WInv S vOk w) (hr : WRInv S w)
    (k : Nat) (cp : List (Hdr × Items)) (ver : Nat) (xh : Hdr) (xkids : Items) (q : Nat) (nh : Hdr) (nk : Items) (n' : Nat)
    (nk1 : Items) (idx' : List (Bytes × Nat)) (rs' : List (Bytes × List Nat))
    (hc : CopyOk S V w p x pos k cp ver xh xkids q nh nk n' nk1 idx' rs')
    (hpaths : CopyPathsOk S (w.models[k]!).index (pathOfChain S cp) nh nk) :
    (∀ e ∈ entries S (.elem nh nk1 .nil) (pathOfChain S cp), idxGet idx' e.1 = some e.2) ∧
    (∀ e ∈ refEntries S (.elem nh nk1 .nil), e.2 ∈ refsGet rs' e.1) := by
  obtain ⟨_, _, _, _, _, f6, f7⟩ := copyOk_facts S V vOk w p x pos hw k cp ver xh xkids q nh nk n' nk1 idx' rs' hc hpaths
  have hidx := opCopy_index S V vOk w p x pos hw k cp ver xh xkids q nh nk n' nk1 idx' rs' hc hpaths
  have hrefs := opCopy_refs S V vOk w p x pos hw k cp ver xh xkids q nh nk n' nk1 idx' rs' hc hpaths
  obtain ⟨m, _, hm2, hmem, _⟩ := locate_chain w p k cp hc.loc
  rw [hm2] at hidx hrefs f7
  have hm := hw m hmem
  constructor
  · intro e he
    have hkn : keysNodupI idx' := by
      rw [hidx]
      unfold keysNodupI
      rw [List.map_append]
      refine List.nodup_append.mpr ⟨hm.idxKeys, f6, fun a ha b hb e' => ?_⟩
      obtain ⟨eb, heb, rfl⟩ := List.mem_map.mp hb
      exact (idxGet_none_iff m.index eb.1).mp (f7 eb heb) (e' ▸ ha)
    rw [idxGet_iff_mem _ hkn, hidx]
    exact List.mem_append_right _ he
  · intro e he
    obtain ⟨_, _, c⟩ := addAll_spec (refEntries S (.elem nh nk1 .nil)) m.refs (hr m hmem).1 (hr m hmem).2.1
    have := c e.1 e.2
    rw [← hrefs] at this
    have hpos : 0 < (refEntries S (.elem nh nk1 .nil)).count (e.1, e.2) := List.count_pos_iff.mpr he
    exact List.count_pos_iff.mp (by omega)

/-! ### `opCopy` keeps the parent fields in step with the structure (C03) -/

theorem setShortName_wf (k : Items) (nm : Bytes) (e : PRef) (h : k.wf e) : (setShortName k nm).wf e := by
  cases k with
  | nil => exact h
  | text _ _ => exact h
  | elem sh sk r => exact ⟨h.1, trivial, h.2.2⟩

theorem copyRename_wf (idx : List (Bytes × Nat)) (path : Bytes) (nh : Hdr) (nk : Items) (e : PRef) (h : nk.wf e) :
    (copyRename S idx path nh nk).1.wf e := by
  unfold copyRename
  split
  · split
    · dsimp only
      split
      · exact setShortName_wf nk _ e h
      · exact h
    · exact h
  · exact h

theorem opCopy_wf (w : World) (p x : Nat) (pos : Option Nat) (hw : w.wf) : (opCopy S V w p x pos).1.wf := by
  by_cases hok : (opCopy S V w p x pos).2 = .err
  · rw [opCopy_err_frame S V w p x pos hok]; exact hw
  · obtain ⟨k, cp, ver, xh, xkids, q, nh, nk, n', nk1, idx', rs', hc, hres⟩ := opCopy_ok S V w p x pos hok
    obtain ⟨_, _, _, _, hid, hkwf, hnwf, _⟩ := deepCopy_ids S _ xh xkids ver _ _ nh nk n' hc.copy
    have hnk1 : nk1 = (copyRename S (w.models[k]!).index (pathOfChain S cp) nh nk).1 := by rw [hc.rename]
    rw [hres]
    apply wf_update w k _ _ hw ?_ (copyWorld_models ..)
    have : (copyModel (w.models[k]!) p q nh nk1 idx' rs').wfM ↔
        ((w.models[k]!).setRoot ((w.models[k]!).rootItems.modify p fun h0 k0 => (h0, k0.insertAt (fun r => .elem nh nk1 r) q))).wfM :=
      Iff.rfl
    rw [this]
    apply wfM_modify _ _ _ _ (wfM_getElem! w k hw)
    intro h kk hidp
    refine ⟨rfl, rfl, fun hk => insertAt_wf _ _ (fun r hr => ?_) kk _ hk⟩
    rw [hidp] at hr ⊢
    refine ⟨hnwf.1, ?_, hr⟩
    rw [hnk1, hid]
    exact copyRename_wf S _ _ nh nk _ hkwf


/-! ### same version, named source: the hypotheses about the paths of the copy hold by themselves -/

theorem charData_shape (h : Hdr) (k : Items) : charData S h.shape k.shape = charData S h k := by
  cases k with
  | nil => rfl
  | elem _ _ _ => rfl
  | text c r =>
    cases r with
    | nil => rfl
    | text _ _ => rfl
    | elem _ _ _ => rfl

theorem itemName_shape (h : Hdr) (k : Items) : itemName S h.shape k.shape = itemName S h k := by
  cases k with
  | nil => rfl
  | text _ _ => rfl
  | elem sh sk r =>
    simp only [shape_elem, itemName, charData_shape]
    rfl

/-- the paths of a forest (without the ids) are a function of its shape -/
theorem entryKeys_shape (its : Items) (pre : Bytes) : (entries S its.shape pre).map (·.1) = (entries S its pre).map (·.1) := by
  induction its generalizing pre with
  | nil => rfl
  | text c r ih => simp only [shape_text, entries]; exact ih pre
  | elem h k r ihk ihr =>
    simp only [shape_elem, entries, itemName_shape]
    cases itemName S h k with
    | none => simp only [List.map_append, ihk, ihr]
    | some n => simp only [List.map_cons, List.map_append, ihk, ihr]

theorem keysNodupI_of_shape (a b : Items) (e : a.shape = b.shape) (pre : Bytes) (h : keysNodupI (entries S b pre)) :
    keysNodupI (entries S a pre) := by
  unfold keysNodupI at *
  rw [← entryKeys_shape S a pre, e, entryKeys_shape S b pre]
  exact h

/-- the paths of a subtree of a forest with pairwise different paths are pairwise different -/
theorem keysNodupI_of_occ (h : Hdr) (k : Items) (its : Items) (pre : Bytes) (ho : Occ h k its) (hn : keysNodupI (entries S its pre)) :
    keysNodupI (entries S (.elem h k .nil) []) := by
  induction its generalizing pre with
  | nil => exact ho.elim
  | text c r ih => exact ih pre ho hn
  | elem hd kk r ihk ihr =>
    rw [entries_elem_split] at hn
    obtain ⟨h1, h2, _⟩ := keysNodupI_append _ _ hn
    rcases ho with ⟨rfl, rfl⟩ | ho | ho
    · exact (keysNodupI_entries_prefix S _ pre).mp h1
    · rw [entries_elem_nil] at h1
      exact ihk _ ho (keysNodupI_append _ _ h1).2.1
    · exact ihr pre ho h2

/-- for a live, named source of which everything is permitted in the destination version (the same-version case),
`CopyPathsOk` holds -/
theorem copyPathsOk_same_version (w : World) (p x : Nat) (pos : Option Nat) (hw : WInv S vOk w)
    (k : Nat) (cp : List (Hdr × Items)) (ver : Nat) (xh : Hdr) (xkids : Items) (q : Nat) (nh : Hdr) (nk : Items) (n' : Nat)
    (nk1 : Items) (idx' : List (Bytes × Nat)) (rs' : List (Bytes × List Nat))
    (hc : CopyOk S V w p x pos k cp ver xh xkids q nh nk n' nk1 idx' rs')
    (kx : Nat) (cx : List (Hdr × Items)) (hx : locate w x = some (kx, cx))
    (hnamed : itemName S xh xkids ≠ none) (hall : AllCompat S ver xh xkids) :
    CopyPathsOk S (w.models[k]!).index (pathOfChain S cp) nh nk := by
  obtain ⟨h', k', n'', hd, hshape⟩ := deepCopy_faithful_size S xh xkids ver (.elem p) w.nextId hall
  rw [hc.copy] at hd
  simp only [Option.some.injEq, Prod.mk.injEq] at hd
  obtain ⟨rfl, rfl, rfl⟩ := hd
  obtain ⟨mx, _, _, hmem, hcx⟩ := locate_chain w x kx cx hx
  obtain ⟨ho, _⟩ := chain_occ x mx.rootItems cx hcx
  have hl := hdrOf_locate w x kx cx xh xkids hx hc.src
  rw [hl] at ho
  constructor
  · exact keysNodupI_of_shape S _ _ hshape [] (keysNodupI_of_occ S xh xkids _ [] ho (hw mx hmem).keys)
  · intro hnone
    exfalso
    apply hnamed
    simp only [shape_elem, Items.elem.injEq] at hshape
    rw [← itemName_shape, ← hshape.1, ← hshape.2.1, itemName_shape]
    exact hnone

/-- a live element with an item name is not a SHORT-NAME element -/
theorem not_sn_of_named (w : World) (hw : WInv S vOk w) (x kx : Nat) (cx : List (Hdr × Items)) (hx : locate w x = some (kx, cx))
    (hnamed : itemName S (lastOf cx).1 (lastOf cx).2 ≠ none) : (lastOf cx).1.name ≠ S.nmShortName := by
  obtain ⟨mx, _, _, hmem, hcx⟩ := locate_chain w x kx cx hx
  obtain ⟨ho, _⟩ := chain_occ x mx.rootItems cx hcx
  intro hn
  have hp := sn_proper_of_occ S _ (hw mx hmem).sn ((hw mx hmem).topOk S vOk) _ _ ho hn
  apply hnamed
  unfold itemName
  rw [hp.2.1]
  rfl

/-- `opCopy` of a live element with an item name, all of which is permitted in the version of the destination, keeps the
index invariant and the reference invariant -/
theorem opCopy_inv_same_version (hH : IdxHyp S V vOk) (hR : RefWF S) (w : World) (p x : Nat) (pos : Option Nat)
    (hw : WInv S vOk w) (hr : WRInv S w) (kx : Nat) (cx : List (Hdr × Items)) (hx : locate w x = some (kx, cx))
    (hnamed : itemName S (lastOf cx).1 (lastOf cx).2 ≠ none)
    (hall : ∀ k cp ver, locate w p = some (k, cp) → minVersion V (w.models[k]!) cp = some ver →
      AllCompat S ver (lastOf cx).1 (lastOf cx).2) :
    WInv S vOk (opCopy S V w p x pos).1 ∧ WRInv S (opCopy S V w p x pos).1 := by
  have hsrc : hdrOf w x = some (lastOf cx) := by simp only [hdrOf, hx]
  have hpaths : ∀ k cp ver xh xkids q nh nk n' nk1 idx' rs', CopyOk S V w p x pos k cp ver xh xkids q nh nk n' nk1 idx' rs' →
      CopyPathsOk S (w.models[k]!).index (pathOfChain S cp) nh nk := by
    intro k cp ver xh xkids q nh nk n' nk1 idx' rs' hc
    have he : lastOf cx = (xh, xkids) := hdrOf_locate w x kx cx xh xkids hx hc.src
    refine copyPathsOk_same_version S V vOk w p x pos hw k cp ver xh xkids q nh nk n' nk1 idx' rs' hc kx cx hx ?_ ?_
    · have := hnamed; rw [he] at this; exact this
    · have := hall k cp ver hc.loc hc.minv; rw [he] at this; exact this
  refine ⟨opCopy_inv S V vOk hH w p x pos hw ?_ hpaths, opCopy_rinv S V vOk hR w p x pos hw hr hpaths⟩
  intro xh xk hh
  rw [hsrc] at hh
  have he : lastOf cx = (xh, xk) := Option.some.inj hh
  have := not_sn_of_named S vOk w hw x kx cx hx hnamed
  rw [he] at this
  exact this

/-! ### the handle of the source still denotes the same header and content -/

/-- the result of a first-match search is determined by WHERE the function is defined: two functions that are defined on
the same elements find their result at the same element -/
theorem findSome?_same_place {α β : Type} (f g : α → Option β) (l : List α) (h : ∀ a ∈ l, (g a).isSome = (f a).isSome)
    (b : β) (hf : l.findSome? f = some b) : ∃ a ∈ l, f a = some b ∧ l.findSome? g = g a := by
  induction l with
  | nil => cases hf
  | cons a as ih =>
    simp only [List.findSome?_cons] at hf ⊢
    cases hfa : f a with
    | some v =>
      rw [hfa] at hf
      have hga := h a List.mem_cons_self
      rw [hfa] at hga
      cases hg : g a with
      | none => rw [hg] at hga; cases hga
      | some v' => exact ⟨a, List.mem_cons_self, by rw [hfa]; exact hf, by simp only [hg]⟩
    | none =>
      rw [hfa] at hf
      have hga := h a List.mem_cons_self
      rw [hfa] at hga
      cases hg : g a with
      | some v' => rw [hg] at hga; cases hga
      | none =>
        obtain ⟨a', ha', h1, h2⟩ := ih (fun x hx => h x (List.mem_cons_of_mem _ hx)) hf
        exact ⟨a', List.mem_cons_of_mem _ ha', h1, h2⟩

/-- the search step of `locate` -/
def locStep (w : World) (x : Nat) (j : Nat) : Option (Nat × List (Hdr × Items)) :=
  match w.models[j]? with
  | some m => (m.rootItems.chain x).map fun c => (j, c)
  | none => none

theorem locate_eq (w : World) (x : Nat) : locate w x = (List.range w.models.length).findSome? (locStep w x) := rfl

/-- if `x` is live in the same models before and after, it is located in the same model -/
theorem locate_same_model (w w' : World) (x kx : Nat) (cx : List (Hdr × Items)) (hlen : w'.models.length = w.models.length)
    (hsame : ∀ j, (locStep w' x j).isSome = (locStep w x j).isSome) (hx : locate w x = some (kx, cx)) :
    locate w' x = locStep w' x kx := by
  rw [locate_eq] at hx
  obtain ⟨j, _, h1, h2⟩ := findSome?_same_place (locStep w x) (locStep w' x) _ (fun a _ => hsame a) _ hx
  have : j = kx := by
    unfold locStep at h1
    split at h1
    · simp only [Option.map_eq_some_iff, Prod.mk.injEq] at h1
      obtain ⟨_, _, h, _⟩ := h1
      exact h
    · cases h1
  subst this
  rw [locate_eq, hlen]
  exact h2


/-- the ids of the inserted copy (after the renaming step) are the new ids `w.nextId … n' - 1` -/
theorem copyOk_ids (w : World) (p x : Nat) (pos : Option Nat) (hw : WInv S vOk w)
    (k : Nat) (cp : List (Hdr × Items)) (ver : Nat) (xh : Hdr) (xkids : Items) (q : Nat) (nh : Hdr) (nk : Items) (n' : Nat)
    (nk1 : Items) (idx' : List (Bytes × Nat)) (rs' : List (Bytes × List Nat))
    (hc : CopyOk S V w p x pos k cp ver xh xkids q nh nk n' nk1 idx' rs') :
    (Items.elem nh nk1 .nil).ids = List.range' w.nextId (n' - w.nextId) ∧ w.nextId < n' := by
  obtain ⟨hxk, hxs⟩ := hdrOf_disciplined S vOk w hw x xh xkids hc.src
  obtain ⟨hnk, _⟩ := deepCopy_snOk S _ xh xkids ver _ _ nh nk n' hxk hxs hc.copy
  obtain ⟨hids, hlt, _⟩ := deepCopy_ids S _ xh xkids ver _ _ nh nk n' hc.copy
  rcases copyRename_spec S _ (pathOfChain S cp) nh nk nk1 hnk hc.rename with ⟨_, rfl⟩ | ⟨sh, orig, rest, nm, rfl, _, _, rfl, _, _⟩
  · exact ⟨hids, hlt⟩
  · exact ⟨hids, hlt⟩

/-- part 5c: after a successful `opCopy`, the handle `x` of the (live) source still denotes the same header and the same
content (world with the index invariant; `x` an id that was issued before) -/
theorem opCopy_source_hdrOf (w : World) (p x : Nat) (pos : Option Nat) (hok : (opCopy S V w p x pos).2 ≠ .err)
    (hw : WInv S vOk w) (kx : Nat) (cx : List (Hdr × Items)) (hx : locate w x = some (kx, cx)) (hxlt : x < w.nextId) :
    hdrOf (opCopy S V w p x pos).1 x = hdrOf w x := by
  have hnd : ∀ m ∈ w.models, m.rootItems.ids.Nodup := fun m hm => (hw m hm).ids
  obtain ⟨hsrc, _, hocc'⟩ := opCopy_source_kept S V w p x pos hok kx cx hx hnd
  obtain ⟨mx, hx1, hx2, hx3, hx4⟩ := locate_chain w x kx cx hx
  obtain ⟨_, hidx⟩ := chain_occ x mx.rootItems cx hx4
  obtain ⟨k, cp, ver, xh, xkids, q, nh, nk, n', nk1, idx', rs', hc, hres⟩ := opCopy_ok S V w p x pos hok
  obtain ⟨hids1, hlt⟩ := copyOk_ids S V vOk w p x pos hw k cp ver xh xkids q nh nk n' nk1 idx' rs' hc
  obtain ⟨m, hm1, hm2, hmem, hch⟩ := locate_chain w p k cp hc.loc
  have hm := hw m hmem
  have hklt : k < w.models.length := lt_of_getElem?_some _ _ _ hm1
  have hiss := issued_of_minVersion S V vOk hm p cp hch ver (hm2 ▸ hc.minv)
  -- the ids of the new tree
  have hids : (m.rootItems.modify p fun h0 k0 => (h0, k0.insertAt (fun r => .elem nh nk1 r) q)).ids.Perm
      (m.rootItems.ids ++ (Items.elem nh nk1 .nil).ids) :=
    ids_modify_add p _ _ _ (fun h k0 _ _ => ⟨rfl, by
      have := ids_insertAt nh nk1 k0 q
      rw [ids_elem_nil]
      exact this.trans List.perm_append_comm⟩) hm.ids (chain_mem_ids p _ cp hch)
  have hnew : ∀ i ∈ (Items.elem nh nk1 .nil).ids, w.nextId ≤ i := by
    intro i hi; rw [hids1, List.mem_range'_1] at hi; exact hi.1
  have hnodup : (m.rootItems.modify p fun h0 k0 => (h0, k0.insertAt (fun r => .elem nh nk1 r) q)).ids.Nodup := by
    refine (List.Perm.nodup_iff hids).mpr (List.nodup_append.mpr ⟨hm.ids, by rw [hids1]; exact List.nodup_range', ?_⟩)
    intro a ha b hb e
    have := hm.bound hiss a ha
    have := hnew b hb
    omega
  have hmemx : x ∈ (m.rootItems.modify p fun h0 k0 => (h0, k0.insertAt (fun r => .elem nh nk1 r) q)).ids ↔ x ∈ m.rootItems.ids := by
    rw [List.Perm.mem_iff hids, List.mem_append]
    constructor
    · rintro (h | h)
      · exact h
      · have := hnew x h; omega
    · exact Or.inl
  rw [hres] at hocc' ⊢
  have hstepk : locStep (copyWorld w k p q nh nk1 n' idx' rs') x k =
      ((m.rootItems.modify p fun h0 k0 => (h0, k0.insertAt (fun r => .elem nh nk1 r) q)).chain x).map fun c => (k, c) := by
    unfold locStep
    rw [copyWorld_get_self w k p q nh nk1 n' idx' rs' hklt, hm2]
    dsimp only
    rw [copyModel_rootItems]
  have hstepo : ∀ j, j ≠ k → locStep (copyWorld w k p q nh nk1 n' idx' rs') x j = locStep w x j := by
    intro j hj
    unfold locStep
    rw [copyWorld_get_other w k p q nh nk1 n' idx' rs' j hj]
  have hloc' : locate (copyWorld w k p q nh nk1 n' idx' rs') x = locStep (copyWorld w k p q nh nk1 n' idx' rs') x kx := by
    refine locate_same_model w _ x kx cx (by simp [copyWorld, setModel]) ?_ hx
    intro j
    by_cases hj : j = k
    · subst hj
      rw [hstepk]
      unfold locStep
      rw [hm1]
      simp only [Option.isSome_map]
      cases h1 : (m.rootItems.modify p fun h0 k0 => (h0, k0.insertAt (fun r => .elem nh nk1 r) q)).chain x with
      | some c1 =>
        have := chain_mem_ids x _ c1 h1
        obtain ⟨c2, hc2⟩ := chain_some_of_mem x _ (hmemx.mp this)
        rw [hc2]; rfl
      | none =>
        cases h2 : m.rootItems.chain x with
        | none => rfl
        | some c2 =>
          have := chain_mem_ids x _ c2 h2
          obtain ⟨c1, hc1⟩ := chain_some_of_mem x _ (hmemx.mpr this)
          rw [hc1] at h1; cases h1
    · rw [hstepo j hj]
  rw [hsrc]
  unfold hdrOf
  rw [hloc']
  by_cases hk : kx = k
  · subst hk
    have hmm : mx = m := by rw [hx1] at hm1; exact Option.some.inj hm1
    subst hmm
    rw [hstepk]
    obtain ⟨c1, hc1⟩ := chain_some_of_mem x _ (hmemx.mpr (chain_mem_ids x _ cx hx4))
    rw [hc1]
    simp only [Option.map_some]
    obtain ⟨o1, e1⟩ := chain_occ x _ c1 hc1
    have : (copyWorld w kx p q nh nk1 n' idx' rs').models[kx]! = copyModel (w.models[kx]!) p q nh nk1 idx' rs' := by
      rw [getElem!_def, copyWorld_get_self w kx p q nh nk1 n' idx' rs' hklt]
    rw [this, copyModel_rootItems, hm2] at hocc'
    obtain ⟨a, b⟩ := occ_unique _ hnodup _ _ _ _ o1 hocc' (e1.trans hidx.symm)
    congr 1
    exact Prod.ext a b
  · rw [hstepo kx hk]
    unfold locStep
    rw [hx1]
    dsimp only
    rw [hx4]
    rfl

/-! ### evaluation: `deepCopy` by structural recursion

`deepCopy` / `deepCopy.go` are compiled by well-founded recursion and do not reduce in the kernel; for `decide`-examples
(`Lemmas/DeepCopyWitness.lean`) they are replaced by an equal function that does. -/

/-- the content loop of `deepCopy` with the copy of a sub-element as a parameter (structural recursion: reducible by the kernel) -/
def goS (sub : Hdr → Items → Nat → Option (Hdr × Items × Nat)) (typ ver : Nat) : Items → Nat → Items × Nat
  | .nil, n => (.nil, n)
  | .text c r, n =>
    let rr := goS sub typ ver r n
    (if keepText S typ ver c then .text c rr.1 else rr.1, rr.2)
  | .elem sh sk r, n =>
    if (S.findSub typ sh.name ver).isSome then
      match sub sh sk n with
      | some (ch, ck, n1) => let rr := goS sub typ ver r n1; (.elem ch ck rr.1, rr.2)
      | none => goS sub typ ver r n
    else goS sub typ ver r n

/-- `deepCopy` by structural recursion on the fuel -/
def deepCopyS (ver : Nat) : Nat → Hdr → Items → PRef → Nat → Option (Hdr × Items × Nat)
  | 0, _, _, _, _ => none
  | fuel + 1, h, kids, parent, nid =>
    match keepAttrs S h.ety.typ ver h.attrs with
    | none => none
    | some attrs =>
      let rr := goS S (fun sh sk n => deepCopyS ver fuel sh sk (.elem nid) n) h.ety.typ ver kids (nid + 1)
      some ({ h with id := nid, parent := parent, attrs := attrs, files := [] }, rr.1, rr.2)

theorem go_eq_S (h : Hdr) (ver myId f : Nat)
    (ih : ∀ (sh : Hdr) (sk : Items) (parent : PRef) (nid : Nat), deepCopy S f sh sk ver parent nid = deepCopyS S ver f sh sk parent nid)
    (its : Items) (n : Nat) :
    deepCopy.go S h ver myId f its n = goS S (fun sh sk n => deepCopyS S ver f sh sk (.elem myId) n) h.ety.typ ver its n := by
  induction its generalizing n with
  | nil => rw [go_nil]; rfl
  | text c r ihr => rw [go_text, ihr n]; rfl
  | elem sh sk r _ ihr =>
    rw [go_elem, ih]
    simp only [goS]
    split
    · cases deepCopyS S ver f sh sk (.elem myId) n with
      | none => exact ihr n
      | some x => obtain ⟨ch, ck, n1⟩ := x; simp only [ihr n1]
    · exact ihr n

theorem deepCopy_eq_S (fuel : Nat) : ∀ (h : Hdr) (kids : Items) (ver : Nat) (parent : PRef) (nid : Nat),
    deepCopy S fuel h kids ver parent nid = deepCopyS S ver fuel h kids parent nid := by
  induction fuel with
  | zero => intros; simp [deepCopy, deepCopyS]
  | succ f ih =>
    intro h kids ver parent nid
    rw [deepCopy_succ, go_eq_S S h ver nid f (fun sh sk p n => ih sh sk ver p n)]
    rfl

/-- `opCopy` with `deepCopyS` (for evaluation by `decide`: `deepCopy` is compiled by well-founded recursion and does not
reduce) -/
def opCopyS (w : World) (p x : Nat) (pos? : Option Nat) : World × Ans :=
  if p = x then (w, .err)
  else match locate w p with
  | none => (w, .err)
  | some (k, cp) =>
    let m := w.models[k]!
    match minVersion V m cp with
    | none => (w, .err)
    | some ver =>
      match hdrOf w x with
      | none => (w, .err)
      | some (xh, xkids) =>
        let (ph, pkids) := lastOf cp
        match insertRange S ph pkids xh.name ver with
        | none => (w, .err)
        | some (lo, hi) =>
          let pos := pos?.getD hi
          if ¬ (lo ≤ pos ∧ pos ≤ hi) then (w, .err)
          else if (cp.dropLast.any fun (h, _) => h.id = x) then (w, .err)
          else match deepCopyS S ver (xkids.size + 2) xh xkids (.elem p) w.nextId with
            | none => (w, .err)
            | some (nh, nk, nextId') =>
              let path := pathOfChain S cp
              let (nk1, fail) :=
                if isIdentifiable S nh nk then
                  match itemName S nh nk with
                  | some orig =>
                    let (nm, cnt) := uniqueName m.index path orig (m.index.length + 2) 0
                    ((if cnt > 0 then setShortName nk nm else nk), false)
                  | none => (nk, true)
                else (nk, false)
              if fail then (w, .err)
              else
                let (idx', rs') := registerCopy S (nk1.size + 2) nh nk1 (namesOfChain S cp) m.index m.refs
                let root' := m.rootItems.modify p fun h0 k0 => (h0, k0.insertAt (fun r => .elem nh nk1 r) pos)
                let newIds := (Items.elem nh nk1 .nil).ids
                ({ setModel w k { m.setRoot root' with index := idx', refs := rs' } with nextId := nextId' },
                  .ok (" ".intercalate (newIds.map fun i => s!"e{i}")))

theorem opCopy_eq_S (w : World) (p x : Nat) (pos : Option Nat) : opCopy S V w p x pos = opCopyS S V w p x pos := by
  have h : deepCopy S = fun fuel h kids ver parent nid => deepCopyS S ver fuel h kids parent nid := by
    funext fuel h kids ver parent nid; exact deepCopy_eq_S S fuel h kids ver parent nid
  unfold opCopy opCopyS
  rw [h]
  rfl
end
end AV.W
