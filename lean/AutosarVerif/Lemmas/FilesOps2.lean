/-
C10: the remaining operations of the core set keep the file-set invariant (they do not touch file sets at all, or insert
elements without a file set of their own).
-/
import AutosarVerif.Lemmas.FileOps
import AutosarVerif.Lemmas.Compat
import AutosarVerif.Lemmas.WfOps

namespace AV.W

/-- a world whose models are those of `w` with model `k` replaced -/
theorem filesOk_update (w : World) (k : Nat) (m' : Model) (w' : World) (hw : w.filesOk) (hm : m'.filesOk)
    (hmodels : w'.models = w.models.set k m') : w'.filesOk := by
  intro m hmem
  rw [hmodels] at hmem
  rcases List.mem_or_eq_of_mem_set hmem with h | h
  · exact hw m h
  · rw [h]; exact hm

theorem filesOk_of_eq (m m' : Model) (h1 : m'.rootHdr = m.rootHdr) (h2 : m'.rootKids = m.rootKids) (hm : m.filesOk) : m'.filesOk := by
  unfold Model.filesOk at *
  rw [h1, h2]; exact hm

theorem filesOk_congr (w w' : World) (h : w'.models = w.models) (hw : w.filesOk) : w'.filesOk := by
  intro m hm; rw [h] at hm; exact hw m hm

section
variable (S : Spec) (V : Env)

theorem opNamed_ok (w : World) (p name : Nat) (item : Bytes) (pos : Option Nat) (hw : w.filesOk) :
    (opNamed S V w p name item pos).1.filesOk := by
  unfold opNamed
  split
  · exact hw
  · rename_i k c _
    dsimp only
    repeat' (first | exact hw | split)
    all_goals (
      apply filesOk_update w k _ _ hw ?_ rfl
      apply filesOk_of_eq (Model.setRoot _ _) _ rfl rfl
      apply setRoot_ok _ _ (getElem!_ok w k hw)
      apply rootOk_modify _ _ _ _ (getElem!_ok w k hw)
      intro h kk pe hk
      refine ⟨rfl, FilesOk_insertAt _ kk pe _ ?_ hk⟩
      intro r hr
      refine ⟨by simp [newHdr], ?_, hr⟩
      -- the SHORT-NAME child has no file set either
      first
        | trivial
        | exact ⟨by simp [newHdr], trivial, trivial⟩
        | (split <;> first | trivial | exact ⟨by simp [newHdr], trivial, trivial⟩)
        | (split <;> first | trivial | (split <;> first | trivial | exact ⟨by simp [newHdr], trivial, trivial⟩)))

theorem opCData_ok (w : World) (x : Nat) (v : CDv) (hw : w.filesOk) : (opCData S V w x v).1.filesOk := by
  unfold opCData
  split
  · exact hw
  · split
    · exact hw
    · split
      · exact hw
      · split
        · exact hw
        · rename_i k c _
          dsimp only
          split
          · exact hw
          · split
            · exact hw
            · split
              · exact hw
              · split
                · exact hw
                · apply filesOk_update w k _ _ hw ?_ rfl
                  apply filesOk_of_eq (Model.setRoot _ _) _ rfl rfl
                  apply setRoot_ok _ _ (getElem!_ok w k hw)
                  apply rootOk_modify _ _ _ _ (getElem!_ok w k hw)
                  intro h kk pe _
                  exact ⟨rfl, trivial⟩

theorem opRmCData_ok (w : World) (x : Nat) (hw : w.filesOk) : (opRmCData S w x).1.filesOk := by
  unfold opRmCData
  repeat' (first | exact hw | split)
  all_goals (
    apply filesOk_update w _ _ _ hw ?_ rfl
    apply filesOk_of_eq (Model.setRoot _ _) _ rfl rfl
    apply setRoot_ok _ _ (getElem!_ok w _ hw)
    apply rootOk_modify _ _ _ _ (getElem!_ok w _ hw)
    intro h kk pe _
    exact ⟨rfl, trivial⟩)

theorem setAttrHdr_files (h : Hdr) (a : Nat) (v : CDv) (ver : Nat) : ((setAttrHdr S V h a v ver).getD h).files = h.files := by
  unfold setAttrHdr
  split
  · rfl
  · split
    · rfl
    · split
      · rfl
      · split <;> rfl

theorem opAttr_ok (w : World) (x a : Nat) (v : CDv) (hw : w.filesOk) : (opAttr S V w x a v).1.filesOk := by
  unfold opAttr
  split
  · exact hw
  · rename_i k c _
    dsimp only
    repeat' (first | exact hw | split)
    all_goals (
      apply filesOk_update w k _ _ hw ?_ rfl
      apply setRoot_ok _ _ (getElem!_ok w k hw)
      apply rootOk_modify _ _ _ _ (getElem!_ok w k hw)
      intro h kk pe hk
      exact ⟨setAttrHdr_files S V h a v _, hk⟩)

theorem opAttrS_ok (w : World) (x a : Nat) (s : Bytes) (hw : w.filesOk) : (opAttrS S V w x a s).1.filesOk := by
  unfold opAttrS
  split
  · exact hw
  · rename_i k c _
    dsimp only
    repeat' (first | exact hw | split)
    all_goals (
      apply filesOk_update w k _ _ hw ?_ rfl
      apply setRoot_ok _ _ (getElem!_ok w k hw)
      apply rootOk_modify _ _ _ _ (getElem!_ok w k hw)
      intro h kk pe hk
      refine ⟨?_, hk⟩
      dsimp only
      split <;> rfl)

theorem opRmAttr_ok (w : World) (x a : Nat) (hw : w.filesOk) : (opRmAttr S w x a).1.filesOk := by
  unfold opRmAttr
  split
  · repeat' (first | exact hw | split)
    all_goals exact filesOk_congr w _ rfl hw
  · rename_i k c _
    dsimp only
    repeat' (first | exact hw | split)
    all_goals (
      apply filesOk_update w k _ _ hw ?_ rfl
      apply setRoot_ok _ _ (getElem!_ok w k hw)
      apply rootOk_modify _ _ _ _ (getElem!_ok w k hw)
      intro h kk pe hk
      exact ⟨rfl, hk⟩)

theorem opComment_ok (w : World) (x : Nat) (cm : Option Bytes) (hw : w.filesOk) : (opComment w x cm).1.filesOk := by
  unfold opComment
  split
  · exact filesOk_congr w _ rfl hw
  · rename_i k _ _
    apply filesOk_update w k _ _ hw ?_ rfl
    apply setRoot_ok _ _ (getElem!_ok w k hw)
    apply rootOk_modify _ _ _ _ (getElem!_ok w k hw)
    intro h kk pe hk
    exact ⟨rfl, hk⟩

theorem opInsText_ok (w : World) (x pos : Nat) (s : Bytes) (hw : w.filesOk) : (opInsText S w x pos s).1.filesOk := by
  unfold opInsText
  split
  · exact hw
  · rename_i k c _
    dsimp only
    repeat' (first | exact hw | split)
    all_goals (
      apply filesOk_update w k _ _ hw ?_ rfl
      apply setRoot_ok _ _ (getElem!_ok w k hw)
      apply rootOk_modify _ _ _ _ (getElem!_ok w k hw)
      intro h kk pe hk
      exact ⟨rfl, FilesOk_insertAt _ kk pe _ (fun r hr => hr) hk⟩)

theorem opRmText_ok (w : World) (x pos : Nat) (hw : w.filesOk) : (opRmText S w x pos).1.filesOk := by
  unfold opRmText
  split
  · exact hw
  · rename_i k c _
    dsimp only
    repeat' (first | exact hw | split)
    all_goals (
      apply filesOk_update w k _ _ hw ?_ rfl
      apply setRoot_ok _ _ (getElem!_ok w k hw)
      apply rootOk_modify _ _ _ _ (getElem!_ok w k hw)
      intro h kk pe hk
      exact ⟨rfl, FilesOk_removeAt kk pe _ hk⟩)

theorem opSetVersion_ok (w : World) (f ver : Nat) (hw : w.filesOk) : (opSetVersion S w f ver).1.filesOk := by
  unfold opSetVersion
  split
  · exact hw
  · dsimp only
    split
    · exact hw
    · split
      · apply filesOk_update w _ _ _ hw ?_ rfl
        exact filesOk_of_eq _ _ rfl rfl (getElem!_ok w _ hw)
      · exact hw

end
end AV.W
