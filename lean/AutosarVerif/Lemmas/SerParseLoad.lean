/-
C01, element level, Stage 4, corollary: `load_buffer` of the serialized text into a model without files makes the parsed
root element the root of the model — the tree of the text, ids shifted.
-/
import AutosarVerif.Lemmas.SerParseDoc
import AutosarVerif.Model.Load

namespace AV.SerParse
open AV.W AV.Lex AV.PM AV.SerLex

/-- **C01 — `load_buffer` rebuilds the serialized tree.**  Loading the xml declaration followed by the serializer's
text of a valid root element `h` with content `k` into the model `kx` (which has no file yet), in either mode: the load
is accepted; the model's root element is `h` with the first fresh id, in the new file; its content is `k` with the same
names, types, attributes, comments, values and order, the ids assigned in document order from `w.nextId + 1`; the file
has the version and the `standalone` flag of the text; there is no warning. -/
theorem opLoad_serialized (S : Spec) (V : Env) (nmAutosar ver : Nat) (w : World) (kx : Nat) (m : Model) (name : Bytes)
    (strict : Bool) (sa : Option Bool) (h : Hdr) (k : Items) (bytes : Bytes)
    (hm : w.models[kx]? = some m) (hfiles : m.files = [])
    (hwf : wfItems V (.elem h k .nil) = true)
    (hser : serForest S V none 0 false (.elem h k .nil) = some bytes)
    (hvalid : ValidRoot S V nmAutosar ver h k) :
    ∃ w' ans m', opLoad S V nmAutosar w kx name strict (xmlDecl sa ++ bytes) = (w', .ok ans) ∧
      w'.models[kx]? = some m' ∧
      m'.rootHdr = { h with id := w.nextId, parent := .model kx, files := [w.nextFile] } ∧
      m'.rootKids = relabel (.elem w.nextId) (w.nextId + 1) k ∧
      m'.files = [{ id := w.nextFile, name := name, version := ver, standalone := sa }] ∧
      w'.nextId = w.nextId + 1 + cnt k ∧ w'.nextFile = w.nextFile + 1 := by
  obtain ⟨st, he, hw, hv, hs, hn⟩ := runParser_serialized S V sa h k bytes w.nextId nmAutosar ver strict hwf hser hvalid
  have hlt : kx < w.models.length := by
    rcases Nat.lt_or_ge kx w.models.length with h1 | h1
    · exact h1
    · rw [List.getElem?_eq_none h1] at hm; cases hm
  simp only [opLoad, hm, hfiles, he, List.any_nil, Bool.false_eq_true, if_false, List.isEmpty_nil, if_true]
  exact ⟨_, _, _, rfl, List.getElem?_set_self hlt, rfl, rfl, by simp only [hv, hs], hn, rfl⟩

end AV.SerParse
