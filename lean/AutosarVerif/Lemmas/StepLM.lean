/-
The fifth alphabet `OpM` — everything whose step keeps `Inv` (parent fields in step with the structure, local file sets within
the effective set of the parent) WITHOUT the index invariant: the core operations, rename, sort, `set_reference_target`
(guarded by unique element ids in the state), and `load_buffer` both as a first load and as a MERGING load (guarded by a
decidable predicate of the state: unique element ids in the model).
`ReachLM` starts from any state of the fourth alphabet (`ReachL`: moves, copies and guarded first loads included) and
continues with guarded steps of `OpM`.

* `reachLM_inv`: `Inv` in every state of `ReachLM`;
* `LoadMergeWitness`: regression for the repaired defect c10 (merge restricted the elements that are only in the model to
  ALL files of the model instead of the file set of the root element): the history that violated C10 before the repair now
  ends in a state with `filesOk`, passes the guard of the fifth alphabet, and is a history of `ReachLM`.
-/
import AutosarVerif.Lemmas.StepL
import AutosarVerif.Lemmas.LoadMerge

namespace AV.W
open Items AV.PM AV.LoadInv

instance decFilesOkLM : (pe : List Nat) → (its : Items) → Decidable (FilesOk pe its)
  | _, .nil => isTrue trivial
  | pe, .text _ r => decFilesOkLM pe r
  | pe, .elem h k r =>
    have := decFilesOkLM (effOf pe h) k
    have := decFilesOkLM pe r
    inferInstanceAs (Decidable ((∀ g ∈ h.files, g ∈ pe) ∧ FilesOk (effOf pe h) k ∧ FilesOk pe r))

inductive OpM
  | x (op : OpX)
  | load (k : Nat) (name : Bytes) (strict : Bool) (buf : Bytes)

section
variable (S : Spec) (V : Env) (vOk : Nat) (rootAttrs : List (Nat × CDv)) (nmAutosar : Nat)

def applyOpM (w : World) : OpM → World × String
  | .x op => applyOpX S V rootAttrs w op
  | .load k name strict buf => ((opLoad S V nmAutosar w k name strict buf).1, (opLoad S V nmAutosar w k name strict buf).2.show)

/-- the guard of a load in the state `w`: a model without files takes any document; a model with files must have pairwise
different element ids below its root (nothing is asked of the file sets or the file ids) -/
def MLoadOk (w : World) (k : Nat) : Prop :=
  match w.models[k]? with
  | none => True
  | some m => m.files.isEmpty = true ∨ m.rootKids.ids.Nodup

instance (w : World) (k : Nat) : Decidable (MLoadOk w k) := by
  unfold MLoadOk
  split <;> infer_instance

instance (w : World) : Decidable (WIds w) := by unfold WIds; infer_instance

/-- the guard of one step: `set_reference_target` needs unique element ids, a load needs `MLoadOk` -/
def StepOkM (w : World) : OpM → Prop
  | .x op => op.noSetRef ∨ WIds w
  | .load k _ _ _ => MLoadOk w k

instance (w : World) (op : OpM) : Decidable (StepOkM w op) := by
  cases op <;> simp only [StepOkM] <;> infer_instance

/-- the states reachable from a state of the fourth alphabet by guarded steps of the fifth -/
inductive ReachLM : World → Prop
  | base (w : World) : ReachL S V vOk rootAttrs nmAutosar w → ReachLM w
  | step (w : World) (op : OpM) : ReachLM w → StepOkM w op → ReachLM (applyOpM S V rootAttrs nmAutosar w op).1

variable {S V vOk rootAttrs nmAutosar}

theorem applyOpM_load (w : World) (k : Nat) (name : Bytes) (strict : Bool) (buf : Bytes) :
    (applyOpM S V rootAttrs nmAutosar w (.load k name strict buf)).1 = (opLoad S V nmAutosar w k name strict buf).1 := rfl

/-- a load into a model without files keeps `Inv`, whatever the document -/
theorem opLoad_first_inv (w : World) (k : Nat) (m : Model) (name : Bytes) (strict : Bool) (buf : Bytes)
    (hm : w.models[k]? = some m) (hemp : m.files = []) (hi : Inv w) : Inv (opLoad S V nmAutosar w k name strict buf).1 := by
  cases hr : runParser S V strict buf w.nextId nmAutosar with
  | mk r st =>
    cases r with
    | error e => rw [opLoad_error w k m name strict buf e st hm hr]; exact hi
    | ok hk =>
      obtain ⟨h, kids⟩ := hk
      rw [opLoad_first_eq S V nmAutosar w k m name strict buf h kids st hm hemp hr]
      exact ⟨wf_update w k _ _ hi.1 (firstModel_wfM S V nmAutosar k w.nextFile name strict buf w.nextId h kids st hr) rfl,
        filesOk_update w k _ _ hi.2 (firstModel_filesOk S V nmAutosar k w.nextFile name strict buf w.nextId h kids st hr) rfl⟩

/-- one guarded step of the fifth alphabet keeps `Inv` -/
theorem applyOpM_inv (w : World) (op : OpM) (hop : StepOkM w op) (hi : Inv w) :
    Inv (applyOpM S V rootAttrs nmAutosar w op).1 := by
  cases op with
  | x op =>
    rcases hop with hop | hop
    · exact applyOpX_inv_noSetRef S V rootAttrs w op hop hi
    · cases op with
      | core op => exact applyOp_inv S V rootAttrs w op hi
      | rename x nm => exact opRename_inv S V w x nm hi
      | sort x => exact opSort_inv S V w x hi
      | setref x t => exact opSetRef_inv S V w x t hop hi
  | load k name strict buf =>
    show Inv (opLoad S V nmAutosar w k name strict buf).1
    unfold StepOkM MLoadOk at hop
    cases hm : w.models[k]? with
    | none => rw [opLoad_none w k name strict buf hm]; exact hi
    | some m =>
      simp only [hm] at hop
      rcases hop with hemp | hn
      · exact opLoad_first_inv w k m name strict buf hm (by simpa using hemp) hi
      · cases hf : m.files.isEmpty with
        | true => exact opLoad_first_inv w k m name strict buf hm (by simpa using hf) hi
        | false => exact opLoad_merge_inv S V nmAutosar w k m name strict buf hm hf hn hi

/-- **`Inv` in every state reachable through core operations, rename, sort, set_reference_target, move, copy, guarded first
loads (the prefix of the fourth alphabet) and then core operations, rename, sort, set_reference_target, first loads and
MERGING loads** -/
theorem reachLM_inv (hH : IdxHyp S V vOk) (hR : RefWF S) (hv32 : vOk &&& 0xFFFFFFFF = vOk)
    (hroot : nmAutosar ≠ S.nmShortName) (hNoSub : ∀ t, S.isRef t = true → S.subCount t = 0) {w : World}
    (h : ReachLM S V vOk rootAttrs nmAutosar w) : Inv w := by
  induction h with
  | base w hw => exact (reachL_ginv hH hR hv32 hroot hNoSub hw).1
  | step w op _ hop ih => exact applyOpM_inv w op hop ih

end

/-! ### regression: the history that violated C10 before the repair of `merge_file_data` -/

namespace LoadMergeWitness
open AV.LoadInv.Witness AV.W.LoadExamples

/-- the document with an empty root element -/
def emptyDoc : Bytes := [60, 63, 120, 109, 108, 32, 118, 101, 114, 115, 105, 111, 110, 61, 34, 49, 46, 48, 34, 32, 101, 110, 99, 111, 100, 105, 110, 103, 61, 34, 117, 116, 102, 45, 56, 34, 63, 62, 10, 60, 82, 32, 120, 109, 108, 110, 115, 61, 34, 104, 116, 116, 112, 58, 47, 47, 97, 117, 116, 111, 115, 97, 114, 46, 111, 114, 103, 47, 115, 99, 104, 101, 109, 97, 47, 114, 52, 46, 48, 34, 32, 120, 109, 108, 110, 115, 58, 120, 115, 105, 61, 34, 104, 116, 116, 112, 58, 47, 47, 119, 119, 119, 46, 119, 51, 46, 111, 114, 103, 47, 50, 48, 48, 49, 47, 88, 77, 76, 83, 99, 104, 101, 109, 97, 45, 105, 110, 115, 116, 97, 110, 99, 101, 34, 32, 120, 115, 105, 58, 115, 99, 104, 101, 109, 97, 76, 111, 99, 97, 116, 105, 111, 110, 61, 34, 104, 116, 116, 112, 58, 47, 47, 97, 117, 116, 111, 115, 97, 114, 46, 111, 114, 103, 47, 115, 99, 104, 101, 109, 97, 47, 114, 52, 46, 48, 32, 86, 49, 46, 120, 115, 100, 34, 62, 60, 47, 82, 62]

/-- `new`, `load_buffer` (two packages), `create_file`, `remove_from_file(root, f1)`, `create_named_sub_element(root, B "z")` -/
def preOps : List OpL := [.y (.x (.core .newModel)), .load 0 [102] true goodDoc, .y (.x (.core (.mkFile 0 [103] 1 true))),
  .y (.x (.core (.rmfromfile 0 1))), .y (.x (.core (.named 0 102 [122] none)))]

def wPre : World := runL preOps

def wPost : World := (opLoad ldOkSpec ldOkEnv 100 wPre 0 [104] true emptyDoc).1

/-- every step passes the guard of the fourth alphabet … -/
theorem preOps_reach : ReachL ldOkSpec ldOkEnv 3 [] 100 wPre := by
  have s2 := loadOps_reach
  have s3 := ReachL.step _ (.y (.x (.core (.mkFile 0 [103] 1 true)))) s2 (by decide +kernel)
  have s4 := ReachL.step _ (.y (.x (.core (.rmfromfile 0 1)))) s3 (by decide +kernel)
  exact ReachL.step _ (.y (.x (.core (.named 0 102 [122] none)))) s4 (by decide +kernel)

/-- … so the full invariant holds before the load: the root is in file 0 only, the model has the files 0 and 1, the new
package 5 has no file set of its own -/
theorem wPre_ginv : GInv ldOkSpec 3 wPre :=
  reachL_ginv ldOkSpec_hyp ldOkSpec_refWF (by decide) (by decide) (fun t h => by rw [ldOkSpec_isRef] at h; cases h) preOps_reach

theorem wPre_state : wPre.models.map (fun m => (m.rootHdr.files, m.files.map (·.id), m.rootItems.hdrs.map (fun h => (h.id, h.files)))) =
    [([0], [0, 1], [(0, [0]), (1, [0]), (2, []), (3, [0]), (4, []), (5, []), (6, [])])] := by decide +kernel

/-- the merging load of a document with an empty root is accepted; the package 5, which is only in the model and has no file
set of its own, is restricted to the file set of the ROOT ELEMENT before the load (file 0).  (Before the repair of
`merge_file_data` it was restricted to ALL files of the model, `[0, 1]`, although its parent, the root, is in the files 0 and
2 afterwards: the state violated C10, `¬ wPost.filesOk`; confirmed on the library, repaired.) -/
theorem wPost_state : (opLoad ldOkSpec ldOkEnv 100 wPre 0 [104] true emptyDoc).2.show = "ok f2 w0 -" ∧
    wPost.models.map (fun m => (m.rootHdr.files, m.files.map (·.id), m.rootItems.hdrs.map (fun h => (h.id, h.files)))) =
    [([0, 2], [0, 1, 2], [(0, [0, 2]), (1, [0]), (2, []), (3, [0]), (4, []), (5, [0]), (6, [])])] := by decide +kernel

/-- **regression: C10 holds after the load** (checked on the state) … -/
theorem wPost_filesOk : wPost.filesOk := by
  have : ∀ m ∈ wPost.models, FilesOk m.rootHdr.files m.rootKids := by decide +kernel
  exact this

/-- … the load passes the guard of the fifth alphabet … -/
example : MLoadOk wPre 0 := by decide +kernel

/-- … so the state after it is a state of `ReachLM`, and `Inv` holds BY THE THEOREM -/
theorem wPost_reach : ReachLM ldOkSpec ldOkEnv 3 [] 100 wPost := by
  have h : ReachLM ldOkSpec ldOkEnv 3 [] 100 (applyOpM ldOkSpec ldOkEnv [] 100 wPre (.load 0 [104] true emptyDoc)).1 :=
    ReachLM.step _ _ (ReachLM.base _ preOps_reach) (by decide +kernel)
  rw [applyOpM_load] at h
  exact h

theorem wPost_inv : Inv wPost :=
  reachLM_inv ldOkSpec_hyp ldOkSpec_refWF (by decide) (by decide) (fun t h => by rw [ldOkSpec_isRef] at h; cases h) wPost_reach

/-- non-vacuity: the guard admits the merging load of the same document under another name into the model right after its
first load, the load is accepted (the two packages of the document merge with the two of the model, nothing is added) -/
example : MLoadOk (runL loadOps) 0 ∧
    (opLoad ldOkSpec ldOkEnv 100 (runL loadOps) 0 [105] true goodDoc).2.show = "ok f1 w0 -" ∧
    (opLoad ldOkSpec ldOkEnv 100 (runL loadOps) 0 [105] true goodDoc).1.models.map
      (fun m => (m.rootHdr.files, m.rootItems.hdrs.map (fun h => (h.id, h.files)))) =
      [([0, 1], [(0, [0, 1]), (1, []), (2, []), (3, []), (4, [])])] := by decide +kernel

end LoadMergeWitness
end AV.W
