/-
Non-vacuity of `opDup_faithful` (`Lemmas/DupFaithful.lean`): a reachable world on the toy specification `mvSpec` (two files of ONE
version) in which every hypothesis holds (`decide`), the conclusion instantiated, and the copy shown; and the witness that the
hypothesis `hroot` cannot be dropped (a comment on the root element is not copied).
-/
import AutosarVerif.Lemmas.DupFaithful
import AutosarVerif.Lemmas.DupWitness
import AutosarVerif.Lemmas.StepYWitness

namespace AV.W
open AV Items

/-- the history of `MoveOpWitness.lean` (file f0 of version 2; package "a" (e1) with a Q (e3) holding an X-REF e4; package "c" (e5)
with a Q (e7) holding an X-REF e8), then a second file f1 of the same version; the package "c" is put into f1 and taken out of f0 -/
def dupOps1 : List OpY :=
  (mvOps ++ [Op.mkFile 0 [103] 2 true, Op.addfile 5 1, Op.rmfromfile 5 0]).map fun op => OpY.x (.core op)

def dupW1 : World := runY mvSpec nameEnv [] emptyWorld dupOps1

theorem dupW1_reach : ReachY mvSpec nameEnv 6 [] dupW1 :=
  reachY_run dupOps1 emptyWorld ReachY.empty (guardsY_of_S _ _ (by decide))


theorem dupW1_ginv_sep : GInv mvSpec 6 dupW1 ∧ SepInv dupW1 :=
  reachY_ginv_sep mvSpec_hyp mvSpec_refWF (by decide) dupW1_reach

/-- the original, in document order: (id, name, local file set); its files (id, name, version): ONE version -/
theorem dupW1_orig :
    (dupW1.models.map fun m => m.rootItems.hdrs.map fun h => (h.id, h.name, h.files)) =
      [[(0, 100, [0, 1]), (1, 101, [0]), (2, 999, []), (3, 103, []), (4, 105, []),
        (5, 101, [1]), (6, 999, []), (7, 103, []), (8, 105, [])]] ∧
    (dupW1.models.map fun m => m.files.map fun f => (f.id, f.name, f.version)) = [[(0, [102], 2), (1, [103], 2)]] := by decide

/-- the model 0 of the witness world -/
def dupM1 : Model := dupW1.models[0]!

theorem dupW1_get : dupW1.models[0]? = some dupM1 := by
  have h : (dupW1.models[0]?).isSome = true := by decide
  cases hm : dupW1.models[0]? with
  | none => rw [hm] at h; cases h
  | some m => simp only [dupM1, getElem!_def, hm]

/-- the decidable hypotheses of `opDup_faithful` hold in the witness world -/
theorem dupW1_hyps :
    (∀ m ∈ dupW1.models, dupW1.nextId ∉ m.rootItems.ids) ∧ dupM1.files.isEmpty = false ∧
    (dupM1.rootHdr.name = mvSpec.defName mvSpec.rootDef ∧ dupM1.rootHdr.attrs = [] ∧ dupM1.rootHdr.comment = none) ∧
    dupM1.rootKids.length = dupM1.rootKids.childElems.length ∧
    (∀ c ∈ dupM1.rootKids.childElems, c.1.name ≠ mvSpec.nmShortName) ∧
    (∀ c ∈ dupM1.rootKids.childElems, allCompatB mvSpec (dupVer nameEnv dupM1.files) c.1 c.2 = true) ∧
    AppendOk mvSpec dupM1.rootHdr (dupVer nameEnv dupM1.files) [] dupM1.rootKids.childElems ∧
    dupVer nameEnv dupM1.files = 2 ∧ (∀ f ∈ dupM1.files, f.version = 2) ∧
    (opDup mvSpec nameEnv [] dupW1 0).2.isOk = true := by
  rw [opDup_eq_S]; decide

/-- **non-vacuity of `opDup_faithful`**: its conclusion for the witness world, from the theorem -/
theorem dupW1_faithful :
    GInv mvSpec 6 (opDup mvSpec nameEnv [] dupW1 0).1 ∧
    ∃ m3, (opDup mvSpec nameEnv [] dupW1 0).1.models[dupW1.models.length]? = some m3 ∧
      m3.rootItems.shape = dupM1.rootItems.shape ∧
      m3.rootItems.mapHdrs Hdr.anon =
        dupM1.rootItems.mapHdrs (fun h => { h.anon with files := h.files.filterMap (dupMapF dupM1 m3) }) := by
  obtain ⟨h1, h2, h3, h4, h5, h6, h7, _, _, h10⟩ := dupW1_hyps
  obtain ⟨p, hp⟩ : ∃ p, (opDup mvSpec nameEnv [] dupW1 0).2 = .ok p := by
    cases h : (opDup mvSpec nameEnv [] dupW1 0).2 with
    | ok p => exact ⟨p, rfl⟩
    | err => rw [h] at h10; cases h10
    | unsupported => rw [h] at h10; cases h10
  exact opDup_faithful [] mvSpec_hyp mvSpec_refWF (by decide) dupW1 0 dupM1 dupW1_ginv_sep.1 dupW1_ginv_sep.2.1 h1 dupW1_get h2 h3 h4 h5
    (fun c hc => allCompatB_sound mvSpec _ c.1 c.2 (h6 c hc)) h7 p hp

/-- the conclusion checked by evaluation: the copy (model 1), in document order (id, name, local file set) — the same names in the
same order, the file sets {f0,f1}, {f0}, {f1} replaced by {f2,f3}, {f2}, {f3}; its files; its path index and reference map -/
theorem dupW1_copy :
    ((opDup mvSpec nameEnv [] dupW1 0).1.models.map fun m => m.rootItems.hdrs.map fun h => (h.id, h.name, h.files)) =
      [[(0, 100, [0, 1]), (1, 101, [0]), (2, 999, []), (3, 103, []), (4, 105, []),
        (5, 101, [1]), (6, 999, []), (7, 103, []), (8, 105, [])],
       [(9, 100, [2, 3]), (10, 101, [2]), (11, 999, []), (12, 103, []), (13, 105, []),
        (14, 101, [3]), (15, 999, []), (16, 103, []), (17, 105, [])]] ∧
    ((opDup mvSpec nameEnv [] dupW1 0).1.models.map fun m => m.files.map fun f => (f.id, f.name, f.version)) =
      [[(0, [102], 2), (1, [103], 2)], [(2, [102], 2), (3, [103], 2)]] ∧
    ((opDup mvSpec nameEnv [] dupW1 0).1.models.map fun m => (m.index, m.refs)) =
      [([([47, 97], 1), ([47, 99], 5)], [([47, 99], [4]), ([47, 99, 47, 122, 122], [8])]),
       ([([47, 97], 10), ([47, 99], 14)], [([47, 99], [13]), ([47, 99, 47, 122, 122], [17])])] := by
  rw [opDup_eq_S]; decide

/-! ### the hypothesis `hroot` cannot be dropped: `duplicate` does not copy comment (or attributes) of the root element -/

/-- the witness world with a comment on the root element `<AUTOSAR>` (a core operation: the world is reachable) -/
def dupW1c : World := runY mvSpec nameEnv [] dupW1 [.x (.core (.comment 0 (some [120])))]

/-- `duplicate` answers `ok`, the root of the original carries the comment, the root of the copy does not: the copy is NOT equal to
the original up to identities and file ids -/
theorem dup_root_comment_not_copied :
    (opDup mvSpec nameEnv [] dupW1c 0).2.isOk = true ∧
    ((opDup mvSpec nameEnv [] dupW1c 0).1.models.map fun m => m.rootHdr.comment) = [some [120], none] := by
  rw [opDup_eq_S]; decide

end AV.W
